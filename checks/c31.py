CONFIG = dict(
    prop="C31",
    ready=True,
    manifest=dict(
        text="Machine-checked Lean 4 theorems, for ALL 64/32-bit arguments, about definitions that are REGENERATED on every run "
             "from mathutil.go, fee.go and UxOut.CoinHours by a Go->Lean translator: each checked helper equals its mathematical "
             "spec (error iff the exact result does not fit), RequiredFee = ceil(h/bf), RemainingHours never underflows and is "
             "monotone, CoinHours = hours + floor(coins*dt/3.6e9) with an error exactly when an intermediate or the final sum "
             "leaves 64 bits. A differential run of the real Go functions against the executable spec (boundary grid, constructed "
             "overflow witnesses, seeded random) validates the translator and supplies the failing input when a proof breaks.",
        note="Trusted: Lean kernel (+propext, Classical.choice, Quot.sound), the gosubset translator (syntactic; unsupported shapes are "
             "rejected, not defaulted), Go's wrap-around semantics for uintN as modelled by wrapN/subN. Burn factor 0 is outside the "
             "property (spec records the division panic).",
        technique="Lean 4 proof over translator-regenerated definitions + differential correspondence",
    ),
    translators=["gosubset"],
    gen_drivers=["drv_c31gen"],
    props_files=["Sky/Props/C31.lean"],
    model_files=["Sky/C31/Spec.lean", "Sky/Prim/Res.lean"],
    min_ops={"quick": 3000, "thorough": 100000},
    trusted_base=[
        "Lean 4.33.0 kernel; axioms allowed: propext, Classical.choice, Quot.sound (audited by #print axioms)",
        "tools/extract/gosubset: syntactic Go->Lean translation of the integer subset (uintN as Nat with explicit wrap)",
        "harness/c31.go + Sky/C31/Drv.lean: differential run of the real functions against the specification",
    ],
    assumptions=[
        "Go uint64/uint32/int arithmetic is two's-complement wrap-around as modelled by wrapN/subN/wrapI64",
        "arguments range over the full 64/32-bit types (hypotheses a < 2^64 etc.)",
        "burn factor 0 (division by zero panic) is outside the property's quantifier; the spec records the panic",
    ],
    rule="boundary grid {0,1,2,3,2^31±1,2^32±1,2^63±1,2^64-2,2^64-1}^2 for every helper + constructed coin-hour "
         "overflow witnesses + seeded mixed-magnitude random arguments; distinct = distinct (op,result) lines",
)
