CONFIG = dict(
    prop="C13",
    ready=True,
    manifest=dict(
        text="Machine-checked Lean 4 theorems about a model of wallet.SignTransaction (validateSignIndexes, the address->inputs "
             "map, key lookup among the wallet's entries, Transaction.SignInput, the final full/partial-signature checks), for all "
             "wallets, transactions and index selections: signed_set_exact (the signatures that differ from the argument are exactly "
             "the named inputs, or all unsigned inputs when none are named), signed_preserves (inputs, outputs, inner hash and every "
             "other signature unchanged), no_overwrite (an already signed input is never re-signed; naming one is an error), "
             "sigs_verify (under the explicit SigScheme hypothesis and entry consistency, every produced signature verifies for the "
             "address of the spent output over (inner hash, uxid)), cant_sign (xpub / encrypted wallets and missing keys give an "
             "error), created_sigs_verify (every signature of a transaction created and signed by CreateTransactionSigned verifies for "
             "the address of the output its input spends, for any order in which the chosen inputs revisit addresses). 'Fails without partial effect' is a property of the functional model by construction; on the Go side (copy of "
             "the transaction) it is carried by the tie: the caller's transaction bytes are compared before/after every call. "
             "Tie: real wallet.SignTransaction on real deterministic, bip44, collection and xpub wallets (plain and encrypted) x "
             "ownership patterns x index selections x partially pre-signed transactions; each resulting signature is classified "
             "null / kept byte-identical / new-and-verifies (cipher.VerifyAddressSignedHash) and compared with the model; the driver "
             "also evaluates the property directly on the implementation's answer. Visor.WalletSignTransaction is driven on a real visor + wallet service (partially signed transactions over real unspents, index lists naming already-signed inputs, resubmission of a request on its result must be refused: theorem resubmit_refused). wallets LOCKED, extended by further addresses while locked and unlocked only for the call (wallet.GuardView) sign for those addresses too, owners and keys taken from the never-locked twin. created_never_panics: the signing loop of CreateTransactionSigned signs or returns an error (watch-only xpub wallets, whose entries have no secret key, are refused - they panicked before repair 509cd7e80); wallet.CreateTransactionSigned is driven over "
             "multi-address wallets with interleaved ownership orders (A,B,A ...) and every input signature is verified against its owner.",
        note="Signatures are random-nonce ECDSA: compared by verification, not byte-for-byte. Precondition of the theorems' panic-"
             "freedom: |sigs| = |inputs| (a transaction that passed Verify, as Visor.WalletSignTransaction guarantees); outside it the "
             "Go function indexes past the signature slice and the model records that panic (exercised by the harness, not a finding "
             "against the property). Entries with a null secret key (MustSignHash panic) cannot be built through the wallet APIs.",
        technique="Lean 4 proof on a hand-written executable model + differential correspondence on real wallets",
    ),
    translators=[],
    props_files=["Sky/Props/C13.lean"],
    model_files=["Sky/C13/Model.lean", "Sky/C13/Drv.lean"],
    min_ops={"quick": 300, "thorough": 5000},
    trusted_base=[
        "Lean 4.33.0 kernel; axioms allowed: propext, Classical.choice, Quot.sound (audited by #print axioms)",
        "lean/Sky/C13/Model.lean: hand-written model of src/wallet/transaction.go SignTransaction, tied by harness/c13",
    ],
    assumptions=[
        "SigScheme: a signature made with key k over (inner hash, uxid) verifies for addrOf k (hypothesis of sigs_verify only)",
        "wallet entries are consistent: entry.addr = addrOf entry.sec (hypothesis of sigs_verify only)",
        "|sigs| = |inputs| for panic-freedom (transactions that passed Transaction.Verify)",
    ],
    rule="real wallets of 4 types (1-5 entries, 8% encrypted) x 0-6 inputs owned / foreign / duplicate owners x existing signatures "
         "none / some valid / some garbage / nearly all x index selection empty / exactly the unsigned / subset / includes signed / "
         "duplicate / out of range (negative, = n, huge) / permuted x 4% malformed signature-array lengths x 3% bad inner hash",
)
