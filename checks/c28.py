import re, json, os

def _post(R, lines, diffs):
    """generator-blindness floor: every route of the regenerated table requested, handlers mostly reached
    with parameters they accept (2xx) as well as rejected ones, the modelled entry point exercised in every class."""
    if len(lines) < 1000:
        return
    here = os.path.dirname(os.path.dirname(os.path.abspath(__file__)))
    table = json.load(open(os.path.join(here, "lean/Sky/Gen/routes.json")))
    seen, st = {}, {}
    for op, impl in lines:
        m = re.match(r"http m=(\S+) p=(\S+)", op)
        if m:
            seen.setdefault(m.group(2), set()).add(impl)
            st[impl] = st.get(impl, 0) + 1
    unreq = [r["path"] for r in table["routes"] if not r["gui"] and r["path"] not in seen]
    if unreq:
        raise RuntimeError("broken harness: routes never requested: %s" % unreq[:5])
    no200 = [r["path"] for r in table["routes"] if not r["gui"] and r["path"] not in ("/",) and "ok 200" not in seen[r["path"]]]
    R.coverage["routes_requested"] = len(seen)
    R.coverage["routes_without_a_200"] = no200
    n = sum(st.values())
    if st.get("ok 200", 0) * 8 < n or st.get("ok 400", 0) * 20 < n:
        raise RuntimeError("broken harness: status mix degenerate: %s" % st)
    # the node has no peers and CSRF is off, so these four can only answer 404/503; any other route must
    # have been driven with parameters it accepts at least once
    no200 = [p for p in no200 if p not in ("/api/v1/csrf", "/api/v1/network/connection", "/api/v1/network/connection/disconnect",
                                            "/api/v1/resendUnconfirmedTxns")]
    if len(no200) > 2:
        raise RuntimeError("broken harness: too many routes never answered 200 (parameters never valid): %s" % no200)
    kinds = set(re.search(r"k=(\S+)", op).group(1) for op, _ in lines if op.startswith("verify "))
    if len(kinds) < 15:
        raise RuntimeError("broken harness: verify kinds %s" % sorted(kinds))

def _dist(op, impl):
    if op.startswith("http "):
        m = re.match(r"http m=(\S+) p=(\S+)", op)
        return "%s %s -> %s" % (m.group(1), m.group(2), " ".join(impl.split(" ")[:2]))
    if op.startswith("verify "):
        return "verify %s -> %s" % (re.search(r"k=(\S+)", op).group(1), impl)
    return op.split(" ")[0] + " -> " + impl

CONFIG = dict(
    prop="C28",
    ready=True,
    manifest=dict(
        text="PARTIAL by design (DESIGN section 5 C28, section 7). Proved in Lean 4, for all states and transactions: the model of "
             "Visor.VerifyTxnVerbose (control flow between unspent pool, history and block store, with the nil *historydb.Transaction "
             "dereference explicit) never panics (verifyTxnVerbose_total); the pre-repair function panics exactly for a not-yet-confirmed "
             "transaction whose inputs are all known and at least one already spent (verifyTxnVerboseF6_panics_iff = defect F6, repaired); "
             "such a double spend now gets the verdict 'hard constraint violated' (double_spend_verdict); the REGENERATED PageIndex.Cal never "
             "panics and always returns a sliceable range (cal_total, cal_range_valid). The model is tied to the real function by `verify` "
             "ops (17 transaction kinds x signed/unsigned on the live node, facts from the harness's own bookkeeping). Everything else behind "
             "the ~53 routes (JSON decoding, net/http, handlers, wallet service, the rest of visor) is NOT modelled: it is exercised by a "
             "grammar-based request generator per endpoint (from the regenerated route table) against a REAL node in-process (real visor on a "
             "scratch bolt chain of 7 blocks + unconfirmed pool, real wallet service with plain/encrypted/bip44 wallets, real kvstorage, real "
             "daemon object, real mux): every response must be a well-formed HTTP response within a deadline; panics are caught with their "
             "stack. That part is testing and is labelled as testing.",
        note="Theorems cover only VerifyTxnVerbose's control flow and paging arithmetic; constraint checks and NewTransactionInputs are "
             "parameters of the model. Request generation bounds decimal exponents and address counts: unbounded ones are recorded findings "
             "(F16, F19) replayed under a timeout. The daemon object is constructed but never run (no peers).",
        technique="Lean 4 totality proofs for the modelled entry points + model correspondence + grammar-based request generation against a real in-process node",
    ),
    translators=["gosubset", "routes"],
    props_files=["Sky/Props/C28.lean"],
    model_files=["Sky/C28/Model.lean", "Sky/C28/Drv.lean"],
    min_ops={"quick": 5000, "thorough": 60000},
    harness_timeout=2400,
    post=_post,
    dist_key=_dist,
    trusted_base=[
        "Lean 4.33.0 kernel; axioms allowed: propext, Classical.choice, Quot.sound (audited by #print axioms)",
        "tools/extract/gosubset (PageIndex.Cal) and tools/extract/routes (route table that drives the request generator)",
        "harness/c28 + Sky/C28/Drv.lean: real node in-process; the verify ops tie the Lean model of VerifyTxnVerbose to the real function",
    ],
    assumptions=[
        "VerifySingleTxn{User,Soft,Hard}Constraints and NewTransactionInputs return normally (error or success) - parameters of the model",
        "a panic inside a handler would be turned into a dropped connection by net/http; the harness records it directly (recover + stack)",
        "deadline 60 s per request in-process; decimal exponents |e| <= 4000 and address counts <= 101 in generated requests",
    ],
    rule="per case: fresh node; 34 verify ops (17 transaction kinds x signed flag) before and after; every route's documented request once; "
         "450 (quick) / 800 (thorough) generated requests per case over all routes of the regenerated table with per-parameter "
         "valid(65%)/malformed/duplicated/empty/missing choice, JSON bodies with type confusion and structural mutations, encoded transactions "
         "of 20 kinds (valid, spending spent/unknown/mixed inputs, confirmed, pooled, unsigned, truncated, bit-flipped, ...) plus 4 valid bases "
         "over real wallet/key unspents x 33 structural mutations (signature array shorter/longer than the inputs, no/duplicate/unknown/spent "
         "inputs, stale/zero inner hash, wrong Length/Type, empty/null/zero/overflowing outputs) sent to the sign / verify / inject endpoints "
         "with matching, locked, wrong and missing wallets and in-range / out-of-range / duplicated / over-long sign_indexes; 30 / 300 cases. "
         "distinct = distinct (op, outcome) lines",
)
