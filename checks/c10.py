CONFIG = dict(
    prop="C10",
    ready=True,
    manifest=dict(
        text="Lean 4 theorems in three layers. (a) byte/scalar level, unconditional, about a model whose list of acceptance tests and "
             "constant tables are REGENERATED from secp256k1.go / secp256k1-go2/secp256k1.go on every run: go_constants (the Go "
             "tables are n, n/2, p, G), accept_sig_iff (VerifySignatureValidity accepts exactly s <= n/2 and recid < 4), "
             "verify_shape_iff (same inside VerifySignature), lowS_unique, negS_rejected, sign_produces_lowS (the textbook signer "
             "that Signature.Sign is compared with byte for byte only produces low-s, recid < 4), highbit_rule_too_weak (the "
             "pre-repair rule, defect F12). (b) abstract prime-order ECDSA over ZMod n (Mathlib): verify_sign, recover_sign, "
             "negS_verifies (a rule on s is necessary), negS_recovers, recid_changes_key. (c) txn_nonmalleable / "
             "block_nonmalleable: any accepted byte string in the same role equals the original, under explicit hypotheses "
             "(canonical exact decoding, injective hashes on the values that occur, strong unforgeability, owners signed only "
             "the original). The tie of (a) to the code is the translator plus a differential run of VerifySignatureValidity, "
             "VerifyPubKeySignedHash, VerifyAddressSignedHash, Signature.Sign, SignHash against the specification, including "
             "crafted tiny-r signatures (both readings of recovery-id bit 1, and the re-encodings r+n with every recovery id, r = n, p-1, p), "
             "a crafted genesis signature on a real follower node, "
             "signatures CONSTRUCTED with s in {1, n/2-1, n/2, n/2+1, n/2+2, 2^255-1, 2^255, 2^255+1, n-1}; the tie of (c) is "
             "the property itself evaluated on the real code: every generated mutation (all/sampled single-bit flips, "
             "append/prepend/truncate, negated s, r+-n, recid xor 1/2/+4, swapped inputs with/without signatures, edited "
             "outputs/length/type) of real signed transactions (Transaction.Verify + VerifyInputSignatures) and of real signed "
             "blocks (Visor.ExecuteSignedBlock on a follower node) must be rejected unless the bytes are the original's.",
        note="Assumed, as hypotheses of the theorems that use them: SUF (strong unforgeability of ECDSA over secp256k1), collision "
             "freedom of SHA-256 on the values hashed, that the secp256k1 points form a prime-order group. Layer (c) is proved for an "
             "abstract record model of Transaction/SignedBlock (field-for-field), not for the byte-level codec; canonical decoding is "
             "the C21/C09 theorem, used here as a hypothesis.",
        technique="Lean 4 proof (core + single Mathlib modules) over translator-regenerated acceptance tests + differential correspondence + mutation search on the real code",
    ),
    translators=["sigconsts"],
    props_files=["Sky/Props/C10.lean"],
    model_files=["Sky/C10/Model.lean", "Sky/C10/Lemmas.lean", "Sky/C10/Reduction.lean", "Sky/C10/ECDSA.lean", "Sky/C10/Drv.lean",
                 "Sky/C14/Spec.lean", "Sky/Crypto/Secp256k1.lean"],
    min_ops={"quick": 3000, "thorough": 30000},
    trusted_base=[
        "Lean 4.33.0 kernel; axioms allowed: propext, Classical.choice, Quot.sound (audited by #print axioms)",
        "Mathlib single modules: Algebra.Field.ZMod, Algebra.Module.Basic, Tactic.FieldSimp, Tactic.Ring, Tactic.Module (Sky/C10/ECDSA.lean only)",
        "tools/extract/sigconsts: syntactic extraction of the signature-shape tests and constant tables (unrecognised tests are rejected)",
        "harness/c10 (+ harness/eclib generator curve, deterministic nonces) + Sky/C10/Drv.lean",
    ],
    assumptions=[
        "strong unforgeability of the signature scheme (hypothesis `suf`), injectivity of the hashes on the values that occur (hypotheses)",
        "canonical exact decoding of Transaction / SignedBlock (hypothesis `canonical`; theorem of C21/C09)",
        "secp256k1 points form a group of prime order n (layer b is stated for any ZMod n-module)",
    ],
    rule="constructed boundary-s signatures x {as is, negated twin}; 25 (250 thorough) honest signatures x 14 algebraic transforms + bit flips "
         "through sigvalid/pubverify/addrverify; 5 (50) signed transactions x (sampled or all single-bit flips + 8 byte-level edits + per-input "
         "signature transforms + input/output/length/type edits); 2 (9) signed blocks on a follower node x (flips + edits + signature "
         "transforms + inner-transaction malleation); distinct = distinct (op,result) lines",
)


def run(tier, seed, replay):
    from checks.cryptocommon import run_with_startup_guard
    return run_with_startup_guard(CONFIG, tier, seed, replay)
