def _dist_key(op, impl):
    kind = op.split(" ", 1)[0]
    if kind == "verify":
        return "verify -> " + " ".join(impl.split(" ")[:2] if impl.startswith("err") else ["ok"])
    f = op.split(" ")
    k = f[3] if f[3] in ("spy", "intr") else "other"
    return "gate %s id%s %s -> %s" % (f[1], f[2], k, impl if k != "intr" else impl.replace("sent=-", "sent=none"))


CONFIG = dict(
    prop="C25",
    ready=True,
    manifest=dict(
        text="Lean 4 theorems about a check-by-check model of IntroductionMessage.Verify in which every slice expression of the Go "
             "code can panic: intro_total (no panic for ANY Extra, header and config); intro_verify_iff (Verify accepts <=> not our "
             "own mirror, version >= minimum, Extra = this network's 33-byte blockchain pubkey, 9 bytes of verification parameters "
             "with BurnFactor >= 2, MaxTransactionSize >= 1024, MaxDropletPrecision <= 6, a length-prefixed (<= 256) user agent that "
             "is valid after sanitising (useragent regexp + blang/semver, modelled by hand), then nothing or at least 32 bytes); "
             "intro_format_iff for an Extra written in the documented format (uses the codec round-trip theorems of C21); the "
             "reported reason follows the code's order (intro_error_order_*); and for the head of Daemon.onMessageEvent: gate_blocks "
             "(not introduced and not INTR/DISC/GIVP => ErrDisconnectNoIntroduction, not processed), gate_passes_iff, "
             "becomes_introduced_only_if_verified, rejected_intro_disconnects. Constants and the user-agent patterns are regenerated "
             "from params, droplet and useragent sources and compared. The correspondence run calls the REAL Verify on valid extras, "
             "every truncation and extension, all single and pairwise rule violations, parameter boundaries, 80 hand-picked and "
             "thousands of generated/mutated user agents (sanitising, semver corner cases, 2^64 boundary, maxlen 256), and the REAL "
             "Daemon.onMessageEvent on a reduced Daemon (connections table, bare pex, offline gnet pool) for every connection state x "
             "gnet-id match x message kind, including introductions that pass or fail Verify.",
        note="The effect of a successful introduction on the connection table is C24's state machine (here only: a connected, "
             "not yet introduced connection becomes introduced). regexp and semver are modelled by hand and carried by the "
             "correspondence. Observed, outside this property: ErrDisconnectBlockchainPubkeyNotProvided has no entry in "
             "disconnectReasonCodes, so its DISC packet carries code 0 (unknown reason).",
        technique="Lean 4 proof over a panic-capable model + regenerated constants + differential correspondence with the real Verify and onMessageEvent",
    ),
    dist_key=_dist_key,
    translators=["codecgen"],
    props_files=["Sky/Props/C25.lean"],
    model_files=["Sky/C25/Model.lean", "Sky/C25/Lemmas.lean", "Sky/C25/Drv.lean"],
    min_ops={"quick": 4000, "thorough": 150000},
    trusted_base=[
        "Lean 4.33.0 kernel; axioms allowed: propext, Classical.choice, Quot.sound (audited by #print axioms)",
        "tools/extract/codecgen: constants and pattern strings read from params, droplet, useragent",
        "harness/c25 + Sky/C25/Drv.lean + hooks daemon/intro_verif.go, gnet/codec_verif.go",
    ],
    assumptions=[
        "Go's regexp (RE2) and blang/semver v3.5.1 behave as modelled by parseUA / semverOK (validated by the correspondence)",
        "Connections.introduced moves a connected, not yet introduced connection to introduced (C24)",
    ],
    rule="verify: user-agent tables (valid / invalid / changed by Sanitize) x with/without genesis hash; every truncation of a good "
         "Extra; 0..34 trailing bytes; 12 single + all pairs of rule violations; burn x maxsize x precision boundary grid; version x "
         "minimum grid; user agent length 255/256/257/300; 5000 (40000) random: grammar-generated user agents, one-byte "
         "insert/delete/replace mutants, random printable/illegal/non-ASCII strings, random parameters, tails of 0/32/1-40/30-34 "
         "bytes, truncation, bit flip, string length prefix set to {0,1,len+1,256,257,2^31,2^32-1}, random Extra; gate: 4 states x "
         "id match x 11 kinds + 9 introductions each + random introductions",
)
