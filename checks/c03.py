import os, sys
sys.path.insert(0, os.path.dirname(__file__))
from ledger_common import ledger_config
CONFIG = ledger_config("C03", ["Sky/Props/C03.lean", "Sky/Props/C31.lean"], dict(
    text="Lean 4 theorems: accrued hours are initial + floor(coins*dt/3.6e9) and never decrease with time (coinHours_formula, "
         "coinHours_mono; the formula is tied to the regenerated UxOut.CoinHours by C31); admission to the pool implies the output-hours sum "
         "fits 64 bits (pool_admits_no_hours_overflow); for every transaction of every accepted block, output hours <= hours accrued by "
         "the inputs at the previous block's time with the documented legacy exception, PROVIDED the output sum does not overflow "
         "(block_txn_hours_partial). The unrestricted statement is false of code and model (block_txn_hours_counterexample, proved): "
         "known finding F14. The check evaluates the property's own predicate on every block the real node accepts.",
    note="partial: the block path's unchecked output-hours sum is a recorded finding (deliberate, consensus-critical); any other creation "
         "of hours is reported as a violation.",
    technique="Lean 4 proof (+ proved counterexample for the known finding) + differential correspondence with property predicate on accepted blocks",
), extra=dict(translators=["gosubset"]))
