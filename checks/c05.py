import os, sys
sys.path.insert(0, os.path.dirname(__file__))
from ledger_common import ledger_config
CONFIG = ledger_config("C05", ["Sky/Props/C05.lean"], dict(
    text="Lean 4 theorems over the ledger model (publisher = arbitrating mode, all pools and parameters): every transaction of a created "
         "block comes from the offered pool and passes ALL soft and hard rules under the block-creation parameters plus the in-block "
         "hard constraints; the list the block is cut from is a prefix of the fee-ordered list within the configured block size and "
         "65535 entries; block time is later than the head's (created_block_facts, created_txns_balanced); the transaction list is sorted "
         "by fee per kB descending with ties by lowest hash (created_sorted) and no two included transactions share an input "
         "(created_no_conflict); the created block passes every check of Blockchain.processBlock on an independent non-arbitrating node "
         "holding the same chain and is then executed by it - no storage step can fail in a state histories reach "
         "(created_block_passes_processBlock, created_block_executed). The correspondence "
         "decides the rest on the code: the Lean model must produce exactly the block the real publisher produced, every produced block is "
         "executed on a separate real follower node (a rejection is reported as a violation), and the conflict clause (a left-out "
         "pending transaction has an included or earlier rival) is evaluated on every block the real publisher makes (known finding F36: "
         "conflict chains).",
    note="partial: the full "
         "conflict clause is false of the code in conflict chains (F36). Pools reach 1-16 pending transactions with conflicts, soft- and "
         "hard-invalid entries and block-size truncation.",
    technique="Lean 4 proof over ledger model (facts of created blocks, sortedness, completeness of the follower's checks) + differential correspondence (publisher vs model, follower acceptance)",
), profile="c05", quick=40, thorough=800)
