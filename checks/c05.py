import os, sys
sys.path.insert(0, os.path.dirname(__file__))
from ledger_common import ledger_config
CONFIG = ledger_config("C05", ["Sky/Props/C05.lean"], dict(
    text="Lean 4 theorems over the ledger model (publisher = arbitrating mode, all pools and parameters): every transaction of a created "
         "block comes from the offered pool and passes ALL soft and hard rules under the block-creation parameters plus the in-block "
         "hard constraints; the list the block is cut from is a prefix of the fee-ordered list within the configured block size and "
         "65535 entries; block time is later than the head's (created_block_facts, created_txns_balanced). The exact transaction order "
         "(fee per kB descending, ties by lowest hash), which of several conflicting pending transactions is included, and acceptance "
         "by an independent follower are decided by the correspondence: the Lean model must produce exactly the block the real publisher "
         "produced, and every produced block is executed on a separate real follower node (a rejection is reported as a violation).",
    note="partial: ordering/conflict-winner and follower acceptance are tied differentially (sortedness of the model's insertion sort and the "
         "arbitrating-mode refinement are not proved). Pools reach 1-16 pending transactions with conflicts, soft- and hard-invalid entries and "
         "block-size truncation.",
    technique="Lean 4 proof over ledger model + differential correspondence (publisher vs model, follower acceptance)",
), profile="c05", quick=40, thorough=800)
