CONFIG = dict(
    prop="C19",
    ready=True,
    manifest=dict(
        text="Machine-checked Lean 4 theorems about an abstract model of wallet.Service (memory map, wallet directory, fingerprint "
             "table, unloaded set; every mutating method = checks on a clone, Save, wallets.set), for ALL operation sequences over "
             "create (incl. temporary / encrypted / duplicate seed / duplicate file name), NewAddresses, ScanAddresses, "
             "UpdateWalletLabel, EncryptWallet, DecryptWallet, RecoverWallet, UnloadWallet, Update and UpdateSecrets with succeeding "
             "or failing callbacks, right / wrong / missing / superfluous passwords: mem_disk_agree (every non-temporary wallet in "
             "memory is on disk with identical content; every wallet file belongs to a loaded non-temporary wallet or to one that was "
             "explicitly unloaded), reload_eq, failed_op_no_change (an operation that returns an error changes neither memory, disk, "
             "fingerprints nor the unloaded set), fingerprints_injective and fps_exact (no two loaded wallets share a fingerprint; the "
             "table is exactly the loaded wallets' fingerprints). The reading 'equal modulo explicitly unloaded wallets' is necessary: "
             "UnloadWallet removes a wallet from memory by design. Proved counterexample (known finding F19a): unload then re-create from "
             "the same seed leaves two files with one fingerprint and a fresh service refuses to start. "
             "Tie: a real wallet.Service on a scratch directory; after EVERY operation a second wallet.NewService is started on the same "
             "directory and both are dumped canonically (file name, type, label, encrypted, temporary, entry counts, fingerprint); read-only calls (GetWalletSeed, ViewSecrets, GetWallet/GetWallets) are in the op mix and are identities in the model (read_only_no_change); the serialised BYTES of every wallet in memory, raw secrets blob included, are compared with the freshly started service after every operation; the service under test is itself restarted (a new NewService on the populated directory receives the following operations, duplicate-seed creates after it must be refused); wallets are backdated through Service.Update / UpdateSecrets (labels `<text>@<secs>`) so that operations act on wallets older than the current second and meta.tm takes part in that comparison; the "
             "driver predicts result kind and both dumps from the model and evaluates the property on the implementation's own line.",
        note="Save is atomic in the model (crash behaviour is C20). Wallet content is abstracted to what the dump observes; secrets are "
             "exercised indirectly (operations that need the right password succeed/fail as predicted). sha256-xor is used so that "
             "encrypt/decrypt are fast. xpub wallets are not generated.",
        technique="Lean 4 proof on an abstract state machine + differential correspondence with a second service on the same directory",
    ),
    translators=[],
    props_files=["Sky/Props/C19.lean"],
    model_files=["Sky/C19/Model.lean", "Sky/C19/Drv.lean"],
    min_ops={"quick": 800, "thorough": 20000},
    trusted_base=[
        "Lean 4.33.0 kernel; axioms allowed: propext, Classical.choice, Quot.sound (audited by #print axioms)",
        "lean/Sky/C19/Model.lean: abstract model of src/wallet/service.go + wallets.go, tied by harness/c19",
    ],
    assumptions=[
        "wallet.Save is atomic (C20) and the directory is only written by the service",
        "a wallet's fingerprint is a function of its type and seed and does not change under the modelled operations",
    ],
    rule="60 (quick) / 1500 (thorough) cases of 5-40 operations over 4 file names, 4 seeds, 3 wallet types, 3 passwords; ~30% of the "
         "operations are designed to fail (missing wallet, wrong/missing/superfluous password, duplicate seed, duplicate file name, "
         "temp+encrypt, empty label, failing callback, wrong recovery seed, collection scan)",
)
