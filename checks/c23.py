def _dist_key(op, impl):
    f = op.split(" ")
    if f[0] == "slice":
        return "slice -> ok"
    tail = impl.split("|")
    if tail[-1] == "panic":
        return f[0] + " -> panic"
    d = dict(p.split("=", 1) for p in tail if "=" in p)
    k = int(d.get("k", "0"))
    kind = "none" if k == 0 else "some"
    return "%s -> kept %s, send=%s" % (f[0], kind, d.get("send", "?"))

CONFIG = dict(
    prop="C23",
    ready=True,
    manifest=dict(
        text="Lean 4 theorems, for ALL item-size lists / hash counts, all empty-message sizes and all limits max >= framing + "
             "empty message: each of New{GiveBlocks,GiveTxns,GivePeers,AnnounceTxns,GetTxns}Message returns (never panics) exactly the "
             "longest prefix of the capped candidate items whose encoded message fits max as gnet.sendMessage measures it "
             "(fits, is_prefix, maximal = IsLongestFit; the longest fitting prefix is unique); hash messages in closed form "
             "min(len, cap, (max-framing-hdr)/32). The constants and one definition are REGENERATED from the current source on every "
             "run by tools/extract/c23facts after it has checked that each truncate* function and constructor is an instance of its "
             "template: item caps, maxlen tags (caps <= maxlen), the framing bytes each truncate function reserves, the translation of "
             "truncateSHA256Slice, cipher.SHA256's size, gnet's length-prefix and message-id sizes and the form of sendMessage's limit "
             "check. The theorems frameX_eq (reserved bytes = gnet's framing) are re-proved against those regenerated values. Tie H: the "
             "real constructors, gnet.EncodeMessage and gnet.sendMessage are run on generated item lists and limits placed at every "
             "prefix boundary -4..+18 bytes; kept count, wire length, prefix identity and send verdict are compared with the specification.",
        note="Item sizes are parameters of the theorems (the harness reports the real encodeSizeX values; their correctness is C21). "
             "truncateSHA256Slice is translated by shape-checked template (the function's AST must equal the known 5-statement shape), "
             "not by a general translator; the three loop functions and two hash functions are tied by template match of their whole "
             "body (logging removed). Arithmetic is over Nat: sums of encoded sizes are assumed < 2^64. For NewGivePeersMessage the "
             "address conversion (skip unusable addresses after capping at 512) is reproduced by the harness's candidate list, not proved.",
        technique="Lean 4 proof over translator-regenerated constants + hand model tied by template match and differential correspondence",
    ),
    translators=["c23facts"],
    props_files=["Sky/Props/C23.lean"],
    model_files=["Sky/C23/Model.lean", "Sky/C23/Lemmas.lean", "Sky/C23/Drv.lean"],
    min_ops={"quick": 10000, "thorough": 200000},
    dist_key=_dist_key,
    trusted_base=[
        "Lean 4.33.0 kernel; axioms allowed: propext, Classical.choice, Quot.sound (audited by #print axioms)",
        "tools/extract/c23facts: syntactic extraction + whole-body template match of the five truncate functions and constructors; "
        "a body outside the template is rejected (failed obligation), never defaulted",
        "hand model Sky/C23/Model.lean of the two templates; harness/c23 + Sky/C23/Drv.lean: differential run of the real constructors, "
        "gnet.EncodeMessage and gnet.sendMessage against the specification",
    ],
    assumptions=[
        "encoded item sizes are what encodeSizeX reports and their sum is < 2^64 (no uint64 wrap in size accounting)",
        "the property's quantifier: max >= gnet framing (8) + encoded size of the empty message (4)",
        "NewGivePeersMessage: candidate items = usable addresses among the first 512 peers, in order (checked by the harness per case)",
    ],
    rule="corpus (F18 witnesses, exact-fit limits, caps 128/256/512 +-1) + for seeded item lists (hash counts 0..1000; peers with every "
         "k-th address unusable; transactions with 0..200 inputs/outputs incl. one huge first/last; blocks with 0..150 transactions) limits at "
         "0,3,4,5,7,8,9, hdr+{3,4,7,8,9,12}, random prefix boundaries -3..+18 bytes, total +{3,4,7,8,9,100}, 2^20, 2^40; plus "
         "truncateSHA256Slice on a len x maxLength grid; distinct = distinct (op, output) lines",
)
