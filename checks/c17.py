CONFIG = dict(
    prop="C17",
    ready=True,
    manifest=dict(
        text="Machine-checked Lean 4 theorems over an abstract deterministic iterator step : Seed -> Seed x Key (deterministic "
             "wallets) and an abstract child : Nat -> PubKey (bip44 chains, xpub wallets), for ALL seeds and ALL sequences of "
             "generate / scan / save-reload / lock-unlock: entries_eq_prefix (the entries are exactly the first N keys of the one "
             "sequence unfolded from the seed, N = number kept so far, and lastSeed is the N-th state), generate_batch "
             "(generate a; generate b = generate (a+b)), prefix_stable, scan = regenerate existing + (last active scanned index + 1) "
             "(scan_inv), chain_entries_eq_prefix / cgen_batch for index-derived chains, xpub_matches_bip44 (a watch-only wallet "
             "on a chain's public key derives the same public keys as the seed wallet, which are the public keys of its secret "
             "child keys under the explicit hypothesis ckd_commutes from C16), entry_consistent (by construction of the model's "
             "entries). Tie: real deterministic, bip44, xpub and collection wallets; every case first reads back the reference "
             "(deterministic wallets: the cipher library's chain cipher.GenerateDeterministicKeyPairsSeed over the BYTES of the seed string - "
             "addresses, keys and the seed state after N keys for every N - against which a one-batch wallet and the fingerprint of the "
             "address-less wallet are also compared; seed strings are free-form: 64-hex legacy seeds, hex-looking words, digits, odd-length "
             "and upper-case hex, mnemonic words, arbitrary text; other types: first M addresses generated in ONE batch by a fresh wallet with the same seed; for "
             "xpub also the seed wallet's external chain) and then runs random generate/scan(with activity sets)/Serialize+Load/"
             "Lock+Unlock sequences, including derivation on both bip44 chains WHILE LOCKED and through wallet.GuardUpdate, scans whose transaction finder fails (no effect on entries or lastSeed), and two-account bip44 wallets (per account and chain the entries are map child [0..N); a wallet-wide scan never shrinks another account: cscan_keeps); the driver predicts the entry list, returned addresses and lastSeed of every step from the "
             "reference via the model; Entry.Verify / VerifyPublic and equality of every entry (public and secret key) with the unencrypted reference wallet is checked after every unlock and at the end. Collection wallets receive key batches that mix keys already held and new ones in every order (and repeats); the entries must be exactly the requested keys in order, each entry's public key that of its secret key, also after reload and lock/unlock.",
        note="The iterator/child functions are parameters: that cipher.MustGenerateDeterministicKeyPairsSeed really is an unfold of one "
             "step function (n then m from the returned seed = n+m) is what the correspondence checks; reload and lock/unlock are "
             "identities in the model (their fidelity is C18/C19 and is re-checked here by the tie). Collection wallets: entries = "
             "inserted keys (tie only). Addresses abbreviated to 8 base58 characters in the protocol. bip44 and xpub wallets are built "
             "for both coin types (Skycoin / Bitcoin, chosen by the low bit of the case seed); the verify op also compares every "
             "entry's address with the address the wallet coin's decoder gives its public key.",
        technique="Lean 4 proof over abstract derivation functions + differential correspondence on real wallets against a single-batch reference",
    ),
    translators=[],
    props_files=["Sky/Props/C17.lean"],
    model_files=["Sky/C17/Model.lean", "Sky/C17/Drv.lean"],
    min_ops={"quick": 200, "thorough": 3000},
    trusted_base=[
        "Lean 4.33.0 kernel; axioms allowed: propext, Classical.choice, Quot.sound (audited by #print axioms)",
        "lean/Sky/C17/Model.lean: model of GenerateAddresses / ScanAddresses / reset of the four wallet types, tied by harness/c17",
    ],
    assumptions=[
        "ckd_commutes (C16): pubOf (CKDpriv k i) = CKDpub (pubOf k) i - hypothesis of xpub_matches_bip44 only",
        "child-key derivation does not fail (probability 2^-127 per index; the code returns an error)",
    ],
    rule="40 (quick) / 600 (thorough) cases over deterministic, bip44, xpub, collection wallets: 4-11 operations among gen n (0-4, "
         "external or change chain), scan n (0-5) with random activity sets incl. activity outside the scanned window, reload, "
         "relock; final Entry.Verify; reference M = 8-24 addresses",
)
