import os, sys
sys.path.insert(0, os.path.dirname(__file__))
from ledger_common import ledger_config
CONFIG = ledger_config("C33", ["Sky/Props/C33.lean", "Sky/Props/C04.lean"], dict(
    text="Lean 4 theorems over the ledger model, for ALL lists of GiveBlocks messages (arbitrary order, duplicates, gaps, forged and "
         "re-signed blocks): the follower's chain only grows by publisher-signed blocks taken from the message in order, each extending "
         "the head by one (giveLoop_appends); under unforgeability + one block per sequence number the follower's chain is always a "
         "prefix of the publisher's chain (sync_prefix); a message that made progress announces the new head and requests the blocks "
         "above it, and an announcement above the head triggers a request (sync_requests_*); the next publisher block delivered on its "
         "parent advances the follower, known blocks are skipped without stopping the message (sync_step_complete, sync_skips_known). "
         "Tie: the REAL daemon handlers (GiveBlocksMessage/AnnounceBlocksMessage/GetBlocksMessage.process) run against a real follower "
         "visor on delivery schedules with permutation, duplication, loss, splitting, forged and re-signed blocks; verdicts, emitted "
         "messages and whole state compared per message; the serving side is also run under outgoing-message limits around the size "
         "of the full reply and of its first block: what is sent must be a prefix of the blocks asked for whose frame fits the limit "
         "(gnet refuses longer frames, and the requester would get the same unsendable reply for ever).",
    note="'longest gap-free prefix' is read in arrival order: blocks arriving before their parent are dropped by design, not buffered. "
         "Unforgeability of the publisher signature is a hypothesis of sync_prefix (PubChain, hsig).",
    technique="Lean 4 proof over ledger model + differential correspondence through the real daemon message handlers",
), profile="c33", quick=40, thorough=800)
