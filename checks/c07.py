import os, sys
sys.path.insert(0, os.path.dirname(__file__))
from ledger_common import ledger_config
CONFIG = ledger_config("C07", ["Sky/Props/C07.lean"], dict(
    text="Lean 4 theorems, all histories, both node configurations: the stored unspent checksum equals the xor of the snapshot hashes of the "
         "current unspent set, and the address-index height and parsed-history sequence equal the head sequence (derived_after_run); "
         "pool operations never change any derived structure (pool_ops_keep_derived); the per-address unspent index lists for every "
         "address exactly the ids of that address's unspent outputs (addr_index_exact_after_run, from the two adjust passes of "
         "UnspentPool.ProcessBlock); replaying the stored blocks from an empty database yields exactly the node's unspent set, "
         "checksum, address index and complete history (rebuild_from_blocks_same). The address count, history "
         "buckets (including which block/transaction spent each output) and the chain queries are carried by the correspondence: all of "
         "them are dumped from the real node after EVERY op and recomputed by the Lean model.",
    note="partial: the query views computed from the history buckets are tied differentially, not proved; balance views are compared through the unspent set and pool. "
         "Rebuild paths (history reset, index rebuild) are exercised by C08's restart states.",
    technique="Lean 4 invariant proof (checksum, markers, per-address index) + whole-state differential correspondence for history buckets and query views",
))
