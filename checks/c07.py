import os, sys
sys.path.insert(0, os.path.dirname(__file__))
from ledger_common import ledger_config
CONFIG = ledger_config("C07", ["Sky/Props/C07.lean"], dict(
    text="Lean 4 theorems, all histories, both node configurations: the stored unspent checksum equals the xor of the snapshot hashes of the "
         "current unspent set, and the address-index height and parsed-history sequence equal the head sequence (derived_after_run); "
         "pool operations never change any derived structure (pool_ops_keep_derived). The per-address index, address count, history "
         "buckets (including which block/transaction spent each output) and the chain queries are carried by the correspondence: all of "
         "them are dumped from the real node after EVERY op and recomputed by the Lean model.",
    note="partial: index/history equalities are tied differentially, not proved; balance views are compared through the unspent set and pool. "
         "Rebuild paths (history reset, index rebuild) are exercised by C08's restart states.",
    technique="Lean 4 invariant proof (checksum, markers) + whole-state differential correspondence for indexes and history",
))
