def _dist(op, impl):
    name = op.split(" ")[0]
    f = impl.split(" ")
    if f[0] == "err":
        return name + " -> " + " ".join(f[:2])
    return name + " -> " + f[0]


CONFIG = dict(
    prop="C30",
    ready=True,
    dist_key=_dist,
    manifest=dict(
        text="Machine-checked Lean 4 theorems about a hand model of droplet.ToString / droplet.FromString and of the part of the vendored "
             "shopspring/decimal they use (NewFromString incl. its string splitting, Sign, Exponent, Shift with int32 wrap, Cmp, IntPart, "
             "New, StringFixed): for ALL uint64 amounts ToString fails above MaxInt64 (toString_large), otherwise yields digits, '.', exactly six "
             "digits spelling n/10^6 and n%10^6 (toString_shape) and FromString(ToString n) = n (toString_fromString); for ALL byte strings "
             "FromString never panics (fromString_total), accepts only literals of the decimal grammar G, non-negative, with the exact droplet "
             "value <= MaxInt64 (fromString_sound, fromString_rejects_non_decimal), is characterised exactly in the library's normal form "
             "(fromString_iff), and for ordinary notation (no exponent, an integer digit) accepts exactly by value (fromString_plain_iff); "
             "completeness for exponent notation holds in normal form (fromString_complete). Digits via own digits10/ofDigits10, by induction. "
             "A differential run of the real functions against the model and the by-value specification ties the model to the code.",
        note="The model is hand written (tie = correspondence only): grammar-generated, boundary and mutated strings with |exponent| <= 30 "
             "(at most 5 exponent digits); the unbounded-exponent hang F16 is filed under C28 and not generated; running time is not "
             "modelled. Known finding F23: representable amounts in unusual spellings (10e-7, 0e-7, .0) are rejected. "
             "F24 (sign after the point accepted: '.+5' = 0.05) repaired.",
        technique="Lean 4 proof over a hand model + differential correspondence",
    ),
    translators=[],
    props_files=["Sky/Props/C30.lean"],
    model_files=["Sky/C30/Model.lean", "Sky/C30/Spec.lean", "Sky/C30/Digits.lean", "Sky/C30/Parse.lean", "Sky/C30/Text.lean",
                 "Sky/C30/Sound.lean", "Sky/Prim/Res.lean"],
    min_ops={"quick": 3000, "thorough": 100000},
    trusted_base=[
        "Lean 4.33.0 kernel; axioms allowed: propext, Classical.choice, Quot.sound (audited by #print axioms)",
        "Sky/C30/Model.lean: hand model of droplet.go and of shopspring/decimal (NewFromString, Shift, Cmp, IntPart, StringFixed), "
        "math/big SetString(10), strconv.ParseInt(10,32), strings.IndexAny/Split/TrimRight as documented",
        "harness/c30 + Sky/C30/Drv.lean: differential run of droplet.FromString/ToString against the model and the by-value spec",
    ],
    assumptions=[
        "the hand model agrees with the Go code (checked by correspondence on generated inputs, exponents bounded)",
        "big.Int arithmetic is exact; running time / memory are not modelled (F16)",
    ],
    rule="special strings (signs, points, exponents, Inf/NaN, unicode digits, blanks) + amounts 10^k-1,10^k,10^k+1 and the uint64 boundary "
         "grid through ToString and ToString->FromString + grammar-generated amounts from boundary integer/fraction pieces with optional "
         "exponent in [-30,30] + representable amounts re-written in scientific notation + byte-level mutations; distinct = distinct (op,result)",
)
