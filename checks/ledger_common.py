"""shared configuration of the ledger-family checks (C01-C07): one harness (harness/ledger, real
visor.Visor on real bolt files), one driver (drv_ledger = the Lean ledger model), property-specific
theorem files, generator profile and verdict filter."""
import re

LEDGER_MODEL = ["Sky/Ledger/Model.lean", "Sky/Ledger/Lemmas.lean", "Sky/Ledger/Create.lean", "Sky/Ledger/Arb.lean",
                "Sky/Ledger/Supply.lean", "Sky/Ledger/Run.lean",
                "Sky/Ledger/Xor.lean", "Sky/Ledger/Drv.lean", "Sky/C31/Spec.lean"]

TRUSTED = [
    "Lean 4.33.0 kernel; axioms allowed: propext, Classical.choice, Quot.sound (audited by #print axioms)",
    "hand-written ledger model lean/Sky/Ledger/Model.lean (follows the order of checks and error kinds of the Go code)",
    "correspondence: harness/ledger drives REAL visor.Visor instances (publisher + follower) on bolt files; after every "
    "op the verdict and a canonical digest of the whole state (chain, unspent set, checksum, address index, pool, history) "
    "are compared with the model's",
    "byte encodings, SHA-256 ids and signature recovery are NOT modelled: the real code's values are passed to the model as "
    "annotations of each op (ids are opaque); Transaction.verify's verdict is an annotation too (its rule set is C09)",
    "bolt: one db.Update per operation is atomic (a rejected op leaves no trace) — checked by the digest comparison",
]

ASSUME = [
    "theorems cover both node configurations (ordinary node and arbitrating block publisher)",
    "WfSound: a transaction the real Transaction.Verify() accepts has pairwise distinct inputs (C09's rule set)",
    "HashInj: distinct transactions of ONE block have distinct hashes (SHA-256 collision freeness on that finite set)",
]


def classify_for(prop):
    tag = re.compile(r"#props:([^\t]*)")
    def classify(op, impl, model, verdict):
        m = tag.search(model)
        props = m.group(1).split(",") if m else []
        if any(p == prop or p.startswith(prop + "[") for p in props):
            return "fail"
        if model.split(" #props:")[0] == impl:
            return None  # model and node agree; the tag concerns another property
        return "unknown"
    return classify


def ledger_config(prop, props_files, manifest, profile="mix", quick=60, thorough=1000, extra=None):
    cfg = dict(
        prop=prop, ready=True, harness="ledger", driver="drv_ledger",
        props_files=props_files, model_files=LEDGER_MODEL, translators=[],
        harness_env={"VERIF_PROFILE": profile},
        tier_env={"quick": {"VERIF_HISTORIES": str(quick)}, "thorough": {"VERIF_HISTORIES": str(thorough)}},
        classify=classify_for(prop), min_ops={"quick": 500, "thorough": 10000},
        trusted_base=TRUSTED, assumptions=ASSUME, manifest=manifest,
        rule="random ledger histories (8-25 ops each) over 8 real keys: valid/invalid/conflicting transactions injected as "
             "foreign or user submissions, publisher-made blocks, hand-forged publisher-signed blocks with arbitrary "
             "transaction lists, header/signature mutations, stale and duplicate blocks, refresh, invalid-removal, restart, "
             "CheckDatabase on a copy; genesis volume up to 2^64-1000; distinct = distinct (op, answer) lines",
        dist_key=lambda op, impl: op.split(" ")[0] + " -> " + (re.search(r"(?:^| )R(\S+)", impl) or [None, "?"])[1].split(":")[0],
    )
    if extra:
        cfg.update(extra)
    return cfg
