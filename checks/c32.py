import os, re, shutil, tempfile, hashlib
import vlib

def _dist_key(op, impl):
    f = op.split(" ")
    tr = impl.split("|")[0].split(" ")
    closed = sum(1 for t in tr if t.startswith("r") and t.endswith(".1"))
    races = re.search(r"races=(\d+)", impl)
    return "%s -> %s, %s, races=%s" % (f[0], "closed-returns" if closed else "no-closed-returns",
                                       "R0" if "R0" in tr else "no-R0", races.group(1) if races else "?")

def _post(R, lines, diffs):
    n = 0
    sigs = {}
    for op, impl in lines:
        m = re.search(r"races=(\d+)\|sig=(\S+)", impl)
        if m and int(m.group(1)) > 0:
            n += int(m.group(1))
            for s in m.group(2).split(","):
                sigs[s] = sigs.get(s, 0) + 1
    R.coverage["race_detector_reports"] = n
    R.coverage["race_detector_signatures"] = sigs
    R.coverage["race_build"] = _STATE.get("race", False)
    if n:
        R.notes.append("race detector: %d report(s): %s" % (n, sigs))

_STATE = {}

def _build_race(hname):
    """like vlib.build_harness but with the race detector (falls back to a plain build if cgo is unavailable)"""
    hdir = os.path.join(vlib.VERIF, "harness")
    extra = []
    if os.path.realpath(vlib.REPO) != "/repo":
        tag = hashlib.sha256(vlib.REPO.encode()).hexdigest()[:8]
        mod = os.path.join(hdir, ".alt-%s.mod" % tag)
        open(mod, "w").write(open(os.path.join(hdir, "go.mod")).read().replace("=> /repo", "=> " + os.path.realpath(vlib.REPO)))
        shutil.copy(os.path.join(hdir, "go.sum"), os.path.join(hdir, ".alt-%s.sum" % tag))
        extra = ["-modfile=" + mod]
    env = dict(vlib.GOENV, CGO_ENABLED="1")
    rc, out = vlib.sh(["go", "build", "-race"] + extra + ["-tags", "verif", "-o", os.path.join(vlib.BIN, "h_" + hname), "./" + hname],
                      cwd=hdir, env=env, timeout=1800)
    if rc == 0:
        _STATE["race"] = True
        return True, out
    _STATE["race"] = False
    return vlib._orig_build_harness(hname)

CONFIG = dict(
    prop="C32",
    ready=True,
    manifest=dict(
        text="PARTIAL (by design). Proved in Lean 4 for ALL interleavings of a small-step model of the strand protocol (unboundedly many "
             "client calls of pool.strand, the processStrand goroutine, the Shutdown goroutine, the rendezvous request channel, quit, "
             "the two pool maps with newConnection/disconnect/disconnectAll), by induction on executions: mutual_exclusion (the maps are "
             "accessed/changed only inside a running request on the strand goroutine or in Shutdown after strandDone, never both), "
             "call_completes_or_closed, shutdown_empties (+ pool/addresses consistency, which makes disconnectAll complete), "
             "shutdown_reachable (no reachable state blocks shutdown; the fairness form is stated, not proved), and "
             "trace_conformance_sound (the monitor run on real traces accepts every trace of the model). Tie T: tools/extract/c32facts "
             "regenerates from pool.go/strand.go which methods touch the pool maps outside a strand closure up to exported entry points "
             "(theorem no_unstranded_entries) and checks the shapes of Strand's selects, processStrand and Shutdown's order. Tie H: "
             "concurrent real workloads over loopback (connect, disconnect, send, broadcast, queries, incoming peers, shutdown at random "
             "moments), events taken from the code's own log lines (strand.Debug), callbacks and API returns with goroutine identity; "
             "the driver rejects a trace that is not a run of the model; in addition, workloads in which one strand operation runs for "
             "1.3-1.7 s while 3-12 pool calls and two incoming connections' registrations are queued behind it for more than a second "
             "when Shutdown is called: every queued call must return and Shutdown must return.",
        note="NOT claimed by the proof: absence of Go-memory-model data races in general, variables captured by request closures, "
             "per-connection goroutines/sockets, blocking in Close, termination under fairness. The harness is built with -race "
             "(needs cgo + a C compiler; if that build fails the check falls back to a plain build and says so in the evidence: "
             "race_build=false). EVERY race report fails the workload it occurred in: a report whose frames are pool-map accessors is a "
             "violation of the proved mutual exclusion; the two known races outside the model are listed in known_findings.json as F20 "
             "(a strand call returns on quit while its function still writes variables the caller reads) and F21 (Connection.Close "
             "replaces conn.Buffer under readLoop) and print KNOWN-FINDING; any other report is a VIOLATION with the report's frames in "
             "the replay. A panic of the pool's own goroutines (harness process dies) is reported as VIOLATION with the stack.",
        technique="Lean 4 invariant proof over a small-step concurrent model + static extraction + runtime trace conformance (monitor proved sound)",
    ),
    translators=["c32facts"],
    props_files=["Sky/Props/C32.lean"],
    model_files=["Sky/C32/Model.lean", "Sky/C32/Lemmas.lean", "Sky/C32/Inv.lean", "Sky/C32/Sim.lean", "Sky/C32/Drv.lean"],
    min_ops={"quick": 120, "thorough": 2500},
    dist_key=_dist_key,
    post=_post,
    trusted_base=[
        "Lean 4.33.0 kernel; axioms allowed: propext, Classical.choice, Quot.sound (audited by #print axioms)",
        "hand-written model Sky/C32/Model.lean of strand.Strand / processStrand / Shutdown / newConnection / disconnect (tie H by trace "
        "conformance: event extraction from log lines + callbacks in harness/c32, monitor Sky.C32.Mon proved to accept all model traces)",
        "tools/extract/c32facts: syntactic call-graph extraction over pool.go (calls through `pool.` only) and shape checks",
        "Go race detector: any report fails the workload; F20/F21 signatures are known findings",
    ],
    assumptions=[
        "Go channel semantics: unbuffered send/receive is a rendezvous; a closed channel is always ready; select picks any ready case",
        "request functions terminate; connection ids do not wrap (uint64 counter)",
        "log-line order equals event order: the logrus hook fires synchronously, under the logger's mutex, in the goroutine that logs",
        "outside the model: Go memory model, captured variables of request closures, sockets, fairness",
    ],
    rule="corpus (polling-query workloads = F19 witness; immediate / idle / crowded shutdown) + seeded workloads: 1-8 client goroutines x 1-25 "
         "random API calls, 0-5 incoming peers sending framed messages, 0-3 outgoing dials, Shutdown after 0-8 ms; one line = one "
         "workload trace (tens to hundreds of events); distinct = distinct traces",
)

def run(tier, seed, replay):
    tmp = tempfile.mkdtemp(prefix="verif-C32-race-")
    vlib._orig_build_harness = getattr(vlib, "_orig_build_harness", vlib.build_harness)
    vlib.build_harness = _build_race
    old = vlib.GOENV.get("GORACE")
    vlib.GOENV["GORACE"] = "log_path=%s/race halt_on_error=0 exitcode=0" % tmp
    try:
        return vlib.standard_check(CONFIG, tier, seed, replay)
    except RuntimeError as e:
        # the real pool code crashed the harness process (an unrecovered panic in one of the pool's goroutines):
        # that is a failure of the system under test, not of the check
        if str(e).startswith("harness") and "failed" in str(e) and ("panic:" in str(e) or "goroutine " in str(e)):
            R = vlib.Result("C32", tier, seed)
            path = R.write_replay("crash", {"ops": [], "note": "the pool code panicked in a goroutine of its own while running the "
                                            "workloads; the harness process died", "stderr_tail": str(e)[-1500:]})
            R.violations.append(("crash", path, "no-failing-input-found"))
            R.obligations = R.discharged = 0
            R.coverage.update(checker_cmd="n/a (harness crashed)", trusted_base=CONFIG["trusted_base"], evaluations=0,
                              distinct_nontrivial=0, rule=CONFIG["rule"], samples=[], distribution={})
            return R.finish()
        raise
    finally:
        vlib.build_harness = vlib._orig_build_harness
        if old is None:
            vlib.GOENV.pop("GORACE", None)
        else:
            vlib.GOENV["GORACE"] = old
        shutil.rmtree(tmp, ignore_errors=True)
