CONFIG = dict(
    prop="C20",
    ready=True,
    manifest=dict(
        text="Machine-checked Lean 4 theorems in an ordered-write crash model (a crash keeps a prefix of the issued file-system "
             "operations and may tear the next data write at any byte): for the operation list that a Go->Lean extractor "
             "REGENERATES on every run from the body of file.SaveBinary (and file.IsWritable for the Service methods that probe "
             "the wallet file first), after a crash at ANY prefix and ANY tear point the saved file holds exactly its previous "
             "or exactly the new content (crash_safe, crash_safe_probed, crash_safe_create for files that do not exist yet), no other loader-visible file changes and the leftover "
             "temporary file is invisible to the wallet loader (tmp_invisible, crash_view), hence any start-up that succeeds on "
             "the old and on the new directory succeeds on every crash state (startup_ok, kv_crash_safe); after ANY number of interrupted attempts, repeated with the same or other data, the file holds its original content or the data of one attempt, nothing else is touched, and a retry that completes stores exactly the new data whatever temporary file was left behind (attempts_safe, retry_complete, retry_crash_safe, attempts_others_untouched). Proved through a "
             "general soundness theorem for a decidable crash-safety checker, so the proof re-checks whatever sequence the "
             "source has now. Tie: each run traces real saves (wallet.Service UpdateWalletLabel/NewAddresses/ScanAddresses/"
             "EncryptWallet/CreateWallet, kvstorage add/remove) with strace, requires the traced syscall sequence to equal the "
             "extracted list, then materialises every crash prefix (sampled tear points quick, every byte thorough) and starts "
             "the real wallet.NewService / kvstorage.NewManager on it.",
        note="Assumed (model, not verified): POSIX rename/unlink/open(O_TRUNC) are atomic, writes reach the disk in issue order, "
             "directory-entry durability (fsync of the directory) is not modelled; the loader is a function of the visible files. "
             "Trusted: Lean kernel, tools/extract/saveops (syntactic, rejects unknown shapes), the strace-based harness.",
        technique="Lean 4 proof over a translator-regenerated op list + strace cross-check + crash-state replay on the real loaders",
    ),
    translators=["saveops"],
    props_files=["Sky/Props/C20.lean"],
    model_files=["Sky/C20/Model.lean", "Sky/C20/Lemmas.lean", "Sky/C20/Drv.lean"],
    min_ops={"quick": 150, "thorough": 5000},
    harness_timeout=1500,
    trusted_base=[
        "Lean 4.33.0 kernel; axioms allowed: propext, Classical.choice, Quot.sound (audited by #print axioms)",
        "tools/extract/saveops: go/ast extraction of SaveBinary's file operations, the tmp-name shape, IsWritable's open flags, "
        "the loader's suffix filters and the Service methods that save (unknown shapes are rejected)",
        "harness/c20 + strace: the traced syscalls of real saves must equal the extracted list; crash states are replayed "
        "on the real wallet.NewService / kvstorage.NewManager",
    ],
    assumptions=[
        "ordered-write crash model: a crash keeps a prefix of the issued operations; only a data write can be torn",
        "rename(2), unlink(2), open(O_CREAT|O_TRUNC) are atomic; directory-entry durability is not modelled",
        "the wallet file exists before NewAddresses/ScanAddresses (it is the file the wallet was loaded from)",
    ],
    rule="15 traced real saves per round (10 wallet scenarios incl. first-time creation of plain / encrypted / bip44-in-empty-dir / collection wallets, 2 kvstorage, 4 retried after a crash of the same save: the temporary file of that attempt — a real torn prefix of the data, empty, all but the last byte, or unrelated bytes — is still there, and the completed retry must show exactly what the clean save shows); every "
         "prefix k of the traced operation list x tear points {0,1,n/2,n-1}+random (quick) / every byte (thorough); "
         "distinct = distinct (op,result) lines",
)


def _dist(op, impl):
    w = op.split(" ")[0]
    if w == "reset":
        return "reset " + op.split(" ")[1]
    if w == "trace":
        return "trace -> " + impl
    return w + " -> " + impl


CONFIG["dist_key"] = _dist
