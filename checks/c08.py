import os, sys
sys.path.insert(0, os.path.dirname(__file__))
from ledger_common import ledger_config
CONFIG = ledger_config("C08", ["Sky/Props/C08.lean", "Sky/Props/C04.lean", "Sky/Props/C06.lean"], dict(
    text="Lean 4 theorems: on the ledger model, restart (visor.New + Init) after ANY history leaves chain, unspent set, checksum, indexes "
         "and history unchanged, only drops hard-invalid pool entries and is idempotent (restart_preserves_ledger, restart_idempotent, "
         "restart_pool_hard_ok); the chain-shape part of the node's integrity check holds in every reachable state, also after a restart "
         "(restart_checks_ok); an abstract two-meta-page copy-on-write store recovers the pre-commit view from every write prefix with an "
         "absent or torn meta page (commit_atomic_before). Tie: a dbutil commit hook copies the REAL data.db at every commit boundary of "
         "a scripted life-cycle (file creation, buckets, index/history initialisation, genesis, blocks, pool updates); real nodes are "
         "restarted (CheckDatabase under a 20 s deadline, New, Init) on each boundary file and on intra-commit crash files (boundary + "
         "prefix of the next commit's pages, torn meta), compared with the model's state for that boundary, then fed the remaining "
         "operations and compared with the node that never crashed.",
    note="partial: bolt's commit atomicity is assumed for the vendored code (validated by file-level emulation, proved only for the abstract "
         "store); OS/fsync behaviour is not modelled. Model = code after the repairs of F4 (WalkChain wait-group) and F5 (history re-parse).",
    technique="Lean 4 proof (restart invariants, abstract CoW store) + crash-point enumeration on real bolt files with real restarts",
), profile="c08", quick=4, thorough=40, extra=dict(min_ops={"quick": 150, "thorough": 2000}, harness_timeout=3000))
