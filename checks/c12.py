CONFIG = dict(
    prop="C12",
    ready=True,
    manifest=dict(
        text="Machine-checked Lean 4 theorems about an executable model of src/transaction (Params.Validate, NewUxBalances, "
             "ChooseSpends with its comparators, DistributeCoinHoursProportional, DistributeSpendHours, create with its single "
             "share-factor fallback, VerifyCreatedInvariants), for all offers, requests and sizes: when create succeeds the "
             "transaction spends only offered outputs, each once (created_inputs_offered_nodup); pays each destination the "
             "requested address and coins in order, and the requested hours in manual mode (created_pays_exactly); auto hours "
             "sum exactly to the allotted amount (auto_hours_sum, created_auto_hours); output coins = input coins and the excess "
             "goes to one change output at the change address, present iff non-zero (created_change); burns at least the required "
             "fee (created_fee_ge_required); has >=1 input and output, no duplicate input, no duplicate output, no zero-coin or "
             "null-address output (created_wellformed). Completeness of spend choosing: choose_complete - for a non-trivial "
             "request ChooseSpends fails with ErrInsufficientBalance/Hours exactly when the offered coins, or the offered hours "
             "after the fee, cannot cover it (uses remaining_mono from C31); choose_sound. distributeSpendHours_sum. "
             "NOT proved: that create's 'should not occur' internal-error branches are unreachable (create_error_user_level is "
             "stated, only the validation stage is proved: create_error_user_level_partial); the correspondence flags any "
             "non-user-level error on a realistic offer as a failure. Tie: differential run of the real transaction.Create "
             "(+ Transaction.VerifyUnsigned on its result), ChooseSpendsMinimizeUxOuts, DistributeCoinHoursProportional and "
             "DistributeSpendHours against the model on generated requests; the driver also evaluates the property's own "
             "predicate on every transaction the implementation returns and flags a lack-of-funds failure on an offer whose coins and "
             "hours (after the fee on the total) suffice; requests exactly at the maximum sendable hours are generated.",
        note="Trusted: Lean kernel; the hand-written model (tied every run); uxid and address are compared as numbers "
             "(big-endian value = bytes.Compare order). Hypotheses: burn factor >= 1; no-wrap of the offered coin/hour totals for "
             "choose_complete (ChooseSpends adds without overflow checks). Coin hours of offered outputs use C31's specCoinHours.",
        technique="Lean 4 proof on a hand-written executable model + differential correspondence + property predicate on impl output",
    ),
    translators=[],
    props_files=["Sky/Props/C12.lean"],
    lean_targets=["Sky.Props.C12"],
    model_files=["Sky/C12/Model.lean", "Sky/C12/Lemmas.lean", "Sky/C12/Drv.lean"],
    min_ops={"quick": 5000, "thorough": 200000},
    trusted_base=[
        "Lean 4.33.0 kernel; axioms allowed: propext, Classical.choice, Quot.sound (audited by #print axioms)",
        "lean/Sky/C12/Model.lean: hand-written model of src/transaction/{create,choose,hours,params}.go, tied by harness/c12",
        "lean/Sky/C31/Spec.lean + Props/C31 (specCoinHours, ceilDiv, remaining_mono) reused",
    ],
    assumptions=[
        "burn factor >= 1 (params.UserVerifyTxn.BurnFactor; Validate enforces >= 2)",
        "choose_complete: offered coins and hours sum below 2^64 (ChooseSpends' running totals are unchecked)",
        "uxid / address order = numeric order of their big-endian value",
    ],
    rule="transaction.Create on generated requests: 1-12 offered outputs over 1-4 owners (0 hours, equal sort keys, accrued hours, "
         "genesis-style outputs), 1-5 destinations, manual/auto, share in {0,.001,.25,.5,.999,1}, change in {nil, owner, a "
         "destination, fresh}, burn factor in {2,3,10,100}; requests built so that the change output equals a destination "
         "(F11 class); the validation matrix; overflow corners; ChooseSpends / DistributeCoinHoursProportional / "
         "DistributeSpendHours directly with boundary values",
)
