def _dist_key(op, impl):
    kind = op.split(" ", 1)[0]
    if kind == "frames":
        tail = impl.split("|")[-1]
        nfr = sum(len(c.split("+")) for c in impl.split("|")[0].split(",") if c not in (".", ""))
        return "frames -> %s, %s frames" % ("err" if tail.startswith("err") else ("buf empty" if tail == "buf=-" else "buf partial"),
                                             "0" if nfr == 0 else ("1" if nfr == 1 else "2+"))
    if kind in ("readloop", "recv"):
        n = len([c for c in impl.split("|")[0].split("+") if c not in (".", "")])
        return "%s -> %s, %s" % (kind, impl.split("|")[-1][:40], "0 frames" if n == 0 else ("1 frame" if n == 1 else "2+ frames"))
    return "conv -> " + " ".join(impl.split(" ")[:2])


CONFIG = dict(
    prop="C22",
    ready=True,
    manifest=dict(
        text="Lean 4 theorems about a statement-by-statement model of gnet.decodeData, readLoop's connection-buffer handling and "
             "convertToMessage, with the message-id table, the Serializer delegation of the 12 message types and the framing constants "
             "REGENERATED from src/daemon/messages.go and gnet on every run: frames_of_chunks — for EVERY sequence of well-formed "
             "messages and EVERY chunking of its byte stream the receiver delivers exactly that sequence, in order, and ends with an "
             "empty buffer (induction over the stream with the invariant 'buffer ++ unread = frames of the undelivered messages and "
             "the buffer holds no complete frame'); bad_length_disconnects (prefix < 4 or > max, also after valid frames); "
             "convert_ok_iff + one theorem per disconnect reason (truncated id, unknown id, body does not decode, trailing bytes); "
             "receive_total — no byte string makes a registered message's decoder panic (the decoders are the generated programs of "
             "C21, whose operational semantics can panic). The correspondence run drives the REAL decodeData (one bytes.Buffer per "
             "connection, fed read by read as readLoop does) and the REAL convertToMessage over: streams of 1–6 real messages framed "
             "by gnet.EncodeMessage under every 2-cut / byte-by-byte / random / 1024-byte chunking, spliced bad length prefixes, "
             "boundary lengths 3,4,5,max-1,max,max+1, garbage; and frames of all 12 kinds valid, truncated, extended, bit-flipped, "
             "with unknown and near-miss ids.",
        note="the real readLoop (bufio reader, readData, connection buffer, decodeData, hand-over to msgChan) is run on scripted "
             "connections for well-formed streams of at most 30 frames (read sizes incl. multiples of 1024 and 4096 bytes, incomplete tails): "
             "every fully received frame must have been handed over when the peer goes idle; frames handed out by decodeData are "
             "looked at only when the slowest legal consumer of the 32-slot channel would see them; and the whole receive path "
             "(handleConnection: readLoop, receiveMessage, convertToMessage, the real daemon messages' Handle on a Daemon reduced "
             "to its event queue) is run on well-formed bursts, the queued messages being looked at only after the whole burst, "
             "as the daemon's event loop may (they must re-encode to the frames sent, in order). The channel overflow itself is modelled "
             "by queue_ok_iff (a burst is accepted iff it fits) which is the property's own proviso. Defect repaired while building: "
             "decodeData dropped complete frames when a read ended inside the next frame.",
        technique="Lean 4 proof (induction over the stream for all chunkings) + regenerated protocol tables + differential correspondence with the real framing and conversion functions",
    ),
    dist_key=_dist_key,
    translators=["codecgen"],
    props_files=["Sky/Props/C22.lean"],
    model_files=["Sky/C22/Model.lean", "Sky/C22/Lemmas.lean", "Sky/C22/Drv.lean", "Sky/Codec/Basic.lean", "Sky/Codec/Text.lean"],
    min_ops={"quick": 8000, "thorough": 200000},
    trusted_base=[
        "Lean 4.33.0 kernel; axioms allowed: propext, Classical.choice, Quot.sound (audited by #print axioms)",
        "tools/extract/codecgen: message-id table, Serializer delegation and framing constants read from the source (exact shapes)",
        "harness/c22 + Sky/C22/Drv.lean: differential run of the real decodeData / convertToMessage against the model",
        "C21 (reference codec = generated decoders)",
    ],
    assumptions=[
        "bytes.Buffer behaves as a FIFO byte queue (Write appends, Next/Read consume from the front)",
        "the consumer drains the 32-slot channel between reads (the property's 'bursts small enough to fit the receive queue')",
    ],
    rule="streams of 1-6 real messages (all 12 kinds, type-directed random content) x chunkings {one read, byte by byte, every 2-cut "
         "(<=200 bytes) or sampled + frame-boundary neighbourhoods, random 2-8 cuts, 1024-byte reads} x max in {1 MiB, around a "
         "message length, 4..64}; spliced bad prefixes {0,1,3,max+1,2^31,2^32-1}; boundary lengths; garbage; conv on every frame, "
         "its truncations, extensions, bit flips, all ids with 0/1/4/16-byte bodies, near-miss ids",
)
