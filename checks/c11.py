def _dist(op, impl):
    name = op.split(" ")[0]
    if name == "live_inject":
        return "live_inject " + op.split(" ")[1] + " -> " + impl.split(" | ")[0]
    f = impl.split(" ")
    if f[0] in ("err", "soft"):
        return name + " -> " + " ".join(f[:2])
    return name + " -> " + f[0]


CONFIG = dict(
    prop="C11",
    ready=True,
    dist_key=_dist,
    manifest=dict(
        text="Machine-checked Lean 4 theorems about a hand model of verifyTxnSoftConstraints (size, fee.TransactionFee, "
             "fee.VerifyTransactionFee, TransactionIsLocked, per-output DropletPrecisionCheck, in the code's order) whose integer primitives "
             "are the definitions REGENERATED from the Go source on every run (UxOut.CoinHours, AddUint64, VerifyTransactionFeeForHours/"
             "RequiredFee, DropletPrecisionToDivisor/DropletPrecisionCheck): for all transactions, input sets, head times and validated "
             "parameters (burn>=2, maxSize>=1024, precision<=6) the model passes iff size<=limit, all input hours defined and their sum and "
             "the output-hour sum fit 64 bits, out<=in, fee=in-out is non-zero and >= ceil((out+fee)/burn), no input belongs to a locked "
             "distribution address, every output is a multiple of 10^(6-precision) (soft_iff, soft_iff_regenerated); the first failing rule "
             "decides the error (soft_decision); no panic (soft_total); the divisor is 10^(6-p) (precision_rule); RequiredFee is the ceiling "
             "(required_fee_is_ceil, from C31); soft failures are wrapped as soft and hard as hard, hard first, errors unchanged "
             "(soft_never_hard, hard_never_soft, *_wraps_exactly, softHard_*_iff).",
        note="Tie: T for the integer primitives (gosubset; droplet.Exponent=6 is given to the translator as a constant in the units file), H "
             "for everything else: the real transaction.VerifySingleTxnSoftConstraints on synthetic transactions/inputs (the soft rules do "
             "not read signatures) and Visor.InjectUserTransaction on a live node with real signed transactions that violate chosen "
             "soft/hard/user rules. The hard rules themselves are C09's; here they enter only as an outcome (hard or not). The transaction "
             "size is modelled as 49+65*sigs+32*ins+37*outs with the encoder's 65535-element limit and checked by correspondence.",
        technique="Lean 4 proof over a hand model with translator-regenerated primitives + differential correspondence",
    ),
    translators=["gosubset"],
    props_files=["Sky/Props/C11.lean"],
    model_files=["Sky/C11/Model.lean", "Sky/C11/Lemmas.lean", "Sky/C31/Spec.lean", "Sky/Prim/Res.lean"],
    min_ops={"quick": 3000, "thorough": 100000},
    trusted_base=[
        "Lean 4.33.0 kernel; axioms allowed: propext, Classical.choice, Quot.sound (audited by #print axioms)",
        "tools/extract/gosubset: Go->Lean translation of the integer primitives (units 00,10,30; constant droplet.Exponent=6 supplied)",
        "Sky/C11/Model.lean: hand model of verifyTxnSoftConstraints, fee.TransactionFee/VerifyTransactionFee, UxArray.CoinHours, "
        "Transaction.OutputHours/Size, TransactionIsLocked, the soft/hard wrappers",
        "harness/c11 + Sky/C11/Drv.lean: differential run of VerifySingleTxnSoftConstraints and Visor.InjectUserTransaction",
    ],
    assumptions=[
        "the hand model agrees with the Go code (checked by correspondence)",
        "Go uint64/uint32/uint8 arithmetic wraps as modelled by wrapN/subN",
        "distribution addresses are pairwise different (membership in LockedAddresses modelled by list position)",
        "the hard rules are represented by their outcome only (C09 models them)",
    ],
    rule="fee at ceil(total/burn)-1,+0,+1 and zero/negative fee for burn in {2,3,10,2^32-1,random,0,1}; size at limit-1,limit,limit+1 incl. "
         "real limits 1024/32768 with hundreds of inputs; precision 0..6 (and 7,8,255) with amounts k*10^j+-1; locked/unlocked/non-"
         "distribution input addresses around the InitialUnlockedCount boundary; hours at 2^64 boundaries; live node: valid, exact-fee, "
         "no-fee, low-fee, bad-decimals, locked-address, hard (bad signature, unknown input, coins/hours created), user (null output) "
         "transactions and their combinations; distinct = distinct (op,result)",
)
