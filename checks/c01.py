import os, sys
sys.path.insert(0, os.path.dirname(__file__))
from ledger_common import ledger_config
CONFIG = ledger_config("C01", ["Sky/Props/C01.lean"], dict(
    text="Lean 4 theorems over an executable ledger model, for ALL finite histories (valid, invalid, stale, duplicated, re-ordered "
         "blocks; injections; refresh; invalid-removal; restart): the unspent coins summed in N (no modulus) equal the genesis "
         "volume (supply_conserved), unspent ids stay unique, every transaction of an accepted block has input coins exactly "
         "equal to output coins with both sums fitting 64 bits (accepted_txn_balanced, no_silent_overflow), a rejected block "
         "changes nothing. The model is tied to the code by replaying random histories on real nodes and comparing verdict and "
         "whole-state digest per op; on any difference the property predicate (sum of the node's reported unspent coins = genesis "
         "volume) is evaluated on the node's own output to produce the failing history.",
    note="Proofs cover both node configurations (ordinary and arbitrating publisher); ids/hashes/signature checks and Transaction.verify's verdict are "
         "supplied by the real code per op (WfSound hypothesis: accepted transactions have distinct inputs). bolt atomicity assumed.",
    technique="Lean 4 invariant proof by induction over histories + whole-state differential correspondence with real nodes",
))
