def _dist_key(op, impl):
    """op kind + result classes (error kinds, not payloads)"""
    fs = dict(f.split("=", 1) for f in impl.split("|") if "=" in f)
    def cls(x):
        if x is None:
            return "?"
        if x.startswith("err "):
            return x[4:]
        if x.startswith("ok"):
            return "ok"
        return x if x in ("same", "-", "none", "neq", "panic", "0", "1") else "bytes"
    kind = op.split(" ", 1)[0]
    if kind == "dec":
        return "dec -> gen=%s genx=%s reenc=%s" % (cls(fs.get("gen")), cls(fs.get("genx")), cls(fs.get("reenc")))
    return "enc -> gen=%s rt=%s" % (cls(fs.get("gen")), cls(fs.get("rt")))


CONFIG = dict(
    prop="C21",
    ready=True,
    manifest=dict(
        text="Lean 4 theorems, for ALL values and ALL byte strings (no size bounds), in three layers. "
             "(A) Reference codec Sky.Codec.enc/dec/size, a transcription of encoder.go over a schema universe, proved once by "
             "induction on the schema: round trip dec(enc v ++ rest) = (v, rest); Size = bytes written; exact decoding is canonical "
             "for every omitempty-free schema (decExact b = ok v -> enc v = b) and, with omitempty, enc v = b OR b = enc v ++ 00000000 "
             "with an empty last field (the exact statement; the failing case is proved to exist: intro_not_canonical = known finding F13); "
             "decoded values respect every maxlen tag; error kinds (never ErrRemainingBytes from the plain decoder, ErrInvalidBool only "
             "with a bool, ErrMaxLenExceeded only with a tag; underflow test before maxlen test); the generated encoder refuses exactly "
             "when a tagged field exceeds maxlen. (B) Generated code: op programs DProg/EProg/SProg with an operational semantics that "
             "can PANIC (unguarded slice expression, write past the buffer allocated from encodeSizeX); a program equal to refCodec(t) "
             "decodes, encodes and sizes exactly like the reference on every input and never panics. (C) Per generated file, "
             "REGENERATED on every run by tools/extract/codecgen from the 29 *_skyencoder.go files and the Go struct declarations + "
             "enc tags: gen_X_refines : denote prog_X = refCodec ty_X (by decide) and ty_X = the stable hand-written schema; "
             "all_refine instantiates (A)+(B) for all 29. The correspondence run executes BOTH Go encoders (generated encodeX/"
             "decodeX/decodeXExact/encodeSizeX via *_verif.go hooks, and encoder.Serialize/Size/DeserializeRaw/DeserializeRawExact) "
             "on type-directed values (nil/empty/1/2/maxlen-1/maxlen/maxlen+1/70000-element slices, extreme integers) and on valid, "
             "truncated, byte-mutated, length-field-edited, extended and random byte strings; the Lean reference answers every line; "
             "bytes, decoded value, consumed length, error kind, DeepEqual of the two decoded objects and the re-encoding must agree.",
        note="Carried by the tie, not by theorems: that Sky.Codec.enc/dec is what encoder.go does (harness, both directions, every "
             "run) and that codecgen reads the generated files correctly (every statement must match a template exactly, else hard "
             "error). uint64 wrap in encodeSizeX is not modelled (sizes << 2^64). Known finding F13 (IntroductionMessage omitempty: "
             "explicit empty Extra decodes and re-encodes 4 bytes shorter) is reported as KNOWN-FINDING. Repaired while building: "
             "693ca3325 (reference decoder accepted a truncated omitempty field that the generated decoder rejects).",
        technique="Lean 4 proof (generic induction over a schema universe + regenerated per-file refinement obligations) + differential correspondence of both Go encoders against the executable reference",
    ),
    dist_key=_dist_key,
    translators=["codecgen"],
    props_files=["Sky/Props/C21.lean", "Sky/Gen/CodecsThm.lean"],
    model_files=["Sky/Codec/Basic.lean", "Sky/Codec/Lemmas.lean", "Sky/Codec/Prog.lean", "Sky/Codec/ProgLemmas.lean",
                 "Sky/Codec/Schemas.lean", "Sky/Codec/Text.lean", "Sky/C21/Drv.lean"],
    min_ops={"quick": 8000, "thorough": 200000},
    trusted_base=[
        "Lean 4.33.0 kernel; axioms allowed: propext, Classical.choice, Quot.sound (audited by #print axioms)",
        "tools/extract/codecgen: syntactic extraction of the op programs of the 29 generated files and of the struct schemas "
        "(exact template match per statement; unrecognised shape = hard error)",
        "harness/c21 + Sky/C21/Drv.lean: differential run of generated and reference Go encoders against Sky.Codec",
    ],
    assumptions=[
        "Go values are well formed (integers in range, fixed arrays of their declared length): predicates WF / ShapeOK",
        "uint64 arithmetic in encodeSizeX does not wrap (encoded sizes are far below 2^64)",
        "the primitive Decoder/Encoder methods (d.Uint32, e.CopyBytes, ...) are modelled by hand and validated by the correspondence",
    ],
    rule="per generated codec (29): type-directed values with slice lengths {nil, empty, 1, 2, 3-6, maxlen-1, maxlen, maxlen+1, 200-400, "
         "70000 (rationed)} and boundary integers -> enc op; from each value's encoding: all/sampled truncations, single-byte mutations, "
         "every length field set to {0, len+-1, 2^31, 2^32-1, bytes-left, bytes-left+1, maxlen, maxlen+1}, trailing 00 / 00000000 / "
         "01000000 / random, random strings -> dec ops; distinct = distinct (op, output) lines",
)
