CONFIG = dict(
    prop="C21",
    ready=False,
    translators=["codecgen"],
    props_files=["Sky/Props/C21.lean"],
    model_files=["Sky/Codec/Basic.lean", "Sky/Codec/Lemmas.lean", "Sky/Codec/Prog.lean", "Sky/Codec/Schemas.lean",
                 "Sky/Codec/Text.lean", "Sky/C21/Drv.lean"],
    min_ops={"quick": 8000, "thorough": 200000},
)
