CONFIG = dict(
    prop="C15",
    ready=True,
    manifest=dict(
        text="Lean 4 theorems about the big-integer definition of base58 (enc58/dec58: leading zero bytes <-> leading '1's, "
             "base-58 positional digits of the big-endian value, alphabet REGENERATED from base58.go): dec_enc (round trip for "
             "every non-empty byte string), enc_dec / dec_ok_iff (canonicity: a string decodes iff it is exactly the encoder's "
             "output), enc_injective, dec_rejects / dec_accepts / dec_total (the empty string and any byte outside the alphabet, "
             "incl. every non-ASCII byte, fail; nothing else fails; no panic), size_suffices (the encoder's n*138/100+1 digit "
             "buffer always fits, with the regenerated 138/100/1). Addresses, for an arbitrary hash H (only its width assumed): "
             "addr_decode_iff (a text decodes to a iff it is the canonical text of a, version 0, well-formed), "
             "addrString_injective, addr_text_unique, decodeAddr_total. Algorithm level, also THEOREMS: encFast_eq_spec and "
             "decFast_eq_spec - faithful executable models of the limb loops of fastBase58EncodingAlphabet / "
             "fastBase58DecodingAlphabet (uint32/uint64/byte wrap-around explicit, every index fault a `panic` outcome, the "
             "`high` short-cut, the carry and zmask 'output number too big' tests, []rune(str) UTF-8 decoding) equal the "
             "big-integer definition on EVERY byte string / string, so faults and the two 'too big' errors are unreachable "
             "(loop invariants in Sky/C15/AlgoEnc.lean, AlgoDec.lean). That these hand-written loop models are what the Go "
             "code does is carried by the correspondence: the Go functions (base58.Encode/Decode, "
             "DecodeBase58Address, AddressFromBytes, Address.Bytes/String, AddressFromPubKey, SumSHA256, HashRipemd160) are "
             "tied to specification AND loop models by a differential run: exhaustive over all byte strings of length <= 1 "
             "(quick) / <= 2 (thorough), all strings of length <= 2 / <= 3 over alphabet + look-alikes + non-ASCII, random "
             "lengths to 300, address texts with every single-character substitution.",
        note="Trusted: Lean kernel (+propext, Classical.choice, Quot.sound); tools/extract/b58consts (syntactic extraction of the "
             "alphabet literal, size formula, radix and address lengths; unrecognised shapes are rejected); the correspondence "
             "harness. Encode([]) = \"\" and Decode(\"\") is an error, so the round trip is stated for non-empty byte strings. "
             "The HTTP endpoint /api/v2/address/verify is a thin wrapper over DecodeBase58Address and is not exercised.",
        technique="Lean 4 proof at specification AND algorithm level + translator-regenerated constants + differential correspondence of Go vs spec vs loop model",
    ),
    translators=["b58consts"],
    props_files=["Sky/Props/C15.lean"],
    model_files=["Sky/C15/Spec.lean", "Sky/C15/Model.lean", "Sky/C15/Lemmas.lean", "Sky/C15/AlgoEnc.lean", "Sky/C15/AlgoDec.lean", "Sky/C15/Drv.lean"],
    min_ops={"quick": 15000, "thorough": 400000},
    trusted_base=[
        "Lean 4.33.0 kernel; axioms allowed: propext, Classical.choice, Quot.sound (audited by #print axioms)",
        "tools/extract/b58consts: syntactic extraction of alphabet, size formula, radix, address field lengths from base58.go/address.go",
        "harness/c15 + Sky/C15/Drv.lean: differential run of the real functions against specification and loop models",
        "Sky/Hash (SHA-256, RIPEMD-160 in Lean), compared with cipher.SumSHA256/HashRipemd160 in the same run",
    ],
    assumptions=[
        "a Go string is its byte sequence; []rune(str) is modelled by Sky.C15.Model.runesOf (compared with Go on every run)",
        "the address hash is a parameter H of the theorems; only `HashOK H` (>= 4 output bytes, each < 256) is assumed",
        "byte strings are lists of naturals < 256 (hypothesis IsBytes)",
    ],
    rule="all byte strings of length <=1 (+ sampled/structured length 2; all of length 2 in thorough) through Encode; all strings of "
         "length <=2 (<=3 thorough) over alphabet+{0,O,I,l,space,0x80,e-acute} through Decode; random/structured byte strings and "
         "texts up to 300 bytes with mutations; address texts with substitutions at every position; distinct = distinct (op,result) lines",
)
