CONFIG = dict(
    prop="C16",
    ready=True,
    manifest=dict(
        text="Lean 4 specification of BIP39 / BIP32 / BIP44 (positional notation on word indices; CKDpriv / CKDpub / serialisation on "
             "the textbook secp256k1 with the hashes as parameters) with theorems: wordlist_is_bip39_english (the word list "
             "REGENERATED from wordlists/english.go has 2048 entries and the SHA-256 of the published english.txt), "
             "entropy_mnemonic_roundtrip, mnemonic_entropy_roundtrip, validate_iff_checksum (a mnemonic validates iff its trailing "
             "ENT/32 bits are the first bits of the hash of the leading bits; hash a parameter), split_rejects, ckd_commutes and "
             "ckd_fail_coincide in the abstract prime-order group (public derivation of a normal child equals the public key of the "
             "privately derived child, and fails exactly when it does), hardened_pub_fails, serialize_roundtrip, depth_limit, "
             "path_shape (account a, chain c, index i is m/44'/coin'/a'/c/i). The specification is anchored to the standards by "
             "running the published BIP32 (vectors 1-3) and BIP39 (Trezor, 24 vectors) values through the Lean specification "
             "itself, and tied to the Go code by a differential run (same vectors + random/boundary entropies, mnemonics with every "
             "kind of malformation, passphrases, seeds of 16..64 bytes, paths of depth <= 6 with indices 0, 2^31-1, 2^31, 2^32-1, "
             "serialised keys with every field fault, textual paths, BIP44 coin/account boundaries) using the Lean SHA-512 / "
             "HMAC-SHA512 / PBKDF2 / RIPEMD-160, which are themselves compared with crypto/sha512, crypto/hmac and "
             "src/cipher/pbkdf2 in the same run.",
        note="Known finding F22: NewSeed does not NFKD-normalise the passphrase (BIP39 requires it). The failure branches of child "
             "derivation (IL >= n, child key 0, point at infinity; probability < 2^-127) cannot be exercised on the real code and "
             "are covered by the model and ckd_fail_coincide only. The curve group assumption of C14 applies to ckd_commutes.",
        technique="Lean 4 proof at specification level + published vectors through the specification + differential correspondence",
    ),
    translators=["bip39words", "b58consts"],  # b58consts: Sky.C16.Spec uses Sky.C15.Spec (base58 of xprv/xpub), whose constants are regenerated
    props_files=["Sky/Props/C16.lean"],
    model_files=["Sky/C16/Spec.lean", "Sky/C16/Lemmas.lean", "Sky/C16/Drv.lean", "Sky/Crypto/Secp256k1.lean"],
    min_ops={"quick": 500, "thorough": 5000},
    trusted_base=[
        "Lean 4.33.0 kernel; axioms allowed: propext, Classical.choice, Quot.sound (audited by #print axioms)",
        "tools/extract/bip39words: extraction of the English word list literal (+ its SHA-256) from wordlists/english.go",
        "Sky/Hash (SHA-256/512, HMAC, PBKDF2, RIPEMD-160 in Lean; compared with Go in this run and in ./check C15)",
        "harness/c16 + Sky/C16/Drv.lean; the published BIP32/BIP39 vectors as transcribed in the repo's own test files",
    ],
    assumptions=[
        "hashes are parameters of the BIP39/BIP32 theorems (only their output width is used)",
        "secp256k1 points form a group of prime order n (ckd_commutes is stated for any ZMod n-module)",
        "NFKD forms of the few non-normalised test passphrases are supplied by hand in the generator",
    ],
    rule="published vectors (40) + 14 (168 thorough) random/structured entropies of all five sizes each with ~12 malformed neighbours "
         "+ (thorough) all 2048 last words for one prefix + 8 (96) seeds x random paths of depth <= 5 private and public + 6 known "
         "extended keys x 24 field faults x {private,public} deserialiser + 24 textual paths + BIP44 boundary coins/accounts; "
         "distinct = distinct (op,result) lines",
)


def run(tier, seed, replay):
    from checks.cryptocommon import run_with_startup_guard
    return run_with_startup_guard(CONFIG, tier, seed, replay)
