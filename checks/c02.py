import os, sys
sys.path.insert(0, os.path.dirname(__file__))
from ledger_common import ledger_config
CONFIG = ledger_config("C02", ["Sky/Props/C02.lean"], dict(
    text="Lean 4 theorems over the ledger model: after an accepted block the unspent set is EXACTLY (old set minus the block's inputs) "
         "plus the created outputs (unspent_eq_created_minus_spent); acceptance requires every input to be unspent at the head and all "
         "inputs of the block pairwise distinct (accept_requires_unspent_and_distinct); created ids are pairwise distinct and collide "
         "with no unspent output (created_ids_fresh); a spent output is gone and cannot be spent again (spent_is_gone). Tie: the node's "
         "full unspent set is compared with the model's after every op of random histories that include intra-block double spends, "
         "re-spends, same-block chains and duplicated transactions.",
    note="Both node configurations are covered by the proofs (HashInj on a block's transactions is the only hash assumption). Output ids are opaque values computed by "
         "the real code; 'never re-created across the whole chain' at id level would need collision-freeness of SHA-256 and is not claimed.",
    technique="Lean 4 proof over ledger model + whole-state differential correspondence",
))
