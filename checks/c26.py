def _dist_key(op, impl):
    f = op.split(" ")
    out = impl.split("|")
    r = out[0]
    if f[0] == "validate":
        r = " ".join(impl.split(" ")[:2]) if impl.startswith("err") else "ok"
    elif f[0] == "addpeers":
        r = "ok n"
    elif f[0] == "addpeer" and len(out) > 1 and out[1] != "v=-":
        r += " evict"
    return f[0] + " -> " + r

CONFIG = dict(
    prop="C26",
    ready=True,
    manifest=dict(
        text="Lean 4 theorems about a model of pex.Pex / peerlist and of validateAddress, for every configuration, every history "
             "of AddPeer / AddPeers / RemovePeer / setTrusted / retry ops / SetHasIncomingPort / ClearOld tick / clock advance of any "
             "length, arbitrary byte strings as addresses, and every outcome of the code's chance-dependent choices (eviction victim "
             "among ties, rand.Shuffle permutation, sub-second clock fraction): validateAddress accepts exactly `a.b.c.d:port` with "
             "canonical dotted-quad octets, global unicast (or loopback iff allowed) and a decimal port in 1024..65535, returning the "
             "input stripped of \\s (validateAddress_iff, error order validateAddress_errors); every stored address satisfies that "
             "rule and addresses are unique (all_valid, one_record_per_address); AddPeers and AddPeer never grow a list within Max "
             "beyond Max (bulk_bounded, single_add_bounded, size_bounded); AddPeer, AddPeers and the ClearOld tick never drop or "
             "un-trust a trusted peer (trusted_never_evicted, trusted_never_cleared, trusted_kept_run); what AddPeer evicts is the "
             "oldest untrusted peer, at least 24 h old, from a full list; what ClearOld drops is untrusted and at least Expiration old. "
             "Tie: the real functions run on generated histories and address strings; after every op the whole peer list "
             "(address, age, trusted, incoming, retry) is compared with the model's.",
        note="net.ParseIP / IsLoopback / IsGlobalUnicast / strconv.ParseUint / regexp \\s are modelled by hand from their documented "
             "behaviour and pinned by the correspondence run (tables of boundary addresses x ports, whitespace/unicode injection, random "
             "bytes). The code reads time.Now() directly: each case runs within one wall-clock second (rebuilt otherwise), ages are "
             "compared, and clock advance is emulated by shifting LastSeen (the code only uses clock-LastSeen differences). loadCache / "
             "loadCustom / New (start-up paths) are outside the property's op alphabet and not modelled.",
        technique="Lean 4 inductive invariant proof + parser-correctness proof over a hand model; differential state-dump correspondence",
    ),
    translators=[],
    props_files=["Sky/Props/C26.lean"],
    model_files=["Sky/C26/Model.lean", "Sky/C26/Check.lean", "Sky/C26/Addr.lean", "Sky/C26/Lemmas.lean",
                 "Sky/C26/Preserve.lean", "Sky/C26/Drv.lean"],
    min_ops={"quick": 15000, "thorough": 300000},
    dist_key=_dist_key,
    trusted_base=[
        "Lean 4.33.0 kernel; axioms allowed: propext, Classical.choice, Quot.sound (audited by #print axioms)",
        "hand-written model Sky/C26/Model.lean of src/daemon/pex/{pex,peerlist}.go and of the Go stdlib pieces validateAddress uses "
        "(tie H): validated on every run against the real code",
        "src/daemon/pex/pex_verif.go (verif-tag exports) + harness/c26 + Sky/C26/Drv.lean (read-back of victim / permutation, dump, diff)",
    ],
    assumptions=[
        "the code depends on the clock only through (now - LastSeen): advancing the clock is emulated by shifting LastSeen",
        "rand.Shuffle with the global source seeded by rand.Seed(k) is replayed by the harness to obtain the permutation",
        "start-up loading (loadCache/loadCustom/DefaultConnections) is outside the modelled alphabet",
    ],
    rule="corpus (address/port/IP-class boundaries, \\s vs \\v/NBSP, eviction threshold 86399/86400, ties, ClearOld at exactly Expiration, "
         "bulk caps) + product of IP tables x port tables x allowLocalhost through validateAddress + grammar/junk/random-byte addresses + "
         "seeded stateful histories (Max in {-1,0,1,2,3,5,8}, 1-40 ops, small address pools so ops collide, advances around 24 h and "
         "Expiration); distinct = distinct (op, result, full list dump) lines",
)
