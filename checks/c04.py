import os, sys
sys.path.insert(0, os.path.dirname(__file__))
from ledger_common import ledger_config
CONFIG = ledger_config("C04", ["Sky/Props/C04.lean"], dict(
    text="Lean 4 theorems over the ledger model (any configuration): an accepted block is publisher-signed over exactly the stored "
         "header, has seq head+1, later time, the head's hash as parent, matching body hash and unspent checksum, is not a second "
         "genesis, and the stored chain is the old chain plus the SUBMITTED block (append_only_if, stored_is_submitted, "
         "second_genesis_refused, unsigned_refused); a rejected block leaves the whole state unchanged (reject_no_change); after any "
         "history the stored chain is signed, consecutive, time-increasing and hash-linked (chain_shape_invariant); conversely, in every "
         "state a history reaches (Strong, storage_invariants_after_run) a signed block that passes processBlock and is new to the "
         "block store IS appended - no storage step can refuse it (append_iff, execSigned_succeeds). Tie: every "
         "single-field mutation of valid next blocks (re-signed with the real key, stale signature, forger key, flipped signature bits) is "
         "submitted to real nodes at random points of random histories; verdict, stored chain and whole state are compared per op and "
         "the node's own visor.CheckDatabase runs on copies of the real database.",
    note="both directions proved on the model (the converse under the history invariants of Sky/Ledger/Progress.lean and the hash hypotheses HashInj/WfSound). Model = code after "
         "the repairs of F3 (PrevHash overwrite) and F15 (re-arbitration of signed blocks).",
    technique="Lean 4 proof over ledger model + mutation-driven differential correspondence + CheckDatabase on real files",
), profile="c04")
