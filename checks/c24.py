import re

def _dist_key(op, impl):
    out = impl.split("|")[0]
    return op.split(" ")[0] + " -> " + out

CONFIG = dict(
    prop="C24",
    ready=True,
    manifest=dict(
        text="Lean 4 theorems about a statement-by-statement state-machine model of daemon.Connections (pending / connected / "
             "introduced / remove / modify, canUpdateMirror, updateMirror, ListenAddr), for ALL event sequences of any length over "
             "any addresses, ids, mirrors and ports, failing calls included (induction over the event list): per-IP counts equal the "
             "number of held connections per IP and have no zero entries; the IP+mirror registry holds exactly the introduced "
             "connections with their listen port and no empty inner maps; the listen-address map is exactly the held connections "
             "grouped by listen key (no duplicates, no empty lists, no \"\" key); two introduced connections never share IP and mirror; "
             "a connection becomes introduced only from the connected state through an `introduced` event carrying its own id; a "
             "failing call changes nothing; only modify can panic (exactly when its function changes Mirror/ListenPort); after "
             "removing every connection all five maps are empty; the connection-id map never holds a zero or stale id. The exact "
             "connection-id map (id -> address of the held connection with that id) is proved under the stated environment "
             "assumption that a `connected` event never re-uses the id of a held connection. Tie: the real Connections methods "
             "(exported under the verif tag) are run on generated and exhaustively enumerated event sequences; after every event all "
             "five maps are dumped and compared with the model's; on a difference the invariant's finite checks (proved to follow "
             "from the invariant) are evaluated on the implementation's own state to decide fail/hold. Half of the generated histories "
             "reach the same transitions the way the daemon does — Daemon.handleEvent(ConnectEvent / DisconnectEvent / "
             "ConnectFailureEvent) and connectionIntroduced on a Daemon reduced to its connections table, a bare pex and an offline "
             "pool — so that the event handlers' own bookkeeping is compared too.",
        note="Address split/join (iputil.SplitAddr, fmt.Sprintf) are parameters of the theorems (only assumption: \"\" does not "
             "split); the driver's concrete splitAddr is validated by the correspondence run incl. IPv6, leading-zero ports and "
             "malformed addresses. Locking (sync.Mutex) and time stamps are not modelled. The model is hand-written (tie H).",
        technique="Lean 4 inductive invariant proof over a hand model + differential state-dump correspondence",
    ),
    translators=[],
    props_files=["Sky/Props/C24.lean"],
    model_files=["Sky/C24/Model.lean", "Sky/C24/AMap.lean", "Sky/C24/Check.lean", "Sky/C24/Lemmas.lean",
                 "Sky/C24/Preserve.lean", "Sky/C24/Legacy.lean", "Sky/C24/Drv.lean"],
    min_ops={"quick": 15000, "thorough": 600000},
    dist_key=_dist_key,
    trusted_base=[
        "Lean 4.33.0 kernel; axioms allowed: propext, Classical.choice, Quot.sound (audited by #print axioms)",
        "hand-written model Sky/C24/Model.lean of src/daemon/connections.go (tie H): validated on every run by dumping all five "
        "maps of the real Connections after every event of generated + exhaustively enumerated sequences",
        "src/daemon/connections_verif.go (verif-tag exports, snapshot) + harness/c24 + Sky/C24/Drv.lean (canonical dump, diff)",
    ],
    assumptions=[
        "environment (only for gnetIDs_exact / gnetIDs_distinct): a `connected` event never carries the id of a held connection "
        "(gnet pool numbers connections from a counter)",
        "Env.WF: the empty string is not a valid address (proved for the driver's splitAddr; SplitAddr(\"\") fails in Go)",
        "mutex discipline and ConnectedAt time stamps are outside the model",
    ],
    rule="corpus (F9 witnesses, boundaries) + exhaustive successful-prefix event sequences over {2 addrs on one IP, ids 1-2, mirrors 0-1, "
         "listen ports 0/6000} to depth 3 (quick) / 4-5 (thorough) + seeded guided sequences (1-30 events over 3 IPs x 3 ports incl. 0, "
         "IPv6 / leading-zero / malformed addresses, mirrors 0-2, fresh ids, drain at the end) + wild sequences with re-used ids; "
         "distinct = distinct (op, full state dump) lines",
)
