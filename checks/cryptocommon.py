"""shared by checks/c10.py, c14.py, c16.py: the cipher package runs a self-test in init(); a tree whose
curve code is broken badly enough makes EVERY binary that links it panic at start-up, before the harness
can execute a single op. That is a fault of the implementation, not of the check: report it as a
VIOLATION (exit 1) with the panic text as the replay payload instead of CHECK-ERROR (exit 2)."""
import vlib


def run_with_startup_guard(config, tier, seed, replay):
    try:
        return vlib.standard_check(config, tier, seed, replay)
    except RuntimeError as e:
        msg = str(e)
        if msg.startswith("harness") and ("panic:" in msg or "fatal error" in msg) and "cipher.init" in msg:
            R = vlib.Result(config["prop"], tier, seed)
            path = R.write_replay("startup-fault", {
                "ops": [], "note": "the harness binary (linking the current tree) panicked in package initialisation "
                                   "(cipher self-test) before any operation ran", "stderr": msg[-1500:]})
            R.violations.append(("startup-fault", path, "no-failing-input-found"))
            R.obligations = 1
            return R.finish()
        raise
