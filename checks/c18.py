CONFIG = dict(
    prop="C18",
    ready=True,
    manifest=dict(
        text="Machine-checked Lean 4 theorems. Lock/Unlock on a model of the three secret-holding wallet types with the cipher "
             "as a parameter: lock_removes_secrets (no seed, last seed, passphrase, account key or entry secret key remains "
             "in clear in the locked wallet; public data unchanged: lock_keeps_public), unlock_lock (same password restores "
             "exactly the original wallet, under the stated cipher-correctness hypothesis CipherOK), wrong_password_rejected "
             "(under the ideal-cipher hypothesis WrongKeyRejected), lock_ok_iff. Robustness, with no crypto assumption, on "
             "faithful models of the two Decrypt functions in which every Go slice expression is the partial slice with "
             "capacities, uint16/int arithmetic wraps as in Go, scrypt.Key's parameter checks divide as written and "
             "aead.Open panics on a nonce that is not 12 bytes: xor_decrypt_total (Sha256Xor.Decrypt never panics, for all "
             "byte strings/passwords/hash functions) and scrypt_decrypt_total (ScryptChacha20poly1305.Decrypt never panics "
             "when the work area 128*N*r demanded by the metadata is allocatable); scrypt_decrypt_total_partial shows the "
             "allocation is the ONLY possible panic, and the unrestricted statement is proved false (known finding). "
             "Tie: the real Decrypt functions under recover on valid, truncated, length-edited, bit-flipped and malformed-"
             "metadata inputs against the models (json.Unmarshal result and the scrypt/chacha cores read back and passed to the "
             "model), base64 decoder and scrypt.Key parameter checks validated separately, real wallets of each type locked, "
             "serialised, searched for every original secret, reloaded and unlocked; after every Unlock (successful or not) and after "
             "any use of the unlocked copy or of a Clone the locked wallet is re-serialised and must be unchanged and secret-free "
             "(aliasing checks between a wallet and its Clone for all four wallet types); wallets extended WHILE LOCKED on both bip44 chains (and through GuardUpdate) must unlock to the never-locked twin of the same seed with every entry's secret key matching its public key. The cipher is looked up in the model (lockT/unlockT: recorded cryptoType, crypto.DefaultCryptoType when the meta has none): unlock_lockT / lockT_records / lockT_ok_iff cover wallets WITHOUT a recorded crypto type; wallets loaded (wallet.Load) from sparse or legacy serialised forms - cryptoType/encrypted/version/tm/label absent, legacy spellings, every loadable unencrypted *.wlt in the repo's testdata directories - go through the same Lock / reload / Unlock cycle and through Service.EncryptWallet / DecryptWallet with fresh services, a few of them per run through the real default scrypt cipher. sha256-xor plaintexts and wallet secrets beyond 64 and 8192 blocks (multi-byte varint block index) are encrypted first in the process and short ones after them (xafter: long then short in ONE op); Encrypt's ciphertext is decrypted by the Lean reference (xref), reference-built ciphertexts by the implementation (xdec, now a property failure when the reference decrypts and the implementation does not).",
        note="Assumed: cipher correctness / authenticity as explicit hypotheses (CipherOK, WrongKeyRejected); json.Unmarshal, the "
             "scrypt core, chacha20poly1305 core, SHA-256 and Secp256k1Hash do not panic (they are total parameters); ciphertexts "
             "shorter than 2^38 bytes. Memory exhaustion (OOM kill) for 2^26 < 128*N*r <= 2^48 is a runtime effect outside the model.",
        technique="Lean 4 proof on hand-written faithful models + differential correspondence with read-back of library calls",
    ),
    translators=[],
    props_files=["Sky/Props/C18.lean"],
    model_files=["Sky/C18/Model.lean", "Sky/C18/Lemmas.lean", "Sky/C18/Drv.lean"],
    min_ops={"quick": 3000, "thorough": 20000},
    trusted_base=[
        "Lean 4.33.0 kernel; axioms allowed: propext, Classical.choice, Quot.sound (audited by #print axioms)",
        "lean/Sky/C18/Model.lean: hand-written models of ScryptChacha20poly1305.Decrypt, Sha256Xor.Decrypt, scrypt.Key's parameter "
        "checks, base64.StdEncoding.Decode, Wallet.Lock/Unlock incl. the cipher lookup with default - tied by harness/c18 (differential, every run)",
        "lean/Sky/Hash/Sha256.lean (driver only): SHA-256 used to run the sha256-xor model on the same bytes",
    ],
    assumptions=[
        "CipherOK: dec (enc m pw r) pw = m, the secrets map survives its JSON round trip, ciphertexts are non-empty",
        "WrongKeyRejected (ideal cipher) for the rejection clause only",
        "library functions taken as total parameters: json.Unmarshal, scrypt core, chacha20poly1305 core, SHA-256, Secp256k1Hash",
        "runtime maxAlloc = 2^48 (linux/amd64); out-of-memory below that bound is not modelled",
    ],
    rule="base64 texts (hand-picked + random/mutated), scrypt.Key boundary grid over N,r,p,keyLen, scrypt ciphertexts: empty, 1-3 "
         "raw bytes, every length-prefix edit incl. 65533..65535, truncations, nonce/salt sizes, N/r/p/keyLen in {negative,0,huge,"
         "non-numeric}, malformed JSON, bit flips of raw bytes and of the base64 text, random bytes; sha256-xor: the same "
         "transforms with and without a repaired outer checksum, inner length edits; Encrypt/Decrypt round trips; Lock/Unlock "
         "of deterministic, bip44 and collection wallets with both ciphers; loaded wallets: NewWallet serialisations with meta fields dropped / respelled, all testdata fixtures (slow recorded type replaced in quick), per type one wallet without cryptoType through the default cipher; large-then-small sha256-xor plaintexts (1980..4100 bytes, thorough up to 262 200) and 18/25/40-address wallets followed by small ones",
)
