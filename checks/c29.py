def _dist(op, impl):
    name = op.split(" ")[0]
    f = impl.split(" ")
    if f[0] == "err":
        return name + " -> " + " ".join(f[:2])
    if name in ("page", "live_page", "pagenil") and f[0] == "ok":
        return name + " -> ok " + ("empty page" if f[-1] == "-" else "items")
    if name == "Cal" and f[0] == "ok":
        return name + " -> ok " + ("empty range" if f[1] == f[2] else "range")
    return name + " -> " + f[0]


CONFIG = dict(
    prop="C29",
    ready=True,
    dist_key=_dist,
    manifest=dict(
        text="Machine-checked Lean 4 theorems about PageIndex.Cal as REGENERATED from src/visor/transaction_model.go on every run "
             "(gosubset translator): for every page size >= 1 with size + n < 2^64 (so all sizes 1..100 the constructor admits and all "
             "slice lengths) and ALL 64-bit page numbers, Cal returns [size*(k-1), min(size*k, n)) and N = ceil(n/size) for k <= N and the "
             "empty range for every k > N, with no wrap-around (cal_spec, total_pages_eq); pages 1..N are the consecutive chunks and "
             "concatenate to the list (pages_partition), pages beyond N are empty (beyond_empty), the slice expression never panics "
             "(page_total). A hand model of txnHashesContainer (Add/AddItem/Append/Sort/Pagination) is proved to keep hashes "
             "duplicate-free under any op sequence (built_nodup), Sort to return the unique strictly (seq,hash)-sorted permutation "
             "(sort_sorted_*, sort_unique_*), and the end-to-end pipeline adds->Sort->Pagination to satisfy the whole property "
             "(query_pages_partition). The hand model is tied by differential runs of the real container (through verif exports) and "
             "of Visor.GetTransactions on a live node with a real signed chain.",
        note="Theorems: Cal (regenerated), partition/beyond/total on it, container model. Carried by correspondence only: that the Go "
             "container, sort.Slice and NewPageIndex behave as the hand model (unstable sort is covered by the uniqueness theorem), "
             "and that Visor.GetTransactions feeds Pagination the sorted de-duplicated list (live-node ops). Assumed: Go uint64 "
             "wrap-around as modelled by wrap64/sub64; slice lengths < 2^63; hash hex order = byte-lexicographic order. Not checked: "
             "relative order of pool transactions in mixed confirmed+pool queries; the HTTP layer. Known finding F18: address query "
             "including the pool panics while the head is the genesis block.",
        technique="Lean 4 proof over translator-regenerated definition + hand model with differential correspondence",
    ),
    translators=["gosubset"],
    props_files=["Sky/Props/C29.lean"],
    model_files=["Sky/C29/Spec.lean", "Sky/C29/Lemmas.lean", "Sky/Prim/Res.lean"],
    min_ops={"quick": 5000, "thorough": 100000},
    trusted_base=[
        "Lean 4.33.0 kernel; axioms allowed: propext, Classical.choice, Quot.sound (audited by #print axioms)",
        "tools/extract/gosubset: syntactic Go->Lean translation of PageIndex.Cal (uint64 as Nat with explicit wrap)",
        "harness/c29 + Sky/C29/Drv.lean + src/visor/c29_verif.go: differential run of the real container / live node against the model",
    ],
    assumptions=[
        "Go uint64 arithmetic wraps as modelled by wrap64/sub64",
        "len(items) < 2^63 (a Go slice length) and page size <= 100 (NewPageIndex), i.e. size + n < 2^64",
        "cipher.SHA256.Hex() string order equals lexicographic order of the 32 bytes",
        "the container's map m mirrors the hashes of items (only Add/AddItem write either)",
    ],
    rule="Cal on the grid sizes{0,1,2,3,4,7,8,10,16,32,64,99,100} x lengths x page numbers {0,1,2,N-1..N+2,2^32,2^63,2^63+1,"
         "2^64-2,2^64-1, floor(2^64/size)+j, ceil(m*2^64/size)+j (offsets that wrap to small values)} + seeded random; container "
         "histories with duplicate-laden adds into two containers, Append, Sort asc/desc/bad, listing, all pages 1..N+1 and the "
         "wrapping page numbers for the real length; live-node GetTransactions pages; distinct = distinct (op,result) lines",
)
