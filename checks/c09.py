def _dist_key(op, impl):
    f = op.split(" ", 2)
    if f[0] == "verify":
        return "verify signed=%s -> %s" % (f[1], impl)
    if f[0] == "deser":
        if impl.startswith("ok"):
            return "deser -> ok " + ("canonical" if "|reser=same|" in impl else "NOT canonical")
        return "deser -> " + impl.split(" ")[0]
    return f[0] + " -> " + ("err" if impl.startswith("err") else "ok")


CONFIG = dict(
    prop="C09",
    ready=True,
    manifest=dict(
        text="Lean 4 theorem verify_iff: for ALL transactions and both modes, the model of coin.Transaction.verify (the code's checks "
             "in the code's order) returns ok <=> the documented rule set holds: >= 1 input, >= 1 output, one signature per input, "
             "at most 65535 inputs and outputs, no repeated input, type 0, no zero-coin output, output coins sum < 2^64, encoded size "
             "< 2^32 and equal to the Length field, no two outputs with the same output id, InnerHash = H(enc inputs ++ enc outputs), "
             "every non-null signature accepted by recoverOK for H(InnerHash ++ input), signed: no null signature, unsigned: at least "
             "one null signature. H (SHA-256) and recoverOK (cipher.VerifySignatureRecoverPubKey) are parameters of the theorem. "
             "Encoding/size use the reference codec of C21 on the REGENERATED schema of coin.Transaction, the coin sum the REGENERATED "
             "mathutil.AddUint64 (C31). decode_canonical (DeserializeTransaction b = ok t => Serialize t = b), decode_total (the "
             "generated decoder never panics) and decode_encode are corollaries of C21. The correspondence run calls the REAL "
             "Verify/VerifyUnsigned, SizeHash/HashInner and DeserializeTransaction on: real signed / partially signed transactions, "
             "every single rule violation (raw and with header recomputed + re-signed), the pairwise rule-interaction matrix in both "
             "orders, corrupted / null / swapped signatures, 65535/65536 inputs and outputs, encodings with truncation, extension, "
             "bit flips and length-field edits, random byte strings; the driver instantiates H with the Lean SHA-256 of Sky.Hash and "
             "recoverOK with the implementation's own per-signature verdicts.",
        note="Signature validity itself is C10/C14; here it is the parameter recoverOK. 'No two identical outputs' is what the code "
             "tests: equal output ids H(enc UxBody); equal (address, coins, hours) implies equal ids, the converse needs collision "
             "freedom of H. Which rule is reported when several fail is compared by the correspondence (order theorems for the first "
             "three rules).",
        technique="Lean 4 proof (iff over the code-ordered model, parametric in hash and signature predicate) + codec corollaries + differential correspondence with real signed transactions",
    ),
    dist_key=_dist_key,
    translators=["codecgen", "gosubset"],
    props_files=["Sky/Props/C09.lean"],
    model_files=["Sky/C09/Model.lean", "Sky/C09/Lemmas.lean", "Sky/C09/Drv.lean"],
    min_ops={"quick": 5000, "thorough": 100000},
    trusted_base=[
        "Lean 4.33.0 kernel; axioms allowed: propext, Classical.choice, Quot.sound (audited by #print axioms)",
        "tools/extract/codecgen (schema of coin.Transaction), tools/extract/gosubset (mathutil.AddUint64)",
        "harness/c09 + Sky/C09/Drv.lean; Sky.Hash.sha256 (validated against OpenSSL vectors by its owner, and here against txn.SizeHash/HashInner)",
        "C21 (codec theorems), C31 (AddUint64 = checked addition)",
    ],
    assumptions=[
        "H and recoverOK are parameters: SHA-256 collision freedom is NOT assumed by verify_iff (output ids are compared as the code does)",
        "output coins are uint64 values (hypothesis of verify_iff)",
    ],
    rule="per base transaction (1-8 inputs/outputs, real keys, fully or partially signed): both modes x {valid, 16 single violations raw + "
         "repaired, pairs of violations in both orders (a fifth of the matrix per transaction in quick, all in thorough)}; sizehash; "
         "deser of the encoding, truncation, extension, 3 bit flips, 18 length-field edits; boundary counts 65535/65536; random strings",
)
