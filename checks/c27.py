import re

def _post(R, lines, diffs):
    """generator-blindness floor: every stage of the chain must have been the answering one, the handler
    must have been reached often, and every route of the regenerated table must have been requested."""
    import json, os
    need = ["reach", "refuse basicAuth 401", "refuse contentType 415", "refuse host 403", "refuse origin 403 invalid-url",
            "refuse origin 403 invalid-origin", "refuse csrf 403 invalid", "refuse csrf 403 b64", "refuse csrf 403 signature",
            "refuse csrf 403 expired", "refuse cors 200", "refuse gate 405", "refuse gate 403 disabled"]
    seen = {}
    paths = set()
    # measured on the EXPECTED outcome (what the generator aims at), not on what a possibly broken
    # implementation answered
    expected = {i: model for (i, op, impl, model, v) in diffs}
    for i, (op, impl) in enumerate(lines):
        impl = expected.get(i, impl)
        for n in need:
            if impl.startswith(n):
                seen[n] = seen.get(n, 0) + 1
        m = re.search(r" path=(\S+)", op)
        if m:
            paths.add(m.group(1))
    if len(lines) > 1000:   # not for single replays
        missing = [n for n in need if seen.get(n, 0) < 5]
        if missing or seen.get("reach", 0) * 30 < len(lines):
            raise RuntimeError("broken harness: outcome classes not exercised: %s (reach=%d of %d)" % (missing, seen.get("reach", 0), len(lines)))
        here = os.path.dirname(os.path.dirname(os.path.abspath(__file__)))
        table = json.load(open(os.path.join(here, "lean/Sky/Gen/routes.json")))
        unreq = [r["path"] for r in table["routes"] if not r["gui"] and r["path"] not in paths]
        if unreq:
            raise RuntimeError("broken harness: routes of the regenerated table never requested: %s" % unreq[:5])
        R.coverage["routes_requested"] = len([r for r in table["routes"] if not r["gui"]])

CONFIG = dict(
    prop="C27",
    ready=True,
    manifest=dict(
        text="Machine-checked Lean 4 theorems about the access-control decision of the HTTP API, over the route table and the "
             "per-route middleware chains REGENERATED on every run from newServerMux (src/api/http.go) by a go/ast interpreter of its "
             "registration closures: every registered route (incl. GUI file routes) is wrapped by exactly gzip -> basicAuth -> "
             "[v2: JSON content type] -> hostCheck -> originRefererCheck (both unless header check is disabled) -> CSRFCheck -> CORS -> "
             "elapsed -> [API-set gate] (chains_canonical), the only route without the CSRF check is /api/v1/csrf (csrf_everywhere), "
             "the ungated routes are /, /api/v1/csrf, /api/v1/version; for all configurations and requests the server's decision "
             "equals the written-out status precedence 401 > 415 > 403 host > 403 origin > 403 token > preflight > 405 > 403 disabled "
             "(decide_eq_spec) and the handler is reached IFF the method is served, a listed API set is enabled, a state-changing "
             "request carries a well-formed, correctly signed, unexpired token (when checking is on), Host and Origin/Referer are "
             "acceptable and the presented credentials equal the configured PAIR (reaches_handler_iff, creds_exact, "
             "state_change_needs_token). Token clause: token_valid_iff_issued_unexpired_partial (valid iff issued by this node and "
             "unexpired, HMAC unforgeability as hypothesis); the documented 'a new token invalidates earlier ones' (TokenFresh) is "
             "proved FALSE of the code (token_fresh_counterexample) and recorded as known finding F10b. Byte level (raw_accept_iff, "
             "issued_token_verifies, forged_signature_refused): a token is accepted iff its signature part equals mac(key, payload) and it is "
             "unexpired; the correspondence recomputes HMAC-SHA256(secret, payload) in Lean (Sky.Hash) for every token the real node issues "
             "or is shown (`token` ops: the node's secret is read from the running process) and sends forgeries built from observed tokens "
             "without the secret (re-dated payload, payload||signature-tail splice, swapped / truncated / extended signatures). Tie H: every route x "
             "{GET,POST,PUT,DELETE,HEAD,OPTIONS,PATCH,..} x API-set configurations x header variants is sent through the REAL mux "
             "(real middlewares and handlers, panicking gateway stub); who answered is read from the call stack at the moment the "
             "response is written and must equal the specification's stage and status.",
        note="Each middleware's behaviour (basicAuth, hostCheck, originRefererCheck, CSRFCheck/verifyCSRFToken, ContentTypeJSONRequired, "
             "the forMethodAPISets gate, rs/cors preflight short-circuit) is a hand model tied by the correspondence run; only the "
             "composition (which middlewares wrap which route, in which order, under which switch) is regenerated. HMAC-SHA256, base64/"
             "JSON decoding of tokens, url.Parse, r.BasicAuth, iputil and net/http's ServeMux matching are parameters/hand models for the "
             "request shapes generated. /api/v1/csrf itself is not token-protected (it issues the token). Known finding F10b (older "
             "token still valid) is replayed on every run.",
        technique="Lean 4 proof over a translator-regenerated route/middleware table + differential correspondence against the real mux",
    ),
    translators=["routes"],
    props_files=["Sky/Props/C27.lean"],
    model_files=["Sky/C27/Model.lean", "Sky/C27/Lemmas.lean", "Sky/C27/Drv.lean"],
    min_ops={"quick": 30000, "thorough": 300000},
    harness_timeout=1500,
    post=_post,
    dist_key=lambda op, impl: (re.search(r" m=(\S+)", op).group(1) if " m=" in op else "?") + " -> " + " ".join(impl.split(" ")[:3]),
    trusted_base=[
        "Lean 4.33.0 kernel; axioms allowed: propext, Classical.choice, Quot.sound (audited by #print axioms)",
        "tools/extract/routes: symbolic interpretation of newServerMux's registration closures (unrecognised shapes are rejected)",
        "harness/c27 + Sky/C27/Drv.lean: real mux vs specification, answering stage attributed by source position of the writing frame",
        "hand models of each middleware's check, of url.Parse/r.BasicAuth/iputil/ServeMux for the generated request shapes",
        "lean/Sky/Hash HMAC-SHA256 (executable, core Lean) as the independent oracle for token signatures; the secret is read from the process (go:linkname)",
    ],
    assumptions=[
        "HMAC-SHA256 unforgeability: a token whose signature verifies was issued by this node (hypothesis hUF / field sigOK)",
        "net/http routes a request path to the exact pattern if registered, else to a GUI file/dir pattern, else to '/'",
        "the stub gateway does not influence the middleware chain (no middleware calls the gateway)",
    ],
    rule="(0) `token` ops: 14 kinds of issued / forged tokens as byte strings, verdict of the real verifyCSRFToken vs HMAC recomputed in Lean; "
         "(1) every route of the regenerated table x 9 methods x {no set, each single API set, all sets}; (2) per route and method one "
         "deviation at a time from an acceptable request through every Host / Origin / Referer / credential / token / content-type / "
         "preflight variant; (3) configuration sweep (7 host kinds x CSRF on/off x header check on/off x 6 credential pairs); "
         "(4) GUI file routes; (5) seeded random multi-deviation requests; thorough adds the full Host x Origin x credentials x token "
         "product on every route. distinct = distinct (op, outcome) lines",
)
