CONFIG = dict(
    prop="C14",
    ready=True,
    manifest=dict(
        text="The agreement of the Go secp256k1 code (10x26-bit field limbs, Jacobian coordinates, wNAF, lambda-endomorphism) with "
             "the curve mathematics is DIFFERENTIAL, not a theorem: harness/c14 runs cipher.NewPubKey, NewSecKey, PubKeyFromSecKey, "
             "SignHash, VerifyPubKeySignedHash, VerifySignatureRecoverPubKey, PubKeyFromSig, ECDH, DeterministicKeyPairIterator, "
             "GenerateDeterministicKeyPairsSeed, secp256k1.Secp256k1Hash, UncompressPubkey and the lower-level Signature.Sign "
             "(explicit nonce), Signature.Verify, BaseMultiply, Multiply, XY.AddXY and the field layer (Negate/SetAdd/Mul/Inv/Normalize "
             "on structured values), and every output is compared byte-for-byte (and error "
             "kind for error kind) with an independent executable textbook implementation written in Lean over Nat (affine "
             "chord-tangent law, double-and-add, extended Euclid, sqrt = c^((p+1)/4)) plus the Lean SHA-256; crafted signatures (tiny r with all four "
             "recovery ids and the re-encodings r+n / r = n, p-1, p; s = a*r families that make the two halves of the double "
             "multiplication collide) and an exhaustive small grid of ECmult(t*G, na, ng) are part of the stream; for SignHash the "
             "random nonce is read back from the signature (k = (z+rd)/s or its negation) and the signature must be exactly "
             "textbook ECDSA's for that nonce. Theorems (Lean 4) are about that textbook specification: curve_consts, "
             "G_on_curve, order_G (n*G = infinity by kernel evaluation), seckey_valid_iff, pubkey_valid_iff, parsePub_onCurve "
             "(every accepted key is an on-curve point; off-curve, x>=p, bad prefix are rejected, never a fault), "
             "compress_decompress (hypothesis: the field prime is prime), ECDSA verify_sign / recover_sign / recover_of_verify / "
             "ecdh_comm in the abstract prime-order group, detKeySeq_prefix / detKeySeq_append (the key sequence is a pure "
             "unfold). Three defects were found by this differential run and repaired (x >= p panic; parity of an "
             "un-normalised square root; Field.Normalize dropping a carry - wrong group arithmetic on valid points with a "
             "tiny y); see notes/status/C14.md.",
        note="Level: proof for the specification-level statements; differential for the implementation. That the secp256k1 point "
             "set with the chord-tangent law is a group of prime order n (p, n prime; associativity) is assumed, not proved. "
             "Trusted: Lean kernel, Sky/Hash (validated against Go in C15/C16), the harness and its math/big generator library.",
        technique="differential correspondence against an executable Lean textbook implementation + Lean 4 theorems about that specification",
    ),
    translators=[],
    props_files=["Sky/Props/C14.lean"],
    model_files=["Sky/C14/Spec.lean", "Sky/C14/Lemmas.lean", "Sky/Crypto/Secp256k1.lean", "Sky/C14/Drv.lean", "Sky/C10/ECDSA.lean"],
    min_ops={"quick": 600, "thorough": 7000},
    trusted_base=[
        "Lean 4.33.0 kernel; axioms allowed: propext, Classical.choice, Quot.sound (audited by #print axioms)",
        "Sky/Crypto/Secp256k1.lean: the textbook implementation IS the specification (constants cross-checked by curve_consts, G_on_curve, order_G)",
        "harness/c14 + harness/eclib (generator-side math/big curve, never the oracle) + Sky/C14/Drv.lean",
        "Sky/Hash SHA-256 (compared with Go in ./check C15)",
    ],
    assumptions=[
        "the secp256k1 points with the chord-tangent law form a group of prime order n (primality of p and n, associativity) - assumed; compress_decompress takes Nat.Prime P as an explicit hypothesis",
        "PubKeyFromSecKey on an out-of-range key panics by documented precondition ('always ensure seckey is valid'); the model records the panic",
        "signature well-formedness in VerifyPubKeySignedHash is the C10 rule s <= n/2, recid < 4",
    ],
    rule="edge scalars {0,1,2,n-1,n,n+1,p-1,p,2^256-1,n/2,lambda,a1b2,b1,a2,bit-run patterns} x every key/scalar entry point; public "
         "keys valid/off-curve/x>=p/bad prefix/wrong length/valid with extreme ordinate (|y| tiny, y next to p) or tiny abscissa; "
         "field values {tiny, p-tiny, 2^256-tiny, 2^32+977+-1, 2^255, limb boundaries} through Negate/SetAdd/Mul/MulInt/Inv/Normalize; "
         "point additions incl. P+P and P+(-P); signatures built by the generator's own curve with 12 structured "
         "faults each (negated s, recid variants, r/s out of range, bit flips, message+n, message 0, other key, other parity); "
         "ECDH on valid and invalid pairs; deterministic sequences from seeds of 1..100 bytes; distinct = distinct (op,result) lines",
)


def run(tier, seed, replay):
    from checks.cryptocommon import run_with_startup_guard
    return run_with_startup_guard(CONFIG, tier, seed, replay)
