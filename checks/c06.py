import os, sys
sys.path.insert(0, os.path.dirname(__file__))
from ledger_common import ledger_config
CONFIG = ledger_config("C06", ["Sky/Props/C06.lean"], dict(
    text="Lean 4 theorems over the ledger model: a transaction is admitted only if the hard rules hold against the current head, with "
         "its flag recording the soft verdict (inject_foreign_only_if); user submissions need user+hard+soft rules "
         "(inject_user_only_if); re-submission never duplicates (inject_known_no_duplicate, pool_hashes_nodup_inject); an accepted "
         "block removes exactly its transactions (block_removes_its_txns, block_keeps_other_txns); after invalid-removal every "
         "entry passes the hard rules (after_removeInvalid_all_hard_ok); after refresh the flags equal a fresh re-check "
         "(after_refresh_flags_exact). Tie: pool contents and flags of real nodes compared with the model after every op.",
    note="timestamps of pool entries are not compared (wall clock). Non-arbitrating and arbitrating nodes both exercised by the correspondence.",
    technique="Lean 4 proof over ledger model + whole-state differential correspondence",
))
