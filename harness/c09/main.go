package main

// C09: transaction validity is exactly the documented rule set; decoding is canonical.
//
//	verify SIGNED SIGOK <txn spec>   real coin.Transaction.Verify (SIGNED=1) / VerifyUnsigned (0) → "ok" | "err <Rule>".
//	                                 SIGOK: per signature 'n' (null), '1' / '0' = cipher.VerifySignatureRecoverPubKey accepts /
//	                                 rejects it for hash AddSHA256(InnerHash, In[i]) ('-' if there is no such input) — computed
//	                                 by the harness when the op is generated; it is the `recoverOK` parameter of the theorem.
//	sizehash <txn spec>              real txn.SizeHash and txn.HashInner → "size hash inner" (ties SHA-256 and the encoders)
//	deser HEX                        real coin.DeserializeTransaction → "ok <txn spec>|reser=<same|bytes|err>|hash=<hex>" | "err"
//
// txn spec = value spec of coin.Transaction in the C21 format (Length Type InnerHash Sigs In Out).

import (
	"reflect"
	"strconv"
	"strings"

	. "verif/harness/codecio"
	. "verif/harness/hlib"

	"github.com/skycoin/skycoin/src/cipher"
	"github.com/skycoin/skycoin/src/coin"
)

var ruleOfText = map[string]string{
	"No inputs":                                          "NoInputs",
	"No outputs":                                         "NoOutputs",
	"Invalid number of signatures":                       "InvalidNumberOfSignatures",
	"Too many signatures and inputs":                     "TooManySignatures",
	"Too many ouptuts":                                   "TooManyOutputs",
	"Duplicate spend":                                    "DuplicateSpend",
	"transaction type invalid":                           "TypeInvalid",
	"Zero coin output":                                   "ZeroCoinOutput",
	"Output coins overflow":                              "OutputCoinsOverflow",
	"Incorrect transaction length":                       "IncorrectLength",
	"Duplicate output in transaction":                    "DuplicateOutput",
	"InnerHash does not match computed hash":             "InnerHashMismatch",
	"Unsigned input in transaction":                      "UnsignedInput",
	"Unsigned transaction must contain a null signature": "NoNullSignature",
}

func ruleOf(err error) string {
	if err == cipher.ErrInvalidSigPubKeyRecovery || err == cipher.ErrInvalidHashForSig {
		return "InvalidSignature"
	}
	if r, ok := ruleOfText[err.Error()]; ok {
		return r
	}
	return "other"
}

func txnOf(spec []string) *coin.Transaction {
	t := &coin.Transaction{}
	k := &Toks{T: spec}
	Build(reflect.ValueOf(t).Elem(), k)
	if k.I != len(spec) {
		panic("harness: trailing tokens in txn spec")
	}
	return t
}

func sigOK(t *coin.Transaction) string {
	if len(t.Sigs) > 65535 {
		return "." // never looked at: verify refuses the count first
	}
	var b strings.Builder
	for i, s := range t.Sigs {
		switch {
		case s.Null():
			b.WriteByte('n')
		case i >= len(t.In):
			b.WriteByte('-')
		case cipher.VerifySignatureRecoverPubKey(s, cipher.AddSHA256(t.InnerHash, t.In[i])) == nil:
			b.WriteByte('1')
		default:
			b.WriteByte('0')
		}
	}
	if b.Len() == 0 {
		return "."
	}
	return b.String()
}

func c09Exec(op string) string {
	f := Fields(op)
	switch f[0] {
	case "verify":
		t := txnOf(f[3:])
		var err error
		if f[1] == "1" {
			err = t.Verify()
		} else {
			err = t.VerifyUnsigned()
		}
		if err != nil {
			return "err " + ruleOf(err)
		}
		return "ok"
	case "sizehash":
		t := txnOf(f[1:])
		n, h, err := t.SizeHash()
		if err != nil {
			return "err"
		}
		in := t.HashInner()
		return strconv.FormatUint(uint64(n), 10) + " " + Hex(h[:]) + " " + Hex(in[:])
	case "deser":
		b := ParseBytes(f[1])
		t, err := coin.DeserializeTransaction(b)
		if err != nil {
			return "err"
		}
		reser := "same"
		if e, err := t.Serialize(); err != nil {
			reser = "err"
		} else if string(e) != string(b) {
			reser = OutHex(e)
		}
		h := t.Hash()
		return "ok " + DumpStr(&t, false) + "|reser=" + reser + "|hash=" + Hex(h[:])
	}
	panic("harness: unknown op " + f[0])
}

// ---------------------------------------------------------------------------------------------
// generators
// ---------------------------------------------------------------------------------------------

type keyed struct {
	sec  cipher.SecKey
	addr cipher.Address
}

func newKey(r *Rng) keyed {
	pub, sec, err := cipher.GenerateDeterministicKeyPair(r.Bytes(32))
	if err != nil {
		panic(err)
	}
	return keyed{sec, cipher.AddressFromPubKey(pub)}
}

// validTxn builds a well-formed transaction with nIn inputs / nOut outputs; signedMask bit i = sign input i.
func validTxn(r *Rng, keys []keyed, nIn, nOut int, signAll bool) (*coin.Transaction, []cipher.SecKey) {
	t := &coin.Transaction{}
	var secs []cipher.SecKey
	for i := 0; i < nIn; i++ {
		var h cipher.SHA256
		copy(h[:], r.Bytes(32))
		t.In = append(t.In, h)
		secs = append(secs, keys[r.Intn(len(keys))].sec)
	}
	for i := 0; i < nOut; i++ {
		coins := uint64(r.Range(1, 1000)) * 1000
		if r.Chance(10) {
			coins = 1
		}
		t.Out = append(t.Out, coin.TransactionOutput{Address: keys[r.Intn(len(keys))].addr, Coins: coins, Hours: uint64(r.Intn(1000))})
	}
	finish(t, secs, signAll, r)
	return t, secs
}

// finish recomputes InnerHash, signs (all inputs, or a random non-empty proper subset leaving null signatures), sets Length.
func finish(t *coin.Transaction, secs []cipher.SecKey, signAll bool, r *Rng) {
	t.InnerHash = t.HashInner()
	t.Sigs = make([]cipher.Sig, len(t.In))
	for i := range t.In {
		if i < len(secs) && (signAll || r.Bool()) {
			t.Sigs[i] = cipher.MustSignHash(cipher.AddSHA256(t.InnerHash, t.In[i]), secs[i])
		}
	}
	if !signAll && len(t.Sigs) > 0 {
		t.Sigs[r.Intn(len(t.Sigs))] = cipher.Sig{}
	}
	t.Type = 0
	if n, err := t.Size(); err == nil {
		t.Length = n
	}
}

func clone(t *coin.Transaction) *coin.Transaction {
	c := *t
	c.Sigs = append([]cipher.Sig{}, t.Sigs...)
	c.In = append([]cipher.SHA256{}, t.In...)
	c.Out = append([]coin.TransactionOutput{}, t.Out...)
	return &c
}

type violation struct {
	name  string
	apply func(t *coin.Transaction, r *Rng)
}

var violations = []violation{
	{"noInputs", func(t *coin.Transaction, r *Rng) { t.In = nil }},
	{"noInputsNoSigs", func(t *coin.Transaction, r *Rng) { t.In, t.Sigs = nil, nil }},
	{"noOutputs", func(t *coin.Transaction, r *Rng) { t.Out = nil }},
	{"dropSig", func(t *coin.Transaction, r *Rng) {
		if len(t.Sigs) > 0 {
			t.Sigs = t.Sigs[:len(t.Sigs)-1]
		}
	}},
	{"extraSig", func(t *coin.Transaction, r *Rng) { t.Sigs = append(t.Sigs, t.Sigs[0]) }},
	{"dupInput", func(t *coin.Transaction, r *Rng) {
		t.In = append(t.In, t.In[r.Intn(len(t.In))])
		t.Sigs = append(t.Sigs, t.Sigs[0])
	}},
	{"type", func(t *coin.Transaction, r *Rng) { t.Type = byte(r.Range(1, 255)) }},
	{"zeroCoin", func(t *coin.Transaction, r *Rng) {
		if len(t.Out) > 0 {
			t.Out[r.Intn(len(t.Out))].Coins = 0
		}
	}},
	{"coinOverflow", func(t *coin.Transaction, r *Rng) {
		t.Out = append(t.Out, coin.TransactionOutput{Coins: 1 << 63, Hours: 1}, coin.TransactionOutput{Coins: 1<<63 + uint64(r.Intn(3)), Hours: 2})
	}},
	{"coinOverflowMid", func(t *coin.Transaction, r *Rng) { // the 64-bit sum wraps at a NON-final addition
		pre := []coin.TransactionOutput{{Coins: 1 << 63, Hours: 1}, {Coins: 1<<63 + uint64(r.Intn(3)), Hours: 2}}
		pre[0].Address.Key[0], pre[1].Address.Key[0] = 0x51, 0x52
		k := r.Intn(len(t.Out) + 1)
		t.Out = append(append(append([]coin.TransactionOutput{}, t.Out[:k]...), pre...), t.Out[k:]...)
		if k == len(t.Out)-2 { // keep at least one addition after the wrap
			t.Out = append(t.Out, coin.TransactionOutput{Coins: 1000, Hours: 4})
		}
	}},
	{"coinSumMax", func(t *coin.Transaction, r *Rng) { // exactly 2^64-1: no overflow
		var s uint64
		for _, o := range t.Out {
			s += o.Coins
		}
		t.Out = append(t.Out, coin.TransactionOutput{Coins: ^uint64(0) - s, Hours: 3})
	}},
	{"length", func(t *coin.Transaction, r *Rng) { t.Length += uint32(r.Range(1, 3))*2 - 3 }},
	{"lengthEdge", func(t *coin.Transaction, r *Rng) { // zero / "unset" / extreme values of the length field
		t.Length = []uint32{0, 1, t.Length << 8, 1 << 31, 1<<32 - 1, t.Length + 1<<16}[r.Intn(6)]
	}},
	{"dupOutput", func(t *coin.Transaction, r *Rng) {
		if len(t.Out) > 0 {
			t.Out = append(t.Out, t.Out[r.Intn(len(t.Out))])
		}
	}},
	{"innerHash", func(t *coin.Transaction, r *Rng) { t.InnerHash[r.Intn(32)] ^= 1 << uint(r.Intn(8)) }},
	{"nullSig", func(t *coin.Transaction, r *Rng) {
		if len(t.Sigs) > 0 {
			t.Sigs[r.Intn(len(t.Sigs))] = cipher.Sig{}
		}
	}},
	{"badSig", func(t *coin.Transaction, r *Rng) {
		if len(t.Sigs) > 0 {
			i := r.Intn(len(t.Sigs))
			switch r.Intn(4) {
			case 0:
				t.Sigs[i][64] = byte(r.Range(4, 255)) // recovery id out of range
			case 1:
				for k := 0; k < 32; k++ { // r = 0
					t.Sigs[i][k] = 0
				}
			case 2:
				for k := 32; k < 64; k++ { // s = 0xff…: not a valid scalar
					t.Sigs[i][k] = 0xff
				}
			default:
				t.Sigs[i][r.Intn(65)] ^= 1 << uint(r.Intn(8))
			}
		}
	}},
	{"swapSigs", func(t *coin.Transaction, r *Rng) {
		if len(t.Sigs) > 1 {
			t.Sigs[0], t.Sigs[1] = t.Sigs[1], t.Sigs[0]
		}
	}},
}

func c09Gen(r *Rng, tier string, emit func(string)) {
	n := 45
	if tier == "thorough" {
		n = 1500
	}
	keys := []keyed{newKey(r), newKey(r), newKey(r), newKey(r)}
	verify := func(t *coin.Transaction) {
		spec := DumpStr(t, false)
		ok := sigOK(t)
		emit("verify 1 " + ok + " " + spec)
		emit("verify 0 " + ok + " " + spec)
	}
	for i := 0; i < n; i++ {
		nIn, nOut := r.Range(1, 4), r.Range(1, 4)
		if r.Chance(15) {
			nIn, nOut = r.Range(5, 8), r.Range(5, 8)
		}
		signAll := r.Chance(60)
		// a few more plain valid transactions (fully / partially signed) for the accepting side
		for k := 0; k < 4; k++ {
			v, _ := validTxn(r, keys, r.Range(1, 6), r.Range(1, 6), r.Bool())
			verify(v)
		}
		t, secs := validTxn(r, keys, nIn, nOut, signAll)
		verify(t)
		emit("sizehash " + DumpStr(t, false))
		b, _ := t.Serialize()
		// decoding: the encoding, its truncations / extensions / mutations
		emit("deser " + Hex(b))
		emit("deser " + Hex(b[:r.Intn(len(b))]))
		emit("deser " + Hex(append(append([]byte{}, b...), byte(r.U64()))))
		for k := 0; k < 3; k++ {
			m := append([]byte{}, b...)
			m[r.Intn(len(m))] ^= 1 << uint(r.Intn(8))
			emit("deser " + Hex(m))
		}
		// length fields of Sigs / In / Out
		offs := []int{37, 37 + 4 + 65*len(t.Sigs), 37 + 4 + 65*len(t.Sigs) + 4 + 32*len(t.In)}
		for _, o := range offs {
			for _, v := range []uint32{0, 1, 65535, 65536, 1 << 31, 1<<32 - 1} {
				m := append([]byte{}, b...)
				m[o], m[o+1], m[o+2], m[o+3] = byte(v), byte(v>>8), byte(v>>16), byte(v>>24)
				emit("deser " + Hex(m))
			}
		}
		// every single violation, raw (header not recomputed) and repaired (header recomputed, re-signed)
		for vi, v := range violations {
			c := clone(t)
			v.apply(c, r)
			verify(c)
			c2 := clone(t)
			v.apply(c2, r)
			switch v.name {
			case "length", "innerHash", "nullSig", "badSig", "swapSigs", "type", "dropSig", "extraSig":
			default:
				finish(c2, append(secs, secs[0], secs[0]), signAll, r)
				verify(c2)
			}
			// pairs of violations (the rule-interaction matrix); a slice of the matrix per transaction in the quick tier
			for vj, w := range violations {
				if vj <= vi || (tier != "thorough" && (vi+vj+i)%5 != 0) {
					continue
				}
				c3 := clone(t)
				func() {
					defer func() { recover() }() //nolint:errcheck
					v.apply(c3, r)
					w.apply(c3, r)
				}()
				verify(c3)
				c4 := clone(t)
				func() {
					defer func() { recover() }() //nolint:errcheck
					w.apply(c4, r)
					v.apply(c4, r)
				}()
				verify(c4)
			}
		}
	}
	// boundary sizes: 65535 / 65536 signatures+inputs and outputs (replicated elements, transported run-length coded)
	big := 1
	if tier == "thorough" {
		big = 4
	}
	for i := 0; i < big; i++ {
		t, _ := validTxn(r, keys, 1, 1, true)
		for _, cnt := range []int{65535, 65536} {
			c := clone(t)
			for len(c.Out) < cnt {
				c.Out = append(c.Out, c.Out[0])
			}
			verify(c)
			if cnt == 65535 && tier != "thorough" {
				continue // 65535 signatures are all verified (≈ 10 s per call): thorough tier only
			}
			c = clone(t)
			for len(c.In) < cnt {
				c.In = append(c.In, c.In[0])
				c.Sigs = append(c.Sigs, c.Sigs[0])
			}
			verify(c)
		}
	}
	// garbage byte strings
	for i := 0; i < n*4; i++ {
		emit("deser " + Hex(r.Bytes(r.Intn(200))))
	}
	emit("deser -")
}

func main() { Main(&Prop{Gen: c09Gen, Exec: c09Exec}) }
