package main

// C10: non-malleability. Real functions: secp256k1.VerifySignatureValidity, cipher.VerifyPubKeySignedHash,
// cipher.VerifyAddressSignedHash, secp256k1go.Signature.Sign, cipher.SignHash, coin.DeserializeTransaction +
// Transaction.Verify + VerifyInputSignatures, encoder.DeserializeRawExact(SignedBlock) + Visor.ExecuteSignedBlock
// on a real follower node. All signatures in generated objects are made by the generator's own curve
// (harness/eclib) with a deterministic nonce, so every run and every replay sees the same bytes.

import (
	"bytes"
	"crypto/sha256"
	"fmt"
	"math/big"
	"os"
	"path/filepath"
	"sort"
	"strconv"

	"verif/harness/eclib"
	. "verif/harness/hlib"

	"github.com/skycoin/skycoin/src/cipher"
	"github.com/skycoin/skycoin/src/cipher/encoder"
	secp256k1 "github.com/skycoin/skycoin/src/cipher/secp256k1-go"
	secp "github.com/skycoin/skycoin/src/cipher/secp256k1-go/secp256k1-go2"
	"github.com/skycoin/skycoin/src/coin"
	"github.com/skycoin/skycoin/src/params"
	"github.com/skycoin/skycoin/src/visor"
	"github.com/skycoin/skycoin/src/visor/dbutil"
)

var errs = map[error]string{
	cipher.ErrInvalidSigPubKeyRecovery: "ErrInvalidSigPubKeyRecovery",
	cipher.ErrInvalidAddressForSig:     "ErrInvalidAddressForSig",
	cipher.ErrInvalidHashForSig:        "ErrInvalidHashForSig",
	cipher.ErrPubKeyRecoverMismatch:    "ErrPubKeyRecoverMismatch",
	cipher.ErrInvalidSigInvalidPubKey:  "ErrInvalidSigInvalidPubKey",
	cipher.ErrInvalidSigValidity:       "ErrInvalidSigValidity",
	cipher.ErrInvalidSigForMessage:     "ErrInvalidSigForMessage",
	cipher.ErrInvalidPubKey:            "ErrInvalidPubKey",
	cipher.ErrInvalidSecKey:            "ErrInvalidSecKey",
	cipher.ErrNullSignHash:             "ErrNullSignHash",
}

func e(err error) string {
	if err == nil {
		return "ok"
	}
	return "err " + ErrName(err, errs)
}

func arr32(b []byte) (a [32]byte) { copy(a[:], b); return }
func arr33(b []byte) (a [33]byte) { copy(a[:], b); return }
func arr65(b []byte) (a [65]byte) { copy(a[:], b); return }
func arr20(b []byte) (a [20]byte) { copy(a[:], b); return }

// ---------- deterministic signing by the generator's own curve ----------

func detNonce(sec []byte, hash []byte) *big.Int {
	ctr := byte(0)
	for {
		h := sha256.Sum256(append(append([]byte("verif-c10-nonce"), ctr), append(append([]byte{}, sec...), hash...)...))
		k := new(big.Int).SetBytes(h[:])
		if k.Sign() > 0 && k.Cmp(eclib.N) < 0 {
			return k
		}
		ctr++
	}
}

func detSign(sec cipher.SecKey, hash cipher.SHA256) cipher.Sig {
	d := new(big.Int).SetBytes(sec[:])
	z := new(big.Int).SetBytes(hash[:])
	r, s, recid, ok := eclib.Sign(d, z, detNonce(sec[:], hash[:]))
	if !ok {
		panic("harness: detSign failed")
	}
	return cipher.Sig(arr65(eclib.Sig65(r, s, recid)))
}

func keyOf(i int) (cipher.PubKey, cipher.SecKey, cipher.Address) {
	h := sha256.Sum256([]byte(fmt.Sprintf("verif-c10-key-%d", i)))
	d := new(big.Int).SetBytes(h[:])
	d.Mod(d, new(big.Int).Sub(eclib.N, big.NewInt(1)))
	d.Add(d, big.NewInt(1))
	sec := cipher.SecKey(arr32(eclib.B32(d)))
	pub := cipher.PubKey(arr33(eclib.Compress(eclib.Mul(d, eclib.G))))
	return pub, sec, cipher.AddressFromPubKey(pub) // AddressFromPubKey only hashes
}

// ---------- world: a publisher P and a follower F on real bolt files ----------

type node struct {
	v  *visor.Visor
	db *dbutil.DB
}

type world struct {
	dir     string
	p, f    *node
	pending string // hex of the block made by the last mkblock, not yet given to F
	when    uint64
}

var w *world
var wcount int

func (x *world) close() {
	if x == nil {
		return
	}
	for _, n := range []*node{x.p, x.f} {
		if n != nil && n.db != nil {
			n.db.Close()
		}
	}
	os.RemoveAll(x.dir)
}

func mkConfig(publisher bool, genesisSig cipher.Sig) visor.Config {
	pub, sec, _ := keyOf(0)
	_, _, gaddr := keyOf(1)
	c := visor.NewConfig()
	c.IsBlockPublisher = publisher
	c.Arbitrating = publisher
	c.BlockchainPubkey = pub
	if publisher {
		c.BlockchainSeckey = sec
	}
	vt := params.VerifyTxn{BurnFactor: 10, MaxTransactionSize: 32768, MaxDropletPrecision: 3}
	c.UnconfirmedVerifyTxn = vt
	c.CreateBlockVerifyTxn = vt
	c.MaxBlockTransactionsSize = 32768
	c.GenesisAddress = gaddr
	c.GenesisSignature = genesisSig
	c.GenesisTimestamp = 1000
	c.GenesisCoinVolume = 100e12
	_, _, a4 := keyOf(4)
	_, _, a5 := keyOf(5)
	c.Distribution = params.Distribution{MaxCoinSupply: 400, InitialUnlockedCount: 2, UnlockAddressRate: 1, UnlockTimeInterval: 100,
		Addresses: []string{a4.String(), a5.String()}}
	return c
}

func open(dir, name string, cfg visor.Config) (*node, error) {
	db, err := visor.OpenDB(filepath.Join(dir, name+".db"), false)
	if err != nil {
		return nil, err
	}
	v, err := visor.New(cfg, db, nil)
	if err != nil {
		db.Close()
		return nil, err
	}
	if err := v.Init(); err != nil {
		db.Close()
		return nil, err
	}
	return &node{v: v, db: db}, nil
}

func newWorld() error {
	w.close()
	w = nil
	d := os.Getenv("VERIF_SCRATCH")
	if d == "" {
		d = os.TempDir()
	}
	wcount++
	dir := filepath.Join(d, fmt.Sprintf("c10-%d-%d", os.Getpid(), wcount))
	if err := os.MkdirAll(dir, 0o700); err != nil {
		return err
	}
	params.UserVerifyTxn = params.VerifyTxn{BurnFactor: 10, MaxTransactionSize: 32768, MaxDropletPrecision: 3}
	x := &world{dir: dir, when: 2000}
	p, err := open(dir, "P", mkConfig(true, cipher.Sig{}))
	if err != nil {
		return err
	}
	x.p = p
	gb, err := p.v.GetSignedBlockBySeq(0)
	if err != nil || gb == nil {
		return fmt.Errorf("no genesis: %v", err)
	}
	f, err := open(dir, "F", mkConfig(false, gb.Sig))
	if err != nil {
		return err
	}
	x.f = f
	w = x
	return nil
}

func genesisHash() []byte {
	_, _, gaddr := keyOf(1)
	b, err := coin.NewGenesisBlock(gaddr, 100e12, 1000)
	if err != nil {
		panic(err)
	}
	h := b.HashHeader()
	return h[:]
}

// genesisNode opens a fresh non-publisher node whose configured publisher key and genesis signature are the given ones:
// visor.Init executes the genesis block as a signed block (Visor.executeSignedBlock -> VerifyPubKeySignedHash).
func genesisNode(pub, sig []byte, hashHex string) string {
	if Hex(genesisHash()) != hashHex {
		return "badhash" // the op was generated for another genesis block
	}
	d := os.Getenv("VERIF_SCRATCH")
	if d == "" {
		d = os.TempDir()
	}
	wcount++
	dir := filepath.Join(d, fmt.Sprintf("c10-gen-%d-%d", os.Getpid(), wcount))
	if err := os.MkdirAll(dir, 0o700); err != nil {
		return "err " + err.Error()
	}
	defer os.RemoveAll(dir)
	cfg := mkConfig(false, cipher.Sig(arr65(sig)))
	cfg.BlockchainPubkey = cipher.PubKey(arr33(pub))
	n, err := open(dir, "G", cfg)
	if err != nil {
		return "reject init"
	}
	n.db.Close()
	return "accept"
}

// mkblock: P spends its lexicographically first spendable output to `nout` outputs, builds the next
// block, signs it (deterministic nonce) and executes it on P. The block bytes are kept as `pending`.
func mkblock(nout int) string {
	uxs, err := w.p.v.GetAllUnspentOutputs()
	if err != nil {
		return "err unspents"
	}
	owner := map[cipher.Address]cipher.SecKey{}
	for i := 0; i < 8; i++ {
		_, s, a := keyOf(i)
		owner[a] = s
	}
	var mine coin.UxArray
	for _, u := range uxs {
		if _, ok := owner[u.Body.Address]; ok && u.Body.Coins >= 10e6 {
			mine = append(mine, u)
		}
	}
	if len(mine) == 0 {
		return "err nothing-to-spend"
	}
	sort.Slice(mine, func(i, j int) bool { return mine[i].Hash().Hex() < mine[j].Hash().Hex() })
	nin := 1
	if len(mine) >= 2 && nout%2 == 0 {
		nin = 2
	}
	var t coin.Transaction
	var coins, hours uint64
	hb, _ := w.p.v.GetHeadBlock()
	w.when += 3600 * 10
	for _, u := range mine[:nin] {
		t.In = append(t.In, u.Hash())
		coins += u.Body.Coins
		h, _ := u.CoinHours(hb.Head.Time)
		hours += h
	}
	per := coins / uint64(nout) / 1e6 * 1e6
	for i := 0; i < nout; i++ {
		_, _, a := keyOf(1 + (i % 3))
		c := per
		if i == nout-1 {
			c = coins - per*uint64(nout-1)
		}
		t.Out = append(t.Out, coin.TransactionOutput{Address: a, Coins: c, Hours: hours / 4 / uint64(nout)})
	}
	t.Sigs = make([]cipher.Sig, len(t.In))
	t.InnerHash = t.HashInner()
	for i, u := range mine[:nin] {
		t.Sigs[i] = detSign(owner[u.Body.Address], cipher.AddSHA256(t.InnerHash, t.In[i]))
	}
	if err := t.UpdateHeader(); err != nil {
		return "err header"
	}
	if _, _, err := w.p.v.InjectForeignTransaction(t); err != nil {
		return "err inject"
	}
	b, err := w.p.v.CreateBlockFromTxns(coin.Transactions{t}, w.when)
	if err != nil {
		return "err create"
	}
	_, psec, _ := keyOf(0)
	sb := coin.SignedBlock{Block: b, Sig: detSign(psec, b.HashHeader())}
	if err := w.p.v.ExecuteSignedBlock(sb); err != nil {
		return "err publisher-rejects-own-block"
	}
	w.pending = Hex(encoder.Serialize(sb))
	return "ok " + w.pending
}

func blockexec(hx string) string {
	var sb coin.SignedBlock
	if err := encoder.DeserializeRawExact(PHex(hx), &sb); err != nil {
		return "reject decode"
	}
	if err := w.f.v.ExecuteSignedBlock(sb); err != nil {
		return "reject exec"
	}
	return "accept"
}

// ---------- stateless ops ----------

func txnCheck(uxHex, mutHex string) string {
	var uxs coin.UxArray
	if err := encoder.DeserializeRawExact(PHex(uxHex), &uxs); err != nil {
		panic("harness: bad ux array")
	}
	t, err := coin.DeserializeTransaction(PHex(mutHex))
	if err != nil {
		return "reject decode"
	}
	if err := t.Verify(); err != nil {
		return "reject verify"
	}
	if len(t.In) != len(uxs) {
		return "reject inputs"
	}
	for i := range t.In {
		if t.In[i] != uxs[i].Hash() {
			return "reject inputs" // spends something else: not the same role
		}
	}
	if err := t.VerifyInputSignatures(uxs); err != nil {
		return "reject sigs"
	}
	return "accept"
}

func exec(op string) string {
	f := Fields(op)
	switch f[0] {
	case "sigvalid":
		return "ok " + strconv.Itoa(secp256k1.VerifySignatureValidity(PHex(f[1])))
	case "pubverify":
		return e(cipher.VerifyPubKeySignedHash(cipher.PubKey(arr33(PHex(f[1]))), cipher.Sig(arr65(PHex(f[2]))), cipher.SHA256(arr32(PHex(f[3])))))
	case "addrverify":
		a := cipher.Address{Version: byte(PU64(f[1])), Key: cipher.Ripemd160(arr20(PHex(f[2])))}
		return e(cipher.VerifyAddressSignedHash(a, cipher.Sig(arr65(PHex(f[3]))), cipher.SHA256(arr32(PHex(f[4])))))
	case "rawsign":
		var d, z, k secp.Number
		d.SetBytes(PHex(f[1]))
		z.SetBytes(PHex(f[2]))
		k.SetBytes(PHex(f[3]))
		var sig secp.Signature
		var recid int
		if sig.Sign(&d, &z, &k, &recid) != 1 {
			return "fail"
		}
		return "ok " + Hex(sig.Bytes()) + " " + strconv.Itoa(recid)
	case "signhash":
		s, err := cipher.SignHash(cipher.SHA256(arr32(PHex(f[2]))), cipher.SecKey(arr32(PHex(f[1]))))
		if err != nil {
			return e(err)
		}
		return "ok " + Hex(s[:])
	case "txn": // txn <uxarray> <orig> <mut>
		return txnCheck(f[1], f[3])
	case "reset":
		if err := newWorld(); err != nil {
			return "err " + err.Error()
		}
		return "ok"
	case "mkblock":
		return mkblock(int(PU64(f[1])))
	case "blockexec":
		return blockexec(f[1])
	case "genesis": // genesis <publisher pubkey> <genesis signature> <genesis header hash>: a fresh follower node must accept it
		return genesisNode(PHex(f[1]), PHex(f[2]), f[3])
	}
	panic("harness: unknown op " + f[0])
}

// ---------- generator ----------

var two256 = new(big.Int).Lsh(big.NewInt(1), 256)

func b32(v *big.Int) []byte            { return eclib.B32(new(big.Int).Mod(v, two256)) }
func add(a *big.Int, d int64) *big.Int { return new(big.Int).Add(a, big.NewInt(d)) }

func randScalar(r *Rng) *big.Int {
	for {
		v := new(big.Int).SetBytes(r.Bytes(32))
		if r.Chance(15) {
			v = big.NewInt(int64(1 + r.Intn(1000)))
		}
		if v.Sign() > 0 && v.Cmp(eclib.N) < 0 {
			return v
		}
	}
}

// sigTransforms: the algebraic malleations the property names, applied to a 65-byte signature
func sigTransforms(sig []byte) map[string][]byte {
	r := new(big.Int).SetBytes(sig[:32])
	s := new(big.Int).SetBytes(sig[32:64])
	out := map[string][]byte{}
	mk := func(r, s *big.Int, v byte) []byte { return append(append(b32(r), b32(s)...), v) }
	ns := new(big.Int).Sub(eclib.N, s)
	out["negs"] = mk(r, ns, sig[64])
	out["negs-flip"] = mk(r, ns, sig[64]^1)
	out["negs-flip3"] = mk(r, ns, sig[64]^3)
	out["recid^1"] = mk(r, s, sig[64]^1)
	out["recid^2"] = mk(r, s, sig[64]^2)
	out["recid+4"] = mk(r, s, sig[64]+4)
	out["recid+8"] = mk(r, s, sig[64]+8)
	out["recid-ff"] = mk(r, s, 0xff)
	// re-encodings of r: r + n names the same scalar mod n (and, when it is below p, the same abscissa as recovery-id bit 1);
	// with every recovery id. r = n is zero mod n. For an ordinary r the sum exceeds p (and 2^256: it wraps in 32 bytes).
	rn := new(big.Int).Add(r, eclib.N)
	for v := byte(0); v < 4; v++ {
		out["r+n/"+string('0'+v)] = mk(rn, s, v)
	}
	out["r=n"] = mk(eclib.N, s, sig[64])
	out["r=n+1"] = mk(add(eclib.N, 1), s, sig[64]&1)
	out["r=p-1"] = mk(add(eclib.P, -1), s, sig[64]&1)
	out["r=p"] = mk(eclib.P, s, sig[64]&1)
	out["s+n"] = mk(r, new(big.Int).Add(s, eclib.N), sig[64])
	out["r-n"] = mk(new(big.Int).Sub(r, eclib.N), s, sig[64]^2)
	out["zero-s"] = mk(r, big.NewInt(0), sig[64])
	out["null"] = make([]byte, 65)
	return out
}

func sortedKeys(m map[string][]byte) []string {
	var ks []string
	for k := range m {
		ks = append(ks, k)
	}
	sort.Strings(ks)
	return ks
}

type built struct {
	t    coin.Transaction
	uxs  coin.UxArray
	raw  []byte
	uxHx string
}

func buildTxn(r *Rng) built {
	nin := 1 + r.Intn(3)
	nout := 1 + r.Intn(3)
	var uxs coin.UxArray
	var t coin.Transaction
	var secs []cipher.SecKey
	var coins uint64
	for i := 0; i < nin; i++ {
		ki := r.Intn(6)
		if r.Chance(30) && i > 0 {
			ki = 0 // two inputs of the same owner: their signatures differ only by the message
		}
		_, sec, addr := keyOf(10 + ki)
		u := coin.UxOut{Head: coin.UxHead{Time: 1000 + uint64(r.Intn(1000)), BkSeq: uint64(r.Intn(50))},
			Body: coin.UxBody{SrcTransaction: cipher.SHA256(arr32(r.Bytes(32))), Address: addr, Coins: uint64(1+r.Intn(1000)) * 1e6, Hours: uint64(r.Intn(10000))}}
		uxs = append(uxs, u)
		secs = append(secs, sec)
		t.In = append(t.In, u.Hash())
		coins += u.Body.Coins
	}
	per := coins / uint64(nout) / 1e6 * 1e6
	for i := 0; i < nout; i++ {
		_, _, a := keyOf(20 + r.Intn(5))
		c := per
		if i == nout-1 {
			c = coins - per*uint64(nout-1)
		}
		t.Out = append(t.Out, coin.TransactionOutput{Address: a, Coins: c, Hours: uint64(r.Intn(50))})
	}
	t.Sigs = make([]cipher.Sig, nin)
	t.InnerHash = t.HashInner()
	for i := range t.In {
		t.Sigs[i] = detSign(secs[i], cipher.AddSHA256(t.InnerHash, t.In[i]))
	}
	if err := t.UpdateHeader(); err != nil {
		panic(err)
	}
	raw, err := t.Serialize()
	if err != nil {
		panic(err)
	}
	return built{t: t, uxs: uxs, raw: raw, uxHx: Hex(encoder.Serialize(uxs))}
}

func ser(t coin.Transaction) []byte {
	b, err := t.Serialize()
	if err != nil {
		return nil
	}
	return b
}

func byteMutations(r *Rng, raw []byte, all bool, n int, emit func([]byte)) {
	if all {
		for i := 0; i < len(raw)*8; i++ {
			m := append([]byte{}, raw...)
			m[i/8] ^= 1 << uint(i%8)
			emit(m)
		}
	} else {
		for j := 0; j < n; j++ {
			m := append([]byte{}, raw...)
			i := r.Intn(len(raw) * 8)
			m[i/8] ^= 1 << uint(i%8)
			emit(m)
		}
	}
	emit(append(append([]byte{}, raw...), 0))
	emit(append(append([]byte{}, raw...), r.Bytes(1+r.Intn(4))...))
	emit(append([]byte{0}, raw...))
	emit(append(r.Bytes(1+r.Intn(4)), raw...))
	emit(raw[:len(raw)-1])
	emit(raw[:r.Intn(len(raw))])
	emit(raw[1:])
	emit(append(append([]byte{}, raw...), raw...))
}

func gen(r *Rng, tier string, emit func(string)) {
	thorough := tier == "thorough"
	scale := 1
	if thorough {
		scale = 10
	}
	half := eclib.HalfN
	// ---- 1. constructed signatures with a chosen s around every boundary of the acceptance rule
	two255 := new(big.Int).Lsh(big.NewInt(1), 255)
	for _, s := range []*big.Int{big.NewInt(1), add(half, -1), half, add(half, 1), add(half, 2), add(two255, -1), two255, add(two255, 1), add(eclib.N, -1)} {
		for rep := 0; rep < 2; rep++ {
			k := randScalar(r)
			z := new(big.Int).SetBytes(r.Bytes(32))
			d, rr, recid, ok := eclib.KeyForS(s, z, k)
			if !ok || d.Sign() == 0 {
				continue
			}
			pub := eclib.Compress(eclib.Mul(d, eclib.G))
			addr := cipher.AddressFromPubKey(cipher.PubKey(arr33(pub)))
			sig := eclib.Sig65(rr, s, recid)
			twin := eclib.Sig65(rr, new(big.Int).Sub(eclib.N, s), recid^1)
			for _, g := range [][]byte{sig, twin} {
				emit("sigvalid " + Hex(g))
				emit("pubverify " + Hex(pub) + " " + Hex(g) + " " + Hex(b32(z)))
				emit("addrverify 0 " + Hex(addr.Key[:]) + " " + Hex(g) + " " + Hex(b32(z)))
			}
		}
	}
	// ---- 1b. crafted tiny-r signatures: for r < p - n bit 1 of the recovery byte selects a second nonce point (abscissa r + n).
	// The four readings recover four different keys; a signature must be accepted for the key of its own reading only, so
	// flipping bit 1 is not a malleation either.
	{
		var rs []*big.Int
		nr := 6
		if thorough {
			nr = 40
		}
		for i := 1; i <= nr; i++ {
			rs = append(rs, big.NewInt(int64(i)))
		}
		rs = append(rs, add(eclib.PminusN, -1), eclib.PminusN, add(eclib.PminusN, 1), new(big.Int).Rsh(eclib.PminusN, uint(1+r.Intn(60))))
		for _, rr := range rs {
			ss := new(big.Int).Rsh(randScalar(r), 1)
			if ss.Sign() == 0 {
				ss = big.NewInt(1)
			}
			z := new(big.Int).SetBytes(r.Bytes(32))
			var keys [4][]byte
			for v := 0; v < 4; v++ {
				if q, ok := eclib.Recover(rr, ss, z, v); ok {
					keys[v] = eclib.Compress(q)
				}
			}
			for v := 2; v < 4; v++ {
				sig := eclib.Sig65(rr, ss, v)
				for _, kv := range []int{v, v ^ 2} {
					if keys[kv] == nil {
						continue
					}
					addr := cipher.AddressFromPubKey(cipher.PubKey(arr33(keys[kv])))
					emit("pubverify " + Hex(keys[kv]) + " " + Hex(sig) + " " + Hex(b32(z)))
					emit("addrverify 0 " + Hex(addr.Key[:]) + " " + Hex(sig) + " " + Hex(b32(z)))
				}
				if keys[v] == nil && keys[v^2] == nil { // no reading at all: still ask
					emit("pubverify " + Hex(eclib.Compress(eclib.G)) + " " + Hex(sig) + " " + Hex(b32(z)))
				}
			}
			// re-encoding r -> r + n (a field element below p when r < p - n) must never be accepted, whatever the recovery id:
			// textbook ECDSA requires 0 < r < n
			rn := new(big.Int).Add(rr, eclib.N)
			for v := 2; v < 4; v++ {
				if keys[v] == nil {
					continue
				}
				addr := cipher.AddressFromPubKey(cipher.PubKey(arr33(keys[v])))
				for w := 0; w < 4; w++ {
					if w != v&1 && !thorough && r.Chance(50) {
						continue
					}
					g := eclib.Sig65(rn, ss, w)
					emit("pubverify " + Hex(keys[v]) + " " + Hex(g) + " " + Hex(b32(z)))
					emit("addrverify 0 " + Hex(addr.Key[:]) + " " + Hex(g) + " " + Hex(b32(z)))
				}
			}
			// and the low readings against the keys of the high ones
			v := r.Intn(2)
			if keys[v+2] != nil {
				emit("pubverify " + Hex(keys[v+2]) + " " + Hex(eclib.Sig65(rr, ss, v)) + " " + Hex(b32(z)))
			}
		}
	}
	// ---- 1c. crafted signatures whose recovery is a*R + b*G with R = k*G, small a, and b = a*k (the two halves of the double
	// multiplication meet), b = a*k +- 1, or small b: s = a*r, message = -b*r, key = (a*k + b)*G. Textbook ECDSA accepts the
	// low-s variant and only that one; the negated twin must fail the shape rule, not the recovery.
	for i := 0; i < 10*scale; i++ {
		var k *big.Int
		switch r.Intn(3) {
		case 0:
			k = big.NewInt(int64(1 + r.Intn(64)))
		case 1:
			k = new(big.Int).Rsh(new(big.Int).SetBytes(r.Bytes(16)), uint(4+r.Intn(8)))
			k.SetBit(k, 0, 0)
		default:
			k = randScalar(r)
		}
		if k.Sign() == 0 {
			k = big.NewInt(2)
		}
		a := big.NewInt(int64(1 + r.Intn(15)))
		ak := new(big.Int).Mul(a, k)
		b := new(big.Int).Set(ak)
		switch r.Intn(4) {
		case 0:
			b = add(ak, int64(r.Intn(3)-1))
		case 1:
			b = big.NewInt(int64(r.Intn(64)))
		}
		b.Mod(b, eclib.N)
		R := eclib.Mul(k, eclib.G)
		rr := new(big.Int).Mod(R.X, eclib.N)
		recid := int(R.Y.Bit(0))
		if R.X.Cmp(eclib.N) >= 0 {
			recid |= 2
		}
		ss := new(big.Int).Mod(new(big.Int).Mul(a, rr), eclib.N)
		m := new(big.Int).Mod(new(big.Int).Neg(new(big.Int).Mul(b, rr)), eclib.N)
		d := new(big.Int).Mod(new(big.Int).Add(ak, b), eclib.N)
		if ss.Sign() == 0 || rr.Sign() == 0 || d.Sign() == 0 {
			continue
		}
		key := eclib.Compress(eclib.Mul(d, eclib.G))
		addr := cipher.AddressFromPubKey(cipher.PubKey(arr33(key)))
		for _, g := range [][]byte{eclib.Sig65(rr, ss, recid), eclib.Sig65(rr, new(big.Int).Sub(eclib.N, ss), recid^1)} {
			emit("pubverify " + Hex(key) + " " + Hex(g) + " " + Hex(b32(m)))
			emit("addrverify 0 " + Hex(addr.Key[:]) + " " + Hex(g) + " " + Hex(b32(m)))
		}
	}
	// ---- 2. honest signatures and every algebraic transform of them
	for i := 0; i < 25*scale; i++ {
		d := randScalar(r)
		k := randScalar(r)
		z := new(big.Int).SetBytes(r.Bytes(32))
		emit("rawsign " + Hex(b32(d)) + " " + Hex(b32(z)) + " " + Hex(b32(k)))
		if i%5 == 0 {
			emit("signhash " + Hex(b32(d)) + " " + Hex(b32(z)))
		}
		rr, ss, recid, ok := eclib.Sign(d, z, k)
		if !ok {
			continue
		}
		pub := eclib.Compress(eclib.Mul(d, eclib.G))
		addr := cipher.AddressFromPubKey(cipher.PubKey(arr33(pub)))
		sig := eclib.Sig65(rr, ss, recid)
		emit("sigvalid " + Hex(sig))
		emit("pubverify " + Hex(pub) + " " + Hex(sig) + " " + Hex(b32(z)))
		emit("addrverify 0 " + Hex(addr.Key[:]) + " " + Hex(sig) + " " + Hex(b32(z)))
		emit("addrverify 1 " + Hex(addr.Key[:]) + " " + Hex(sig) + " " + Hex(b32(z)))
		tr := sigTransforms(sig)
		for _, name := range sortedKeys(tr) {
			g := tr[name]
			emit("sigvalid " + Hex(g))
			emit("pubverify " + Hex(pub) + " " + Hex(g) + " " + Hex(b32(z)))
			emit("addrverify 0 " + Hex(addr.Key[:]) + " " + Hex(g) + " " + Hex(b32(z)))
		}
		for j := 0; j < 6; j++ {
			g := append([]byte{}, sig...)
			g[r.Intn(65)] ^= 1 << uint(r.Intn(8))
			emit("sigvalid " + Hex(g))
			emit("addrverify 0 " + Hex(addr.Key[:]) + " " + Hex(g) + " " + Hex(b32(z)))
		}
	}
	// ---- 3. signed transactions
	ntx := 5 * scale
	for i := 0; i < ntx; i++ {
		b := buildTxn(r)
		line := func(m []byte) { emit("txn " + b.uxHx + " " + Hex(b.raw) + " " + Hex(m)) }
		line(b.raw)
		byteMutations(r, b.raw, thorough && i < 6 || i == 0, 120, line)
		// signature-level transforms at every input
		for si := range b.t.Sigs {
			tr := sigTransforms(b.t.Sigs[si][:])
			for _, name := range sortedKeys(tr) {
				t2 := b.t
				t2.Sigs = append([]cipher.Sig{}, b.t.Sigs...)
				t2.Sigs[si] = cipher.Sig(arr65(tr[name]))
				line(ser(t2))
			}
			if len(b.t.Sigs) > 1 { // another input's signature in this slot
				t2 := b.t
				t2.Sigs = append([]cipher.Sig{}, b.t.Sigs...)
				t2.Sigs[si] = b.t.Sigs[(si+1)%len(b.t.Sigs)]
				line(ser(t2))
			}
		}
		if len(b.t.In) > 1 {
			// reorder inputs, with and without their signatures, with and without recomputing the header
			for _, withSigs := range []bool{false, true} {
				for _, rehash := range []bool{false, true} {
					t2 := b.t
					t2.In = append([]cipher.SHA256{}, b.t.In...)
					t2.Sigs = append([]cipher.Sig{}, b.t.Sigs...)
					t2.In[0], t2.In[1] = t2.In[1], t2.In[0]
					if withSigs {
						t2.Sigs[0], t2.Sigs[1] = t2.Sigs[1], t2.Sigs[0]
					}
					if rehash {
						t2.InnerHash = t2.HashInner()
					}
					line(ser(t2))
				}
			}
			// duplicate an input / drop an input
			t2 := b.t
			t2.In = append(append([]cipher.SHA256{}, b.t.In...), b.t.In[0])
			t2.Sigs = append(append([]cipher.Sig{}, b.t.Sigs...), b.t.Sigs[0])
			line(ser(t2))
		}
		// outputs edited / reordered, header recomputed or not
		t3 := b.t
		t3.Out = append([]coin.TransactionOutput{}, b.t.Out...)
		t3.Out[0].Coins += 1e6
		line(ser(t3))
		t3.InnerHash = t3.HashInner()
		line(ser(t3))
		if err := t3.UpdateHeader(); err == nil {
			line(ser(t3))
		}
		// length / type fields
		t4 := b.t
		t4.Length++
		line(ser(t4))
		// the length prefix is covered by neither the inner hash nor a signature: every other value of it
		// (zero and the "unset" looking ones first) must be refused, or the txid is malleable
		for _, l := range []uint32{0, 1, b.t.Length - 1, b.t.Length + 4, b.t.Length << 8, 1 << 31, 1<<32 - 1} {
			t4 = b.t
			t4.Length = l
			line(ser(t4))
		}
		for _, ty := range []uint8{1, 2, 0x80, 0xff} {
			t4 = b.t
			t4.Type = ty
			line(ser(t4))
		}
	}
	// ---- 3b. a real node path with a CRAFTED signature: the genesis block. Its hash does not depend on the publisher key, so
	// the generator picks a tiny r, any s, recovers the key Q of the reading with recovery-id bit 1 set, and configures a fresh
	// follower with publisher key Q: the canonical signature starts the node; every re-encoding (r + n with any recovery id, the
	// other readings, negated s ...) must be refused. (Transaction inputs cannot be crafted this way: the signed message
	// contains the spent output's hash, which contains the address of the very key being recovered.)
	{
		z := new(big.Int).SetBytes(genesisHash())
		zh := Hex(genesisHash())
		done := 0
		want := 2
		if thorough {
			want = 8
		}
		for rv := int64(1); rv < 200 && done < want; rv++ {
			rr := big.NewInt(rv)
			ss := new(big.Int).Rsh(randScalar(r), 1)
			v := 2 + r.Intn(2)
			q, ok := eclib.Recover(rr, ss, z, v)
			if !ok || ss.Sign() == 0 {
				continue
			}
			done++
			pub := eclib.Compress(q)
			canon := eclib.Sig65(rr, ss, v)
			rn := new(big.Int).Add(rr, eclib.N)
			emit("genesis " + Hex(pub) + " " + Hex(canon) + " " + zh)
			for w := 0; w < 4; w++ {
				emit("genesis " + Hex(pub) + " " + Hex(eclib.Sig65(rn, ss, w)) + " " + zh)
			}
			emit("genesis " + Hex(pub) + " " + Hex(eclib.Sig65(rr, ss, v^2)) + " " + zh)
			emit("genesis " + Hex(pub) + " " + Hex(eclib.Sig65(rr, ss, v^1)) + " " + zh)
			emit("genesis " + Hex(pub) + " " + Hex(eclib.Sig65(rr, new(big.Int).Sub(eclib.N, ss), v^1)) + " " + zh)
			emit("genesis " + Hex(pub) + " " + Hex(eclib.Sig65(rr, ss, v+4)) + " " + zh)
		}
	}
	// ---- 4. signed blocks against a real follower node
	ncase := 1
	nblk := 2
	if thorough {
		ncase, nblk = 3, 3
	}
	for c := 0; c < ncase; c++ {
		emit("reset")
		for bi := 0; bi < nblk; bi++ {
			emit("mkblock " + strconv.Itoa(1+r.Intn(3)))
			if w == nil || w.pending == "" {
				break
			}
			raw := PHex(w.pending)
			byteMutations(r, raw, thorough && bi == 0 && c == 0, 150, func(m []byte) { emit("blockexec " + Hex(m)) })
			// the block signature under every algebraic transform
			var sb coin.SignedBlock
			if err := encoder.DeserializeRawExact(raw, &sb); err == nil {
				tr := sigTransforms(sb.Sig[:])
				for _, name := range sortedKeys(tr) {
					sb2 := sb
					sb2.Sig = cipher.Sig(arr65(tr[name]))
					emit("blockexec " + Hex(encoder.Serialize(sb2)))
				}
				// a transaction signature inside the block malleated (body hash then disagrees) and the
				// header re-pointed at the new body (signature then disagrees)
				if len(sb.Block.Body.Transactions) > 0 {
					sb2 := sb
					txs := append(coin.Transactions{}, sb.Block.Body.Transactions...)
					t := txs[0]
					t.Sigs = append([]cipher.Sig{}, t.Sigs...)
					t.Sigs[0] = cipher.Sig(arr65(sigTransforms(t.Sigs[0][:])["negs-flip"]))
					txs[0] = t
					sb2.Block.Body.Transactions = txs
					emit("blockexec " + Hex(encoder.Serialize(sb2)))
					sb2.Block.Head.BodyHash = sb2.Block.Body.Hash()
					emit("blockexec " + Hex(encoder.Serialize(sb2)))
				}
			}
			if !bytes.Equal(raw, PHex(w.pending)) {
				panic("harness: pending changed")
			}
			emit("blockexec " + w.pending) // finally the real block: accepted, F advances
		}
	}
}

func main() {
	Main(&Prop{Gen: gen, Exec: exec, Close: func() { w.close() }})
}
