package main

// C21: generated binary codecs ≡ reference encoder.
//
// For each of the 29 skyencoder-generated codecs (exported under -tags verif by the *_verif.go hook files
// as encoder.VerifCodec) the harness runs BOTH Go encoders in-process:
//
//	enc NAME <value spec>   build the Go value, then generated encodeSizeX / encodeX / encodeXToBuffer(short buffer)
//	                        and encoder.Size / encoder.Serialize; decode the reference bytes back with the
//	                        generated exact decoder (rt=)
//	dec NAME <hex>          generated decodeX / decodeXExact and encoder.DeserializeRaw / DeserializeRawExact on
//	                        the same bytes (fresh objects); value dumps, consumed length, error kind,
//	                        reflect.DeepEqual of the two objects, and the re-encoding of what was decoded
//
// The Lean driver (Sky/C21/Drv.lean) answers every line from the reference codec `Sky.Codec`.
//
// value spec (type directed, space separated): integers decimal; bool 0/1; [n]byte as 2n hex digits
// ("-" if n = 0); []byte / string: "nil" | "-" (empty, non-nil) | hex; []T: "nil" | "[N" followed by N
// elements; struct: its encoded fields in order (unexported and `enc:"-"` fields skipped).

import (
	"encoding/hex"
	"fmt"
	"reflect"
	"strconv"
	"strings"

	. "verif/harness/hlib"

	"github.com/skycoin/skycoin/src/cipher/encoder"
	"github.com/skycoin/skycoin/src/coin"
	"github.com/skycoin/skycoin/src/daemon"
	"github.com/skycoin/skycoin/src/visor"
	"github.com/skycoin/skycoin/src/visor/blockdb"
	"github.com/skycoin/skycoin/src/visor/historydb"
)

var (
	codecs = map[string]encoder.VerifCodec{}
	names  []string
)

func init() {
	for _, l := range [][]encoder.VerifCodec{coin.VerifCodecs(), daemon.VerifCodecs(), visor.VerifCodecs(),
		blockdb.VerifCodecs(), historydb.VerifCodecs()} {
		for _, c := range l {
			if _, dup := codecs[c.Name]; dup {
				panic("harness: duplicate codec " + c.Name)
			}
			codecs[c.Name] = c
			names = append(names, c.Name)
		}
	}
}

var errNames = map[error]string{
	encoder.ErrBufferUnderflow:  "ErrBufferUnderflow",
	encoder.ErrBufferOverflow:   "ErrBufferOverflow",
	encoder.ErrInvalidOmitEmpty: "ErrInvalidOmitEmpty",
	encoder.ErrRemainingBytes:   "ErrRemainingBytes",
	encoder.ErrMaxLenExceeded:   "ErrMaxLenExceeded",
	encoder.ErrMapDuplicateKeys: "ErrMapDuplicateKeys",
	encoder.ErrInvalidBool:      "ErrInvalidBool",
}

// ---------------------------------------------------------------------------------------------
// type-directed value <-> spec
// ---------------------------------------------------------------------------------------------

type fieldInfo struct {
	idx    int
	maxlen int
}

// encFields mirrors the reference encoder's field selection: exported, not tagged enc:"-".
func encFields(t reflect.Type) []fieldInfo {
	var fs []fieldInfo
	for i := 0; i < t.NumField(); i++ {
		ff := t.Field(i)
		if ff.PkgPath != "" {
			continue
		}
		tag := ff.Tag.Get("enc")
		if len(tag) > 0 && tag[0] == '-' {
			continue
		}
		fs = append(fs, fieldInfo{i, encoder.TagMaxLen(tag)})
	}
	return fs
}

type toks struct {
	t []string
	i int
}

func (k *toks) next() string {
	if k.i >= len(k.t) {
		panic("harness: value spec too short")
	}
	s := k.t[k.i]
	k.i++
	return s
}

func build(v reflect.Value, k *toks) {
	switch v.Kind() {
	case reflect.Uint8, reflect.Uint16, reflect.Uint32, reflect.Uint64:
		v.SetUint(PU64(k.next()))
	case reflect.Int8, reflect.Int16, reflect.Int32, reflect.Int64:
		v.SetInt(PI64(k.next()))
	case reflect.Bool:
		v.SetBool(k.next() == "1")
	case reflect.String:
		s := k.next()
		if s != "nil" {
			v.SetString(string(PHex(s)))
		}
	case reflect.Array:
		if v.Type().Elem().Kind() == reflect.Uint8 {
			b := PHex(k.next())
			if len(b) != v.Len() {
				panic("harness: byte array length")
			}
			reflect.Copy(v, reflect.ValueOf(b))
			return
		}
		for i := 0; i < v.Len(); i++ {
			build(v.Index(i), k)
		}
	case reflect.Slice:
		s := k.next()
		if s == "nil" {
			return
		}
		if v.Type().Elem().Kind() == reflect.Uint8 {
			v.SetBytes(append([]byte{}, PHex(s)...))
			return
		}
		if !strings.HasPrefix(s, "[") {
			panic("harness: expected [N")
		}
		rep := strings.HasSuffix(s, "*")
		n, err := strconv.Atoi(strings.TrimSuffix(s[1:], "*"))
		if err != nil {
			panic("harness: bad slice length")
		}
		sl := reflect.MakeSlice(v.Type(), n, n)
		if rep { // "[N*" : N copies of the one element that follows
			if n > 0 {
				build(sl.Index(0), k)
				for i := 1; i < n; i++ {
					sl.Index(i).Set(sl.Index(0))
				}
			}
		} else {
			for i := 0; i < n; i++ {
				build(sl.Index(i), k)
			}
		}
		v.Set(sl)
	case reflect.Struct:
		for _, f := range encFields(v.Type()) {
			build(v.Field(f.idx), k)
		}
	default:
		panic("harness: unsupported kind " + v.Kind().String())
	}
}

// dump renders a value as a spec; canon: an empty slice/string is rendered like nil.
func dump(v reflect.Value, canon bool, out *[]string) {
	switch v.Kind() {
	case reflect.Uint8, reflect.Uint16, reflect.Uint32, reflect.Uint64:
		*out = append(*out, strconv.FormatUint(v.Uint(), 10))
	case reflect.Int8, reflect.Int16, reflect.Int32, reflect.Int64:
		*out = append(*out, strconv.FormatInt(v.Int(), 10))
	case reflect.Bool:
		if v.Bool() {
			*out = append(*out, "1")
		} else {
			*out = append(*out, "0")
		}
	case reflect.String:
		if v.Len() == 0 {
			*out = append(*out, "nil")
		} else {
			*out = append(*out, hex.EncodeToString([]byte(v.String())))
		}
	case reflect.Array:
		if v.Type().Elem().Kind() == reflect.Uint8 {
			b := make([]byte, v.Len())
			reflect.Copy(reflect.ValueOf(b), v)
			*out = append(*out, Hex(b))
			return
		}
		for i := 0; i < v.Len(); i++ {
			dump(v.Index(i), canon, out)
		}
	case reflect.Slice:
		if v.IsNil() || (canon && v.Len() == 0) {
			*out = append(*out, "nil")
			return
		}
		if v.Type().Elem().Kind() == reflect.Uint8 {
			*out = append(*out, Hex(v.Bytes()))
			return
		}
		if v.Len() > 64 && allSame(v) {
			*out = append(*out, "["+strconv.Itoa(v.Len())+"*")
			dump(v.Index(0), canon, out)
			return
		}
		*out = append(*out, "["+strconv.Itoa(v.Len()))
		for i := 0; i < v.Len(); i++ {
			dump(v.Index(i), canon, out)
		}
	case reflect.Struct:
		for _, f := range encFields(v.Type()) {
			dump(v.Field(f.idx), canon, out)
		}
	default:
		panic("harness: unsupported kind " + v.Kind().String())
	}
}

func allSame(v reflect.Value) bool {
	first := v.Index(0).Interface()
	for i := 1; i < v.Len(); i++ {
		if !reflect.DeepEqual(first, v.Index(i).Interface()) {
			return false
		}
	}
	return true
}

func dumpStr(obj interface{}, canon bool) string {
	var out []string
	dump(reflect.ValueOf(obj).Elem(), canon, &out)
	if len(out) == 0 {
		return "()"
	}
	return strings.Join(out, " ")
}

func errKind(err error) string { return ErrName(err, errNames) }

// Byte strings on op lines may be run-length coded: segments separated by '.', each either plain hex or
// "N*hex" (hex repeated N times). Long OUTPUT byte strings are printed as "#<len>:<fnv1a-64>".
func parseBytes(s string) []byte {
	if !strings.ContainsAny(s, ".*") {
		return PHex(s)
	}
	var out []byte
	for _, seg := range strings.Split(s, ".") {
		if i := strings.IndexByte(seg, '*'); i >= 0 {
			n, err := strconv.Atoi(seg[:i])
			if err != nil {
				panic("harness: bad repeat count")
			}
			e := PHex(seg[i+1:])
			for k := 0; k < n; k++ {
				out = append(out, e...)
			}
		} else {
			out = append(out, PHex(seg)...)
		}
	}
	return out
}

func outHex(b []byte) string {
	if len(b) <= 1024 {
		return Hex(b)
	}
	h := uint64(14695981039346656037)
	for _, x := range b {
		h = (h ^ uint64(x)) * 1099511628211
	}
	return "#" + strconv.Itoa(len(b)) + ":" + strconv.FormatUint(h, 10)
}

// rle renders enc with the run of repetitions of e (if any, at least 8) collapsed.
func rle(enc, e []byte) string {
	L := len(e)
	if L == 0 || len(enc) < 8*L {
		return Hex(enc)
	}
	o := strings.Index(string(enc), string(e)+string(e)+string(e))
	if o < 0 {
		return Hex(enc)
	}
	k := 0
	for o+(k+1)*L <= len(enc) && string(enc[o+k*L:o+(k+1)*L]) == string(e) {
		k++
	}
	if k < 8 {
		return Hex(enc)
	}
	parts := []string{}
	if o > 0 {
		parts = append(parts, Hex(enc[:o]))
	}
	parts = append(parts, strconv.Itoa(k)+"*"+Hex(e))
	if o+k*L < len(enc) {
		parts = append(parts, Hex(enc[o+k*L:]))
	}
	return strings.Join(parts, ".")
}

// protect runs f and maps a panic to "panic".
func protect(f func() string) (s string) {
	defer func() {
		if r := recover(); r != nil {
			s = "panic"
		}
	}()
	return f()
}

// ---------------------------------------------------------------------------------------------
// ops
// ---------------------------------------------------------------------------------------------

func execEnc(c encoder.VerifCodec, spec []string) string {
	obj := c.New()
	build(reflect.ValueOf(obj).Elem(), &toks{t: spec})
	var genBytes []byte
	genOK := false
	gen := protect(func() string {
		b, err := c.Encode(obj)
		if err != nil {
			return "err " + errKind(err)
		}
		genBytes, genOK = b, true
		return outHex(b)
	})
	gsize := protect(func() string { return strconv.FormatUint(c.EncodeSize(obj), 10) })
	var refBytes []byte
	ref := protect(func() string {
		refBytes = encoder.Serialize(obj)
		if genOK && string(refBytes) == string(genBytes) {
			return "same"
		}
		return outHex(refBytes)
	})
	rsize := protect(func() string { return strconv.FormatUint(encoder.Size(obj), 10) })
	short := protect(func() string {
		n := c.EncodeSize(obj)
		if n == 0 {
			return "none"
		}
		if err := c.EncodeToBuffer(make([]byte, n-1), obj); err != nil {
			return errKind(err)
		}
		return "ok"
	})
	// the reference bytes through the generated exact decoder
	rt := protect(func() string {
		if refBytes == nil {
			return "none"
		}
		o2 := c.New()
		if err := c.DecodeExact(refBytes, o2); err != nil {
			return "err " + errKind(err)
		}
		if dumpStr(o2, true) != dumpStr(obj, true) {
			return "neq"
		}
		return "ok"
	})
	return "gen=" + gen + "|gsize=" + gsize + "|ref=" + ref + "|rsize=" + rsize + "|short=" + short + "|rt=" + rt
}

func execDec(c encoder.VerifCodec, b []byte) string {
	g := c.New()
	gok := false
	gen := protect(func() string {
		n, err := c.Decode(b, g)
		if err != nil {
			return "err " + errKind(err)
		}
		gok = true
		return "ok " + strconv.FormatUint(n, 10) + " " + dumpStr(g, false)
	})
	gx := c.New()
	gxok := false
	genx := protect(func() string {
		if err := c.DecodeExact(b, gx); err != nil {
			return "err " + errKind(err)
		}
		gxok = true
		return "ok"
	})
	r := c.New()
	rok := false
	ref := protect(func() string {
		n, err := encoder.DeserializeRaw(b, r)
		if err != nil {
			return "err " + errKind(err)
		}
		rok = true
		return "ok " + strconv.FormatUint(n, 10) + " " + dumpStr(r, false)
	})
	if ref == gen {
		ref = "same"
	}
	refx := protect(func() string {
		if err := encoder.DeserializeRawExact(b, c.New()); err != nil {
			return "err " + errKind(err)
		}
		return "ok"
	})
	deq := "-"
	if gok && rok {
		deq = "0"
		if reflect.DeepEqual(g, r) {
			deq = "1"
		}
	}
	reenc := "-"
	if gxok {
		reenc = protect(func() string {
			e, err := c.Encode(gx)
			if err != nil {
				return "err " + errKind(err)
			}
			if string(e) == string(b) {
				return "same"
			}
			return outHex(e)
		})
	}
	return "gen=" + gen + "|genx=" + genx + "|ref=" + ref + "|refx=" + refx + "|deq=" + deq + "|reenc=" + reenc
}

func c21Exec(op string) string {
	f := Fields(op)
	if len(f) < 2 {
		panic("harness: bad op")
	}
	c, ok := codecs[f[1]]
	if !ok {
		panic("harness: unknown codec " + f[1])
	}
	switch f[0] {
	case "enc":
		return execEnc(c, f[2:])
	case "dec":
		if len(f) != 3 {
			panic("harness: dec NAME HEX")
		}
		return execDec(c, parseBytes(f[2]))
	}
	panic("harness: unknown op " + f[0])
}

// ---------------------------------------------------------------------------------------------
// generators
// ---------------------------------------------------------------------------------------------

type genCtx struct {
	r      *Rng
	exp    bool // this value may contain one expensive slice (maxlen 65535 boundary / 70 000 elements)
	bigEl  reflect.Value
	big    int  // remaining "big slice" allowances for this value
	budget int  // remaining elements
	min    bool // inside a big slice: keep elements minimal
	lens   []lenField
	off    int
}

type lenField struct {
	off, length, maxlen int
}

func uintVal(r *Rng, bits uint) uint64 {
	max := uint64(1)<<bits - 1
	if bits == 64 {
		max = ^uint64(0)
	}
	switch r.Intn(8) {
	case 0:
		return 0
	case 1:
		return 1
	case 2:
		return max
	case 3:
		return max - 1
	case 4:
		return uint64(1) << (bits - 1)
	case 5:
		return uint64(1)<<(bits-1) - 1
	case 6:
		return uint64(r.Intn(300))
	}
	return r.U64() & max
}

// sliceLen picks a length for a slice field with the given maxlen tag (0 = none) and element cost.
func (g *genCtx) sliceLen(maxlen int, elemStatic bool) (n int, isNil bool) {
	r := g.r
	if g.min {
		if r.Chance(70) {
			return 0, true
		}
		return r.Intn(2), false
	}
	k := r.Intn(100)
	switch {
	case k < 12:
		return 0, true
	case k < 22:
		return 0, false
	case k < 45:
		return 1, false
	case k < 60:
		return 2, false
	case k < 80:
		return r.Range(3, 6), false
	}
	if g.big > 0 {
		switch {
		case maxlen > 0 && maxlen <= 512:
			g.big--
			return maxlen + r.Range(-1, 1), false
		case maxlen > 512 && g.exp:
			g.big--
			return maxlen + r.Range(-1, 1), false
		case maxlen == 0 && g.exp && elemStatic:
			g.big--
			return 70000, false
		case maxlen == 0 && elemStatic:
			g.big--
			return r.Range(200, 400), false
		}
	}
	return r.Range(0, 3), false
}

func staticType(t reflect.Type) bool {
	switch t.Kind() {
	case reflect.Slice, reflect.String:
		return false
	case reflect.Array:
		return staticType(t.Elem())
	case reflect.Struct:
		for _, f := range encFields(t) {
			if !staticType(t.Field(f.idx).Type) {
				return false
			}
		}
	}
	return true
}

func (g *genCtx) value(v reflect.Value, maxlen int) {
	r := g.r
	switch v.Kind() {
	case reflect.Uint8:
		v.SetUint(uintVal(r, 8))
	case reflect.Uint16:
		v.SetUint(uintVal(r, 16))
	case reflect.Uint32:
		v.SetUint(uintVal(r, 32))
	case reflect.Uint64:
		v.SetUint(uintVal(r, 64))
	case reflect.Int8:
		v.SetInt(int64(int8(uintVal(r, 8))))
	case reflect.Int16:
		v.SetInt(int64(int16(uintVal(r, 16))))
	case reflect.Int32:
		v.SetInt(int64(int32(uintVal(r, 32))))
	case reflect.Int64:
		v.SetInt(int64(uintVal(r, 64)))
	case reflect.Bool:
		v.SetBool(r.Bool())
	case reflect.Array:
		if v.Type().Elem().Kind() == reflect.Uint8 {
			b := make([]byte, v.Len())
			switch r.Intn(6) {
			case 0: // zero
			case 1:
				for i := range b {
					b[i] = 0xff
				}
			default:
				if g.min {
					b[0] = byte(r.U64())
				} else {
					b = r.Bytes(v.Len())
				}
			}
			reflect.Copy(v, reflect.ValueOf(b))
			return
		}
		for i := 0; i < v.Len(); i++ {
			g.value(v.Index(i), 0)
		}
	case reflect.String, reflect.Slice:
		isBytes := v.Kind() == reflect.String || v.Type().Elem().Kind() == reflect.Uint8
		n, isNil := g.sliceLen(maxlen, isBytes || staticType(v.Type().Elem()))
		if n > g.budget && n > 8 {
			n = g.r.Intn(3)
		}
		if isNil {
			return
		}
		g.budget -= n
		if v.Kind() == reflect.String {
			v.SetString(string(r.Bytes(n)))
			return
		}
		if isBytes {
			v.SetBytes(r.Bytes(n))
			return
		}
		sl := reflect.MakeSlice(v.Type(), n, n)
		saved := g.min
		if n > 8 {
			g.min = true
		}
		if n > 64 { // long slices: one (minimal) element, replicated — transported run-length coded
			g.value(sl.Index(0), 0)
			for i := 1; i < n; i++ {
				sl.Index(i).Set(sl.Index(0))
			}
			g.bigEl = sl.Index(0)
		} else {
			for i := 0; i < n; i++ {
				g.value(sl.Index(i), 0)
			}
		}
		g.min = saved
		v.Set(sl)
	case reflect.Struct:
		for _, f := range encFields(v.Type()) {
			g.value(v.Field(f.idx), f.maxlen)
		}
	default:
		panic("harness: gen unsupported kind " + v.Kind().String())
	}
}

// lenOffsets walks a value and records, for the reference encoding, the byte offset of every length
// prefix together with the encoded length and the field's maxlen.
func (g *genCtx) lenOffsets(v reflect.Value, maxlen int, omit bool) {
	switch v.Kind() {
	case reflect.Uint8, reflect.Int8, reflect.Bool:
		g.off++
	case reflect.Uint16, reflect.Int16:
		g.off += 2
	case reflect.Uint32, reflect.Int32:
		g.off += 4
	case reflect.Uint64, reflect.Int64:
		g.off += 8
	case reflect.Array:
		for i := 0; i < v.Len(); i++ {
			g.lenOffsets(v.Index(i), 0, false)
		}
	case reflect.String:
		if omit && v.Len() == 0 {
			return
		}
		g.lens = append(g.lens, lenField{g.off, v.Len(), maxlen})
		g.off += 4 + v.Len()
	case reflect.Slice:
		if omit && v.Len() == 0 {
			return
		}
		g.lens = append(g.lens, lenField{g.off, v.Len(), maxlen})
		g.off += 4
		if v.Len() > 64 {
			// offsets inside long slices are not needed; skip by size
			g.off += int(encoder.Size(v.Interface())) - 4
			return
		}
		for i := 0; i < v.Len(); i++ {
			g.lenOffsets(v.Index(i), 0, false)
		}
	case reflect.Struct:
		t := v.Type()
		for _, f := range encFields(t) {
			tag := t.Field(f.idx).Tag.Get("enc")
			g.lenOffsets(v.Field(f.idx), f.maxlen, encoder.TagOmitempty(tag))
		}
	}
}

// fillBoundary sets the k-th maxlen-tagged slice field met in traversal order (descending into one element
// of every slice on the way) to length n(maxlen) with zero elements; returns that field's maxlen (0 if there
// is no k-th field) and the field's element value.
func fillBoundary(v reflect.Value, maxlen int, k *int, n func(m int) int) (int, reflect.Value) {
	switch v.Kind() {
	case reflect.Struct:
		for _, f := range encFields(v.Type()) {
			if m, el := fillBoundary(v.Field(f.idx), f.maxlen, k, n); m > 0 {
				return m, el
			}
		}
	case reflect.Slice:
		if v.Type().Elem().Kind() == reflect.Uint8 {
			return 0, reflect.Value{}
		}
		if maxlen > 0 {
			if *k == 0 {
				l := n(maxlen)
				v.Set(reflect.MakeSlice(v.Type(), l, l))
				if l > 0 {
					return maxlen, v.Index(0)
				}
				return maxlen, reflect.Zero(v.Type().Elem())
			}
			*k--
		}
		v.Set(reflect.MakeSlice(v.Type(), 1, 1))
		if m, el := fillBoundary(v.Index(0), 0, k, n); m > 0 {
			return m, el
		}
		v.Set(reflect.Zero(v.Type()))
	}
	return 0, reflect.Value{}
}

func put32(b []byte, off int, x uint32) []byte {
	c := append([]byte{}, b...)
	c[off], c[off+1], c[off+2], c[off+3] = byte(x), byte(x>>8), byte(x>>16), byte(x>>24)
	return c
}

func c21Gen(r *Rng, tier string, emit func(string)) {
	perType := 14
	expPerType := 0
	if tier == "thorough" {
		perType = 500
		expPerType = 4
	}
	// quick tier: a handful of expensive values overall, on types chosen by the seed
	expQuick := map[int]bool{}
	if tier != "thorough" {
		for k := 0; k < 5; k++ {
			expQuick[r.Intn(len(names))] = true
		}
	}
	// quick tier: three of the maxlen-65535 fields (seeded), one boundary length each
	expField := map[[2]int]bool{}
	expDelta := int(r.U64()%3) - 1
	if tier != "thorough" {
		var all [][2]int
		for ni, name := range names {
			for k := 0; ; k++ {
				kk := k
				m, _ := fillBoundary(reflect.ValueOf(codecs[name].New()).Elem(), 0, &kk, func(m int) int { return 0 })
				if m == 0 {
					break
				}
				if m > 512 {
					all = append(all, [2]int{ni, k})
				}
			}
		}
		for i := 0; i < 3 && len(all) > 0; i++ {
			expField[all[r.Intn(len(all))]] = true
		}
	}
	for ni, name := range names {
		c := codecs[name]
		decOp := func(b []byte) { emit("dec " + name + " " + Hex(b)) }
		// fixed seeds of the byte-string stream: empty, short, garbage
		decOp(nil)
		decOp([]byte{0})
		decOp([]byte{0, 0, 0, 0})
		decOp([]byte{1, 0, 0, 0})
		decOp([]byte{0xff, 0xff, 0xff, 0xff})
		decOp([]byte{0xff, 0xff, 0xff, 0x7f, 1, 2, 3})
		// the maxlen family: every tagged slice field at maxlen-1, maxlen, maxlen+1 (encoder refusal, decoder
		// refusal, and the same length prefixes in front of zero padding). Fields with maxlen 65535 cost
		// about a second each in the driver: all of them in the thorough tier, a seeded few in the quick tier.
		for k := 0; ; k++ {
			kk := k
			m, _ := fillBoundary(reflect.ValueOf(c.New()).Elem(), 0, &kk, func(m int) int { return 0 })
			if m == 0 {
				break
			}
			if m > 512 && tier != "thorough" && !expField[[2]int{ni, k}] {
				continue
			}
			for d := -1; d <= 1; d++ {
				if m > 512 && tier != "thorough" && d != expDelta {
					continue
				}
				obj := c.New()
				kk = k
				_, el := fillBoundary(reflect.ValueOf(obj).Elem(), 0, &kk, func(m int) int { return m + d })
				emit("enc " + name + " " + dumpStr(obj, false))
				enc := encoder.Serialize(obj)
				emit("dec " + name + " " + rle(enc, encoder.Serialize(el.Interface())))
			}
			// decoder side without a full payload: the prefix in front of zero padding
			obj := c.New()
			kk = k
			fillBoundary(reflect.ValueOf(obj).Elem(), 0, &kk, func(m int) int { return 0 })
			enc := encoder.Serialize(obj)
			g := &genCtx{}
			g.lenOffsets(reflect.ValueOf(obj).Elem(), 0, false)
			for _, lf := range g.lens {
				if lf.maxlen != m || lf.length != 0 {
					continue
				}
				for _, x := range []int{m - 1, m, m + 1} {
					for _, pad := range []int{x - 1, x, x + 9} {
						emit("dec " + name + " " + Hex(put32(enc[:lf.off+4], lf.off, uint32(x))) + "." + strconv.Itoa(pad) + "*00")
					}
				}
				break
			}
		}
		for i := 0; i < perType; i++ {
			g := &genCtx{r: r, budget: 200}
			// one value in four may contain one boundary-length slice; the expensive ones (maxlen 65535
			// or 70 000 elements) are rationed
			if i%4 == 3 {
				g.big = 1
				g.budget = 80000
				g.exp = (i/4) < expPerType || (expQuick[ni] && i == 3)
			}
			obj := c.New()
			g.value(reflect.ValueOf(obj).Elem(), 0)
			emit("enc " + name + " " + dumpStr(obj, false))
			enc := encoder.Serialize(obj)
			if len(enc) > 4096 {
				// long encodings (one replicated element): run-length coded, only the cheap neighbours
				var e []byte
				if g.bigEl.IsValid() {
					e = encoder.Serialize(g.bigEl.Interface())
				}
				s := rle(enc, e)
				if len(s) > 1<<16 {
					continue
				}
				emit("dec " + name + " " + s)
				emit("dec " + name + " " + s + ".00")
				if strings.Contains(s, "*") {
					emit("dec " + name + " " + rle(enc[:len(enc)-1], e))
				}
				continue
			}
			decOp(enc)
			g.off = 0
			g.lenOffsets(reflect.ValueOf(obj).Elem(), 0, false)
			// truncations
			if len(enc) <= 40 {
				for k := 0; k < len(enc); k++ {
					decOp(enc[:k])
				}
			} else {
				for k := 0; k < 6; k++ {
					decOp(enc[:r.Intn(len(enc))])
				}
				decOp(enc[:len(enc)-1])
			}
			// single byte mutations
			nm := 6
			if len(enc) <= 24 {
				nm = len(enc)
			}
			for k := 0; k < nm && len(enc) > 0; k++ {
				p := r.Intn(len(enc))
				if nm == len(enc) {
					p = k
				}
				m := append([]byte{}, enc...)
				switch r.Intn(3) {
				case 0:
					m[p] ^= 1 << uint(r.Intn(8))
				case 1:
					m[p] = byte(r.U64())
				default:
					m[p]++
				}
				decOp(m)
			}
			// length fields
			for _, lf := range g.lens {
				if lf.off+4 > len(enc) {
					continue
				}
				vals := []uint32{0, uint32(lf.length) + 1, 1 << 31, 1<<32 - 1, uint32(len(enc) - lf.off - 4), uint32(len(enc)-lf.off-4) + 1}
				if lf.length > 0 {
					vals = append(vals, uint32(lf.length)-1)
				}
				if lf.maxlen > 0 {
					vals = append(vals, uint32(lf.maxlen), uint32(lf.maxlen)+1)
				}
				for _, x := range vals {
					decOp(put32(enc, lf.off, x))
				}
			}
			// trailing bytes (00 00 00 00 is the explicit empty omitempty field)
			decOp(append(append([]byte{}, enc...), 0))
			decOp(append(append([]byte{}, enc...), 0, 0, 0, 0))
			decOp(append(append([]byte{}, enc...), 1, 0, 0, 0))
			decOp(append(append([]byte{}, enc...), r.Bytes(r.Range(1, 9))...))
			// random garbage
			decOp(r.Bytes(r.Intn(48)))
		}
	}
	_ = fmt.Sprint
}

func main() { Main(&Prop{Gen: c21Gen, Exec: c21Exec}) }
