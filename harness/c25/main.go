package main

// C25: only correctly introduced peers reach the protocol.
//
//	verify CFGMIRROR MINVER PUBKEY mirror port version EXTRA
//	        real IntroductionMessage.Verify (hook daemon.VerifIntroVerify) →
//	        "ok burn maxsize prec coin,version,remark genesis" (hex fields) | "err <disconnect reason>"
//	gate STATE IDMATCH KIND [CFGMIRROR MINVER PUBKEY mirror port version EXTRA]
//	        real Daemon.onMessageEvent on a reduced Daemon (hook daemon.VerifNewGate) holding one connection in
//	        STATE (none|pending|connected|introduced); the message context carries the connection's gnet id
//	        (IDMATCH=1) or another one; KIND ∈ spy (a message type the gate does not know), intr (the given
//	        introduction), or one of the ten other asynchronous daemon messages.
//	        spy  → "spy=<0|1> sent=<reasons> state=<after>"
//	        intr → "sent=<reasons> state=<after>"
//	        else → "blocked=<0|1>"   (1 = a DisconnectMessage(NoIntroduction) was queued)
//
// The Lean driver (Sky/C25/Drv.lean) answers from Sky.C25.Model.

import (
	"encoding/hex"
	"strconv"
	"strings"

	. "verif/harness/hlib"

	"github.com/skycoin/skycoin/src/cipher"
	"github.com/skycoin/skycoin/src/cipher/encoder"
	"github.com/skycoin/skycoin/src/coin"
	"github.com/skycoin/skycoin/src/daemon"
	"github.com/skycoin/skycoin/src/daemon/gnet"
	"github.com/skycoin/skycoin/src/params"
)

var reasons = map[error]string{
	daemon.ErrDisconnectVersionNotSupported:         "ErrDisconnectVersionNotSupported",
	daemon.ErrDisconnectSelf:                        "ErrDisconnectSelf",
	daemon.ErrDisconnectNoIntroduction:              "ErrDisconnectNoIntroduction",
	daemon.ErrDisconnectUnexpectedError:             "ErrDisconnectUnexpectedError",
	daemon.ErrDisconnectBlockchainPubkeyNotMatched:  "ErrDisconnectBlockchainPubkeyNotMatched",
	daemon.ErrDisconnectBlockchainPubkeyNotProvided: "ErrDisconnectBlockchainPubkeyNotProvided",
	daemon.ErrDisconnectInvalidExtraData:            "ErrDisconnectInvalidExtraData",
	daemon.ErrDisconnectInvalidUserAgent:            "ErrDisconnectInvalidUserAgent",
	daemon.ErrDisconnectInvalidBurnFactor:           "ErrDisconnectInvalidBurnFactor",
	daemon.ErrDisconnectInvalidMaxTransactionSize:   "ErrDisconnectInvalidMaxTransactionSize",
	daemon.ErrDisconnectInvalidMaxDropletPrecision:  "ErrDisconnectInvalidMaxDropletPrecision",
	daemon.ErrDisconnectConnectedTwice:              "ErrDisconnectConnectedTwice",
	daemon.ErrDisconnectPeerlistFull:                "ErrDisconnectPeerlistFull",
	daemon.ErrDisconnectReceivedDisconnect:          "ErrDisconnectReceivedDisconnect",
}

const gateAddr = "34.56.78.90:6000"
const gateID = 7

func init() {
	mc := daemon.NewMessagesConfig()
	mc.Register()
}

func pubkeyOf(s string) cipher.PubKey {
	var pk cipher.PubKey
	b := PHex(s)
	if len(b) != len(pk) {
		panic("harness: pubkey must be 33 bytes")
	}
	copy(pk[:], b)
	return pk
}

func introOf(f []string) (uint32, int32, cipher.PubKey, *daemon.IntroductionMessage) {
	m := &daemon.IntroductionMessage{
		Mirror:          uint32(PU64(f[3])),
		ListenPort:      uint16(PU64(f[4])),
		ProtocolVersion: int32(PI64(f[5])),
		Extra:           PHex(f[6]),
	}
	if len(m.Extra) == 0 {
		m.Extra = nil
	}
	return uint32(PU64(f[0])), int32(PI64(f[1])), pubkeyOf(f[2]), m
}

func execVerify(f []string) string {
	cm, mv, pk, m := introOf(f)
	if err := daemon.VerifIntroVerify(cm, mv, pk, m); err != nil {
		return "err " + ErrName(err, reasons)
	}
	ua := m.UserAgent
	return "ok " + strconv.FormatUint(uint64(m.UnconfirmedVerifyTxn.BurnFactor), 10) + " " +
		strconv.FormatUint(uint64(m.UnconfirmedVerifyTxn.MaxTransactionSize), 10) + " " +
		strconv.FormatUint(uint64(m.UnconfirmedVerifyTxn.MaxDropletPrecision), 10) + " " +
		Hex([]byte(ua.Coin)) + "," + Hex([]byte(ua.Version)) + "," + Hex([]byte(ua.Remark)) + " " + Hex(m.GenesisHash[:])
}

func otherMessage(kind string) gnet.Message {
	switch kind {
	case "getp":
		return &daemon.GetPeersMessage{}
	case "givp":
		return &daemon.GivePeersMessage{}
	case "ping":
		return &daemon.PingMessage{}
	case "disc":
		return &daemon.DisconnectMessage{ReasonCode: 3}
	case "getb":
		return &daemon.GetBlocksMessage{LastBlock: 1, RequestedBlocks: 2}
	case "givb":
		return &daemon.GiveBlocksMessage{Blocks: []coin.SignedBlock{{}}}
	case "annb":
		return &daemon.AnnounceBlocksMessage{MaxBkSeq: 9}
	case "gett":
		return &daemon.GetTxnsMessage{Transactions: []cipher.SHA256{{1}}}
	case "givt":
		return &daemon.GiveTxnsMessage{Transactions: []coin.Transaction{{}}}
	case "annt":
		return &daemon.AnnounceTxnsMessage{Transactions: []cipher.SHA256{{2}}}
	}
	panic("harness: unknown message kind " + kind)
}

func sentNames(rs []gnet.DisconnectReason) string {
	if len(rs) == 0 {
		return "-"
	}
	var s []string
	for _, r := range rs {
		s = append(s, ErrName(r, reasons))
	}
	return strings.Join(s, ",")
}

func execGate(f []string) string {
	state, idMatch, kind := f[0], f[1] == "1", f[2]
	var cm uint32 = 1
	var mv int32
	var pk cipher.PubKey
	var intro *daemon.IntroductionMessage
	if kind == "intr" {
		cm, mv, pk, intro = introOf(f[3:])
	}
	g, err := daemon.VerifNewGate(cm, mv, pk, gateAddr, gateID, state)
	if err != nil {
		panic("harness: gate setup: " + err.Error())
	}
	defer g.Close()
	ctx := uint64(gateID)
	if !idMatch {
		ctx = gateID + 1
	}
	st := func(s string) string {
		if s == "" {
			return "none"
		}
		return s
	}
	switch kind {
	case "spy":
		r := g.OnSpy(ctx)
		if r.Panicked {
			return "panic"
		}
		hit := "0"
		if r.SpyHit {
			hit = "1"
		}
		return "spy=" + hit + " sent=" + sentNames(r.Sent) + " state=" + st(r.StateAfter)
	case "intr":
		r := g.OnMessage(ctx, intro)
		if r.Panicked {
			return "panic"
		}
		return "sent=" + sentNames(r.Sent) + " state=" + st(r.StateAfter)
	}
	r := g.OnMessage(ctx, otherMessage(kind))
	for _, c := range r.Sent {
		if c == daemon.ErrDisconnectNoIntroduction {
			return "blocked=1"
		}
	}
	return "blocked=0"
}

func c25Exec(op string) string {
	f := Fields(op)
	switch f[0] {
	case "verify":
		return execVerify(f[1:])
	case "gate":
		return execGate(f[1:])
	}
	panic("harness: unknown op " + f[0])
}

// ---------------------------------------------------------------------------------------------
// generators
// ---------------------------------------------------------------------------------------------

var validUAs = []string{
	"skycoin:0.26.0", "skycoin:0.26.0(foo)", "Skycoin:1.2.3-rc1", "sky-coin_+:10.20.30-alpha.1+build.5",
	"a:0.0.0", "x:1.2.3+exp.sha.5114f85", "coin:1.0.0-0.3.7", "coin:1.0.0-x.7.z.92", "coin:1.0.0-x-y-z.--",
	"c:18446744073709551615.0.0", "c:1.2.3(a b;c:d!$%,.=?~ _+-)", "c:1.2.3--", "c:1.2.3-a+b-c",
}

var invalidUAs = []string{
	"", "skycoin", "skycoin:", ":0.26.0", "skycoin:0.26", "skycoin:0.26.0()", "skycoin:0.26.0(foo", "skycoin:0.26.0foo)",
	"skycoin:01.2.3", "skycoin:1.02.3", "skycoin:1.2.03", "skycoin:1.2.3-01", "skycoin:1.2.3-", "skycoin:1.2.3+", "skycoin:1.2.3-a..b",
	"skycoin:1.2.3+a..b", "skycoin:1.2.3+a+b", "skycoin:1.2.3.4", "skycoin:1.2.3a", "skycoin:18446744073709551616.0.0",
	"skycoin:1.2.3-18446744073709551616", "sky coin:1.2.3", "skycoin:1.2.3 ", " skycoin:1.2.3", "skycoin:1.2.3(a)(b)", "skycoin:1.2.3(a(b)",
	"skycoin:1.2.3(é)", "sky:coin:1.2.3", "skycoin:1.2.3(a_b)x", "skycoin:a.b.c", "skycoin:1..3", "skycoin:.1.3", "skycoin:1.2.",
	"skycoin:1.2.3-a_b", "skycoin:1.2.3(a\tb)",
}

// strings that only become valid (or stay invalid) after Sanitize removed bytes
var sanitizedUAs = []string{
	"sky<coin:1.2.3", "skycoin:1.2.3\x00", "\xffskycoin:1.2.3", "skyécoin:1.2.3", "skycoin:1.2.3(a|b)", "skycoin:1.2.3('x')",
	"skycoin:1.`2`.3", "<>&\"'#@|{}`", "skycoin:1.2.3\x7f", "sky\ncoin:1.2.3", "skycoin:1.{2}.3",
}

func uaChars(r *Rng, n int) string {
	const cs = "abzAZ019-_+;:!$%,.=?~ ()<>&|{}\x00\x7f\xff.::((.))"
	b := make([]byte, n)
	for i := range b {
		b[i] = cs[r.Intn(len(cs))]
	}
	return string(b)
}

func randomValidUA(r *Rng) string {
	num := func() string {
		switch r.Intn(4) {
		case 0:
			return "0"
		case 1:
			return strconv.Itoa(r.Intn(100))
		case 2:
			return "18446744073709551615"
		}
		return strconv.Itoa(1 + r.Intn(9))
	}
	id := func(set string) string {
		n := r.Range(1, 5)
		b := make([]byte, n)
		for i := range b {
			b[i] = set[r.Intn(len(set))]
		}
		return string(b)
	}
	s := id("abcXYZ019-_+") + ":" + num() + "." + num() + "." + num()
	if r.Chance(40) {
		parts := []string{}
		for k := r.Range(1, 3); k > 0; k-- {
			if r.Bool() {
				parts = append(parts, num())
			} else {
				parts = append(parts, id("abcXYZ-")+id("abc019-"))
			}
		}
		s += "-" + strings.Join(parts, ".")
	}
	if r.Chance(30) {
		parts := []string{}
		for k := r.Range(1, 3); k > 0; k-- {
			parts = append(parts, id("abcXYZ019-"))
		}
		s += "+" + strings.Join(parts, ".")
	}
	if r.Chance(40) {
		s += "(" + id("abcXYZ019-_+;:!$%,.=?~ ") + ")"
	}
	return s
}

func extraOf(pk []byte, burn, maxSize uint32, prec uint8, ua string, tail []byte) []byte {
	e := append([]byte{}, pk...)
	e = append(e, encoder.Serialize(params.VerifyTxn{BurnFactor: burn, MaxTransactionSize: maxSize, MaxDropletPrecision: prec})...)
	e = append(e, encoder.SerializeString(ua)...)
	return append(e, tail...)
}

func c25Gen(r *Rng, tier string, emit func(string)) {
	n := 5000
	if tier == "thorough" {
		n = 200000
	}
	pk := r.Bytes(33)
	pk[0] = 2
	pkHex := hex.EncodeToString(pk)
	cfg := func(mirror uint32, minVer int32) string {
		return strconv.FormatUint(uint64(mirror), 10) + " " + strconv.Itoa(int(minVer)) + " " + pkHex
	}
	verify := func(c string, mirror uint32, port uint16, ver int32, extra []byte) string {
		return c + " " + strconv.FormatUint(uint64(mirror), 10) + " " + strconv.Itoa(int(port)) + " " + strconv.Itoa(int(ver)) + " " + Hex(extra)
	}
	emitV := func(c string, mirror uint32, port uint16, ver int32, extra []byte) {
		emit("verify " + verify(c, mirror, port, ver, extra))
	}
	gen32 := r.Bytes(32)
	base := cfg(1111, 24)
	good := extraOf(pk, 10, 32768, 3, "skycoin:0.26.0(x)", gen32)

	// 1. the user-agent tables, each with and without genesis hash
	for _, tbl := range [][]string{validUAs, invalidUAs, sanitizedUAs} {
		for _, ua := range tbl {
			emitV(base, 5, 6000, 25, extraOf(pk, 10, 32768, 3, ua, gen32))
			emitV(base, 5, 6000, 25, extraOf(pk, 10, 32768, 3, ua, nil))
		}
	}
	// 2. every truncation and every extension by 0..33 bytes of a good extra
	for k := 0; k <= len(good); k++ {
		emitV(base, 5, 6000, 25, good[:k])
	}
	noGen := extraOf(pk, 10, 32768, 3, "skycoin:0.26.0", nil)
	for k := 0; k <= 34; k++ {
		emitV(base, 5, 6000, 25, append(append([]byte{}, noGen...), r.Bytes(k)...))
	}
	// 3. rule order: each single violation and all pairs of violations
	type viol func(mirror *uint32, ver *int32, e *[]byte)
	viols := []viol{
		func(m *uint32, v *int32, e *[]byte) { *m = 1111 },
		func(m *uint32, v *int32, e *[]byte) { *v = 23 },
		func(m *uint32, v *int32, e *[]byte) { *e = nil },
		func(m *uint32, v *int32, e *[]byte) { *e = (*e)[:20] },
		func(m *uint32, v *int32, e *[]byte) { x := append([]byte{}, *e...); x[5] ^= 1; *e = x },
		func(m *uint32, v *int32, e *[]byte) { *e = (*e)[:40] },
		func(m *uint32, v *int32, e *[]byte) { x := append([]byte{}, *e...); x[33], x[34], x[35], x[36] = 1, 0, 0, 0; *e = x },
		func(m *uint32, v *int32, e *[]byte) { x := append([]byte{}, *e...); x[37], x[38], x[39], x[40] = 255, 3, 0, 0; *e = x },
		func(m *uint32, v *int32, e *[]byte) { x := append([]byte{}, *e...); x[41] = 7; *e = x },
		func(m *uint32, v *int32, e *[]byte) { x := append([]byte{}, *e...); x[42], x[43] = 1, 1; *e = x },
		func(m *uint32, v *int32, e *[]byte) { x := append([]byte{}, *e...); x[46] = ':'; *e = x },
		func(m *uint32, v *int32, e *[]byte) { *e = (*e)[:len(*e)-1] },
	}
	for i := range viols {
		for j := i; j < len(viols); j++ {
			m, v, e := uint32(5), int32(25), append([]byte{}, good...)
			viols[i](&m, &v, &e)
			if len(e) >= 47 || j < 4 {
				func() {
					defer func() { recover() }() //nolint:errcheck
					viols[j](&m, &v, &e)
				}()
			}
			emitV(base, m, 6000, v, e)
		}
	}
	// 4. parameter boundaries
	for _, burn := range []uint32{0, 1, 2, 3, 1<<32 - 1} {
		for _, ms := range []uint32{0, 1023, 1024, 1025, 1<<32 - 1} {
			for _, pr := range []uint8{0, 6, 7, 255} {
				emitV(base, 5, 6000, 25, extraOf(pk, burn, ms, pr, "skycoin:0.26.0", nil))
			}
		}
	}
	for _, ver := range []int32{-1 << 31, -1, 0, 23, 24, 25, 1<<31 - 1} {
		for _, mv := range []int32{-1 << 31, 0, 24, 1<<31 - 1} {
			emitV(cfg(1111, mv), 5, 6000, ver, good)
		}
	}
	// 4b. the header-only rules (self connection, version) against every listen port boundary and Extra shape:
	// they must fire whatever else the message carries
	for _, port := range []uint16{0, 1, 1023, 1024, 6000, 65535} {
		for _, e := range [][]byte{nil, good[:10], good[:33], good[:42], good, noGen} {
			emitV(base, 1111, port, 25, e)
			emitV(base, 5, port, 23, e)
			emitV(base, 1111, port, 23, e)
			emitV(base, 5, port, 25, e)
			emitV(cfg(0, 0), 0, port, 0, e)
			emitV(cfg(1<<32-1, 1<<31-1), 1<<32-1, port, 1<<31-1, e)
		}
	}
	// 5. user agent length around maxlen=256 (the remark is padded)
	for _, l := range []int{255, 256, 257, 300} {
		ua := "skycoin:0.26.0(" + strings.Repeat("a", l-16) + ")"
		emitV(base, 5, 6000, 25, extraOf(pk, 10, 32768, 3, ua, gen32))
		// the same bytes with illegal characters in excess: raw length > 256 is refused before Sanitize
		emitV(base, 5, 6000, 25, extraOf(pk, 10, 32768, 3, ua[:l-5]+"<<<<"+")", nil))
	}
	// 6. random
	for i := 0; i < n; i++ {
		mirror, ver := uint32(5), int32(25)
		if r.Chance(5) {
			mirror = 1111
		}
		if r.Chance(5) {
			ver = int32(r.Range(-3, 24))
		}
		var ua string
		switch r.Intn(5) {
		case 0:
			ua = validUAs[r.Intn(len(validUAs))]
		case 1, 2:
			ua = randomValidUA(r)
		case 3:
			b := []byte(randomValidUA(r))
			switch r.Intn(3) {
			case 0:
				b[r.Intn(len(b))] = uaChars(r, 1)[0]
			case 1:
				p := r.Intn(len(b) + 1)
				b = append(b[:p], append([]byte(uaChars(r, 1)), b[p:]...)...)
			default:
				p := r.Intn(len(b))
				b = append(b[:p], b[p+1:]...)
			}
			ua = string(b)
		default:
			ua = uaChars(r, r.Intn(20))
		}
		burn, ms, pr := uint32(r.Range(0, 12)), uint32(r.Range(1000, 40000)), uint8(r.Range(0, 8))
		if r.Chance(30) {
			burn, ms = uint32(r.Range(2, 12)), uint32(r.Range(1020, 1028))
		}
		var tail []byte
		switch r.Intn(4) {
		case 0:
		case 1:
			tail = r.Bytes(32)
		case 2:
			tail = r.Bytes(r.Range(1, 40))
		default:
			tail = r.Bytes(r.Range(30, 34))
		}
		e := extraOf(pk, burn, ms, pr, ua, tail)
		switch r.Intn(8) {
		case 0:
			e = e[:r.Intn(len(e)+1)]
		case 1:
			e[r.Intn(len(e))] ^= 1 << uint(r.Intn(8))
		case 2: // the string length prefix
			if len(e) >= 46 {
				x := []uint32{0, 1, uint32(len(ua)) + 1, 256, 257, 1 << 31, 1<<32 - 1}
				v := x[r.Intn(len(x))]
				e[42], e[43], e[44], e[45] = byte(v), byte(v>>8), byte(v>>16), byte(v>>24)
			}
		case 3:
			e = r.Bytes(r.Intn(120))
		}
		port := uint16(r.Range(0, 65535))
		if r.Chance(30) {
			port = []uint16{0, 1, 1023, 1024, 65535}[r.Intn(5)]
		}
		emitV(base, mirror, port, ver, e)
	}

	// 7. the gate: every state x id match x every kind; introductions that pass / fail Verify
	kinds := []string{"spy", "getp", "givp", "ping", "disc", "getb", "givb", "annb", "gett", "givt", "annt"}
	for _, st := range []string{"none", "pending", "connected", "introduced"} {
		for _, idm := range []string{"1", "0"} {
			for _, k := range kinds {
				emit("gate " + st + " " + idm + " " + k)
			}
			intros := [][]byte{good, noGen, nil, good[:40], extraOf(pk, 1, 32768, 3, "skycoin:0.26.0", nil),
				extraOf(pk, 10, 32768, 3, "skycoin:0.26", nil), append(append([]byte{}, good...), 1, 2, 3)}
			for _, e := range intros {
				emit("gate " + st + " " + idm + " intr " + verify(base, 5, 6000, 25, e))
			}
			emit("gate " + st + " " + idm + " intr " + verify(base, 1111, 6000, 25, good))
			emit("gate " + st + " " + idm + " intr " + verify(base, 5, 6000, 23, good))
		}
	}
	gn := 40
	if tier == "thorough" {
		gn = 1500
	}
	states := []string{"none", "pending", "connected", "connected", "connected", "introduced"}
	for i := 0; i < gn; i++ {
		st := states[r.Intn(len(states))]
		idm := "1"
		if r.Chance(15) {
			idm = "0"
		}
		e := extraOf(pk, uint32(r.Range(1, 4)), uint32(r.Range(1020, 1030)), uint8(r.Range(5, 7)), randomValidUA(r), nil)
		if r.Chance(20) {
			e = e[:r.Intn(len(e)+1)]
		}
		emit("gate " + st + " " + idm + " intr " + verify(base, uint32(1110+r.Intn(3)), 6000, int32(r.Range(23, 26)), e))
	}
}

func main() { Main(&Prop{Gen: c25Gen, Exec: c25Exec}) }
