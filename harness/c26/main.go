package main

// C26: peer list validity and bound.  Real code: pex.Pex (AddPeer / AddPeers / RemovePeer / setTrusted /
// IncreaseRetryTimes / ResetRetryTimes / ResetAllRetryTimes / SetHasIncomingPort / the ClearOld tick) and
// validateAddress, through src/daemon/pex/pex_verif.go.
//
// Clock: the code calls time.Now() directly.  Every case is executed within ONE wall-clock second B
// (if the second changes while an op runs, the whole case is rebuilt under the new second and the op
// redone), times are printed as ages B-LastSeen, and "advance d" moves every LastSeen d seconds back,
// which is observationally the clock advancing by d (the code only uses clock-LastSeen differences).
// Shuffle: "addpeers <seed> …" seeds math/rand's global source; the harness replays the same
// rand.Shuffle on an index vector and reports the permutation (p=…) so the model can apply it.
// Eviction victim (Go map iteration order among ties): reported as v=….
//
// ops (addresses hex-encoded, "-" = empty):
//   validate <allow> <addr>
//   reset <max> <allowLocalhost> <expirationSeconds> <clearDisabled>
//   addpeer <addr> | addpeers <seed> <addr,addr,…|-> | remove <addr> | trust <addr> | incretry <addr>
//   resetretry <addr> | resetall | incoming <addr> <0|1> | clearold | advance <seconds>
// output: result[|hint]|addr,age,trusted,incoming,retry;…  (sorted by addr)

import (
	"math/rand"
	"sort"
	"strconv"
	"strings"
	"time"

	. "verif/harness/hlib"

	"github.com/skycoin/skycoin/src/daemon/pex"
)

var errNames = map[error]string{
	pex.ErrPeerlistFull:       "ErrPeerlistFull",
	pex.ErrInvalidAddress:     "ErrInvalidAddress",
	pex.ErrNoLocalhost:        "ErrNoLocalhost",
	pex.ErrNotExternalIP:      "ErrNotExternalIP",
	pex.ErrPortTooLow:         "ErrPortTooLow",
	pex.ErrBlacklistedAddress: "ErrBlacklistedAddress",
}

type runner struct {
	px      *pex.Pex
	cfg     pex.Config
	base    int64
	caseOps []string // ops of the current case after its reset line
	resetOp string
}

func plain(a string) bool {
	if a == "" {
		return false
	}
	for i := 0; i < len(a); i++ {
		c := a[i]
		if !(c >= '0' && c <= '9' || c == '.' || c == ':') {
			return false
		}
	}
	return true
}

func showAddr(a string) string {
	if plain(a) {
		return a
	}
	return "x" + Hex([]byte(a))
}

func (r *runner) dump() string {
	ps := r.px.VerifPeers()
	var sb strings.Builder
	for i, p := range ps {
		if i > 0 {
			sb.WriteByte(';')
		}
		sb.WriteString(showAddr(p.Addr))
		sb.WriteByte(',')
		sb.WriteString(strconv.FormatInt(r.base-p.LastSeen, 10))
		sb.WriteString(b01(p.Trusted))
		sb.WriteString(b01(p.HasIncomingPort))
		sb.WriteByte(',')
		sb.WriteString(strconv.Itoa(p.RetryTimes))
	}
	return sb.String()
}

func b01(b bool) string {
	if b {
		return ",1"
	}
	return ",0"
}

func res(err error) string {
	if err != nil {
		return "err " + ErrName(err, errNames)
	}
	return "ok"
}

func (r *runner) newPex(f []string) {
	cfg := pex.NewConfig()
	cfg.Max = int(PI64(f[1]))
	cfg.AllowLocalhost = f[2] == "1"
	cfg.Expiration = time.Duration(PI64(f[3])) * time.Second
	cfg.NetworkDisabled = f[4] == "1"
	r.cfg = cfg
	r.px = pex.VerifNewBare(cfg)
}

func addrsOf(ps []pex.Peer) map[string]bool {
	m := make(map[string]bool, len(ps))
	for _, p := range ps {
		m[p.Addr] = true
	}
	return m
}

// apply runs one op against r.px and returns result[|hint]  (without the dump)
func (r *runner) apply(op string) string {
	f := strings.Split(op, " ")
	switch f[0] {
	case "addpeer":
		before := r.px.VerifPeers()
		err := r.px.AddPeer(string(PHex(f[1])))
		after := addrsOf(r.px.VerifPeers())
		var gone []string
		for _, p := range before {
			if !after[p.Addr] {
				gone = append(gone, showAddr(p.Addr))
			}
		}
		v := "-"
		if len(gone) == 1 {
			v = gone[0]
		} else if len(gone) > 1 {
			v = "many"
		}
		return res(err) + "|v=" + v
	case "addpeers":
		seed := PI64(f[1])
		var addrs []string
		if f[2] != "-" {
			for _, h := range strings.Split(f[2], ",") {
				addrs = append(addrs, string(PHex(h)))
			}
		}
		perm := "-"
		if !r.px.IsFull() {
			n := 0
			for _, a := range addrs {
				if _, err := pex.VerifValidateAddress(a, r.cfg.AllowLocalhost); err == nil {
					n++
				}
			}
			idx := make([]int, n)
			for i := range idx {
				idx[i] = i
			}
			rand.Seed(seed) //nolint:staticcheck
			rand.Shuffle(n, func(i, j int) { idx[i], idx[j] = idx[j], idx[i] })
			if n > 0 {
				s := make([]string, n)
				for i, v := range idx {
					s[i] = strconv.Itoa(v)
				}
				perm = strings.Join(s, ",")
			}
		}
		rand.Seed(seed) //nolint:staticcheck
		n := r.px.AddPeers(addrs)
		return "ok " + strconv.Itoa(n) + "|p=" + perm
	case "remove":
		r.px.RemovePeer(string(PHex(f[1])))
		return "ok"
	case "trust":
		return res(r.px.VerifSetTrusted(string(PHex(f[1]))))
	case "incretry":
		r.px.IncreaseRetryTimes(string(PHex(f[1])))
		return "ok"
	case "resetretry":
		r.px.ResetRetryTimes(string(PHex(f[1])))
		return "ok"
	case "resetall":
		r.px.ResetAllRetryTimes()
		return "ok"
	case "incoming":
		return res(r.px.SetHasIncomingPort(string(PHex(f[1])), f[2] == "1"))
	case "clearold":
		r.px.VerifClearOld()
		return "ok"
	case "advance":
		r.px.VerifShiftLastSeen(PI64(f[1]))
		return "ok"
	}
	panic("harness: unknown op " + f[0])
}

// rebuild re-creates the state of the current case under the current wall-clock second
func (r *runner) rebuild() {
	for {
		// do not start within the last 5 ms of a second
		if ns := time.Now().Nanosecond(); ns > 995000000 {
			time.Sleep(time.Duration(1000000000-ns) * time.Nanosecond)
		}
		r.base = time.Now().Unix()
		r.newPex(strings.Split(r.resetOp, " "))
		for _, op := range r.caseOps {
			r.apply(op)
		}
		if time.Now().Unix() == r.base {
			return
		}
	}
}

func (r *runner) exec(op string) string {
	f := strings.Split(op, " ")
	switch f[0] {
	case "validate":
		a, err := pex.VerifValidateAddress(string(PHex(f[2])), f[1] == "1")
		if err != nil {
			return "err " + ErrName(err, errNames)
		}
		return "ok " + Hex([]byte(a))
	case "reset":
		r.resetOp = op
		r.caseOps = nil
		r.rebuild()
		return "ok|"
	}
	if r.px == nil {
		panic("harness: op before reset")
	}
	for {
		if time.Now().Unix() != r.base {
			r.rebuild()
		}
		out := r.apply(op)
		d := r.dump()
		if time.Now().Unix() == r.base {
			r.caseOps = append(r.caseOps, op)
			return out + "|" + d
		}
		// the clock ticked while the op ran: LastSeen values may straddle two seconds; redo
		r.rebuild()
	}
}

// ---------------------------------------------------------------------------------------------
// generator

func hx(s string) string { return Hex([]byte(s)) }

var okIPs = []string{"1.2.3.4", "8.8.8.8", "10.0.0.1", "192.168.1.1", "223.255.255.254", "100.64.0.1", "240.0.0.1",
	"0.0.0.1", "1.0.0.0", "169.253.255.255", "169.255.0.0", "126.255.255.255", "128.0.0.0", "255.255.255.254", "223.0.0.9"}
var loopIPs = []string{"127.0.0.1", "127.255.0.9", "127.0.0.0"}
var badIPs = []string{"0.0.0.0", "255.255.255.255", "224.0.0.1", "239.255.255.255", "169.254.1.1", "169.254.0.0",
	"01.2.3.4", "1.2.3.04", "1.2.3", "1.2.3.4.5", "1..3.4", ".1.2.3", "1.2.3.", "256.1.1.1", "1.2.3.256", "1.2.3.1000", "00.0.0.1",
	"::1", "[::1]", "localhost", "1.2.3.4%eth0", "0x1.2.3.4", "1.2.3.-4", "1.2.3.4a", "a.b.c.d", "", ".", "...", "1.2.3.4.", "１.2.3.4",
	"::ffff:1.2.3.4", "1,2,3,4", "1.2.3.+4", "1e1.2.3.4", "0000.0.0.1", "1.2.3.0004"}
var okPorts = []string{"1024", "6000", "65535", "01024", "006000", "0000000000000000000065535", "1025", "9999"}
var badPorts = []string{"0", "1023", "65536", "+6000", "080", "", "1e3", "１０２４", "-1", "99999999999999999999999", "0x400", "6000 ",
	"60_00", "6000a", "01023", "999", "1", "100000", "6000.0", "4294968320"}
var wsBytes = []string{" ", "\t", "\n", "\r", "\f", "\v", " ", " ", "\u0085", "\x00", "\x1c", "　", "​"}

func pick(r *Rng, l []string) string { return l[r.Intn(len(l))] }

func inject(r *Rng, s string) string {
	n := r.Range(1, 3)
	for i := 0; i < n; i++ {
		pos := r.Intn(len(s) + 1)
		s = s[:pos] + pick(r, wsBytes) + s[pos:]
	}
	return s
}

// genAddr returns an address string; kind tells roughly what it is (for steering only)
func genAddr(r *Rng) string {
	switch k := r.Intn(100); {
	case k < 55:
		return pick(r, okIPs) + ":" + pick(r, okPorts)
	case k < 62:
		return pick(r, loopIPs) + ":" + pick(r, okPorts)
	case k < 70:
		return pick(r, badIPs) + ":" + pick(r, okPorts)
	case k < 78:
		return pick(r, okIPs) + ":" + pick(r, badPorts)
	case k < 86:
		base := pick(r, okIPs) + ":" + pick(r, okPorts)
		if r.Chance(30) {
			base = pick(r, append(badIPs, loopIPs...)) + ":" + pick(r, append(badPorts, okPorts...))
		}
		return inject(r, base)
	case k < 90:
		return pick(r, okIPs) + pick(r, []string{"", "::", ":6000:", ":6000:1", ";6000", " 6000"}) + pick(r, []string{"", "6000"})
	case k < 95:
		// random octets / port around the boundaries
		o := func() string { return strconv.Itoa(r.Intn(258)) }
		p := []int{0, 1, 1023, 1024, 1025, 65534, 65535, 65536, 70000}[r.Intn(9)]
		return o() + "." + o() + "." + o() + "." + o() + ":" + strconv.Itoa(p)
	default:
		return string(r.Bytes(r.Intn(12)))
	}
}

func smallPool(r *Rng, n int) []string {
	// a small pool of mostly valid addresses so that operations hit existing peers
	var l []string
	for len(l) < n {
		a := pick(r, okIPs) + ":" + pick(r, okPorts[:3])
		if r.Chance(10) {
			a = pick(r, loopIPs) + ":6000"
		}
		l = append(l, a)
	}
	return l
}

func c26Gen(r *Rng, tier string, emit func(string)) {
	nValidate, nCases := 6000, 900
	if tier == "thorough" {
		nValidate, nCases = 200000, 30000
	}
	// 1. validateAddress alone: the full product of the hand-picked tables, then the grammar
	for _, allow := range []string{"0", "1"} {
		for _, ip := range append(append(append([]string{}, okIPs...), loopIPs...), badIPs...) {
			for _, p := range append(append([]string{}, okPorts[:4]...), badPorts...) {
				emit("validate " + allow + " " + hx(ip+":"+p))
			}
		}
		for _, w := range wsBytes {
			emit("validate " + allow + " " + hx("1.2."+w+"3.4:60"+w+"00"))
			emit("validate " + allow + " " + hx(w+"127.0.0.1:6000"+w))
		}
	}
	for i := 0; i < nValidate; i++ {
		emit("validate " + strconv.Itoa(r.Intn(2)) + " " + hx(genAddr(r)))
	}
	// 2. stateful cases
	for i := 0; i < nCases; i++ {
		max := []int{0, 1, 2, 3, 5, 8, -1}[r.Intn(7)]
		exp := []int{5000, 86400, 604800}[r.Intn(3)]
		dis := 0
		if r.Chance(5) {
			dis = 1
		}
		emit("reset " + strconv.Itoa(max) + " " + strconv.Itoa(r.Intn(2)) + " " + strconv.Itoa(exp) + " " + strconv.Itoa(dis))
		pool := smallPool(r, r.Range(2, 12))
		addr := func() string {
			if r.Chance(80) {
				return pick(r, pool)
			}
			return genAddr(r)
		}
		if max > 0 && r.Chance(25) {
			// eviction pressure: a FULL list whose peers were all seen in the same second (ties on LastSeen), some of
			// them trusted, with retry counters that differ between trusted and untrusted peers; a day later new
			// addresses arrive one at a time.  Whatever tie-break the eviction uses, the victim must be untrusted.
			for q := 0; q < 2*max+2; q++ {
				emit("addpeer " + hx(pick(r, pool)))
			}
			for q, m := 0, r.Range(1, max); q < m; q++ {
				a := pick(r, pool)
				emit("trust " + hx(a))
				for c, mc := 0, r.Intn(4); c < mc; c++ {
					emit("incretry " + hx(a))
				}
			}
			if r.Chance(50) {
				emit("incretry " + hx(pick(r, pool)))
			}
			emit("advance " + strconv.Itoa([]int{86400, 86401, 90000, 86399}[r.Intn(4)]))
			for q, m := 0, r.Range(2, 5); q < m; q++ {
				emit("addpeer " + hx(pick(r, okIPs)+":"+pick(r, okPorts[:3])))
			}
		}
		n := r.Range(1, 40)
		for j := 0; j < n; j++ {
			switch k := r.Intn(100); {
			case k < 30:
				emit("addpeer " + hx(addr()))
			case k < 45:
				m := r.Intn(13)
				var l []string
				for q := 0; q < m; q++ {
					l = append(l, hx(addr()))
				}
				s := "-"
				if m > 0 {
					s = strings.Join(l, ",")
				}
				emit("addpeers " + strconv.Itoa(r.Intn(1000000)) + " " + s)
			case k < 52:
				emit("remove " + hx(addr()))
			case k < 62:
				emit("trust " + hx(addr()))
			case k < 64:
				// a peer that stays unreachable: its retry counter runs up to and past every threshold the code
				// knows (MaxPeerRetryTimes = 10), possibly a trusted one, and then the clean-up tick runs
				a := addr()
				if r.Chance(50) {
					emit("trust " + hx(a))
				}
				for q, m := 0, r.Range(9, 14); q < m; q++ {
					emit("incretry " + hx(a))
				}
				emit("clearold")
				if r.Chance(50) {
					emit("advance " + strconv.Itoa(exp+1))
					emit("clearold")
				}
			case k < 66:
				emit("incretry " + hx(addr()))
			case k < 69:
				emit("resetretry " + hx(addr()))
			case k < 71:
				emit("resetall")
			case k < 75:
				emit("incoming " + hx(addr()) + " " + strconv.Itoa(r.Intn(2)))
			case k < 85:
				emit("clearold")
			default:
				ds := []int{0, 1, 1000, 86399, 86400, 86401, exp - 1, exp, exp + 1, 700000, 43200}
				emit("advance " + strconv.Itoa(ds[r.Intn(len(ds))]))
			}
		}
	}
	_ = sort.Strings
}

func main() {
	r := &runner{}
	Main(&Prop{Gen: c26Gen, Exec: r.exec})
}
