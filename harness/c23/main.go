package main

// C23: outgoing peer messages fit the size limit.  Real code: daemon.New{GiveBlocks,GiveTxns,GivePeers,
// AnnounceTxns,GetTxns}Message (+ the truncate* functions they call), gnet.EncodeMessage and gnet's
// sendMessage (through src/daemon/messages_truncate_verif.go, src/daemon/gnet/send_verif.go).
//
// ops:
//   blocks <max> <t,t,…|->        one block per number: a block with t transactions (txn j has 1+j%3 inputs/outputs)
//   txns <max> <i.o,i.o,…|->      one transaction per entry with i inputs/signatures and o outputs
//   peers <max> <n> <inv>         n peers 10.a.b.c:6000+…; peer i has an unusable address iff inv>0 && i%inv==inv-1
//   announce <max> <n> | gettxns <max> <n>      n hashes
//   slice <len> <elem> <maxLength>              truncateSHA256Slice on len hashes (elem is always 32; echoed)
// output: sizes=<encoded size of every candidate item>|hdr=<size of the empty message>[|elem=<item size>]
//         |k=<items in the message>|wire=<len(gnet.EncodeMessage)>|prefix=<items are the first k candidates>
//         |send=<ok|toolong|err>           or  …|panic

import (
	"fmt"
	"net"
	"strconv"
	"strings"
	"time"

	. "verif/harness/hlib"

	"github.com/skycoin/skycoin/src/cipher"
	"github.com/skycoin/skycoin/src/coin"
	"github.com/skycoin/skycoin/src/daemon"
	"github.com/skycoin/skycoin/src/daemon/gnet"
	"github.com/skycoin/skycoin/src/daemon/pex"
)

// sink is a net.Conn that accepts everything
type sink struct{}

func (sink) Read(b []byte) (int, error)         { return 0, nil }
func (sink) Write(b []byte) (int, error)        { return len(b), nil }
func (sink) Close() error                       { return nil }
func (sink) LocalAddr() net.Addr                { return nil }
func (sink) RemoteAddr() net.Addr               { return nil }
func (sink) SetDeadline(t time.Time) error      { return nil }
func (sink) SetReadDeadline(t time.Time) error  { return nil }
func (sink) SetWriteDeadline(t time.Time) error { return nil }

func mkTxn(ins, outs int, marker uint32) coin.Transaction {
	t := coin.Transaction{Length: marker}
	for i := 0; i < ins; i++ {
		t.Sigs = append(t.Sigs, cipher.Sig{})
		t.In = append(t.In, cipher.SHA256{byte(i)})
	}
	for i := 0; i < outs; i++ {
		t.Out = append(t.Out, coin.TransactionOutput{Coins: uint64(i)})
	}
	return t
}

// csv prints sizes run-length encoded: v*n for n consecutive items of size v
func csv(v []uint64) string {
	if len(v) == 0 {
		return "-"
	}
	var s []string
	for i := 0; i < len(v); {
		j := i
		for j < len(v) && v[j] == v[i] {
			j++
		}
		if j-i > 1 {
			s = append(s, strconv.FormatUint(v[i], 10)+"*"+strconv.Itoa(j-i))
		} else {
			s = append(s, strconv.FormatUint(v[i], 10))
		}
		i = j
	}
	return strings.Join(s, ",")
}

func sendVerdict(m gnet.Message, max uint64) string {
	if max > 1<<31 {
		max = 1 << 31
	}
	err := gnet.VerifSendMessage(sink{}, m, 0, int(max))
	switch err {
	case nil:
		return "ok"
	case gnet.ErrMsgExceedsMaxLen:
		return "toolong"
	}
	return "err"
}

func wire(m gnet.Serializer) int {
	b, err := gnet.EncodeMessage(m)
	if err != nil {
		return -1
	}
	return len(b)
}

func tail(k int, w int, prefix bool, send string) string {
	p := "0"
	if prefix {
		p = "1"
	}
	return fmt.Sprintf("|k=%d|wire=%d|prefix=%s|send=%s", k, w, p, send)
}

// guarded runs f; a Go panic becomes the tail "|panic"
func guarded(f func() string) (out string) {
	defer func() {
		if r := recover(); r != nil {
			if s, ok := r.(string); ok && strings.HasPrefix(s, "harness:") {
				panic(r)
			}
			out = "|panic"
		}
	}()
	return f()
}

func c23Exec(op string) string {
	f := strings.Split(op, " ")
	switch f[0] {
	case "slice":
		n := int(PU64(f[1]))
		hs := make([]cipher.SHA256, n)
		r := daemon.VerifTruncateSHA256Slice(hs, PU64(f[3]))
		return "ok " + strconv.Itoa(len(r))
	}
	max := PU64(f[1])
	switch f[0] {
	case "blocks":
		var blocks []coin.SignedBlock
		var sizes []uint64
		if f[2] != "-" {
			for i, s := range strings.Split(f[2], ",") {
				nt := int(PU64(s))
				b := coin.SignedBlock{}
				b.Head.BkSeq = uint64(i)
				for j := 0; j < nt; j++ {
					b.Body.Transactions = append(b.Body.Transactions, mkTxn(1+j%3, 1+j%3, uint32(j)))
				}
				blocks = append(blocks, b)
				sizes = append(sizes, daemon.VerifEncodeSizeSignedBlock(&b))
			}
		}
		hdr := (&daemon.GiveBlocksMessage{}).EncodeSize()
		return "sizes=" + csv(sizes) + "|hdr=" + strconv.FormatUint(hdr, 10) + guarded(func() string {
			m := daemon.NewGiveBlocksMessage(blocks, max)
			ok := true
			for i, b := range m.Blocks {
				if b.Head.BkSeq != uint64(i) || len(b.Body.Transactions) != len(blocks[i].Body.Transactions) {
					ok = false
				}
			}
			return tail(len(m.Blocks), wire(m), ok, sendVerdict(m, max))
		})
	case "txns":
		var txns []coin.Transaction
		var sizes []uint64
		if f[2] != "-" {
			for i, s := range strings.Split(f[2], ",") {
				io := strings.Split(s, ".")
				t := mkTxn(int(PU64(io[0])), int(PU64(io[1])), uint32(i))
				txns = append(txns, t)
				sizes = append(sizes, daemon.VerifEncodeSizeTransaction(&t))
			}
		}
		hdr := (&daemon.GiveTxnsMessage{}).EncodeSize()
		return "sizes=" + csv(sizes) + "|hdr=" + strconv.FormatUint(hdr, 10) + guarded(func() string {
			m := daemon.NewGiveTxnsMessage(txns, max)
			ok := true
			for i, t := range m.Transactions {
				if t.Length != uint32(i) || len(t.In) != len(txns[i].In) || len(t.Out) != len(txns[i].Out) {
					ok = false
				}
			}
			return tail(len(m.Transactions), wire(m), ok, sendVerdict(m, max))
		})
	case "peers":
		n := int(PU64(f[2]))
		inv := int(PU64(f[3]))
		peers := make([]pex.Peer, n)
		var want []daemon.IPAddr // the usable ones among the first 512, in order
		for i := range peers {
			addr := fmt.Sprintf("10.%d.%d.%d:%d", (i>>16)&255, (i>>8)&255, i&255, 6000+i%1000)
			if inv > 0 && i%inv == inv-1 {
				switch i % 3 {
				case 0:
					addr = "[::1]:6000"
				case 1:
					addr = "not-an-address"
				default:
					addr = "10.0.0.1"
				}
			} else if i < 512 {
				a, err := daemon.NewIPAddr(addr)
				if err != nil {
					panic("harness: NewIPAddr failed on " + addr)
				}
				want = append(want, a)
			}
			peers[i] = pex.Peer{Addr: addr}
		}
		hdr := (&daemon.GivePeersMessage{}).EncodeSize()
		elem := daemon.VerifEncodeSizeIPAddr(&daemon.IPAddr{})
		return "hdr=" + strconv.FormatUint(hdr, 10) + "|elem=" + strconv.FormatUint(elem, 10) + guarded(func() string {
			m := daemon.NewGivePeersMessage(peers, max)
			ok := len(m.Peers) <= len(want)
			for i, p := range m.Peers {
				if i < len(want) && p != want[i] {
					ok = false
				}
			}
			return tail(len(m.Peers), wire(m), ok, sendVerdict(m, max))
		})
	case "announce", "gettxns":
		n := int(PU64(f[2]))
		hs := make([]cipher.SHA256, n)
		sizes := make([]uint64, n)
		for i := range hs {
			hs[i][0], hs[i][1], hs[i][2] = byte(i), byte(i>>8), byte(i>>16)
			sizes[i] = uint64(len(hs[i]))
		}
		check := func(got []cipher.SHA256) bool {
			for i, h := range got {
				if i >= len(hs) || h != hs[i] {
					return false
				}
			}
			return true
		}
		if f[0] == "announce" {
			hdr := (&daemon.AnnounceTxnsMessage{}).EncodeSize()
			return "sizes=" + csv(sizes) + "|hdr=" + strconv.FormatUint(hdr, 10) + guarded(func() string {
				m := daemon.NewAnnounceTxnsMessage(hs, max)
				return tail(len(m.Transactions), wire(m), check(m.Transactions), sendVerdict(m, max))
			})
		}
		hdr := (&daemon.GetTxnsMessage{}).EncodeSize()
		return "sizes=" + csv(sizes) + "|hdr=" + strconv.FormatUint(hdr, 10) + guarded(func() string {
			m := daemon.NewGetTxnsMessage(hs, max)
			return tail(len(m.Transactions), wire(m), check(m.Transactions), sendVerdict(m, max))
		})
	}
	panic("harness: unknown op " + f[0])
}

// ---------------------------------------------------------------------------------------------
// generator

func u(v uint64) string { return strconv.FormatUint(v, 10) }

// probe runs an op through the real code once to learn the item sizes (generator steering only)
func probeSizes(op string) (sizes []uint64, hdr uint64) {
	out := c23Exec(op)
	for _, p := range strings.Split(out, "|") {
		if strings.HasPrefix(p, "sizes=") && p != "sizes=-" {
			for _, s := range strings.Split(p[6:], ",") {
				vn := strings.Split(s, "*")
				n := 1
				if len(vn) == 2 {
					n = int(PU64(vn[1]))
				}
				for q := 0; q < n; q++ {
					sizes = append(sizes, PU64(vn[0]))
				}
			}
		}
		if strings.HasPrefix(p, "hdr=") {
			hdr = PU64(p[4:])
		}
	}
	return
}

// interesting limits for a candidate list: around every prefix boundary, ±9 bytes (covers the framing bytes)
func limits(r *Rng, sizes []uint64, hdr uint64, cap int) []uint64 {
	var l []uint64
	l = append(l, 0, 3, 4, 5, 7, 8, 9, hdr+3, hdr+4, hdr+7, hdr+8, hdr+9, hdr+12)
	sum := hdr
	var bounds []uint64
	for i, s := range sizes {
		if i >= cap {
			break
		}
		sum += s
		bounds = append(bounds, sum)
	}
	pickB := func() uint64 { return bounds[r.Intn(len(bounds))] }
	if len(bounds) > 0 {
		for i := 0; i < 6; i++ {
			b := pickB()
			l = append(l, b+uint64(r.Intn(19))) // b .. b+18: all framing offsets 0..12 and beyond
			if b > 3 {
				l = append(l, b-uint64(r.Intn(4)))
			}
		}
		last := bounds[len(bounds)-1]
		l = append(l, last+3, last+4, last+7, last+8, last+9, last+100, 1<<20, 1<<40)
	}
	return l
}

func c23Gen(r *Rng, tier string, emit func(string)) {
	nCases := 160
	if tier == "thorough" {
		nCases = 3000
	}
	// truncateSHA256Slice directly
	for _, n := range []int{0, 1, 2, 3, 255, 256, 257} {
		for _, ml := range []uint64{0, 1, 31, 32, 33, 63, 64, 65, 32*255 - 1, 32 * 255, 32*256 - 1, 32 * 256, 32*256 + 1, 32 * 257, 1 << 40} {
			emit("slice " + strconv.Itoa(n) + " 32 " + u(ml))
		}
	}
	for i := 0; i < nCases; i++ {
		// --- hashes
		for _, kind := range []string{"announce", "gettxns"} {
			n := []int{0, 1, 2, 3, 10, 100, 255, 256, 257, 300, 1000}[r.Intn(11)]
			if r.Chance(40) {
				n = r.Intn(300)
			}
			base := kind + " "
			sizes, hdr := probeSizes(base + "1000000 " + strconv.Itoa(n))
			for _, m := range limits(r, sizes, hdr, 256) {
				emit(base + u(m) + " " + strconv.Itoa(n))
			}
		}
		// --- peers
		{
			n := []int{0, 1, 2, 5, 100, 511, 512, 513, 600, 1024}[r.Intn(10)]
			if r.Chance(40) {
				n = r.Intn(700)
			}
			inv := []int{0, 0, 1, 2, 3, 7, 100}[r.Intn(7)]
			// the candidate sizes: 6 bytes per usable peer among the first 512
			var sizes []uint64
			for j := 0; j < n && j < 512; j++ {
				if !(inv > 0 && j%inv == inv-1) {
					sizes = append(sizes, 6)
				}
			}
			for _, m := range limits(r, sizes, 4, 1<<30) {
				emit("peers " + u(m) + " " + strconv.Itoa(n) + " " + strconv.Itoa(inv))
			}
		}
		// --- transactions: size profiles (one huge item first / last, many small, mixed)
		{
			n := []int{0, 1, 2, 3, 8, 40, 255, 256, 257, 300}[r.Intn(10)]
			var l []string
			for j := 0; j < n; j++ {
				ins, outs := r.Intn(4), r.Intn(4)
				switch r.Intn(12) {
				case 0:
					ins, outs = 0, 0
				case 1:
					ins, outs = r.Intn(60), r.Intn(60)
				}
				if (j == 0 || j == n-1) && r.Chance(30) {
					ins, outs = 200, 100
				}
				l = append(l, strconv.Itoa(ins)+"."+strconv.Itoa(outs))
			}
			shape := "-"
			if n > 0 {
				shape = strings.Join(l, ",")
			}
			sizes, hdr := probeSizes("txns 100000000 " + shape)
			for _, m := range limits(r, sizes, hdr, 256) {
				emit("txns " + u(m) + " " + shape)
			}
		}
		// --- blocks
		{
			n := []int{0, 1, 2, 3, 8, 127, 128, 129, 140}[r.Intn(9)]
			var l []string
			for j := 0; j < n; j++ {
				t := r.Intn(3)
				if r.Chance(10) {
					t = r.Intn(40)
				}
				if (j == 0 || j == n-1) && r.Chance(30) {
					t = 150
				}
				l = append(l, strconv.Itoa(t))
			}
			shape := "-"
			if n > 0 {
				shape = strings.Join(l, ",")
			}
			sizes, hdr := probeSizes("blocks 100000000 " + shape)
			for _, m := range limits(r, sizes, hdr, 128) {
				emit("blocks " + u(m) + " " + shape)
			}
		}
	}
}

func main() {
	mc := daemon.NewMessagesConfig()
	mc.Register()
	Main(&Prop{Gen: c23Gen, Exec: c23Exec})
}
