// Package codecio: the text form of values and byte strings on the op lines of the codec-related harnesses
// (C21 format: see lean/Sky/Codec/Text.lean), type-directed via reflect, plus a type-directed random value
// generator. Extracted from harness/c21 for C22 / C25 / C09.
package codecio

import (
	"encoding/hex"
	"reflect"
	"strconv"
	"strings"

	. "verif/harness/hlib"

	"github.com/skycoin/skycoin/src/cipher/encoder"
)

type FieldInfo struct {
	Idx    int
	Maxlen int
}

// EncFields mirrors the reference encoder's field selection: exported, not tagged enc:"-".
func EncFields(t reflect.Type) []FieldInfo {
	var fs []FieldInfo
	for i := 0; i < t.NumField(); i++ {
		ff := t.Field(i)
		if ff.PkgPath != "" {
			continue
		}
		tag := ff.Tag.Get("enc")
		if len(tag) > 0 && tag[0] == '-' {
			continue
		}
		fs = append(fs, FieldInfo{i, encoder.TagMaxLen(tag)})
	}
	return fs
}

type Toks struct {
	T []string
	I int
}

func (k *Toks) next() string {
	if k.I >= len(k.T) {
		panic("harness: value spec too short")
	}
	s := k.T[k.I]
	k.I++
	return s
}

func Build(v reflect.Value, k *Toks) {
	switch v.Kind() {
	case reflect.Uint8, reflect.Uint16, reflect.Uint32, reflect.Uint64:
		v.SetUint(PU64(k.next()))
	case reflect.Int8, reflect.Int16, reflect.Int32, reflect.Int64:
		v.SetInt(PI64(k.next()))
	case reflect.Bool:
		v.SetBool(k.next() == "1")
	case reflect.String:
		s := k.next()
		if s != "nil" {
			v.SetString(string(PHex(s)))
		}
	case reflect.Array:
		if v.Type().Elem().Kind() == reflect.Uint8 {
			b := PHex(k.next())
			if len(b) != v.Len() {
				panic("harness: byte array length")
			}
			reflect.Copy(v, reflect.ValueOf(b))
			return
		}
		for i := 0; i < v.Len(); i++ {
			Build(v.Index(i), k)
		}
	case reflect.Slice:
		s := k.next()
		if s == "nil" {
			return
		}
		if v.Type().Elem().Kind() == reflect.Uint8 {
			v.SetBytes(append([]byte{}, PHex(s)...))
			return
		}
		if !strings.HasPrefix(s, "[") {
			panic("harness: expected [N")
		}
		rep := strings.HasSuffix(s, "*")
		n, err := strconv.Atoi(strings.TrimSuffix(s[1:], "*"))
		if err != nil {
			panic("harness: bad slice length")
		}
		sl := reflect.MakeSlice(v.Type(), n, n)
		if rep { // "[N*" : N copies of the one element that follows
			if n > 0 {
				Build(sl.Index(0), k)
				for i := 1; i < n; i++ {
					sl.Index(i).Set(sl.Index(0))
				}
			}
		} else {
			for i := 0; i < n; i++ {
				Build(sl.Index(i), k)
			}
		}
		v.Set(sl)
	case reflect.Struct:
		for _, f := range EncFields(v.Type()) {
			Build(v.Field(f.Idx), k)
		}
	default:
		panic("harness: unsupported kind " + v.Kind().String())
	}
}

// Dump renders a value as a spec; canon: an empty slice/string is rendered like nil.
func Dump(v reflect.Value, canon bool, out *[]string) {
	switch v.Kind() {
	case reflect.Uint8, reflect.Uint16, reflect.Uint32, reflect.Uint64:
		*out = append(*out, strconv.FormatUint(v.Uint(), 10))
	case reflect.Int8, reflect.Int16, reflect.Int32, reflect.Int64:
		*out = append(*out, strconv.FormatInt(v.Int(), 10))
	case reflect.Bool:
		if v.Bool() {
			*out = append(*out, "1")
		} else {
			*out = append(*out, "0")
		}
	case reflect.String:
		if v.Len() == 0 {
			*out = append(*out, "nil")
		} else {
			*out = append(*out, hex.EncodeToString([]byte(v.String())))
		}
	case reflect.Array:
		if v.Type().Elem().Kind() == reflect.Uint8 {
			b := make([]byte, v.Len())
			reflect.Copy(reflect.ValueOf(b), v)
			*out = append(*out, Hex(b))
			return
		}
		for i := 0; i < v.Len(); i++ {
			Dump(v.Index(i), canon, out)
		}
	case reflect.Slice:
		if v.IsNil() || (canon && v.Len() == 0) {
			*out = append(*out, "nil")
			return
		}
		if v.Type().Elem().Kind() == reflect.Uint8 {
			*out = append(*out, Hex(v.Bytes()))
			return
		}
		if v.Len() > 64 && allSame(v) {
			*out = append(*out, "["+strconv.Itoa(v.Len())+"*")
			Dump(v.Index(0), canon, out)
			return
		}
		*out = append(*out, "["+strconv.Itoa(v.Len()))
		for i := 0; i < v.Len(); i++ {
			Dump(v.Index(i), canon, out)
		}
	case reflect.Struct:
		for _, f := range EncFields(v.Type()) {
			Dump(v.Field(f.Idx), canon, out)
		}
	default:
		panic("harness: unsupported kind " + v.Kind().String())
	}
}

func allSame(v reflect.Value) bool {
	first := v.Index(0).Interface()
	for i := 1; i < v.Len(); i++ {
		if !reflect.DeepEqual(first, v.Index(i).Interface()) {
			return false
		}
	}
	return true
}

func DumpStr(obj interface{}, canon bool) string {
	var out []string
	Dump(reflect.ValueOf(obj).Elem(), canon, &out)
	if len(out) == 0 {
		return "()"
	}
	return strings.Join(out, " ")
}

// Byte strings on op lines may be run-length coded: segments separated by '.', each either plain hex or
// "N*hex" (hex repeated N times). Long OUTPUT byte strings are printed as "#<len>:<fnv1a-64>".
func ParseBytes(s string) []byte {
	if !strings.ContainsAny(s, ".*") {
		return PHex(s)
	}
	var out []byte
	for _, seg := range strings.Split(s, ".") {
		if i := strings.IndexByte(seg, '*'); i >= 0 {
			n, err := strconv.Atoi(seg[:i])
			if err != nil {
				panic("harness: bad repeat count")
			}
			e := PHex(seg[i+1:])
			for k := 0; k < n; k++ {
				out = append(out, e...)
			}
		} else {
			out = append(out, PHex(seg)...)
		}
	}
	return out
}

func OutHex(b []byte) string {
	if len(b) <= 1024 {
		return Hex(b)
	}
	h := uint64(14695981039346656037)
	for _, x := range b {
		h = (h ^ uint64(x)) * 1099511628211
	}
	return "#" + strconv.Itoa(len(b)) + ":" + strconv.FormatUint(h, 10)
}

// RLE renders enc with the run of repetitions of e (if any, at least 8) collapsed.
func RLE(enc, e []byte) string {
	L := len(e)
	if L == 0 || len(enc) < 8*L {
		return Hex(enc)
	}
	o := strings.Index(string(enc), string(e)+string(e)+string(e))
	if o < 0 {
		return Hex(enc)
	}
	k := 0
	for o+(k+1)*L <= len(enc) && string(enc[o+k*L:o+(k+1)*L]) == string(e) {
		k++
	}
	if k < 8 {
		return Hex(enc)
	}
	parts := []string{}
	if o > 0 {
		parts = append(parts, Hex(enc[:o]))
	}
	parts = append(parts, strconv.Itoa(k)+"*"+Hex(e))
	if o+k*L < len(enc) {
		parts = append(parts, Hex(enc[o+k*L:]))
	}
	return strings.Join(parts, ".")
}

type GenCtx struct {
	R      *Rng
	Exp    bool // this value may contain one expensive slice (maxlen 65535 boundary / 70 000 elements)
	BigEl  reflect.Value
	Big    int  // remaining "big slice" allowances for this value
	Budget int  // remaining elements
	Min    bool // inside a big slice: keep elements minimal
	Lens   []LenField
	Off    int
}

type LenField struct {
	Off, Length, Maxlen int
}

func UintVal(r *Rng, bits uint) uint64 {
	max := uint64(1)<<bits - 1
	if bits == 64 {
		max = ^uint64(0)
	}
	switch r.Intn(8) {
	case 0:
		return 0
	case 1:
		return 1
	case 2:
		return max
	case 3:
		return max - 1
	case 4:
		return uint64(1) << (bits - 1)
	case 5:
		return uint64(1)<<(bits-1) - 1
	case 6:
		return uint64(r.Intn(300))
	}
	return r.U64() & max
}

// sliceLen picks a length for a slice field with the given maxlen tag (0 = none) and element cost.
func (g *GenCtx) sliceLen(maxlen int, elemStatic bool) (n int, isNil bool) {
	r := g.R
	if g.Min {
		if r.Chance(70) {
			return 0, true
		}
		return r.Intn(2), false
	}
	k := r.Intn(100)
	switch {
	case k < 12:
		return 0, true
	case k < 22:
		return 0, false
	case k < 45:
		return 1, false
	case k < 60:
		return 2, false
	case k < 80:
		return r.Range(3, 6), false
	}
	if g.Big > 0 {
		switch {
		case maxlen > 0 && maxlen <= 512:
			g.Big--
			return maxlen + r.Range(-1, 1), false
		case maxlen > 512 && g.Exp:
			g.Big--
			return maxlen + r.Range(-1, 1), false
		case maxlen == 0 && g.Exp && elemStatic:
			g.Big--
			return 70000, false
		case maxlen == 0 && elemStatic:
			g.Big--
			return r.Range(200, 400), false
		}
	}
	return r.Range(0, 3), false
}

func StaticType(t reflect.Type) bool {
	switch t.Kind() {
	case reflect.Slice, reflect.String:
		return false
	case reflect.Array:
		return StaticType(t.Elem())
	case reflect.Struct:
		for _, f := range EncFields(t) {
			if !StaticType(t.Field(f.Idx).Type) {
				return false
			}
		}
	}
	return true
}

func (g *GenCtx) Value(v reflect.Value, maxlen int) {
	r := g.R
	switch v.Kind() {
	case reflect.Uint8:
		v.SetUint(UintVal(r, 8))
	case reflect.Uint16:
		v.SetUint(UintVal(r, 16))
	case reflect.Uint32:
		v.SetUint(UintVal(r, 32))
	case reflect.Uint64:
		v.SetUint(UintVal(r, 64))
	case reflect.Int8:
		v.SetInt(int64(int8(UintVal(r, 8))))
	case reflect.Int16:
		v.SetInt(int64(int16(UintVal(r, 16))))
	case reflect.Int32:
		v.SetInt(int64(int32(UintVal(r, 32))))
	case reflect.Int64:
		v.SetInt(int64(UintVal(r, 64)))
	case reflect.Bool:
		v.SetBool(r.Bool())
	case reflect.Array:
		if v.Type().Elem().Kind() == reflect.Uint8 {
			b := make([]byte, v.Len())
			switch r.Intn(6) {
			case 0: // zero
			case 1:
				for i := range b {
					b[i] = 0xff
				}
			default:
				if g.Min {
					b[0] = byte(r.U64())
				} else {
					b = r.Bytes(v.Len())
				}
			}
			reflect.Copy(v, reflect.ValueOf(b))
			return
		}
		for i := 0; i < v.Len(); i++ {
			g.Value(v.Index(i), 0)
		}
	case reflect.String, reflect.Slice:
		isBytes := v.Kind() == reflect.String || v.Type().Elem().Kind() == reflect.Uint8
		n, isNil := g.sliceLen(maxlen, isBytes || StaticType(v.Type().Elem()))
		if n > g.Budget && n > 8 {
			n = g.R.Intn(3)
		}
		if isNil {
			return
		}
		g.Budget -= n
		if v.Kind() == reflect.String {
			v.SetString(string(r.Bytes(n)))
			return
		}
		if isBytes {
			v.SetBytes(r.Bytes(n))
			return
		}
		sl := reflect.MakeSlice(v.Type(), n, n)
		saved := g.Min
		if n > 8 {
			g.Min = true
		}
		if n > 64 { // long slices: one (minimal) element, replicated — transported run-length coded
			g.Value(sl.Index(0), 0)
			for i := 1; i < n; i++ {
				sl.Index(i).Set(sl.Index(0))
			}
			g.BigEl = sl.Index(0)
		} else {
			for i := 0; i < n; i++ {
				g.Value(sl.Index(i), 0)
			}
		}
		g.Min = saved
		v.Set(sl)
	case reflect.Struct:
		for _, f := range EncFields(v.Type()) {
			g.Value(v.Field(f.Idx), f.Maxlen)
		}
	default:
		panic("harness: gen unsupported kind " + v.Kind().String())
	}
}

// lenOffsets walks a value and records, for the reference encoding, the byte offset of every length
// prefix together with the encoded length and the field's maxlen.
func (g *GenCtx) LenOffsets(v reflect.Value, maxlen int, omit bool) {
	switch v.Kind() {
	case reflect.Uint8, reflect.Int8, reflect.Bool:
		g.Off++
	case reflect.Uint16, reflect.Int16:
		g.Off += 2
	case reflect.Uint32, reflect.Int32:
		g.Off += 4
	case reflect.Uint64, reflect.Int64:
		g.Off += 8
	case reflect.Array:
		for i := 0; i < v.Len(); i++ {
			g.LenOffsets(v.Index(i), 0, false)
		}
	case reflect.String:
		if omit && v.Len() == 0 {
			return
		}
		g.Lens = append(g.Lens, LenField{g.Off, v.Len(), maxlen})
		g.Off += 4 + v.Len()
	case reflect.Slice:
		if omit && v.Len() == 0 {
			return
		}
		g.Lens = append(g.Lens, LenField{g.Off, v.Len(), maxlen})
		g.Off += 4
		if v.Len() > 64 {
			// offsets inside long slices are not needed; skip by size
			g.Off += int(encoder.Size(v.Interface())) - 4
			return
		}
		for i := 0; i < v.Len(); i++ {
			g.LenOffsets(v.Index(i), 0, false)
		}
	case reflect.Struct:
		t := v.Type()
		for _, f := range EncFields(t) {
			tag := t.Field(f.Idx).Tag.Get("enc")
			g.LenOffsets(v.Field(f.Idx), f.Maxlen, encoder.TagOmitempty(tag))
		}
	}
}
