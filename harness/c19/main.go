package main

// C19: the wallet service's memory and disk views never diverge.  A real wallet.Service runs on a
// scratch directory; after EVERY operation a second wallet.NewService is started on the same
// directory and both are dumped canonically.
//
//	reset <caseSeed>
//	create[-after-unload] <id> <type> <seedTag> <label|-> <n> <enc 0|1> <pw> <temp 0|1>
//	newaddr <id> <n> <pw>        scan <id> <n> <keep> <keepChg> <pw>       label <id> <label>
//	encrypt <id> <pw>            decrypt <id> <pw>                         recover <id> <seedTag> <pw>
//	restart                      the service under test is replaced by a new wallet.NewService on the same directory
//	unload <id>                  update <id> <label|FAIL>                  updsec <id> <pw> <label|FAIL>
//
// pw: 0 = no password, k = "pw<k>".  Output: `<ok|err Kind> mem=<dump> disk=<dump|ERR>`,
// dump = `id|type|label|enc|temp|next|nchg|fp;…` sorted by id, fp = the seed tag the wallet's
// Fingerprint() belongs to (`-` for collection wallets).

import (
	"errors"
	"fmt"
	"io/ioutil"
	"os"
	"path/filepath"
	"sort"
	"strconv"
	"strings"

	. "verif/harness/hlib"

	"github.com/skycoin/skycoin/src/cipher"
	"github.com/skycoin/skycoin/src/cipher/bip39"
	"github.com/skycoin/skycoin/src/cipher/crypto"
	"github.com/skycoin/skycoin/src/wallet"
	"github.com/skycoin/skycoin/src/wallet/bip44wallet"
	_ "github.com/skycoin/skycoin/src/wallet/collection"
	"github.com/skycoin/skycoin/src/wallet/deterministic"
	_ "github.com/skycoin/skycoin/src/wallet/xpubwallet"
)

func must(err error) {
	if err != nil {
		panic("harness: " + err.Error())
	}
}

type state struct {
	dir      string
	caseSeed string
	serv     *wallet.Service
	fpTag    map[string]string
}

var (
	cur     *state
	scratch string
	caseNo  int
)

func cfg(dir string) wallet.Config {
	return wallet.Config{WalletDir: dir, CryptoType: crypto.CryptoTypeSha256Xor, EnableWalletAPI: true, EnableSeedAPI: true}
}

func pwOf(s string) []byte {
	if s == "0" {
		return nil
	}
	return []byte("pw" + s)
}

func (s *state) seedFor(typ, tag string) string {
	if typ == "bip44" {
		h := cipher.SumSHA256([]byte(s.caseSeed + "/" + tag))
		m, err := bip39.NewMnemonic(h[:16])
		must(err)
		return m
	}
	return "seed-" + s.caseSeed + "-" + tag
}

// fingerprint -> seed tag, for the seed tags the generator uses
func (s *state) fillTags() {
	s.fpTag = map[string]string{}
	for k := 0; k < 6; k++ {
		tag := fmt.Sprint(k)
		d, err := deterministic.NewWallet("x.wlt", "l", s.seedFor("deterministic", tag), wallet.OptionGenerateN(1))
		must(err)
		s.fpTag[d.Fingerprint()] = "deterministic-" + tag
		b, err := bip44wallet.NewWallet("x.wlt", "l", s.seedFor("bip44", tag), "", wallet.OptionGenerateN(1))
		must(err)
		s.fpTag[b.Fingerprint()] = "bip44-" + tag
	}
}

func (s *state) dump(serv *wallet.Service) string {
	ws, err := serv.GetWallets()
	must(err)
	var ids []string
	for id := range ws {
		ids = append(ids, id)
	}
	sort.Strings(ids)
	var parts []string
	for _, id := range ids {
		w := ws[id]
		next, nchg := 0, 0
		switch w.Type() {
		case wallet.WalletTypeBip44:
			n, err := w.EntriesLen(wallet.OptionExternal())
			must(err)
			c, err := w.EntriesLen(wallet.OptionChange())
			must(err)
			next, nchg = n, c
		default:
			n, err := w.EntriesLen()
			must(err)
			next = n
		}
		fp := "-"
		if f := w.Fingerprint(); f != "" {
			fp = s.fpTag[f]
			if fp == "" {
				fp = "?"
			}
		}
		b2i := map[bool]int{false: 0, true: 1}
		parts = append(parts, fmt.Sprintf("%s|%s|%s|%d|%d|%d|%d|%s", id, w.Type(), w.Label(), b2i[w.IsEncrypted()], b2i[w.IsTemp()], next, nchg, fp))
	}
	if len(parts) == 0 {
		return "-"
	}
	return strings.Join(parts, ";")
}

func (s *state) views() string {
	mem := s.dump(s.serv)
	disk := "ERR"
	bytesEq := "ok"
	if s2, err := wallet.NewService(cfg(s.dir)); err == nil {
		disk = s.dump(s2)
		// the serialised form (incl. the raw encrypted `secrets` meta) of every non-temporary wallet in
		// memory must be byte-identical to what a freshly started service holds for that file
		ms, err := s.serv.GetWallets()
		must(err)
		ds, err := s2.GetWallets()
		must(err)
		var ids []string
		for id := range ms {
			ids = append(ids, id)
		}
		sort.Strings(ids)
		for _, id := range ids {
			m := ms[id]
			d, ok := ds[id]
			if m.IsTemp() || !ok {
				continue
			}
			mb, err := m.Serialize()
			must(err)
			db, err := d.Serialize()
			must(err)
			if string(mb) != string(db) {
				bytesEq = "DIFF:" + id
				break
			}
		}
	}
	return "mem=" + mem + " disk=" + disk + " bytes=" + bytesEq
}

func kind(err error) string {
	switch err {
	case wallet.ErrWalletNotExist:
		return "notExist"
	case wallet.ErrWalletNameConflict:
		return "nameConflict"
	case wallet.ErrEncryptTempWallet:
		return "encTemp"
	case wallet.ErrMissingPassword:
		return "missingPassword"
	case wallet.ErrInvalidPassword:
		return "invalidPassword"
	case wallet.ErrWalletEncrypted:
		return "encrypted"
	case wallet.ErrWalletNotEncrypted:
		return "notEncrypted"
	case wallet.ErrWalletTypeNotRecoverable:
		return "notRecoverable"
	case wallet.ErrWalletRecoverSeedWrong:
		return "seedWrong"
	}
	if strings.Contains(err.Error(), "fingerprint conflict") {
		return "fpConflict"
	}
	return "other"
}

type finder struct {
	keeps []int
	call  *int
}

func (f finder) AddressesActivity(addrs []cipher.Addresser) ([]bool, error) {
	k := 0
	if *f.call < len(f.keeps) {
		k = f.keeps[*f.call]
	}
	*f.call++
	out := make([]bool, len(addrs))
	for i := range out {
		out[i] = i == k-1
	}
	return out, nil
}

func doReset(seed string) string {
	if scratch == "" {
		base := os.Getenv("VERIF_SCRATCH")
		if base == "" {
			base = os.TempDir()
		}
		d, err := ioutil.TempDir(base, "c19-")
		must(err)
		scratch = d
	}
	caseNo++
	dir := filepath.Join(scratch, fmt.Sprintf("case%d", caseNo))
	must(os.MkdirAll(dir, 0700))
	s := &state{dir: dir, caseSeed: seed}
	s.fillTags()
	serv, err := wallet.NewService(cfg(dir))
	must(err)
	s.serv = serv
	cur = s
	return "ok " + s.views()
}

func res(err error) string {
	if err != nil {
		return "err " + kind(err) + " " + cur.views()
	}
	return "ok " + cur.views()
}

func lbl(s string) string {
	if s == "-" {
		return ""
	}
	return s
}

func c19Exec(op string) string {
	f := Fields(op)
	s := cur
	switch f[0] {
	case "reset":
		return doReset(f[1])
	case "create", "create-after-unload":
		typ := f[2]
		o := wallet.Options{Type: typ, Seed: s.seedFor(typ, f[3]), Label: lbl(f[4]), GenerateN: PU64(f[5]),
			Encrypt: f[6] == "1", Password: pwOf(f[7]), Temp: f[8] == "1", CryptoType: crypto.CryptoTypeSha256Xor}
		if typ == "collection" {
			o.Seed = ""
		}
		_, err := s.serv.CreateWallet(f[1], o)
		return res(err)
	case "newaddr":
		_, err := s.serv.NewAddresses(f[1], pwOf(f[3]), wallet.OptionGenerateN(PU64(f[2])))
		return res(err)
	case "scan":
		call := 0
		_, err := s.serv.ScanAddresses(f[1], pwOf(f[5]), PU64(f[2]), finder{[]int{int(PU64(f[3])), int(PU64(f[4]))}, &call})
		return res(err)
	case "label":
		return res(s.serv.UpdateWalletLabel(f[1], f[2]))
	case "encrypt":
		_, err := s.serv.EncryptWallet(f[1], pwOf(f[2]))
		return res(err)
	case "decrypt":
		_, err := s.serv.DecryptWallet(f[1], pwOf(f[2]))
		return res(err)
	case "recover":
		w, err := s.serv.GetWallet(f[1])
		typ := "deterministic"
		if err == nil {
			typ = w.Type()
		}
		_, err = s.serv.RecoverWallet(f[1], s.seedFor(typ, f[2]), "", pwOf(f[3]))
		return res(err)
	case "unload":
		return res(s.serv.UnloadWallet(f[1]))
	case "restart":
		// the service under test itself is restarted: a new wallet.NewService on the populated directory receives
		// the following operations (its duplicate / name checks rest on what it loaded, not on what it created)
		s2, err := wallet.NewService(cfg(s.dir))
		if err == nil {
			s.serv = s2
		}
		return res(err)
	case "seed":
		_, _, err := s.serv.GetWalletSeed(f[1], pwOf(f[2]))
		return res(err)
	case "view":
		return res(s.serv.ViewSecrets(f[1], pwOf(f[2]), func(w wallet.Wallet) error {
			_ = w.Seed()
			_, err := w.GetEntries()
			return err
		}))
	case "get":
		_, err := s.serv.GetWallet(f[1])
		if err == nil {
			_, err = s.serv.GetWallets()
		}
		return res(err)
	case "update":
		return res(s.serv.Update(f[1], func(w wallet.Wallet) error {
			if f[2] == "FAIL" {
				w.SetLabel("half-done") // the callback mutates its clone, then fails
				w.SetTimestamp(1400000000)
				return errors.New("callback failed")
			}
			setLabelAge(w, f[2])
			return nil
		}))
	case "updsec":
		return res(s.serv.UpdateSecrets(f[1], pwOf(f[2]), func(w wallet.Wallet) error {
			if f[3] == "FAIL" {
				w.SetLabel("half-done")
				w.SetTimestamp(1400000000)
				return errors.New("callback failed")
			}
			setLabelAge(w, f[3])
			return nil
		}))
	}
	panic("harness: unknown op " + f[0])
}

// setLabelAge: the update callbacks set the label; a label `<text>@<secs>` also BACKDATES the wallet (meta.tm has one
// second resolution and every wallet of a case is created within the same second: without this no wallet is ever
// older than the operation applied to it).  Memory and a freshly started service must agree on tm as on every
// other meta field (the `bytes=` comparison).
func setLabelAge(w wallet.Wallet, label string) {
	w.SetLabel(label)
	if i := strings.Index(label, "@"); i >= 0 {
		secs, err := strconv.ParseInt(label[i+1:], 10, 64)
		must(err)
		w.SetTimestamp(1700000000 - secs)
	}
}

type gw struct {
	typ, seed string
	enc       int // password tag, 0 = not encrypted
	temp      bool
}

func c19Gen(r *Rng, tier string, emit func(string)) {
	ages := []int64{1, 2, 59, 3600, 86400, 31536000, 200000000}
	cases := 60
	if tier == "thorough" {
		cases = 1500
	}
	for c := 0; c < cases; c++ {
		emit(fmt.Sprintf("reset %d", r.Intn(1000000)))
		mem := map[string]*gw{}
		unloadedSeeds := map[string]bool{}
		unl := map[string]*gw{} // unloaded wallets whose file is still in the directory
		ids := []string{"w0.wlt", "w1.wlt", "w2.wlt", "w3.wlt"}
		nops := 5 + r.Intn(36)
		pick := func() string { return ids[r.Intn(len(ids))] }
		pickMem := func() string {
			var l []string
			for id := range mem {
				l = append(l, id)
			}
			sort.Strings(l)
			if len(l) == 0 || r.Chance(8) {
				return pick()
			}
			return l[r.Intn(len(l))]
		}
		pwFor := func(id string) int { // mostly the right password
			w := mem[id]
			switch {
			case w == nil:
				return r.Intn(3)
			case r.Chance(15):
				return r.Intn(4) // possibly wrong / missing / superfluous
			}
			return w.enc
		}
		ended := false
		create := func(id, typ, seed, label string, n, enc, pw, temp int) {
			name := "create"
			key := typ + "-" + seed
			if typ != "collection" && unloadedSeeds[key] && label != "-" && !(enc == 1 && (temp == 1 || pw == 0)) {
				dup := false
				for _, w := range mem {
					if w.typ+"-"+w.seed == key {
						dup = true
					}
				}
				if !dup && mem[id] == nil && temp == 0 {
					name = "create-after-unload"
					ended = true // the directory now holds two files with one fingerprint: end the case
				}
			}
			emit(fmt.Sprintf("%s %s %s %s %s %d %d %d %d", name, id, typ, seed, label, n, enc, pw, temp))
			// bookkeeping for the generator only (the model does its own)
			ok := label != "-" && !(enc == 1 && temp == 1) && !(enc == 1 && pw == 0) && mem[id] == nil
			if ok && typ != "collection" {
				for _, w := range mem {
					if w.typ+"-"+w.seed == key {
						ok = false
					}
				}
			}
			if ok {
				e := 0
				if enc == 1 {
					e = pw
				}
				mem[id] = &gw{typ, seed, e, temp == 1}
				if temp == 0 {
					delete(unl, id) // the file of an unloaded wallet of that name is overwritten
				}
			}
		}
		for i := 0; i < nops && !ended; i++ {
			if r.Chance(6) {
				// a TEMPORARY wallet first, then wallets with the same seed: persistent / temporary twin (refused), the
				// temporary one unloaded, a third create (accepted), once more (refused)
				typ := []string{"deterministic", "bip44"}[r.Intn(2)]
				seed := fmt.Sprint(r.Intn(4))
				var free []string
				for _, id := range ids {
					if mem[id] == nil && unl[id] == nil {
						free = append(free, id)
					}
				}
				if len(free) >= 2 {
					create(free[0], typ, seed, "T"+fmt.Sprint(r.Intn(9)), r.Intn(3), 0, 0, 1)
					create(free[1], typ, seed, "T"+fmt.Sprint(r.Intn(9)), r.Intn(3), 0, 0, r.Intn(2))
					if !ended && r.Chance(70) {
						emit("unload " + free[0])
						if w := mem[free[0]]; w != nil {
							if !w.temp {
								unloadedSeeds[w.typ+"-"+w.seed] = true
								unl[free[0]] = w
							}
							delete(mem, free[0])
						}
						if !ended {
							create(free[1], typ, seed, "T"+fmt.Sprint(r.Intn(9)), r.Intn(3), r.Intn(2), 1, 0)
						}
						if !ended && len(free) > 2 {
							create(free[2], typ, seed, "T"+fmt.Sprint(r.Intn(9)), r.Intn(3), 0, 0, r.Intn(2))
						}
					}
				}
				continue
			}
			if r.Chance(7) {
				// restart; the new instance must know every wallet it loaded: creates (persistent and temporary) with the
				// seed of a loaded wallet of every type must be refused, with a free seed accepted
				emit("restart")
				for id, w := range mem {
					if w.temp {
						delete(mem, id)
					}
				}
				for id, w := range unl {
					mem[id] = w
				}
				unl = map[string]*gw{}
				unloadedSeeds = map[string]bool{}
				var held []string
				for id := range mem {
					held = append(held, id)
				}
				sort.Strings(held)
				for _, hid := range held {
					w := mem[hid]
					if w.typ == "collection" || !r.Chance(70) {
						continue
					}
					free := ""
					for _, id := range ids {
						if mem[id] == nil && unl[id] == nil {
							free = id
						}
					}
					if free == "" {
						free = pick()
					}
					emit(fmt.Sprintf("create %s %s %s L%d %d 0 0 %d", free, w.typ, w.seed, r.Intn(9), r.Intn(3), r.Intn(2)))
				}
				continue
			}
			switch r.Intn(14) {
			case 0, 1, 2:
				id := pick()
				typ := []string{"deterministic", "deterministic", "bip44", "collection"}[r.Intn(4)]
				seed := fmt.Sprint(r.Intn(4))
				label := "L" + fmt.Sprint(r.Intn(9))
				if r.Chance(4) {
					label = "-"
				}
				enc, pw, temp := 0, 0, 0
				if r.Chance(30) {
					enc, pw = 1, 1+r.Intn(2)
					if r.Chance(10) {
						pw = 0
					}
				} else if r.Chance(4) {
					pw = 1
				}
				if r.Chance(15) {
					temp = 1
				}
				create(id, typ, seed, label, r.Intn(4), enc, pw, temp)
			case 3, 4:
				id := pickMem()
				emit(fmt.Sprintf("newaddr %s %d %d", id, r.Intn(4), pwFor(id)))
			case 5:
				id := pickMem()
				n := r.Intn(5)
				k, kc := 0, 0
				if n > 0 {
					k, kc = r.Intn(n+1), r.Intn(n+1)
				}
				if w := mem[id]; w != nil && w.typ != "bip44" {
					kc = 0
				}
				pw := pwFor(id)
				if w := mem[id]; w != nil && w.typ == "bip44" && r.Chance(85) {
					pw = 0
				}
				emit(fmt.Sprintf("scan %s %d %d %d %d", id, n, k, kc, pw))
			case 6:
				emit(fmt.Sprintf("label %s M%d", pickMem(), r.Intn(9)))
			case 7:
				id := pickMem()
				pw := 1 + r.Intn(2)
				if r.Chance(10) {
					pw = 0
				}
				emit(fmt.Sprintf("encrypt %s %d", id, pw))
				if w := mem[id]; w != nil && w.enc == 0 && !w.temp && pw != 0 {
					w.enc = pw
				}
			case 8:
				id := pickMem()
				pw := pwFor(id)
				emit(fmt.Sprintf("decrypt %s %d", id, pw))
				if w := mem[id]; w != nil && w.enc != 0 && pw == w.enc {
					w.enc = 0
				}
			case 9:
				id := pickMem()
				seed := fmt.Sprint(r.Intn(4))
				if w := mem[id]; w != nil && r.Chance(70) {
					seed = w.seed
				}
				pw := r.Intn(3)
				if r.Chance(50) { // the wallet about to be recovered is not from this very second
					if w := mem[id]; w != nil && w.enc != 0 && r.Bool() {
						emit(fmt.Sprintf("updsec %s %d A%d@%d", id, w.enc, r.Intn(9), ages[r.Intn(len(ages))]))
					} else {
						emit(fmt.Sprintf("update %s A%d@%d", id, r.Intn(9), ages[r.Intn(len(ages))]))
					}
				}
				emit(fmt.Sprintf("recover %s %s %d", id, seed, pw))
				if w := mem[id]; w != nil && w.enc != 0 && w.typ != "collection" && seed == w.seed {
					w.enc = pw
				}
			case 10:
				id := pickMem()
				emit("unload " + id)
				if w := mem[id]; w != nil {
					if !w.temp {
						unloadedSeeds[w.typ+"-"+w.seed] = true
						unl[id] = w
					}
					delete(mem, id)
				}
			case 12, 13:
				id := pickMem()
				switch r.Intn(5) {
				case 0:
					emit("get " + id)
				case 1, 2:
					emit(fmt.Sprintf("seed %s %d", id, pwFor(id)))
				default:
					emit(fmt.Sprintf("view %s %d", id, pwFor(id)))
				}
			case 11:
				id := pickMem()
				l := fmt.Sprintf("U%d", r.Intn(9))
				if r.Chance(30) {
					l = "FAIL"
				} else if r.Chance(50) {
					l += fmt.Sprintf("@%d", ages[r.Intn(len(ages))])
				}
				if r.Bool() {
					emit(fmt.Sprintf("update %s %s", id, l))
				} else {
					emit(fmt.Sprintf("updsec %s %d %s", id, pwFor(id), l))
				}
			}
		}
	}
}

func main() {
	Main(&Prop{Gen: c19Gen, Exec: c19Exec, Close: func() {
		if scratch != "" {
			os.RemoveAll(scratch)
		}
	}})
}
