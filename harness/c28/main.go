package main

// C28: no API request can crash the node or the request handler.
//
// ops (stateful; every case starts with `reset`):
//
//	reset                                   build a fresh node (see world.go)                        -> ok
//	http m=<METHOD> p=<path> q=<query> ct=<form|json|text|none> b=<body> [t=<ms>]
//	     query and body are url.QueryEscape'd templates; {symbols} are resolved against the live node.
//	     -> ok <status> | panic <site> | hang | malformed <why>
//	verify k=<kind> u=<0|1> ins=<U,S,X…> hist=<seq|-> prev=<time|-> head=<time> checks=<ok|user|soft|hard>
//	     calls Visor.VerifyTxnVerbose directly on a transaction of the named kind; the facts are the
//	     harness's own bookkeeping of the chain it built and are the inputs of the Lean model.
//	     -> confirmed=<0|1> err=<none|user|soft|hard|other> inputs=<0|1> | panic …

import (
	"bytes"
	"encoding/json"
	"fmt"
	"io"
	"net/http"
	"net/url"
	"os"
	"regexp"
	"runtime/debug"
	"strconv"
	"strings"
	"time"

	. "verif/harness/hlib"

	"github.com/skycoin/skycoin/src/transaction"
)

type recWriter struct {
	hdr    http.Header
	status int
	wrote  bool
	bad    string
	body   bytes.Buffer
}

func (w *recWriter) Header() http.Header { return w.hdr }
func (w *recWriter) WriteHeader(code int) {
	if w.wrote {
		return // net/http logs "superfluous WriteHeader" and ignores it
	}
	if code < 100 || code > 999 {
		// net/http panics on such a code (checkWriteHeaderCode)
		panic(fmt.Sprintf("invalid WriteHeader code %v", code))
	}
	w.wrote = true
	w.status = code
}
func (w *recWriter) Write(b []byte) (int, error) {
	if !w.wrote {
		w.WriteHeader(200)
	}
	if w.body.Len() < 1<<22 {
		w.body.Write(b)
	}
	return len(b), nil
}

var symRe = regexp.MustCompile(`\{[a-zA-Z0-9_.]+\}`)

func (w *world) resolve(s string) string {
	return symRe.ReplaceAllStringFunc(s, func(m string) string {
		if v, ok := w.sym[m[1:len(m)-1]]; ok {
			return v
		}
		return m
	})
}

func panicSite(stack []byte) string {
	// first frame of skycoin code below the panic
	lines := strings.Split(string(stack), "\n")
	seenPanic := false
	for i := 0; i+1 < len(lines); i++ {
		l := lines[i]
		if strings.HasPrefix(l, "panic(") {
			seenPanic = true
			continue
		}
		if seenPanic && strings.Contains(l, "github.com/skycoin/skycoin/src/") && !strings.Contains(l, "verif/harness") {
			fn := l
			if j := strings.LastIndexByte(fn, '('); j > 0 {
				fn = fn[:j]
			}
			fn = strings.TrimPrefix(fn, "github.com/skycoin/skycoin/src/")
			return strings.Map(func(c rune) rune {
				if c == ' ' || c == '\t' {
					return '_'
				}
				return c
			}, fn)
		}
	}
	return "unknown-site"
}

func doHTTP(toks map[string]string) string {
	w := cur
	if w == nil {
		panic("harness: http before reset")
	}
	q, err := url.QueryUnescape(toks["q"])
	if err != nil {
		panic("harness: bad q escape")
	}
	b, err := url.QueryUnescape(toks["b"])
	if err != nil {
		panic("harness: bad b escape")
	}
	q, b = w.resolve(q), w.resolve(b)
	u := &url.URL{Path: toks["p"], RawQuery: q}
	req := &http.Request{Method: toks["m"], URL: u, Proto: "HTTP/1.1", ProtoMajor: 1, ProtoMinor: 1, Header: http.Header{},
		Host: "127.0.0.1:6420", RemoteAddr: "127.0.0.1:50000", RequestURI: u.RequestURI(),
		Body: io.NopCloser(strings.NewReader(b)), ContentLength: int64(len(b))}
	switch toks["ct"] {
	case "form":
		req.Header.Set("Content-Type", "application/x-www-form-urlencoded")
	case "json":
		req.Header.Set("Content-Type", "application/json")
	case "text":
		req.Header.Set("Content-Type", "text/plain")
	}
	deadline := 60 * time.Second // generous: the machine may be heavily loaded; witnesses of hangs carry their own t=
	if t := toks["t"]; t != "" {
		ms, _ := strconv.Atoi(t)
		deadline = time.Duration(ms) * time.Millisecond
	}
	rw := &recWriter{hdr: http.Header{}}
	type result struct{ panicked, site string }
	done := make(chan result, 1)
	go func() {
		defer func() {
			if r := recover(); r != nil {
				st := debug.Stack()
				if os.Getenv("VERIF_STACK") != "" {
					fmt.Fprintf(os.Stderr, "panic: %v\n%s\n", r, st)
				}
				done <- result{fmt.Sprint(r), panicSite(st)}
				return
			}
			done <- result{}
		}()
		w.mux.ServeHTTP(rw, req)
	}()
	select {
	case r := <-done:
		if r.panicked != "" {
			return "panic " + r.site
		}
	case <-time.After(deadline):
		return "hang"
	}
	if os.Getenv("VERIF_C28_BODY") != "" {
		fmt.Fprintf(os.Stderr, "%d %s\n", rw.status, strings.TrimSpace(rw.body.String()[:min(rw.body.Len(), 400)]))
	}
	if !rw.wrote {
		return "ok 200" // net/http sends an implicit 200
	}
	if rw.status < 100 || rw.status > 599 {
		return "malformed status " + strconv.Itoa(rw.status)
	}
	ct := rw.hdr.Get("Content-Type")
	if strings.HasPrefix(ct, "application/json") && rw.body.Len() > 0 && rw.body.Len() < 1<<22 && req.Method != "HEAD" {
		if !json.Valid(rw.body.Bytes()) {
			return "malformed json-body status " + strconv.Itoa(rw.status)
		}
	}
	for k, vs := range rw.hdr {
		for _, v := range vs {
			if strings.ContainsAny(v, "\r\n") || strings.ContainsAny(k, "\r\n ") {
				return "malformed header"
			}
		}
	}
	return "ok " + strconv.Itoa(rw.status)
}

func doVerify(toks map[string]string) string {
	w := cur
	if w == nil {
		panic("harness: verify before reset")
	}
	txn, _ := w.txnOfKind(toks["k"])
	signed := transaction.TxnSigned
	if toks["u"] == "1" {
		signed = transaction.TxnUnsigned
	}
	inputs, confirmed, err := w.v.VerifyTxnVerbose(&txn, signed)
	cls := "none"
	if err != nil {
		switch err.(type) {
		case transaction.ErrTxnViolatesHardConstraint:
			cls = "hard"
		case transaction.ErrTxnViolatesSoftConstraint:
			cls = "soft"
		case transaction.ErrTxnViolatesUserConstraint:
			cls = "user"
		default:
			cls = "other"
		}
	}
	c, in := "0", "0"
	if confirmed {
		c = "1"
	}
	if len(inputs) > 0 {
		in = "1"
	}
	return "confirmed=" + c + " err=" + cls + " inputs=" + in
}

func parse(op string) (string, map[string]string) {
	f := strings.Split(op, " ")
	m := map[string]string{}
	for _, t := range f[1:] {
		if i := strings.IndexByte(t, '='); i > 0 {
			m[t[:i]] = t[i+1:]
		}
	}
	return f[0], m
}

func c28Exec(op string) string {
	if os.Getenv("VERIF_C28_TIME") != "" {
		t0 := time.Now()
		defer func() {
			if d := time.Since(t0); d > 50*time.Millisecond {
				fmt.Fprintf(os.Stderr, "%v %s\n", d, op[:min(len(op), 160)])
			}
		}()
	}
	name, toks := parse(op)
	switch name {
	case "reset":
		newWorld()
		return "ok"
	case "block":
		// publisher step: a block made of the named pool transactions is created and executed; nothing else
		// (no pool refresh) happens, so conflicting transactions stay in the pool as stale ones
		return cur.blockOf(strings.Split(toks["t"], ","))
	case "http":
		out := doHTTP(toks)
		if strings.HasPrefix(out, "panic") || out == "hang" {
			// a panic can leave a bolt read transaction open, a hung handler may hold the wallet
			// service lock: continue on a fresh node so that later outcomes are not artefacts
			newWorld()
		}
		return out
	case "verify":
		return func() (out string) {
			defer func() {
				if r := recover(); r != nil {
					if os.Getenv("VERIF_STACK") != "" {
						fmt.Fprintf(os.Stderr, "panic: %v\n%s\n", r, debug.Stack())
					}
					out = "panic " + panicSite(debug.Stack())
					newWorld()
				}
			}()
			return doVerify(toks)
		}()
	}
	panic("harness: unknown op " + name)
}

func main() {
	Main(&Prop{Gen: c28Gen, Exec: c28Exec, Close: func() {
		if cur != nil {
			cur.close()
		}
	}})
}
