package main

// Grammar-based request generator.  Every route of the regenerated route table gets requests; routes
// with a schema below get mostly-valid parameters drawn from the live node (by symbol) which are then
// mutated (missing, duplicated, wrong type, boundary integers, huge, non-UTF-8, exponent-form
// amounts with BOUNDED exponents, hashes of spent / unknown / pooled objects); routes without a
// schema (new endpoints) get dictionary fuzzing and are listed in the evidence.

import (
	"encoding/json"
	"net/url"
	"os"
	"path/filepath"
	"sort"
	"strconv"
	"strings"

	. "verif/harness/hlib"
)

type routeT struct {
	Path    string              `json:"path"`
	GUI     bool                `json:"gui"`
	Methods map[string][]string `json:"methods"`
}

func loadRoutes() []routeT {
	p := os.Getenv("VERIF_ROUTES")
	if p == "" {
		exe, _ := os.Executable()
		p = filepath.Join(filepath.Dir(exe), "..", "lean", "Sky", "Gen", "routes.json")
	}
	b, err := os.ReadFile(p)
	if err != nil {
		panic("harness: cannot read route table " + p + ": " + err.Error())
	}
	var t struct {
		Routes []routeT `json:"routes"`
	}
	if err := json.Unmarshal(b, &t); err != nil {
		panic("harness: bad route table: " + err.Error())
	}
	var out []routeT
	for _, r := range t.Routes {
		if !r.GUI {
			out = append(out, r)
		}
	}
	return out
}

// ---- value pools (valid values are symbols resolved at execution time) -----------------------------

type gen struct{ r *Rng }

func (g gen) pick(xs ...string) string { return xs[g.r.Intn(len(xs))] }

var weirdInts = []string{"", "0", "1", "-1", "2", "7", "100", "101", "1000", "65536", "2147483647", "2147483648", "4294967295", "4294967296",
	"9223372036854775807", "9223372036854775808", "18446744073709551615", "18446744073709551616", "99999999999999999999999999",
	"1e3", "1.5", "0x10", "+5", " 5", "5 ", "٣", "NaN", "abc", "-0", "00000000000000000005", "%00", "1,2"}

var weirdStrs = []string{"", " ", "a", "null", "undefined", "../../../etc/passwd", "..", "/", "%00", "%ff%fe%fd", "\x00", "\xff\xfe",
	"💥", strings.Repeat("A", 5000), "{}", "[]", "'\"<>&;", "%", "%zz", "a,b,,c", ",", ",,,", "\t\n"}

// amounts: exponents are bounded (|e| <= 4000); the unbounded-exponent hang is a recorded finding (F16)
var amounts = []string{"1", "0.001", "0", "0.000001", "0.0000001", "-1", "1.0000001", "9223372036854.775807", "9223372036854.775808",
	"18446744073709.551615", "1e3", "1E-3", "1e-7", "1e400", "1e4000", "1e-4000", "-1e400", ".5", "5.", "+1", "1_000", "١", "", " 1", "NaN", "Inf",
	"0x1p3", "1e", "e5", "1.2.3", "1,5", "00001", "0e4000", "12345678901234567890123456789012345678901234567890"}

func (g gen) addr() string {
	return g.pick("{a0}", "{a1}", "{a2}", "{a3}", "{a4}", "{a5}", "{w0a0}", "{w0a1}", "{w0a2}", "{w1a0}", "{w1a1}", "{w2a0}", "{w2a1}", "{aunused}")
}
func (g gen) badAddr() string {
	return g.pick("2GgFvqoyk9RjwVzj8tqfcXVXB4orBwoc9qv", "0000000000000000000000000000000000", "{a0}x", "l{a1}", "1BcDeFgHiJ", "{tx1}", "bc1qar0srrr7xfkvy5l643lydnw9re59gtzzwf5mdq") // null-ish, bad checksum, not base58
}
func (g gen) txid() string {
	// confirmed, pooled, and well-formed ids of objects the node does not know
	return g.pick("{tx0}", "{tx1}", "{tx2}", "{tx3}", "{tx5}", "{tx8}", "{ptx0}", "{ptx1}", "{unk0}", "{unk1}", "{uxs0}")
}
func (g gen) badHash() string {
	return g.pick("0000000000000000000000000000000000000000000000000000000000000000", "ffffffffffffffffffffffffffffffffffffffffffffffffffffffffffffffff",
		"{tx1}00", "abcd", "zz{tx2}", "{uxs0}", "{bh2}", strings.Repeat("0", 63), strings.Repeat("f", 65))
}
func (g gen) uxid() string {
	return g.pick("{uxu0}", "{uxu1}", "{uxu3}", "{uxu6}", "{uxs0}", "{uxs1}", "{uxs3}", "{unk0}", "{unk2}", "{tx1}")
}
func (g gen) wid() string {
	// plain, encrypted, bip44, watch-only (xpub), and a well-formed id of no wallet
	return g.pick("{wid0}", "{wid1}", "{wid2}", "{wid3}", "{wid0}", "{wid1}", "{wid2}", "{wid3}", "unknown_wallet.wlt")
}
func (g gen) badWid() string {
	return g.pick("nope.wlt", "../c28_w0.wlt", "{wid0}.bak", "c28_w0", "/etc/passwd", ".wlt", strings.Repeat("w", 300)+".wlt")
}
func (g gen) seq() string {
	return g.pick("0", "1", "2", "3", "5", "{headseq}", "7", "8", "100")
}
func (g gen) boolv() string { return g.pick("1", "0", "true", "false", "t", "F", "TRUE") }
func (g gen) badBool() string {
	return g.pick("2", "yes", "", "tru", "null", "-1")
}
func (g gen) smallNum() string { return g.pick("1", "2", "3", "5", "10", "20") }

// structRaw names a structurally inconsistent transaction derived from base b ("" = any base)
func (g gen) structRaw(b string) string {
	if b == "" {
		b = structBases[g.r.Intn(len(structBases))]
	}
	return "{raw." + b + "." + structMuts[g.r.Intn(len(structMuts))] + "}"
}

func (g gen) signIndexes(m map[string]interface{}) {
	switch g.r.Intn(12) {
	case 0, 1, 2:
		// absent: sign everything that is unsigned
	case 3:
		m["sign_indexes"] = []interface{}{0}
	case 4:
		m["sign_indexes"] = []interface{}{0, 1}
	case 5:
		m["sign_indexes"] = []interface{}{1}
	case 6:
		m["sign_indexes"] = []interface{}{1, 0}
	case 7:
		m["sign_indexes"] = []interface{}{0, 0}
	case 8:
		m["sign_indexes"] = []interface{}{g.r.Intn(4), 2 + g.r.Intn(60)}
	case 9:
		m["sign_indexes"] = []interface{}{0, 1, 2, 3, 4, 5}
	case 10:
		m["sign_indexes"] = []interface{}{-1}
	case 11:
		m["sign_indexes"] = []interface{}{}
	}
}

func (g gen) rawKind() string {
	if g.r.Intn(8) == 0 {
		return "{raw.ds." + dsOwners[g.r.Intn(len(dsOwners))].name + "." + g.pick("a", "b", "c") + "}"
	}
	if g.r.Intn(2) == 0 {
		return g.structRaw("")
	}
	return "{raw." + g.pick(append(append([]string{}, txnKinds...), "trunc", "odd", "flip", "w0unsigned", "w2unsigned")...) + "}"
}
func (g gen) seed() string {
	return g.pick("{seed0}", "{seed1}", "{seed2}", mnemonic12, "some new seed "+strconv.Itoa(g.r.Intn(1000)))
}
func (g gen) wtype() string {
	return g.pick("deterministic", "deterministic", "bip44", "collection", "xpub")
}
func (g gen) password() string   { return g.pick("pw1", "pw1", "", "wrong", "pw1 ") }
func (g gen) weirdStr() string   { return weirdStrs[g.r.Intn(len(weirdStrs))] }
func (g gen) weirdInt() string   { return weirdInts[g.r.Intn(len(weirdInts))] }
func (g gen) amount() string     { return amounts[g.r.Intn(len(amounts))] }
func (g gen) goodAmount() string { return g.pick("1", "0.001", "2.5", "10", "0.5", "100") }

func (g gen) list(f func() string, bad func() string) string {
	n := g.r.Intn(4)
	var xs []string
	for i := 0; i <= n; i++ {
		if g.r.Intn(8) == 0 {
			xs = append(xs, bad())
		} else {
			xs = append(xs, f())
		}
	}
	return strings.Join(xs, g.pick(",", ",", ",", ", ", " ", ",,"))
}

// value of a form/query parameter by kind: (valid, malformed)
func (g gen) value(kind string) (string, string) {
	switch kind {
	case "addr":
		return g.addr(), g.pick(g.badAddr(), g.weirdStr())
	case "addrs":
		return g.list(g.addr, g.badAddr), g.pick(g.badAddr(), g.weirdStr(), strings.Repeat("{a1},", 300)+"{a2}")
	case "txid":
		return g.txid(), g.pick(g.badHash(), g.weirdStr())
	case "uxid":
		return g.uxid(), g.pick(g.badHash(), g.weirdStr())
	case "hashes":
		return g.list(g.uxid, g.badHash), g.pick(g.badHash(), g.weirdStr())
	case "bhash":
		return g.pick("{bh0}", "{bh1}", "{bh3}", "{bh6}", "{unk0}", "{tx2}"), g.pick(g.badHash(), g.weirdStr())
	case "seq", "start", "end":
		return g.seq(), g.weirdInt()
	case "seqs":
		return g.list(g.seq, g.weirdInt), g.pick(g.weirdInt(), g.weirdStr(), strings.Repeat("1,", 2000)+"2")
	case "num", "n", "limit", "page":
		return g.smallNum(), g.pick(g.weirdInt(), "0", "100", "101")
	case "count":
		// address counts cost milliseconds each and are unbounded in the API (finding F19): only
		// unparsable or small values are generated, the large-count witness is in the corpus
		return g.smallNum(), g.pick("", "0", "-1", "1.5", "1e3", "abc", "18446744073709551616", "99999999999999999999999999", "+5", " 5", "0x10",
			"٣", "%00", "00000000000000000005", "100", "101", "NaN", "1,2")
	case "bool":
		return g.boolv(), g.pick(g.badBool(), g.weirdStr())
	case "wid":
		return g.wid(), g.pick(g.badWid(), g.weirdStr())
	case "password":
		return g.password(), g.weirdStr()
	case "seed":
		return g.seed(), g.weirdStr()
	case "label":
		return g.pick("label", "my wallet", "w"), g.weirdStr()
	case "wtype":
		return g.wtype(), g.pick("Deterministic", "hd", g.weirdStr())
	case "coinint":
		return g.pick("8000", "0", "1"), g.weirdInt()
	case "entropy":
		return g.pick("128", "256"), g.pick(g.weirdInt(), "129", "512")
	case "stype":
		return g.pick("client", "txid"), g.pick("general", "Client", g.weirdStr())
	case "key":
		return g.pick("k0", "k1", "{tx1}", "note"), g.weirdStr()
	case "val":
		return g.pick("v", "some note", "{}"), g.weirdStr()
	case "gnetid":
		return g.pick("1", "2", "999"), g.weirdInt()
	case "ipport":
		return g.pick("127.0.0.1:6000", "10.0.0.1:6000"), g.pick("127.0.0.1", "[::1]:6000", ":6000", "host:port", g.weirdStr())
	case "states":
		return g.pick("pending", "connected", "introduced", "pending,connected"), g.pick("PENDING", "x", ",", g.weirdStr())
	case "direction":
		return g.pick("incoming", "outgoing"), g.pick("both", g.weirdStr())
	case "sort":
		return g.pick("asc", "desc", "ASC", " desc "), g.pick("up", g.weirdStr())
	case "skeys":
		return g.pick("{sk4}", "{sk4},{sk5}", ""), g.pick("{sk4}x", "{a0}", g.weirdStr())
	case "xpub":
		return "", g.pick("xpub661MyMwAqRbcFtXgS5sYJABqqG9YLmC4Q1Rdap9gSE8NqtwybGhePY2gZ29ESFjqJoCu1Rupje8YtGqsefD265TMg7usUDFdp6W1EGMcet8", "xpub", g.weirdStr())
	case "raw":
		return g.rawKind(), g.pick("", "zz", "00", strings.Repeat("00", 40000), g.weirdStr())
	}
	return g.weirdStr(), g.weirdStr()
}

type param struct{ name, kind string }

type endpoint struct {
	method string
	form   []param                 // query (GET/DELETE) or form body (POST) parameters
	json   func(g gen) interface{} // JSON body builder (nil: form endpoint)
}

func P(nameKind ...string) []param {
	var ps []param
	for i := 0; i+1 < len(nameKind); i += 2 {
		ps = append(ps, param{nameKind[i], nameKind[i+1]})
	}
	return ps
}

func (g gen) hoursSel() interface{} {
	m := map[string]interface{}{"type": g.pick("auto", "auto", "manual", "Auto", ""), "mode": g.pick("share", "share", "", "split")}
	switch g.r.Intn(4) {
	case 0:
	case 1:
		m["share_factor"] = g.pick("0.5", "0", "1", "0.25")
	default:
		m["share_factor"] = g.jsonWeird(g.pick("-1", "2", "1.0001", "abc", "1e2", "1e-4000", "1e4000", "", "NaN"))
	}
	return m
}

// a JSON value that is sometimes of the wrong type
func (g gen) jsonWeird(s string) interface{} {
	switch g.r.Intn(12) {
	case 0:
		return nil
	case 1:
		return 12345
	case 2:
		return 1.5e300
	case 3:
		return true
	case 4:
		return []interface{}{s}
	case 5:
		return map[string]interface{}{"x": s}
	case 6:
		return -1
	}
	return s
}

func (g gen) maybeWeird(valid string, bad string) interface{} {
	switch g.r.Intn(10) {
	case 0:
		return g.jsonWeird(bad)
	case 1:
		return bad
	}
	return valid
}

func (g gen) receivers() interface{} {
	n := 1 + g.r.Intn(3)
	if g.r.Intn(15) == 0 {
		n = 0
	}
	var out []interface{}
	for i := 0; i < n; i++ {
		m := map[string]interface{}{"address": g.maybeWeird(g.addr(), g.badAddr()), "coins": g.maybeWeird(g.goodAmount(), g.amount())}
		if g.r.Intn(2) == 0 {
			m["hours"] = g.maybeWeird(g.pick("1", "10", "0", "100"), g.weirdInt())
		}
		out = append(out, m)
	}
	if g.r.Intn(20) == 0 {
		return g.jsonWeird("to")
	}
	return out
}

// coherentTxnBody builds a request the node accepts (auto or manual hours selection, consistent
// receivers, a source that has coins); wallet = "" for POST /api/v2/transaction
func (g gen) coherentTxnBody(wallet string) map[string]interface{} {
	m := map[string]interface{}{}
	manual := g.r.Intn(3) == 0
	n := 1 + g.r.Intn(2)
	var to []interface{}
	for i := 0; i < n; i++ {
		rcv := map[string]interface{}{"address": g.addr(), "coins": g.pick("1", "0.001", "2.5", "0.5", "3")}
		if manual {
			rcv["hours"] = g.pick("1", "10", "0", "100")
		}
		to = append(to, rcv)
	}
	m["to"] = to
	if manual {
		m["hours_selection"] = map[string]interface{}{"type": "manual"}
	} else {
		m["hours_selection"] = map[string]interface{}{"type": "auto", "mode": "share", "share_factor": g.pick("0.5", "0", "1", "0.25")}
	}
	if g.r.Intn(3) == 0 {
		m["change_address"] = g.addr()
	}
	if g.r.Intn(4) == 0 {
		m["ignore_unconfirmed"] = true
	}
	switch wallet {
	case "":
		if g.r.Bool() {
			m["addresses"] = []interface{}{g.pick("{a3}", "{a4}", "{a1}", "{w0a0}", "{w2a0}")}
		} else {
			m["unspents"] = []interface{}{g.pick("{k3ux0}", "{k4ux0}", "{k1ux0}", "{w0ux0}", "{w0ux1}")}
		}
	default:
		i := wallet[len(wallet)-2 : len(wallet)-1] // {widN}
		m["wallet_id"] = wallet
		switch g.r.Intn(3) {
		case 0:
			m["addresses"] = []interface{}{"{w" + i + "a0}"}
		case 1:
			m["unspents"] = []interface{}{"{w" + i + "ux0}"}
		}
		if i == "1" {
			m["password"] = "pw1"
		}
		if g.r.Intn(3) == 0 {
			m["unsigned"] = true
			delete(m, "password")
		}
	}
	return m
}

func (g gen) createTxnBody() map[string]interface{} {
	if g.r.Intn(5) < 2 {
		return g.coherentTxnBody("")
	}
	m := map[string]interface{}{"hours_selection": g.hoursSel(), "to": g.receivers()}
	if g.r.Intn(2) == 0 {
		m["change_address"] = g.maybeWeird(g.addr(), g.badAddr())
	}
	if g.r.Intn(3) == 0 {
		m["ignore_unconfirmed"] = g.r.Bool()
	}
	switch g.r.Intn(4) {
	case 0:
		var xs []interface{}
		for i := 0; i <= g.r.Intn(3); i++ {
			xs = append(xs, g.maybeWeird(g.uxid(), g.badHash()))
		}
		m["unspents"] = xs
	case 1:
		var xs []interface{}
		for i := 0; i <= g.r.Intn(3); i++ {
			xs = append(xs, g.maybeWeird(g.addr(), g.badAddr()))
		}
		m["addresses"] = xs
	case 2:
		m["unspents"] = []interface{}{g.uxid()}
		m["addresses"] = []interface{}{g.addr()}
	}
	return m
}

var endpoints = map[string][]endpoint{
	"/":                                     {{method: "GET"}},
	"/api/v1/csrf":                          {{method: "GET"}},
	"/api/v1/version":                       {{method: "GET"}},
	"/api/v1/health":                        {{method: "GET"}},
	"/api/v1/wallet":                        {{method: "GET", form: P("id", "wid")}},
	"/api/v1/wallet/create":                 {{method: "POST", form: P("seed", "seed", "label", "label", "type", "wtype", "encrypt", "bool", "password", "password", "scan", "count", "bip44-coin", "coinint", "seed-passphrase", "password", "private-keys", "skeys", "xpub", "xpub")}},
	"/api/v1/wallet/createTemp":             {{method: "POST", form: P("seed", "seed", "label", "label", "type", "wtype", "scan", "count", "bip44-coin", "coinint", "seed-passphrase", "password", "private-keys", "skeys", "xpub", "xpub")}},
	"/api/v1/wallet/newAddress":             {{method: "POST", form: P("id", "wid", "num", "count", "password", "password", "private-keys", "skeys")}},
	"/api/v1/wallet/scan":                   {{method: "POST", form: P("id", "wid", "num", "count", "password", "password")}},
	"/api/v1/wallet/balance":                {{method: "GET", form: P("id", "wid")}},
	"/api/v1/wallet/transactions":           {{method: "GET", form: P("id", "wid", "verbose", "bool")}},
	"/api/v1/wallet/update":                 {{method: "POST", form: P("id", "wid", "label", "label")}},
	"/api/v1/wallets":                       {{method: "GET"}},
	"/api/v1/wallets/folderName":            {{method: "GET"}},
	"/api/v1/wallet/newSeed":                {{method: "GET", form: P("entropy", "entropy")}},
	"/api/v1/wallet/seed":                   {{method: "POST", form: P("id", "wid", "password", "password")}},
	"/api/v1/wallet/unload":                 {{method: "POST", form: P("id", "wid")}},
	"/api/v1/wallet/encrypt":                {{method: "POST", form: P("id", "wid", "password", "password")}},
	"/api/v1/wallet/decrypt":                {{method: "POST", form: P("id", "wid", "password", "password")}},
	"/api/v1/blockchain/metadata":           {{method: "GET"}},
	"/api/v1/blockchain/progress":           {{method: "GET"}},
	"/api/v1/block":                         {{method: "GET", form: P("hash", "bhash", "verbose", "bool")}, {method: "GET", form: P("seq", "seq", "verbose", "bool")}, {method: "GET", form: P("hash", "bhash", "seq", "seq")}},
	"/api/v1/blocks":                        {{method: "GET", form: P("start", "start", "end", "end", "verbose", "bool")}, {method: "POST", form: P("seqs", "seqs", "verbose", "bool")}, {method: "GET", form: P("start", "start", "end", "end", "seqs", "seqs")}},
	"/api/v1/last_blocks":                   {{method: "GET", form: P("num", "num", "verbose", "bool")}},
	"/api/v1/network/connection":            {{method: "GET", form: P("addr", "ipport")}},
	"/api/v1/network/connections":           {{method: "GET", form: P("states", "states", "direction", "direction")}},
	"/api/v1/network/defaultConnections":    {{method: "GET"}},
	"/api/v1/network/connections/trust":     {{method: "GET"}},
	"/api/v1/network/connections/exchange":  {{method: "GET"}},
	"/api/v1/network/connection/disconnect": {{method: "POST", form: P("id", "gnetid")}},
	"/api/v1/pendingTxs":                    {{method: "GET", form: P("verbose", "bool")}},
	"/api/v1/transaction":                   {{method: "GET", form: P("txid", "txid", "verbose", "bool", "encoded", "bool")}},
	"/api/v1/transactions":                  {{method: "GET", form: P("addrs", "addrs", "confirmed", "bool", "verbose", "bool")}, {method: "POST", form: P("addrs", "addrs", "confirmed", "bool", "verbose", "bool")}},
	"/api/v1/transactions/num":              {{method: "GET"}},
	"/api/v2/transactions":                  {{method: "GET", form: P("addrs", "addrs", "confirmed", "bool", "verbose", "bool", "sort", "sort", "limit", "limit", "page", "page")}},
	"/api/v1/resendUnconfirmedTxns":         {{method: "POST"}},
	"/api/v1/rawtx":                         {{method: "GET", form: P("txid", "txid")}},
	"/api/v1/outputs":                       {{method: "GET", form: P("addrs", "addrs")}, {method: "POST", form: P("hashes", "hashes")}, {method: "GET", form: P("addrs", "addrs", "hashes", "hashes")}},
	"/api/v1/balance":                       {{method: "GET", form: P("addrs", "addrs")}, {method: "POST", form: P("addrs", "addrs")}},
	"/api/v1/uxout":                         {{method: "GET", form: P("uxid", "uxid")}},
	"/api/v1/address_uxouts":                {{method: "GET", form: P("address", "addr")}},
	"/api/v1/coinSupply":                    {{method: "GET"}},
	"/api/v1/richlist":                      {{method: "GET", form: P("n", "n", "include-distribution", "bool")}},
	"/api/v1/addresscount":                  {{method: "GET"}},
	"/api/v2/data": {{method: "GET", form: P("type", "stype", "key", "key")}, {method: "DELETE", form: P("type", "stype", "key", "key")},
		{method: "POST", json: func(g gen) interface{} {
			return map[string]interface{}{"type": g.maybeWeird(g.pick("client", "txid"), "general"), "key": g.maybeWeird(g.pick("k1", "k2", "{tx1}"), g.weirdStr()),
				"val": g.maybeWeird("value", g.weirdStr())}
		}}},
	"/api/v2/address/verify": {{method: "POST", json: func(g gen) interface{} {
		return map[string]interface{}{"address": g.maybeWeird(g.addr(), g.badAddr())}
	}}},
	"/api/v2/wallet/seed/verify": {{method: "POST", json: func(g gen) interface{} {
		return map[string]interface{}{"seed": g.maybeWeird(g.pick(mnemonic12, bip44Seed), g.pick("not a mnemonic", "abandon abandon", g.weirdStr()))}
	}}},
	"/api/v2/wallet/recover": {{method: "POST", json: func(g gen) interface{} {
		return map[string]interface{}{"id": g.maybeWeird(g.pick("{wid1}", "{wid1}", "{wid0}"), g.badWid()), "seed": g.maybeWeird(g.pick("{seed1}", "{seed1}", "{seed0}"), g.weirdStr()),
			"seed_passphrase": g.maybeWeird("", "x"), "password": g.maybeWeird(g.password(), g.weirdStr())}
	}}},
	"/api/v2/transaction/verify": {{method: "POST", json: func(g gen) interface{} {
		v, bad := g.value("raw")
		return map[string]interface{}{"unsigned": g.r.Intn(4) == 0, "encoded_transaction": g.maybeWeird(v, bad)}
	}}},
	"/api/v1/injectTransaction": {{method: "POST", json: func(g gen) interface{} {
		v, bad := g.value("raw")
		return map[string]interface{}{"rawtx": g.maybeWeird(v, bad), "no_broadcast": g.r.Intn(3) != 0}
	}}},
	"/api/v2/wallet/transaction/sign": {{method: "POST", json: func(g gen) interface{} {
		v, bad := g.value("raw")
		if g.r.Intn(2) == 0 {
			// the right (or a wrong / locked / missing) wallet for a structurally mutated transaction over its own unspents
			b := g.pick("w0two", "w0two", "w1two", "w2one", "k3one")
			wid := map[string]string{"w0two": "{wid0}", "w1two": "{wid1}", "w2one": "{wid2}", "k3one": "{wid0}"}[b]
			if g.r.Intn(6) == 0 {
				wid = g.pick("{wid0}", "{wid1}", "{wid2}", "{wid3}", "{wid3}", "unknown_wallet.wlt")
			}
			m := map[string]interface{}{"wallet_id": wid, "encoded_transaction": g.structRaw(b)}
			if wid == "{wid1}" || g.r.Intn(10) == 0 {
				m["password"] = g.pick("pw1", "pw1", "pw1", "wrong", "")
			}
			g.signIndexes(m)
			return m
		}
		if g.r.Intn(3) == 0 {
			// coherent: the wallet's own unsigned transaction
			i := g.pick("0", "2")
			m := map[string]interface{}{"wallet_id": "{wid" + i + "}", "encoded_transaction": "{raw.w" + i + "unsigned}"}
			if g.r.Bool() {
				m["sign_indexes"] = []interface{}{0}
			}
			return m
		}
		m := map[string]interface{}{"wallet_id": g.maybeWeird(g.wid(), g.badWid()), "password": g.maybeWeird(g.password(), g.weirdStr()),
			"encoded_transaction": g.maybeWeird(v, bad)}
		switch g.r.Intn(4) {
		case 0:
			m["sign_indexes"] = []interface{}{0}
		case 1:
			m["sign_indexes"] = []interface{}{g.pick("0", "1"), -1, 99999999999, 1.5}[:1+g.r.Intn(4)]
		case 2:
			m["sign_indexes"] = []interface{}{0, 0, 1, 5, 1000}
		}
		return m
	}}},
	"/api/v2/transaction": {{method: "POST", json: func(g gen) interface{} { return g.createTxnBody() }}},
	"/api/v1/wallet/transaction": {{method: "POST", json: func(g gen) interface{} {
		if g.r.Intn(5) < 2 {
			return g.coherentTxnBody(g.pick("{wid0}", "{wid1}", "{wid2}", "{wid3}"))
		}
		m := g.createTxnBody()
		m["wallet_id"] = g.maybeWeird(g.wid(), g.badWid())
		if g.r.Intn(2) == 0 {
			m["password"] = g.maybeWeird(g.password(), g.weirdStr())
		}
		if g.r.Intn(3) == 0 {
			m["unsigned"] = g.r.Bool()
		}
		return m
	}}},
}

func esc(s string) string { return url.QueryEscape(s) }

// formEncode keeps {symbols} and deliberately raw garbage (%zz, %ff) as they are
func formEncode(kvs [][2]string) string {
	var parts []string
	for _, kv := range kvs {
		v := kv[1]
		if strings.ContainsAny(v, "%") && !strings.Contains(v, " ") {
			parts = append(parts, kv[0]+"="+v) // raw percent garbage
			continue
		}
		e := url.QueryEscape(v)
		e = strings.NewReplacer("%7B", "{", "%7D", "}").Replace(e)
		parts = append(parts, kv[0]+"="+e)
	}
	return strings.Join(parts, "&")
}

// coherentWalletCreate: a parameter set the wallet service accepts (the per-parameter choice below almost
// never produces one: ten parameters with cross-constraints)
func (g gen) coherentWalletCreate(path string) string {
	kvs := [][2]string{{"label", g.pick("fresh", "my wallet")}}
	switch g.r.Intn(3) {
	case 0, 1:
		kvs = append(kvs, [2]string{"type", "deterministic"}, [2]string{"seed", "fresh seed " + strconv.Itoa(g.r.Intn(100000))})
	case 2:
		kvs = append(kvs, [2]string{"type", "bip44"}, [2]string{"seed", g.pick(mnemonic12, "legal winner thank year wave sausage worth useful legal winner thank year wave sausage worth useful legal will")})
		if g.r.Bool() {
			kvs = append(kvs, [2]string{"seed-passphrase", "pp" + strconv.Itoa(g.r.Intn(1000))})
		}
	}
	if path == "/api/v1/wallet/create" {
		if g.r.Bool() {
			kvs = append(kvs, [2]string{"encrypt", "true"}, [2]string{"password", "pw1"})
		} else {
			kvs = append(kvs, [2]string{"encrypt", "false"})
		}
	}
	if g.r.Bool() {
		kvs = append(kvs, [2]string{"scan", g.pick("1", "2", "5")})
	}
	return "http m=POST p=" + path + " q= ct=form b=" + esc(formEncode(kvs))
}

func (g gen) formRequest(path string, ep endpoint) string {
	if (path == "/api/v1/wallet/create" || path == "/api/v1/wallet/createTemp") && g.r.Intn(4) == 0 {
		return g.coherentWalletCreate(path)
	}
	var kvs [][2]string
	for _, p := range ep.form {
		valid, bad := g.value(p.kind)
		switch x := g.r.Intn(20); {
		case x < 13:
			kvs = append(kvs, [2]string{p.name, valid})
		case x < 16:
			kvs = append(kvs, [2]string{p.name, bad})
		case x == 16:
			kvs = append(kvs, [2]string{p.name, valid}, [2]string{p.name, bad}) // duplicated
		case x == 17:
			kvs = append(kvs, [2]string{p.name, ""})
		default: // missing
		}
	}
	if g.r.Intn(15) == 0 {
		kvs = append(kvs, [2]string{g.pick("verbose", "id", "x", "v2", "addrs"), g.weirdStr()})
	}
	m := ep.method
	if g.r.Intn(25) == 0 {
		m = g.pick("GET", "POST", "PUT", "DELETE", "HEAD", "OPTIONS", "PATCH")
	}
	enc := formEncode(kvs)
	if m == "POST" || m == "PUT" || m == "PATCH" {
		switch g.r.Intn(10) {
		case 0: // parameters in the query although it is a POST
			return "http m=" + m + " p=" + path + " q=" + esc(enc) + " ct=none b="
		case 1: // form body declared as JSON / text
			return "http m=" + m + " p=" + path + " q= ct=" + g.pick("json", "text", "none") + " b=" + esc(enc)
		}
		return "http m=" + m + " p=" + path + " q= ct=form b=" + esc(enc)
	}
	return "http m=" + m + " p=" + path + " q=" + esc(enc) + " ct=none b="
}

func (g gen) mutateJSON(s string) string {
	switch g.r.Intn(14) {
	case 0:
		return ""
	case 1:
		return s[:len(s)/2]
	case 2:
		return "[" + s + "]"
	case 3:
		return "null"
	case 4:
		return "\"" + strings.ReplaceAll(s, "\"", "") + "\""
	case 5:
		return s + s
	case 6:
		return strings.Repeat("[", 3000) + strings.Repeat("]", 3000)
	case 7:
		return strings.Replace(s, "{", "{\"extra\":{\"a\":[1,2,{\"b\":null}]},", 1)
	case 8:
		return strings.ReplaceAll(s, "\"", "'")
	case 9:
		return "{\"a\":\"" + strings.Repeat("x", 200000) + "\"}"
	case 10:
		return strings.Replace(s, ":", ":\xff\xfe", 1)
	case 11:
		return "12345"
	case 12:
		return "{}"
	}
	return s
}

func (g gen) jsonRequest(path string, ep endpoint) string {
	b, err := json.Marshal(ep.json(g))
	if err != nil {
		b = []byte("{}")
	}
	body := string(b)
	if g.r.Intn(7) == 0 {
		body = g.mutateJSON(body)
	}
	m := ep.method
	if g.r.Intn(25) == 0 {
		m = g.pick("GET", "PUT", "DELETE", "HEAD", "PATCH")
	}
	ct := "json"
	if g.r.Intn(20) == 0 {
		ct = g.pick("form", "text", "none")
	}
	return "http m=" + m + " p=" + path + " q= ct=" + ct + " b=" + esc(body)
}

func (g gen) genericRequest(path string) string {
	names := []string{"id", "addrs", "txid", "seq", "verbose", "hash", "num", "type", "key", "password", "uxid", "address", "limit", "page"}
	var kvs [][2]string
	for i := 0; i < g.r.Intn(4); i++ {
		n := names[g.r.Intn(len(names))]
		v, bad := g.value(g.pick("addr", "txid", "seq", "bool", "wid", "uxid", "count"))
		if g.r.Bool() {
			v = bad
		}
		kvs = append(kvs, [2]string{n, v})
	}
	m := g.pick("GET", "POST", "GET", "POST", "DELETE", "PUT", "HEAD", "OPTIONS")
	if m == "POST" || m == "PUT" {
		if g.r.Bool() {
			return "http m=" + m + " p=" + path + " q= ct=json b=" + esc(g.mutateJSON("{\"id\":\"{wid0}\",\"address\":\"{a0}\"}"))
		}
		return "http m=" + m + " p=" + path + " q= ct=form b=" + esc(formEncode(kvs))
	}
	return "http m=" + m + " p=" + path + " q=" + esc(formEncode(kvs)) + " ct=none b="
}

func httpGet(path, query string) string {
	return "http m=GET p=" + path + " q=" + esc(query) + " ct=none b="
}
func httpForm(path, body string) string {
	return "http m=POST p=" + path + " q= ct=form b=" + esc(body)
}
func httpJSON(path string, v interface{}) string {
	b, _ := json.Marshal(v)
	return "http m=POST p=" + path + " q= ct=json b=" + esc(string(b))
}

// poolConflict puts two or three individually valid transactions that spend the SAME output of `o` into
// the unconfirmed pool (the node accepts each: it is checked against the confirmed chain only) and then
// asks every view that combines confirmed outputs with the pool about the owner and the receivers.
func (g gen) poolConflict(emit func(string), oi int) {
	o := dsOwners[oi]
	vs := []string{"a", "b", "c"}
	n := 2 + g.r.Intn(2)
	for _, v := range vs[:n] {
		emit(httpJSON("/api/v1/injectTransaction", map[string]interface{}{"rawtx": "{raw.ds." + o.name + "." + v + "}", "no_broadcast": true}))
	}
	// in half of the cases the publisher then confirms ONE of the conflicting spends: the others stay in the
	// pool as stale transactions (an input is gone) until the next pool refresh, which the API never triggers
	if g.r.Bool() {
		emit("block t=raw.ds." + o.name + "." + vs[g.r.Intn(n)])
	}
	A := "{" + o.addr + "}"
	qs := []string{
		httpGet("/api/v1/balance", "addrs="+A),
		httpForm("/api/v1/balance", "addrs="+A+",{a1},{a5}"),
		httpGet("/api/v1/balance", "addrs={a1},{a5},{w0a2}"),
		httpGet("/api/v1/balance", "addrs={a0},{a1},{a2},{a3},{a4},{a5},{w0a0},{w0a1},{w0a2},{w1a0},{w1a1},{w2a0},{w2a1}"),
		httpGet("/api/v1/outputs", "addrs="+A),
		httpGet("/api/v1/outputs", "hashes={dsux."+o.name+"}"),
		httpGet("/api/v1/outputs", ""),
		httpGet("/api/v1/pendingTxs", "verbose=1"),
		httpGet("/api/v1/pendingTxs", ""),
		httpGet("/api/v1/transactions", "addrs="+A+"&verbose=1&confirmed=0"),
		httpGet("/api/v1/transactions", "addrs="+A+"&verbose=1"),
		httpGet("/api/v1/transactions", "addrs="+A+",{a1}&confirmed=0"),
		httpGet("/api/v2/transactions", "addrs="+A+"&verbose=1&limit=5&page=1"),
		httpGet("/api/v2/transactions", "addrs={a1},{a5}&confirmed=0&sort=desc"),
		httpGet("/api/v1/transaction", "txid={dstx."+o.name+".a}&verbose=1"),
		httpGet("/api/v1/transaction", "txid={dstx."+o.name+".b}&encoded=1"),
		httpGet("/api/v1/rawtx", "txid={dstx."+o.name+".b}"),
		httpGet("/api/v1/uxout", "uxid={dsux."+o.name+"}"),
		httpGet("/api/v1/address_uxouts", "address="+A),
		httpGet("/api/v1/coinSupply", ""),
		httpGet("/api/v1/richlist", "n=5"),
		httpGet("/api/v1/addresscount", ""),
		httpGet("/api/v1/wallets", ""),
		httpJSON("/api/v2/transaction/verify", map[string]interface{}{"encoded_transaction": "{raw.ds." + o.name + ".c}"}),
		httpJSON("/api/v2/transaction", map[string]interface{}{"hours_selection": map[string]interface{}{"type": "auto", "mode": "share", "share_factor": "0.5"},
			"addresses": []interface{}{A}, "to": []interface{}{map[string]interface{}{"address": "{a1}", "coins": "0.5"}}}),
		httpJSON("/api/v2/transaction", map[string]interface{}{"hours_selection": map[string]interface{}{"type": "auto", "mode": "share", "share_factor": "0.5"},
			"ignore_unconfirmed": true, "unspents": []interface{}{"{dsux." + o.name + "}"}, "to": []interface{}{map[string]interface{}{"address": "{a1}", "coins": "0.5"}}}),
		"http m=POST p=/api/v1/resendUnconfirmedTxns q= ct=none b=",
		httpGet("/api/v1/health", ""),
	}
	if o.wid != "" {
		qs = append(qs,
			httpGet("/api/v1/wallet/balance", "id="+o.wid),
			httpGet("/api/v1/wallet/transactions", "id="+o.wid+"&verbose=1"),
			httpGet("/api/v1/wallet/transactions", "id="+o.wid),
			httpGet("/api/v1/wallet", "id="+o.wid),
			httpJSON("/api/v1/wallet/transaction", map[string]interface{}{"wallet_id": o.wid, "unsigned": true,
				"hours_selection": map[string]interface{}{"type": "auto", "mode": "share", "share_factor": "0.5"},
				"to":              []interface{}{map[string]interface{}{"address": "{a1}", "coins": "0.5"}}}),
		)
	}
	// all of them, in a seeded order
	for i := len(qs) - 1; i > 0; i-- {
		j := g.r.Intn(i + 1)
		qs[i], qs[j] = qs[j], qs[i]
	}
	for _, q := range qs {
		emit(q)
	}
}

func c28Gen(r *Rng, tier string, emit func(string)) {
	// hlib seeds SplitMix64 with seed*GOLDEN+c, so consecutive seeds give the same stream shifted by one
	// draw; re-seed from the first output to get unrelated streams per seed
	r = NewRng(r.U64() ^ 0x5DEECE66D)
	routes := loadRoutes()
	g := gen{r}
	cases, perCase := 30, 450
	if tier == "thorough" {
		cases, perCase = 300, 800
	}
	var paths []string
	for _, rt := range routes {
		paths = append(paths, rt.Path)
	}
	sort.Strings(paths)
	extra := []string{"/api/v1/nonexistent", "/api/v2/nonexistent", "/api/v1/wallet/", "/v2", "/api/v1/transaction/v2"}

	verifyOps := func() {
		w := cur
		for _, k := range txnKinds {
			_, f := w.txnOfKind(k)
			ins := strings.Join(f.ins, ",")
			if ins == "" {
				ins = "-"
			}
			for _, u := range []string{"0", "1"} {
				checks := f.checks
				if u == "1" && (k == "unsigned") {
					checks = "ok"
				} else if u == "1" && (checks == "ok") {
					checks = "hard" // a signed transaction verified as "unsigned" violates a hard constraint
				}
				emit("verify k=" + k + " u=" + u + " ins=" + ins + " hist=" + f.hist + " prev=" + f.prev + " head=" + strconv.FormatUint(w.now, 10) + " checks=" + checks)
			}
		}
	}

	for c := 0; c < cases; c++ {
		emit("reset")
		// the modelled entry point first, on the fresh node
		verifyOps()
		// every route once with its plain documented request, then the mutated stream
		if c == 0 {
			for _, p := range paths {
				for _, ep := range endpoints[p] {
					if ep.json != nil {
						emit(g.jsonRequest(p, ep))
					} else {
						emit(g.formRequest(p, ep))
					}
				}
			}
		}
		// conflicting spends of one output in the pool, for one or two owners, early or in the middle of the stream
		conflictAt := map[int]int{}
		if c%2 == 0 || r.Intn(3) == 0 {
			conflictAt[r.Intn(perCase/2)] = c / 2 % len(dsOwners)
			if r.Bool() {
				conflictAt[perCase/2+r.Intn(perCase/2)] = r.Intn(len(dsOwners))
			}
		}
		for i := 0; i < perCase; i++ {
			if oi, ok := conflictAt[i]; ok {
				g.poolConflict(emit, oi)
			}
			p := paths[r.Intn(len(paths))]
			// weight the transaction / wallet-spend endpoints (the deepest logic behind the API)
			switch r.Intn(10) {
			case 0:
				p = "/api/v2/transaction/verify"
			case 1:
				p = g.pick("/api/v2/transaction", "/api/v1/wallet/transaction")
			case 2:
				p = g.pick("/api/v1/injectTransaction", "/api/v2/wallet/transaction/sign", "/api/v2/transactions", "/api/v1/transactions")
			}
			eps, ok := endpoints[p]
			switch {
			case r.Intn(40) == 0:
				emit(g.genericRequest(extra[r.Intn(len(extra))]))
			case !ok || r.Intn(30) == 0:
				emit(g.genericRequest(p))
			default:
				ep := eps[r.Intn(len(eps))]
				if ep.json != nil {
					emit(g.jsonRequest(p, ep))
				} else {
					emit(g.formRequest(p, ep))
				}
			}
		}
		// the node must still be healthy after the stream
		emit("http m=GET p=/api/v1/health q= ct=none b=")
		emit("http m=GET p=/api/v1/blockchain/metadata q= ct=none b=")
		verifyOps()
	}
}
