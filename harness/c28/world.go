package main

// C28 world: a REAL node in-process — real visor on a scratch bolt database with a signed chain of
// several blocks and a non-empty unconfirmed pool, real wallet service with three wallets (plain,
// encrypted, bip44) holding coins, real kvstorage manager, real daemon object (networking disabled,
// never started), real api.Gateway and the real server mux.
//
// Transaction hashes depend on random signature nonces, so op lines never contain them: they refer
// to live objects by SYMBOL ({tx2}, {uxs0}, {w0a1}, {raw.spent} …) resolved against the world at
// execution time.  The world is built the same way every time, so a symbol names the same
// structural object in every run.

import (
	"encoding/hex"
	"encoding/json"
	"fmt"
	"net/http"
	"os"
	"path/filepath"
	"sort"
	"strconv"
	"strings"

	"github.com/skycoin/skycoin/src/api"
	"github.com/skycoin/skycoin/src/cipher"
	"github.com/skycoin/skycoin/src/cipher/bip39"
	"github.com/skycoin/skycoin/src/cipher/bip44"
	"github.com/skycoin/skycoin/src/cipher/crypto"
	"github.com/skycoin/skycoin/src/coin"
	"github.com/skycoin/skycoin/src/daemon"
	"github.com/skycoin/skycoin/src/daemon/gnet"
	"github.com/skycoin/skycoin/src/kvstorage"
	"github.com/skycoin/skycoin/src/params"
	"github.com/skycoin/skycoin/src/util/useragent"
	"github.com/skycoin/skycoin/src/visor"
	"github.com/skycoin/skycoin/src/visor/dbutil"
	"github.com/skycoin/skycoin/src/wallet"
	_ "github.com/skycoin/skycoin/src/wallet/bip44wallet"
	_ "github.com/skycoin/skycoin/src/wallet/collection"
	_ "github.com/skycoin/skycoin/src/wallet/deterministic"
	_ "github.com/skycoin/skycoin/src/wallet/xpubwallet"
)

const (
	nKeys      = 6
	genesisT   = 1500000000
	bip44Seed  = "abandon abandon abandon abandon abandon abandon abandon abandon abandon abandon abandon about"
	mnemonic12 = "legal winner thank year wave sausage worth useful legal winner thank yellow"
)

type world struct {
	dir    string
	db     *dbutil.DB
	v      *visor.Visor
	ws     *wallet.Service
	kv     *kvstorage.Manager
	dm     *daemon.Daemon
	mux    *http.ServeMux
	pubSec cipher.SecKey
	secs   []cipher.SecKey
	addrs  []cipher.Address
	keyOf  map[cipher.Address]int
	now    uint64
	sym    map[string]string

	// the harness's own bookkeeping of the chain it built (never read back from the code under test)
	created   map[cipher.SHA256]cipher.Address // every output ever created -> owner
	spent     map[cipher.SHA256]bool           // outputs consumed by a confirmed transaction
	inPool    map[cipher.SHA256]bool           // outputs consumed by a pool transaction
	txSeq     map[cipher.SHA256]uint64         // confirmed txn -> block seq
	blockTime []uint64                         // by seq
	confirmed []coin.Transaction
	pool      []coin.Transaction
	uxOf      map[cipher.SHA256]coin.UxOut
	secOf     map[cipher.Address]cipher.SecKey // raw keys and wallet addresses the harness can sign for
}

var (
	cur        *world
	worldCount int
)

func must(err error, what string) {
	if err != nil {
		panic("harness: " + what + ": " + err.Error())
	}
}

func (w *world) close() {
	if w == nil {
		return
	}
	if w.db != nil {
		w.db.Close()
	}
	os.RemoveAll(w.dir)
}

func newWorld() *world {
	if cur != nil {
		cur.close()
		cur = nil
	}
	scratch := os.Getenv("VERIF_SCRATCH")
	if scratch == "" {
		scratch = os.TempDir()
	}
	worldCount++
	dir := filepath.Join(scratch, fmt.Sprintf("c28-%d-%d", os.Getpid(), worldCount))
	must(os.MkdirAll(filepath.Join(dir, "wallets"), 0o700), "mkdir")
	w := &world{dir: dir, now: genesisT, sym: map[string]string{}, keyOf: map[cipher.Address]int{},
		created: map[cipher.SHA256]cipher.Address{}, spent: map[cipher.SHA256]bool{}, inPool: map[cipher.SHA256]bool{},
		txSeq: map[cipher.SHA256]uint64{}, uxOf: map[cipher.SHA256]coin.UxOut{}, secOf: map[cipher.Address]cipher.SecKey{}}
	pub, sec := cipher.MustGenerateDeterministicKeyPair([]byte("c28-publisher"))
	w.pubSec = sec
	for i := 0; i < nKeys; i++ {
		p, s := cipher.MustGenerateDeterministicKeyPair([]byte("c28-key-" + strconv.Itoa(i)))
		a := cipher.AddressFromPubKey(p)
		w.secs = append(w.secs, s)
		w.addrs = append(w.addrs, a)
		w.keyOf[a] = i
		w.secOf[a] = s
		w.sym["a"+strconv.Itoa(i)] = a.String()
		w.sym["sk"+strconv.Itoa(i)] = s.Hex()
	}

	// --- wallet service with three wallets ---
	wc := wallet.NewConfig()
	wc.WalletDir = filepath.Join(dir, "wallets")
	wc.CryptoType = crypto.CryptoTypeSha256Xor // fast; the scrypt default takes seconds per operation
	wc.EnableWalletAPI = true
	wc.EnableSeedAPI = true
	ws, err := wallet.NewService(wc)
	must(err, "wallet.NewService")
	w.ws = ws
	mk := func(i int, name string, o wallet.Options) {
		wl, err := ws.CreateWallet(name, o)
		must(err, "CreateWallet "+name)
		as, err := wl.GetAddresses()
		must(err, "GetAddresses")
		w.sym["wid"+strconv.Itoa(i)] = wl.Filename()
		for j, a := range as {
			w.sym["w"+strconv.Itoa(i)+"a"+strconv.Itoa(j)] = a.String()
		}
		// secret keys of the wallet's addresses (the harness plays the wallet's owner when it needs
		// independently signed spends of wallet outputs, e.g. conflicting pool transactions)
		if es, err := wl.GetEntries(); err == nil {
			for _, e := range es {
				if e.Secret != (cipher.SecKey{}) {
					w.secOf[e.SkycoinAddress()] = e.Secret
				}
			}
		}
		if o.Type == wallet.WalletTypeDeterministic && o.Encrypt {
			_, secs := cipher.MustGenerateDeterministicKeyPairsSeed([]byte(o.Seed), int(o.GenerateN))
			for _, sk := range secs {
				w.secOf[cipher.MustAddressFromSecKey(sk)] = sk
			}
		}
	}
	mk(0, "c28_w0.wlt", wallet.Options{Type: wallet.WalletTypeDeterministic, Seed: "c28 wallet zero seed", Label: "w0", GenerateN: 3,
		CryptoType: crypto.CryptoTypeSha256Xor})
	mk(1, "c28_w1.wlt", wallet.Options{Type: wallet.WalletTypeDeterministic, Seed: "c28 wallet one seed", Label: "w1", GenerateN: 2,
		Encrypt: true, Password: []byte("pw1"), CryptoType: crypto.CryptoTypeSha256Xor})
	mk(2, "c28_w2.wlt", wallet.Options{Type: wallet.WalletTypeBip44, Seed: bip44Seed, Label: "w2", GenerateN: 2, CryptoType: crypto.CryptoTypeSha256Xor})
	// a watch-only (xpub) wallet over the external chain of the bip44 wallet's account: same, funded, addresses
	bseed, err := bip39.NewSeed(bip44Seed, "")
	must(err, "bip39.NewSeed")
	bcoin, err := bip44.NewCoin(bseed, bip44.CoinTypeSkycoin)
	must(err, "bip44.NewCoin")
	acct, err := bcoin.Account(0)
	must(err, "Account")
	ext, err := acct.External()
	must(err, "External")
	w.sym["xpub3"] = ext.PublicKey().String()
	mk(3, "c28_w3.wlt", wallet.Options{Type: wallet.WalletTypeXPub, XPub: w.sym["xpub3"], Label: "w3", GenerateN: 2})
	if w.sym["w3a0"] != w.sym["w2a0"] {
		panic("harness: the xpub wallet does not watch the bip44 wallet's first address")
	}
	w.sym["seed0"] = "c28 wallet zero seed"
	w.sym["seed1"] = "c28 wallet one seed"
	w.sym["seed2"] = bip44Seed

	// --- visor ---
	cfg := visor.NewConfig()
	cfg.IsBlockPublisher = true
	cfg.BlockchainPubkey = pub
	cfg.BlockchainSeckey = sec
	cfg.GenesisAddress = w.addrs[0]
	cfg.GenesisTimestamp = genesisT
	cfg.GenesisCoinVolume = 100e12
	cfg.Distribution = params.MainNetDistribution
	db, err := visor.OpenDB(filepath.Join(dir, "data.db"), false)
	must(err, "OpenDB")
	w.db = db
	v, err := visor.New(cfg, db, ws)
	must(err, "visor.New")
	must(v.Init(), "visor.Init")
	w.v = v
	gb, err := v.GetSignedBlockBySeq(0)
	if err != nil || gb == nil {
		panic("harness: no genesis block")
	}
	w.record(gb)

	// --- chain ---
	wa := func(s string) cipher.Address { return cipher.MustDecodeBase58Address(w.sym[s]) }
	w.pay(0, []cipher.Address{wa("w0a0"), wa("w1a0"), wa("w2a0"), w.addrs[1]}, []uint64{1000e6, 500e6, 300e6, 2000e6})
	w.block()
	w.pay(1, []cipher.Address{w.addrs[2], wa("w0a1")}, []uint64{800e6, 200e6})
	w.block()
	w.pay(2, []cipher.Address{w.addrs[3]}, []uint64{300e6})
	w.pay(0, []cipher.Address{w.addrs[4]}, []uint64{100e6})
	w.block()
	w.pay(3, []cipher.Address{w.addrs[5]}, []uint64{100e6})
	w.block()
	w.pay(1, []cipher.Address{wa("w0a0"), wa("w1a1")}, []uint64{50e6, 25e6})
	w.block()
	w.pay(4, []cipher.Address{w.addrs[4]}, []uint64{40e6})
	w.pay(2, []cipher.Address{w.addrs[0]}, []uint64{10e6})
	w.block()
	// unconfirmed pool
	w.pay(5, []cipher.Address{w.addrs[0]}, []uint64{30e6})
	w.pay(0, []cipher.Address{wa("w0a2")}, []uint64{5e6})

	// --- daemon object (never run), storage, gateway, mux ---
	gnet.EraseMessages()
	dc := daemon.NewConfig()
	dc.Daemon.DisableNetworking = true
	dc.Daemon.UserAgent = useragent.Data{Coin: "skycoin", Version: "0.27.0"}
	dc.Daemon.DataDirectory = dir
	dc.Pex.DataDirectory = dir
	dc.Pex.DownloadPeerList = false
	dc.Pex.DefaultConnections = nil
	dm, err := daemon.New(dc, v)
	must(err, "daemon.New")
	w.dm = dm
	kc := kvstorage.NewConfig()
	kc.StorageDir = filepath.Join(dir, "kv") + "/"
	kc.EnableStorageAPI = true
	kc.EnabledStorages = []kvstorage.Type{kvstorage.TypeTxIDNotes, kvstorage.TypeGeneral}
	must(os.MkdirAll(kc.StorageDir, 0o700), "mkdir kv")
	kv, err := kvstorage.NewManager(kc)
	must(err, "kvstorage.NewManager")
	w.kv = kv
	must(kv.AddStorageValue(kvstorage.TypeGeneral, "k0", "v0"), "AddStorageValue")
	sets := map[string]struct{}{}
	for _, s := range []string{"READ", "STATUS", "TXN", "WALLET", "INSECURE_WALLET_SEED", "NET_CTRL", "STORAGE"} {
		sets[s] = struct{}{}
	}
	w.mux = api.VerifNewServerMux(api.VerifMuxConfig{Host: "127.0.0.1:6420", DisableCSRF: true, DisableHeaderCheck: true,
		EnabledAPISets: sets, Health: api.HealthConfig{DaemonUserAgent: useragent.Data{Coin: "skycoin", Version: "0.27.0"}}},
		api.NewGateway(dm, v, ws, kv))
	w.symbols()
	cur = w
	// unsigned wallet transactions for the signing endpoint, obtained through the real API
	for _, i := range []string{"0", "2"} {
		body := `{"wallet_id":"` + w.sym["wid"+i] + `","unsigned":true,"hours_selection":{"type":"auto","mode":"share","share_factor":"0.5"},"to":[{"address":"` + w.sym["a1"] + `","coins":"1"}]}`
		req, _ := http.NewRequest("POST", "/api/v1/wallet/transaction", strings.NewReader(body))
		req.Header.Set("Content-Type", "application/json")
		rw := &recWriter{hdr: http.Header{}}
		w.mux.ServeHTTP(rw, req)
		var resp struct {
			Enc string `json:"encoded_transaction"`
		}
		if rw.status != 200 || json.Unmarshal(rw.body.Bytes(), &resp) != nil || resp.Enc == "" {
			panic("harness: could not create the unsigned wallet transaction: " + rw.body.String())
		}
		w.sym["raw.w"+i+"unsigned"] = resp.Enc
	}
	return w
}

// record notes a block the harness executed into its own bookkeeping
func (w *world) record(sb *coin.SignedBlock) {
	seq := sb.Head.BkSeq
	for uint64(len(w.blockTime)) <= seq {
		w.blockTime = append(w.blockTime, 0)
	}
	w.blockTime[seq] = sb.Head.Time
	w.sym["bh"+strconv.FormatUint(seq, 10)] = sb.HashHeader().Hex()
	for _, t := range sb.Body.Transactions {
		w.txSeq[t.Hash()] = seq
		w.confirmed = append(w.confirmed, t)
		for _, in := range t.In {
			w.spent[in] = true
			delete(w.inPool, in)
		}
		for _, ux := range coin.CreateUnspents(sb.Head, t) {
			w.created[ux.Hash()] = ux.Body.Address
			w.uxOf[ux.Hash()] = ux
		}
	}
}

// spendable returns the largest output of key k that is neither spent nor used by a pool transaction
func (w *world) spendable(k int) *coin.UxOut {
	var ids []string
	for id, a := range w.created {
		if a == w.addrs[k] && !w.spent[id] && !w.inPool[id] {
			ids = append(ids, id.Hex())
		}
	}
	sort.Strings(ids)
	var best *coin.UxOut
	for _, h := range ids {
		ux := w.uxOf[cipher.MustSHA256FromHex(h)]
		if best == nil || ux.Body.Coins > best.Body.Coins {
			u := ux
			best = &u
		}
	}
	return best
}

// mkTxn spends `ux` (owned by key k) to the given outputs, change back to k, a quarter of the hours burnt
func (w *world) mkTxn(ux coin.UxOut, k int, to []cipher.Address, coins []uint64) coin.Transaction {
	hours, err := ux.CoinHours(w.now + 600)
	must(err, "CoinHours")
	var txn coin.Transaction
	must(txn.PushInput(ux.Hash()), "PushInput")
	var sum uint64
	per := hours / 4 / uint64(len(to)+1)
	for i, a := range to {
		must(txn.PushOutput(a, coins[i], per), "PushOutput")
		sum += coins[i]
	}
	if ux.Body.Coins > sum {
		must(txn.PushOutput(w.addrs[k], ux.Body.Coins-sum, per), "PushOutput")
	}
	txn.SignInputs([]cipher.SecKey{w.secs[k]})
	must(txn.UpdateHeader(), "UpdateHeader")
	return txn
}

// owners whose largest unspent output gets conflicting spends: raw keys and wallet addresses
var dsOwners = []struct{ name, addr, wid string }{{"k3", "a3", ""}, {"k4", "a4", ""}, {"w0", "w0a0", "{wid0}"}, {"w1", "w1a0", "{wid1}"}, {"w2", "w2a0", "{wid2}"}}

// mkTxnSec is mkTxn for an arbitrary owner key and change address
func (w *world) mkTxnSec(ux coin.UxOut, sk cipher.SecKey, change cipher.Address, to []cipher.Address, coins []uint64) coin.Transaction {
	hours, err := ux.CoinHours(w.now + 600)
	must(err, "CoinHours")
	var txn coin.Transaction
	must(txn.PushInput(ux.Hash()), "PushInput")
	var sum uint64
	per := hours / 4 / uint64(len(to)+1)
	for i, a := range to {
		must(txn.PushOutput(a, coins[i], per), "PushOutput")
		sum += coins[i]
	}
	if ux.Body.Coins > sum {
		must(txn.PushOutput(change, ux.Body.Coins-sum, per), "PushOutput")
	}
	txn.SignInputs([]cipher.SecKey{sk})
	must(txn.UpdateHeader(), "UpdateHeader")
	return txn
}

func (w *world) pay(k int, to []cipher.Address, coins []uint64) {
	ux := w.spendable(k)
	if ux == nil {
		panic("harness: key has nothing to spend: " + strconv.Itoa(k))
	}
	txn := w.mkTxn(*ux, k, to, coins)
	if _, _, _, err := w.v.InjectUserTransaction(txn); err != nil {
		panic("harness: InjectUserTransaction: " + err.Error())
	}
	w.inPool[ux.Hash()] = true
	w.pool = append(w.pool, txn)
}

func (w *world) block() {
	w.now += 600
	b, err := w.v.CreateBlockFromTxns(coin.Transactions(w.pool), w.now)
	must(err, "CreateBlockFromTxns")
	sb := coin.SignedBlock{Block: b, Sig: cipher.MustSignHash(b.HashHeader(), w.pubSec)}
	must(w.v.ExecuteSignedBlock(sb), "ExecuteSignedBlock")
	w.pool = nil
	w.record(&sb)
}

// status of an output according to the harness's bookkeeping: U unspent, S spent, X unknown
func (w *world) status(id cipher.SHA256) string {
	if _, ok := w.created[id]; !ok {
		return "X"
	}
	if w.spent[id] {
		return "S"
	}
	return "U"
}

func (w *world) sortedIDs(pred func(id cipher.SHA256) bool) []cipher.SHA256 {
	var hs []string
	for id := range w.created {
		if pred(id) {
			hs = append(hs, id.Hex())
		}
	}
	// structural order: by (block seq, index in CreateUnspents), independent of the random hashes
	sort.Slice(hs, func(i, j int) bool {
		a, b := w.uxOf[cipher.MustSHA256FromHex(hs[i])], w.uxOf[cipher.MustSHA256FromHex(hs[j])]
		if a.Head.BkSeq != b.Head.BkSeq {
			return a.Head.BkSeq < b.Head.BkSeq
		}
		if a.Body.Coins != b.Body.Coins {
			return a.Body.Coins < b.Body.Coins
		}
		return a.Body.Address.String() < b.Body.Address.String()
	})
	out := make([]cipher.SHA256, len(hs))
	for i, h := range hs {
		out[i] = cipher.MustSHA256FromHex(h)
	}
	return out
}

func (w *world) symbols() {
	for i, t := range w.confirmed {
		w.sym["tx"+strconv.Itoa(i)] = t.Hash().Hex()
	}
	for i, t := range w.pool {
		w.sym["ptx"+strconv.Itoa(i)] = t.Hash().Hex()
	}
	for i, id := range w.sortedIDs(func(id cipher.SHA256) bool { return !w.spent[id] }) {
		w.sym["uxu"+strconv.Itoa(i)] = id.Hex()
	}
	for i, id := range w.sortedIDs(func(id cipher.SHA256) bool { return w.spent[id] }) {
		w.sym["uxs"+strconv.Itoa(i)] = id.Hex()
	}
	for name, a := range map[string]string{"w0": "w0a0", "w1": "w1a0", "w2": "w2a0", "k3": "a3", "k4": "a4", "k1": "a1"} {
		owner := cipher.MustDecodeBase58Address(w.sym[a])
		for i, id := range w.sortedIDs(func(id cipher.SHA256) bool { return !w.spent[id] && !w.inPool[id] && w.created[id] == owner }) {
			w.sym[name+"ux"+strconv.Itoa(i)] = id.Hex()
		}
	}
	w.sym["headseq"] = strconv.Itoa(len(w.blockTime) - 1)
	for i := 0; i < 3; i++ {
		w.sym["unk"+strconv.Itoa(i)] = cipher.SumSHA256([]byte("c28 unknown object " + strconv.Itoa(i))).Hex()
	}
	up, _ := cipher.MustGenerateDeterministicKeyPair([]byte("c28-unused-key"))
	w.sym["aunused"] = cipher.AddressFromPubKey(up).String()
	for _, k := range txnKinds {
		txn, _ := w.txnOfKind(k)
		w.sym["raw."+k] = hex.EncodeToString(mustSerialize(txn))
	}
	// conflicting spends: three different, individually valid transactions that spend the SAME unspent output
	for _, o := range dsOwners {
		uxs := w.ownedUnspent(o.addr)
		if len(uxs) == 0 {
			panic("harness: no unspent output for double-spend owner " + o.name)
		}
		ux := uxs[0]
		for _, u := range uxs {
			if u.Body.Coins > ux.Body.Coins {
				ux = u
			}
		}
		sk, ok := w.secOf[ux.Body.Address]
		if !ok {
			panic("harness: no secret key for " + o.name)
		}
		w.sym["dsux."+o.name] = ux.Hash().Hex()
		for i, v := range []string{"a", "b", "c"} {
			to := cipher.MustDecodeBase58Address(w.sym[[]string{"a1", "a5", "w0a2"}[i]])
			t := w.mkTxnSec(ux, sk, ux.Body.Address, []cipher.Address{to}, []uint64{uint64(i+1) * 1e6})
			w.sym["raw.ds."+o.name+"."+v] = hex.EncodeToString(mustSerialize(t))
			w.sym["dstx."+o.name+"."+v] = t.Hash().Hex()
		}
	}
	// structurally inconsistent but decodable transactions derived from valid ones over real unspents
	for _, b := range structBases {
		base, ok := w.baseTxn(b)
		if !ok {
			panic("harness: cannot build base transaction " + b)
		}
		for _, m := range structMuts {
			w.sym["raw."+b+"."+m] = hex.EncodeToString(mustSerialize(w.mutateTxn(base, m)))
		}
	}
	raw := w.sym["raw.valid"]
	w.sym["raw.trunc"] = raw[:len(raw)/2]
	w.sym["raw.odd"] = raw[:len(raw)-1]
	fl := []byte(raw)
	fl[len(fl)/3] ^= 1
	w.sym["raw.flip"] = string(fl)
}

func mustSerialize(t coin.Transaction) (b []byte) {
	defer func() {
		if r := recover(); r != nil {
			b = nil
		}
	}()
	b, err := t.Serialize()
	if err != nil {
		return nil
	}
	return b
}

// ---- transactions of a named kind, with the facts VerifyTxnVerbose will read about them ----------

var txnKinds = []string{"valid", "spent", "confirmed", "confirmed1", "pool", "unknown", "mixed_us", "mixed_su", "mixed_ux",
	"unsigned", "nofee", "badsig", "noin", "dupin", "zeroout", "genesis", "big"}

type facts struct {
	ins    []string
	hist   string // block seq or -
	prev   string // time of block seq-1 or -
	checks string // ok|user|soft|hard — what the constraint checks say about a transaction built this way
}

func (w *world) firstSpent(k int) coin.UxOut {
	for _, id := range w.sortedIDs(func(id cipher.SHA256) bool { return w.spent[id] && w.created[id] == w.addrs[k] }) {
		return w.uxOf[id]
	}
	panic("harness: no spent output of key " + strconv.Itoa(k))
}

func (w *world) txnOfKind(kind string) (coin.Transaction, facts) {
	f := facts{hist: "-", prev: "-", checks: "ok"}
	histOf := func(t coin.Transaction) {
		seq := w.txSeq[t.Hash()]
		f.hist = strconv.FormatUint(seq, 10)
		if seq > 0 {
			f.prev = strconv.FormatUint(w.blockTime[seq-1], 10)
		}
	}
	var txn coin.Transaction
	switch kind {
	case "valid":
		txn = w.mkTxn(*w.spendable(3), 3, []cipher.Address{w.addrs[1]}, []uint64{1e6})
	case "spent":
		// F6: spends an output a confirmed transaction already spent; the new transaction is unknown to the history
		txn = w.mkTxn(w.firstSpent(1), 1, []cipher.Address{w.addrs[5]}, []uint64{1e6})
	case "confirmed":
		txn = w.confirmed[len(w.confirmed)-1]
		histOf(txn)
	case "confirmed1":
		txn = w.confirmed[1] // in block 1: the previous block is the genesis block
		histOf(txn)
	case "genesis":
		txn = w.confirmed[0] // no inputs: the fee check (soft) comes before the hard constraints
		f.checks = "soft"
	case "pool":
		txn = w.pool[0]
	case "unknown":
		ux := *w.spendable(3)
		ux.Body.SrcTransaction = cipher.SumSHA256([]byte("c28 unknown"))
		txn = w.mkTxn(ux, 3, []cipher.Address{w.addrs[1]}, []uint64{1e6})
	case "mixed_us", "mixed_su", "mixed_ux":
		a := *w.spendable(3)
		b := w.firstSpent(1)
		kb := 1
		if kind == "mixed_ux" {
			b = a
			b.Body.SrcTransaction = cipher.SumSHA256([]byte("c28 unknown 2"))
			kb = 3
		}
		first, second, k1, k2 := a, b, 3, kb
		if kind == "mixed_su" {
			first, second, k1, k2 = b, a, kb, 3
		}
		must(txn.PushInput(first.Hash()), "PushInput")
		must(txn.PushInput(second.Hash()), "PushInput")
		must(txn.PushOutput(w.addrs[0], 1e6, 1), "PushOutput")
		txn.SignInputs([]cipher.SecKey{w.secs[k1], w.secs[k2]})
		must(txn.UpdateHeader(), "UpdateHeader")
	case "unsigned":
		txn = w.mkTxn(*w.spendable(3), 3, []cipher.Address{w.addrs[1]}, []uint64{1e6})
		txn.Sigs = make([]cipher.Sig, len(txn.In))
		must(txn.UpdateHeader(), "UpdateHeader")
		f.checks = "hard"
	case "nofee":
		ux := *w.spendable(3)
		h, _ := ux.CoinHours(w.now)
		must(txn.PushInput(ux.Hash()), "PushInput")
		must(txn.PushOutput(w.addrs[1], ux.Body.Coins, h), "PushOutput")
		txn.SignInputs([]cipher.SecKey{w.secs[3]})
		must(txn.UpdateHeader(), "UpdateHeader")
		f.checks = "soft"
	case "badsig":
		ux := *w.spendable(3)
		must(txn.PushInput(ux.Hash()), "PushInput")
		must(txn.PushOutput(w.addrs[1], ux.Body.Coins, 1), "PushOutput")
		txn.SignInputs([]cipher.SecKey{w.secs[2]})
		must(txn.UpdateHeader(), "UpdateHeader")
		f.checks = "hard"
	case "noin":
		must(txn.PushOutput(w.addrs[1], 1e6, 1), "PushOutput")
		must(txn.UpdateHeader(), "UpdateHeader")
		f.checks = "soft"
	case "dupin":
		ux := *w.spendable(3)
		must(txn.PushInput(ux.Hash()), "PushInput")
		txn.In = append(txn.In, ux.Hash())
		must(txn.PushOutput(w.addrs[1], 1e6, 1), "PushOutput")
		txn.SignInputs([]cipher.SecKey{w.secs[3], w.secs[3]})
		must(txn.UpdateHeader(), "UpdateHeader")
		f.checks = "hard"
	case "zeroout":
		ux := *w.spendable(3)
		must(txn.PushInput(ux.Hash()), "PushInput")
		txn.Out = append(txn.Out, coin.TransactionOutput{Address: w.addrs[1], Coins: 0, Hours: 1})
		txn.SignInputs([]cipher.SecKey{w.secs[3]})
		must(txn.UpdateHeader(), "UpdateHeader")
		f.checks = "hard"
	case "big":
		for i := 0; i < 300; i++ {
			txn.In = append(txn.In, cipher.SumSHA256([]byte("c28 big "+strconv.Itoa(i))))
		}
		txn.Sigs = make([]cipher.Sig, len(txn.In))
		must(txn.PushOutput(w.addrs[1], 1e6, 1), "PushOutput")
		must(txn.UpdateHeader(), "UpdateHeader")
		f.checks = "hard"
	default:
		panic("harness: unknown txn kind " + kind)
	}
	for _, in := range txn.In {
		f.ins = append(f.ins, w.status(in))
	}
	return txn, f
}

// ---- structurally inconsistent transactions --------------------------------------------------------
//
// Bases are VALID unsigned transactions over real unspent outputs of the node (two inputs of wallet 0,
// two inputs of the encrypted wallet 1, one input of the bip44 wallet 2, one input of raw key 3); every
// mutation keeps the transaction decodable and - unless the mutation is about the header itself -
// recomputes Length and InnerHash afterwards, so that a handler cannot reject it for a stale header
// before reaching the code that trusts the structure.

var structBases = []string{"w0two", "w1two", "w2one", "k3one"}

var structMuts = []string{"ok", "sigs_one", "sigs_nm1", "sigs_np1", "sigs_np5", "sigs_empty", "sigs_garbage", "sigs_first_garbage",
	"in_none", "in_dup", "in_dup_sigs_one", "in_unknown", "in_all_unknown", "in_extra_unknown", "in_extra_known", "in_spent", "in_many",
	"inner_zero", "inner_stale", "len_plus", "len_minus", "len_zero", "len_huge", "type1", "type255",
	"out_none", "out_null", "out_zerocoins", "out_overflow", "out_hours_overflow", "out_dup", "out_many", "out_precision"}

func (w *world) ownedUnspent(symAddrs ...string) []coin.UxOut {
	var out []coin.UxOut
	for _, sa := range symAddrs {
		a := cipher.MustDecodeBase58Address(w.sym[sa])
		for _, id := range w.sortedIDs(func(id cipher.SHA256) bool { return !w.spent[id] && !w.inPool[id] && w.created[id] == a }) {
			out = append(out, w.uxOf[id])
		}
	}
	return out
}

func (w *world) baseTxn(name string) (coin.Transaction, bool) {
	var uxs []coin.UxOut
	switch name {
	case "w0two":
		uxs = w.ownedUnspent("w0a0", "w0a1")
		if len(uxs) > 2 {
			uxs = uxs[:2]
		}
		if len(uxs) < 2 {
			return coin.Transaction{}, false
		}
	case "w1two":
		uxs = w.ownedUnspent("w1a0", "w1a1")
		if len(uxs) < 2 {
			return coin.Transaction{}, false
		}
		uxs = uxs[:2]
	case "w2one":
		uxs = w.ownedUnspent("w2a0")
		if len(uxs) < 1 {
			return coin.Transaction{}, false
		}
		uxs = uxs[:1]
	case "k3one":
		uxs = w.ownedUnspent("a3")
		if len(uxs) < 1 {
			return coin.Transaction{}, false
		}
		uxs = uxs[:1]
	}
	var txn coin.Transaction
	var coins, hours uint64
	for _, ux := range uxs {
		must(txn.PushInput(ux.Hash()), "PushInput")
		coins += ux.Body.Coins
		h, err := ux.CoinHours(w.now)
		must(err, "CoinHours")
		hours += h
	}
	must(txn.PushOutput(w.addrs[1], 1e6, hours/8), "PushOutput")
	must(txn.PushOutput(uxs[0].Body.Address, coins-1e6, hours/8), "PushOutput")
	txn.Sigs = make([]cipher.Sig, len(txn.In))
	must(txn.UpdateHeader(), "UpdateHeader")
	return txn, true
}

func cloneTxn(t coin.Transaction) coin.Transaction {
	c := t
	c.Sigs = append([]cipher.Sig{}, t.Sigs...)
	c.In = append([]cipher.SHA256{}, t.In...)
	c.Out = append([]coin.TransactionOutput{}, t.Out...)
	return c
}

func (w *world) mutateTxn(base coin.Transaction, mut string) coin.Transaction {
	t := cloneTxn(base)
	n := len(t.In)
	garbage := func(i int) cipher.Sig {
		var s cipher.Sig
		for j := range s {
			s[j] = byte(17*i + j + 1)
		}
		return s
	}
	unknown := func(i int) cipher.SHA256 { return cipher.SumSHA256([]byte("c28 struct unknown " + strconv.Itoa(i))) }
	header := true // recompute Length / InnerHash after the mutation
	switch mut {
	case "ok":
	case "sigs_one":
		t.Sigs = make([]cipher.Sig, 1)
	case "sigs_nm1":
		if n > 1 {
			t.Sigs = make([]cipher.Sig, n-1)
		} else {
			t.Sigs = make([]cipher.Sig, 1)
			t.In = append(t.In, t.In[0])
		}
	case "sigs_np1":
		t.Sigs = make([]cipher.Sig, n+1)
	case "sigs_np5":
		t.Sigs = make([]cipher.Sig, n+5)
	case "sigs_empty":
		t.Sigs = nil
	case "sigs_garbage":
		for i := range t.Sigs {
			t.Sigs[i] = garbage(i)
		}
	case "sigs_first_garbage":
		t.Sigs[0] = garbage(0)
	case "in_none":
		t.In = nil
	case "in_dup":
		t.In = append(t.In, t.In[0])
		t.Sigs = make([]cipher.Sig, len(t.In))
	case "in_dup_sigs_one":
		t.In = append(t.In, t.In[0])
		t.Sigs = make([]cipher.Sig, 1)
	case "in_unknown":
		t.In[n-1] = unknown(0)
	case "in_all_unknown":
		for i := range t.In {
			t.In[i] = unknown(i)
		}
	case "in_extra_unknown":
		t.In = append(t.In, unknown(7)) // one more input than signatures, the extra one unknown
	case "in_extra_known":
		t.In = append(t.In, t.In[0]) // one more input than signatures, all known
	case "in_spent":
		sp := w.firstSpent(1) // an output a confirmed transaction already spent
		t.In[0] = sp.Hash()
	case "in_many":
		for i := 0; i < 40; i++ {
			t.In = append(t.In, t.In[i%n])
		}
		t.Sigs = make([]cipher.Sig, 3)
	case "inner_zero":
		must(t.UpdateHeader(), "UpdateHeader")
		t.InnerHash = cipher.SHA256{}
		header = false
	case "inner_stale":
		t.Out[0].Coins++ // body changed, header left as it was
		header = false
	case "len_plus":
		t.Length++
		header = false
	case "len_minus":
		t.Length--
		header = false
	case "len_zero":
		t.Length = 0
		header = false
	case "len_huge":
		t.Length = 0xffffffff
		header = false
	case "type1":
		t.Type = 1
		header = false
	case "type255":
		t.Type = 255
		header = false
	case "out_none":
		t.Out = nil
	case "out_null":
		t.Out[0].Address = cipher.Address{}
	case "out_zerocoins":
		t.Out[0].Coins = 0
	case "out_overflow":
		t.Out[0].Coins = 1 << 63
		t.Out[1].Coins = 1 << 63
	case "out_hours_overflow":
		t.Out[0].Hours = ^uint64(0)
		t.Out[1].Hours = 2
	case "out_dup":
		t.Out = append(t.Out, t.Out[0])
	case "out_many":
		for i := 0; i < 60; i++ {
			t.Out = append(t.Out, coin.TransactionOutput{Address: t.Out[0].Address, Coins: 1000, Hours: uint64(i)})
		}
	case "out_precision":
		t.Out[0].Coins = 1000001
		t.Out[1].Coins--
	default:
		panic("harness: unknown mutation " + mut)
	}
	if header {
		typ := t.Type
		if err := t.UpdateHeader(); err != nil {
			return base
		}
		t.Type = typ
	}
	return t
}

// blockOf creates and executes a block from the pool transactions named by raw-symbol (e.g. raw.ds.k3.a)
func (w *world) blockOf(names []string) string {
	if w == nil {
		panic("harness: block before reset")
	}
	var txns coin.Transactions
	for _, n := range names {
		b, err := hex.DecodeString(w.sym[n])
		if err != nil || len(b) == 0 {
			return "err unknown-symbol"
		}
		t, err := coin.DeserializeTransaction(b)
		if err != nil {
			return "err undecodable"
		}
		txns = append(txns, t)
	}
	b, err := w.v.CreateBlockFromTxns(txns, w.now+600)
	if err != nil {
		return "err create"
	}
	sb := coin.SignedBlock{Block: b, Sig: cipher.MustSignHash(b.HashHeader(), w.pubSec)}
	if err := w.v.ExecuteSignedBlock(sb); err != nil {
		return "err execute"
	}
	w.now += 600
	var keep []coin.Transaction
	for _, p := range w.pool {
		in := false
		for _, t := range sb.Body.Transactions {
			if t.Hash() == p.Hash() {
				in = true
			}
		}
		if !in {
			keep = append(keep, p)
		}
	}
	w.pool = keep
	w.record(&sb)
	return "ok " + strconv.FormatUint(sb.Head.BkSeq, 10)
}
