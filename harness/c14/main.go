package main

// C14: the secp256k1 implementation vs the textbook curve. Real functions: cipher.NewPubKey, NewSecKey,
// PubKeyFromSecKey, SignHash, VerifyPubKeySignedHash, VerifySignatureRecoverPubKey, PubKeyFromSig, ECDH,
// GenerateDeterministicKeyPairsSeed, DeterministicKeyPairIterator; secp256k1.Secp256k1Hash,
// UncompressPubkey; secp256k1go.Signature.Sign (explicit nonce), Signature.Verify, BaseMultiply, Multiply.
// The generator builds its inputs with its own math/big curve (harness/eclib), never with the code under test.

import (
	"math/big"
	"strconv"
	"strings"

	"verif/harness/eclib"
	. "verif/harness/hlib"

	"github.com/skycoin/skycoin/src/cipher"
	secp256k1 "github.com/skycoin/skycoin/src/cipher/secp256k1-go"
	secp "github.com/skycoin/skycoin/src/cipher/secp256k1-go/secp256k1-go2"
)

var errs = map[error]string{
	cipher.ErrInvalidLengthPubKey:      "ErrInvalidLengthPubKey",
	cipher.ErrPubKeyFromNullSecKey:     "ErrPubKeyFromNullSecKey",
	cipher.ErrPubKeyFromBadSecKey:      "ErrPubKeyFromBadSecKey",
	cipher.ErrInvalidLengthSecKey:      "ErrInvalidLengthSecKey",
	cipher.ErrECHDInvalidPubKey:        "ErrECHDInvalidPubKey",
	cipher.ErrECHDInvalidSecKey:        "ErrECHDInvalidSecKey",
	cipher.ErrInvalidLengthSig:         "ErrInvalidLengthSig",
	cipher.ErrInvalidPubKey:            "ErrInvalidPubKey",
	cipher.ErrInvalidSecKey:            "ErrInvalidSecKey",
	cipher.ErrNullSignHash:             "ErrNullSignHash",
	cipher.ErrInvalidSig:               "ErrInvalidSig",
	cipher.ErrInvalidSigPubKeyRecovery: "ErrInvalidSigPubKeyRecovery",
	cipher.ErrInvalidAddressForSig:     "ErrInvalidAddressForSig",
	cipher.ErrInvalidHashForSig:        "ErrInvalidHashForSig",
	cipher.ErrPubKeyRecoverMismatch:    "ErrPubKeyRecoverMismatch",
	cipher.ErrInvalidSigInvalidPubKey:  "ErrInvalidSigInvalidPubKey",
	cipher.ErrInvalidSigValidity:       "ErrInvalidSigValidity",
	cipher.ErrInvalidSigForMessage:     "ErrInvalidSigForMessage",
	cipher.ErrEmptySeed:                "ErrEmptySeed",
}

func e(err error) string { return "err " + ErrName(err, errs) }

func arr32(b []byte) (a [32]byte) { copy(a[:], b); return }
func arr33(b []byte) (a [33]byte) { copy(a[:], b); return }
func arr65(b []byte) (a [65]byte) { copy(a[:], b); return }

func exec(op string) string {
	f := Fields(op)
	switch f[0] {
	case "newpub":
		if _, err := cipher.NewPubKey(PHex(f[1])); err != nil {
			return e(err)
		}
		return "ok"
	case "newsec":
		if _, err := cipher.NewSecKey(PHex(f[1])); err != nil {
			return e(err)
		}
		return "ok"
	case "pubfromsec":
		p, err := cipher.PubKeyFromSecKey(cipher.SecKey(arr32(PHex(f[1]))))
		if err != nil {
			return e(err)
		}
		return "ok " + Hex(p[:])
	case "basemul": // secp.BaseMultiply on a valid scalar
		return "ok " + Hex(secp.BaseMultiply(PHex(f[1])))
	case "mul": // secp.Multiply(pub, k)
		out := secp.Multiply(PHex(f[1]), PHex(f[2]))
		if out == nil {
			return "nil"
		}
		return "ok " + Hex(out)
	case "fnorm": // fnorm a m b : (-a as Negate(a,m)) + b, normalized   (a, b 32-byte values, possibly >= p)
		var a, b, r secp.Field
		a.SetB32(PHex(f[1]))
		b.SetB32(PHex(f[3]))
		a.Normalize()
		a.Negate(&r, uint32(PU64(f[2])))
		r.SetAdd(&b)
		r.Normalize()
		var o [32]byte
		r.GetB32(o[:])
		return "ok " + Hex(o[:])
	case "fmul": // fmul a b k : (a*b)*k normalized
		var a, b, r secp.Field
		a.SetB32(PHex(f[1]))
		b.SetB32(PHex(f[2]))
		a.Mul(&r, &b)
		r.MulInt(uint32(PU64(f[3])))
		r.Normalize()
		var o [32]byte
		r.GetB32(o[:])
		return "ok " + Hex(o[:])
	case "fsqr": // fsqr a k : (a*k)^2 normalized (Sqr on a magnitude-k input)
		var a, r secp.Field
		a.SetB32(PHex(f[1]))
		a.MulInt(uint32(PU64(f[2])))
		a.Sqr(&r)
		r.Normalize()
		var o [32]byte
		r.GetB32(o[:])
		return "ok " + Hex(o[:])
	case "finv": // finv a : a^-1 (0 for 0)
		var a, r secp.Field
		a.SetB32(PHex(f[1]))
		a.Inv(&r)
		r.Normalize()
		var o [32]byte
		r.GetB32(o[:])
		return "ok " + Hex(o[:])
	case "ptadd": // XY.AddXY on two parsed public keys
		var p1, p2 secp.XY
		if err := p1.ParsePubkey(PHex(f[1])); err != nil {
			return "badpub"
		}
		if err := p2.ParsePubkey(PHex(f[2])); err != nil {
			return "badpub"
		}
		p1.AddXY(&p2)
		if p1.Infinity {
			return "inf"
		}
		return "ok " + Hex(p1.Bytes())
	case "ecmrow": // ecmrow t na ng0 cnt : XYZ.ECmult(A = t*G, na, ng) for ng = ng0 .. ng0+cnt-1, A given as the 33-byte key in f[5]
		var pk secp.XY
		if err := pk.ParsePubkey(PHex(f[5])); err != nil {
			return "badpub"
		}
		var na secp.Number
		na.SetBytes(b32(new(big.Int).SetUint64(PU64(f[2]))))
		var sb strings.Builder
		sb.WriteString("ok")
		for j := uint64(0); j < PU64(f[4]); j++ {
			var a, r secp.XYZ
			a.SetXY(&pk)
			var ng secp.Number
			ng.SetBytes(b32(new(big.Int).SetUint64(PU64(f[3]) + j)))
			a.ECmult(&r, &na, &ng)
			if r.IsInfinity() {
				sb.WriteString(" inf")
				continue
			}
			var o secp.XY
			o.SetXYZ(&r)
			sb.WriteString(" " + Hex(o.Bytes()))
		}
		return sb.String()
	case "ecmult": // ecmult pubA na ng (32-byte scalars)
		var pk secp.XY
		if err := pk.ParsePubkey(PHex(f[1])); err != nil {
			return "badpub"
		}
		var a, r secp.XYZ
		a.SetXY(&pk)
		var na, ng secp.Number
		na.SetBytes(PHex(f[2]))
		ng.SetBytes(PHex(f[3]))
		a.ECmult(&r, &na, &ng)
		if r.IsInfinity() {
			return "inf"
		}
		var o secp.XY
		o.SetXYZ(&r)
		return "ok " + Hex(o.Bytes())
	case "jadd": // jadd pubA pubB la lb : XYZ.Add of the two points given in Jacobian coordinates scaled by la, lb (Z = la, lb)
		jac := func(pub []byte, l uint32) (secp.XYZ, bool) {
			var pk secp.XY
			if err := pk.ParsePubkey(pub); err != nil {
				return secp.XYZ{}, false
			}
			var j secp.XYZ
			j.SetXY(&pk)
			var lf, l2, l3 secp.Field
			lf.SetInt(l)
			lf.Sqr(&l2)
			l2.Mul(&l3, &lf)
			j.X.Mul(&j.X, &l2)
			j.Y.Mul(&j.Y, &l3)
			j.Z = lf
			return j, true
		}
		a, ok1 := jac(PHex(f[1]), uint32(PU64(f[3])))
		b, ok2 := jac(PHex(f[2]), uint32(PU64(f[4])))
		if !ok1 || !ok2 {
			return "badpub"
		}
		var r secp.XYZ
		a.Add(&r, &b)
		if r.IsInfinity() {
			return "inf"
		}
		var o secp.XY
		o.SetXYZ(&r)
		return "ok " + Hex(o.Bytes())
	case "rawsign": // rawsign d z k : Signature.Sign with an explicit nonce
		var d, z, k secp.Number
		d.SetBytes(PHex(f[1]))
		z.SetBytes(PHex(f[2]))
		k.SetBytes(PHex(f[3]))
		var sig secp.Signature
		var recid int
		if sig.Sign(&d, &z, &k, &recid) != 1 {
			return "fail"
		}
		return "ok " + Hex(sig.Bytes()) + " " + strconv.Itoa(recid)
	case "signhash": // cipher.SignHash (random nonce; the driver reads the nonce back)
		s, err := cipher.SignHash(cipher.SHA256(arr32(PHex(f[2]))), cipher.SecKey(arr32(PHex(f[1]))))
		if err != nil {
			return e(err)
		}
		return "ok " + Hex(s[:])
	case "verify": // verify pub sig hash
		err := cipher.VerifyPubKeySignedHash(cipher.PubKey(arr33(PHex(f[1]))), cipher.Sig(arr65(PHex(f[2]))), cipher.SHA256(arr32(PHex(f[3]))))
		if err != nil {
			return e(err)
		}
		return "ok"
	case "verifyrec": // VerifySignatureRecoverPubKey sig hash
		err := cipher.VerifySignatureRecoverPubKey(cipher.Sig(arr65(PHex(f[1]))), cipher.SHA256(arr32(PHex(f[2]))))
		if err != nil {
			return e(err)
		}
		return "ok"
	case "pubfromsig":
		p, err := cipher.PubKeyFromSig(cipher.Sig(arr65(PHex(f[1]))), cipher.SHA256(arr32(PHex(f[2]))))
		if err != nil {
			return e(err)
		}
		return "ok " + Hex(p[:])
	case "rawverify": // Signature.Verify(pub, msg) with r,s in range
		var pk secp.XY
		if err := pk.ParsePubkey(PHex(f[1])); err != nil {
			return "badpub"
		}
		var sig secp.Signature
		sig.ParseBytes(PHex(f[2]))
		var m secp.Number
		m.SetBytes(PHex(f[3]))
		if sig.Verify(&pk, &m) {
			return "true"
		}
		return "false"
	case "ecdh":
		b, err := cipher.ECDH(cipher.PubKey(arr33(PHex(f[1]))), cipher.SecKey(arr32(PHex(f[2]))))
		if err != nil {
			return e(err)
		}
		return "ok " + Hex(b)
	case "uncompress":
		return "ok " + Hex(secp256k1.UncompressPubkey(PHex(f[1])))
	case "s256k1hash":
		return "ok " + Hex(secp256k1.Secp256k1Hash(PHex(f[1])))
	case "detiter":
		h, p, s, err := cipher.DeterministicKeyPairIterator(PHex(f[1]))
		if err != nil {
			return e(err)
		}
		return "ok " + Hex(h) + " " + Hex(p[:]) + " " + Hex(s[:])
	case "detkeys":
		seed, keys, err := cipher.GenerateDeterministicKeyPairsSeed(PHex(f[1]), int(PU64(f[2])))
		if err != nil {
			return e(err)
		}
		var sb strings.Builder
		sb.WriteString("ok " + Hex(seed))
		for _, k := range keys {
			sb.WriteString(" " + Hex(k[:]))
		}
		return sb.String()
	}
	panic("harness: unknown op " + f[0])
}

func hx(s string) *big.Int { v, _ := new(big.Int).SetString(s, 16); return v }

var (
	two256 = new(big.Int).Lsh(big.NewInt(1), 256)
	lambda = hx("5363ad4cc05c30e0a5261c028812645a122e22ea20816678df02967c1b23bd72")
	a1b2   = hx("3086d221a7d46bcde86c90e49284eb15")
	b1     = hx("e4437ed6010e88286f547fa90abfe4c3")
	a2     = hx("0114ca50f7a8e2f3f657c1108d9d44cfd8")
)

func add(a *big.Int, d int64) *big.Int { return new(big.Int).Add(a, big.NewInt(d)) }

// edgeScalars: the values where range checks, the λ-decomposition and the wNAF recoding change behaviour
func edgeScalars() []*big.Int {
	n, p := eclib.N, eclib.P
	l := []*big.Int{big.NewInt(0), big.NewInt(1), big.NewInt(2), big.NewInt(3), add(n, -2), add(n, -1), n, add(n, 1),
		add(p, -1), p, add(p, 1), add(two256, -1), eclib.HalfN, add(eclib.HalfN, 1), add(eclib.HalfN, -1),
		lambda, add(lambda, 1), add(lambda, -1), new(big.Int).Sub(n, lambda), a1b2, b1, a2, add(a1b2, 1), add(b1, -1),
		new(big.Int).Lsh(big.NewInt(1), 255), add(new(big.Int).Lsh(big.NewInt(1), 255), -1),
		new(big.Int).Lsh(big.NewInt(1), 128), add(new(big.Int).Lsh(big.NewInt(1), 128), -1), add(new(big.Int).Lsh(big.NewInt(1), 129), -1),
		hx("aaaaaaaaaaaaaaaaaaaaaaaaaaaaaaaaaaaaaaaaaaaaaaaaaaaaaaaaaaaaaaaa"), hx("5555555555555555555555555555555555555555555555555555555555555555"),
		hx("00000000ffffffff00000000ffffffff00000000ffffffff00000000ffffffff"), hx("ffff0000ffff0000ffff0000ffff0000ffff0000ffff0000ffff0000ffff0000"),
		hx("0f0f0f0f0f0f0f0f0f0f0f0f0f0f0f0f0f0f0f0f0f0f0f0f0f0f0f0f0f0f0f0f"), hx("7fffffffffffffffffffffffffffffff7fffffffffffffffffffffffffffffff"),
		hx("8000000000000000000000000000000000000000000000000000000000000001"), hx("fffffffffffffffffffffffffffffffe00000000000000000000000000000000"),
	}
	return l
}

func b32(v *big.Int) []byte { return eclib.B32(new(big.Int).Mod(v, two256)) }

// randScalar: uniformly random, or with long runs of equal bits, or small, or near the edges
func randScalar(r *Rng, edges []*big.Int) *big.Int {
	switch r.Intn(8) {
	case 0:
		return new(big.Int).Set(edges[r.Intn(len(edges))])
	case 1:
		return add(edges[r.Intn(len(edges))], int64(r.Intn(9)-4))
	case 2:
		return big.NewInt(int64(r.Intn(70000)))
	case 3: // runs of 0 / 1 bits
		b := make([]byte, 32)
		i := 0
		bit := r.Bool()
		for i < 256 {
			run := 1 + r.Intn(80)
			for j := 0; j < run && i < 256; j, i = j+1, i+1 {
				if bit {
					b[i/8] |= 1 << uint(7-i%8)
				}
			}
			bit = !bit
		}
		return new(big.Int).SetBytes(b)
	case 4: // sparse
		v := new(big.Int)
		for j := 0; j < 1+r.Intn(4); j++ {
			v.SetBit(v, r.Intn(256), 1)
		}
		return v
	}
	return new(big.Int).SetBytes(r.Bytes(32))
}

func validScalar(r *Rng, edges []*big.Int) *big.Int {
	for {
		v := randScalar(r, edges)
		if v.Sign() > 0 && v.Cmp(eclib.N) < 0 {
			return v
		}
	}
}

func gen(r *Rng, tier string, emit func(string)) {
	thorough := tier == "thorough"
	edges := edgeScalars()
	scale := 1
	if thorough {
		scale = 9
	}
	// --- secret keys / scalars: validity and public-key derivation
	for _, v := range edges {
		if v.Cmp(two256) < 0 {
			emit("newsec " + Hex(b32(v)))
			emit("pubfromsec " + Hex(b32(v)))
			if v.Sign() > 0 && v.Cmp(eclib.N) < 0 {
				emit("basemul " + Hex(b32(v)))
			}
		}
	}
	emit("newsec -")
	emit("newsec " + Hex(r.Bytes(31)))
	emit("newsec " + Hex(r.Bytes(33)))
	for i := 0; i < 24*scale; i++ {
		v := randScalar(r, edges)
		v.Mod(v, two256)
		emit("newsec " + Hex(b32(v)))
		emit("pubfromsec " + Hex(b32(v)))
	}
	// --- public keys: valid, off-curve, x >= p, bad prefix, wrong length
	emit("newpub -")
	emit("newpub " + Hex(r.Bytes(32)))
	emit("newpub " + Hex(r.Bytes(34)))
	emit("newpub " + Hex(r.Bytes(65)))
	emit("newpub " + Hex(make([]byte, 33)))
	var somePubs [][]byte
	for i := 0; i < 36*scale; i++ {
		var x *big.Int
		switch r.Intn(6) {
		case 0:
			x = add(eclib.P, int64(r.Intn(12)-6)) // around p
		case 1:
			x = big.NewInt(int64(r.Intn(40))) // tiny x
		case 2:
			x = new(big.Int).Sub(two256, big.NewInt(int64(1+r.Intn(2000)))) // x in [p, 2^256)
		case 3:
			x = eclib.Mul(validScalar(r, edges), eclib.G).X // certainly on the curve
		default:
			x = new(big.Int).SetBytes(r.Bytes(32))
		}
		x.Mod(x, two256)
		for _, pre := range []byte{2, 3} {
			b := append([]byte{pre}, b32(x)...)
			emit("newpub " + Hex(b))
			if _, ok := eclib.LiftX(x, pre == 3); ok {
				somePubs = append(somePubs, b)
				if r.Chance(30) {
					emit("uncompress " + Hex(b))
				}
			}
		}
		if r.Chance(40) {
			pre := []byte{0, 1, 4, 5, 6, 7, 0x82, 0xff}[r.Intn(8)]
			emit("newpub " + Hex(append([]byte{pre}, b32(x)...)))
		}
	}
	// valid keys with an extreme ordinate (|y| tiny, or y next to p): the square root comes out of the field
	// code in a non-canonical representation there, which is where parity decisions go wrong
	for i := 0; i < 20*scale; i++ {
		yv := big.NewInt(int64(r.Intn(400)))
		if r.Chance(15) {
			yv = new(big.Int).SetUint64(r.U64() >> uint(r.Intn(40)))
		}
		if r.Bool() {
			yv = new(big.Int).Sub(eclib.P, yv)
		}
		if pt, ok := eclib.PointWithY(yv); ok {
			b := eclib.Compress(pt)
			emit("newpub " + Hex(b))
			emit("newpub " + Hex(append([]byte{b[0] ^ 1}, b[1:]...)))
			somePubs = append(somePubs, b)
			if r.Chance(50) {
				emit("uncompress " + Hex(b))
				emit("ecdh " + Hex(b) + " " + Hex(b32(validScalar(r, edges))))
			}
		}
	}
	// --- field arithmetic on structured values: tiny, next to p, next to 2^256, and their combinations (the reduction
	// code is exercised at its carries only by such values; random values never reach them)
	fieldVals := func() []*big.Int {
		var l []*big.Int
		for _, t := range []int64{0, 1, 2, 3, 0x3d0, 0x3d1, 0x3d2, 977, 1000, 65535} {
			l = append(l, big.NewInt(t), new(big.Int).Sub(eclib.P, big.NewInt(t)), new(big.Int).Sub(two256, big.NewInt(t+1)))
		}
		d := new(big.Int).Sub(two256, eclib.P) // 2^32 + 977
		l = append(l, d, add(d, 1), add(d, -1), new(big.Int).Lsh(big.NewInt(1), 255), new(big.Int).Lsh(big.NewInt(1), 26), add(new(big.Int).Lsh(big.NewInt(1), 26), -1),
			new(big.Int).Sub(new(big.Int).Lsh(big.NewInt(1), 234), big.NewInt(1)))
		return l
	}()
	pickF := func() *big.Int {
		switch r.Intn(4) {
		case 0:
			return new(big.Int).SetBytes(r.Bytes(32))
		case 1:
			return new(big.Int).SetUint64(r.U64() >> uint(r.Intn(60)))
		}
		return fieldVals[r.Intn(len(fieldVals))]
	}
	for i := 0; i < 150*scale; i++ {
		a, b := pickF(), pickF()
		emit("fnorm " + Hex(b32(a)) + " " + strconv.Itoa(1+r.Intn(8)) + " " + Hex(b32(b)))
		if i%3 == 0 {
			emit("fmul " + Hex(b32(a)) + " " + Hex(b32(b)) + " " + strconv.Itoa(1+r.Intn(8)))
		}
		if i%4 == 0 {
			emit("fsqr " + Hex(b32(a)) + " " + strconv.Itoa(1+r.Intn(8)))
		}
		if i%10 == 0 {
			emit("finv " + Hex(b32(a)))
		}
	}
	// point addition incl. doubling (P+P), inverse (P+(-P)) and extreme ordinates / abscissae
	var xs []eclib.Pt
	for xv := int64(1); len(xs) < 6; xv++ {
		if pt, ok := eclib.LiftX(big.NewInt(xv), r.Bool()); ok {
			xs = append(xs, pt)
		}
	}
	for yv := int64(1); len(xs) < 14; yv++ {
		if pt, ok := eclib.PointWithY(big.NewInt(yv)); ok {
			xs = append(xs, pt, eclib.Neg(pt))
		}
	}
	// the endomorphism images of extreme points are extreme again: lambda*(x,y) = (beta*x, y), so the PRODUCT has the
	// tiny ordinate (results, not only inputs, must be encoded from normalized coordinates)
	lam2 := new(big.Int).Sub(add(eclib.N, -1), lambda) // lambda^2 = -1 - lambda (mod n)
	for _, pt := range xs {
		for _, k := range []*big.Int{lambda, lam2, new(big.Int).Sub(eclib.N, lambda), new(big.Int).Sub(eclib.N, lam2), add(eclib.N, -1)} {
			if r.Chance(40) || thorough {
				emit("mul " + Hex(eclib.Compress(pt)) + " " + Hex(b32(k)))
			}
		}
	}
	for i := 0; i < 8*scale; i++ {
		p1 := xs[r.Intn(len(xs))]
		p2 := xs[r.Intn(len(xs))]
		if r.Chance(30) {
			p2 = eclib.Mul(validScalar(r, edges), eclib.G)
		}
		emit("ptadd " + Hex(eclib.Compress(p1)) + " " + Hex(eclib.Compress(p2)))
		emit("mul " + Hex(eclib.Compress(p1)) + " " + Hex(b32(validScalar(r, edges))))
		if i%4 == 0 {
			emit("mul " + Hex(eclib.Compress(p1)) + " " + Hex(b32(big.NewInt(int64(1+r.Intn(70))))))
			emit("ptadd " + Hex(eclib.Compress(p1)) + " " + Hex(eclib.Compress(p1)))
			emit("ptadd " + Hex(eclib.Compress(p1)) + " " + Hex(eclib.Compress(eclib.Neg(p1))))
		}
	}
	// --- signing with explicit nonce, verification, recovery
	nsig := 30 * scale
	for i := 0; i < nsig; i++ {
		d := validScalar(r, edges)
		k := validScalar(r, edges)
		z := randScalar(r, edges)
		z.Mod(z, two256)
		if r.Chance(10) {
			z = big.NewInt(0)
		}
		emit("rawsign " + Hex(b32(d)) + " " + Hex(b32(z)) + " " + Hex(b32(k)))
		pub := eclib.Compress(eclib.Mul(d, eclib.G))
		rr, ss, recid, ok := eclib.Sign(d, z, k)
		if !ok {
			continue
		}
		sig := eclib.Sig65(rr, ss, recid)
		h := Hex(b32(z))
		emit("verify " + Hex(pub) + " " + Hex(sig) + " " + h)
		emit("pubfromsig " + Hex(sig) + " " + h)
		emit("rawverify " + Hex(pub) + " " + Hex(sig[:64]) + " " + h)
		if i%3 == 0 {
			emit("verifyrec " + Hex(sig) + " " + h)
		}
		// structured faults: each one is an input the textbook rejects (or maps to another key)
		mut := func(name string, s []byte, hh string, p []byte) {
			emit("verify " + Hex(p) + " " + Hex(s) + " " + hh)
			if r.Chance(50) {
				emit("pubfromsig " + Hex(s) + " " + hh)
			}
		}
		nm := 3
		if thorough {
			nm = 6
		}
		for j := 0; j < nm; j++ {
			s2 := append([]byte{}, sig...)
			h2 := h
			p2 := pub
			switch r.Intn(13) {
			case 0: // negate s, flip recid bit 0 (the classic malleation)
				copy(s2[32:64], b32(new(big.Int).Sub(eclib.N, ss)))
				s2[64] ^= 1
			case 1: // negate s only
				copy(s2[32:64], b32(new(big.Int).Sub(eclib.N, ss)))
			case 2: // recid variants
				s2[64] = byte([]int{recid ^ 1, recid ^ 2, recid ^ 3, recid + 4, recid + 8, 255, 27 + recid}[r.Intn(7)])
			case 3: // r or s out of range
				v := []*big.Int{big.NewInt(0), eclib.N, add(eclib.N, 1), add(two256, -1), new(big.Int).Add(rr, eclib.N)}[r.Intn(5)]
				if r.Bool() {
					copy(s2[0:32], b32(v))
				} else {
					copy(s2[32:64], b32(v))
				}
			case 4: // flip one bit of r / s
				s2[r.Intn(64)] ^= 1 << uint(r.Intn(8))
			case 5: // different message
				h2 = Hex(b32(add(z, 1)))
			case 6: // message + n (same scalar mod n) and message 0 / n
				h2 = Hex(b32(new(big.Int).Add(z, eclib.N)))
			case 7: // other public key
				p2 = eclib.Compress(eclib.Mul(add(d, 1), eclib.G))
			case 8: // the other parity of the same x
				p2 = append([]byte{pub[0] ^ 1}, pub[1:]...)
			case 9: // message hash 0
				h2 = Hex(make([]byte, 32))
			case 10: // random signature bytes
				s2 = append(r.Bytes(64), byte(r.Intn(4)))
			case 12: // r re-encoded as r + n (wraps for an ordinary r) with an arbitrary recovery id
				copy(s2[0:32], b32(new(big.Int).Add(rr, eclib.N)))
				s2[64] = byte(r.Intn(4))
			case 11: // swap r and s
				copy(s2[0:32], sig[32:64])
				copy(s2[32:64], sig[0:32])
			}
			mut("", s2, h2, p2)
			if (r.Chance(20) || thorough) && len(p2) == 33 { // p2 is nil when the "other key" is (d+1)*G with d = n-1
				emit("rawverify " + Hex(p2) + " " + Hex(s2[:64]) + " " + h2)
			}
		}
		if i%4 == 0 { // the real signer with its own random nonce (nonce read back by the driver)
			emit("signhash " + Hex(b32(d)) + " " + h)
		}
	}
	// --- group level: ECmult(A, na, ng) = na*A + ng*G on a small exhaustive grid with A = t*G. Inside ECmult the running sum
	// and the next table entry are then small multiples of G too, so every "sum equals the point added next" (doubling branch
	// of the Jacobian addition), "sum is its negative" and "sum is infinity" collision of small order occurs.
	{
		tmax, namax, ngcnt := 10, 12, 26
		if thorough {
			tmax, namax, ngcnt = 32, 32, 65
		}
		small := make([][]byte, tmax+1)
		acc := eclib.Infinity
		for t := 1; t <= tmax; t++ {
			acc = eclib.Add(acc, eclib.G)
			small[t] = eclib.Compress(acc)
		}
		for t := 1; t <= tmax; t++ {
			for na := 0; na <= namax; na++ {
				emit("ecmrow " + strconv.Itoa(t) + " " + strconv.Itoa(na) + " 0 " + strconv.Itoa(ngcnt) + " " + Hex(small[t]))
			}
		}
		// structured scalars: powers of two, window boundaries of the wNAF recodings (5 bits for A, 14 bits for G), the
		// relations na*t = ng (+-1), and the same modulo n (ng = n - na*t: the sum is the identity)
		structured := []*big.Int{}
		for _, e := range []uint{1, 2, 3, 4, 5, 6, 7, 8, 13, 14, 15, 16, 31, 32, 64, 127, 128, 129, 255} {
			v := new(big.Int).Lsh(big.NewInt(1), e)
			structured = append(structured, v, add(v, -1), add(v, 1))
		}
		ns := 40 * scale
		for i := 0; i < ns; i++ {
			t := 1 + r.Intn(tmax)
			na := structured[r.Intn(len(structured))]
			if r.Chance(40) {
				na = big.NewInt(int64(r.Intn(70)))
			}
			prod := new(big.Int).Mul(na, big.NewInt(int64(t)))
			var ng *big.Int
			switch r.Intn(6) {
			case 0:
				ng = prod
			case 1:
				ng = add(prod, int64(r.Intn(3)-1))
			case 2:
				ng = new(big.Int).Sub(eclib.N, new(big.Int).Mod(prod, eclib.N))
			case 3:
				ng = new(big.Int).Mul(prod, big.NewInt(2))
			case 4:
				ng = structured[r.Intn(len(structured))]
			default:
				ng = big.NewInt(int64(r.Intn(70)))
			}
			ng = new(big.Int).Mod(ng, two256)
			if ng.Sign() < 0 {
				ng = big.NewInt(0)
			}
			emit("ecmult " + Hex(small[t]) + " " + Hex(b32(na)) + " " + Hex(b32(ng)))
			if i%3 == 0 { // the same through the public multiplication entry points
				if na.Sign() > 0 && na.Cmp(eclib.N) < 0 {
					emit("mul " + Hex(small[t]) + " " + Hex(b32(na)))
					emit("ecdh " + Hex(small[t]) + " " + Hex(b32(na)))
				}
			}
		}
		// the Jacobian addition itself, on equal / opposite / unrelated points in arbitrary representations (Z = 1, 2, 3, ...)
		for i := 0; i < 25*scale; i++ {
			t1 := 1 + r.Intn(tmax)
			t2 := 1 + r.Intn(tmax)
			pa, pb := small[t1], small[t2]
			switch r.Intn(3) {
			case 0:
				pb = pa
			case 1:
				pb = append([]byte{pa[0] ^ 1}, pa[1:]...)
			}
			emit("jadd " + Hex(pa) + " " + Hex(pb) + " " + strconv.Itoa(1+r.Intn(5)) + " " + strconv.Itoa(1+r.Intn(5)))
		}
	}
	// --- signature level: R = k*G with small / structured k, s = a*r, message = -b*r (mod n): recovery computes a*R + b*G,
	// the key is (a*k + b)*G. With b = a*k the two halves of the double multiplication meet.
	{
		nfam := 24 * scale
		for i := 0; i < nfam; i++ {
			var k *big.Int
			switch r.Intn(4) {
			case 0:
				k = big.NewInt(int64(1 + r.Intn(64)))
			case 1:
				k = new(big.Int).Lsh(big.NewInt(int64(1+r.Intn(15))), uint(r.Intn(120)))
			case 2:
				k = new(big.Int).Rsh(new(big.Int).SetBytes(r.Bytes(16)), uint(4+r.Intn(8)))
				k.SetBit(k, 0, 0) // even nonce below 2^124
			default:
				k = validScalar(r, edges)
			}
			if k.Sign() == 0 {
				k = big.NewInt(2)
			}
			a := big.NewInt(int64(1 + r.Intn(15)))
			if r.Chance(25) {
				a = big.NewInt(int64(1 + r.Intn(64)))
			}
			ak := new(big.Int).Mul(a, k)
			var b *big.Int
			switch r.Intn(5) {
			case 0, 1:
				b = ak // the halves collide
			case 2:
				b = add(ak, int64(r.Intn(3)-1))
			case 3:
				b = big.NewInt(int64(r.Intn(64)))
			default:
				b = new(big.Int).Sub(eclib.N, new(big.Int).Mod(ak, eclib.N)) // key would be the identity: no key
			}
			b.Mod(b, eclib.N)
			R := eclib.Mul(k, eclib.G)
			if R.Inf {
				continue
			}
			rr := new(big.Int).Mod(R.X, eclib.N)
			recid := int(R.Y.Bit(0))
			if R.X.Cmp(eclib.N) >= 0 {
				recid |= 2
			}
			ss := new(big.Int).Mod(new(big.Int).Mul(a, rr), eclib.N)
			m := new(big.Int).Mod(new(big.Int).Neg(new(big.Int).Mul(b, rr)), eclib.N)
			if ss.Sign() == 0 || rr.Sign() == 0 {
				continue
			}
			d := new(big.Int).Mod(new(big.Int).Add(ak, b), eclib.N)
			key := eclib.Compress(eclib.Mul(d, eclib.G)) // nil when d = 0
			h := Hex(b32(m))
			for _, variant := range []int{0, 1} { // s as computed, and the negated twin with the parity bit flipped
				sv, rv := ss, recid
				if variant == 1 {
					sv, rv = new(big.Int).Sub(eclib.N, ss), recid^1
				}
				sig := eclib.Sig65(rr, sv, rv)
				emit("pubfromsig " + Hex(sig) + " " + h)
				if key != nil {
					emit("verify " + Hex(key) + " " + Hex(sig) + " " + h)
					if variant == 0 || thorough {
						emit("rawverify " + Hex(key) + " " + Hex(sig[:64]) + " " + h)
					}
				}
				if i%3 == 0 {
					emit("verifyrec " + Hex(sig) + " " + h)
				}
			}
		}
	}
	// --- crafted signatures with a tiny r: for r < p - n the recovery ids 2 and 3 name a SECOND nonce point, of abscissa
	// r + n. Honest signatures never have such an r; every reading (recid 0..3) must recover its own key and only that one.
	{
		var rs []*big.Int
		nr := 10
		if thorough {
			nr = 40
		}
		for i := 1; i <= nr; i++ {
			rs = append(rs, big.NewInt(int64(i)))
		}
		rs = append(rs, add(eclib.PminusN, -2), add(eclib.PminusN, -1), eclib.PminusN, add(eclib.PminusN, 1),
			new(big.Int).Rsh(eclib.PminusN, uint(1+r.Intn(60))), new(big.Int).SetUint64(r.U64()))
		for _, rr := range rs {
			ss := new(big.Int).Rsh(validScalar(r, edges), 1)
			if ss.Sign() == 0 {
				ss = big.NewInt(1)
			}
			z := new(big.Int).SetBytes(r.Bytes(32))
			h := Hex(b32(z))
			var keys [4][]byte
			for v := 0; v < 4; v++ {
				if q, ok := eclib.Recover(rr, ss, z, v); ok {
					keys[v] = eclib.Compress(q)
				}
			}
			for v := 0; v < 4; v++ {
				sig := eclib.Sig65(rr, ss, v)
				if v >= 2 || r.Chance(30) {
					emit("pubfromsig " + Hex(sig) + " " + h)
				}
				if v >= 2 && keys[v] != nil {
					emit("verify " + Hex(keys[v]) + " " + Hex(sig) + " " + h)
					emit("verifyrec " + Hex(sig) + " " + h)
				}
				// the key of the reading that differs in bit 1 must NOT be accepted for this recovery byte
				if v >= 2 && keys[v^2] != nil {
					emit("verify " + Hex(keys[v^2]) + " " + Hex(sig) + " " + h)
				}
			}
			// plain ECDSA verification (Signature.Verify: x(u1*G + u2*Q) mod n = r) has no recovery id: the canonical (r, s) is a
			// VALID signature for the key of each of the four readings - for the readings 2 and 3 the nonce point's abscissa is
			// r + n >= n, so the reduction mod n (equivalently the retry with r + n) is what makes it verify. Neighbours must fail
			// (except the negated s, which plain ECDSA accepts too).
			for v := 0; v < 4; v++ {
				if keys[v] == nil {
					continue
				}
				sig := eclib.Sig65(rr, ss, v)
				emit("rawverify " + Hex(keys[v]) + " " + Hex(sig[:64]) + " " + h)
				if v >= 2 || r.Chance(25) {
					nb := r.Intn(5)
					g := append([]byte{}, sig[:64]...)
					h2 := h
					switch nb {
					case 0:
						copy(g[32:64], b32(new(big.Int).Sub(eclib.N, ss))) // still valid
					case 1:
						copy(g[32:64], b32(add(ss, 1)))
					case 2:
						copy(g[0:32], b32(add(rr, 1)))
					case 3:
						h2 = Hex(b32(add(z, 1)))
					case 4:
						copy(g[0:32], b32(new(big.Int).Add(rr, eclib.N))) // r + n: not below n
					}
					emit("rawverify " + Hex(keys[v]) + " " + Hex(g) + " " + h2)
				}
			}
			// re-encodings of r: textbook ECDSA requires 0 < r < n, so r + n (a field element below p here, naming the abscissa
			// that recovery-id bit 1 selects), r = n and r = n + r' are not signatures at all, whatever the recovery id
			rn := new(big.Int).Add(rr, eclib.N)
			for w := 0; w < 4; w++ {
				g := eclib.Sig65(rn, ss, w)
				emit("pubfromsig " + Hex(g) + " " + h)
				for v := 2; v < 4; v++ {
					if keys[v] != nil && (w == v&1 || thorough || r.Chance(30)) {
						emit("verify " + Hex(keys[v]) + " " + Hex(g) + " " + h)
						emit("rawverify " + Hex(keys[v]) + " " + Hex(g[:64]) + " " + h)
					}
				}
				if w < 2 {
					emit("verifyrec " + Hex(g) + " " + h)
				}
			}
			for _, rv := range []*big.Int{eclib.N, add(eclib.N, 1), add(eclib.P, -1), eclib.P} {
				emit("pubfromsig " + Hex(eclib.Sig65(rv, ss, r.Intn(4))) + " " + h)
			}
		}
	}
	emit("signhash " + Hex(make([]byte, 32)) + " " + Hex(r.Bytes(32)))
	emit("signhash " + Hex(b32(eclib.N)) + " " + Hex(r.Bytes(32)))
	emit("signhash " + Hex(b32(big.NewInt(1))) + " " + Hex(make([]byte, 32)))
	emit("signhash " + Hex(b32(big.NewInt(1))) + " " + Hex(b32(eclib.N)))
	// signatures over message scalars 0 and n built by the generator (u1 = n inside Recover)
	for _, z := range []*big.Int{big.NewInt(0), eclib.N, add(eclib.N, 1), add(two256, -1)} {
		d := validScalar(r, edges)
		k := validScalar(r, edges)
		if rr, ss, recid, ok := eclib.Sign(d, z, k); ok {
			sig := eclib.Sig65(rr, ss, recid)
			emit("verify " + Hex(eclib.Compress(eclib.Mul(d, eclib.G))) + " " + Hex(sig) + " " + Hex(b32(z)))
			emit("pubfromsig " + Hex(sig) + " " + Hex(b32(z)))
		}
	}
	// --- ECDH / point multiplication
	for i := 0; i < 16*scale; i++ {
		var pub []byte
		if r.Chance(75) || len(somePubs) == 0 {
			pub = eclib.Compress(eclib.Mul(validScalar(r, edges), eclib.G))
		} else {
			pub = somePubs[r.Intn(len(somePubs))]
		}
		if r.Chance(10) {
			pub = append([]byte{pub[0]}, b32(add(eclib.P, int64(r.Intn(5)-7)))...) // mostly off-curve, x < p
		}
		if r.Chance(5) {
			pub = append([]byte{byte(r.Intn(2) * 4)}, pub[1:]...)
		}
		k := randScalar(r, edges)
		k.Mod(k, two256)
		emit("ecdh " + Hex(pub) + " " + Hex(b32(k)))
		if _, ok := eclib.LiftX(new(big.Int).SetBytes(pub[1:]), pub[0] == 3); ok && (pub[0] == 2 || pub[0] == 3) && k.Sign() > 0 && k.Cmp(eclib.N) < 0 {
			emit("mul " + Hex(pub) + " " + Hex(b32(k)))
		}
	}
	// --- deterministic key sequences
	emit("detkeys - 1")
	emit("detkeys - 0")
	emit("detiter -")
	for i := 0; i < 6*scale; i++ {
		seed := r.Bytes([]int{1, 2, 16, 31, 32, 33, 64, 100}[r.Intn(8)])
		if r.Chance(20) {
			seed = []byte("the quick brown fox")
		}
		emit("s256k1hash " + Hex(seed))
		emit("detiter " + Hex(seed))
		emit("detkeys " + Hex(seed) + " " + strconv.Itoa(r.Intn(4)))
	}
}

func main() { Main(&Prop{Gen: gen, Exec: exec}) }
