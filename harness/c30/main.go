package main

// C30: coin amount text conversion.  Real functions: droplet.FromString, droplet.ToString.
//
// Strings travel as "s:<text>" when they consist of printable ASCII without blanks, else "x:<hex>".
// Exponents are bounded (|exp| <= 30, at most 5 exponent digits): the unbounded-exponent hang of the
// decimal library (F16) is filed under C28 and deliberately not generated here.

import (
	"strconv"
	"strings"

	. "verif/harness/hlib"

	"github.com/skycoin/skycoin/src/util/droplet"
)

var c30Errs = map[error]string{
	droplet.ErrNegativeValue:   "ErrNegativeValue",
	droplet.ErrTooManyDecimals: "ErrTooManyDecimals",
	droplet.ErrTooLarge:        "ErrTooLarge",
}

func enc(s string) string {
	ok := len(s) > 0
	for i := 0; i < len(s); i++ {
		if s[i] < 0x21 || s[i] > 0x7e {
			ok = false
		}
	}
	if ok {
		return "s:" + s
	}
	return "x:" + Hex([]byte(s))
}

func dec(t string) string {
	if strings.HasPrefix(t, "s:") {
		return t[2:]
	}
	if strings.HasPrefix(t, "x:") {
		return string(PHex(t[2:]))
	}
	panic("harness: bad text " + t)
}

func c30Exec(op string) string {
	f := Fields(op)
	switch f[0] {
	case "ToString":
		s, err := droplet.ToString(PU64(f[1]))
		if err != nil {
			return "err " + ErrName(err, c30Errs)
		}
		return "ok " + enc(s)
	case "RoundTrip":
		s, err := droplet.ToString(PU64(f[1]))
		if err != nil {
			return "err " + ErrName(err, c30Errs)
		}
		v, err := droplet.FromString(s)
		return ResU(v, err, c30Errs)
	case "FromString":
		v, err := droplet.FromString(dec(f[1]))
		return ResU(v, err, c30Errs)
	}
	panic("harness: unknown op " + f[0])
}

func u(v uint64) string { return strconv.FormatUint(v, 10) }

func digits(r *Rng, n int) string {
	b := make([]byte, n)
	for i := range b {
		b[i] = byte('0' + r.Intn(10))
	}
	return string(b)
}

var intParts = []string{"", "0", "00", "1", "7", "10", "100", "00012", "9223372036854", "9223372036855", "9223372036853",
	"9223372036854775807", "9223372036854775808", "92233720368547758070", "18446744073709", "999999999999999999999999",
	"922337203685", "123456789"}
var fracParts = []string{"", "0", "00", "000000", "0000000", "5", "50", "05", "000001", "0000001", "00000010", "775807", "775808",
	"7758070", "775806", "999999", "9999999", "123456", "1234567", "100000", "000000000000"}

func genExp(r *Rng) string {
	if r.Chance(55) {
		return ""
	}
	e := "e"
	if r.Bool() {
		e = "E"
	}
	switch r.Intn(3) {
	case 0:
		e += "+"
	case 1:
		e += "-"
	}
	v := r.Intn(31)
	if r.Chance(50) {
		v = r.Intn(10)
	}
	d := strconv.Itoa(v)
	if r.Chance(15) {
		d = "0" + d
	}
	if r.Chance(5) {
		d = "00" + d
	}
	return e + d
}

// genAmount: a string of the grammar (mostly), built from boundary pieces and random digits
func genAmount(r *Rng) string {
	s := []string{"", "", "", "+", "-"}[r.Intn(5)]
	var ip, fp string
	if r.Chance(45) {
		ip = intParts[r.Intn(len(intParts))]
	} else {
		ip = digits(r, r.Intn(21))
		if r.Chance(50) {
			ip = strings.TrimLeft(ip, "0")
		}
	}
	point := r.Chance(65)
	if point {
		if r.Chance(50) {
			fp = fracParts[r.Intn(len(fracParts))]
		} else {
			fp = digits(r, r.Intn(10))
			if r.Chance(40) {
				fp += strings.Repeat("0", r.Intn(4))
			}
		}
		return s + ip + "." + fp + genExp(r)
	}
	// integers with trailing zeros and a negative exponent: the coefficient normal-form cases
	if r.Chance(30) {
		ip += strings.Repeat("0", r.Intn(8))
	}
	return s + ip + genExp(r)
}

// scaled: the same amount written with the point moved and an exponent compensating
func scaled(r *Rng, v uint64) string {
	d := u(v) // droplets
	shift := r.Intn(14) - 3
	// value in coins = v * 10^-6 = d * 10^(-6); write d with an exponent -6 (+shift, padding zeros)
	if shift >= 0 {
		return d + strings.Repeat("0", shift) + "e-" + strconv.Itoa(6+shift)
	}
	k := -shift
	if len(d) > k {
		return d[:len(d)-k] + "." + d[len(d)-k:] + "e-" + strconv.Itoa(6-k)
	}
	return "0." + strings.Repeat("0", k-len(d)) + d + "e-" + strconv.Itoa(6-k)
}

var junk = []string{"+", "-", ".", "e", "E", "0", "_", ",", "x", " ", "\t", "\n", "\x00", "\xff", "٣", "１", "e-", ".+", ".-", "Inf", "NaN"}

func mutate(r *Rng, s string) string {
	b := []byte(s)
	pos := 0
	if len(b) > 0 {
		pos = r.Intn(len(b) + 1)
	}
	j := junk[r.Intn(len(junk))]
	switch r.Intn(5) {
	case 0: // insert
		return string(b[:pos]) + j + string(b[pos:])
	case 1: // replace
		if pos < len(b) {
			return string(b[:pos]) + j + string(b[pos+1:])
		}
		return string(b) + j
	case 2: // delete
		if pos < len(b) {
			return string(b[:pos]) + string(b[pos+1:])
		}
		return s
	case 3: // truncate
		return string(b[:pos])
	default: // duplicate a piece
		return string(b[:pos]) + string(b[pos/2:])
	}
}

var special = []string{"", ".", "+", "-", "e", "E", "e5", ".e5", "1e", "1e+", "1e-", "1.e5", "1.e-1", "1e5.0", "1E5", "1e+5", "1e-+5",
	"Inf", "+Inf", "-Inf", "inf", "NaN", "nan", "0x10", "0b1", "1_000", "1,000", " 1", "1 ", "1\n", "\t1", "١٢٣", "１", "1١",
	".+5", ".-5", ".+50", ".+5e1", ".-0", ".+0", "+.5", "-.5", "+.0", ".0", ".00", ".5", ".50", "0.", "1.", "+1.", "-0", "-0.0", "-0.000000",
	"+0", "1.+5", "1.-5", "0.+5", "--1", "+-1", "-+1", "++1", "1-", "1+", "1..2", "1.2.3", "..", "1e1e1", "1ee1", "e", "ee",
	"10e-7", "100e-8", "0e-7", "0.0e-7", "0e-30", "-0e-7", "10.0e-7", "1e-6", "1e-7", "0.1e-5", "0.10e-5", "0.12e-5", "1e12", "1e13",
	"9.223372036854775807e12", "9.223372036854775808e12", "9223372036854775807e-6", "9223372036854775808e-6",
	"92233720368547758070e-7", "9223372036854.775807", "9223372036854.775808", "9223372036854.7758070", "9223372036854.7758071",
	"0.000001", "0.0000001", "0.0000010", "0.00000100", "1.0000000", "1.00000010", "00000000000000000001.5", "0e30", "0e0", "0E-0",
	"1e05", "1e005", "1e-06", "1e-007", "1e00000", "1e30", "1e-30", "123456789.123456", "100SKY", "1 SKY", "1.5.", ".1.", "1.e", "1.E+"}

// boundedExp: at most 5 bytes after the first 'e'/'E' (|exponent| <= 99999), see the header comment
func boundedExp(s string) bool {
	i := strings.IndexAny(s, "Ee")
	return i == -1 || len(s)-i-1 <= 5
}

func c30Gen(r *Rng, tier string, emit0 func(string)) {
	// neighbouring hlib seeds give shifted copies of one stream; re-seed from the first output
	r = NewRng(r.U64())
	emit := func(op string) {
		if f := strings.Fields(op); f[0] == "FromString" && !boundedExp(dec(f[1])) {
			return
		}
		emit0(op)
	}
	for _, s := range special {
		emit("FromString " + enc(s))
	}
	// amounts -> text -> amounts
	pow := uint64(1)
	for k := 0; k < 20; k++ {
		for _, d := range []uint64{pow - 1, pow, pow + 1, 5 * pow, 9*pow + 1} {
			emit("ToString " + u(d))
			emit("RoundTrip " + u(d))
		}
		pow *= 10
	}
	for _, a := range Boundary64 {
		for d := uint64(0); d < 5; d++ {
			emit("ToString " + u(a+d-2))
			emit("RoundTrip " + u(a+d-2))
		}
	}
	n := 3000
	if tier == "thorough" {
		n = 300000
	}
	for i := 0; i < n; i++ {
		switch r.Intn(10) {
		case 0, 1:
			v := r.U64Mixed()
			if r.Chance(60) {
				v = r.U64() >> uint(1+r.Intn(63))
			}
			if r.Chance(30) {
				v = v / 1000000 * 1000000
			}
			emit("ToString " + u(v))
			emit("RoundTrip " + u(v))
		case 2:
			// a representable amount written in scientific notation in several ways
			v := r.U64() >> uint(1+r.Intn(63))
			if r.Chance(20) {
				v = 9223372036854775807 - uint64(r.Intn(3))
			}
			emit("FromString " + enc(scaled(r, v)))
		case 3, 4, 5, 6:
			emit("FromString " + enc(genAmount(r)))
		default:
			s := genAmount(r)
			if r.Chance(30) {
				s = special[r.Intn(len(special))]
			}
			s = mutate(r, s)
			if r.Chance(20) {
				s = mutate(r, s)
			}
			emit("FromString " + enc(s))
		}
	}
}

func main() { Main(&Prop{Gen: c30Gen, Exec: c30Exec}) }
