package main

// Live-node part of C29: a real visor on a real bolt database in $VERIF_SCRATCH with a real signed
// chain; Visor.GetTransactions is asked for the unpaged listing and then for pages of it.
//
// Transaction hashes depend on random signature nonces, so they are read back from the
// implementation (impl output of live_new / live_txn / live_block is the ground truth taken from the
// transactions and blocks the harness built itself) and handed to the model as inputs.

import (
	"os"
	"path/filepath"
	"strconv"
	"strings"

	. "verif/harness/hlib"

	"github.com/skycoin/skycoin/src/cipher"
	"github.com/skycoin/skycoin/src/coin"
	"github.com/skycoin/skycoin/src/params"
	"github.com/skycoin/skycoin/src/visor"
	"github.com/skycoin/skycoin/src/visor/dbutil"
)

type liveNode struct {
	v      *visor.Visor
	db     *dbutil.DB
	path   string
	pubSec cipher.SecKey
	keys   []cipher.SecKey
	addrs  []cipher.Address
	now    uint64
	height uint64                 // head block seq
	inPool map[cipher.SHA256]bool // outputs already spent by a pool transaction
}

var (
	live        *liveNode
	liveCtr     int
	liveLastLen uint64 // length of the last live_list result (gen mode executes ops as it emits them)
	liveLastOK  bool   // the last live_list returned a listing
)

func liveReset() {
	if live != nil {
		live.db.Close()
		os.Remove(live.path)
		live = nil
	}
}

func liveClose() { liveReset() }

func (n *liveNode) idxOf(a cipher.Address) string {
	for i, x := range n.addrs {
		if x == a {
			return strconv.Itoa(i)
		}
	}
	return "x"
}

func liveNew(nAddrs int) string {
	liveReset()
	dir := os.Getenv("VERIF_SCRATCH")
	if dir == "" {
		dir = os.TempDir()
	}
	liveCtr++
	path := filepath.Join(dir, "c29-live-"+strconv.Itoa(os.Getpid())+"-"+strconv.Itoa(liveCtr)+".db")
	pub, sec := cipher.MustGenerateDeterministicKeyPair([]byte("c29-publisher"))
	n := &liveNode{path: path, pubSec: sec, now: 1500000000, inPool: map[cipher.SHA256]bool{}}
	for i := 0; i < nAddrs; i++ {
		p, s := cipher.MustGenerateDeterministicKeyPair([]byte("c29-addr-" + strconv.Itoa(i)))
		n.keys = append(n.keys, s)
		n.addrs = append(n.addrs, cipher.AddressFromPubKey(p))
	}
	cfg := visor.NewConfig()
	cfg.IsBlockPublisher = true
	cfg.BlockchainPubkey = pub
	cfg.BlockchainSeckey = sec
	cfg.GenesisAddress = n.addrs[0]
	cfg.GenesisTimestamp = n.now
	cfg.GenesisCoinVolume = 100e12
	cfg.Distribution = params.MainNetDistribution
	db, err := visor.OpenDB(path, false)
	if err != nil {
		panic("harness: open db: " + err.Error())
	}
	v, err := visor.New(cfg, db, nil)
	if err != nil {
		panic("harness: visor.New: " + err.Error())
	}
	if err := v.Init(); err != nil {
		panic("harness: visor.Init: " + err.Error())
	}
	n.v, n.db = v, db
	live = n
	gb, err := v.GetSignedBlockBySeq(0)
	if err != nil || gb == nil {
		panic("harness: no genesis block")
	}
	return "ok " + gb.Body.Transactions[0].Hash().Hex() + " in=- out=0"
}

func liveTxn(from, to int) string {
	n := live
	uxs, err := n.v.GetUnspentsOfAddrs([]cipher.Address{n.addrs[from]})
	if err != nil {
		panic("harness: GetUnspentsOfAddrs: " + err.Error())
	}
	var best *coin.UxOut
	for _, ux := range uxs[n.addrs[from]] {
		ux := ux
		if n.inPool[ux.Hash()] {
			continue
		}
		if best == nil || ux.Body.Coins > best.Body.Coins || (ux.Body.Coins == best.Body.Coins && ux.Hash().Hex() < best.Hash().Hex()) {
			best = &ux
		}
	}
	if best == nil {
		return "skip"
	}
	hours, err := best.CoinHours(n.now)
	if err != nil || hours < 8 {
		return "skip"
	}
	coins := best.Body.Coins
	send := coins
	if coins >= 2e6 {
		send = coins / 2 / 1e6 * 1e6
	}
	change := coins - send
	var txn coin.Transaction
	if err := txn.PushInput(best.Hash()); err != nil {
		panic(err)
	}
	outs := strconv.Itoa(to)
	if err := txn.PushOutput(n.addrs[to], send, hours/4); err != nil {
		panic(err)
	}
	if change >= 4e6 {
		// split the change so that the number of spendable outputs grows
		c1 := change / 2 / 1e6 * 1e6
		if err := txn.PushOutput(n.addrs[from], c1, hours/8+1); err != nil {
			panic(err)
		}
		if err := txn.PushOutput(n.addrs[from], change-c1, hours/8+2); err != nil {
			panic(err)
		}
		outs += "," + strconv.Itoa(from) + "," + strconv.Itoa(from)
	} else if change > 0 {
		if err := txn.PushOutput(n.addrs[from], change, hours/4+1); err != nil {
			panic(err)
		}
		outs += "," + strconv.Itoa(from)
	}
	txn.SignInputs([]cipher.SecKey{n.keys[from]})
	if err := txn.UpdateHeader(); err != nil {
		panic(err)
	}
	if _, _, _, err := n.v.InjectUserTransaction(txn); err != nil {
		return "err inject " + strings.ReplaceAll(err.Error(), "\t", " ")
	}
	n.inPool[best.Hash()] = true
	return "ok " + txn.Hash().Hex() + " in=" + strconv.Itoa(from) + " out=" + outs
}

func liveBlock() string {
	n := live
	pool, err := n.v.GetAllUnconfirmedTransactions()
	if err != nil {
		panic(err)
	}
	if len(pool) == 0 {
		return "skip"
	}
	var txns coin.Transactions
	for _, p := range pool {
		txns = append(txns, p.Transaction)
	}
	n.now += 600
	b, err := n.v.CreateBlockFromTxns(txns, n.now)
	if err != nil {
		panic("harness: CreateBlockFromTxns: " + err.Error())
	}
	sb := coin.SignedBlock{Block: b, Sig: cipher.MustSignHash(b.HashHeader(), n.pubSec)}
	if err := n.v.ExecuteSignedBlock(sb); err != nil {
		panic("harness: ExecuteSignedBlock: " + err.Error())
	}
	n.height = b.Seq()
	var hs []string
	for _, t := range b.Body.Transactions {
		hs = append(hs, t.Hash().Hex())
	}
	return "ok " + strconv.FormatUint(b.Seq(), 10) + " " + strings.Join(hs, ",")
}

func (n *liveNode) filters(filter, addrs string) []visor.TxFilter {
	var flts []visor.TxFilter
	if addrs != "-" {
		var as []cipher.Address
		for _, s := range strings.Split(addrs, ",") {
			i, _ := strconv.Atoi(s)
			as = append(as, n.addrs[i])
		}
		flts = append(flts, visor.NewAddrsFilter(as))
	}
	switch filter {
	case "conf":
		flts = append(flts, visor.NewConfirmedTxFilter(true))
	case "unconf":
		flts = append(flts, visor.NewConfirmedTxFilter(false))
	}
	return flts
}

func showTxns(txns []visor.Transaction, total uint64) string {
	if len(txns) == 0 {
		return "ok " + strconv.FormatUint(total, 10) + " -"
	}
	hs := make([]string, len(txns))
	for i, t := range txns {
		hs[i] = t.Transaction.Hash().Hex()
	}
	return "ok " + strconv.FormatUint(total, 10) + " " + strings.Join(hs, ",")
}

func liveExec(f []string) string {
	if f[0] == "live_new" {
		k, _ := strconv.Atoi(f[1])
		return liveNew(k)
	}
	if live == nil {
		panic("harness: live op without live_new")
	}
	switch f[0] {
	case "live_txn":
		a, _ := strconv.Atoi(f[1])
		b, _ := strconv.Atoi(f[2])
		return liveTxn(a, b)
	case "live_block":
		return liveBlock()
	case "live_list", "live_list_h0":
		liveLastOK = false
		txns, total, err := live.v.GetTransactions(live.filters(f[1], f[2]), orderOf(f[3]), nil)
		if err != nil {
			return "err " + ErrName(err, c29Errs)
		}
		liveLastLen, liveLastOK = uint64(len(txns)), true
		return showTxns(txns, total)
	case "live_page":
		pg, err := visor.NewPageIndex(PU64(f[4]), PU64(f[5]))
		if err != nil {
			return "err " + ErrName(err, c29Errs)
		}
		txns, total, err := live.v.GetTransactions(live.filters(f[1], f[2]), orderOf(f[3]), pg)
		if err != nil {
			return "err " + ErrName(err, c29Errs)
		}
		return showTxns(txns, total)
	case "live_pagev":
		// the verbose variant (behind GET /api/v2/transactions?verbose=1): same page, same page count,
		// and one input list per transaction of the page
		pg, err := visor.NewPageIndex(PU64(f[4]), PU64(f[5]))
		if err != nil {
			return "err " + ErrName(err, c29Errs)
		}
		txns, inputs, total, err := live.v.GetTransactionsWithInputs(live.filters(f[1], f[2]), orderOf(f[3]), pg)
		if err != nil {
			return "err " + ErrName(err, c29Errs)
		}
		if len(inputs) != len(txns) {
			return showTxns(txns, total) + " inputs=" + strconv.Itoa(len(inputs))
		}
		for i, t := range txns {
			if len(inputs[i]) != len(t.Transaction.In) {
				return showTxns(txns, total) + " inputs-of-" + strconv.Itoa(i) + "=" + strconv.Itoa(len(inputs[i]))
			}
		}
		return showTxns(txns, total)
	}
	panic("harness: unknown op " + f[0])
}

func liveGen(r *Rng, tier string, emit func(string)) {
	cases := 4
	if tier == "thorough" {
		cases = 60
	}
	for c := 0; c < cases; c++ {
		emit("reset")
		nAddrs := r.Range(2, 5)
		emit("live_new " + strconv.Itoa(nAddrs))
		rounds := r.Range(3, 9)
		if c == 0 {
			rounds = 12
		}
		queries := func() {
			var sets []string
			sets = append(sets, "-")
			for i := 0; i < nAddrs; i++ {
				sets = append(sets, strconv.Itoa(i))
			}
			sets = append(sets, "0,1", "1,0,1")
			if nAddrs > 2 {
				sets = append(sets, "2,0", "0,1,2")
			}
			for q := 0; q < 4; q++ {
				filter := []string{"all", "conf", "unconf"}[r.Intn(3)]
				as := sets[r.Intn(len(sets))]
				order := []string{"asc", "desc"}[r.Intn(2)]
				key := filter + " " + as + " " + order
				// While the head is still the genesis block, pool transactions are indexed under the null
				// hash (coin.CreateUnspents) and an address query that includes the pool crashes: known
				// finding F18.  That input class gets its own op name so that only it is matched.
				pool, _ := live.v.GetAllUnconfirmedTransactions()
				if live.height == 0 && len(pool) > 0 && as != "-" && filter != "conf" {
					emit("live_list_h0 " + key)
				} else {
					emit("live_list " + key)
				}
				if !liveLastOK {
					continue
				}
				n := liveLastLen
				size := uint64(r.Range(1, 6))
				if r.Chance(25) {
					size = uint64(r.Range(1, 100))
				}
				if r.Chance(4) {
					size = []uint64{0, 101}[r.Intn(2)]
				}
				N := ceilDiv(n, size)
				all := N + 1
				if all > 10 {
					all = 10
				}
				for k := uint64(1); k <= all; k++ {
					emit("live_page " + key + " " + u(size) + " " + u(k))
					emit("live_pagev " + key + " " + u(size) + " " + u(k))
				}
				// beyond the last page, for BOTH variants, always: the page must be empty and the page
				// count still N
				beyond := []uint64{N + 1, N + 2, 1 << 32, 1 << 63, ^uint64(0)}
				if size > 0 {
					beyond = append(beyond, ^uint64(0)/size, ^uint64(0)/size+1)
				}
				for _, p := range beyond {
					emit("live_page " + key + " " + u(size) + " " + u(p))
					emit("live_pagev " + key + " " + u(size) + " " + u(p))
				}
				for _, p := range pagesFor(r, size, n) {
					if r.Chance(35) {
						emit("live_page " + key + " " + u(size) + " " + u(p))
						emit("live_pagev " + key + " " + u(size) + " " + u(p))
					}
				}
			}
		}
		for rd := 0; rd < rounds; rd++ {
			nt := r.Range(1, 6)
			for i := 0; i < nt; i++ {
				from := r.Intn(nAddrs)
				if rd == 0 {
					from = 0
				}
				to := r.Intn(nAddrs)
				if to == from {
					to = (from + 1) % nAddrs
				}
				emit("live_txn " + strconv.Itoa(from) + " " + strconv.Itoa(to))
			}
			if r.Chance(40) {
				queries() // with a non-empty pool
			}
			if r.Chance(85) {
				emit("live_block")
			}
			if r.Chance(40) {
				queries()
			}
		}
		queries()
	}
	emit("reset")
}
