package main

// C29: transaction paging.  Real code: visor.NewPageIndex, PageIndex.Cal, txnHashesContainer
// {Add, AddItem, Append, Sort, Pagination} (through the verif exports in src/visor/c29_verif.go) and
// Visor.GetTransactions on a live node (live.go).

import (
	"math/big"
	"strconv"
	"strings"

	. "verif/harness/hlib"

	"github.com/skycoin/skycoin/src/cipher"
	"github.com/skycoin/skycoin/src/visor"
)

var c29Errs = map[error]string{
	visor.ErrZeroPageSize:   "ErrZeroPageSize",
	visor.ErrZeroPageNum:    "ErrZeroPageNum",
	visor.ErrMaxTxnPageSize: "ErrMaxTxnPageSize",
}

var slots [2]*visor.VerifTxnHashes

func slot(s string) *visor.VerifTxnHashes {
	if s == "1" {
		return slots[1]
	}
	return slots[0]
}

func showItems(items []visor.VerifTxnItem) string {
	if len(items) == 0 {
		return "-"
	}
	var sb strings.Builder
	for i, it := range items {
		if i > 0 {
			sb.WriteByte(',')
		}
		sb.WriteString(it.Hash.Hex())
		sb.WriteByte(':')
		sb.WriteString(strconv.FormatUint(it.Seq, 10))
		if it.IsConfirmed {
			sb.WriteString(":1")
		} else {
			sb.WriteString(":0")
		}
	}
	return sb.String()
}

func parseHash(s string) cipher.SHA256 {
	var h cipher.SHA256
	copy(h[:], PHex(s))
	return h
}

func orderOf(s string) visor.SortOrder {
	switch s {
	case "asc":
		return visor.AscOrder
	case "desc":
		return visor.DescOrder
	}
	return visor.UnknownOrder
}

func c29Exec(op string) string {
	f := Fields(op)
	switch f[0] {
	case "reset":
		slots[0], slots[1] = visor.VerifNewTxnHashes(), visor.VerifNewTxnHashes()
		liveReset()
		return "ok"
	case "add":
		c := slot(f[1])
		c.Add(parseHash(f[2]), f[4] == "1", PU64(f[3]))
		return Sprintf("ok %d %d", c.Len(), c.MapLen())
	case "additem":
		c := slot(f[1])
		c.AddItem(visor.VerifTxnItem{Hash: parseHash(f[2]), Seq: PU64(f[3]), IsConfirmed: f[4] == "1"})
		return Sprintf("ok %d %d", c.Len(), c.MapLen())
	case "append":
		c := slot(f[1])
		c.Append(slot(f[2]))
		return Sprintf("ok %d %d", c.Len(), c.MapLen())
	case "sort":
		if err := slot(f[1]).Sort(orderOf(f[2])); err != nil {
			return "err " + ErrName(err, c29Errs)
		}
		return "ok"
	case "items":
		return "ok " + showItems(slot(f[1]).Items())
	case "page":
		pg, err := visor.NewPageIndex(PU64(f[2]), PU64(f[3]))
		if err != nil {
			return "err " + ErrName(err, c29Errs)
		}
		r, total, err := slot(f[1]).Pagination(pg)
		if err != nil {
			return "err " + ErrName(err, c29Errs)
		}
		return Sprintf("ok %d %s", total, showItems(r.Items()))
	case "pagenil":
		r, total, err := slot(f[1]).Pagination(nil)
		if err != nil {
			return "err " + ErrName(err, c29Errs)
		}
		return Sprintf("ok %d %s", total, showItems(r.Items()))
	case "Cal":
		s, e, t, err := visor.VerifPageIndex(PU64(f[1]), PU64(f[2])).Cal(PU64(f[3]))
		if err != nil {
			return "err " + ErrName(err, c29Errs)
		}
		return Sprintf("ok %d %d %d", s, e, t)
	case "NewPageIndex":
		pg, err := visor.NewPageIndex(PU64(f[1]), PU64(f[2]))
		if err != nil {
			return "err " + ErrName(err, c29Errs)
		}
		return Sprintf("ok %d %d", pg.Size(), pg.PageNum())
	}
	if strings.HasPrefix(f[0], "live") {
		return liveExec(f)
	}
	panic("harness: unknown op " + f[0])
}

func u(v uint64) string { return strconv.FormatUint(v, 10) }

// wrapPages returns page numbers k for which size*(k-1) mod 2^64 is small: k-1 = ceil(m*2^64/size)
func wrapPages(size uint64) []uint64 {
	var out []uint64
	if size == 0 {
		return out
	}
	two64 := new(big.Int).Lsh(big.NewInt(1), 64)
	for m := uint64(1); m < size && m <= 6; m++ {
		q := new(big.Int).Mul(two64, new(big.Int).SetUint64(m))
		q.Add(q, new(big.Int).SetUint64(size-1))
		q.Div(q, new(big.Int).SetUint64(size))
		if q.IsUint64() {
			out = append(out, q.Uint64()+1, q.Uint64()+2, q.Uint64())
		}
	}
	if size == 1 {
		out = append(out, ^uint64(0))
	}
	return out
}

func ceilDiv(n, size uint64) uint64 {
	if size == 0 {
		return 0
	}
	t := n / size
	if n%size != 0 {
		t++
	}
	return t
}

// pagesFor: the page numbers worth asking about for a list of n items in pages of size
func pagesFor(r *Rng, size, n uint64) []uint64 {
	N := ceilDiv(n, size)
	ps := []uint64{0, 1, 2, N - 1, N, N + 1, N + 2, 1 << 32, 1 << 63, 1<<63 + 1, ^uint64(0) - 1, ^uint64(0)}
	ps = append(ps, wrapPages(size)...)
	if size > 0 {
		q := ^uint64(0) / size
		ps = append(ps, q, q+1, q+2, q+3)
	}
	ps = append(ps, r.U64Mixed())
	return ps
}

var firstBytes = []byte{0x00, 0x09, 0x0a, 0x0f, 0x10, 0x7f, 0x80, 0x9f, 0xa0, 0xff}

// genHash: hashes that share long prefixes and differ at a chosen position, so that the hex-string
// order is decided early, late, or at a nibble boundary
func genHash(r *Rng) string {
	var h [32]byte
	switch r.Intn(4) {
	case 0:
		h[0] = firstBytes[r.Intn(len(firstBytes))]
	case 1:
		h[31] = firstBytes[r.Intn(len(firstBytes))]
	case 2:
		h[r.Intn(32)] = firstBytes[r.Intn(len(firstBytes))]
		h[r.Intn(32)] = byte(r.Intn(4))
	default:
		copy(h[:], r.Bytes(32))
	}
	return Hex(h[:])
}

func c29Gen(r *Rng, tier string, emit func(string)) {
	// hlib.NewRng(seed) and NewRng(seed+1) produce the same SplitMix64 stream shifted by one draw, so
	// re-seed from the first (well mixed) output to get unrelated streams for neighbouring seeds
	r = NewRng(r.U64())
	emit("reset")
	// 1. Cal on the boundary grid, including the page numbers whose byte offset wraps
	sizes := []uint64{0, 1, 2, 3, 4, 7, 8, 10, 16, 32, 64, 99, 100}
	for _, size := range sizes {
		ns := []uint64{0, 1, 2, 5, size - 1, size, size + 1, 2 * size, 2*size + 1, 99, 100, 101, 1000, 1<<31 + 1, 1<<63 - 1}
		for _, n := range ns {
			if n >= 1<<63 {
				continue
			}
			for _, p := range pagesFor(r, size, n) {
				emit("Cal " + u(size) + " " + u(p) + " " + u(n))
			}
		}
	}
	for _, a := range Boundary64 {
		for _, b := range Boundary64 {
			emit("NewPageIndex " + u(a) + " " + u(b))
		}
		emit("NewPageIndex 100 " + u(a))
		emit("NewPageIndex 101 " + u(a))
	}
	nr := 3000
	cases := 120
	if tier == "thorough" {
		nr, cases = 300000, 4000
	}
	// 2. random Cal inside the property's domain
	for i := 0; i < nr; i++ {
		size := uint64(r.Range(1, 100))
		if r.Chance(3) {
			size = 0
		}
		n := uint64(r.Intn(1200))
		if r.Chance(10) {
			n = r.U64Mixed() >> 1
		}
		ps := pagesFor(r, size, n)
		pg := ps[r.Intn(len(ps))]
		if N := ceilDiv(n, size); N > 0 && r.Chance(50) {
			pg = 1 + r.U64()%N // a page inside 1..N
		}
		emit("Cal " + u(size) + " " + u(pg) + " " + u(n))
	}
	// 3. container histories: duplicate-laden adds, append, sort, listing, every interesting page
	for c := 0; c < cases; c++ {
		emit("reset")
		pool := make([]string, r.Range(1, 60))
		for i := range pool {
			pool[i] = genHash(r)
		}
		nAdds := r.Intn(140)
		if r.Chance(10) {
			nAdds = r.Intn(400)
		}
		if r.Chance(5) {
			nAdds = 0
		}
		seqRange := r.Range(1, 12)
		if r.Chance(20) {
			seqRange = 100000
		}
		for i := 0; i < nAdds; i++ {
			h := pool[r.Intn(len(pool))]
			if r.Chance(60) {
				h = genHash(r)
			}
			seq := uint64(r.Intn(seqRange))
			if r.Chance(2) {
				seq = r.U64Mixed()
			}
			sl := "0"
			if r.Chance(25) {
				sl = "1"
			}
			kind := "add"
			if r.Chance(30) {
				kind = "additem"
			}
			conf := "1"
			if sl == "1" || r.Chance(10) {
				conf = "0"
			}
			emit(kind + " " + sl + " " + h + " " + u(seq) + " " + conf)
		}
		if r.Chance(80) {
			emit("append 0 1")
		}
		if r.Chance(15) {
			emit("items 0")
		}
		order := "asc"
		if r.Bool() {
			order = "desc"
		}
		if r.Chance(5) {
			emit("sort 0 bad")
		}
		emit("sort 0 " + order)
		emit("items 0")
		if r.Chance(30) {
			emit("pagenil 0")
		}
		for q := 0; q < 2; q++ {
			size := uint64(r.Range(1, 100))
			switch r.Intn(6) {
			case 0:
				size = 1
			case 1:
				size = uint64(r.Range(1, 8))
			case 2:
				size = 100
			}
			if r.Chance(4) {
				size = []uint64{0, 101, 1 << 32, ^uint64(0)}[r.Intn(4)]
			}
			// gen mode executes each op as it is emitted, so the real container length is known here
			n := slots[0].Len()
			N := ceilDiv(n, size)
			all := N + 1
			if all > 14 {
				all = 14
			}
			for k := uint64(1); k <= all; k++ {
				emit("page 0 " + u(size) + " " + u(k))
			}
			for _, p := range pagesFor(r, size, n) {
				if r.Chance(60) {
					emit("page 0 " + u(size) + " " + u(p))
				}
			}
		}
	}
	liveGen(r, tier, emit)
}

func main() { Main(&Prop{Gen: c29Gen, Exec: c29Exec, Close: liveClose}) }
