package hlib

import "github.com/skycoin/skycoin/src/util/logging"

func quietLogging() { logging.Disable() }
