package hlib

import (
	"encoding/hex"
	"fmt"
	"strconv"
	"strings"
)

func Fields(op string) []string { return strings.Fields(op) }

func PU64(s string) uint64 {
	v, err := strconv.ParseUint(s, 10, 64)
	if err != nil {
		panic("harness: bad uint64 " + s)
	}
	return v
}

func PI64(s string) int64 {
	v, err := strconv.ParseInt(s, 10, 64)
	if err != nil {
		panic("harness: bad int64 " + s)
	}
	return v
}

func PHex(s string) []byte {
	if s == "-" {
		return []byte{}
	}
	b, err := hex.DecodeString(s)
	if err != nil {
		panic("harness: bad hex " + s)
	}
	return b
}

func Hex(b []byte) string {
	if len(b) == 0 {
		return "-"
	}
	return hex.EncodeToString(b)
}

// errName maps an error to its sentinel name, or "other".
func ErrName(err error, names map[error]string) string {
	if n, ok := names[err]; ok {
		return n
	}
	return "other"
}

func OkU(v uint64) string { return "ok " + strconv.FormatUint(v, 10) }
func OkI(v int64) string  { return "ok " + strconv.FormatInt(v, 10) }

func ResU(v uint64, err error, names map[error]string) string {
	if err != nil {
		return "err " + ErrName(err, names)
	}
	return OkU(v)
}

func Sprintf(f string, a ...interface{}) string { return fmt.Sprintf(f, a...) }
