// harness: runs the REAL skycoin code (linked from /repo via the replace directive, built with
// -tags verif) on generated or replayed operation lines and prints one canonical answer per line.
//
//	h_cNN gen  -seed N -tier quick|thorough   > ops.tsv    (lines: op<TAB>impl-output)
//	h_cNN exec < ops.txt                      > ops.tsv    (replay: re-execute given ops)
//
// Each property is its own main package (harness/cNN) calling hlib.Main(&hlib.Prop{...}).
package hlib

import (
	"bufio"
	"flag"
	"fmt"
	"io"
	"log"
	"os"
	"runtime/debug"
	"strings"
)

// Prop is one property's generator + executor.
type Prop struct {
	// Gen emits operation lines (no tabs/newlines). Stateful properties start each case with "reset".
	Gen func(r *Rng, tier string, emit func(op string))
	// Exec runs one operation against the real implementation and returns its canonical output.
	Exec func(op string) string
	// Close releases scratch state (temp dirs) at the end.
	Close func()
}

// safeExec converts a Go panic in the implementation into the canonical outcome "panic".
func safeExec(p *Prop, op string) (out string) {
	defer func() {
		if r := recover(); r != nil {
			msg := fmt.Sprint(r)
			if len(msg) > 120 {
				msg = msg[:120]
			}
			msg = strings.Map(func(c rune) rune {
				if c == '\t' || c == '\n' || c == '\r' {
					return ' '
				}
				return c
			}, msg)
			if os.Getenv("VERIF_STACK") != "" {
				fmt.Fprintf(os.Stderr, "panic on %q: %v\n%s\n", op, r, debug.Stack())
			}
			out = "panic " + msg
		}
	}()
	return p.Exec(op)
}

// Main is the entry point of every per-property harness binary.
func Main(p *Prop) {
	if len(os.Args) < 2 {
		fmt.Fprintln(os.Stderr, "usage: h_cNN gen|exec [flags]")
		os.Exit(2)
	}
	mode := os.Args[1]
	log.SetOutput(io.Discard)
	quietLogging()
	fs := flag.NewFlagSet("harness", flag.ExitOnError)
	seed := fs.Uint64("seed", 1, "PRNG seed")
	tier := fs.String("tier", "quick", "quick|thorough")
	fs.Parse(os.Args[2:])
	w := bufio.NewWriterSize(os.Stdout, 1<<20)
	defer w.Flush()
	if p.Close != nil {
		defer p.Close()
	}
	run := func(op string) {
		out := safeExec(p, op)
		w.WriteString(op)
		w.WriteByte('\t')
		w.WriteString(out)
		w.WriteByte('\n')
	}
	switch mode {
	case "gen":
		p.Gen(NewRng(*seed), *tier, run)
	case "exec":
		sc := bufio.NewScanner(os.Stdin)
		sc.Buffer(make([]byte, 1<<20), 1<<28)
		for sc.Scan() {
			line := sc.Text()
			if i := strings.IndexByte(line, '\t'); i >= 0 {
				line = line[:i]
			}
			if line == "" || strings.HasPrefix(line, "#") {
				continue
			}
			run(line)
		}
	default:
		fmt.Fprintln(os.Stderr, "unknown mode", mode)
		os.Exit(2)
	}
}
