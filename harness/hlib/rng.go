package hlib

// Rng is SplitMix64: every random choice of a run derives from one seed (VERIF_SEED), so a
// disagreement replays exactly.
type Rng struct{ s uint64 }

func NewRng(seed uint64) *Rng {
	// mix the seed first: with a plain linear start, consecutive seeds would give the same stream
	// shifted by one draw
	z := seed + 0x632BE59BD9B4E019
	z = (z ^ (z >> 30)) * 0xBF58476D1CE4E5B9
	z = (z ^ (z >> 27)) * 0x94D049BB133111EB
	return &Rng{s: z ^ (z >> 31)}
}

func (r *Rng) U64() uint64 {
	r.s += 0x9E3779B97F4A7C15
	z := r.s
	z = (z ^ (z >> 30)) * 0xBF58476D1CE4E5B9
	z = (z ^ (z >> 27)) * 0x94D049BB133111EB
	return z ^ (z >> 31)
}

// Intn returns a value in [0,n)
func (r *Rng) Intn(n int) int {
	if n <= 0 {
		return 0
	}
	return int(r.U64() % uint64(n))
}

// Range returns a value in [lo,hi]
func (r *Rng) Range(lo, hi int) int { return lo + r.Intn(hi-lo+1) }

func (r *Rng) Bool() bool { return r.U64()&1 == 1 }

// Chance returns true with probability pct/100
func (r *Rng) Chance(pct int) bool { return r.Intn(100) < pct }

func (r *Rng) Bytes(n int) []byte {
	b := make([]byte, n)
	for i := range b {
		b[i] = byte(r.U64())
	}
	return b
}

// Boundary64 are the integers where 64/32-bit arithmetic changes behaviour.
var Boundary64 = []uint64{0, 1, 2, 3, 1<<31 - 1, 1 << 31, 1<<31 + 1, 1<<32 - 1, 1 << 32, 1<<32 + 1,
	1<<63 - 1, 1 << 63, 1<<63 + 1, 1<<64 - 2, 1<<64 - 1}

// U64Mixed picks a boundary value, a boundary +- small delta, a small value, or a uniformly random
// value of a random bit-width.
func (r *Rng) U64Mixed() uint64 {
	switch r.Intn(5) {
	case 0:
		return Boundary64[r.Intn(len(Boundary64))]
	case 1:
		return Boundary64[r.Intn(len(Boundary64))] + uint64(r.Intn(9)) - 4
	case 2:
		return uint64(r.Intn(1000))
	case 3:
		return r.U64() >> uint(r.Intn(64))
	}
	return r.U64()
}
