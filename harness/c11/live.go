package main

// Live-node part of C11: Visor.InjectUserTransaction on a real node with real signed transactions.
// Each transaction is built to violate a chosen rule (or none); the abstract data the soft rules look
// at (inputs' coins/hours/time/address class, outputs, head time) is read back from the objects the
// harness built and handed to the model, which predicts ok | soft <rule> | hard | user.

import (
	"os"
	"path/filepath"
	"strconv"
	"strings"

	. "verif/harness/hlib"

	"github.com/skycoin/skycoin/src/cipher"
	"github.com/skycoin/skycoin/src/coin"
	"github.com/skycoin/skycoin/src/params"
	"github.com/skycoin/skycoin/src/visor"
	"github.com/skycoin/skycoin/src/visor/dbutil"
)

const nDist = 3 // addrs[0..2] are the distribution addresses; addrs[0] unlocked, 1 and 2 locked

type liveNode struct {
	v      *visor.Visor
	db     *dbutil.DB
	path   string
	pubSec cipher.SecKey
	keys   []cipher.SecKey
	addrs  []cipher.Address
	now    uint64
	inPool map[cipher.SHA256]bool
}

var (
	live    *liveNode
	liveCtr int
)

func liveReset() {
	if live != nil {
		live.db.Close()
		os.Remove(live.path)
		live = nil
	}
}

func liveClose() { liveReset() }

func liveNew(nAddrs int) string {
	liveReset()
	dir := os.Getenv("VERIF_SCRATCH")
	if dir == "" {
		dir = os.TempDir()
	}
	liveCtr++
	path := filepath.Join(dir, "c11-live-"+strconv.Itoa(os.Getpid())+"-"+strconv.Itoa(liveCtr)+".db")
	pub, sec := cipher.MustGenerateDeterministicKeyPair([]byte("c11-publisher"))
	n := &liveNode{path: path, pubSec: sec, now: 1500000000, inPool: map[cipher.SHA256]bool{}}
	var distAddrs []string
	for i := 0; i < nAddrs; i++ {
		p, s := cipher.MustGenerateDeterministicKeyPair([]byte("c11-addr-" + strconv.Itoa(i)))
		n.keys = append(n.keys, s)
		a := cipher.AddressFromPubKey(p)
		n.addrs = append(n.addrs, a)
		if i < nDist {
			distAddrs = append(distAddrs, a.String())
		}
	}
	cfg := visor.NewConfig()
	cfg.IsBlockPublisher = true
	cfg.BlockchainPubkey = pub
	cfg.BlockchainSeckey = sec
	cfg.GenesisAddress = n.addrs[0]
	cfg.GenesisTimestamp = n.now
	cfg.GenesisCoinVolume = 300e12
	cfg.Distribution = params.Distribution{MaxCoinSupply: 300e6, InitialUnlockedCount: 1, UnlockAddressRate: 1,
		UnlockTimeInterval: 1, Addresses: distAddrs}
	db, err := visor.OpenDB(path, false)
	if err != nil {
		panic("harness: open db: " + err.Error())
	}
	v, err := visor.New(cfg, db, nil)
	if err != nil {
		panic("harness: visor.New: " + err.Error())
	}
	if err := v.Init(); err != nil {
		panic("harness: visor.Init: " + err.Error())
	}
	n.v, n.db = v, db
	live = n
	return "ok"
}

func (n *liveNode) addrClass(a cipher.Address) int {
	for i := 0; i < nDist && i < len(n.addrs); i++ {
		if n.addrs[i] == a {
			return i
		}
	}
	return -1
}

func (n *liveNode) pick(from int) *coin.UxOut {
	uxs, err := n.v.GetUnspentsOfAddrs([]cipher.Address{n.addrs[from]})
	if err != nil {
		panic("harness: GetUnspentsOfAddrs: " + err.Error())
	}
	var best *coin.UxOut
	for _, ux := range uxs[n.addrs[from]] {
		ux := ux
		if n.inPool[ux.Hash()] {
			continue
		}
		if best == nil || ux.Body.Coins > best.Body.Coins || (ux.Body.Coins == best.Body.Coins && ux.Hash().Hex() < best.Hash().Hex()) {
			best = &ux
		}
	}
	return best
}

// liveInject builds a transaction spending one output of `from` to `to` that violates the rules named
// in kind ("+"-separated), injects it and reports the verdict with the abstract case data.
func liveInject(kind string, from, to int) string {
	n := live
	ux := n.pick(from)
	if ux == nil {
		return "skip"
	}
	hours, err := ux.CoinHours(n.now)
	if err != nil || hours < 100 {
		return "skip"
	}
	coins := ux.Body.Coins
	if coins < 4e6 {
		return "skip"
	}
	has := func(k string) bool {
		for _, p := range strings.Split(kind, "+") {
			if p == k {
				return true
			}
		}
		return false
	}
	req := hours / 10
	if hours%10 != 0 {
		req++
	}
	outHours := hours - req - hours/3 // comfortably above the required fee
	switch {
	case has("nofee"):
		outHours = hours
	case has("lowfee"):
		outHours = hours - req + 1
	case has("exactfee"):
		outHours = hours - req
	case has("hoursplus"):
		outHours = hours + 1
	}
	send := coins / 2 / 1e6 * 1e6
	change := coins - send
	if has("decimals") {
		send += 1 // one droplet: more precise than the three allowed decimals
		change -= 1
	}
	if has("decimals2") {
		send += 100 // 0.0001
		change -= 100
	}
	if has("coinsplus") {
		send += 1e6
	}
	toAddr := n.addrs[to]
	if has("nullout") {
		toAddr = cipher.Address{}
	}
	var txn coin.Transaction
	in := ux.Hash()
	if has("unknown") {
		in = cipher.SumSHA256([]byte("c11-unknown-input"))
	}
	if err := txn.PushInput(in); err != nil {
		panic(err)
	}
	h1 := outHours / 2
	if err := txn.PushOutput(toAddr, send, h1); err != nil {
		panic(err)
	}
	if err := txn.PushOutput(n.addrs[from], change, outHours-h1); err != nil {
		panic(err)
	}
	key := n.keys[from]
	if has("badsig") {
		key = n.keys[(from+1)%len(n.keys)]
	}
	txn.SignInputs([]cipher.SecKey{key})
	if err := txn.UpdateHeader(); err != nil {
		panic(err)
	}
	_, _, _, ierr := n.v.InjectUserTransaction(txn)
	verdict := classify(ierr)
	if ierr == nil {
		n.inPool[ux.Hash()] = true
	}
	c := &softCase{maxSize: uint64(params.UserVerifyTxn.MaxTransactionSize), burn: uint64(params.UserVerifyTxn.BurnFactor),
		prec: uint64(params.UserVerifyTxn.MaxDropletPrecision), headTime: n.now, distN: nDist, unlocked: 1, nsigs: len(txn.Sigs)}
	c.ins = []inSpec{{coins: ux.Body.Coins, hours: ux.Body.Hours, time: ux.Head.Time, addr: n.addrClass(ux.Body.Address)}}
	for _, o := range txn.Out {
		c.outs = append(c.outs, outSpec{o.Coins, o.Hours})
	}
	return verdict + " | " + c.String()
}

func liveBlock() string {
	n := live
	pool, err := n.v.GetAllUnconfirmedTransactions()
	if err != nil {
		panic(err)
	}
	if len(pool) == 0 {
		return "skip"
	}
	var txns coin.Transactions
	for _, p := range pool {
		txns = append(txns, p.Transaction)
	}
	n.now += 3600 * 24
	b, err := n.v.CreateBlockFromTxns(txns, n.now)
	if err != nil {
		panic("harness: CreateBlockFromTxns: " + err.Error())
	}
	sb := coin.SignedBlock{Block: b, Sig: cipher.MustSignHash(b.HashHeader(), n.pubSec)}
	if err := n.v.ExecuteSignedBlock(sb); err != nil {
		panic("harness: ExecuteSignedBlock: " + err.Error())
	}
	return "ok " + strconv.FormatUint(b.Seq(), 10) + " " + strconv.Itoa(len(b.Body.Transactions))
}

func liveExec(f []string) string {
	if f[0] == "live_new" {
		k, _ := strconv.Atoi(f[1])
		return liveNew(k)
	}
	if live == nil {
		panic("harness: live op without live_new")
	}
	switch f[0] {
	case "live_inject":
		// live_inject <kind> <user?> <hard?> <from> <to>
		a, _ := strconv.Atoi(f[4])
		b, _ := strconv.Atoi(f[5])
		return liveInject(f[1], a, b)
	case "live_block":
		return liveBlock()
	}
	panic("harness: unknown op " + f[0])
}

type liveKind struct {
	name       string
	user, hard bool
}

var liveKinds = []liveKind{
	{"valid", false, false}, {"valid", false, false}, {"exactfee", false, false},
	{"nofee", false, false}, {"lowfee", false, false}, {"decimals", false, false}, {"decimals2", false, false},
	{"lowfee+decimals", false, false}, {"nofee+decimals", false, false},
	{"hoursplus", false, true}, {"badsig", false, true}, {"coinsplus", false, true}, {"unknown", false, true},
	{"badsig+nofee", false, true}, {"coinsplus+decimals", false, true}, {"unknown+lowfee", false, true},
	{"nullout", true, false}, {"nullout+badsig", true, true}, {"nullout+nofee", true, false},
}

func b01(b bool) string {
	if b {
		return "1"
	}
	return "0"
}

func liveGen(r *Rng, tier string, emit func(string)) {
	cases := 3
	if tier == "thorough" {
		cases = 40
	}
	for c := 0; c < cases; c++ {
		emit("reset")
		nAddrs := 5
		emit("live_new " + strconv.Itoa(nAddrs))
		inj := func(k liveKind, from, to int) {
			emit("live_inject " + k.name + " " + b01(k.user) + " " + b01(k.hard) + " " + strconv.Itoa(from) + " " + strconv.Itoa(to))
		}
		// fund every address (including the two locked distribution addresses) from the genesis address
		for to := 1; to < nAddrs; to++ {
			inj(liveKinds[0], 0, to)
			emit("live_block")
		}
		rounds := r.Range(6, 14)
		for rd := 0; rd < rounds; rd++ {
			for i := 0; i < r.Range(1, 5); i++ {
				k := liveKinds[r.Intn(len(liveKinds))]
				from := r.Intn(nAddrs)
				to := r.Intn(nAddrs)
				if to == from {
					to = (from + 1) % nAddrs
				}
				inj(k, from, to)
			}
			if r.Chance(70) {
				emit("live_block")
			}
		}
	}
	emit("reset")
}
