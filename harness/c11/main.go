package main

// C11: fee and soft rules.  Real functions: transaction.VerifySingleTxnSoftConstraints on synthetic
// transactions / inputs (the soft rules do not look at signatures), params.DropletPrecisionCheck,
// coin.Transaction.Size, and Visor.InjectUserTransaction on a live node (live.go).

import (
	"strconv"
	"strings"

	. "verif/harness/hlib"

	"github.com/skycoin/skycoin/src/cipher"
	"github.com/skycoin/skycoin/src/coin"
	"github.com/skycoin/skycoin/src/params"
	"github.com/skycoin/skycoin/src/transaction"
	"github.com/skycoin/skycoin/src/util/fee"
)

var softErrs = map[error]string{
	transaction.ErrTxnExceedsMaxBlockSize:      "ErrTxnExceedsMaxBlockSize",
	transaction.ErrTxnIsLocked:                 "ErrTxnIsLocked",
	fee.ErrTxnInsufficientCoinHours:            "ErrTxnInsufficientCoinHours",
	fee.ErrTxnNoFee:                            "ErrTxnNoFee",
	fee.ErrTxnInsufficientFee:                  "ErrTxnInsufficientFee",
	params.ErrInvalidDecimals:                  "ErrInvalidDecimals",
	coin.ErrAddEarnedCoinHoursAdditionOverflow: "ErrAddEarnedCoinHoursAdditionOverflow",
}

// classify: how an error of the verification entry points is reported
func classify(err error) string {
	switch e := err.(type) {
	case nil:
		return "ok"
	case transaction.ErrTxnViolatesSoftConstraint:
		return "soft " + ErrName(e.Err, softErrs)
	case transaction.ErrTxnViolatesHardConstraint:
		return "hard"
	case transaction.ErrTxnViolatesUserConstraint:
		return "user"
	}
	return "unwrapped " + ErrName(err, softErrs)
}

var otherAddr = cipher.AddressFromPubKey(cipher.MustPubKeyFromSecKey(func() cipher.SecKey {
	_, s := cipher.MustGenerateDeterministicKeyPair([]byte("c11-other"))
	return s
}()))

var mainnetAddrs = func() []cipher.Address {
	var out []cipher.Address
	for _, a := range params.MainNetDistribution.Addresses {
		out = append(out, cipher.MustDecodeBase58Address(a))
	}
	return out
}()

type inSpec struct {
	coins, hours, time uint64
	addr               int // -1 = not a distribution address
}
type outSpec struct{ coins, hours uint64 }

type softCase struct {
	maxSize, burn, prec uint64
	headTime            uint64
	distN, unlocked     uint64
	nsigs               int
	ins                 []inSpec
	outs                []outSpec
}

func (c *softCase) String() string {
	var sb strings.Builder
	sb.WriteString(u(c.maxSize) + " " + u(c.burn) + " " + u(c.prec) + " " + u(c.headTime) + " " + u(c.distN) + ":" + u(c.unlocked) + " " + strconv.Itoa(c.nsigs) + " ")
	if len(c.ins) == 0 {
		sb.WriteString("-")
	}
	for i, x := range c.ins {
		if i > 0 {
			sb.WriteByte(';')
		}
		a := "x"
		if x.addr >= 0 {
			a = strconv.Itoa(x.addr)
		}
		sb.WriteString(u(x.coins) + ":" + u(x.hours) + ":" + u(x.time) + ":" + a)
	}
	sb.WriteByte(' ')
	if len(c.outs) == 0 {
		sb.WriteString("-")
	}
	for i, x := range c.outs {
		if i > 0 {
			sb.WriteByte(';')
		}
		sb.WriteString(u(x.coins) + ":" + u(x.hours))
	}
	return sb.String()
}

func parseCase(f []string) *softCase {
	c := &softCase{maxSize: PU64(f[0]), burn: PU64(f[1]), prec: PU64(f[2]), headTime: PU64(f[3])}
	d := strings.Split(f[4], ":")
	c.distN, c.unlocked = PU64(d[0]), PU64(d[1])
	c.nsigs = int(PU64(f[5]))
	if f[6] != "-" {
		for _, s := range strings.Split(f[6], ";") {
			p := strings.Split(s, ":")
			a := -1
			if p[3] != "x" {
				a = int(PU64(p[3]))
			}
			c.ins = append(c.ins, inSpec{PU64(p[0]), PU64(p[1]), PU64(p[2]), a})
		}
	}
	if f[7] != "-" {
		for _, s := range strings.Split(f[7], ";") {
			p := strings.Split(s, ":")
			c.outs = append(c.outs, outSpec{PU64(p[0]), PU64(p[1])})
		}
	}
	return c
}

func (c *softCase) uxIn() coin.UxArray {
	var uxs coin.UxArray
	for i, x := range c.ins {
		a := otherAddr
		if x.addr >= 0 {
			a = mainnetAddrs[x.addr]
		}
		var src cipher.SHA256
		src[0], src[1] = byte(i), byte(i>>8)
		uxs = append(uxs, coin.UxOut{Head: coin.UxHead{Time: x.time, BkSeq: 1},
			Body: coin.UxBody{SrcTransaction: src, Address: a, Coins: x.coins, Hours: x.hours}})
	}
	return uxs
}

func (c *softCase) txn() coin.Transaction {
	var t coin.Transaction
	t.Sigs = make([]cipher.Sig, c.nsigs)
	t.In = make([]cipher.SHA256, len(c.ins))
	for i := range t.In {
		t.In[i][0], t.In[i][1], t.In[i][31] = byte(i), byte(i>>8), 1
	}
	for _, o := range c.outs {
		t.Out = append(t.Out, coin.TransactionOutput{Address: otherAddr, Coins: o.coins, Hours: o.hours})
	}
	return t
}

// dist derives the case's distribution parameters the two ways a node does: as a fresh value, or (odd head times)
// as an edited copy of the built-in, already validated MainNetDistribution — whatever a Distribution value caches
// must follow the parameters it carries now.
func (c *softCase) dist() params.Distribution {
	if c.headTime%2 == 1 {
		d := params.MainNetDistribution
		d.MaxCoinSupply = 1e8 * c.distN
		d.InitialUnlockedCount = c.unlocked
		d.Addresses = d.Addresses[:c.distN]
		return d
	}
	return params.Distribution{MaxCoinSupply: 1e8 * c.distN, InitialUnlockedCount: c.unlocked,
		Addresses: params.MainNetDistribution.Addresses[:c.distN]}
}

func c11Exec(op string) string {
	f := Fields(op)
	switch f[0] {
	case "reset":
		liveReset()
		return "ok"
	case "Soft":
		c := parseCase(f[1:])
		err := transaction.VerifySingleTxnSoftConstraints(c.txn(), c.headTime, c.uxIn(), c.dist(),
			params.VerifyTxn{BurnFactor: uint32(c.burn), MaxTransactionSize: uint32(c.maxSize), MaxDropletPrecision: uint8(c.prec)})
		return classify(err)
	case "Size":
		c := &softCase{nsigs: int(PU64(f[1])), ins: make([]inSpec, PU64(f[2])), outs: make([]outSpec, PU64(f[3]))}
		t := c.txn()
		n, err := t.Size()
		if err != nil {
			return "err other"
		}
		return OkU(uint64(n))
	case "Precision":
		if err := params.DropletPrecisionCheck(uint8(PU64(f[1])), PU64(f[2])); err != nil {
			return "err " + ErrName(err, softErrs)
		}
		return "ok"
	}
	if strings.HasPrefix(f[0], "live_") {
		return liveExec(f)
	}
	panic("harness: unknown op " + f[0])
}

func u(v uint64) string { return strconv.FormatUint(v, 10) }

func pow10(k int) uint64 {
	p := uint64(1)
	for i := 0; i < k; i++ {
		p *= 10
	}
	return p
}

// inHours: total input hours as the real UxOut.CoinHours computes them (only to steer the generator
// to the fee boundary; the verdict comes from the model)
func (c *softCase) inHours() (uint64, bool) {
	var tot uint64
	for _, ux := range c.uxIn() {
		h, err := ux.CoinHours(c.headTime)
		if err != nil || tot+h < tot {
			return 0, false
		}
		tot += h
	}
	return tot, true
}

func genCoins(r *Rng, prec int) uint64 {
	div := pow10(6 - prec)
	switch r.Intn(6) {
	case 0:
		return uint64(r.Range(1, 1000)) * div
	case 1:
		return uint64(r.Range(1, 1000))*div + []uint64{1, div / 10, div - 1, div / 2}[r.Intn(4)]%div
	case 2:
		j := r.Intn(13)
		return uint64(r.Range(1, 9))*pow10(j) + uint64(r.Intn(3)) - 1
	case 3:
		return uint64(r.Range(1, 100000)) * 1000000
	case 4:
		return r.U64Mixed()
	}
	return uint64(r.Range(1, 1000000)) * 1000
}

func genSoft(r *Rng) *softCase {
	c := &softCase{}
	c.burn = []uint64{2, 2, 3, 10, 10, 10, 1<<32 - 1}[r.Intn(7)]
	if r.Chance(25) {
		c.burn = uint64(r.Range(2, 100))
	}
	if r.Chance(3) {
		c.burn = uint64(r.Intn(2)) // 0 or 1: outside the validated range (0 divides by zero)
	}
	prec := r.Intn(7)
	c.prec = uint64(prec)
	if r.Chance(2) {
		c.prec = []uint64{7, 8, 255}[r.Intn(3)]
		prec = 0
	}
	c.headTime = 1500000000 + uint64(r.Intn(100000000))
	if r.Chance(5) {
		c.headTime = r.U64Mixed()
	}
	c.distN = uint64(r.Range(1, 100))
	c.unlocked = uint64(r.Intn(int(c.distN) + 1))
	if r.Chance(40) {
		c.distN, c.unlocked = 100, 25
		if r.Chance(40) {
			// the full address list with another lock boundary (around the built-in one, at the ends, anywhere)
			c.unlocked = []uint64{0, 1, 20, 24, 26, 30, 99, 100, uint64(r.Intn(101))}[r.Intn(9)]
		}
	}
	if r.Chance(1) {
		c.unlocked = c.distN + 1
	}
	nin := r.Range(1, 4)
	if r.Chance(3) {
		nin = 0
	}
	lockedWanted := r.Chance(12)
	for i := 0; i < nin; i++ {
		x := inSpec{addr: -1}
		x.coins = genCoins(r, 3)
		x.hours = uint64(r.Intn(1000000))
		switch r.Intn(8) {
		case 0:
			x.hours = r.U64Mixed()
		case 1:
			x.hours = 0
		}
		dt := uint64(r.Intn(10000000))
		if r.Chance(10) {
			dt = r.U64() >> uint(r.Intn(64))
		}
		x.time = c.headTime - dt
		if dt > c.headTime || r.Chance(3) {
			x.time = c.headTime + uint64(r.Intn(5))
		}
		if r.Chance(15) || (lockedWanted && i == 0) {
			// distribution addresses around the locked/unlocked boundary
			cands := []int{0, int(c.unlocked) - 1, int(c.unlocked), int(c.unlocked) + 1, int(c.distN) - 1, r.Intn(int(c.distN))}
			a := cands[r.Intn(len(cands))]
			if lockedWanted && i == 0 && c.unlocked < c.distN {
				a = int(c.unlocked) + r.Intn(int(c.distN-c.unlocked))
			}
			if a >= 0 && a < int(c.distN) {
				x.addr = a
			}
		}
		c.ins = append(c.ins, x)
	}
	nout := r.Range(1, 4)
	if r.Chance(2) {
		nout = 0
	}
	for i := 0; i < nout; i++ {
		c.outs = append(c.outs, outSpec{coins: genCoins(r, prec)})
	}
	if r.Chance(75) {
		// mostly precision-conforming outputs, so that the later rules are reached
		for i := range c.outs {
			if r.Chance(90) {
				c.outs[i].coins = c.outs[i].coins / pow10(6-prec) * pow10(6-prec)
			}
		}
	}
	// output hours: aim at the fee boundary
	if tot, ok := c.inHours(); ok && nout > 0 && c.burn > 0 {
		req := tot / c.burn
		if tot%c.burn != 0 {
			req++
		}
		outTot := tot - req
		switch r.Intn(10) {
		case 0:
			outTot = tot // zero fee
		case 1:
			outTot = tot + 1 // more out than in
		case 2, 3:
			outTot = tot - req + 1 // one hour short
		case 4:
			if outTot > 0 {
				outTot-- // one hour more than needed
			}
		case 5:
			outTot = uint64(r.Intn(1000))
			if outTot > tot {
				outTot = tot
			}
		case 6:
			outTot = tot / 2
		}
		rest := outTot
		for i := range c.outs {
			h := rest
			if i < len(c.outs)-1 {
				h = rest / uint64(r.Range(1, 4))
			}
			c.outs[i].hours = h
			rest -= h
		}
	} else {
		for i := range c.outs {
			c.outs[i].hours = r.U64Mixed()
		}
	}
	if r.Chance(3) && nout > 1 {
		// output hours that overflow when added
		c.outs[0].hours = ^uint64(0) - uint64(r.Intn(3))
		c.outs[1].hours = uint64(r.Intn(5))
	}
	c.nsigs = len(c.ins)
	if r.Chance(5) {
		c.nsigs = r.Intn(6)
	}
	size := uint64(49 + 65*c.nsigs + 32*len(c.ins) + 37*len(c.outs))
	switch r.Intn(8) {
	case 0:
		c.maxSize = size - 1
	case 1:
		c.maxSize = size
	case 2:
		c.maxSize = size + 1
	case 3:
		c.maxSize = 1024
	default:
		c.maxSize = 32768
	}
	return c
}

// bigCase: transactions whose size is around the real limits (1024 / 32768 bytes)
func bigCase(r *Rng, limit uint64) *softCase {
	c := genSoft(r)
	c.maxSize = limit
	c.burn, c.prec = 10, 3
	// size = 49 + 97*n + 37*outs for n inputs with n signatures
	n := int((limit - 49 - 37*uint64(len(c.outs))) / 97)
	n += r.Intn(3) - 1
	if n < 1 {
		n = 1
	}
	c.ins = nil
	for i := 0; i < n; i++ {
		c.ins = append(c.ins, inSpec{coins: 1000000, hours: 100, time: c.headTime, addr: -1})
	}
	c.nsigs = n
	// adjust by dropping signatures to land exactly on limit-1, limit, limit+1 when possible
	for i := range c.outs {
		c.outs[i].coins = 1000
		c.outs[i].hours = 1
	}
	return c
}

func c11Gen(r *Rng, tier string, emit func(string)) {
	// neighbouring hlib seeds give shifted copies of one stream; re-seed from the first output
	r = NewRng(r.U64())
	emit("reset")
	// the size formula, including the encoder's 65535-element limit
	for _, n := range [][3]int{{0, 0, 0}, {1, 1, 1}, {1, 1, 2}, {2, 1, 1}, {3, 5, 7}, {10, 10, 1}, {255, 256, 257}} {
		emit(Sprintf("Size %d %d %d", n[0], n[1], n[2]))
	}
	emit("Size 65535 1 1")
	emit("Size 65536 1 1")
	emit("Size 1 65536 1")
	emit("Size 1 1 65536")
	// the precision rule on its own: every precision x amounts k*10^j +- 1
	for p := 0; p <= 8; p++ {
		for j := 0; j <= 7; j++ {
			for _, k := range []uint64{1, 7, 10, 123} {
				for d := 0; d < 3; d++ {
					emit("Precision " + strconv.Itoa(p) + " " + u(k*pow10(j)+uint64(d)-1))
				}
			}
		}
		emit("Precision " + strconv.Itoa(p) + " 0")
		emit("Precision " + strconv.Itoa(p) + " 18446744073709551615")
	}
	emit("Precision 255 1000000")
	// total input hours in the top few values of uint64 (where a ceiling division written as
	// (h+bf-1)/bf would wrap), with the fee right at / below the required amount
	for _, bf := range []uint64{2, 3, 10, 100} {
		for k := uint64(0); k <= bf+1; k++ {
			in := ^uint64(0) - k
			req := in / bf
			if in%bf != 0 {
				req++
			}
			for _, fee := range []uint64{1, 2, req - 1, req, req + 1} {
				if fee == 0 || fee > in {
					continue
				}
				c := &softCase{maxSize: 32768, burn: bf, prec: 3, headTime: 1000, distN: 4, unlocked: 2, nsigs: 1,
					ins:  []inSpec{{coins: 2000000, hours: in, time: 1000, addr: -1}},
					outs: []outSpec{{coins: 2000000, hours: in - fee}}}
				emit("Soft " + c.String())
			}
		}
	}
	n := 4000
	if tier == "thorough" {
		n = 300000
	}
	for i := 0; i < n; i++ {
		c := genSoft(r)
		if i%97 == 0 {
			c = bigCase(r, []uint64{1024, 32768}[r.Intn(2)])
		}
		emit("Soft " + c.String())
	}
	liveGen(r, tier, emit)
}

func main() { Main(&Prop{Gen: c11Gen, Exec: c11Exec, Close: liveClose}) }
