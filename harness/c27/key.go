package main

// The node's CSRF secret is a package variable of src/api that no hook exports.  It is read through a
// linker alias (pull-style //go:linkname) so that the harness also builds against trees that predate any
// new hook file; nothing in /repo is needed for it.

import (
	_ "unsafe" // for go:linkname

	_ "github.com/skycoin/skycoin/src/api"
)

//go:linkname apiCSRFSecretKey github.com/skycoin/skycoin/src/api.csrfSecretKey
var apiCSRFSecretKey []byte
