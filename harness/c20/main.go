package main

// C20: wallet and key-value files survive a crash during a save.
//
// Every case performs ONE real save through the real service (wallet.Service method or
// kvstorage.Manager method) in a child process that is traced with
//
//	strace -f -e trace=openat,write,pwrite64,rename,renameat,renameat2,unlink,unlinkat,fsync,ftruncate,close
//
// The mutating syscalls that touch the scratch directory, in order, are the operation list of
// that save.  `trace` prints it (the Lean driver compares it with the list the translator read
// from the source of file.SaveBinary / file.IsWritable).  `crash k t` materialises the ordered-write
// crash state "first k operations done, t bytes of the next write done" on a copy of the
// directory as it was before the save, starts the REAL loader on it (wallet.NewService resp.
// kvstorage.NewManager) and reports whether it sees the old state, the new state, something else,
// or fails to start.
//
//	reset <scenario> <method> <seed>
//	trace
//	crash <k> <t>

import (
	"bufio"
	"bytes"
	"crypto/sha256"
	"encoding/hex"
	"fmt"
	"io"
	"io/ioutil"
	"os"
	"os/exec"
	"path/filepath"
	"regexp"
	"sort"
	"strconv"
	"strings"

	. "verif/harness/hlib"

	"github.com/skycoin/skycoin/src/cipher"
	"github.com/skycoin/skycoin/src/cipher/crypto"
	"github.com/skycoin/skycoin/src/kvstorage"
	"github.com/skycoin/skycoin/src/util/logging"
	"github.com/skycoin/skycoin/src/wallet"
	_ "github.com/skycoin/skycoin/src/wallet/bip44wallet"
	_ "github.com/skycoin/skycoin/src/wallet/collection"
	_ "github.com/skycoin/skycoin/src/wallet/deterministic"
	_ "github.com/skycoin/skycoin/src/wallet/xpubwallet"
)

// ---------------------------------------------------------------------------------------------
// scenarios: how the directory is prepared (setup, in-process) and which single saving call the
// traced child performs (act).

type scenario struct {
	method string // the saving service method (name as in service.go / kv.<op>)
	kv     bool
	setup  func(dir string, r *Rng) // builds the "old" directory with the real service
	act    func(dir string, r *Rng) error
	target func(dir string) string // the file being saved
}

const wltA = "a.wlt"
const wltB = "b.wlt"

func wcfg(dir string) wallet.Config {
	return wallet.Config{WalletDir: dir, CryptoType: crypto.CryptoTypeSha256Xor, EnableWalletAPI: true}
}

func must(err error) {
	if err != nil {
		panic("harness: " + err.Error())
	}
}

func seedStr(r *Rng) string { return hex.EncodeToString(r.Bytes(16)) }

func setupWallets(dir string, r *Rng, typ string, n uint64) {
	s, err := wallet.NewService(wcfg(dir))
	must(err)
	_, err = s.CreateWallet(wltA, wallet.Options{Type: typ, Seed: seedStr(r), Label: "old label", GenerateN: n})
	must(err)
	_, err = s.CreateWallet(wltB, wallet.Options{Type: wallet.WalletTypeDeterministic, Seed: seedStr(r), Label: "other", GenerateN: 2})
	must(err)
}

func openSvc(dir string) *wallet.Service {
	s, err := wallet.NewService(wcfg(dir))
	must(err)
	return s
}

func kvcfg(dir string) kvstorage.Config {
	return kvstorage.Config{StorageDir: dir, EnableStorageAPI: true, EnabledStorages: []kvstorage.Type{kvstorage.TypeTxIDNotes}}
}

func setupKV(dir string, r *Rng) {
	m, err := kvstorage.NewManager(kvcfg(dir))
	must(err)
	for i := 0; i < 3+r.Intn(4); i++ {
		must(m.AddStorageValue(kvstorage.TypeTxIDNotes, fmt.Sprintf("key%d", i), "note "+seedStr(r)))
	}
}

var scenarios = map[string]*scenario{
	"label": {method: "UpdateWalletLabel",
		setup:  func(d string, r *Rng) { setupWallets(d, r, wallet.WalletTypeDeterministic, 3) },
		act:    func(d string, r *Rng) error { return openSvc(d).UpdateWalletLabel(wltA, "a new label "+seedStr(r)) },
		target: func(d string) string { return filepath.Join(d, wltA) }},
	"newaddr": {method: "NewAddresses",
		setup: func(d string, r *Rng) { setupWallets(d, r, wallet.WalletTypeDeterministic, 2) },
		act: func(d string, r *Rng) error {
			_, err := openSvc(d).NewAddresses(wltA, nil, wallet.OptionGenerateN(uint64(1+r.Intn(3))))
			return err
		},
		target: func(d string) string { return filepath.Join(d, wltA) }},
	"newaddr-bip44": {method: "NewAddresses",
		setup: func(d string, r *Rng) {
			s := openSvc(d)
			_, err := s.CreateWallet(wltA, wallet.Options{Type: wallet.WalletTypeBip44, Seed: "abandon abandon abandon abandon abandon abandon abandon abandon abandon abandon abandon about", Label: "b44", GenerateN: 1})
			must(err)
		},
		act: func(d string, r *Rng) error {
			_, err := openSvc(d).NewAddresses(wltA, nil, wallet.OptionGenerateN(2))
			return err
		},
		target: func(d string) string { return filepath.Join(d, wltA) }},
	"scan": {method: "ScanAddresses",
		setup: func(d string, r *Rng) { setupWallets(d, r, wallet.WalletTypeDeterministic, 1) },
		act: func(d string, r *Rng) error {
			_, err := openSvc(d).ScanAddresses(wltA, nil, 5, activeEvery{3})
			return err
		},
		target: func(d string) string { return filepath.Join(d, wltA) }},
	"encrypt": {method: "EncryptWallet",
		setup: func(d string, r *Rng) { setupWallets(d, r, wallet.WalletTypeDeterministic, 2) },
		act: func(d string, r *Rng) error {
			_, err := openSvc(d).EncryptWallet(wltA, []byte("pw"))
			return err
		},
		target: func(d string) string { return filepath.Join(d, wltA) }},
	"create": {method: "loadWallet",
		setup: func(d string, r *Rng) {
			s := openSvc(d)
			_, err := s.CreateWallet(wltB, wallet.Options{Type: wallet.WalletTypeDeterministic, Seed: seedStr(r), Label: "other", GenerateN: 2})
			must(err)
		},
		act: func(d string, r *Rng) error {
			_, err := openSvc(d).CreateWallet(wltA, wallet.Options{Type: wallet.WalletTypeDeterministic, Seed: seedStr(r), Label: "fresh", GenerateN: 2})
			return err
		},
		target: func(d string) string { return filepath.Join(d, wltA) }},
	"create-enc": {method: "loadWallet",
		setup: func(d string, r *Rng) {
			s := openSvc(d)
			_, err := s.CreateWallet(wltB, wallet.Options{Type: wallet.WalletTypeDeterministic, Seed: seedStr(r), Label: "other", GenerateN: 1})
			must(err)
		},
		act: func(d string, r *Rng) error {
			_, err := openSvc(d).CreateWallet(wltA, wallet.Options{Type: wallet.WalletTypeDeterministic, Seed: seedStr(r), Label: "fresh",
				GenerateN: 2, Encrypt: true, Password: []byte("pw"), CryptoType: crypto.CryptoTypeSha256Xor})
			return err
		},
		target: func(d string) string { return filepath.Join(d, wltA) }},
	"create-bip44": {method: "loadWallet",
		setup: func(d string, r *Rng) {}, // the very first wallet in an empty wallet directory
		act: func(d string, r *Rng) error {
			_, err := openSvc(d).CreateWallet(wltA, wallet.Options{Type: wallet.WalletTypeBip44, Label: "b44", GenerateN: 2,
				Seed: "abandon abandon abandon abandon abandon abandon abandon abandon abandon abandon abandon about"})
			return err
		},
		target: func(d string) string { return filepath.Join(d, wltA) }},
	"create-collection": {method: "loadWallet",
		setup: func(d string, r *Rng) {
			setupWallets(d, r, wallet.WalletTypeDeterministic, 1)
			must(os.Rename(filepath.Join(d, wltA), filepath.Join(d, "z.wlt")))
		},
		act: func(d string, r *Rng) error {
			_, err := openSvc(d).CreateWallet(wltA, wallet.Options{Type: wallet.WalletTypeCollection, Label: "coll"})
			return err
		},
		target: func(d string) string { return filepath.Join(d, wltA) }},
	"kv-add": {method: "kv.add", kv: true, setup: setupKV,
		act: func(d string, r *Rng) error {
			m, err := kvstorage.NewManager(kvcfg(d))
			must(err)
			return m.AddStorageValue(kvstorage.TypeTxIDNotes, "added", "value "+seedStr(r))
		},
		target: func(d string) string { return filepath.Join(d, "txid.json") }},
	"kv-remove": {method: "kv.remove", kv: true, setup: setupKV,
		act: func(d string, r *Rng) error {
			m, err := kvstorage.NewManager(kvcfg(d))
			must(err)
			return m.RemoveStorageValue(kvstorage.TypeTxIDNotes, "key1")
		},
		target: func(d string) string { return filepath.Join(d, "txid.json") }},
}

// activeEvery reports activity on every address whose index is a multiple of n (deterministic
// stand-in for the blockchain lookup ScanAddresses needs).
type activeEvery struct{ n int }

func (a activeEvery) AddressesActivity(addrs []cipher.Addresser) ([]bool, error) {
	out := make([]bool, len(addrs))
	for i := range addrs {
		out[i] = i%a.n == 1
	}
	return out, nil
}

// ---------------------------------------------------------------------------------------------
// canonical view of what the real loader sees in a directory

func dumpWallets(dir string) (string, error) {
	s, err := wallet.NewService(wcfg(dir))
	if err != nil {
		return "", err
	}
	ws, err := s.GetWallets()
	if err != nil {
		return "", err
	}
	var names []string
	for n := range ws {
		names = append(names, n)
	}
	sort.Strings(names)
	h := sha256.New()
	for _, n := range names {
		b, err := ws[n].Serialize()
		if err != nil {
			return "", err
		}
		fmt.Fprintf(h, "%s %d %x\n", n, len(b), sha256.Sum256(b))
	}
	return fmt.Sprintf("%d:%x", len(names), h.Sum(nil)[:8]), nil
}

func dumpKV(dir string) (string, error) {
	m, err := kvstorage.NewManager(kvcfg(dir))
	if err != nil {
		return "", err
	}
	vals, err := m.GetAllStorageValues(kvstorage.TypeTxIDNotes)
	if err != nil {
		return "", err
	}
	var keys []string
	for k := range vals {
		keys = append(keys, k)
	}
	sort.Strings(keys)
	h := sha256.New()
	for _, k := range keys {
		fmt.Fprintf(h, "%q=%q\n", k, vals[k])
	}
	return fmt.Sprintf("%d:%x", len(keys), h.Sum(nil)[:8]), nil
}

// ---------------------------------------------------------------------------------------------
// strace parsing

type fsop struct {
	kind string // creat | creatx | touch | openw | write | rename | unlink | fsync | ftruncate
	p, q string
	data []byte
}

var (
	reLine    = regexp.MustCompile(`^(\d+)\s+(.*)$`)
	reResumed = regexp.MustCompile(`^<\.\.\. (\w+) resumed>(.*)$`)
	reCall    = regexp.MustCompile(`^(\w+)\((.*)\)\s+= (-?\d+)`)
)

// parseTrace turns strace -f output into the ordered list of mutating operations on files under dir.
func parseTrace(trace string, dir string) []fsop {
	pending := map[string]string{}
	fds := map[int]string{}
	var ops []fsop
	for _, raw := range strings.Split(trace, "\n") {
		m := reLine.FindStringSubmatch(raw)
		if m == nil {
			continue
		}
		pid, rest := m[1], m[2]
		if strings.HasSuffix(rest, "<unfinished ...>") {
			pending[pid] = strings.TrimSuffix(rest, "<unfinished ...>")
			continue
		}
		if r := reResumed.FindStringSubmatch(rest); r != nil {
			rest = pending[pid] + r[2]
			delete(pending, pid)
		}
		c := reCall.FindStringSubmatch(rest)
		if c == nil {
			continue
		}
		name, args := c[1], c[2]
		ret, _ := strconv.Atoi(c[3])
		if ret < 0 {
			if name != "close" && strings.Contains(args, dir) {
				// a failed mutating call on our directory would be a different story: record it
				ops = append(ops, fsop{kind: "failed-" + name})
			}
			continue
		}
		strs := quoted(args)
		switch name {
		case "openat":
			if len(strs) < 1 || !strings.HasPrefix(strs[0], dir) {
				continue
			}
			fds[ret] = strs[0]
			flags := args
			switch {
			case strings.Contains(flags, "O_TRUNC"):
				ops = append(ops, fsop{kind: "creat", p: strs[0]})
			case strings.Contains(flags, "O_EXCL"):
				ops = append(ops, fsop{kind: "creatx", p: strs[0]})
			case strings.Contains(flags, "O_CREAT"):
				ops = append(ops, fsop{kind: "touch", p: strs[0]})
			case strings.Contains(flags, "O_WRONLY") || strings.Contains(flags, "O_RDWR"):
				ops = append(ops, fsop{kind: "openw", p: strs[0]})
			}
		case "close":
			fd, _ := strconv.Atoi(strings.TrimSpace(args))
			delete(fds, fd)
		case "write", "pwrite64":
			fd, _ := strconv.Atoi(strings.TrimSpace(strings.SplitN(args, ",", 2)[0]))
			p, ok := fds[fd]
			if !ok {
				continue
			}
			if name == "pwrite64" {
				ops = append(ops, fsop{kind: "pwrite", p: p})
				continue
			}
			data := unescape(rawQuoted(args))
			if len(data) != ret {
				ops = append(ops, fsop{kind: "short-write", p: p})
				continue
			}
			if n := len(ops); n > 0 && ops[n-1].kind == "write" && ops[n-1].p == p {
				ops[n-1].data = append(ops[n-1].data, data...)
			} else {
				ops = append(ops, fsop{kind: "write", p: p, data: data})
			}
		case "rename", "renameat", "renameat2":
			if len(strs) == 2 && (strings.HasPrefix(strs[0], dir) || strings.HasPrefix(strs[1], dir)) {
				ops = append(ops, fsop{kind: "rename", p: strs[0], q: strs[1]})
			}
		case "unlink", "unlinkat":
			if len(strs) == 1 && strings.HasPrefix(strs[0], dir) {
				ops = append(ops, fsop{kind: "unlink", p: strs[0]})
			}
		case "fsync":
			fd, _ := strconv.Atoi(strings.TrimSpace(args))
			if p, ok := fds[fd]; ok {
				ops = append(ops, fsop{kind: "fsync", p: p})
			}
		case "ftruncate":
			fd, _ := strconv.Atoi(strings.TrimSpace(strings.SplitN(args, ",", 2)[0]))
			if p, ok := fds[fd]; ok {
				ops = append(ops, fsop{kind: "ftruncate", p: p})
			}
		}
	}
	return ops
}

// quoted returns the unescaped contents of every "..." argument (paths; strace -xx escapes all bytes).
func quoted(args string) []string {
	var out []string
	for _, q := range allRawQuoted(args) {
		out = append(out, string(unescape(q)))
	}
	return out
}

func allRawQuoted(args string) []string {
	var out []string
	for i := 0; i < len(args); i++ {
		if args[i] != '"' {
			continue
		}
		j := i + 1
		for j < len(args) && args[j] != '"' {
			if args[j] == '\\' {
				j++
			}
			j++
		}
		if j >= len(args) {
			break
		}
		out = append(out, args[i+1:j])
		i = j
	}
	return out
}

func rawQuoted(args string) string {
	q := allRawQuoted(args)
	if len(q) == 0 {
		return ""
	}
	return q[0]
}

func unescape(s string) []byte {
	var b []byte
	for i := 0; i < len(s); i++ {
		if s[i] == '\\' && i+3 < len(s) && s[i+1] == 'x' {
			v, err := strconv.ParseUint(s[i+2:i+4], 16, 8)
			if err == nil {
				b = append(b, byte(v))
				i += 3
				continue
			}
		}
		b = append(b, s[i])
	}
	return b
}

// ---------------------------------------------------------------------------------------------
// case state

type caseState struct {
	sc       *scenario
	base     string // directory as it was before the save
	ops      []fsop // traced operations, paths relative to the traced directory
	traced   string // the directory the child worked on
	target   string // base name of the saved file
	oldDump  string
	newDump  string
	oldExist bool
	nbytes   int
}

var (
	cur     *caseState
	scratch string
	caseNo  int
)

func scratchDir() string {
	if scratch == "" {
		base := os.Getenv("VERIF_SCRATCH")
		if base == "" {
			base = os.TempDir()
		}
		d, err := ioutil.TempDir(base, "c20-")
		must(err)
		scratch = d
	}
	return scratch
}

func copyDir(dst, src string) {
	must(os.MkdirAll(dst, 0700))
	es, err := ioutil.ReadDir(src)
	must(err)
	for _, e := range es {
		b, err := ioutil.ReadFile(filepath.Join(src, e.Name()))
		must(err)
		must(ioutil.WriteFile(filepath.Join(dst, e.Name()), b, 0600))
	}
}

func (c *caseState) dump(dir string) (string, error) {
	if c.sc.kv {
		return dumpKV(dir)
	}
	return dumpWallets(dir)
}

func doReset(name, method string, seed uint64) string {
	sc, ok := scenarios[strings.TrimSuffix(name, "+tmp")]
	if !ok || sc.method != method {
		panic("harness: unknown scenario " + name + "/" + method)
	}
	leftover := strings.HasSuffix(name, "+tmp")
	caseNo++
	root := filepath.Join(scratchDir(), fmt.Sprintf("case%d", caseNo))
	base := filepath.Join(root, "base")
	must(os.MkdirAll(base, 0700))
	sc.setup(base, NewRng(seed))
	c := &caseState{sc: sc, base: base}
	c.target = filepath.Base(sc.target(base))
	_, err := os.Stat(filepath.Join(base, c.target))
	c.oldExist = err == nil

	run := func(work string) []fsop {
		tr := filepath.Join(root, "trace.txt")
		cmd := exec.Command("strace", "-f", "-qq", "-xx", "-s", "1048576", "-o", tr,
			"-e", "trace=openat,write,pwrite64,rename,renameat,renameat2,unlink,unlinkat,fsync,ftruncate,close",
			os.Args[0], "child", strings.TrimSuffix(name, "+tmp"), work, strconv.FormatUint(seed, 10))
		var eb bytes.Buffer
		cmd.Stderr = &eb
		if err := cmd.Run(); err != nil {
			panic("harness: traced child failed: " + err.Error() + ": " + eb.String())
		}
		b, err := ioutil.ReadFile(tr)
		must(err)
		return parseTrace(string(b), work)
	}
	work := filepath.Join(root, "work")
	copyDir(work, base)
	ops := run(work)
	newDir := work
	if leftover {
		// an earlier attempt at this very save crashed inside its data write and left the temporary file behind (its
		// name is a function of the target and the content, so the retry uses the same name): either a real torn
		// prefix of the data, or unrelated bytes.  The clean run above defines what the retry has to achieve.
		var tmp string
		var data []byte
		for _, o := range ops {
			if tmp == "" && strings.Contains(filepath.Base(o.p), ".tmp.") {
				tmp = filepath.Base(o.p)
			}
			if o.kind == "write" && len(o.data) > len(data) {
				data = o.data
			}
		}
		if tmp == "" {
			panic("harness: no temporary file in the trace")
		}
		torn := []byte("{\"torn\": tr")
		if len(data) > 0 {
			switch seed % 4 {
			case 0:
				torn = data[:0]
			case 1:
				torn = data[:len(data)-1]
			case 2:
				torn = data[:int(seed/4)%len(data)]
			}
		}
		must(ioutil.WriteFile(filepath.Join(base, tmp), torn, 0600))
		work = filepath.Join(root, "work2")
		copyDir(work, base)
		ops = run(work)
	}
	c.ops, c.traced = ops, work
	for _, o := range ops {
		if o.kind == "write" && len(o.data) > c.nbytes {
			c.nbytes = len(o.data)
		}
	}
	c.oldDump, err = c.dump(mkcopy(root, "old", base))
	must(err)
	c.newDump, err = c.dump(mkcopy(root, "new", newDir))
	must(err)
	if c.oldDump == c.newDump {
		panic("harness: the save did not change what the loader sees")
	}
	cur = c
	b2i := map[bool]int{false: 0, true: 1}
	return fmt.Sprintf("old=%d tmpleft=%d n=%d", b2i[c.oldExist], b2i[leftover], c.nbytes)
}

func mkcopy(root, name, src string) string {
	d := filepath.Join(root, name)
	os.RemoveAll(d)
	copyDir(d, src)
	return d
}

func (c *caseState) sym(p string) string {
	b := filepath.Base(p)
	switch {
	case b == c.target:
		return "F"
	case strings.HasPrefix(b, c.target+".tmp.") && len(b) == len(c.target)+5+8:
		return "T"
	}
	return "?" + b
}

func doTrace() string {
	var parts []string
	for _, o := range cur.ops {
		s := o.kind + " " + cur.sym(o.p)
		if o.kind == "rename" {
			s += " " + cur.sym(o.q)
		}
		if o.kind == "write" && len(o.data) != cur.nbytes {
			s += fmt.Sprintf("[%d of %d bytes]", len(o.data), cur.nbytes)
		}
		parts = append(parts, s)
	}
	return strings.Join(parts, ";")
}

// materialise the crash state: first k traced operations, then t bytes of operation k if it is a write.
func (c *caseState) crashDir(k, t int) string {
	d := mkcopy(filepath.Dir(c.base), "crash", c.base)
	loc := func(p string) string { return filepath.Join(d, filepath.Base(p)) }
	apply := func(o fsop, limit int) {
		switch o.kind {
		case "creat":
			f, err := os.OpenFile(loc(o.p), os.O_WRONLY|os.O_CREATE|os.O_TRUNC, 0600)
			must(err)
			f.Close()
		case "touch", "creatx":
			f, err := os.OpenFile(loc(o.p), os.O_WRONLY|os.O_CREATE, 0600)
			must(err)
			f.Close()
		case "write":
			data := o.data
			if limit >= 0 && limit < len(data) {
				data = data[:limit]
			}
			f, err := os.OpenFile(loc(o.p), os.O_WRONLY|os.O_APPEND, 0600)
			must(err)
			_, err = f.Write(data)
			must(err)
			f.Close()
		case "rename":
			must(os.Rename(loc(o.p), loc(o.q)))
		case "unlink":
			must(os.Remove(loc(o.p)))
		case "fsync", "openw":
		default:
			if strings.HasPrefix(o.kind, "failed-") {
				return // the call failed: nothing happened
			}
			panic("harness: cannot replay traced operation " + o.kind)
		}
	}
	for i := 0; i < k && i < len(c.ops); i++ {
		apply(c.ops[i], -1)
	}
	if k < len(c.ops) && c.ops[k].kind == "write" {
		apply(c.ops[k], t)
	}
	return d
}

func doCrash(k, t int) string {
	c := cur
	d := c.crashDir(k, t)
	got, err := c.dump(d)
	if err != nil {
		return "err"
	}
	switch got {
	case c.newDump:
		return "ok new"
	case c.oldDump:
		return "ok old"
	}
	return "ok other"
}

func c20Exec(op string) string {
	f := Fields(op)
	switch f[0] {
	case "reset":
		return doReset(f[1], f[2], PU64(f[3]))
	case "trace":
		return doTrace()
	case "crash":
		return doCrash(int(PU64(f[1])), int(PU64(f[2])))
	}
	panic("harness: unknown op " + f[0])
}

func c20Gen(r *Rng, tier string, emit func(string)) {
	names := []string{"label", "newaddr", "newaddr-bip44", "scan", "encrypt", "create", "create-enc", "create-bip44",
		"create-collection", "kv-add", "kv-remove", "label+tmp", "kv-add+tmp", "newaddr+tmp", "create+tmp"}
	rounds := 1
	if tier == "thorough" {
		rounds = 3
	}
	for round := 0; round < rounds; round++ {
		for _, n := range names {
			sc := scenarios[strings.TrimSuffix(n, "+tmp")]
			emit(fmt.Sprintf("reset %s %s %d", n, sc.method, r.U64()%1000000))
			emit("trace")
			c := cur
			for k := 0; k <= len(c.ops); k++ {
				if k < len(c.ops) && c.ops[k].kind == "write" {
					n := len(c.ops[k].data)
					pts := map[int]bool{0: true, 1: true, n / 2: true, n - 1: true}
					if tier == "thorough" && round == 0 && n <= 4096 {
						for t := 0; t < n; t++ {
							pts[t] = true
						}
					} else {
						extra := 12
						if tier == "thorough" {
							extra = 100
						}
						for i := 0; i < extra; i++ {
							pts[r.Intn(n)] = true
						}
					}
					var ts []int
					for t := range pts {
						if t >= 0 && t < n {
							ts = append(ts, t)
						}
					}
					sort.Ints(ts)
					for _, t := range ts {
						emit(fmt.Sprintf("crash %d %d", k, t))
					}
				} else {
					emit(fmt.Sprintf("crash %d 0", k))
				}
			}
		}
	}
}

func child(args []string) {
	logging.Disable()
	sc := scenarios[args[0]]
	seed, _ := strconv.ParseUint(args[2], 10, 64)
	r := NewRng(seed ^ 0x5ca1ab1e)
	if err := sc.act(args[1], r); err != nil {
		fmt.Fprintln(os.Stderr, "act failed:", err)
		os.Exit(3)
	}
}

func main() {
	if len(os.Args) >= 5 && os.Args[1] == "child" {
		child(os.Args[2:])
		return
	}
	Main(&Prop{Gen: c20Gen, Exec: c20Exec, Close: func() {
		if scratch != "" {
			os.RemoveAll(scratch)
		}
	}})
}

var _ = bufio.NewReader
var _ = io.EOF
