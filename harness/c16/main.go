package main

// C16: BIP39 / BIP32 / BIP44. Real functions: bip39.NewMnemonic, EntropyFromMnemonic, ValidateMnemonic, NewSeed;
// bip32.NewMasterKey, NewPrivateChildKey, PublicKey, NewPublicChildKey, Serialize, String, DeserializePrivateKey,
// DeserializePublicKey, DeserializeEncoded*, NewPrivateKeyFromPath; bip44.NewCoin, Account, External, Change;
// and the primitives the Lean hash library is compared with: crypto/sha512, crypto/hmac, src/cipher/pbkdf2.

import (
	"crypto/hmac"
	"crypto/sha256"
	"crypto/sha512"
	"encoding/hex"
	"math/big"
	"strconv"
	"strings"

	"verif/harness/eclib"
	. "verif/harness/hlib"

	"github.com/skycoin/skycoin/src/cipher/bip32"
	"github.com/skycoin/skycoin/src/cipher/bip39"
	"github.com/skycoin/skycoin/src/cipher/bip39/wordlists"
	"github.com/skycoin/skycoin/src/cipher/bip44"
	"github.com/skycoin/skycoin/src/cipher/pbkdf2"
)

var errs = map[error]string{
	bip39.ErrInvalidEntropyLength:     "ErrInvalidEntropyLength",
	bip39.ErrChecksumIncorrect:        "ErrChecksumIncorrect",
	bip39.ErrSurroundingWhitespace:    "ErrSurroundingWhitespace",
	bip39.ErrInvalidSeparator:         "ErrInvalidSeparator",
	bip39.ErrUnknownWord:              "ErrUnknownWord",
	bip39.ErrInvalidNumberOfWords:     "ErrInvalidNumberOfWords",
	bip32.ErrSerializedKeyWrongSize:   "ErrSerializedKeyWrongSize",
	bip32.ErrHardenedChildPublicKey:   "ErrHardenedChildPublicKey",
	bip32.ErrInvalidChecksum:          "ErrInvalidChecksum",
	bip32.ErrDerivedInvalidPrivateKey: "ErrDerivedInvalidPrivateKey",
	bip32.ErrDerivedInvalidPublicKey:  "ErrDerivedInvalidPublicKey",
	bip32.ErrInvalidPrivateKeyVersion: "ErrInvalidPrivateKeyVersion",
	bip32.ErrInvalidPublicKeyVersion:  "ErrInvalidPublicKeyVersion",
	bip32.ErrInvalidSeedLength:        "ErrInvalidSeedLength",
	bip32.ErrInvalidKeyVersion:        "ErrInvalidKeyVersion",
	bip32.ErrInvalidFingerprint:       "ErrInvalidFingerprint",
	bip32.ErrInvalidChildNumber:       "ErrInvalidChildNumber",
	bip32.ErrInvalidPrivateKey:        "ErrInvalidPrivateKey",
	bip32.ErrInvalidPublicKey:         "ErrInvalidPublicKey",
	bip32.ErrMaxDepthReached:          "ErrMaxDepthReached",
	bip32.ErrPathNoMaster:             "ErrPathNoMaster",
	bip32.ErrPathChildMaster:          "ErrPathChildMaster",
	bip32.ErrPathNodeNotNumber:        "ErrPathNodeNotNumber",
	bip32.ErrPathNodeNumberTooLarge:   "ErrPathNodeNumberTooLarge",
	bip44.ErrInvalidCoinType:          "ErrInvalidCoinType",
	bip44.ErrInvalidAccount:           "ErrInvalidAccount",
}

func e(err error) string {
	if bip32.IsImpossibleChildError(err) {
		return "err ImpossibleChild"
	}
	// base58 errors surface unchanged from DeserializeEncoded*
	switch err.Error() {
	case "Invalid base58 character":
		return "err ErrInvalidChar"
	case "Invalid base58 string":
		return "err ErrInvalidString"
	}
	return "err " + ErrName(err, errs)
}

// ownPBKDF2: PBKDF2-HMAC-SHA512 from the standard library's hmac only (independent of src/cipher/pbkdf2)
func ownPBKDF2(pw, salt []byte, iter, n int) []byte {
	var out []byte
	for blk := 1; len(out) < n; blk++ {
		m := hmac.New(sha512.New, pw)
		m.Write(salt)                                                                //nolint
		m.Write([]byte{byte(blk >> 24), byte(blk >> 16), byte(blk >> 8), byte(blk)}) //nolint
		u := m.Sum(nil)
		t := append([]byte{}, u...)
		for i := 1; i < iter; i++ {
			m = hmac.New(sha512.New, pw)
			m.Write(u) //nolint
			u = m.Sum(nil)
			for j := range t {
				t[j] ^= u[j]
			}
		}
		out = append(out, t...)
	}
	return out[:n]
}

func parseIdx(s string) []uint32 {
	if s == "-" || s == "" {
		return nil
	}
	var out []uint32
	for _, p := range strings.Split(s, ",") {
		out = append(out, uint32(PU64(p)))
	}
	return out
}

func derive(seed []byte, path []uint32) (*bip32.PrivateKey, error) {
	k, err := bip32.NewMasterKey(seed)
	if err != nil {
		return nil, err
	}
	for _, i := range path {
		k, err = k.NewPrivateChildKey(i)
		if err != nil {
			return nil, err
		}
	}
	return k, nil
}

func exec(op string) string {
	f := Fields(op)
	switch f[0] {
	case "sha512":
		h := sha512.Sum512(PHex(f[1]))
		return "ok " + Hex(h[:])
	case "hmac512":
		m := hmac.New(sha512.New, PHex(f[1]))
		m.Write(PHex(f[2])) //nolint
		return "ok " + Hex(m.Sum(nil))
	case "pbkdf2":
		return "ok " + Hex(pbkdf2.Key(PHex(f[1]), PHex(f[2]), int(PU64(f[3])), int(PU64(f[4])), sha512.New))
	case "wordlist":
		h := sha256.Sum256([]byte(strings.Join(wordlists.English, "\n") + "\n"))
		return "ok " + strconv.Itoa(len(wordlists.English)) + " " + Hex(h[:])
	case "mnemonic":
		m, err := bip39.NewMnemonic(PHex(f[1]))
		if err != nil {
			return e(err)
		}
		return "ok " + Hex([]byte(m))
	case "entropy":
		b, err := bip39.EntropyFromMnemonic(string(PHex(f[1])))
		if err != nil {
			return e(err)
		}
		return "ok " + Hex(b)
	case "validate":
		if err := bip39.ValidateMnemonic(string(PHex(f[1]))); err != nil {
			return e(err)
		}
		return "ok"
	case "seed": // seed <mnemonic> <passphrase as given> <passphrase in NFKD>
		b, err := bip39.NewSeed(string(PHex(f[1])), string(PHex(f[2])))
		if err != nil {
			return e(err)
		}
		return "ok " + Hex(b)
	case "seednfkd": // seednfkd <mnemonic> <passphrase as given, NOT in NFKD> <its NFKD form>
		b, err := bip39.NewSeed(string(PHex(f[1])), string(PHex(f[2])))
		if err != nil {
			return e(err)
		}
		// classify (without the code under test): did the implementation salt with the bytes as given?
		if Hex(b) == Hex(ownPBKDF2(PHex(f[1]), append([]byte("mnemonic"), PHex(f[2])...), 2048, 64)) {
			return "ok " + Hex(b) + " salt=as-given"
		}
		return "ok " + Hex(b)
	case "vec39": // published vector: entropy, mnemonic, seed (passphrase TREZOR)
		m, err := bip39.NewMnemonic(PHex(f[1]))
		if err != nil || Hex([]byte(m)) != f[2] {
			return "mnemonic differs from the published vector"
		}
		ent, err := bip39.EntropyFromMnemonic(m)
		if err != nil || Hex(ent) != f[1] {
			return "entropy differs from the published vector"
		}
		s, err := bip39.NewSeed(m, "TREZOR")
		if err != nil || Hex(s) != f[3] {
			return "seed differs from the published vector"
		}
		return "ok"
	case "vec32": // published vector: seed, path string, xprv, xpub
		seed, _ := hex.DecodeString(f[1])
		k, err := bip32.NewPrivateKeyFromPath(seed, f[2])
		if err != nil {
			return "derivation failed: " + err.Error()
		}
		if k.String() != f[3] {
			return "xprv differs from the published vector"
		}
		if k.PublicKey().String() != f[4] {
			return "xpub differs from the published vector"
		}
		return "ok"
	case "master":
		k, err := bip32.NewMasterKey(PHex(f[1]))
		if err != nil {
			return e(err)
		}
		return "ok " + Hex(k.Serialize())
	case "derive": // derive <seed> <i,j,k> -> serialized private and public extended keys
		k, err := derive(PHex(f[1]), parseIdx(f[2]))
		if err != nil {
			return e(err)
		}
		return "ok " + Hex(k.Serialize()) + " " + Hex(k.PublicKey().Serialize()) + " " + Hex([]byte(k.String()))
	case "derivepub": // derivepub <seed> <private path> <public path>
		k, err := derive(PHex(f[1]), parseIdx(f[2]))
		if err != nil {
			return e(err)
		}
		p := k.PublicKey()
		for _, i := range parseIdx(f[3]) {
			p, err = p.NewPublicChildKey(i)
			if err != nil {
				return e(err)
			}
		}
		return "ok " + Hex(p.Serialize())
	case "pathstr": // NewPrivateKeyFromPath with a textual path
		k, err := bip32.NewPrivateKeyFromPath(PHex(f[1]), string(PHex(f[2])))
		if err != nil {
			return e(err)
		}
		return "ok " + Hex(k.Serialize())
	case "deserpriv":
		k, err := bip32.DeserializePrivateKey(PHex(f[1]))
		if err != nil {
			return e(err)
		}
		return "ok " + Hex(k.Serialize())
	case "deserpub":
		k, err := bip32.DeserializePublicKey(PHex(f[1]))
		if err != nil {
			return e(err)
		}
		return "ok " + Hex(k.Serialize())
	case "deserencpriv":
		k, err := bip32.DeserializeEncodedPrivateKey(string(PHex(f[1])))
		if err != nil {
			return e(err)
		}
		return "ok " + Hex(k.Serialize())
	case "deserencpub":
		k, err := bip32.DeserializeEncodedPublicKey(string(PHex(f[1])))
		if err != nil {
			return e(err)
		}
		return "ok " + Hex(k.Serialize())
	case "depth255": // a serialized key at depth 255: deserialize, then try to derive a child
		k, err := bip32.DeserializePrivateKey(PHex(f[1]))
		if err != nil {
			return e(err)
		}
		if _, err := k.NewPrivateChildKey(uint32(PU64(f[2]))); err != nil {
			r := e(err)
			if _, err2 := k.PublicKey().NewPublicChildKey(uint32(PU64(f[2])) & 0x7fffffff); err2 != nil {
				return r + " / " + e(err2)
			}
			return r + " / ok"
		}
		return "ok"
	case "bip44": // bip44 <seed> <coin> <account> <chain 0|1> <index>
		c, err := bip44.NewCoin(PHex(f[1]), bip44.CoinType(uint32(PU64(f[2]))))
		if err != nil {
			return e(err)
		}
		a, err := c.Account(uint32(PU64(f[3])))
		if err != nil {
			return e(err)
		}
		var ch *bip32.PrivateKey
		if f[4] == "0" {
			ch, err = a.External()
		} else {
			ch, err = a.Change()
		}
		if err != nil {
			return e(err)
		}
		k, err := ch.NewPrivateChildKey(uint32(PU64(f[5])))
		if err != nil {
			return e(err)
		}
		return "ok " + Hex(k.Serialize()) + " " + Hex(k.PublicKey().Serialize())
	}
	panic("harness: unknown op " + f[0])
}

// ---------- generator (never calls the code under test) ----------

var boundaryIdx = []uint32{0, 1, 2, 1<<31 - 1, 1 << 31, 1<<31 + 1, 1<<32 - 1, 44 + 1<<31, 8000 + 1<<31}

func randIdx(r *Rng) uint32 {
	switch r.Intn(4) {
	case 0:
		return boundaryIdx[r.Intn(len(boundaryIdx))]
	case 1:
		return uint32(r.Intn(20))
	case 2:
		return uint32(r.Intn(20)) + 1<<31
	}
	return uint32(r.U64())
}

func idxStr(p []uint32) string {
	if len(p) == 0 {
		return "-"
	}
	s := make([]string, len(p))
	for i, v := range p {
		s[i] = strconv.FormatUint(uint64(v), 10)
	}
	return strings.Join(s, ",")
}

// refMnemonic: the generator's own BIP39 encoder (math on bits) used only to build texts to mutate
func refMnemonic(ent []byte) string {
	h := sha256.Sum256(ent)
	cs := len(ent) / 4
	bits := make([]byte, 0, len(ent)*8+cs)
	for _, b := range ent {
		for i := 7; i >= 0; i-- {
			bits = append(bits, (b>>uint(i))&1)
		}
	}
	for i := 0; i < cs; i++ {
		bits = append(bits, (h[0]>>uint(7-i))&1)
	}
	var ws []string
	for i := 0; i+11 <= len(bits); i += 11 {
		v := 0
		for j := 0; j < 11; j++ {
			v = v<<1 | int(bits[i+j])
		}
		ws = append(ws, wordlists.English[v])
	}
	return strings.Join(ws, " ")
}

// passphrases with their NFKD form (hand table: the generator has no normaliser)
var passphrases = [][2]string{
	{"", ""}, {"TREZOR", "TREZOR"}, {"correct horse battery staple", "correct horse battery staple"},
	{" leading and trailing ", " leading and trailing "}, {"e\u0301", "e\u0301"},
	{"\u30cf\u309a\u30b9\u30ef\u30fc\u30c8\u3099", "\u30cf\u309a\u30b9\u30ef\u30fc\u30c8\u3099"},
	{"\u043f\u0430\u0440\u043e\u043b\u044c", "\u043f\u0430\u0440\u043e\u043b\u044c"}, {"\x00\x01\x02", "\x00\x01\x02"}, {"\u4e2d\u6587", "\u4e2d\u6587"},
}

// not in NFKD: the implementation salts with the bytes as given, the standard with the normalised form
var nonNFKD = [][2]string{
	{"é", "é"}, {"café", "café"}, {"Å", "Å"}, {"ﬁsh", "fish"}, {"ＡＢ", "AB"}, {"ñ", "ñ"},
}

const b58 = "123456789ABCDEFGHJKLMNPQRSTUVWXYZabcdefghijkmnopqrstuvwxyz"

// refDec58: the generator's own base58 decoder (published xprv/xpub strings -> 82 bytes)
func refDec58(s string) []byte {
	v := new(big.Int)
	z := 0
	for z < len(s) && s[z] == '1' {
		z++
	}
	for i := 0; i < len(s); i++ {
		v.Mul(v, big.NewInt(58))
		v.Add(v, big.NewInt(int64(strings.IndexByte(b58, s[i]))))
	}
	return append(make([]byte, z), v.Bytes()...)
}

func rechecksum(b []byte) []byte {
	h1 := sha256.Sum256(b[:78])
	h2 := sha256.Sum256(h1[:])
	return append(append([]byte{}, b[:78]...), h2[:4]...)
}

// published extended keys (BIP-0032 test vector 1: m, m/0', m/0'/1) used as raw material for the
// deserialisation faults
var knownKeys = []string{
	"xprv9s21ZrQH143K3QTDL4LXw2F7HEK3wJUD2nW2nRk4stbPy6cq3jPPqjiChkVvvNKmPGJxWUtg6LnF5kejMRNNU3TGtRBeJgk33yuGBxrMPHi",
	"xpub661MyMwAqRbcFtXgS5sYJABqqG9YLmC4Q1Rdap9gSE8NqtwybGhePY2gZ29ESFjqJoCu1Rupje8YtGqsefD265TMg7usUDFdp6W1EGMcet8",
	"xprv9uHRZZhk6KAJC1avXpDAp4MDc3sQKNxDiPvvkX8Br5ngLNv1TxvUxt4cV1rGL5hj6KCesnDYUhd7oWgT11eZG7XnxHrnYeSvkzY7d2bhkJ7",
	"xpub68Gmy5EdvgibQVfPdqkBBCHxA5htiqg55crXYuXoQRKfDBFA1WEjWgP6LHhwBZeNK1VTsfTFUHCdrfp1bgwQ9xv5ski8PX9rL2dZXvgGDnw",
	"xprv9wTYmMFdV23N2TdNG573QoEsfRrWKQgWeibmLntzniatZvR9BmLnvSxqu53Kw1UmYPxLgboyZQaXwTCg8MSY3H2EU4pWcQDnRnrVA1xe8fs",
	"xpub6ASuArnXKPbfEwhqN6e3mwBcDTgzisQN1wXN9BJcM47sSikHjJf3UFHKkNAWbWMiGj7Wf5uMash7SyYq527Hqck2AxYysAA7xmALppuCkwQ",
}

func genDeser(r *Rng, emit func(string)) {
	nBytes, _ := hex.DecodeString("fffffffffffffffffffffffffffffffebaaedce6af48a03bbfd25e8cd0364141")
	for ki, ks := range knownKeys {
		raw := refDec58(ks)
		priv := ki%2 == 0
		both := func(b []byte) {
			emit("deserpriv " + Hex(b))
			emit("deserpub " + Hex(b))
		}
		both(raw)
		emit("deserencpriv " + Hex([]byte(ks)))
		emit("deserencpub " + Hex([]byte(ks)))
		emit("deserencpriv " + Hex([]byte(ks+"1")))
		emit("deserencpub " + Hex([]byte("0"+ks)))
		emit("deserencpriv " + Hex([]byte(ks[:len(ks)-1])))
		// faults, with the checksum recomputed so that the fault itself is what is tested
		mut := func(f func(b []byte)) {
			b := append([]byte{}, raw...)
			f(b)
			both(rechecksum(b))
		}
		mut(func(b []byte) { b[3] ^= 1 })                                 // unknown version
		mut(func(b []byte) { copy(b[0:4], []byte{4, 0x88, 0xB2, 0x1E}) }) // public version on whatever the key is
		mut(func(b []byte) { copy(b[0:4], []byte{4, 0x88, 0xAD, 0xE4}) }) // private version
		mut(func(b []byte) { b[4] = 0 })                                  // depth 0 with the existing fingerprint / child number
		mut(func(b []byte) { b[4] = 0; copy(b[5:9], []byte{0, 0, 0, 0}) })
		mut(func(b []byte) { b[4] = 0; copy(b[5:13], make([]byte, 8)) })
		mut(func(b []byte) { b[4] = 0; copy(b[5:9], []byte{0, 0, 0, 0}); copy(b[9:13], []byte{0x80, 0, 0, 0}) })
		mut(func(b []byte) { b[4] = 255 })
		mut(func(b []byte) { b[45] = 1 })
		mut(func(b []byte) { b[45] = 4 })
		mut(func(b []byte) { copy(b[46:78], make([]byte, 32)) }) // key 0 / x = 0
		mut(func(b []byte) { copy(b[46:78], nBytes) })           // key = n
		mut(func(b []byte) { copy(b[46:78], nBytes); b[77]-- })  // key = n-1
		mut(func(b []byte) { b[77] ^= 1 })                       // another key / a point usually off the curve
		mut(func(b []byte) { b[20] ^= 0x80 })                    // chain code bit
		// checksum / length faults
		b := append([]byte{}, raw...)
		b[81] ^= 1
		both(b)
		b = append([]byte{}, raw...)
		b[10] ^= 1 // payload changed, checksum stale
		both(b)
		both(raw[:81])
		both(append(append([]byte{}, raw...), 0))
		both(nil)
		if priv {
			d := append([]byte{}, raw...)
			d[4] = 255
			emit("depth255 " + Hex(rechecksum(d)) + " 0")
			emit("depth255 " + Hex(rechecksum(d)) + " 2147483648")
			d[4] = 254
			emit("depth255 " + Hex(rechecksum(d)) + " 7")
		}
	}
}

// ---- the generator's own BIP32 private derivation (stdlib HMAC + math/big + harness/eclib; never the code under test),
// used to PRE-SELECT the children worth asking about: those whose key, or whose IL, starts with zero bytes.
type refKey struct {
	k  *big.Int
	cc []byte
}

func refMaster(seed []byte) refKey {
	m := hmac.New(sha512.New, []byte("Bitcoin seed"))
	m.Write(seed) //nolint
	I := m.Sum(nil)
	return refKey{new(big.Int).SetBytes(I[:32]), I[32:]}
}

func (p refKey) pub() []byte { return eclib.Compress(eclib.Mul(p.k, eclib.G)) }

// child returns the child key and IL; pub is the parent's compressed public key (needed for normal children only)
func (p refKey) child(idx uint32, pub []byte) (refKey, []byte, bool) {
	var data []byte
	if idx >= 1<<31 {
		data = append([]byte{0}, eclib.B32(p.k)...)
	} else {
		data = append([]byte{}, pub...)
	}
	data = append(data, byte(idx>>24), byte(idx>>16), byte(idx>>8), byte(idx))
	m := hmac.New(sha512.New, p.cc)
	m.Write(data) //nolint
	I := m.Sum(nil)
	il := new(big.Int).SetBytes(I[:32])
	if il.Sign() == 0 || il.Cmp(eclib.N) >= 0 {
		return refKey{}, nil, false
	}
	k := new(big.Int).Add(il, p.k)
	k.Mod(k, eclib.N)
	if k.Sign() == 0 {
		return refKey{}, nil, false
	}
	return refKey{k, I[32:]}, I[:32], true
}

func refDerive(seed []byte, path []uint32) (refKey, bool) {
	k := refMaster(seed)
	for _, i := range path {
		var ok bool
		k, _, ok = k.child(i, k.pub())
		if !ok {
			return refKey{}, false
		}
	}
	return k, true
}

// genLeadingZeroChildren sweeps `span` consecutive hardened and normal children of a parent by the reference
// computation and emits derivation ops for exactly those whose key (or IL) has leading zero bytes.
func genLeadingZeroChildren(seed []byte, path []uint32, span int, maxOps int, emit func(string)) {
	parent, ok := refDerive(seed, path)
	if !ok {
		return
	}
	pub := parent.pub()
	n := 0
	for _, base := range []uint32{1 << 31, 0} {
		found := 0
		for i := 0; i < span && found < maxOps; i++ {
			idx := base + uint32(i)
			c, il, ok := parent.child(idx, pub)
			if !ok {
				continue
			}
			kb := eclib.B32(c.k)
			if kb[0] != 0 && il[0] != 0 {
				continue
			}
			found++
			n++
			full := idxStr(append(append([]uint32{}, path...), idx))
			emit("derive " + Hex(seed) + " " + full)
			if base == 0 {
				emit("derivepub " + Hex(seed) + " " + idxStr(path) + " " + idxStr([]uint32{idx}))
			}
			if kb[0] == 0 && found == 1 { // one level below a shifted key everything differs too
				emit("derive " + Hex(seed) + " " + full + ",0")
			}
		}
	}
}

func gen(r *Rng, tier string, emit func(string)) {
	thorough := tier == "thorough"
	genDeser(r, emit)
	scale := 1
	if thorough {
		scale = 12
	}
	emit("wordlist")
	// ---- hash primitives
	for _, ln := range []int{0, 1, 111, 112, 113, 127, 128, 129, 240, 300} {
		emit("sha512 " + Hex(r.Bytes(ln)))
	}
	for _, kl := range []int{0, 1, 32, 127, 128, 129, 200} {
		emit("hmac512 " + Hex(r.Bytes(kl)) + " " + Hex(r.Bytes(r.Intn(150))))
	}
	emit("pbkdf2 " + Hex([]byte("password")) + " " + Hex([]byte("salt")) + " 1 64")
	emit("pbkdf2 " + Hex([]byte("password")) + " " + Hex([]byte("salt")) + " 2 64")
	emit("pbkdf2 " + Hex(r.Bytes(200)) + " " + Hex(r.Bytes(40)) + " 3 130")
	emit("pbkdf2 " + Hex(r.Bytes(20)) + " " + Hex(r.Bytes(8)) + " 50 20")
	// ---- BIP39
	sizes := []int{16, 20, 24, 28, 32}
	for i := 0; i < 14*scale; i++ {
		ln := sizes[r.Intn(5)]
		ent := r.Bytes(ln)
		switch r.Intn(6) {
		case 0:
			for j := range ent {
				ent[j] = 0
			}
		case 1:
			for j := range ent {
				ent[j] = 0xff
			}
		case 2:
			ent[0] = 0
			ent[1] = 0
		}
		emit("mnemonic " + Hex(ent))
		m := refMnemonic(ent)
		emit("entropy " + Hex([]byte(m)))
		emit("validate " + Hex([]byte(m)))
		if i < 4*scale {
			p := passphrases[r.Intn(len(passphrases))]
			emit("seed " + Hex([]byte(m)) + " " + Hex([]byte(p[0])) + " " + Hex([]byte(p[1])))
		}
		// malformed neighbours
		ws := strings.Split(m, " ")
		muts := []string{
			" " + m, m + " ", "\t" + m, m + "\n", " " + m, m + "　", strings.Replace(m, " ", "  ", 1), strings.Replace(m, " ", "\t", 1),
			strings.Join(ws[:len(ws)-1], " "), strings.Join(ws[:len(ws)-3], " "), m + " abandon", m + " abandon abandon abandon",
			strings.ToUpper(m[:1]) + m[1:], strings.Join(append([]string{"abandonn"}, ws[1:]...), " "), strings.Join(append([]string{"zzz"}, ws[1:]...), " "),
			strings.Join(append(append([]string{}, ws[1:]...), ws[0]), " "), // rotated: checksum (almost always) wrong
			strings.Join(append([]string{wordlists.English[r.Intn(2048)]}, ws[1:]...), " "),
			strings.Join(append(append([]string{}, ws[:len(ws)-1]...), wordlists.English[r.Intn(2048)]), " "),
			"", " ", strings.Replace(m, " ", " ", 1), m + "\xff",
		}
		for k := 0; k < 5; k++ {
			mm := muts[r.Intn(len(muts))]
			emit("entropy " + Hex([]byte(mm)))
			emit("validate " + Hex([]byte(mm)))
		}
		if i < 3 {
			for _, mm := range muts {
				emit("validate " + Hex([]byte(mm)))
			}
			emit("seed " + Hex([]byte(muts[0])) + " - -")
		}
	}
	for _, ln := range []int{0, 1, 15, 17, 12, 36, 33, 64} {
		emit("mnemonic " + Hex(r.Bytes(ln)))
	}
	// every last word for one fixed 11-word prefix: exactly 2048/16 = 128 of them carry the right checksum
	if thorough {
		ent := r.Bytes(16)
		ws := strings.Split(refMnemonic(ent), " ")
		for i := 0; i < 2048; i++ {
			emit("validate " + Hex([]byte(strings.Join(append(append([]string{}, ws[:11]...), wordlists.English[i]), " "))))
		}
	}
	// passphrases that are not NFKD-normalised (known finding F22)
	{
		m := refMnemonic(make([]byte, 16))
		for _, p := range nonNFKD {
			emit("seednfkd " + Hex([]byte(m)) + " " + Hex([]byte(p[0])) + " " + Hex([]byte(p[1])))
		}
	}
	// ---- BIP32
	for _, ln := range []int{0, 15, 16, 17, 32, 63, 64, 65, 100} {
		emit("master " + Hex(r.Bytes(ln)))
	}
	for i := 0; i < 8*scale; i++ {
		seed := r.Bytes(16 + r.Intn(49))
		depth := r.Intn(6)
		var path []uint32
		for j := 0; j < depth; j++ {
			path = append(path, randIdx(r))
		}
		emit("derive " + Hex(seed) + " " + idxStr(path))
		// public derivation below a private prefix: normal indices, and one hardened (must fail)
		var pp []uint32
		for j := 0; j < 1+r.Intn(3); j++ {
			pp = append(pp, randIdx(r)&0x7fffffff)
		}
		emit("derivepub " + Hex(seed) + " " + idxStr(path) + " " + idxStr(pp))
		emit("derive " + Hex(seed) + " " + idxStr(append(append([]uint32{}, path...), pp...)))
		if i%3 == 0 {
			emit("derivepub " + Hex(seed) + " " + idxStr(path) + " " + idxStr(append(pp, randIdx(r)|1<<31)))
		}
	}
	// children whose private key / IL starts with a zero byte (about 1 in 256): fixed-width serialisation of the sum
	{
		span, per := 1500, 4
		if thorough {
			span, per = 20000, 40
		}
		vseed := PHex("000102030405060708090a0b0c0d0e0f")
		genLeadingZeroChildren(vseed, nil, span, per, emit)
		genLeadingZeroChildren(vseed, []uint32{44 + 1<<31, 1 << 31, 1 << 31, 0}, span, per, emit)
		genLeadingZeroChildren(r.Bytes(32), []uint32{randIdx(r)}, span, per, emit)
	}
	// textual paths
	for _, p := range []string{"m", "m/0", "m/0'", "m/44'/8000'/0'/0/0", "m/2147483647'", "m/2147483648", "m/4294967295", "m/4294967296", "m/-1", "m/0''", "m/'",
		"M/0", "", "/", "m/", "m//0", "m/m", "0/1", "m/0x10", "m/ 1", "m/1 ", "m/00000000000000000001", "m/+1", "m/0'/1/2'/2/1000000000"} {
		emit("pathstr " + Hex([]byte("0123456789abcdef0123")) + " " + Hex([]byte(p)))
	}
	// ---- BIP44
	for i := 0; i < 4*scale; i++ {
		seed := r.Bytes(64)
		if r.Chance(20) {
			seed = r.Bytes(16 + r.Intn(49))
		}
		coin := []uint64{0, 1, 8000, 1<<31 - 1, 1 << 31, 1<<32 - 1}[r.Intn(6)]
		acct := []uint64{0, 1, 2, 1<<31 - 1, 1 << 31, 1<<32 - 1}[r.Intn(6)]
		emit("bip44 " + Hex(seed) + " " + strconv.FormatUint(coin, 10) + " " + strconv.FormatUint(acct, 10) + " " + strconv.Itoa(r.Intn(2)) + " " + strconv.FormatUint(uint64(randIdx(r)), 10))
	}
	emit("bip44 " + Hex(r.Bytes(10)) + " 8000 0 0 0")
}

func main() { Main(&Prop{Gen: gen, Exec: exec}) }
