package main

// C12: spend construction.  Real functions: transaction.Create, ChooseSpendsMinimizeUxOuts,
// DistributeCoinHoursProportional, DistributeSpendHours, coin.Transaction.VerifyUnsigned.
//
//	create bf=<n> head=<t> typ=<s> mode=<s> share=<num/exp|-> change=<addr|-> to=<addr:coins:hours,..> ux=<hash:bkseq:time:addr:coins:hours:src,..>
//	  -> ok ins=<hash,..> outs=<addr:coins:hours,..> verify=<ok|...>   |  err <kind>
//	choose bf=<n> coins=<c> hours=<h> ux=<hash:bkseq:addr:coins:hours,..>   -> ok <hash,..> | err <kind> | panic
//	prop hours=<h> coins=<c,..>                                            -> ok <h,..> | err <kind>
//	dsh bf=<n> in=<h> n=<k> change=<0|1>                                   -> ok change=<h> addrs=<h,..> total=<h> | panic
//
// addr = hex of key(20)‖version(1); hash = uxid (read back: it is a function of the other ux
// fields and recomputed when an op is executed); `-` = empty list / nil.

import (
	"encoding/hex"
	"fmt"
	"sort"
	"strconv"
	"strings"

	"github.com/shopspring/decimal"

	. "verif/harness/hlib"

	"github.com/skycoin/skycoin/src/cipher"
	"github.com/skycoin/skycoin/src/coin"
	"github.com/skycoin/skycoin/src/params"
	"github.com/skycoin/skycoin/src/transaction"
	"github.com/skycoin/skycoin/src/util/fee"
	"github.com/skycoin/skycoin/src/util/mathutil"
)

var userErrs = map[error]string{}
var plainErrs = map[error]string{
	fee.ErrTxnNoFee:                            "ErrTxnNoFee",
	fee.ErrTxnInsufficientCoinHours:            "ErrTxnInsufficientCoinHours",
	mathutil.ErrUint64AddOverflow:              "ErrUint64AddOverflow",
	mathutil.ErrUint64OverflowsInt64:           "ErrUint64OverflowsInt64",
	mathutil.ErrInt64UnderflowsUint64:          "ErrInt64UnderflowsUint64",
	coin.ErrAddEarnedCoinHoursAdditionOverflow: "ErrAddEarnedCoinHoursAdditionOverflow",
}

func init() {
	for n, e := range map[string]error{
		"ErrInsufficientBalance": transaction.ErrInsufficientBalance, "ErrInsufficientHours": transaction.ErrInsufficientHours,
		"ErrZeroSpend": transaction.ErrZeroSpend, "ErrNoUnspents": transaction.ErrNoUnspents,
		"ErrNullChangeAddress": transaction.ErrNullChangeAddress, "ErrMissingReceivers": transaction.ErrMissingReceivers,
		"ErrZeroCoinsReceiver": transaction.ErrZeroCoinsReceiver, "ErrNullAddressReceiver": transaction.ErrNullAddressReceiver,
		"ErrDuplicateReceiver": transaction.ErrDuplicateReceiver, "ErrReceiverZeroHoursAuto": transaction.ErrReceiverZeroHoursAuto,
		"ErrMissingHoursSelectionModeAuto": transaction.ErrMissingHoursSelectionModeAuto,
		"ErrInvalidHoursSelelectionMode":   transaction.ErrInvalidHoursSelelectionMode,
		"ErrInvalidHoursSelectionModeManual": transaction.ErrInvalidHoursSelectionModeManual,
		"ErrInvalidHoursSelectionType":       transaction.ErrInvalidHoursSelectionType,
		"ErrMissingShareFactor":              transaction.ErrMissingShareFactor,
		"ErrInvalidShareFactor":              transaction.ErrInvalidShareFactor,
		"ErrShareFactorOutOfRange":           transaction.ErrShareFactorOutOfRange,
	} {
		userErrs[e] = n
	}
}

func errKind(err error) string {
	if n, ok := userErrs[err]; ok {
		return "Error(" + n + ")"
	}
	if _, ok := err.(transaction.Error); ok {
		// added by the F11 repair; matched by text so that the harness also builds against a tree without it
		if err.Error() == "change output duplicates a To output" {
			return "Error(ErrChangeDuplicatesReceiver)"
		}
		return "Error(other)"
	}
	if n, ok := plainErrs[err]; ok {
		return n
	}
	return "other"
}

func kv(f []string) map[string]string {
	m := map[string]string{}
	for _, w := range f[1:] {
		if i := strings.IndexByte(w, '='); i >= 0 {
			m[w[:i]] = w[i+1:]
		}
	}
	return m
}

func list(s string) []string {
	if s == "-" || s == "" {
		return nil
	}
	return strings.Split(s, ",")
}

func addrOf(s string) cipher.Address {
	b, err := hex.DecodeString(s)
	if err != nil || len(b) != 21 {
		panic("harness: bad address " + s)
	}
	var a cipher.Address
	copy(a.Key[:], b[:20])
	a.Version = b[20]
	return a
}

func addrStr(a cipher.Address) string {
	return hex.EncodeToString(append(append([]byte{}, a.Key[:]...), a.Version))
}

func u64(s string) uint64 { return PU64(s) }

func sha(s string) cipher.SHA256 {
	b, err := hex.DecodeString(s)
	if err != nil || len(b) != 32 {
		panic("harness: bad hash " + s)
	}
	var h cipher.SHA256
	copy(h[:], b)
	return h
}

func setBF(s string) func() {
	old := params.UserVerifyTxn.BurnFactor
	params.UserVerifyTxn.BurnFactor = uint32(u64(s))
	return func() { params.UserVerifyTxn.BurnFactor = old }
}

func outsStr(outs []coin.TransactionOutput) string {
	if len(outs) == 0 {
		return "-"
	}
	var p []string
	for _, o := range outs {
		p = append(p, fmt.Sprintf("%s:%d:%d", addrStr(o.Address), o.Coins, o.Hours))
	}
	return strings.Join(p, ",")
}

func execCreate(f []string) string {
	m := kv(f)
	defer setBF(m["bf"])()
	var p transaction.Params
	p.HoursSelection.Type = m["typ"]
	p.HoursSelection.Mode = m["mode"]
	if m["typ"] == "-" {
		p.HoursSelection.Type = ""
	}
	if m["mode"] == "-" {
		p.HoursSelection.Mode = ""
	}
	if m["share"] != "-" {
		ne := strings.Split(m["share"], "/")
		n := PI64(ne[0])
		e := PI64(ne[1])
		d := decimal.New(n, int32(-e))
		p.HoursSelection.ShareFactor = &d
	}
	if m["change"] != "-" {
		a := addrOf(m["change"])
		p.ChangeAddress = &a
	}
	for _, t := range list(m["to"]) {
		x := strings.Split(t, ":")
		p.To = append(p.To, coin.TransactionOutput{Address: addrOf(x[0]), Coins: u64(x[1]), Hours: u64(x[2])})
	}
	auxs := coin.AddressUxOuts{}
	for _, t := range list(m["ux"]) {
		x := strings.Split(t, ":")
		ux := coin.UxOut{Head: coin.UxHead{BkSeq: u64(x[1]), Time: u64(x[2])},
			Body: coin.UxBody{Address: addrOf(x[3]), Coins: u64(x[4]), Hours: u64(x[5]), SrcTransaction: sha(x[6])}}
		auxs[ux.Body.Address] = append(auxs[ux.Body.Address], ux)
	}
	txn, inputs, err := transaction.Create(p, auxs, u64(m["head"]))
	if err != nil {
		return "err " + errKind(err)
	}
	var ins []string
	for _, h := range txn.In {
		ins = append(ins, h.Hex())
	}
	// the inputs array returned next to the transaction must be the offered outputs behind txn.In
	inOK := len(inputs) == len(txn.In)
	for i := range inputs {
		if inOK && inputs[i].Hash != txn.In[i] {
			inOK = false
		}
	}
	v := "ok"
	if err := txn.VerifyUnsigned(); err != nil {
		v = strings.Replace(err.Error(), " ", "_", -1)
	}
	if !inOK {
		v += "+inputs-mismatch"
	}
	return fmt.Sprintf("ok ins=%s outs=%s verify=%s", strings.Join(ins, ","), outsStr(txn.Out), v)
}

func execChoose(f []string) string {
	m := kv(f)
	defer setBF(m["bf"])()
	var uxb []transaction.UxBalance
	for _, t := range list(m["ux"]) {
		x := strings.Split(t, ":")
		uxb = append(uxb, transaction.UxBalance{Hash: sha(x[0]), BkSeq: u64(x[1]), Address: addrOf(x[2]), Coins: u64(x[3]), Hours: u64(x[4])})
	}
	sp, err := transaction.ChooseSpendsMinimizeUxOuts(uxb, u64(m["coins"]), u64(m["hours"]))
	if err != nil {
		return "err " + errKind(err)
	}
	var hs []string
	for _, s := range sp {
		hs = append(hs, s.Hash.Hex())
	}
	return "ok " + strings.Join(hs, ",")
}

func execProp(f []string) string {
	m := kv(f)
	var coins []uint64
	for _, c := range list(m["coins"]) {
		coins = append(coins, u64(c))
	}
	hs, err := transaction.DistributeCoinHoursProportional(coins, u64(m["hours"]))
	if err != nil {
		return "err " + errKind(err)
	}
	var p []string
	for _, h := range hs {
		p = append(p, strconv.FormatUint(h, 10))
	}
	return "ok " + strings.Join(p, ",")
}

func execDsh(f []string) string {
	m := kv(f)
	defer setBF(m["bf"])()
	ch, ah, tot := transaction.DistributeSpendHours(u64(m["in"]), u64(m["n"]), m["change"] == "1")
	var p []string
	for _, h := range ah {
		p = append(p, strconv.FormatUint(h, 10))
	}
	a := strings.Join(p, ",")
	if a == "" {
		a = "-"
	}
	return fmt.Sprintf("ok change=%d addrs=%s total=%d", ch, a, tot)
}

func c12Exec(op string) string {
	f := Fields(op)
	switch f[0] {
	case "create":
		return execCreate(f)
	case "choose":
		return execChoose(f)
	case "prop":
		return execProp(f)
	case "dsh":
		return execDsh(f)
	}
	panic("harness: unknown op " + f[0])
}

// ---------------------------------------------------------------------------------------------

type gux struct {
	bkSeq, time uint64
	addr        cipher.Address
	coins, hrs  uint64
	src         cipher.SHA256
}

func (g gux) ux() coin.UxOut {
	return coin.UxOut{Head: coin.UxHead{BkSeq: g.bkSeq, Time: g.time},
		Body: coin.UxBody{Address: g.addr, Coins: g.coins, Hours: g.hrs, SrcTransaction: g.src}}
}

func (g gux) str() string {
	u := g.ux()
	return fmt.Sprintf("%s:%d:%d:%s:%d:%d:%s", u.Hash().Hex(), g.bkSeq, g.time, addrStr(g.addr), g.coins, g.hrs, g.src.Hex())
}

func rAddr(r *Rng) cipher.Address {
	var a cipher.Address
	copy(a.Key[:], r.Bytes(20))
	return a
}

func rSha(r *Rng) cipher.SHA256 {
	var h cipher.SHA256
	copy(h[:], r.Bytes(32))
	return h
}

type req struct {
	bf                 int
	head               uint64
	typ, mode, share   string
	change             string
	to                 []coin.TransactionOutput
	uxs                []gux
}

func (q req) op() string {
	var ux []string
	for _, g := range q.uxs {
		ux = append(ux, g.str())
	}
	u := strings.Join(ux, ",")
	if u == "" {
		u = "-"
	}
	return fmt.Sprintf("create bf=%d head=%d typ=%s mode=%s share=%s change=%s to=%s ux=%s", q.bf, q.head, q.typ, q.mode, q.share, q.change,
		outsStr(q.to), u)
}

const droplet = 1000000

func coinsAmt(r *Rng) uint64 {
	switch r.Intn(6) {
	case 0:
		return droplet
	case 1:
		return uint64(1+r.Intn(5)) * droplet
	case 2:
		return uint64(1 + r.Intn(3))
	case 3:
		return uint64(1+r.Intn(1000)) * 1000
	}
	return uint64(1+r.Intn(50)) * droplet
}

func hoursAmt(r *Rng) uint64 {
	switch r.Intn(6) {
	case 0, 1:
		return 0
	case 2:
		return uint64(1 + r.Intn(3))
	case 3:
		return uint64(r.Intn(30))
	}
	return uint64(r.Intn(2000))
}

func genReq(r *Rng) req {
	q := req{bf: 10, head: 1000000 + uint64(r.Intn(100000))}
	switch r.Intn(10) {
	case 0:
		q.bf = 2
	case 1:
		q.bf = 3
	case 2:
		q.bf = 100
	}
	nOwners := 1 + r.Intn(4)
	owners := make([]cipher.Address, nOwners)
	for i := range owners {
		owners[i] = rAddr(r)
	}
	n := 1 + r.Intn(12)
	dupKeys := r.Chance(25)
	for i := 0; i < n; i++ {
		g := gux{bkSeq: uint64(1 + r.Intn(50)), addr: owners[r.Intn(nOwners)], coins: coinsAmt(r), hrs: hoursAmt(r), src: rSha(r)}
		// time: mostly equal to head (no accrued hours), sometimes older (hours accrue)
		switch r.Intn(4) {
		case 0:
			g.time = q.head - uint64(r.Intn(200000))
		case 1:
			g.time = q.head + uint64(r.Intn(10))
		default:
			g.time = q.head
		}
		if dupKeys && i > 0 && r.Chance(60) { // equal sort keys: tie-breaks by bkSeq / hash
			g.coins, g.hrs, g.time = q.uxs[0].coins, q.uxs[0].hrs, q.uxs[0].time
			if r.Bool() {
				g.bkSeq = q.uxs[0].bkSeq
			}
		}
		if r.Chance(3) {
			g.bkSeq = 0
			g.src = cipher.SHA256{}
		}
		q.uxs = append(q.uxs, g)
	}
	var totC, totH uint64
	for _, g := range q.uxs {
		totC += g.coins
		u := g.ux()
		h, _ := u.CoinHours(q.head)
		totH += h
	}
	nTo := 1 + r.Intn(5)
	if r.Chance(40) {
		nTo = 1
	}
	manual := r.Bool()
	if manual {
		q.typ, q.mode, q.share = "manual", "-", "-"
	} else {
		q.typ, q.mode = "auto", "share"
		q.share = []string{"0/0", "1/3", "5/1", "1/0", "25/2", "999/3", "10/1", "1/1"}[r.Intn(8)]
	}
	// amounts: mostly coverable, sometimes exactly everything, sometimes too much
	budget := totC
	switch r.Intn(6) {
	case 0:
		budget = totC + uint64(1+r.Intn(3))
	case 1:
		budget = totC // exact: no change coins
	case 2:
		if len(q.uxs) > 0 {
			budget = q.uxs[r.Intn(len(q.uxs))].coins // exactly one output's coins
		}
	default:
		budget = 1 + uint64(r.Intn(int(totC%1000000000)+1))
	}
	rem := budget
	for i := 0; i < nTo && rem > 0; i++ {
		c := rem
		if i < nTo-1 {
			c = 1 + uint64(r.Intn(int(rem%1000000000)+1))%rem
		}
		if c == 0 {
			c = 1
		}
		rem -= c
		o := coin.TransactionOutput{Address: rAddr(r), Coins: c}
		if r.Chance(20) {
			o.Address = owners[r.Intn(nOwners)]
		}
		if manual {
			switch r.Intn(4) {
			case 0:
				o.Hours = 0
			case 1:
				o.Hours = totH / uint64(nTo*2+1)
			case 2:
				o.Hours = uint64(r.Intn(int(totH%100000) + 1))
			case 3:
				o.Hours = totH
			}
		}
		q.to = append(q.to, o)
	}
	switch r.Intn(5) {
	case 0:
		q.change = "-"
	case 1:
		q.change = addrStr(owners[r.Intn(nOwners)])
	case 2:
		if len(q.to) > 0 {
			q.change = addrStr(q.to[r.Intn(len(q.to))].Address)
		} else {
			q.change = "-"
		}
	default:
		q.change = addrStr(rAddr(r))
	}
	return q
}

// changeEqualsDestination builds the F11 class: a request whose change output is identical to a destination output.
func changeEqualsDestination(r *Rng, auto bool) req {
	q := req{bf: 10, head: 5000000}
	owner, dst := rAddr(r), rAddr(r)
	c := uint64(1+r.Intn(20)) * droplet
	h := uint64(100 + r.Intn(1000)*2)
	q.uxs = []gux{{bkSeq: 3, time: q.head, addr: owner, coins: 2 * c, hrs: h, src: rSha(r)}}
	rem := h - (h+9)/10
	if auto {
		// share 0.5: destination gets floor(rem/2) (+ top-up), change gets the rest
		q.typ, q.mode, q.share = "auto", "share", "5/1"
		q.to = []coin.TransactionOutput{{Address: dst, Coins: c}}
	} else {
		q.typ, q.mode, q.share = "manual", "-", "-"
		q.to = []coin.TransactionOutput{{Address: dst, Coins: c, Hours: rem / 2}}
		if rem%2 == 1 {
			q.to[0].Hours = rem - rem/2 - 1 // off by one: not a duplicate
		}
	}
	q.change = addrStr(dst)
	return q
}

func atMaxHours(r *Rng, emit func(string)) {
	bf := []int{10, 10, 10, 2, 3, 7, 100}[r.Intn(7)]
	k := 2 + r.Intn(5)
	head := uint64(2000000)
	owner := rAddr(r)
	var uxs []gux
	var totC, totH uint64
	var cu []string
	for j := 0; j < k; j++ {
		h := uint64(1 + r.Intn(3*bf))
		if h%uint64(bf) == 0 {
			h++
		}
		if j > 0 && r.Chance(40) {
			h = uxs[0].hrs // the smallest seeded case: equal small hours (three outputs of 5 hours, bf 10)
		}
		g := gux{bkSeq: uint64(1 + r.Intn(9)), time: head, addr: owner, coins: coinsAmt(r), hrs: h, src: rSha(r)}
		if r.Chance(20) {
			g.addr = rAddr(r)
		}
		uxs = append(uxs, g)
		totC += g.coins
		totH += h
		u := g.ux()
		cu = append(cu, fmt.Sprintf("%s:%d:%s:%d:%d", u.Hash().Hex(), g.bkSeq, addrStr(g.addr), g.coins, g.hrs))
	}
	maxSend := totH - (totH+uint64(bf)-1)/uint64(bf)
	for _, d := range []int64{0, 1, 2, 3, -1} {
		want := int64(maxSend) - d
		if want <= 0 {
			continue
		}
		coins := totC
		switch r.Intn(3) {
		case 0:
			coins = totC - totC/3 // leaves change coins
		case 1:
			coins = 1 + totC/2
		}
		q := req{bf: bf, head: head, typ: "manual", mode: "-", share: "-", change: addrStr(rAddr(r)), uxs: uxs}
		if r.Bool() || coins < 2 || want < 2 {
			q.to = []coin.TransactionOutput{{Address: rAddr(r), Coins: coins, Hours: uint64(want)}}
		} else {
			a := 1 + uint64(r.Intn(int(want-1)))
			q.to = []coin.TransactionOutput{{Address: rAddr(r), Coins: coins / 2, Hours: a},
				{Address: rAddr(r), Coins: coins - coins/2, Hours: uint64(want) - a}}
		}
		emit(q.op())
		emit(fmt.Sprintf("choose bf=%d coins=%d hours=%d ux=%s", bf, coins, want, strings.Join(cu, ",")))
	}
}

func c12Gen(r *Rng, tier string, emit func(string)) {
	n := 2500
	if tier == "thorough" {
		n = 120000
	}
	// the documented witness of F11 and its neighbours
	a, o := rAddr(r), rAddr(r)
	w := req{bf: 10, head: 100, typ: "manual", mode: "-", share: "-", change: addrStr(a),
		to:  []coin.TransactionOutput{{Address: a, Coins: 1 * droplet, Hours: 45}},
		uxs: []gux{{bkSeq: 1, time: 100, addr: o, coins: 2 * droplet, hrs: 100, src: rSha(r)}}}
	emit(w.op())
	w.to[0].Hours = 44
	emit(w.op())
	w.to[0].Hours = 46
	emit(w.op())
	for i := 0; i < 40; i++ {
		emit(changeEqualsDestination(r, i%2 == 0).op())
	}
	// validation matrix
	for _, typ := range []string{"manual", "auto", "-", "bogus"} {
		for _, mode := range []string{"-", "share", "bogus"} {
			for _, share := range []string{"-", "5/1", "-1/1", "11/1", "1/0", "0/0"} {
				q := genReq(r)
				q.typ, q.mode, q.share = typ, mode, share
				if typ == "auto" && r.Bool() {
					for i := range q.to {
						q.to[i].Hours = 0
					}
				}
				emit(q.op())
			}
		}
	}
	for i := 0; i < 30; i++ {
		q := genReq(r)
		switch i % 6 {
		case 0:
			q.to = nil
		case 1:
			q.to[0].Coins = 0
		case 2:
			q.to[0].Address = cipher.Address{}
		case 3:
			q.to = append(q.to, q.to[0])
		case 4:
			q.change = addrStr(cipher.Address{})
		case 5:
			q.uxs = nil
		}
		emit(q.op())
	}
	// overflow corners
	for i := 0; i < 20; i++ {
		q := genReq(r)
		switch i % 5 {
		case 0:
			q.to = append(q.to, coin.TransactionOutput{Address: rAddr(r), Coins: 1<<64 - 1})
		case 1:
			if q.typ == "manual" {
				q.to = append(q.to, coin.TransactionOutput{Address: rAddr(r), Coins: 1, Hours: 1<<64 - 1})
			}
		case 2:
			q.uxs = append(q.uxs, gux{bkSeq: 2, time: q.head, addr: rAddr(r), coins: 1<<64 - 1, hrs: 5, src: rSha(r)})
		case 3:
			q.uxs = append(q.uxs, gux{bkSeq: 2, time: q.head, addr: rAddr(r), coins: 7, hrs: 1<<64 - 1, src: rSha(r)})
		case 4:
			q.uxs = append(q.uxs, gux{bkSeq: 2, time: 0, addr: rAddr(r), coins: 1 << 62, hrs: 1, src: rSha(r)})
		}
		emit(q.op())
	}
	for i := 0; i < n; i++ {
		emit(genReq(r).op())
	}
	// completeness at the boundary: manual-hours requests exactly AT the maximum sendable hours
	// (total - ceil(total/bf), the fee is charged once on the total) and 1..3 below / 1 above it,
	// over 2-6 offered outputs whose hours are small and not multiples of the burn factor
	for i := 0; i < n/8+40; i++ {
		atMaxHours(r, emit)
	}

	// ChooseSpends directly
	for i := 0; i < n/2; i++ {
		k := r.Intn(9)
		var ux []string
		var totC, totH uint64
		base := transaction.UxBalance{Coins: coinsAmt(r), Hours: hoursAmt(r), BkSeq: uint64(r.Intn(5))}
		for j := 0; j < k; j++ {
			b := transaction.UxBalance{Hash: rSha(r), BkSeq: uint64(r.Intn(5)), Address: rAddr(r), Coins: coinsAmt(r), Hours: hoursAmt(r)}
			if r.Chance(30) {
				b.Coins, b.Hours = base.Coins, base.Hours
			}
			if i%50 == 49 && j == 0 {
				b.Coins = 0
			}
			totC += b.Coins
			totH += b.Hours
			ux = append(ux, fmt.Sprintf("%s:%d:%s:%d:%d", b.Hash.Hex(), b.BkSeq, addrStr(b.Address), b.Coins, b.Hours))
		}
		u := strings.Join(ux, ",")
		if u == "" {
			u = "-"
		}
		bf := []int{2, 3, 10, 10, 10, 100}[r.Intn(6)]
		var c, h uint64
		switch r.Intn(5) {
		case 0:
			c = totC
		case 1:
			c = totC + 1
		case 2:
			c = 0
		default:
			c = 1 + uint64(r.Intn(int(totC%1000000000)+1))
		}
		rem := totH - (totH+uint64(bf)-1)/uint64(bf)
		switch r.Intn(5) {
		case 0:
			h = rem
		case 1:
			h = rem + 1
		case 2:
			h = 0
		default:
			h = uint64(r.Intn(int(totH%100000) + 1))
		}
		emit(fmt.Sprintf("choose bf=%d coins=%d hours=%d ux=%s", bf, c, h, u))
	}

	// DistributeCoinHoursProportional
	emit("prop hours=10 coins=-")
	emit("prop hours=10 coins=0")
	emit("prop hours=10 coins=5,0")
	emit("prop hours=0 coins=5,7")
	emit(fmt.Sprintf("prop hours=%d coins=1", uint64(1)<<63))
	emit(fmt.Sprintf("prop hours=%d coins=1,1", uint64(1)<<63-1))
	emit(fmt.Sprintf("prop hours=5 coins=%d", uint64(1)<<63))
	emit(fmt.Sprintf("prop hours=5 coins=%d,%d", uint64(1)<<62, uint64(1)<<62))
	emit(fmt.Sprintf("prop hours=5 coins=%d,%d", uint64(1)<<63, uint64(1)<<63))
	emit(fmt.Sprintf("prop hours=5 coins=%d,0", uint64(1)<<63))
	for i := 0; i < n; i++ {
		k := 1 + r.Intn(8)
		var cs []string
		for j := 0; j < k; j++ {
			c := coinsAmt(r)
			if r.Chance(10) {
				c = r.U64Mixed()>>1 | 1
			}
			cs = append(cs, strconv.FormatUint(c, 10))
		}
		h := uint64(r.Intn(30))
		switch r.Intn(4) {
		case 0:
			h = uint64(r.Intn(100000))
		case 1:
			h = r.U64Mixed() >> 1
		}
		emit(fmt.Sprintf("prop hours=%d coins=%s", h, strings.Join(cs, ",")))
	}

	// DistributeSpendHours
	for i := 0; i < n/2; i++ {
		in := uint64(r.Intn(500))
		if r.Chance(20) {
			in = r.U64Mixed()
		}
		emit(fmt.Sprintf("dsh bf=%d in=%d n=%d change=%d", []int{2, 3, 10, 100}[r.Intn(4)], in, 1+r.Intn(7), r.Intn(2)))
	}
	emit("dsh bf=10 in=100 n=0 change=1")
}

func main() {
	Main(&Prop{Gen: c12Gen, Exec: c12Exec})
}

var _ = sort.Strings
