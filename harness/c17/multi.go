package main

// Multi-account bip44 wallets (m/44'/coin'/a'/c/i for a in {0,1}, c in {external, change}).
//
//	resetm <seedhex> <M>                       -> ok r00=.. r01=.. r10=.. r11=.. a00=.. a01=.. a10=.. a11=..
//	mgen <account> <chain> <n>                  -> ok new=.. a00=.. …
//	mscan <n> <set00> <set01> <set10> <set11>   -> ok new=<returned> a00=.. …   (sets: active reference indexes per account/chain)
//	mscanfail <n> | mreload | mlock | munlock   -> ok|err a00=.. …
//	mverify                                     -> ok consistent | bad…
//
// r<a><c> is the reference: the first M addresses of account a, chain c, derived in ONE batch by a
// fresh never-locked wallet of the same seed.

import (
	"fmt"
	"strings"

	. "verif/harness/hlib"

	"github.com/skycoin/skycoin/src/cipher"
	"github.com/skycoin/skycoin/src/wallet"
	"github.com/skycoin/skycoin/src/wallet/bip44wallet"
)

type mstate struct {
	w      wallet.Wallet
	idx    [2][2]map[string]int
	ref    map[string]wallet.Entry
	locked bool
}

var mcur *mstate

func chainOpt(c int) wallet.Option {
	if c == 1 {
		return wallet.OptionChange()
	}
	return wallet.OptionExternal()
}

func mEntries(w wallet.Wallet, a, c int) []cipher.Addresser {
	return entriesOf(w, wallet.OptionAccount(uint32(a)), chainOpt(c))
}

func (s *mstate) view() string {
	var p []string
	for a := 0; a < 2; a++ {
		for c := 0; c < 2; c++ {
			p = append(p, fmt.Sprintf("a%d%d=%s", a, c, abAddrs(mEntries(s.w, a, c))))
		}
	}
	return strings.Join(p, " ")
}

func twoAccounts(seed []byte, n int) wallet.Wallet {
	w := fresh("bip44", seed, n)
	_, err := w.(*bip44wallet.Wallet).NewAccount("second")
	must(err)
	return w
}

func mReset(seed []byte, M int) string {
	s := &mstate{ref: map[string]wallet.Entry{}}
	ref := twoAccounts(seed, M) // account 0: M external, 1 change
	gen := func(a, c, n int) {
		_, err := ref.GenerateAddresses(wallet.OptionGenerateN(uint64(n)), wallet.OptionAccount(uint32(a)), chainOpt(c))
		must(err)
	}
	gen(0, 1, M-1)
	gen(1, 0, M)
	gen(1, 1, M)
	out := "ok"
	for a := 0; a < 2; a++ {
		for c := 0; c < 2; c++ {
			s.idx[a][c] = map[string]int{}
			es, err := ref.GetEntries(wallet.OptionAccount(uint32(a)), chainOpt(c))
			must(err)
			var as []cipher.Addresser
			for i, e := range es {
				s.idx[a][c][e.Address.String()] = i
				s.ref[e.Address.String()] = e
				as = append(as, e.Address)
			}
			out += fmt.Sprintf(" r%d%d=%s", a, c, abAddrs(as))
		}
	}
	s.w = twoAccounts(seed, 1)
	mcur = s
	return out + " " + s.view()
}

type mfinder struct {
	s    *mstate
	sets [2][2]map[int]bool
}

func (f mfinder) AddressesActivity(addrs []cipher.Addresser) ([]bool, error) {
	out := make([]bool, len(addrs))
	for i, ad := range addrs {
		for a := 0; a < 2; a++ {
			for c := 0; c < 2; c++ {
				if j, ok := f.s.idx[a][c][ad.String()]; ok && f.sets[a][c][j] {
					out[i] = true
				}
			}
		}
	}
	return out, nil
}

func mExec(f []string) string {
	s := mcur
	switch f[0] {
	case "resetm":
		return mReset(PHex(f[1]), int(PU64(f[2])))
	case "mgen":
		a, c := int(PU64(f[1])), int(PU64(f[2]))
		as, err := s.w.GenerateAddresses(wallet.OptionGenerateN(PU64(f[3])), wallet.OptionAccount(uint32(a)), chainOpt(c))
		if err != nil {
			return "err " + s.view()
		}
		return "ok new=" + abAddrs(as) + " " + s.view()
	case "mscan":
		fd := mfinder{s: s}
		fd.sets[0][0], fd.sets[0][1], fd.sets[1][0], fd.sets[1][1] = idxSet(f[2]), idxSet(f[3]), idxSet(f[4]), idxSet(f[5])
		as, err := s.w.ScanAddresses(PU64(f[1]), fd)
		if err != nil {
			return "err " + s.view()
		}
		return "ok new=" + abAddrs(as) + " " + s.view()
	case "mscanfail":
		_, err := s.w.ScanAddresses(PU64(f[1]), failingFinder{})
		if err != nil {
			return "err " + s.view()
		}
		return "ok new=- " + s.view()
	case "mreload":
		b, err := s.w.Serialize()
		must(err)
		w, err := (&bip44wallet.Loader{}).Load(b)
		if err != nil {
			return "err load"
		}
		s.w = w
		return "ok " + s.view()
	case "mlock":
		if err := s.w.Lock([]byte("pw")); err != nil {
			return "err lock"
		}
		s.locked = true
		return "ok " + s.view()
	case "munlock":
		w, err := s.w.Unlock([]byte("pw"))
		if err != nil {
			return "err unlock"
		}
		s.w, s.locked = w, false
		return "ok " + s.view()
	case "mverify":
		for a := 0; a < 2; a++ {
			for c := 0; c < 2; c++ {
				es, err := s.w.GetEntries(wallet.OptionAccount(uint32(a)), chainOpt(c))
				must(err)
				for i, e := range es {
					var err error
					if s.locked {
						err = e.VerifyPublic()
					} else {
						err = e.Verify()
					}
					if err != nil {
						return fmt.Sprintf("bad a%d%d/%d", a, c, i)
					}
					r, ok := s.ref[e.Address.String()]
					if !ok || r.Public != e.Public || s.idx[a][c][e.Address.String()] != i {
						return fmt.Sprintf("bad-ref a%d%d/%d", a, c, i)
					}
					if !s.locked && r.Secret != e.Secret {
						return fmt.Sprintf("bad-secret a%d%d/%d", a, c, i)
					}
				}
			}
		}
		return "ok consistent"
	}
	panic("harness: unknown op " + f[0])
}

func mGen(r *Rng, cases int, emit func(string)) {
	for c := 0; c < cases; c++ {
		M := 8 + r.Intn(8)
		emit(fmt.Sprintf("resetm %s %d", Hex(r.Bytes(16)), M))
		n := [2][2]int{{1, 1}, {0, 0}}
		locked := false
		nops := 5 + r.Intn(9)
		for i := 0; i < nops; i++ {
			switch r.Intn(9) {
			case 0, 1, 2:
				a, ch, k := r.Intn(2), r.Intn(2), r.Intn(4)
				if n[a][ch]+k <= M {
					emit(fmt.Sprintf("mgen %d %d %d", a, ch, k))
					n[a][ch] += k
				}
			case 3, 4, 5:
				k := r.Intn(5)
				fits := true
				for a := 0; a < 2; a++ {
					for ch := 0; ch < 2; ch++ {
						if n[a][ch]+k > M {
							fits = false
						}
					}
				}
				if !fits {
					continue
				}
				var sets []string
				var keeps [2][2]int
				for a := 0; a < 2; a++ {
					for ch := 0; ch < 2; ch++ {
						var xs []string
						for j := 0; j < k; j++ {
							if r.Chance(25) {
								xs = append(xs, fmt.Sprint(n[a][ch]+j))
								keeps[a][ch] = j + 1
							}
						}
						if len(xs) == 0 {
							sets = append(sets, "-")
						} else {
							sets = append(sets, strings.Join(xs, ","))
						}
					}
				}
				emit(fmt.Sprintf("mscan %d %s", k, strings.Join(sets, " ")))
				if k > 0 {
					for a := 0; a < 2; a++ {
						for ch := 0; ch < 2; ch++ {
							n[a][ch] += keeps[a][ch]
						}
					}
				}
			case 6:
				emit("mreload")
			case 7:
				if locked {
					emit("munlock")
					emit("mverify")
				} else {
					emit("mlock")
				}
				locked = !locked
			case 8:
				emit(fmt.Sprintf("mscanfail %d", r.Intn(4)))
			}
		}
		if locked {
			emit("munlock")
		}
		emit("mverify")
	}
}
