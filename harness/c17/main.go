package main

// C17: wallet address derivation is deterministic and batch-independent.  Real wallets of all
// four types; every case starts with `reset`, which also READS BACK the reference sequence (the
// first M addresses derived in ONE batch from a fresh wallet with the same seed, and for
// deterministic wallets the lastSeed after N keys for N = 0..M).  The Lean model does the
// bookkeeping (how many entries each operation keeps) and predicts every later line from that
// reference, so a disagreement means derivation depends on the batching / scan / reload history.
//
//	reset <type> <seedhex> <M>            -> ok seq=<a,..> st=<s,..> [chg=<a,..>]
//	gen <n> [chg]                          -> ok new=<a,..> e=<a,..> last=<s> [c=<a,..>]  | err
//	scan <n> <ext active idx,..|-> <chg active idx,..|->   -> ok new=... e=... last=... [c=...]
//	reload | relock                        -> ok e=... last=... [c=...]
//	verify                                 -> ok consistent | bad <i>
//	addkeys <k> | addkeys k:<i,j,..>  (collection: the next k fresh keys | the keys with these numbers, held ones included)  -> ok new=.. want=.. e=..
//
// addresses and seeds are abbreviated to 8 characters.

import (
	"encoding/hex"
	"fmt"
	"strings"

	. "verif/harness/hlib"

	"github.com/skycoin/skycoin/src/cipher"
	"github.com/skycoin/skycoin/src/cipher/bip39"
	"github.com/skycoin/skycoin/src/cipher/bip44"
	"github.com/skycoin/skycoin/src/cipher/crypto"
	"github.com/skycoin/skycoin/src/wallet"
	"github.com/skycoin/skycoin/src/wallet/bip44wallet"
	"github.com/skycoin/skycoin/src/wallet/collection"
	"github.com/skycoin/skycoin/src/wallet/deterministic"
	"github.com/skycoin/skycoin/src/wallet/xpubwallet"
)

func must(err error) {
	if err != nil {
		panic("harness: " + err.Error())
	}
}

type state struct {
	typ  string
	seed []byte
	w    wallet.Wallet
	ext  map[string]int // reference: address -> index on the external chain / the only chain
	chg  map[string]int
	nkey int
	// reference entries (address -> entry of the UNENCRYPTED single-batch wallet of the same seed)
	ref    map[string]wallet.Entry
	locked bool
}

var cur *state

func ab(s string) string {
	if len(s) > 8 {
		return s[:8]
	}
	if s == "" {
		return "-"
	}
	return s
}

func abAddrs(as []cipher.Addresser) string {
	if len(as) == 0 {
		return "-"
	}
	var p []string
	for _, a := range as {
		p = append(p, ab(a.String()))
	}
	return strings.Join(p, ",")
}

func mnemonic(seed []byte) string {
	ent := make([]byte, 16)
	copy(ent, seed)
	m, err := bip39.NewMnemonic(ent)
	must(err)
	return m
}

// The seed STRING of the deterministic wallet of the current case.  `reset deterministic <hex> M` uses
// the hex text itself (a seed that is valid even-length hex, like the 64-hex seeds of old wallets);
// `reset deterministic s:<hex of the string's bytes> M` any other string (words, digits only, odd-length
// hex, upper-case hex ...).
var curSeedStr string

func detSeedOf(seed []byte) string {
	if curSeedStr != "" {
		return curSeedStr
	}
	return hex.EncodeToString(seed)
}

// abSeed abbreviates a lastSeed value (hex, or before the first key the seed string itself)
func abSeed(s string) string {
	b := []byte(ab(s))
	for i, c := range b {
		if !(c >= '0' && c <= '9' || c >= 'a' && c <= 'z' || c >= 'A' && c <= 'Z') {
			b[i] = '_'
		}
	}
	if len(b) == 0 {
		return "_"
	}
	return string(b)
}

// libChain: the reference for deterministic wallets comes from the cipher library, NOT from a wallet:
// the first M key pairs of cipher.GenerateDeterministicKeyPairsSeed([]byte(seed string)) and the seed
// value after n keys, n = 0..M (before the first key: the seed string)
func libChain(seedStr string, M int) (es []wallet.Entry, st []string) {
	_, secs := cipher.MustGenerateDeterministicKeyPairsSeed([]byte(seedStr), M)
	for _, sk := range secs {
		pk := cipher.MustPubKeyFromSecKey(sk)
		es = append(es, wallet.Entry{Address: cipher.AddressFromPubKey(pk), Public: pk, Secret: sk})
	}
	st = append(st, abSeed(seedStr))
	for n := 1; n <= M; n++ {
		sd, _ := cipher.MustGenerateDeterministicKeyPairsSeed([]byte(seedStr), n)
		st = append(st, abSeed(hex.EncodeToString(sd)))
	}
	return es, st
}

// btcCoin: the coin type of the bip44 / xpub wallets of the current case.  It is decided by the low bit of the
// case's seed (so the op lines and the driver need no extra field): odd first byte = a Bitcoin-coin wallet, whose
// addresses come from the Bitcoin address decoder and whose bip44 path uses coin 0.  Positions, batches and the
// bip44-vs-xpub agreement must be the same for both coin types (seeded change C17-h: xpub ScanAddresses built
// Skycoin addresses in a Bitcoin wallet).
func btcCoin(typ string, seed []byte) bool {
	return (typ == "bip44" || typ == "xpub") && len(seed) > 0 && seed[0]&1 == 1
}

func fresh(typ string, seed []byte, n int) wallet.Wallet {
	opts := []wallet.Option{wallet.OptionGenerateN(uint64(n)), wallet.OptionCryptoType(crypto.CryptoTypeSha256Xor)}
	bipCoin := bip44.CoinTypeSkycoin
	if btcCoin(typ, seed) {
		opts = append(opts, wallet.OptionCoinType(wallet.CoinTypeBitcoin))
		bipCoin = bip44.CoinTypeBitcoin
	}
	var w wallet.Wallet
	var err error
	switch typ {
	case "deterministic":
		w, err = deterministic.NewWallet("d.wlt", "label", detSeedOf(seed), opts...)
	case "bip44":
		w, err = bip44wallet.NewWallet("b.wlt", "label", mnemonic(seed), "", opts...)
	case "xpub":
		s, e := bip39.NewSeed(mnemonic(seed), "")
		must(e)
		c, e := bip44.NewCoin(s, bipCoin)
		must(e)
		acct, e := c.Account(0)
		must(e)
		ext, e := acct.External()
		must(e)
		w, err = xpubwallet.NewWallet("x.wlt", "label", ext.PublicKey().String(), opts...)
	case "collection":
		w, err = collection.NewWallet("c.wlt", "label", wallet.OptionCryptoType(crypto.CryptoTypeSha256Xor))
	default:
		panic("harness: wallet type " + typ)
	}
	must(err)
	return w
}

func entriesOf(w wallet.Wallet, opts ...wallet.Option) []cipher.Addresser {
	es, err := w.GetEntries(opts...)
	must(err)
	var as []cipher.Addresser
	for _, e := range es {
		as = append(as, e.Address)
	}
	return as
}

func (s *state) view() string {
	last := "-"
	if s.typ == "deterministic" && !s.locked {
		last = abSeed(s.w.LastSeed())
	}
	if s.typ == "bip44" {
		return fmt.Sprintf("e=%s last=%s c=%s", abAddrs(entriesOf(s.w, wallet.OptionExternal())), last, abAddrs(entriesOf(s.w, wallet.OptionChange())))
	}
	return fmt.Sprintf("e=%s last=%s", abAddrs(entriesOf(s.w)), last)
}

func doReset(typ string, seedField string, M int) string {
	curSeedStr = ""
	var seed []byte
	if strings.HasPrefix(seedField, "s:") {
		curSeedStr = string(PHex(seedField[2:]))
		h := cipher.SumSHA256([]byte(curSeedStr))
		seed = h[:16]
	} else if typ == "deterministic" {
		curSeedStr = seedField
		h := cipher.SumSHA256([]byte(curSeedStr))
		seed = h[:16]
	} else {
		seed = PHex(seedField)
	}
	s := &state{typ: typ, seed: seed, ext: map[string]int{}, chg: map[string]int{}, ref: map[string]wallet.Entry{}}
	remember := func(w wallet.Wallet) {
		es, err := w.GetEntries()
		must(err)
		for _, e := range es {
			s.ref[e.Address.String()] = e
		}
	}
	out := "ok"
	switch typ {
	case "deterministic":
		es, st := libChain(curSeedStr, M)
		var as []cipher.Addresser
		for i, e := range es {
			s.ref[e.Address.String()] = e
			s.ext[e.Address.String()] = i
			as = append(as, e.Address)
		}
		// a wallet that derives the M addresses in one batch agrees with the library (addresses, keys, lastSeed) ...
		batch := "batch=same"
		bw := fresh(typ, seed, M)
		bes, err := bw.GetEntries()
		must(err)
		if len(bes) != len(es) || abSeed(bw.LastSeed()) != st[M] {
			batch = "batch=DIFFERENT"
		}
		for i := range bes {
			if i < len(es) && (bes[i].Address.String() != es[i].Address.String() || bes[i].Public != es[i].Public || bes[i].Secret != es[i].Secret) {
				batch = "batch=DIFFERENT"
			}
		}
		// ... and so does the fingerprint of the wallet that has no address yet
		fp := "fp=same"
		if M > 0 && fresh(typ, seed, 0).Fingerprint() != "deterministic-"+es[0].Address.String() {
			fp = "fp=DIFFERENT"
		}
		out += " seq=" + abAddrs(as) + " st=" + strings.Join(st, ",") + " " + batch + " " + fp
		s.w = fresh(typ, seed, 0)
	case "bip44":
		ref := fresh(typ, seed, M)
		// the constructor generated M external (and one change) entries; extend the change chain in one batch
		_, err := ref.GenerateAddresses(wallet.OptionGenerateN(uint64(M-1)), wallet.OptionChange())
		must(err)
		remember(ref)
		ea, ca := entriesOf(ref, wallet.OptionExternal()), entriesOf(ref, wallet.OptionChange())
		for i, a := range ea {
			s.ext[a.String()] = i
		}
		for i, a := range ca {
			s.chg[a.String()] = i
		}
		out += " seq=" + abAddrs(ea) + " st=- chg=" + abAddrs(ca)
		s.w = fresh(typ, seed, 1)
	case "xpub":
		ref := fresh(typ, seed, M)
		remember(ref)
		as := entriesOf(ref)
		for i, a := range as {
			s.ext[a.String()] = i
		}
		// the watch-only wallet must derive what the seed wallet derives on its external chain
		b := fresh("bip44", seed, M)
		same := "bip44=same"
		ba := entriesOf(b, wallet.OptionExternal())
		for i := range as {
			if i >= len(ba) || ba[i].String() != as[i].String() {
				same = "bip44=DIFFERENT"
			}
		}
		out += " seq=" + abAddrs(as) + " st=- " + same
		s.w = fresh(typ, seed, 0)
	case "collection":
		out += " seq=- st=-"
		s.w = fresh(typ, seed, 0)
	}
	cur = s
	return out + " " + s.view()
}

type finder struct {
	s        *state
	ext, chg map[int]bool
}

func (f finder) AddressesActivity(addrs []cipher.Addresser) ([]bool, error) {
	out := make([]bool, len(addrs))
	for i, a := range addrs {
		if j, ok := f.s.ext[a.String()]; ok && f.ext[j] {
			out[i] = true
		}
		if j, ok := f.s.chg[a.String()]; ok && f.chg[j] {
			out[i] = true
		}
	}
	return out, nil
}

type failingFinder struct{}

func (failingFinder) AddressesActivity(addrs []cipher.Addresser) ([]bool, error) {
	return nil, fmt.Errorf("transaction finder unavailable")
}

func idxSet(s string) map[int]bool {
	m := map[int]bool{}
	if s == "-" {
		return m
	}
	for _, x := range strings.Split(s, ",") {
		m[int(PU64(x))] = true
	}
	return m
}

func c17Exec(op string) string {
	f := Fields(op)
	if strings.HasPrefix(f[0], "m") || f[0] == "resetm" {
		return mExec(f)
	}
	switch f[0] {
	case "reset":
		return doReset(f[1], f[2], int(PU64(f[3])))
	case "gen":
		opts := []wallet.Option{wallet.OptionGenerateN(PU64(f[1]))}
		if len(f) > 2 && f[2] == "chg" {
			opts = append(opts, wallet.OptionChange())
		}
		as, err := cur.w.GenerateAddresses(opts...)
		if err != nil {
			return "err " + cur.view()
		}
		return "ok new=" + abAddrs(as) + " " + cur.view()
	case "scan":
		as, err := cur.w.ScanAddresses(PU64(f[1]), finder{cur, idxSet(f[2]), idxSet(f[3])})
		if err != nil {
			return "err " + cur.view()
		}
		return "ok new=" + abAddrs(as) + " " + cur.view()
	case "scanfail": // the transaction finder returns an error: nothing may change
		n := PU64(f[1])
		var err error
		if cur.locked && cur.typ == "deterministic" {
			err = wallet.GuardUpdate(cur.w, []byte("pw"), func(w wallet.Wallet) error {
				_, err := w.ScanAddresses(n, failingFinder{})
				return err
			})
		} else {
			_, err = cur.w.ScanAddresses(n, failingFinder{})
		}
		if err != nil {
			return "err " + cur.view()
		}
		return "ok new=- " + cur.view()
	case "ggen": // what Service.NewAddresses does for a locked wallet: unlock, derive, lock again
		opts := []wallet.Option{wallet.OptionGenerateN(PU64(f[1]))}
		if len(f) > 2 && f[2] == "chg" {
			opts = append(opts, wallet.OptionChange())
		}
		var as []cipher.Addresser
		err := wallet.GuardUpdate(cur.w, []byte("pw"), func(w wallet.Wallet) error {
			var err error
			as, err = w.GenerateAddresses(opts...)
			return err
		})
		if err != nil {
			return "err " + cur.view()
		}
		return "ok new=" + abAddrs(as) + " " + cur.view()
	case "gscan":
		var as []cipher.Addresser
		err := wallet.GuardUpdate(cur.w, []byte("pw"), func(w wallet.Wallet) error {
			var err error
			as, err = w.ScanAddresses(PU64(f[1]), finder{cur, idxSet(f[2]), idxSet(f[3])})
			return err
		})
		if err != nil {
			return "err " + cur.view()
		}
		return "ok new=" + abAddrs(as) + " " + cur.view()
	case "lock":
		if err := cur.w.Lock([]byte("pw")); err != nil {
			return "err lock"
		}
		cur.locked = true
		return "ok " + cur.view()
	case "unlock":
		w, err := cur.w.Unlock([]byte("pw"))
		if err != nil {
			return "err unlock"
		}
		cur.w = w
		cur.locked = false
		return "ok " + cur.view()
	case "reload":
		b, err := cur.w.Serialize()
		must(err)
		var l wallet.Loader
		switch cur.typ {
		case "deterministic":
			l = &deterministic.Loader{}
		case "bip44":
			l = &bip44wallet.Loader{}
		case "xpub":
			l = &xpubwallet.Loader{}
		case "collection":
			l = &collection.Loader{}
		}
		w, err := l.Load(b)
		if err != nil {
			return "err load"
		}
		cur.w = w
		return "ok " + cur.view()
	case "relock":
		if cur.typ == "xpub" {
			return "ok " + cur.view()
		}
		if err := cur.w.Lock([]byte("pw")); err != nil {
			return "err lock"
		}
		w, err := cur.w.Unlock([]byte("pw"))
		if err != nil {
			return "err unlock"
		}
		cur.w = w
		return "ok " + cur.view()
	case "addkeys":
		// `addkeys <n>`: the next n fresh keys; `addkeys k:<i,j,..>`: the keys with these numbers, in this order
		// (numbers below the count handed out so far are keys the wallet already holds, a number may repeat)
		var keys []cipher.SecKey
		keyNo := func(i int) cipher.SecKey {
			_, s, err := cipher.GenerateDeterministicKeyPair(append(append([]byte{}, cur.seed...), byte(i)))
			must(err)
			return s
		}
		if strings.HasPrefix(f[1], "k:") {
			for _, x := range strings.Split(f[1][2:], ",") {
				i := int(PU64(x))
				if i >= cur.nkey {
					cur.nkey = i + 1
				}
				keys = append(keys, keyNo(i))
			}
		} else {
			for i := 0; i < int(PU64(f[1])); i++ {
				keys = append(keys, keyNo(cur.nkey))
				cur.nkey++
			}
		}
		as, err := cur.w.GenerateAddresses(wallet.OptionCollectionPrivateKeys(keys))
		if err != nil {
			return "err " + cur.view()
		}
		// collection entries are exactly the inserted keys: report them by their position
		var want []string
		for _, k := range keys {
			want = append(want, ab(cipher.MustAddressFromSecKey(k).String()))
		}
		return "ok new=" + abAddrs(as) + " want=" + strings.Join(want, ",") + " " + cur.view()
	case "verify":
		es, err := cur.w.GetEntries() // bip44: external and change chain
		must(err)
		for i, e := range es {
			var err error
			if cur.typ == "xpub" || cur.locked {
				err = e.VerifyPublic()
			} else {
				err = e.Verify() // address of pubkey, pubkey of the secret key
			}
			if err != nil {
				return fmt.Sprintf("bad %d", i)
			}
			// ... and it must be the address the WALLET'S coin type gives that public key
			if wallet.ResolveAddressDecoder(cur.w.Coin()).AddressFromPubKey(e.Public).String() != e.Address.String() {
				return fmt.Sprintf("bad-coin-addr %d", i)
			}
			// the entry must be the entry the unencrypted single-batch wallet of the same seed holds
			if cur.typ != "collection" {
				r, ok := cur.ref[e.Address.String()]
				if !ok || r.Public != e.Public {
					return fmt.Sprintf("bad-ref %d", i)
				}
				if cur.typ != "xpub" && !cur.locked && r.Secret != e.Secret {
					return fmt.Sprintf("bad-secret %d", i)
				}
			}
		}
		return "ok consistent"
	}
	panic("harness: unknown op " + f[0])
}

// detSeedField: seed strings of deterministic wallets are free-form.  Every shape a user or an old release
// produced: the 64-hex seeds of the first wallets, short hex-looking words, digits only, upper / mixed
// case hex, odd-length hex, hex with a blank, mnemonic words, arbitrary text
func detSeedField(r *Rng, c int) string {
	asStr := func(s string) string { return "s:" + Hex([]byte(s)) }
	hexOf := func(n int) string { return Hex(r.Bytes(n)) }
	words := []string{"buddy", "fossil", "side", "modify", "turtle", "door", "label", "grunt", "baby", "worth", "brush", "master", "cafe", "dead", "beef", "face", "add", "bed"}
	switch c % 12 {
	case 0:
		return hexOf(32) // 64 hex characters
	case 1:
		return hexOf(16)
	case 2:
		return []string{"12345678", "cafe", "deadbeef", "00", "0000", "abcdef", "1234", "99999999999999999999", "facade", "decade0123"}[r.Intn(10)]
	case 3:
		return asStr(strings.ToUpper(hexOf(1 + r.Intn(16)))) // upper-case hex (hex.DecodeString accepts it)
	case 4:
		h := hexOf(1 + r.Intn(16))
		return asStr(h[:len(h)-1]) // odd length: not decodable
	case 5:
		d := ""
		nd := 2 * (1 + r.Intn(10))
		for i := 0; i < nd; i++ {
			d += string(rune('0' + r.Intn(10)))
		}
		return d // digits only, even length
	case 6:
		var ws []string
		for i := 0; i < 12; i++ {
			ws = append(ws, words[r.Intn(len(words))])
		}
		return asStr(strings.Join(ws, " "))
	case 7:
		return asStr(words[12+r.Intn(6)] + words[12+r.Intn(6)]) // hex-looking words: "cafebeef", "deadadd" ...
	case 8:
		h := hexOf(4 + r.Intn(8))
		return asStr(h[:4] + []string{" ", "g", "-", "0x"}[r.Intn(4)] + h[4:]) // almost hex
	case 9:
		return asStr("0x" + hexOf(1+r.Intn(8)))
	case 10:
		// arbitrary text; valid UTF-8 only: the seed is a JSON string in the wallet file (bytes that are not
		// UTF-8 do not survive Serialize/Load - the API cannot deliver such a seed)
		alphabet := []rune("abcdefghijklmnopqrstuvwxyzABCDEF0123456789 _-.,;:!?/\\\"'<>{}äöüßéñ中文日本語🔑")
		var rs []rune
		for i, n := 0, 1+r.Intn(20); i < n; i++ {
			rs = append(rs, alphabet[r.Intn(len(alphabet))])
		}
		return asStr(strings.TrimSpace(string(rs)) + "x")
	default:
		return hexOf(1 + r.Intn(40))
	}
}

func c17Gen(r *Rng, tier string, emit func(string)) {
	cases := 40
	if tier == "thorough" {
		cases = 600
	}
	mGen(r, map[bool]int{false: 12, true: 200}[tier == "thorough"], emit)
	types := []string{"deterministic", "deterministic", "bip44", "xpub", "collection"}
	for c := 0; c < cases; c++ {
		typ := types[c%len(types)]
		M := 10 + r.Intn(15)
		if typ == "bip44" || typ == "xpub" {
			M = 8 + r.Intn(10)
		}
		seedField := Hex(r.Bytes(16))
		if typ == "deterministic" {
			seedField = detSeedField(r, c)
		}
		emit(fmt.Sprintf("reset %s %s %d", typ, seedField, M))
		if typ == "collection" {
			nk := 0 // keys handed out so far: numbers below nk are held by the wallet
			for i := 0; i < 3+r.Intn(5); i++ {
				switch r.Intn(6) {
				case 0:
					emit("reload")
				case 1:
					emit("relock")
				case 2:
					n := 1 + r.Intn(3)
					emit(fmt.Sprintf("addkeys %d", n))
					nk += n
				default:
					// a batch mixing keys the wallet holds and new ones, in every order (held first, held in the
					// middle, held last, repeated within the batch)
					var ks []string
					m := 2 + r.Intn(4)
					next := nk
					for j := 0; j < m; j++ {
						if nk > 0 && r.Chance(40) {
							ks = append(ks, fmt.Sprint(r.Intn(nk)))
						} else if j > 0 && r.Chance(10) {
							ks = append(ks, ks[r.Intn(len(ks))])
						} else {
							ks = append(ks, fmt.Sprint(next))
							next++
						}
					}
					if nk > 0 && r.Chance(40) {
						ks[0] = fmt.Sprint(r.Intn(nk)) // a held key BEFORE the new ones
					}
					emit("addkeys k:" + strings.Join(ks, ","))
					nk = next
					emit("verify")
				}
			}
			emit("verify")
			emit("relock")
			emit("verify")
			continue
		}
		// budget: entries on the (external) chain / change chain stay below M
		ne, nc := 0, 1
		if typ != "bip44" {
			nc = 0
		} else {
			ne = 1
		}
		nops := 4 + r.Intn(8)
		canLock := typ == "deterministic" || typ == "bip44"
		locked := false
		for i := 0; i < nops; i++ {
			if canLock && !locked && r.Chance(25) {
				emit("lock")
				locked = true
				continue
			}
			if locked && r.Chance(25) {
				emit("unlock")
				emit("verify")
				locked = false
				continue
			}
			if r.Chance(15) {
				emit(fmt.Sprintf("scanfail %d", r.Intn(5)))
				if r.Chance(50) {
					emit("reload")
				}
				continue
			}
			guarded := locked && (typ == "deterministic" || r.Chance(30)) // through GuardUpdate
			switch r.Intn(6) {
			case 0, 1:
				n := r.Intn(5)
				name := "gen"
				if guarded {
					name = "ggen"
				}
				if typ == "bip44" && r.Chance(45) {
					if nc+n <= M-1 {
						emit(fmt.Sprintf("%s %d chg", name, n))
						nc += n
					}
				} else if ne+n <= M {
					emit(fmt.Sprintf("%s %d", name, n))
					ne += n
				}
				if locked && typ == "deterministic" && r.Chance(20) {
					emit(fmt.Sprintf("gen %d", 1+r.Intn(3))) // refused: the wallet is encrypted
				}
			case 2, 3:
				n := r.Intn(6)
				if ne+n > M || nc+n > M-1 && typ == "bip44" {
					continue
				}
				pick := func(base int) (string, int) {
					var xs []string
					keep := 0
					for j := 0; j < n; j++ {
						if r.Chance(30) {
							xs = append(xs, fmt.Sprint(base+j))
							keep = j + 1
						}
					}
					// noise: activity on addresses outside the scanned window must not matter
					if r.Chance(30) {
						xs = append(xs, fmt.Sprint(base+n+1))
					}
					if len(xs) == 0 {
						return "-", 0
					}
					return strings.Join(xs, ","), keep
				}
				ea, ke := pick(ne)
				ca, kc := "-", 0
				if typ == "bip44" {
					ca, kc = pick(nc)
				}
				name := "scan"
				if guarded {
					name = "gscan"
				}
				emit(fmt.Sprintf("%s %d %s %s", name, n, ea, ca))
				if n > 0 {
					ne += ke
					nc += kc
				}
			case 4:
				emit("reload")
			case 5:
				if !locked {
					emit("relock")
				}
			}
		}
		if locked {
			emit("verify") // public part while locked
			emit("unlock")
		}
		emit("verify")
	}
}

func main() {
	Main(&Prop{Gen: c17Gen, Exec: c17Exec})
}
