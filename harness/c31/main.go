package main

// C31: checked arithmetic, fee and coin-hour formulas.  Real functions:
// mathutil.{AddUint64,MultUint64,AddUint32,Uint64ToInt64,Int64ToUint64,IntToUint32},
// fee.{RequiredFee,RemainingHours,VerifyTransactionFeeForHours}, coin.UxOut.CoinHours.

import (
	"strconv"

	. "verif/harness/hlib"

	"github.com/skycoin/skycoin/src/coin"
	"github.com/skycoin/skycoin/src/util/fee"
	"github.com/skycoin/skycoin/src/util/mathutil"
)

var c31Errs = map[error]string{
	mathutil.ErrUint64MultOverflow:             "ErrUint64MultOverflow",
	mathutil.ErrUint64AddOverflow:              "ErrUint64AddOverflow",
	mathutil.ErrUint32AddOverflow:              "ErrUint32AddOverflow",
	mathutil.ErrUint64OverflowsInt64:           "ErrUint64OverflowsInt64",
	mathutil.ErrInt64UnderflowsUint64:          "ErrInt64UnderflowsUint64",
	mathutil.ErrIntUnderflowsUint32:            "ErrIntUnderflowsUint32",
	mathutil.ErrIntOverflowsUint32:             "ErrIntOverflowsUint32",
	fee.ErrTxnNoFee:                            "ErrTxnNoFee",
	fee.ErrTxnInsufficientFee:                  "ErrTxnInsufficientFee",
	coin.ErrAddEarnedCoinHoursAdditionOverflow: "ErrAddEarnedCoinHoursAdditionOverflow",
}

func c31Exec(op string) string {
	f := Fields(op)
	switch f[0] {
	case "AddUint64":
		v, err := mathutil.AddUint64(PU64(f[1]), PU64(f[2]))
		return ResU(v, err, c31Errs)
	case "MultUint64":
		v, err := mathutil.MultUint64(PU64(f[1]), PU64(f[2]))
		return ResU(v, err, c31Errs)
	case "AddUint32":
		v, err := mathutil.AddUint32(uint32(PU64(f[1])), uint32(PU64(f[2])))
		return ResU(uint64(v), err, c31Errs)
	case "Uint64ToInt64":
		v, err := mathutil.Uint64ToInt64(PU64(f[1]))
		if err != nil {
			return "err " + ErrName(err, c31Errs)
		}
		return OkI(v)
	case "Int64ToUint64":
		v, err := mathutil.Int64ToUint64(PI64(f[1]))
		return ResU(v, err, c31Errs)
	case "IntToUint32":
		v, err := mathutil.IntToUint32(int(PI64(f[1])))
		return ResU(uint64(v), err, c31Errs)
	case "RequiredFee":
		return OkU(fee.RequiredFee(PU64(f[1]), uint32(PU64(f[2]))))
	case "RemainingHours":
		return OkU(fee.RemainingHours(PU64(f[1]), uint32(PU64(f[2]))))
	case "VerifyFee":
		err := fee.VerifyTransactionFeeForHours(PU64(f[1]), PU64(f[2]), uint32(PU64(f[3])))
		if err != nil {
			return "err " + ErrName(err, c31Errs)
		}
		return "ok"
	case "CoinHours":
		ux := coin.UxOut{Head: coin.UxHead{Time: PU64(f[3])}, Body: coin.UxBody{Coins: PU64(f[1]), Hours: PU64(f[2])}}
		v, err := ux.CoinHours(PU64(f[4]))
		return ResU(v, err, c31Errs)
	}
	panic("harness: unknown op " + f[0])
}

func u(v uint64) string { return strconv.FormatUint(v, 10) }

func c31Gen(r *Rng, tier string, emit func(string)) {
	// 1. the full boundary grid for the binary helpers
	for _, a := range Boundary64 {
		for _, b := range Boundary64 {
			emit("AddUint64 " + u(a) + " " + u(b))
			emit("MultUint64 " + u(a) + " " + u(b))
			emit("AddUint32 " + u(uint64(uint32(a))) + " " + u(uint64(uint32(b))))
			emit("RequiredFee " + u(a) + " " + u(uint64(uint32(b))))
			emit("RemainingHours " + u(a) + " " + u(uint64(uint32(b))))
		}
		emit("Uint64ToInt64 " + u(a))
		emit("Int64ToUint64 " + strconv.FormatInt(int64(a), 10))
		emit("IntToUint32 " + strconv.FormatInt(int64(a), 10))
	}
	// 2. constructed coin-hour overflow witnesses (F1 and neighbours)
	emit("CoinHours 1024819999999 0 0 18000000000000")
	emit("CoinHours 1024819999999 0 5 18000000000005")
	emit("CoinHours 18446744073709551615 0 0 1")
	emit("CoinHours 18446744073709551615 18446744073709551615 0 3600")
	emit("CoinHours 1000000 18446744073709551615 0 3600")
	emit("CoinHours 1000000 18446744073709551614 0 3600")
	emit("CoinHours 5000000 7 100 7300")
	emit("CoinHours 5000000 7 100 99")
	n := 4000
	if tier == "thorough" {
		n = 400000
	}
	for i := 0; i < n; i++ {
		switch r.Intn(10) {
		case 0:
			emit("AddUint64 " + u(r.U64Mixed()) + " " + u(r.U64Mixed()))
		case 1:
			// products near 2^64: a random a and b ~ 2^64/a +- small
			a := r.U64Mixed()
			b := r.U64Mixed()
			if a > 1 && r.Bool() {
				b = ^uint64(0)/a + uint64(r.Intn(5)) - 2
			}
			emit("MultUint64 " + u(a) + " " + u(b))
		case 2:
			emit("AddUint32 " + u(uint64(uint32(r.U64Mixed()))) + " " + u(uint64(uint32(r.U64Mixed()))))
		case 3:
			v := r.U64Mixed()
			emit("Uint64ToInt64 " + u(v))
			emit("Int64ToUint64 " + strconv.FormatInt(int64(v), 10))
			emit("IntToUint32 " + strconv.FormatInt(int64(v), 10))
		case 4:
			bf := uint64(uint32(r.U64Mixed()))
			if r.Chance(60) {
				bf = uint64(r.Range(1, 20))
			}
			h := r.U64Mixed()
			emit("RequiredFee " + u(h) + " " + u(bf))
			emit("RemainingHours " + u(h) + " " + u(bf))
		case 5:
			bf := uint64(r.Range(0, 12))
			if r.Chance(20) {
				bf = uint64(uint32(r.U64Mixed()))
			}
			hours := r.U64Mixed()
			feeV := r.U64Mixed()
			if r.Chance(50) && bf > 0 && hours < 1<<62 {
				// fee right at the required boundary: total/bf rounded up, -1, +0, +1
				feeV = hours/(bf) + uint64(r.Intn(4)) - 1
			}
			emit("VerifyFee " + u(hours) + " " + u(feeV) + " " + u(bf))
		default:
			// coin hours: realistic and overflowing combinations
			coins := r.U64Mixed()
			if r.Chance(50) {
				coins = uint64(r.Intn(100000000)) * 1000 // up to 1e11 droplets, 3 decimals
			}
			hours := r.U64Mixed()
			if r.Chance(50) {
				hours = uint64(r.Intn(1000000))
			}
			tm := r.U64Mixed()
			if r.Chance(70) {
				tm = 1500000000 + uint64(r.Intn(100000000))
			}
			var dt uint64
			switch r.Intn(4) {
			case 0:
				dt = uint64(r.Intn(100000))
			case 1:
				dt = r.U64() >> uint(r.Intn(64))
			case 2:
				// elapsed time that brings seconds*wholeCoins close to 2^64
				w := coins / 1000000
				if w > 0 {
					dt = ^uint64(0)/w + uint64(r.Intn(7)) - 3
				}
			case 3:
				dt = r.U64Mixed()
			}
			t := tm + dt
			if r.Chance(5) {
				t = tm - uint64(r.Intn(10))
			}
			emit("CoinHours " + u(coins) + " " + u(hours) + " " + u(tm) + " " + u(t))
		}
	}
}

func main() { Main(&Prop{Gen: c31Gen, Exec: c31Exec}) }
