package main

// C32: the connection pool's strand protocol under concurrent real workloads (trace conformance).
//
// Each op runs one workload against a REAL gnet.ConnectionPool listening on loopback:
//   run <seed> <clients> <opsPerClient> <incoming> <outgoing> <shutdownDelayMicros>
// `clients` goroutines issue Size / GetConnections / GetConnection / SendMessage / BroadcastMessage /
// GetStaleConnections / VerifStrand(read) (tracked: call + return recorded) and Connect / Disconnect (untracked),
// `incoming` raw TCP clients dial in and send framed messages, the pool dials `outgoing` times to a harness
// listener, and after the delay another goroutine calls Shutdown.
//
// Events are recorded, totally ordered, from (a) a logrus hook on the repo's loggers with strand.Debug on:
// "Stranding" (a request function starts), the elapsed line (it ends), gnet's "Closed connection and removed from
// pool" (a map write), Shutdown's stage lines; (b) the Connect/Disconnect callbacks (run inside request functions);
// (c) the harness's own call/return bookkeeping.  Every event carries the goroutine it happened on, mapped to
// s (the goroutine of the first request function = processStrand), h (the goroutine calling Shutdown), o (any other).
// Output: space-separated events
//   c<k> call   e<k>.<g> enter   a<g> map access   x<k>.<g> exit   r<k>.<0|1> return (1 = ErrConnectionPoolClosed)
//   S Shutdown called   D Shutdown past <-strandDone   R<n> Shutdown returned with n entries left in the two maps
//   H Shutdown did not return within 10 s
// followed by |races=<n> (data-race reports of the Go race detector during this workload; 0 if not a -race build).

import (
	"bytes"
	"errors"
	"fmt"
	"net"
	"os"
	"regexp"
	"runtime"
	"strconv"
	"strings"
	"sync"
	"sync/atomic"
	"time"

	"github.com/sirupsen/logrus"

	. "verif/harness/hlib"

	"github.com/skycoin/skycoin/src/daemon/gnet"
	"github.com/skycoin/skycoin/src/daemon/strand"
	"github.com/skycoin/skycoin/src/util/logging"
)

// ---- a trivial message type -----------------------------------------------------------------

type pingMsg struct{ X uint32 }

func (m *pingMsg) EncodeSize() uint64 { return 4 }
func (m *pingMsg) Encode(b []byte) error {
	if len(b) < 4 {
		return fmt.Errorf("short")
	}
	b[0], b[1], b[2], b[3] = byte(m.X), byte(m.X>>8), byte(m.X>>16), byte(m.X>>24)
	return nil
}
func (m *pingMsg) Decode(b []byte) (uint64, error) {
	if len(b) < 4 {
		return 0, fmt.Errorf("short")
	}
	m.X = uint32(b[0]) | uint32(b[1])<<8 | uint32(b[2])<<16 | uint32(b[3])<<24
	return 4, nil
}
func (m *pingMsg) Handle(c *gnet.MessageContext, state interface{}) error { return nil }

// ---- a message whose handler blocks until released, and a large outgoing message -------------------------
// (the "busy connection" workloads: Shutdown while one connection has a handler running with another message
// queued behind it, a write blocked on a peer that does not read, and a blocked read)

var busyMu sync.Mutex
var busyEntered, busyRelease chan struct{}

func busyChans() (chan struct{}, chan struct{}) {
	busyMu.Lock()
	defer busyMu.Unlock()
	return busyEntered, busyRelease
}

type blokMsg struct{ X uint32 }

func (m *blokMsg) EncodeSize() uint64 { return 4 }
func (m *blokMsg) Encode(b []byte) error {
	if len(b) < 4 {
		return fmt.Errorf("short")
	}
	return nil
}
func (m *blokMsg) Decode(b []byte) (uint64, error) {
	if len(b) < 4 {
		return 0, fmt.Errorf("short")
	}
	return 4, nil
}
func (m *blokMsg) Handle(c *gnet.MessageContext, state interface{}) error {
	ent, rel := busyChans()
	if ent == nil {
		return nil
	}
	select {
	case ent <- struct{}{}:
	default:
	}
	<-rel
	return nil
}

type bigMsg struct{ N int }

func (m *bigMsg) EncodeSize() uint64                                     { return uint64(m.N) }
func (m *bigMsg) Encode(b []byte) error                                  { return nil }
func (m *bigMsg) Decode(b []byte) (uint64, error)                        { return uint64(len(b)), nil }
func (m *bigMsg) Handle(c *gnet.MessageContext, state interface{}) error { return nil }

// busyMode: the workload additionally keeps one incoming connection busy in all three ways at shutdown
var busyMode bool

const busyBig = 48 << 20

// ---- event recorder ---------------------------------------------------------------------------

func gid() uint64 {
	var buf [64]byte
	n := runtime.Stack(buf[:], false)
	// "goroutine 123 [running]:"
	f := bytes.Fields(buf[:n])
	if len(f) < 2 {
		return 0
	}
	v, _ := strconv.ParseUint(string(f[1]), 10, 64)
	return v
}

type recorder struct {
	mu       sync.Mutex
	active   bool
	ev       []string
	strandG  uint64 // goroutine of the first request function
	shutG    uint64
	nextKey  int
	inflight map[string]int // tracked API name -> key of the call in flight
	running  int            // key of the request whose function is running (-1 none)
	runName  string
}

var rec = &recorder{running: -1}

func (r *recorder) actor(g uint64) string {
	switch {
	case r.strandG != 0 && g == r.strandG:
		return "s"
	case r.shutG != 0 && g == r.shutG:
		return "h"
	}
	return "o"
}

func (r *recorder) add(s string) { r.ev = append(r.ev, s) }

// Levels / Fire implement logrus.Hook
func (r *recorder) Levels() []logrus.Level { return logrus.AllLevels }

func (r *recorder) Fire(e *logrus.Entry) error {
	g := gid()
	r.mu.Lock()
	defer r.mu.Unlock()
	if !r.active {
		return nil
	}
	op, hasOp := e.Data["operation"].(string)
	_, hasElapsed := e.Data["elapsed"]
	switch {
	case e.Message == "Stranding" && hasOp:
		if r.strandG == 0 {
			r.strandG = g
		}
		short := op[strings.LastIndex(op, ".")+1:]
		k, ok := r.inflight[short]
		if ok {
			delete(r.inflight, short) // entered: no longer waiting to be received
		} else {
			// a request issued by the pool's own goroutines (or an untracked API call): it was "called" just now
			k = r.nextKey
			r.nextKey++
			r.add("c" + strconv.Itoa(k))
		}
		r.running, r.runName = k, op
		r.add("e" + strconv.Itoa(k) + "." + r.actor(g))
	case hasOp && hasElapsed && e.Message == "":
		// end of a request function (Debug line, or Warning if it took > 100 ms)
		k := r.running
		if op != r.runName {
			k = -2 // an exit for a function that is not the one we saw entering
		}
		r.add("x" + strconv.Itoa(k) + "." + r.actor(g))
		r.running, r.runName = -1, ""
	case e.Message == "Closed connection and removed from pool":
		r.add("a" + r.actor(g))
	case e.Message == "ConnectionPool.Shutdown called":
		r.add("S")
	case e.Message == "ConnectionPool.Shutdown closing the listener":
		r.add("D")
	}
	return nil
}

func (r *recorder) access() {
	g := gid()
	r.mu.Lock()
	defer r.mu.Unlock()
	if r.active {
		r.add("a" + r.actor(g))
	}
}

// tracked runs an API call whose strand name is `name`; at most one per name is in flight
var nameLocks = map[string]*sync.Mutex{}

func (r *recorder) tracked(name string, f func() error) {
	l := nameLocks[name]
	l.Lock()
	defer l.Unlock()
	r.mu.Lock()
	k := r.nextKey
	r.nextKey++
	r.inflight[name] = k
	r.add("c" + strconv.Itoa(k))
	r.mu.Unlock()
	err := f()
	r.mu.Lock()
	if cur, ok := r.inflight[name]; ok && cur == k {
		delete(r.inflight, name)
	}
	closed := "0"
	if err == gnet.ErrConnectionPoolClosed {
		closed = "1"
	}
	r.add("r" + strconv.Itoa(k) + "." + closed)
	r.mu.Unlock()
}

// ---- workload --------------------------------------------------------------------------------

// pollQuery: one more goroutine calls pool.IsMaxOutgoingDefaultConnectionsReached() in a loop, as the daemon's
// run loop does (maybeConnectToTrustedPeer), and the harness listener is configured as a default connection
var pollQuery bool

var raceLog string
var raceOff = map[string]int64{}

var frameRe = regexp.MustCompile(`^  (\S+)\(`)
var posRe = regexp.MustCompile(`^      (\S+):(\d+)`)

func base(p string) string {
	if i := strings.LastIndex(p, "/"); i >= 0 {
		return p[i+1:]
	}
	return p
}

// newRaces returns, for the data-race reports written since the last call: their number; per report the first
// non-runtime frame of its two access stacks as "file:function~file:function" (package path stripped, no line
// numbers); and per report the first three non-runtime frames of both stacks with line numbers ("f>f>f~f>f>f")
func newRaces() (int, []string, []string) {
	if raceLog == "" {
		return 0, nil, nil
	}
	n := 0
	var sigs, reps []string
	// the runtime appends this process's reports to <log_path>.<pid>
	files := []string{raceLog + "." + strconv.Itoa(os.Getpid())}
	for _, f := range files {
		b, err := os.ReadFile(f)
		if err != nil {
			continue
		}
		off := raceOff[f]
		if int64(len(b)) <= off {
			continue
		}
		text := string(b[off:])
		raceOff[f] = int64(len(b))
		for _, rep := range strings.Split(text, "WARNING: DATA RACE")[1:] {
			n++
			// the two access stacks come first; stop at the goroutine-creation stacks
			if i := strings.Index(rep, "\nGoroutine "); i >= 0 {
				rep = rep[:i]
			}
			var firsts, stacks []string
			for _, stack := range strings.Split(rep, "\n\n") {
				lines := strings.Split(stack, "\n")
				var frames []string
				for i := 0; i+1 < len(lines); i++ {
					m := frameRe.FindStringSubmatch(lines[i])
					if m == nil || strings.HasPrefix(m[1], "runtime.") {
						continue
					}
					pm := posRe.FindStringSubmatch(lines[i+1])
					file, line := "?", "0"
					if pm != nil {
						file, line = base(pm[1]), pm[2]
					}
					fn := base(m[1])
					if len(frames) == 0 {
						firsts = append(firsts, file+":"+fn)
					}
					if len(frames) < 3 {
						frames = append(frames, file+":"+line+":"+fn)
					}
				}
				if len(frames) > 0 {
					stacks = append(stacks, strings.Join(frames, ">"))
				}
			}
			sigs = append(sigs, strings.Join(firsts, "~"))
			reps = append(reps, strings.Join(stacks, "~"))
		}
	}
	return n, sigs, reps
}

func frame(x uint32) []byte {
	// length prefix (4 id + 4 body) ++ id ++ body
	return []byte{8, 0, 0, 0, 'P', 'I', 'N', 'G', byte(x), byte(x >> 8), byte(x >> 16), byte(x >> 24)}
}

// hung: a previous workload's Shutdown never returned; its goroutines still own the loggers' attention and
// every further workload would wait 10 s too, so the rest of the run is reported as hung at once
var hung bool

func runWorkload(seed uint64, nClients, nOps, nIn, nOut int, delay time.Duration) string {
	if hung {
		return "H|races=0|sig=-|rep=-"
	}
	r := NewRng(seed)
	rec.mu.Lock()
	rec.active = true
	rec.ev = nil
	rec.strandG, rec.shutG = 0, 0
	rec.nextKey = 0
	rec.inflight = map[string]int{}
	rec.running, rec.runName = -1, ""
	rec.mu.Unlock()

	cfg := gnet.NewConfig()
	cfg.Address = "127.0.0.1"
	cfg.Port = 0
	cfg.DialTimeout = time.Second
	cfg.ReadTimeout = 2 * time.Second
	cfg.WriteTimeout = 2 * time.Second
	if busyMode {
		cfg.WriteTimeout = time.Minute
		cfg.ReadTimeout = time.Minute
		cfg.MaxOutgoingMessageLength = 2 * busyBig
		busyMu.Lock()
		busyEntered, busyRelease = make(chan struct{}, 1), make(chan struct{})
		busyMu.Unlock()
	}
	var ln net.Listener
	if pollQuery {
		// the listener must exist before the pool so that it can be named as a default connection
		l0, err := net.Listen("tcp", "127.0.0.1:0")
		if err != nil {
			panic("harness: listen: " + err.Error())
		}
		ln = l0
		cfg.DefaultConnections = []string{ln.Addr().String()}
	}
	cfg.ConnectCallback = func(addr string, id uint64, solicited bool) { rec.access() }
	cfg.DisconnectCallback = func(addr string, id uint64, reason gnet.DisconnectReason) { rec.access() }
	pool, err := gnet.NewConnectionPool(cfg, nil)
	if err != nil {
		panic("harness: NewConnectionPool: " + err.Error())
	}
	runDone := make(chan struct{})
	go func() {
		defer close(runDone)
		pool.Run() //nolint:errcheck
	}()
	addr := ""
	for i := 0; i < 2000 && addr == ""; i++ {
		addr = pool.VerifListenAddr()
		if addr == "" {
			time.Sleep(time.Millisecond)
		}
	}
	if addr == "" {
		panic("harness: pool did not start listening")
	}

	// a listener the pool can dial out to
	if ln == nil {
		l0, err := net.Listen("tcp", "127.0.0.1:0")
		if err != nil {
			panic("harness: listen: " + err.Error())
		}
		ln = l0
	}
	pollStop := make(chan struct{})
	var pollWG sync.WaitGroup
	if pollQuery {
		pollWG.Add(1)
		go func() {
			defer pollWG.Done()
			for {
				select {
				case <-pollStop:
					return
				default:
					pool.IsMaxOutgoingDefaultConnectionsReached()
					time.Sleep(20 * time.Microsecond)
				}
			}
		}()
	}
	var peerWG sync.WaitGroup
	stopPeers := make(chan struct{})
	acceptDone := make(chan struct{})
	go func() {
		defer close(acceptDone)
		for {
			c, err := ln.Accept()
			if err != nil {
				return
			}
			peerWG.Add(1)
			go func() {
				defer peerWG.Done()
				defer c.Close()
				buf := make([]byte, 256)
				for {
					c.SetReadDeadline(time.Now().Add(200 * time.Millisecond)) //nolint:errcheck
					if _, err := c.Read(buf); err != nil {
						select {
						case <-stopPeers:
							return
						default:
							if ne, ok := err.(net.Error); ok && ne.Timeout() {
								continue
							}
							return
						}
					}
				}
			}()
		}
	}()

	// incoming peers
	var inConns []net.Conn
	var inMu sync.Mutex
	for i := 0; i < nIn; i++ {
		peerWG.Add(1)
		x := uint32(r.U64())
		n := r.Intn(4)
		go func() {
			defer peerWG.Done()
			c, err := net.DialTimeout("tcp", addr, time.Second)
			if err != nil {
				return
			}
			inMu.Lock()
			inConns = append(inConns, c)
			inMu.Unlock()
			for j := 0; j < n; j++ {
				c.Write(frame(x + uint32(j))) //nolint:errcheck
				time.Sleep(time.Duration(50+j*30) * time.Microsecond)
			}
			<-stopPeers
			c.Close()
		}()
	}

	knownAddrs := func() []string {
		// serialised with the tracked GetConnections calls so that request names stay unambiguous
		nameLocks["GetConnections"].Lock()
		defer nameLocks["GetConnections"].Unlock()
		cs, err := pool.GetConnections()
		if err != nil {
			return nil
		}
		var l []string
		for i := range cs {
			l = append(l, cs[i].Addr())
		}
		return l
	}

	var wg sync.WaitGroup
	for c := 0; c < nClients; c++ {
		wg.Add(1)
		cr := NewRng(seed*1000003 + uint64(c))
		go func() {
			defer wg.Done()
			for j := 0; j < nOps; j++ {
				switch cr.Intn(10) {
				case 0:
					rec.tracked("Size", func() error { _, err := pool.Size(); return err })
				case 1:
					rec.tracked("GetConnections", func() error { _, err := pool.GetConnections(); return err })
				case 2:
					rec.tracked("GetConnection", func() error { _, err := pool.GetConnection("127.0.0.1:1"); return err })
				case 3:
					as := knownAddrs()
					a := "127.0.0.1:1"
					if len(as) > 0 {
						a = as[cr.Intn(len(as))]
					}
					rec.tracked("SendMessage", func() error {
						err := pool.SendMessage(a, &pingMsg{X: 1})
						if err == gnet.ErrConnectionPoolClosed {
							return err
						}
						return nil
					})
				case 4:
					as := knownAddrs()
					rec.tracked("BroadcastMessage", func() error {
						_, err := pool.BroadcastMessage(&pingMsg{X: 2}, append(as, "127.0.0.1:1"))
						if err == gnet.ErrConnectionPoolClosed {
							return err
						}
						return nil
					})
				case 5:
					rec.tracked("GetStaleConnections", func() error { _, err := pool.GetStaleConnections(time.Hour); return err })
				case 6:
					rec.tracked("verifRead", func() error {
						return pool.VerifStrand("verifRead", func() error {
							rec.access() // a request function of ours: reading the maps here is legitimate
							return nil
						})
					})
				case 7:
					as := knownAddrs()
					if len(as) > 0 {
						pool.Disconnect(as[cr.Intn(len(as))], gnet.ErrDisconnectShutdown) //nolint:errcheck
					}
				case 8:
					if nOut > 0 {
						pool.Connect(ln.Addr().String()) //nolint:errcheck
					}
				default:
					time.Sleep(time.Duration(cr.Intn(200)) * time.Microsecond)
				}
			}
		}()
	}
	for i := 0; i < nOut; i++ {
		pool.Connect(ln.Addr().String()) //nolint:errcheck
	}

	// the busy connection
	var busyConn net.Conn
	shutCalled := make(chan struct{})
	if busyMode {
		ent, rel := busyChans()
		if bc, err := net.DialTimeout("tcp", addr, time.Second); err == nil {
			busyConn = bc
			for j := 0; j < 3; j++ {
				bc.Write([]byte{8, 0, 0, 0, 'B', 'L', 'O', 'K', byte(j), 0, 0, 0}) //nolint:errcheck
			}
			select {
			case <-ent: // the first message's handler is running; two more are queued behind it
			case <-time.After(2 * time.Second):
			}
			// the peer never reads: this write stays blocked in the kernel until the socket is closed
			pool.SendMessage(bc.LocalAddr().String(), &bigMsg{N: busyBig}) //nolint:errcheck
			time.Sleep(5 * time.Millisecond)
		}
		go func() {
			// the handler returns only after Shutdown has closed quit and handleConnection has closed the socket
			<-shutCalled
			time.Sleep(30 * time.Millisecond)
			close(rel)
		}()
	}

	// shutdown
	shutDone := make(chan struct{})
	go func() {
		time.Sleep(delay)
		g := gid()
		rec.mu.Lock()
		rec.shutG = g
		rec.mu.Unlock()
		close(shutCalled)
		pool.Shutdown()
		a, b := pool.VerifPoolSizes()
		rec.mu.Lock()
		rec.add("R" + strconv.Itoa(a+b))
		rec.mu.Unlock()
		close(shutDone)
	}()
	hang := false
	select {
	case <-shutDone:
	case <-time.After(10 * time.Second):
		hang = true
		hung = true
		rec.mu.Lock()
		rec.add("H")
		rec.mu.Unlock()
	}
	close(pollStop)
	pollWG.Wait()
	close(stopPeers)
	ln.Close()
	if !hang {
		wg.Wait()
		<-runDone
	}
	inMu.Lock()
	for _, c := range inConns {
		c.Close()
	}
	inMu.Unlock()
	if busyConn != nil {
		busyConn.Close()
	}
	<-acceptDone // every peerWG.Add of the accept loop has happened
	peerWG.Wait()

	rec.mu.Lock()
	rec.active = false
	out := strings.Join(rec.ev, " ")
	rec.mu.Unlock()
	n, sigs, reps := newRaces()
	sig, rep := "-", "-"
	if len(sigs) > 0 {
		sig = strings.Join(sigs, ",")
		rep = strings.Join(reps, ",")
	}
	return out + "|races=" + strconv.Itoa(n) + "|sig=" + sig + "|rep=" + rep
}

// runStuck: one strand operation runs for holdMs while k pool calls (and two incoming connections' registrations) are
// queued behind it for more than a second; Shutdown is called while they are still queued.  Every queued call must
// return (completed or refused because the pool closed) and Shutdown must return.
func runStuck(seed uint64, k int, holdMs int) string {
	if hung {
		return "S|calls=0/0|shutdown=hang"
	}
	r := NewRng(seed)
	cfg := gnet.NewConfig()
	cfg.Address = "127.0.0.1"
	cfg.Port = 0
	cfg.DialTimeout = time.Second
	pool, err := gnet.NewConnectionPool(cfg, nil)
	if err != nil {
		panic("harness: NewConnectionPool: " + err.Error())
	}
	runDone := make(chan struct{})
	go func() {
		pool.Run() //nolint:errcheck
		close(runDone)
	}()
	addr := ""
	for i := 0; i < 400 && addr == ""; i++ {
		addr = pool.VerifListenAddr()
		if addr == "" {
			time.Sleep(5 * time.Millisecond)
		}
	}
	entered := make(chan struct{})
	go pool.VerifStrand("slow", func() error { //nolint:errcheck
		close(entered)
		time.Sleep(time.Duration(holdMs) * time.Millisecond)
		return nil
	})
	<-entered
	var returned int32
	var conns []net.Conn
	for i := 0; i < k; i++ {
		kind := r.Intn(4)
		go func() {
			switch kind {
			case 0:
				pool.Size() //nolint:errcheck
			case 1:
				pool.GetConnections() //nolint:errcheck
			case 2:
				pool.Disconnect("10.9.8.7:6000", errors.New("x")) //nolint:errcheck
			default:
				pool.SendMessage("10.9.8.7:6000", &pingMsg{}) //nolint:errcheck
			}
			atomic.AddInt32(&returned, 1)
		}()
	}
	if addr != "" {
		for i := 0; i < 2; i++ {
			if c, err := net.DialTimeout("tcp", addr, time.Second); err == nil {
				conns = append(conns, c) // its registration (handleConnection) queues on the strand
			}
		}
	}
	time.Sleep(time.Duration(holdMs-250) * time.Millisecond) // the calls have now been queued for more than a second
	shutDone := make(chan struct{})
	go func() {
		pool.Shutdown()
		close(shutDone)
	}()
	shut := "ok"
	select {
	case <-shutDone:
	case <-time.After(10 * time.Second):
		shut = "hang"
		hung = true
	}
	deadline := time.Now().Add(5 * time.Second)
	for atomic.LoadInt32(&returned) < int32(k) && time.Now().Before(deadline) {
		time.Sleep(5 * time.Millisecond)
	}
	got := int(atomic.LoadInt32(&returned))
	if got < k {
		hung = true // goroutines are stuck on this pool: later cases would only inherit the damage
	}
	for _, c := range conns {
		c.Close()
	}
	return fmt.Sprintf("S|calls=%d/%d|shutdown=%s", got, k, shut)
}

func c32Exec(op string) string {
	f := strings.Split(op, " ")
	if f[0] == "runs" && len(f) == 4 {
		return runStuck(PU64(f[1]), int(PU64(f[2])), int(PU64(f[3])))
	}
	if f[0] == "runq" && len(f) == 7 {
		// same workload, with a goroutine that also polls the exported capacity query of the pool
		pollQuery = true
		defer func() { pollQuery = false }()
		f[0] = "run"
	}
	if f[0] == "runb" && len(f) == 7 {
		// same workload, plus one connection that is busy in every way when Shutdown is called
		busyMode = true
		defer func() { busyMode = false }()
		f[0] = "run"
	}
	if f[0] != "run" || len(f) != 7 {
		panic("harness: unknown op " + op)
	}
	return runWorkload(PU64(f[1]), int(PU64(f[2])), int(PU64(f[3])), int(PU64(f[4])), int(PU64(f[5])),
		time.Duration(PU64(f[6]))*time.Microsecond)
}

func c32Gen(r *Rng, tier string, emit func(string)) {
	n := 150
	if tier == "thorough" {
		n = 3000
	}
	for i := 0; i < n; i++ {
		clients := r.Range(1, 8)
		ops := r.Range(1, 25)
		in := r.Intn(6)
		out := r.Intn(4)
		delay := []int{0, 50, 200, 1000, 3000, 8000}[r.Intn(6)]
		emit(fmt.Sprintf("run %d %d %d %d %d %d", r.U64()%1000000, clients, ops, in, out, delay))
	}
	nb := 6
	if tier == "thorough" {
		nb = 60
	}
	ns := 3
	if tier == "thorough" {
		ns = 20
	}
	for i := 0; i < ns; i++ {
		emit(fmt.Sprintf("runs %d %d %d", r.U64()%1000000, r.Range(3, 12), []int{1300, 1500, 1700}[r.Intn(3)]))
	}
	for i := 0; i < nb; i++ {
		delay := []int{0, 200, 3000}[r.Intn(3)]
		emit(fmt.Sprintf("runb %d %d %d %d %d %d", r.U64()%1000000, r.Intn(3), r.Range(1, 10), r.Intn(3), r.Intn(2), delay))
	}
}

func main() {
	for _, n := range []string{"Size", "GetConnections", "GetConnection", "SendMessage", "BroadcastMessage", "GetStaleConnections", "verifRead"} {
		nameLocks[n] = &sync.Mutex{}
	}
	gnet.RegisterMessage(gnet.MessagePrefixFromString("PING"), pingMsg{})
	gnet.RegisterMessage(gnet.MessagePrefixFromString("BLOK"), blokMsg{})
	gnet.RegisterMessage(gnet.MessagePrefixFromString("BIGM"), bigMsg{})
	gnet.VerifyMessages()
	// GORACE=log_path=… is set by the check for -race builds
	for _, kv := range strings.Fields(os.Getenv("GORACE")) {
		if strings.HasPrefix(kv, "log_path=") {
			raceLog = strings.TrimPrefix(kv, "log_path=")
		}
	}
	Main(&Prop{Gen: c32Gen, Exec: func(op string) string {
		// hlib silences logging at start-up; the hook needs Debug-level entries (output stays discarded)
		once.Do(func() {
			strand.Debug = true
			logging.SetLevel(logrus.DebugLevel)
			logging.AddHook(rec)
		})
		return c32Exec(op)
	}})
}

var once sync.Once
