package main

// C18, wallets LOADED from serialised forms with sparse / legacy meta (files written by old releases
// have no `cryptoType`, no `encrypted`, no `version` ...; the fixtures in the repo's testdata
// directories are such files).  They go through the same cycle as freshly created wallets:
//
//	lockl   <type> <crypto|-> <seedhex> <n> <pwhex> <pw2hex> <edits|->
//	lockfix <repo-relative path> <type> <crypto|-> <nstr> <nent> <pwhex> <pw2hex> <edits|->
//	    write the file into the scratch directory, wallet.Load it, Lock(pw), serialise, search for
//	    every original secret, Unlock(pw) / Unlock(pw2) / Unlock(nil) / Lock again, reload the
//	    locked file with wallet.Load and unlock that
//	svcl    <type> <crypto|-> <seedhex> <n> <pwhex> <pw2hex> <edits|->
//	svcfix  <repo-relative path> <type> <crypto|-> <pwhex> <pw2hex> <edits|->
//	    the same file in a wallet.Service directory: EncryptWallet, fresh NewService on the
//	    directory, DecryptWallet(pw2) refused, DecryptWallet(pw) restores, fresh NewService again
//
// <crypto> = `-` : the meta has NO cryptoType field (Lock must fall back to crypto.DefaultCryptoType,
// the real scrypt work factor: ~1 GiB / a few seconds per call, so the generator emits only a
// handful of these and computes them concurrently, see prefetch).  <edits>: comma list of
// noenc (drop `encrypted`), encF / enc0 (legacy spellings of false), nover, notm, nolabel,
// coinsky (coin "sky"), light (not an edit: skip the wrong-password trial and only LOAD the locked file
// again - two default-cipher calls instead of four), fastct (a recorded crypto type replaced by sha256-xor).  "Restores" = the unlocked wallet serialises to the loaded original with the
// encryption bookkeeping set (cryptoType = the cipher that was used, encrypted = false, no secrets).

import (
	"bytes"
	"encoding/json"
	"fmt"
	"io/ioutil"
	"os"
	"path/filepath"
	"sort"
	"strings"
	"sync"

	. "verif/harness/hlib"

	"github.com/skycoin/skycoin/src/cipher/crypto"
	"github.com/skycoin/skycoin/src/wallet"
)

var (
	legacyDir string
	legacyMu  sync.Mutex
	legacyNo  int
)

func legacyScratch() string {
	legacyMu.Lock()
	defer legacyMu.Unlock()
	if legacyDir == "" {
		base := os.Getenv("VERIF_SCRATCH")
		if base == "" {
			base = os.TempDir()
		}
		d, err := ioutil.TempDir(base, "c18-")
		must(err)
		legacyDir = d
	}
	legacyNo++
	d := filepath.Join(legacyDir, fmt.Sprintf("case%d", legacyNo))
	must(os.MkdirAll(d, 0700))
	return d
}

func repoRoot() string {
	if r := os.Getenv("VERIF_REPO"); r != "" {
		return r
	}
	return "/repo"
}

// editMeta applies the legacy edits to a serialised wallet
func editMeta(b []byte, ct string, edits string) []byte {
	var v map[string]interface{}
	must(json.Unmarshal(b, &v))
	m := v["meta"].(map[string]interface{})
	if ct == "-" {
		delete(m, "cryptoType")
	}
	for _, e := range strings.Split(edits, ",") {
		switch e {
		case "", "-", "light":
		case "noenc":
			delete(m, "encrypted")
		case "encF":
			m["encrypted"] = "F"
		case "enc0":
			m["encrypted"] = "0"
		case "nover":
			delete(m, "version")
		case "notm":
			delete(m, "tm")
		case "nolabel":
			delete(m, "label")
		case "coinsky":
			m["coin"] = "sky"
		case "fastct":
			m["cryptoType"] = string(crypto.CryptoTypeSha256Xor)
		default:
			panic("harness: unknown edit " + e)
		}
	}
	out, err := json.MarshalIndent(v, "", "    ")
	must(err)
	return out
}

// canon: canonical JSON (meta fields that are empty strings dropped); with book != "" the encryption bookkeeping of the meta is set to what an
// unlocked wallet that was locked with cipher `book` carries
func canon(b []byte, book string) []byte {
	var v map[string]interface{}
	must(json.Unmarshal(b, &v))
	m := v["meta"].(map[string]interface{})
	if book != "" {
		m["cryptoType"] = book
		m["encrypted"] = "false"
		delete(m, "secrets")
	}
	// an absent meta field and an empty one are the same thing to every Meta getter
	for k, val := range m {
		if s, ok := val.(string); ok && s == "" {
			delete(m, k)
		}
	}
	out, err := json.Marshal(v)
	must(err)
	return out
}

// leaks: how many of the secrets occur inside a string VALUE of the serialised wallet (a seed may
// coincide with a field name: testdata/v2_no_encrypt.wlt has the seed "seed")
func leaks(b []byte, secrets []string) int {
	var vals []string
	var walk func(x interface{})
	walk = func(x interface{}) {
		switch t := x.(type) {
		case map[string]interface{}:
			for _, val := range t {
				walk(val)
			}
		case []interface{}:
			for _, e := range t {
				walk(e)
			}
		case string:
			vals = append(vals, t)
		}
	}
	var top interface{}
	must(json.Unmarshal(b, &top))
	walk(top)
	n := 0
	for _, s := range secrets {
		for _, v := range vals {
			if strings.Contains(v, s) {
				n++
				break
			}
		}
	}
	return n
}

func showCT(ct crypto.CryptoType) string {
	if ct == "" {
		return "-"
	}
	return string(ct)
}

// the file contents of a synthetic legacy wallet
func legacyFile(typ, ct, seedHex string, n int, edits string) (name string, data []byte) {
	c := crypto.CryptoType(ct)
	if ct == "-" {
		c = crypto.CryptoTypeSha256Xor
	}
	w := mkWallet(typ, c, PHex(seedHex), n)
	b, err := w.Serialize()
	must(err)
	return w.Filename(), editMeta(b, ct, edits)
}

func fixtureFile(rel, edits string) (name string, data []byte) {
	if strings.Contains(rel, "..") || filepath.IsAbs(rel) {
		panic("harness: fixture path " + rel)
	}
	b, err := ioutil.ReadFile(filepath.Join(repoRoot(), rel))
	must(err)
	if edits != "" && edits != "-" {
		b = editMeta(b, "", edits)
	}
	return filepath.Base(rel), b
}

func loadFrom(dir, name string, data []byte) (wallet.Wallet, error) {
	p := filepath.Join(dir, name)
	must(ioutil.WriteFile(p, data, 0600))
	w, err := wallet.Load(p)
	if err == nil && w == nil {
		err = fmt.Errorf("no loader")
	}
	return w, err
}

// legacyCycle: Lock / Unlock cycle of a loaded wallet
func legacyCycle(name string, data []byte, wantType, wantCT string, pw, pw2 []byte, light bool) string {
	dir := legacyScratch()
	w, err := loadFrom(dir, name, data)
	if err != nil {
		return "load=err"
	}
	if w.Type() != wantType || showCT(w.CryptoType()) != wantCT || w.IsEncrypted() {
		return fmt.Sprintf("fixture-mismatch type=%s ct=%s enc=%v", w.Type(), showCT(w.CryptoType()), w.IsEncrypted())
	}
	orig, err := w.Serialize()
	must(err)
	origSecrets := clearSecrets(orig)
	eff := w.CryptoType()
	if eff == "" {
		eff = crypto.DefaultCryptoType
	}
	want := canon(orig, string(eff))
	if err := w.Lock(pw); err != nil {
		return "load=ok lock=" + wErr(err)
	}
	locked, err := w.Serialize()
	must(err)
	clear := len(clearSecrets(locked))
	leak := leaks(locked, origSecrets)
	ct := showCT(w.CryptoType())
	cmp := func(u wallet.Wallet, err error) string {
		if err != nil {
			return "err:" + wErr(err)
		}
		ub, err := u.Serialize()
		must(err)
		if !bytes.Equal(canon(ub, ""), want) {
			return "different"
		}
		if len(clearSecrets(ub)) != len(origSecrets) {
			return "secrets-missing"
		}
		return "same"
	}
	// the three password trials are independent (Unlock is a function of the locked wallet): they run
	// concurrently, each on its own copy, because the default cipher takes seconds per call
	var same, wrong, reload string
	wc := w.Clone()
	var wg sync.WaitGroup
	wg.Add(3)
	guard := func(out *string, f func() string) {
		defer wg.Done()
		defer func() {
			if r := recover(); r != nil {
				*out = fmt.Sprintf("panic:%v", r)
			}
		}()
		*out = f()
	}
	go guard(&same, func() string { return cmp(w.Unlock(pw)) })
	go guard(&wrong, func() string {
		if light {
			return "skipped"
		}
		_, err := wc.Unlock(pw2)
		return wErr(err)
	})
	go guard(&reload, func() string {
		d2 := filepath.Join(dir, "reload")
		must(os.MkdirAll(d2, 0700))
		lw, err := loadFrom(d2, name, locked)
		if err != nil {
			return "loaderr"
		}
		if light {
			// only the loader: the locked file must be accepted and come back as it was written
			lb, err := lw.Serialize()
			must(err)
			if !bytes.Equal(lb, locked) {
				return "loaded-different"
			}
			return "loaded"
		}
		return cmp(lw.Unlock(pw))
	})
	wg.Wait()
	_, eerr := w.Unlock(nil)
	again := w.Lock(pw)
	purity := "ok"
	now, err := w.Serialize()
	must(err)
	if !bytes.Equal(now, locked) {
		purity = "changed"
	}
	return fmt.Sprintf("load=ok lock=ok ct=%s nsecrets=%d clear=%d leak=%d enc=%v unlock=%s wrong=%s emptypw=%s again=%s reload=%s purity=%s",
		ct, len(origSecrets), clear, leak, w.IsEncrypted(), same, wrong, wErr(eerr), wErr(again), reload, purity)
}

// svcCycle: the same file under a wallet.Service
func svcCycle(name string, data []byte, wantType, wantCT string, pw, pw2 []byte) string {
	dir := legacyScratch()
	must(ioutil.WriteFile(filepath.Join(dir, name), data, 0600))
	conf := wallet.Config{WalletDir: dir, CryptoType: crypto.CryptoTypeSha256Xor, EnableWalletAPI: true, EnableSeedAPI: true}
	s1, err := wallet.NewService(conf)
	if err != nil {
		return "load=err"
	}
	w0, err := s1.GetWallet(name)
	if err != nil {
		return "load=missing"
	}
	if w0.Type() != wantType || showCT(w0.CryptoType()) != wantCT || w0.IsEncrypted() {
		return fmt.Sprintf("fixture-mismatch type=%s ct=%s enc=%v", w0.Type(), showCT(w0.CryptoType()), w0.IsEncrypted())
	}
	orig, err := w0.Serialize()
	must(err)
	origSecrets := clearSecrets(orig)
	eff := w0.CryptoType()
	if eff == "" {
		eff = crypto.DefaultCryptoType
	}
	want := canon(orig, string(eff))
	ew, err := s1.EncryptWallet(name, pw)
	if err != nil {
		return "load=ok enc=" + wErr(err)
	}
	disk, err := ioutil.ReadFile(filepath.Join(dir, name))
	must(err)
	eb, err := ew.Serialize()
	must(err)
	leak := leaks(disk, origSecrets) + leaks(eb, origSecrets)
	ct := showCT(ew.CryptoType())
	// two freshly started services on the directory: one is asked with the wrong password, one with the right
	var wrong, dec string
	var wg sync.WaitGroup
	wg.Add(2)
	guard := func(out *string, f func() string) {
		defer wg.Done()
		defer func() {
			if r := recover(); r != nil {
				*out = fmt.Sprintf("panic:%v", r)
			}
		}()
		*out = f()
	}
	// the wrong-password service works on a copy of the directory (DecryptWallet writes on success)
	dirB := filepath.Join(dir, "b")
	must(os.MkdirAll(dirB, 0700))
	must(ioutil.WriteFile(filepath.Join(dirB, name), disk, 0600))
	go guard(&wrong, func() string {
		c := conf
		c.WalletDir = dirB
		s, err := wallet.NewService(c)
		if err != nil {
			return "reload-err"
		}
		_, err = s.DecryptWallet(name, pw2)
		if err != nil {
			now, rerr := ioutil.ReadFile(filepath.Join(dirB, name))
			must(rerr)
			if !bytes.Equal(now, disk) {
				return wErr(err) + "+file-changed"
			}
		}
		return wErr(err)
	})
	go guard(&dec, func() string {
		s, err := wallet.NewService(conf)
		if err != nil {
			return "reload-err"
		}
		u, err := s.DecryptWallet(name, pw)
		if err != nil {
			return "err:" + wErr(err)
		}
		ub, err := u.Serialize()
		must(err)
		if !bytes.Equal(canon(ub, ""), want) {
			return "different"
		}
		s3, err := wallet.NewService(conf)
		if err != nil {
			return "reload2-err"
		}
		w3, err := s3.GetWallet(name)
		if err != nil {
			return "reload2-missing"
		}
		b3, err := w3.Serialize()
		must(err)
		if !bytes.Equal(canon(b3, ""), want) || len(clearSecrets(b3)) != len(origSecrets) {
			return "disk-different"
		}
		return "same"
	})
	wg.Wait()
	return fmt.Sprintf("load=ok enc=ok ct=%s leak=%d wrong=%s dec=%s", ct, leak, wrong, dec)
}

func hasLight(edits string) bool {
	for _, e := range strings.Split(edits, ",") {
		if e == "light" {
			return true
		}
	}
	return false
}

func execLegacy(f []string) string {
	switch f[0] {
	case "lockl", "svcl":
		name, data := legacyFile(f[1], f[2], f[3], int(PU64(f[4])), f[7])
		if f[0] == "lockl" {
			return legacyCycle(name, data, f[1], f[2], PHex(f[5]), PHex(f[6]), hasLight(f[7]))
		}
		return svcCycle(name, data, f[1], f[2], PHex(f[5]), PHex(f[6]))
	case "lockfix":
		name, data := fixtureFile(f[1], f[8])
		return legacyCycle(name, data, f[2], f[3], PHex(f[6]), PHex(f[7]), hasLight(f[8]))
	case "svcfix":
		name, data := fixtureFile(f[1], f[6])
		return svcCycle(name, data, f[2], f[3], PHex(f[4]), PHex(f[5]))
	}
	panic("harness: legacy op " + f[0])
}

// ---- results computed ahead of time ----

// The slow ops (default cipher) are started when they are generated and collected when the generator
// reaches them; `exec` (corpus, replay) computes them in place.  At most `slowPar` run at a time
// (each holds up to three 1 GiB scrypt work areas).
var prefetched sync.Map // op -> chan string
const slowPar = 4

var slowSem = make(chan struct{}, slowPar)

func prefetch(op string) {
	ch := make(chan string, 1)
	prefetched.Store(op, ch)
	go func() {
		slowSem <- struct{}{}
		defer func() { <-slowSem }()
		defer func() {
			if r := recover(); r != nil {
				ch <- fmt.Sprintf("panic %v", r)
			}
		}()
		ch <- execLegacy(Fields(op))
	}()
}

func legacyExec(op string) string {
	if ch, ok := prefetched.Load(op); ok {
		prefetched.Delete(op)
		return <-ch.(chan string)
	}
	return execLegacy(Fields(op))
}

// ---- generator ----

var lockable = map[string]bool{"deterministic": true, "bip44": true, "collection": true}

// fixtures: every *.wlt file in a testdata directory of the repo's source tree
func fixtures() []string {
	var out []string
	root := repoRoot()
	_ = filepath.Walk(filepath.Join(root, "src"), func(p string, info os.FileInfo, err error) error {
		if err != nil || info.IsDir() || !strings.HasSuffix(p, ".wlt") || !strings.Contains(p, "/testdata/") {
			return nil
		}
		rel, err := filepath.Rel(root, p)
		must(err)
		out = append(out, rel)
		return nil
	})
	sort.Strings(out)
	return out
}

type fixInfo struct {
	rel, typ, ct string
	nstr, nent   int
	svc          bool // does a wallet.Service start on a directory holding this file (it refuses e.g. wallets without entries)
}

// fixtureInfo: does the file load as an unencrypted wallet of a lockable type, and what does it hold
func fixtureInfo(rel string) (fi fixInfo, ok bool) {
	defer func() {
		if r := recover(); r != nil {
			ok = false
		}
	}()
	name, data := fixtureFile(rel, "-")
	dir := legacyScratch()
	w, err := loadFrom(dir, name, data)
	if err != nil || w.IsEncrypted() || !lockable[w.Type()] {
		return fi, false
	}
	b, err := w.Serialize()
	must(err)
	nent := 0
	var walk func(x interface{})
	walk = func(x interface{}) {
		switch t := x.(type) {
		case map[string]interface{}:
			for k, val := range t {
				if s, ok := val.(string); ok && s != "" && (k == "secret_key" || k == "secret") {
					nent++
				}
				walk(val)
			}
		case []interface{}:
			for _, e := range t {
				walk(e)
			}
		}
	}
	var top interface{}
	must(json.Unmarshal(b, &top))
	walk(top)
	svc := false
	if s, err := wallet.NewService(wallet.Config{WalletDir: dir, CryptoType: crypto.CryptoTypeSha256Xor, EnableWalletAPI: true}); err == nil {
		if _, err := s.GetWallet(name); err == nil {
			svc = true
		}
	}
	return fixInfo{rel, w.Type(), showCT(w.CryptoType()), len(clearSecrets(b)) - nent, nent, svc}, true
}

func isSlow(ct string) bool { return ct == "-" || ct == string(crypto.DefaultCryptoType) }

// legacyGen emits the cheap ops at once and returns the function that emits (collects) the slow ones
func legacyGen(r *Rng, tier string, emit func(string)) (finish func()) {
	types := []string{"deterministic", "bip44", "collection"}
	fast := []string{string(crypto.CryptoTypeSha256Xor), string(crypto.CryptoTypeScryptChacha20poly1305Insecure)}
	editPool := []string{"noenc", "encF", "enc0", "nover", "notm", "nolabel", "coinsky"}
	pwOf := func() []byte { return r.Bytes(1 + r.Intn(12)) }
	randEdits := func(typ string) string {
		var es []string
		encDone := false
		for _, e := range editPool {
			if r.Intn(3) != 0 {
				continue
			}
			if strings.Contains(e, "enc") {
				if encDone {
					continue
				}
				encDone = true
			}
			if e == "coinsky" && typ == "bip44" {
				continue // the short coin names predate bip44 wallets; the bip44 loader does not know them
			}
			es = append(es, e)
		}
		if len(es) == 0 {
			return "-"
		}
		return strings.Join(es, ",")
	}
	lockfix := func(fi fixInfo, edits string) string {
		ct := fi.ct
		if edits == "fastct" {
			ct = fast[0]
		}
		return fmt.Sprintf("lockfix %s %s %s %d %d %s %s %s", fi.rel, fi.typ, ct, fi.nstr, fi.nent, Hex(pwOf()), Hex(pwOf()), edits)
	}
	svcfix := func(fi fixInfo, edits string) string {
		ct := fi.ct
		if edits == "fastct" {
			ct = fast[0]
		}
		return fmt.Sprintf("svcfix %s %s %s %s %s %s", fi.rel, fi.typ, ct, Hex(pwOf()), Hex(pwOf()), edits)
	}
	var fix, legacyFix, legacySvcFix, slowFix []fixInfo
	for _, rel := range fixtures() {
		if fi, ok := fixtureInfo(rel); ok {
			fix = append(fix, fi)
			if fi.ct == "-" {
				legacyFix = append(legacyFix, fi)
				if fi.svc {
					legacySvcFix = append(legacySvcFix, fi)
				}
			} else if isSlow(fi.ct) {
				slowFix = append(slowFix, fi)
			}
		}
	}
	// --- the slow ones first: started now, collected at the end ---
	var slow []string
	// every wallet type once WITHOUT a recorded crypto type (the shape of every file written before the
	// field existed): Lock falls back to the real default cipher
	for _, typ := range types {
		e := []string{"noenc,nover", "noenc", "nover"}[r.Intn(3)]
		if tier != "thorough" {
			e += ",light"
		}
		slow = append(slow, fmt.Sprintf("lockl %s - %s %d %s %s %s", typ, Hex(r.Bytes(16)), 1+r.Intn(3), Hex(pwOf()), Hex(pwOf()), e))
	}
	pick := func(l []fixInfo, k int) []fixInfo {
		if k >= len(l) {
			return l
		}
		o := r.Intn(len(l))
		var out []fixInfo
		for i := 0; i < k; i++ {
			out = append(out, l[(o+i)%len(l)])
		}
		return out
	}
	if tier == "thorough" {
		for _, fi := range legacyFix {
			slow = append(slow, lockfix(fi, "-"))
			if fi.svc {
				slow = append(slow, svcfix(fi, "-"))
			}
		}
		for _, fi := range slowFix {
			slow = append(slow, lockfix(fi, "-"))
		}
		for _, typ := range types {
			slow = append(slow, fmt.Sprintf("svcl %s - %s %d %s %s %s", typ, Hex(r.Bytes(16)), 1+r.Intn(3), Hex(pwOf()), Hex(pwOf()), "noenc"))
		}
	} else {
		// one file written by an old release, through the service, complete
		for _, fi := range pick(legacySvcFix, 1) {
			slow = append(slow, svcfix(fi, "-"))
		}
		if len(legacySvcFix) == 0 {
			slow = append(slow, fmt.Sprintf("svcl %s - %s %d %s %s %s", types[r.Intn(3)], Hex(r.Bytes(16)), 1+r.Intn(3), Hex(pwOf()), Hex(pwOf()), "noenc"))
		}
	}
	for _, op := range slow {
		prefetch(op)
	}
	// --- cheap ones: recorded cheap crypto type, other fields sparse / in legacy spelling ---
	n := 30
	if tier == "thorough" {
		n = 300
	}
	for i := 0; i < n; i++ {
		typ := types[i%3]
		op := "lockl"
		if i%5 == 4 {
			op = "svcl"
		}
		emit(fmt.Sprintf("%s %s %s %s %d %s %s %s", op, typ, fast[r.Intn(2)], Hex(r.Bytes(16)), 1+r.Intn(4), Hex(pwOf()), Hex(pwOf()), randEdits(typ)))
	}
	// every fixture that records a crypto type: as it is when the type is cheap, with the type replaced otherwise
	for _, fi := range fix {
		if fi.ct == "-" {
			continue
		}
		e := "-"
		if isSlow(fi.ct) {
			e = "fastct"
		}
		emit(lockfix(fi, e))
		if fi.svc {
			emit(svcfix(fi, e))
		}
	}
	// refusals go through the loaded wallets too
	emit(fmt.Sprintf("lockl deterministic %s %s 2 - %s noenc", fast[0], Hex(r.Bytes(16)), Hex([]byte("x"))))
	return func() {
		for _, op := range slow {
			emit(op)
		}
	}
}
