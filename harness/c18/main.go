package main

// C18: wallet encryption protects secrets; decryption is robust.
//
//	b64  <hex>                                   base64.StdEncoding.Decode            -> ok <hex> | err
//	skey <N> <r> <p> <keyLen>                    scrypt.Key outcome class             -> ok | err other | panic
//	sdec <data> <pw> um=<..> fin=<..>            ScryptChacha20poly1305.Decrypt       -> ok <hex> | err other | panic
//	xdec <data> <pw> key=<hex>                   Sha256Xor.Decrypt                    -> ok <hex> | err <Name> | panic
//	senc|xenc <data> <pw>                        real Encrypt (random salt/nonce) then Decrypt -> ok same
//	xafter <n> <seed> <pw> :: <op>               sha256-xor round trip of n bytes, then <op> in the same process -> big=ok_same <op's output>
//	xref <data> <pw> key=<hex>                   Sha256Xor.Encrypt; the ciphertext is decrypted by the Lean reference -> ok ct=<hex> rt=same
//	lock <type> <crypto> <seed> <n> <pw> <pw2>   real wallet Lock / Serialize / Unlock
//	lockl | lockfix | svcl | svcfix              wallets loaded from sparse / legacy files: see legacy.go
//
// `um=` and `fin=` are read-backs of library calls (json.Unmarshal of the metadata bytes; scrypt +
// chacha20poly1305 open on the parsed parameters) that the Lean model takes as inputs; they are
// computed when the op is generated and ignored when it is executed.

import (
	"bytes"
	"encoding/base64"
	"encoding/binary"
	"encoding/hex"
	"encoding/json"
	"fmt"
	"io"
	"sort"
	"strconv"
	"strings"

	. "verif/harness/hlib"

	"github.com/skycoin/skycoin/src/cipher"
	"github.com/skycoin/skycoin/src/cipher/bip39"
	"github.com/skycoin/skycoin/src/cipher/bip44"
	"github.com/skycoin/skycoin/src/cipher/chacha20poly1305"
	"github.com/skycoin/skycoin/src/cipher/crypto"
	"github.com/skycoin/skycoin/src/cipher/encrypt"
	"github.com/skycoin/skycoin/src/cipher/scrypt"
	secp256k1 "github.com/skycoin/skycoin/src/cipher/secp256k1-go"
	"github.com/skycoin/skycoin/src/wallet"
	"github.com/skycoin/skycoin/src/wallet/bip44wallet"
	"github.com/skycoin/skycoin/src/wallet/collection"
	"github.com/skycoin/skycoin/src/wallet/deterministic"
	"github.com/skycoin/skycoin/src/wallet/xpubwallet"
)

var xorErrs = map[error]string{
	encrypt.ErrMissingPassword:       "ErrMissingPassword",
	encrypt.ErrDataTooLarge:          "ErrDataTooLarge",
	encrypt.ErrInvalidChecksumLength: "ErrInvalidChecksumLength",
	encrypt.ErrInvalidChecksum:       "ErrInvalidChecksum",
	encrypt.ErrInvalidNonceLength:    "ErrInvalidNonceLength",
	encrypt.ErrInvalidBlockSize:      "ErrInvalidBlockSize",
	encrypt.ErrReadDataHashFailed:    "ErrReadDataHashFailed",
	encrypt.ErrInvalidPassword:       "ErrInvalidPassword",
	encrypt.ErrReadDataLengthFailed:  "ErrReadDataLengthFailed",
	encrypt.ErrInvalidDataLength:     "ErrInvalidDataLength",
	io.EOF:                           "EOF",
}

var walletErrs = map[error]string{
	wallet.ErrInvalidPassword:   "ErrInvalidPassword",
	wallet.ErrWalletEncrypted:   "ErrWalletEncrypted",
	wallet.ErrMissingPassword:   "ErrMissingPassword",
	wallet.ErrWalletNotEncrypted: "ErrWalletNotEncrypted",
}

// the scrypt work factor used for every valid ciphertext built here (exported struct fields)
var lowScrypt = encrypt.ScryptChacha20poly1305{N: 1 << 4, R: 8, P: 1, KeyLen: 32}

type meta struct {
	N      int    `json:"n"`
	R      int    `json:"r"`
	P      int    `json:"p"`
	KeyLen int    `json:"keyLen"`
	Salt   []byte `json:"salt"`
	Nonce  []byte `json:"nonce"`
}

// paramsSafe: may the harness itself call scrypt.Key with these parameters (bounded memory/time)?
func paramsSafe(N, r, p, keyLen int) bool {
	if N <= 1 || N&(N-1) != 0 {
		return true // rejected by the first check
	}
	if r <= 0 || p <= 0 {
		return true // error or immediate panic, nothing allocated
	}
	if r > 1<<20 || p > 1<<20 || N > 1<<50 {
		return false
	}
	if 128*N*r > 1<<48 {
		return true // makeslice panics before allocating
	}
	return 128*N*r <= 1<<24 && p <= 4 && keyLen <= 1<<16
}

func execSkey(f []string) string {
	N, r, p, k := int(PI64(f[1])), int(PI64(f[2])), int(PI64(f[3])), int(PI64(f[4]))
	if !paramsSafe(N, r, p, k) {
		return "skipped-unsafe"
	}
	_, err := scrypt.Key([]byte("pw"), []byte("salt"), N, r, p, k)
	if err != nil {
		return "err other"
	}
	return "ok"
}

func execB64(f []string) string {
	data := PHex(f[1])
	enc := base64.StdEncoding
	buf := make([]byte, enc.DecodedLen(len(data)))
	n, err := enc.Decode(buf, data)
	if err != nil {
		return "err"
	}
	return "ok " + Hex(buf[:n])
}

func execSdec(f []string) string {
	out, err := lowScrypt.Decrypt(PHex(f[1]), PHex(f[2]))
	if err != nil {
		return "err other"
	}
	return "ok " + Hex(out)
}

func execXdec(f []string) string {
	out, err := encrypt.Sha256Xor{}.Decrypt(PHex(f[1]), PHex(f[2]))
	if err != nil {
		return "err " + ErrName(err, xorErrs)
	}
	return "ok " + Hex(out)
}

func execEnc(f []string) string {
	data, pw := PHex(f[1]), PHex(f[2])
	var c crypto.Cryptor = lowScrypt
	if f[0] == "xenc" {
		c = encrypt.Sha256Xor{}
	}
	ct, err := c.Encrypt(data, pw)
	if err != nil {
		return "err other"
	}
	pt, err := c.Decrypt(ct, pw)
	if err != nil {
		return "decrypt-failed"
	}
	if !bytes.Equal(pt, data) {
		return "ok different"
	}
	// any other password must be rejected
	if _, err := c.Decrypt(ct, append([]byte("x"), pw...)); err == nil {
		return "ok wrong-password-accepted"
	}
	return "ok same"
}

// execXref: the ciphertext itself is handed to the driver, which decrypts it with the REFERENCE
// (the Lean model of the construction with Lean's SHA-256): Encrypt must produce the reference
// ciphertext for the nonce it drew, not merely something its own Decrypt accepts.
func execXref(f []string) string {
	data, pw := PHex(f[1]), PHex(f[2])
	c := encrypt.Sha256Xor{}
	ct, err := c.Encrypt(data, pw)
	if err != nil {
		return "err other"
	}
	rt := "same"
	pt, err := c.Decrypt(ct, pw)
	if err != nil {
		rt = "decrypt-failed"
	} else if !bytes.Equal(pt, data) {
		rt = "different"
	}
	return "ok ct=" + Hex(ct) + " rt=" + rt
}

// execXafter: a sha256-xor round trip of <n> bytes, then the op after " :: " in the same process
func execXafter(op string, f []string) string {
	i := strings.Index(op, " :: ")
	if i < 0 {
		panic("harness: xafter without inner op")
	}
	inner := op[i+4:]
	data := NewRng(binary.BigEndian.Uint64(PHex(f[2]))).Bytes(int(PU64(f[1])))
	pw := PHex(f[3])
	big := "ok_same"
	c := encrypt.Sha256Xor{}
	if ct, err := c.Encrypt(data, pw); err != nil {
		big = "err"
	} else if pt, err := c.Decrypt(ct, pw); err != nil {
		big = "decrypt-failed"
	} else if !bytes.Equal(pt, data) {
		big = "different"
	}
	out := func() (out string) {
		defer func() {
			if r := recover(); r != nil {
				out = fmt.Sprintf("panic %v", r)
			}
		}()
		return c18Exec(inner)
	}()
	return "big=" + big + " " + out
}

// ---- wallets ----

var secretKeys = map[string]bool{"seed": true, "lastSeed": true, "seedPassphrase": true, "secret_key": true,
	"secret": true, "private_key": true}

// clearSecrets walks the serialised JSON and returns every non-empty value of a secret-bearing field.
func clearSecrets(b []byte) []string {
	var v interface{}
	if err := json.Unmarshal(b, &v); err != nil {
		panic("harness: wallet JSON: " + err.Error())
	}
	var out []string
	var walk func(x interface{})
	walk = func(x interface{}) {
		switch t := x.(type) {
		case map[string]interface{}:
			for k, val := range t {
				if s, ok := val.(string); ok && secretKeys[k] && s != "" {
					out = append(out, s)
				}
				walk(val)
			}
		case []interface{}:
			for _, e := range t {
				walk(e)
			}
		}
	}
	walk(v)
	sort.Strings(out)
	return out
}

func mkWallet(typ string, ct crypto.CryptoType, seed []byte, n int) wallet.Wallet {
	opts := []wallet.Option{wallet.OptionGenerateN(uint64(n)), wallet.OptionCryptoType(ct)}
	switch typ {
	case "deterministic":
		w, err := deterministic.NewWallet("d.wlt", "label", hex.EncodeToString(seed), opts...)
		must(err)
		return w
	case "bip44":
		ent := make([]byte, 16)
		copy(ent, seed)
		m, err := bip39.NewMnemonic(ent)
		must(err)
		w, err := bip44wallet.NewWallet("b.wlt", "label", m, "pp"+hex.EncodeToString(seed[:2]), opts...)
		must(err)
		return w
	case "collection":
		var keys []cipher.SecKey
		for i := 0; i < n; i++ {
			_, s, err := cipher.GenerateDeterministicKeyPair(append(append([]byte{}, seed...), byte(i)))
			must(err)
			keys = append(keys, s)
		}
		w, err := collection.NewWallet("c.wlt", "label", wallet.OptionCollectionPrivateKeys(keys), wallet.OptionCryptoType(ct))
		must(err)
		return w
	}
	panic("harness: wallet type " + typ)
}

// reloadUnlock parses the locked wallet's serialised form with the type's loader and unlocks that.
func reloadUnlock(typ string, locked, pw, orig []byte) string {
	var l wallet.Loader
	switch typ {
	case "deterministic":
		l = &deterministic.Loader{}
	case "bip44":
		l = &bip44wallet.Loader{}
	case "collection":
		l = &collection.Loader{}
	}
	w, err := l.Load(locked)
	if err != nil {
		return "loaderr"
	}
	w.SetFilename(map[string]string{"deterministic": "d.wlt", "bip44": "b.wlt", "collection": "c.wlt"}[typ])
	u, err := w.Unlock(pw)
	if err != nil {
		return "err:" + wErr(err)
	}
	ub, err := u.Serialize()
	must(err)
	if bytes.Equal(ub, orig) {
		return "same"
	}
	return "different"
}

func must(err error) {
	if err != nil {
		panic("harness: " + err.Error())
	}
}

func wErr(err error) string {
	if err == nil {
		return "nil"
	}
	return ErrName(err, walletErrs)
}

func execLock(f []string) string {
	typ, ct := f[1], crypto.CryptoType(f[2])
	seed, n, pw, pw2 := PHex(f[3]), int(PU64(f[4])), PHex(f[5]), PHex(f[6])
	w := mkWallet(typ, ct, seed, n)
	orig, err := w.Serialize()
	must(err)
	origSecrets := clearSecrets(orig)
	if err := w.Lock(pw); err != nil {
		return "lock=" + wErr(err)
	}
	locked, err := w.Serialize()
	must(err)
	clear := len(clearSecrets(locked))
	leak := 0
	for _, s := range origSecrets {
		if bytes.Contains(locked, []byte(s)) {
			leak++
		}
	}
	// Unlock / Clone are PURE: the wallet the call is made on must be byte-for-byte what it was, and
	// must still be free of every secret, whatever happens to the returned / cloned wallet
	purity := "ok"
	check := func(what string) {
		if purity != "ok" {
			return
		}
		now, err := w.Serialize()
		must(err)
		if !bytes.Equal(now, locked) {
			purity = "changed-after-" + what
		}
		for _, s := range origSecrets {
			if bytes.Contains(now, []byte(s)) {
				purity = "leak-after-" + what
			}
		}
	}
	u, err := w.Unlock(pw)
	check("unlock")
	same := "err:" + wErr(err)
	if err == nil {
		ub, err := u.Serialize()
		must(err)
		if bytes.Equal(ub, orig) {
			same = "same"
		} else {
			same = "different"
		}
		// what is done to the unlocked copy stays in the copy
		u.SetLabel("changed in the copy")
		_, gerr := u.GenerateAddresses(wallet.OptionGenerateN(1))
		_ = gerr
		check("use-of-unlocked-copy")
		u.Erase()
		check("erase-of-unlocked-copy")
	}
	_, werr := w.Unlock(pw2)
	check("failed-unlock")
	_, eerr := w.Unlock(nil)
	check("failed-unlock")
	c := w.Clone()
	if cu, err := c.Unlock(pw); err == nil {
		cu.Erase()
	}
	c.SetLabel("clone")
	c.Erase()
	check("use-of-clone")
	again := w.Lock(pw)
	check("refused-lock")
	// reload the locked wallet from its serialised form and unlock that too
	reload := "reload=" + reloadUnlock(typ, locked, pw, orig)
	return fmt.Sprintf("lock=ok nsecrets=%d clear=%d leak=%d enc=%v unlock=%s wrong=%s emptypw=%s again=%s %s purity=%s",
		len(origSecrets), clear, leak, w.IsEncrypted(), same, wErr(werr), wErr(eerr), wErr(again), reload, purity)
}

type lastActive struct{ keep []int; call *int }

func (f lastActive) AddressesActivity(addrs []cipher.Addresser) ([]bool, error) {
	k := 0
	if *f.call < len(f.keep) {
		k = f.keep[*f.call]
	}
	*f.call++
	out := make([]bool, len(addrs))
	for i := range out {
		out[i] = i == k-1
	}
	return out, nil
}

// execLockExt: a wallet that is EXTENDED WHILE LOCKED (bip44: external chain, change chain and a scan
// with activity on both chains, directly on the locked wallet; the others through wallet.GuardUpdate)
// and then unlocked must be, entry by entry and secret by secret, the wallet a never-locked twin of
// the same seed is after the same extension; every entry must verify (address of pubkey, pubkey of
// secret key); and that must survive Serialize/Load of the locked wallet and a second lock/unlock.
//
//	lockext <type> <crypto> <seedhex> <n> <pwhex> <ext> <chg> <scan> <keepExt> <keepChg>
func execLockExt(f []string) string {
	typ, ct := f[1], crypto.CryptoType(f[2])
	seed, n, pw := PHex(f[3]), int(PU64(f[4])), PHex(f[5])
	ext, chg, scanN := PU64(f[6]), PU64(f[7]), PU64(f[8])
	keep := []int{int(PU64(f[9])), int(PU64(f[10]))}
	w := mkWallet(typ, ct, seed, n)
	twin := mkWallet(typ, ct, seed, n)
	twin.SetTimestamp(w.Timestamp())
	extend := func(x wallet.Wallet) error {
		if typ == "collection" {
			return nil
		}
		if _, err := x.GenerateAddresses(wallet.OptionGenerateN(ext)); err != nil {
			return err
		}
		if typ == "bip44" {
			if _, err := x.GenerateAddresses(wallet.OptionGenerateN(chg), wallet.OptionChange()); err != nil {
				return err
			}
		}
		call := 0
		_, err := x.ScanAddresses(scanN, lastActive{keep, &call})
		return err
	}
	must(extend(twin))
	must(w.Lock(pw))
	var err error
	if typ == "bip44" {
		err = extend(w) // bip44 wallets derive addresses without being unlocked
	} else {
		err = wallet.GuardUpdate(w, pw, extend)
	}
	if err != nil {
		return "err extend"
	}
	// through the serialised form
	locked, err := w.Serialize()
	must(err)
	var l wallet.Loader
	switch typ {
	case "deterministic":
		l = &deterministic.Loader{}
	case "bip44":
		l = &bip44wallet.Loader{}
	case "collection":
		l = &collection.Loader{}
	}
	w2, err := l.Load(locked)
	if err != nil {
		return "err load"
	}
	w2.SetFilename(w.Filename())
	want, err := twin.Serialize()
	must(err)
	cmp := func(x wallet.Wallet) string {
		u, err := x.Unlock(pw)
		if err != nil {
			return "err:" + wErr(err)
		}
		es, err := u.GetEntries()
		must(err)
		for i, e := range es {
			if err := e.Verify(); err != nil {
				return fmt.Sprintf("bad-entry-%d", i)
			}
		}
		ub, err := u.Serialize()
		must(err)
		if !bytes.Equal(ub, want) {
			return "different"
		}
		return "same"
	}
	a := cmp(w)
	b := cmp(w2)
	// once more: what Unlock wrote back into the locked wallet must decrypt to the same
	c := cmp(w)
	return fmt.Sprintf("ok unlock=%s reloaded=%s again=%s", a, b, c)
}

// execAlias: a wallet and its Clone share nothing — for all four wallet types, locking, erasing,
// relabelling or extending the clone leaves the original's serialisation unchanged, and vice versa.
func execAlias(f []string) string {
	typ, seed, n := f[1], PHex(f[2]), int(PU64(f[3]))
	var w wallet.Wallet
	if typ == "xpub" {
		ent := make([]byte, 16)
		copy(ent, seed)
		m, err := bip39.NewMnemonic(ent)
		must(err)
		sd, err := bip39.NewSeed(m, "")
		must(err)
		c, err := bip44.NewCoin(sd, bip44.CoinTypeSkycoin)
		must(err)
		acct, err := c.Account(0)
		must(err)
		ext, err := acct.External()
		must(err)
		w, err = xpubwallet.NewWallet("x.wlt", "label", ext.PublicKey().String(), wallet.OptionGenerateN(uint64(n)))
		must(err)
	} else {
		w = mkWallet(typ, crypto.CryptoTypeSha256Xor, seed, n)
	}
	before, err := w.Serialize()
	must(err)
	unchanged := func(x wallet.Wallet, ref []byte) bool {
		b, err := x.Serialize()
		must(err)
		return bytes.Equal(b, ref)
	}
	steps := []struct {
		name string
		do   func(c wallet.Wallet)
	}{
		{"label", func(c wallet.Wallet) { c.SetLabel("other") }},
		{"generate", func(c wallet.Wallet) { _, _ = c.GenerateAddresses(wallet.OptionGenerateN(2)) }},
		{"lock", func(c wallet.Wallet) { _ = c.Lock([]byte("pw")) }},
		{"erase", func(c wallet.Wallet) { c.Erase() }},
	}
	for _, st := range steps {
		c := w.Clone()
		st.do(c)
		if !unchanged(w, before) {
			return "aliased clone-" + st.name
		}
	}
	// and the other way round: the clone is a snapshot
	c := w.Clone()
	snap, err := c.Serialize()
	must(err)
	for _, st := range steps {
		w2 := c.Clone()
		st.do(w2)
		if !unchanged(c, snap) {
			return "aliased original-" + st.name
		}
	}
	return "ok pure"
}

// ---- exec ----

func c18Exec(op string) string {
	f := Fields(op)
	switch f[0] {
	case "b64":
		return execB64(f)
	case "skey":
		return execSkey(f)
	case "sdec", "sdec-alloc":
		return execSdec(f)
	case "xdec":
		return execXdec(f)
	case "senc", "xenc":
		return execEnc(f)
	case "xref":
		return execXref(f)
	case "xafter":
		return execXafter(op, f)
	case "lock":
		return execLock(f)
	case "alias":
		return execAlias(f)
	case "lockext":
		return execLockExt(f)
	case "lockl", "lockfix", "svcl", "svcfix":
		return legacyExec(op)
	}
	panic("harness: unknown op " + f[0])
}

// ---- generators ----

// mkScrypt builds [len][json meta][ciphertext] exactly as Encrypt does, with chosen salt and nonce.
func mkScrypt(data, pw, salt, nonce []byte) (raw []byte, metaJSON []byte) {
	dk, err := scrypt.Key(pw, salt, lowScrypt.N, lowScrypt.R, lowScrypt.P, lowScrypt.KeyLen)
	must(err)
	m := meta{N: lowScrypt.N, R: lowScrypt.R, P: lowScrypt.P, KeyLen: lowScrypt.KeyLen, Salt: salt, Nonce: nonce}
	ms, err := json.Marshal(m)
	must(err)
	l := make([]byte, 2)
	binary.LittleEndian.PutUint16(l, uint16(len(ms)))
	ad := append(l, ms...)
	aead, err := chacha20poly1305.New(dk)
	must(err)
	ct := aead.Seal(nil, nonce, data, ad)
	return append(append([]byte{}, ad...), ct...), ms
}

func b64(raw []byte) []byte {
	buf := make([]byte, base64.StdEncoding.EncodedLen(len(raw)))
	base64.StdEncoding.Encode(buf, raw)
	return buf
}

// oracles for the model: what json.Unmarshal returns on the metadata bytes the specification
// selects, and what scrypt + chacha20poly1305 return on the parsed parameters.
func sdecOp(data, pw []byte) string {
	um, fin, name := "-", "-", "sdec"
	raw := make([]byte, base64.StdEncoding.DecodedLen(len(data)))
	n, err := base64.StdEncoding.Decode(raw, data)
	if err == nil {
		raw = raw[:n]
		if len(raw) >= 2 {
			L := int(binary.LittleEndian.Uint16(raw[:2]))
			if 2+L <= len(raw) {
				var m meta
				if err := json.Unmarshal(raw[2:2+L], &m); err != nil {
					um = "err"
				} else {
					um = fmt.Sprintf("%d,%d,%d,%d,%s,%s", m.N, m.R, m.P, m.KeyLen, Hex(m.Salt), Hex(m.Nonce))
					// the input class of the known finding: otherwise valid metadata whose scrypt work area
					// (128*N*r bytes) exceeds what the allocator can ever provide
					if len(pw) > 0 && len(m.Nonce) == 12 && m.KeyLen == 32 && m.R > 0 && m.R <= 1<<10 && m.P > 0 && m.P <= 1<<10 &&
						m.N > 1 && m.N&(m.N-1) == 0 && m.N <= 1<<52 && 128*m.N*m.R > 1<<48 {
						name = "sdec-alloc"
					}
					if len(pw) > 0 && len(m.Nonce) == 12 && m.KeyLen == 32 && m.R > 0 && m.P > 0 && m.N > 1 && m.N&(m.N-1) == 0 &&
						128*m.N*m.R <= 1<<24 && m.P <= 4 && m.R < 1<<20 && m.N < 1<<40 {
						dk, err := scrypt.Key(pw, m.Salt, m.N, m.R, m.P, m.KeyLen)
						if err == nil {
							aead, err := chacha20poly1305.New(dk)
							must(err)
							ct := raw[2+L:]
							if len(ct) >= 16 {
								pt, err := aead.Open(nil, m.Nonce, ct, raw[:2+L])
								if err != nil {
									fin = "err"
								} else {
									fin = "ok:" + Hex(pt)
								}
							}
						}
					}
				}
			}
		}
	}
	return fmt.Sprintf("%s %s %s um=%s fin=%s", name, Hex(data), Hex(pw), um, fin)
}

func withMeta(metaJSON []byte, ct []byte, lenField int) []byte {
	l := make([]byte, 2)
	binary.LittleEndian.PutUint16(l, uint16(lenField))
	return b64(append(append(l, metaJSON...), ct...))
}

func metaJSON(N, R, P, K interface{}, salt, nonce []byte) []byte {
	return []byte(fmt.Sprintf(`{"n":%v,"r":%v,"p":%v,"keyLen":%v,"salt":"%s","nonce":"%s"}`, N, R, P, K,
		base64.StdEncoding.EncodeToString(salt), base64.StdEncoding.EncodeToString(nonce)))
}

// mkXor builds a sha256-xor ciphertext exactly as Encrypt does, with a chosen nonce.
func mkXor(data, pw, nonce []byte) []byte {
	lb := make([]byte, 4)
	binary.LittleEndian.PutUint32(lb, uint32(len(data)))
	ldata := append(lb, data...)
	if m := len(ldata) % 32; m > 0 {
		ldata = append(ldata, make([]byte, 32-m)...)
	}
	blocks := []cipher.SHA256{cipher.SumSHA256(ldata)}
	for i := 0; i < len(ldata)/32; i++ {
		var b cipher.SHA256
		copy(b[:], ldata[i*32:(i+1)*32])
		blocks = append(blocks, b)
	}
	hashNonce := cipher.SumSHA256(nonce)
	key := secp256k1.Secp256k1Hash(pw)
	var enc []byte
	for i := range blocks {
		ib := make([]byte, 32)
		binary.PutVarint(ib, int64(i))
		inh := cipher.SumSHA256(append(ib, hashNonce[:]...))
		var kh cipher.SHA256
		copy(kh[:], key)
		h := cipher.AddSHA256(kh, inh)
		x := blocks[i].Xor(h)
		enc = append(enc, x[:]...)
	}
	nd := append(append([]byte{}, nonce...), enc...)
	cs := cipher.SumSHA256(nd)
	return append(cs[:], nd...)
}

func xdecOp(data, pw []byte) string {
	key := "-"
	if len(pw) > 0 {
		key = Hex(secp256k1.Secp256k1Hash(pw))
	}
	return fmt.Sprintf("xdec %s %s key=%s", Hex(data), Hex(pw), key)
}

func c18Gen(r *Rng, tier string, emit func(string)) {
	scale := 1
	if tier == "thorough" {
		scale = 12
	}
	pwOf := func() []byte { return r.Bytes(1 + r.Intn(12)) }

	// --- LARGE plaintexts first, small ones after them in the same process (own stream).  The sha256-xor block
	// index is a varint: 1 byte up to block 63, 2 bytes from block 64 (plaintext >= 2013 bytes; the secrets of a
	// wallet with ~18 addresses), 3 bytes from block 8192.  Whatever a long operation leaves behind must not
	// change a later short one: round trips, the ciphertext against the reference (xref), reference-built
	// ciphertexts (xdec), and lock / unlock of big then small wallets.
	{
		cq := *r
		cq.U64()
		lr := NewRng(cq.U64() ^ 0xB16)
		lpw := func() []byte { return lr.Bytes(1 + lr.Intn(12)) }
		// `xafter <n> <seed> <pw> :: <op>`: ONE op = a sha256-xor round trip of n bytes, then <op> (so that a replay of
		// the line alone reproduces what the long operation did to the short one)
		after := func(n int, op string) string {
			return fmt.Sprintf("xafter %d %s %s :: %s", n, Hex(lr.Bytes(8)), Hex(lpw()), op)
		}
		smallOps := func() []string {
			var out []string
			d, pw := lr.Bytes(lr.Intn(70)), lpw()
			out = append(out, fmt.Sprintf("xenc %s %s", Hex(d), Hex(pw)))
			d, pw = lr.Bytes(lr.Intn(70)), lpw()
			out = append(out, fmt.Sprintf("xref %s %s key=%s", Hex(d), Hex(pw), Hex(secp256k1.Secp256k1Hash(pw))))
			d, pw = lr.Bytes(lr.Intn(70)), lpw()
			out = append(out, xdecOp(b64(mkXor(d, pw, lr.Bytes(32))), pw))
			return out
		}
		xorT := string(crypto.CryptoTypeSha256Xor)
		smallLock := func() string {
			pw := lpw()
			return fmt.Sprintf("lock %s %s %s %d %s %s", []string{"deterministic", "bip44", "collection"}[lr.Intn(3)], xorT, Hex(lr.Bytes(16)),
				1+lr.Intn(3), Hex(pw), Hex(append([]byte{2}, pw...)))
		}
		sizes := []int{1980, 2012, 2013, 2016, 2044, 2045, 2048, 2080, 4100}
		if tier == "thorough" {
			sizes = append(sizes, 2011, 2014, 2047, 2077, 3000, 8200, 16500, 70000, 262109, 262110, 262200)
		}
		for i, n := range sizes {
			d, pw := lr.Bytes(n), lpw()
			switch {
			case n > 20000:
				emit(fmt.Sprintf("xenc %s %s", Hex(d), Hex(pw))) // the Lean reference is not run on these
			case i%3 == 0:
				emit(fmt.Sprintf("xenc %s %s", Hex(d), Hex(pw)))
			case i%3 == 1:
				emit(fmt.Sprintf("xref %s %s key=%s", Hex(d), Hex(pw), Hex(secp256k1.Secp256k1Hash(pw))))
			default:
				emit(xdecOp(b64(mkXor(d, pw, lr.Bytes(32))), pw))
			}
			if n > 4000 && n < 20000 {
				emit(fmt.Sprintf("senc %s %s", Hex(d), Hex(pw)))
			}
			for _, op := range smallOps() {
				emit(after(n, op))
			}
			if i%3 == 0 {
				emit(after(n, smallLock()))
			}
		}
		for i, n := range []int{18, 25, 40, 17, 19, 64} {
			if tier != "thorough" && i >= 3 {
				break
			}
			for _, typ := range []string{"deterministic", "bip44", "collection"} {
				pw := lpw()
				emit(fmt.Sprintf("lock %s %s %s %d %s %s", typ, xorT, Hex(lr.Bytes(16)), n, Hex(pw), Hex(append([]byte{2}, pw...))))
				emit(smallLock())
			}
		}
	}

	// --- wallets loaded from sparse / legacy files (own stream; the slow default-cipher cases run in the
	// background while everything else is generated and are collected at the end) ---
	cp := *r
	finishLegacy := legacyGen(NewRng(cp.U64()^0xC18D), tier, emit)
	defer finishLegacy()

	// --- base64 model ---
	alpha := []byte("ABCDEFGHIJKLMNOPQRSTUVWXYZabcdefghijklmnopqrstuvwxyz0123456789+/=\n\r -_.")
	emit("b64 -")
	for _, s := range []string{"=", "==", "A", "AA", "AAA", "AAAA", "QQ==", "QQ=", "QQ=Q", "QQ==Q", "QQQ=", "QQQ=QQQQ", "\n", "\n\n\n\n",
		"QQ\n==", "QQ=\n=", "QQ==\n", "Q\nQ\r\n==", "====", "A===", "AA=A", "QUJD", "QUJDRA==", "QUJDREVGR0g=", "QUJD\nREVG", "QUJDREVGR0hJSktMTU5PUA=="} {
		emit("b64 " + Hex([]byte(s)))
	}
	for i := 0; i < 400*scale; i++ {
		n := r.Intn(14)
		b := make([]byte, n)
		for j := range b {
			b[j] = alpha[r.Intn(len(alpha))]
		}
		if r.Chance(50) { // mostly valid: encode random bytes, then maybe disturb one char
			b = b64(r.Bytes(r.Intn(20)))
			if len(b) > 0 && r.Chance(40) {
				b[r.Intn(len(b))] = alpha[r.Intn(len(alpha))]
			}
			if r.Chance(20) {
				k := r.Intn(len(b) + 1)
				b = append(b[:k:k], append([]byte{'\n'}, b[k:]...)...)
			}
		}
		emit("b64 " + Hex(b))
	}

	// --- scrypt.Key parameter checks ---
	ns := []int64{-1, 0, 1, 2, 3, 4, 16, 1 << 10, 1<<10 + 1, 1 << 14, 1 << 30, 1 << 40, 1 << 44, 1 << 50, 1 << 62, -1 << 63}
	rs := []int64{-1 << 63, -1 << 34, -8, -1, 0, 1, 2, 8, 16, 1 << 20, 1 << 29, 1 << 30, 1 << 33, 1 << 55, 1<<63 - 1}
	ps := []int64{-1 << 63, -1 << 57, -1 << 31, -1 << 30, -1, 0, 1, 2, 4, 1 << 29, 1 << 30, 1 << 31, 1<<63 - 1}
	ks := []int64{-100, -32, -1, 0, 1, 31, 32, 33, 64}
	for _, N := range ns {
		for _, R := range rs {
			for _, P := range ps {
				k := ks[r.Intn(len(ks))]
				if paramsSafe(int(N), int(R), int(P), int(k)) {
					emit(fmt.Sprintf("skey %d %d %d %d", N, R, P, k))
				}
			}
		}
	}
	for _, k := range ks {
		emit(fmt.Sprintf("skey 16 8 1 %d", k))
		emit(fmt.Sprintf("skey 2 1 1 %d", k))
	}

	// --- scrypt-chacha20poly1305 Decrypt ---
	salt0, nonce0 := r.Bytes(32), r.Bytes(12)
	emit(sdecOp([]byte{}, []byte("pw")))
	emit(sdecOp([]byte("\n"), []byte("pw")))
	emit(sdecOp([]byte("\n\n\n\n"), []byte("pw")))
	emit(sdecOp([]byte{}, []byte{}))
	for _, raw := range [][]byte{{0x41}, {0x41, 0x42}, {0, 0}, {1, 0}, {0xfe, 0xff}, {0xff, 0xff}, {0xfd, 0xff}, {0, 0, 0}, {1, 0, '{'}, {2, 0, '{', '}'},
		{2, 0, '{', '}', 1, 2, 3}, {0xfe, 0xff, 1, 2, 3}, {0xff, 0xff, 9}} {
		emit(sdecOp(b64(raw), []byte("pw")))
	}
	okMeta := func(N, R, P, K interface{}, salt, nonce []byte) {
		mj := metaJSON(N, R, P, K, salt, nonce)
		emit(sdecOp(withMeta(mj, r.Bytes(16+r.Intn(20)), len(mj)), []byte("pw")))
	}
	for _, nl := range []int{0, 1, 8, 11, 12, 13, 16, 24, 32} {
		okMeta(16, 8, 1, 32, salt0, r.Bytes(nl))
	}
	for _, sl := range []int{0, 1, 31, 33, 64} {
		okMeta(16, 8, 1, 32, r.Bytes(sl), nonce0)
	}
	for _, N := range []interface{}{-1, 0, 1, 2, 3, 16, 17, 1 << 14, int64(1) << 44, int64(1) << 50, "9223372036854775808", "1e3", "1.5", `"16"`, "null", "true"} {
		okMeta(N, 8, 1, 32, salt0, nonce0)
	}
	for _, R := range []interface{}{int64(-1) << 63, -8, -1, 0, 1, 2, 8, int64(1) << 33, int64(9223372036854775807), "null", `"8"`} {
		okMeta(16, R, 1, 32, salt0, nonce0)
		okMeta(16, R, 0, 32, salt0, nonce0)
	}
	for _, P := range []interface{}{int64(-1) << 63, int64(-1) << 57, -1, 0, 1, 2, int64(1) << 30, int64(9223372036854775807), "null"} {
		okMeta(16, 8, P, 32, salt0, nonce0)
		okMeta(16, 0, P, 32, salt0, nonce0)
	}
	for _, K := range []interface{}{-100, -32, -1, 0, 1, 16, 31, 32, 33, 64} {
		okMeta(16, 8, 1, K, salt0, nonce0)
		okMeta(2, 1, 1, K, salt0, nonce0)
	}
	for _, js := range []string{"", "{}", "[]", "null", "{", `{"n":16}`, `{"N":16,"R":8,"P":1,"KEYLEN":32}`, `{"n":16,"r":8,"p":1,"keyLen":32,"salt":"!!","nonce":"AAAA"}`,
		`{"n":16,"r":8,"p":1,"keyLen":32,"salt":null,"nonce":null}`, `{"n":16,"r":8,"p":1,"keyLen":32,"nonce":"AAAAAAAAAAAAAAAA"}`,
		`{"n":16,"r":8,"p":1,"keyLen":32,"nonce":"AAAAAAAAAAAAAAAA","nonce":""}`, `{"n":2,"r":1,"p":1,"keyLen":32,"salt":"","nonce":"AAAAAAAAAAAAAAAA"} `} {
		emit(sdecOp(withMeta([]byte(js), r.Bytes(20), len(js)), []byte("pw")))
	}
	for i := 0; i < 12*scale; i++ {
		data, pw := r.Bytes(r.Intn(80)), pwOf()
		raw, ms := mkScrypt(data, pw, r.Bytes(32), r.Bytes(12))
		good := b64(raw)
		emit(sdecOp(good, pw))
		emit(sdecOp(good, append([]byte{1}, pw...)))
		emit(sdecOp(good, []byte{}))
		// length prefix edits
		for _, L := range []int{0, 1, len(ms) - 1, len(ms) + 1, len(raw) - 3, len(raw) - 2, len(raw) - 1, len(raw), 65533, 65534, 65535} {
			if L < 0 {
				continue
			}
			bad := append([]byte{}, raw...)
			binary.LittleEndian.PutUint16(bad, uint16(L))
			emit(sdecOp(b64(bad), pw))
		}
		// truncations
		for _, k := range []int{0, 1, 2, 3, len(ms) + 1, len(ms) + 2, len(ms) + 3, len(ms) + 17, len(ms) + 18, len(raw) - 1} {
			if k <= len(raw) {
				emit(sdecOp(b64(raw[:k]), pw))
			}
		}
		// single byte mutations of the raw bytes and of the base64 text
		muts := 30
		for j := 0; j < muts; j++ {
			bad := append([]byte{}, raw...)
			bad[r.Intn(len(bad))] ^= byte(1 << uint(r.Intn(8)))
			emit(sdecOp(b64(bad), pw))
			txt := append([]byte{}, good...)
			txt[r.Intn(len(txt))] = alpha[r.Intn(len(alpha))]
			emit(sdecOp(txt, pw))
		}
	}
	if tier == "thorough" {
		// every single-byte substitution of the metadata region of one valid ciphertext by a few values
		data, pw := r.Bytes(20), pwOf()
		raw, ms := mkScrypt(data, pw, r.Bytes(32), r.Bytes(12))
		for i := 0; i < 2+len(ms); i++ {
			for _, v := range []byte{0, '0', '9', '"', '-', '}', 0xff} {
				bad := append([]byte{}, raw...)
				bad[i] = v
				emit(sdecOp(b64(bad), pw))
			}
		}
	}
	for i := 0; i < 60*scale; i++ {
		emit(sdecOp(r.Bytes(r.Intn(40)), pwOf()))
		emit(sdecOp(b64(r.Bytes(r.Intn(60))), pwOf()))
	}

	// --- sha256-xor Decrypt ---
	emit(xdecOp([]byte{}, []byte("pw")))
	emit(xdecOp([]byte{}, []byte{}))
	emit(xdecOp([]byte("\n"), []byte("pw")))
	for i := 0; i < 10*scale; i++ {
		var data []byte
		switch i % 5 {
		case 0:
			data = []byte{}
		case 1:
			data = r.Bytes(28) // length+data exactly one block
		case 2:
			data = r.Bytes(29)
		default:
			data = r.Bytes(r.Intn(100))
		}
		pw := pwOf()
		raw := mkXor(data, pw, r.Bytes(32))
		good := b64(raw)
		emit(xdecOp(good, pw))
		emit(xdecOp(good, append([]byte{1}, pw...)))
		for _, k := range []int{0, 1, 31, 32, 33, 63, 64, 65, 95, 96, 97, 127, 128, len(raw) - 1} {
			if k <= len(raw) && k >= 0 {
				t := append([]byte{}, raw[:k]...)
				emit(xdecOp(b64(t), pw))
				if k >= 32 { // re-checksummed truncation reaches the later checks
					cs := cipher.SumSHA256(t[32:])
					copy(t, cs[:])
					emit(xdecOp(b64(t), pw))
				}
			}
		}
		for j := 0; j < 20; j++ {
			bad := append([]byte{}, raw...)
			bad[32+r.Intn(len(bad)-32)] ^= byte(1 << uint(r.Intn(8)))
			if r.Chance(70) { // fix the outer checksum so that the inner checks are reached
				cs := cipher.SumSHA256(bad[32:])
				copy(bad, cs[:])
			}
			emit(xdecOp(b64(bad), pw))
		}
		// inner length field edits (decrypt, edit, re-encrypt is what an attacker without the key cannot do;
		// with the key it exercises ErrInvalidDataLength): build from modified plaintext framing
		for _, L := range []uint32{0, 1, uint32(len(data)) + 1, 1 << 16, 1<<32 - 1} {
			emit(xdecOp(b64(mkXorWithLen(data, pw, r.Bytes(32), L)), pw))
		}
	}
	for i := 0; i < 60*scale; i++ {
		emit(xdecOp(r.Bytes(r.Intn(40)), pwOf()))
		emit(xdecOp(b64(r.Bytes(r.Intn(140))), pwOf()))
	}

	// --- real Encrypt/Decrypt round trips (random salt/nonce inside; only the verdict is printed) ---
	for i := 0; i < 8*scale; i++ {
		emit(fmt.Sprintf("senc %s %s", Hex(r.Bytes(r.Intn(100))), Hex(pwOf())))
		emit(fmt.Sprintf("xenc %s %s", Hex(r.Bytes(r.Intn(100))), Hex(pwOf())))
	}
	emit("senc - -")
	emit("xenc - -")

	// --- wallets ---
	cts := []string{string(crypto.CryptoTypeSha256Xor), string(crypto.CryptoTypeScryptChacha20poly1305Insecure)}
	for i := 0; i < 5*scale; i++ {
		for _, typ := range []string{"deterministic", "bip44", "collection"} {
			ct := cts[0]
			if i%4 == 3 {
				ct = cts[1]
			}
			n := 1 + r.Intn(5)
			pw := pwOf()
			pw2 := append([]byte{2}, pw...)
			emit(fmt.Sprintf("lock %s %s %s %d %s %s", typ, ct, Hex(r.Bytes(16)), n, Hex(pw), Hex(pw2)))
		}
	}
	emit(fmt.Sprintf("lock deterministic %s %s 2 - %s", cts[0], Hex(r.Bytes(16)), Hex([]byte("x"))))
	for i := 0; i < 6*scale; i++ {
		for _, typ := range []string{"bip44", "bip44", "deterministic", "collection"} {
			scanN := r.Intn(5)
			k1, k2 := 0, 0
			if scanN > 0 {
				k1, k2 = r.Intn(scanN+1), r.Intn(scanN+1)
			}
			emit(fmt.Sprintf("lockext %s %s %s %d %s %d %d %d %d %d", typ, cts[0], Hex(r.Bytes(16)), 1+r.Intn(3), Hex(pwOf()),
				r.Intn(4), r.Intn(4), scanN, k1, k2))
		}
	}
	for i := 0; i < 3*scale; i++ {
		for _, typ := range []string{"deterministic", "bip44", "collection", "xpub"} {
			emit(fmt.Sprintf("alias %s %s %d", typ, Hex(r.Bytes(16)), 1+r.Intn(4)))
		}
	}
}

// mkXorWithLen is mkXor with an arbitrary inner length field.
func mkXorWithLen(data, pw, nonce []byte, L uint32) []byte {
	lb := make([]byte, 4)
	binary.LittleEndian.PutUint32(lb, L)
	ldata := append(lb, data...)
	if m := len(ldata) % 32; m > 0 {
		ldata = append(ldata, make([]byte, 32-m)...)
	}
	blocks := []cipher.SHA256{cipher.SumSHA256(ldata)}
	for i := 0; i < len(ldata)/32; i++ {
		var b cipher.SHA256
		copy(b[:], ldata[i*32:(i+1)*32])
		blocks = append(blocks, b)
	}
	hashNonce := cipher.SumSHA256(nonce)
	key := secp256k1.Secp256k1Hash(pw)
	var enc []byte
	for i := range blocks {
		ib := make([]byte, 32)
		binary.PutVarint(ib, int64(i))
		inh := cipher.SumSHA256(append(ib, hashNonce[:]...))
		var kh cipher.SHA256
		copy(kh[:], key)
		x := blocks[i].Xor(cipher.AddSHA256(kh, inh))
		enc = append(enc, x[:]...)
	}
	nd := append(append([]byte{}, nonce...), enc...)
	cs := cipher.SumSHA256(nd)
	return append(cs[:], nd...)
}

func main() {
	Main(&Prop{Gen: c18Gen, Exec: c18Exec})
}

var _ = strconv.Itoa
var _ = strings.TrimSpace
