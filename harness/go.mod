module verif/harness

go 1.23

require github.com/skycoin/skycoin v0.0.0

require (
	github.com/mattn/go-colorable v0.0.9 // indirect
	github.com/mattn/go-isatty v0.0.4 // indirect
	github.com/mgutz/ansi v0.0.0-20170206155736-9520e82c474b // indirect
	github.com/sirupsen/logrus v1.1.1 // indirect
	golang.org/x/crypto v0.0.0-20181015023909-0c41d7ab0a0e // indirect
	golang.org/x/sys v0.0.0-20181023152157-44b849a8bc13 // indirect
)

replace github.com/skycoin/skycoin => /repo
