// Package eclib is the GENERATORS' own textbook secp256k1 over math/big (affine coordinates,
// double-and-add). It exists so that the harness generators can build well-formed and deliberately
// extreme inputs (valid signatures, signatures with a chosen s, points, shared secrets) WITHOUT calling
// the implementation under test. It is never the oracle: the oracle is the Lean specification.
package eclib

import "math/big"

var (
	P, _  = new(big.Int).SetString("FFFFFFFFFFFFFFFFFFFFFFFFFFFFFFFFFFFFFFFFFFFFFFFFFFFFFFFEFFFFFC2F", 16)
	N, _  = new(big.Int).SetString("FFFFFFFFFFFFFFFFFFFFFFFFFFFFFFFEBAAEDCE6AF48A03BBFD25E8CD0364141", 16)
	Gx, _ = new(big.Int).SetString("79BE667EF9DCBBAC55A06295CE870B07029BFCDB2DCE28D959F2815B16F81798", 16)
	Gy, _ = new(big.Int).SetString("483ADA7726A3C4655DA4FBFC0E1108A8FD17B448A68554199C47D08FFB10D4B8", 16)
	HalfN = new(big.Int).Rsh(N, 1)
)

// Pt is an affine point; Inf marks the point at infinity.
type Pt struct {
	X, Y *big.Int
	Inf  bool
}

var G = Pt{X: Gx, Y: Gy}
var Infinity = Pt{Inf: true}

func mod(a *big.Int) *big.Int { return new(big.Int).Mod(a, P) }

func Add(a, b Pt) Pt {
	if a.Inf {
		return b
	}
	if b.Inf {
		return a
	}
	var l *big.Int
	if a.X.Cmp(b.X) == 0 {
		if mod(new(big.Int).Add(a.Y, b.Y)).Sign() == 0 {
			return Infinity
		}
		num := mod(new(big.Int).Mul(big.NewInt(3), new(big.Int).Mul(a.X, a.X)))
		den := new(big.Int).ModInverse(mod(new(big.Int).Lsh(a.Y, 1)), P)
		l = mod(new(big.Int).Mul(num, den))
	} else {
		num := mod(new(big.Int).Sub(b.Y, a.Y))
		den := new(big.Int).ModInverse(mod(new(big.Int).Sub(b.X, a.X)), P)
		l = mod(new(big.Int).Mul(num, den))
	}
	x3 := mod(new(big.Int).Sub(new(big.Int).Sub(new(big.Int).Mul(l, l), a.X), b.X))
	y3 := mod(new(big.Int).Sub(new(big.Int).Mul(l, new(big.Int).Sub(a.X, x3)), a.Y))
	return Pt{X: x3, Y: y3}
}

func Mul(k *big.Int, p Pt) Pt {
	acc := Infinity
	q := p
	for i := 0; i < k.BitLen(); i++ {
		if k.Bit(i) == 1 {
			acc = Add(acc, q)
		}
		q = Add(q, q)
	}
	return acc
}

func Neg(p Pt) Pt {
	if p.Inf {
		return p
	}
	return Pt{X: p.X, Y: mod(new(big.Int).Neg(p.Y))}
}

func B32(x *big.Int) []byte {
	b := x.Bytes()
	out := make([]byte, 32)
	copy(out[32-len(b):], b)
	return out
}

// Compress gives 02/03 || X (nil for infinity).
func Compress(p Pt) []byte {
	if p.Inf {
		return nil
	}
	return append([]byte{byte(2 + p.Y.Bit(0))}, B32(p.X)...)
}

// LiftX returns the point with abscissa x and the given parity, ok=false if x^3+7 is not a square or x >= p.
func LiftX(x *big.Int, odd bool) (Pt, bool) {
	if x.Cmp(P) >= 0 || x.Sign() < 0 {
		return Infinity, false
	}
	c := mod(new(big.Int).Add(new(big.Int).Exp(x, big.NewInt(3), P), big.NewInt(7)))
	y := new(big.Int).ModSqrt(c, P)
	if y == nil {
		return Infinity, false
	}
	if (y.Bit(0) == 1) != odd {
		y = mod(new(big.Int).Neg(y))
	}
	return Pt{X: new(big.Int).Set(x), Y: y}, true
}

// Sign is textbook ECDSA with nonce k, low-s normalised; returns r, s, recid (ok=false when r or s is 0).
func Sign(d, z, k *big.Int) (r, s *big.Int, recid int, ok bool) {
	R := Mul(k, G)
	if R.Inf {
		return nil, nil, 0, false
	}
	r = new(big.Int).Mod(R.X, N)
	if R.X.Cmp(N) >= 0 {
		recid |= 2
	}
	if R.Y.Bit(0) == 1 {
		recid |= 1
	}
	kinv := new(big.Int).ModInverse(k, N)
	if kinv == nil {
		return nil, nil, 0, false
	}
	s = new(big.Int).Mul(r, d)
	s.Add(s, z)
	s.Mul(s, kinv)
	s.Mod(s, N)
	if r.Sign() == 0 || s.Sign() == 0 {
		return nil, nil, 0, false
	}
	if s.Cmp(HalfN) > 0 {
		s.Sub(N, s)
		recid ^= 1
	}
	return r, s, recid, true
}

// SignRaw is Sign WITHOUT low-s normalisation (s as computed).
func SignRaw(d, z, k *big.Int) (r, s *big.Int, recid int, ok bool) {
	r, s, recid, ok = Sign(d, z, k)
	if !ok {
		return
	}
	// undo the normalisation if it happened: recompute
	kinv := new(big.Int).ModInverse(k, N)
	s2 := new(big.Int).Mul(r, d)
	s2.Add(s2, z)
	s2.Mul(s2, kinv)
	s2.Mod(s2, N)
	if s2.Cmp(s) != 0 {
		recid ^= 1
	}
	return r, s2, recid, true
}

// KeyForS solves for the secret key d such that signing z with nonce k yields exactly the given s
// (before normalisation): d = (s*k - z) / r mod n. ok=false if r = 0.
func KeyForS(s, z, k *big.Int) (d, r *big.Int, recid int, ok bool) {
	R := Mul(k, G)
	if R.Inf {
		return nil, nil, 0, false
	}
	r = new(big.Int).Mod(R.X, N)
	if r.Sign() == 0 {
		return nil, nil, 0, false
	}
	if R.X.Cmp(N) >= 0 {
		recid |= 2
	}
	if R.Y.Bit(0) == 1 {
		recid |= 1
	}
	rinv := new(big.Int).ModInverse(r, N)
	d = new(big.Int).Mul(s, k)
	d.Sub(d, z)
	d.Mul(d, rinv)
	d.Mod(d, N)
	return d, r, recid, true
}

// Sig65 serialises r ‖ s ‖ recid.
func Sig65(r, s *big.Int, recid int) []byte {
	return append(append(B32(r), B32(s)...), byte(recid))
}

// PointWithY returns a curve point with the given ordinate, if y^2-7 is a cube (p = 7 mod 9, so a cube
// root of a is a^((p+2)/9) whenever one exists). Used to build VALID keys with extreme ordinates.
func PointWithY(y *big.Int) (Pt, bool) {
	yy := new(big.Int).Mod(y, P)
	c := new(big.Int).Mul(yy, yy)
	c.Sub(c, big.NewInt(7))
	c.Mod(c, P)
	e := new(big.Int).Add(P, big.NewInt(2))
	e.Div(e, big.NewInt(9))
	x := new(big.Int).Exp(c, e, P)
	if new(big.Int).Exp(x, big.NewInt(3), P).Cmp(c) != 0 {
		return Infinity, false
	}
	return Pt{X: x, Y: yy}, true
}

// Recover is textbook ECDSA public-key recovery: Q = r^-1 (s*R - z*G) with R the point of abscissa
// r (+ n when recid bit 1 is set; must stay below p) and ordinate parity = recid bit 0.
// ok=false when r, s are out of [1, n-1], the abscissa is not on the curve, or Q is the identity.
func Recover(r, s, z *big.Int, recid int) (Pt, bool) {
	if r.Sign() <= 0 || r.Cmp(N) >= 0 || s.Sign() <= 0 || s.Cmp(N) >= 0 {
		return Infinity, false
	}
	x := new(big.Int).Set(r)
	if recid&2 != 0 {
		x.Add(x, N)
		if x.Cmp(P) >= 0 {
			return Infinity, false
		}
	}
	R, ok := LiftX(x, recid&1 != 0)
	if !ok {
		return Infinity, false
	}
	rinv := new(big.Int).ModInverse(r, N)
	u1 := new(big.Int).Mul(rinv, new(big.Int).Mod(z, N))
	u1.Mod(u1, N)
	u1.Sub(N, u1)
	u1.Mod(u1, N)
	u2 := new(big.Int).Mul(rinv, s)
	u2.Mod(u2, N)
	q := Add(Mul(u2, R), Mul(u1, G))
	if q.Inf {
		return Infinity, false
	}
	return q, true
}

// PminusN is p - n: signatures with r below it have a second reading x = r + n (recovery ids 2, 3).
var PminusN = new(big.Int).Sub(P, N)
