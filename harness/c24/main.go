package main

// C24: connection bookkeeping.  Real code: daemon.Connections (pending / connected / introduced /
// remove / modify) through the `verif` exports in src/daemon/connections_verif.go; after every event
// all five maps are dumped sorted.
//
// op lines:
//   reset
//   pending <addr>
//   connected <addr> <gnetID>
//   introduced <addr> <gnetID> <mirror> <listenPort>
//   remove <addr> <gnetID>
//   modify <addr> <gnetID> <height> <mirror|-> <listenPort|->
//   evpending <addr> | evconnect <addr> <gnetID> <solicited 0|1> | evintro <addr> <gnetID> <mirror> <listenPort>
//   evdisconnect <addr> <gnetID> | evfail <addr>
//       the same transitions reached the way the daemon reaches them: Daemon.handleEvent(ConnectEvent /
//       DisconnectEvent / ConnectFailureEvent) and connectionIntroduced on a Daemon reduced to its connections table,
//       a bare pex and an offline pool (src/daemon/events_verif.go); output "ev" + dump
// (<addr> "~" = empty string)
//
// output: <ok|err NAME>|C:addr,state,outgoing,mirror,listenPort,gnetID,height;…|I:ip=n;…|G:id=addr;…
//         |M:mirror/ip=port;…|E:mirror-with-empty-inner-map;…|L:key=addr,addr;…

import (
	"fmt"
	"sort"
	"strconv"
	"strings"

	. "verif/harness/hlib"

	"github.com/skycoin/skycoin/src/daemon"
	"github.com/skycoin/skycoin/src/util/iputil"
)

var errNames = map[error]string{
	daemon.ErrConnectionNotExist:          "ErrConnectionNotExist",
	daemon.ErrConnectionExists:            "ErrConnectionExists",
	daemon.ErrConnectionIPMirrorExists:    "ErrConnectionIPMirrorExists",
	daemon.ErrConnectionStateNotConnected: "ErrConnectionStateNotConnected",
	daemon.ErrConnectionGnetIDMismatch:    "ErrConnectionGnetIDMismatch",
	daemon.ErrConnectionAlreadyIntroduced: "ErrConnectionAlreadyIntroduced",
	daemon.ErrConnectionAlreadyConnected:  "ErrConnectionAlreadyConnected",
	daemon.ErrInvalidGnetID:               "ErrInvalidGnetID",
	iputil.ErrMissingIP:                   "ErrMissingIP",
	iputil.ErrInvalidPort:                 "ErrInvalidPort",
}

var evs = func() *daemon.VerifEvents {
	e, err := daemon.VerifNewEvents()
	if err != nil {
		panic("harness: " + err.Error())
	}
	return e
}()
var conns = evs.Connections()

func un(a string) string {
	if a == "~" {
		return ""
	}
	return a
}

func til(a string) string {
	if a == "" {
		return "~"
	}
	return a
}

func dump(c *daemon.Connections) string {
	d := c.VerifDump()
	var sb strings.Builder
	sb.WriteString("|C:")
	for i, x := range d.Conns {
		if i > 0 {
			sb.WriteByte(';')
		}
		st := "?"
		switch x.State {
		case daemon.ConnectionStatePending:
			st = "p"
		case daemon.ConnectionStateConnected:
			st = "c"
		case daemon.ConnectionStateIntroduced:
			st = "i"
		}
		o := "0"
		if x.Outgoing {
			o = "1"
		}
		fmt.Fprintf(&sb, "%s,%s,%s,%d,%d,%d,%d", x.Addr, st, o, x.Mirror, x.ListenPort, x.GnetID, x.Height)
	}
	sb.WriteString("|I:")
	ips := make([]string, 0, len(d.IPCounts))
	for k := range d.IPCounts {
		ips = append(ips, k)
	}
	sort.Strings(ips)
	for i, k := range ips {
		if i > 0 {
			sb.WriteByte(';')
		}
		fmt.Fprintf(&sb, "%s=%d", k, d.IPCounts[k])
	}
	sb.WriteString("|G:")
	ids := make([]uint64, 0, len(d.GnetIDs))
	for k := range d.GnetIDs {
		ids = append(ids, k)
	}
	sort.Slice(ids, func(i, j int) bool { return ids[i] < ids[j] })
	for i, k := range ids {
		if i > 0 {
			sb.WriteByte(';')
		}
		fmt.Fprintf(&sb, "%d=%s", k, d.GnetIDs[k])
	}
	sb.WriteString("|M:")
	for i, m := range d.Mirrors {
		if i > 0 {
			sb.WriteByte(';')
		}
		fmt.Fprintf(&sb, "%d/%s=%d", m.Mirror, m.IP, m.Port)
	}
	sb.WriteString("|E:")
	for i, m := range d.EmptyMirror {
		if i > 0 {
			sb.WriteByte(';')
		}
		fmt.Fprintf(&sb, "%d", m)
	}
	sb.WriteString("|L:")
	for i, l := range d.ListenAddrs {
		if i > 0 {
			sb.WriteByte(';')
		}
		fmt.Fprintf(&sb, "%s=%s", l.Key, strings.Join(l.Addrs, ","))
	}
	return sb.String()
}

func res(err error) string {
	if err != nil {
		return "err " + ErrName(err, errNames)
	}
	return "ok"
}

// apply runs one event against c; the returned string is the result without the dump
func apply(c *daemon.Connections, f []string) string {
	switch f[0] {
	case "pending":
		return res(c.VerifPending(un(f[1])))
	case "connected":
		return res(c.VerifConnected(un(f[1]), PU64(f[2])))
	case "introduced":
		return res(c.VerifIntroduced(un(f[1]), PU64(f[2]), uint32(PU64(f[3])), uint16(PU64(f[4]))))
	case "remove":
		return res(c.VerifRemove(un(f[1]), PU64(f[2])))
	case "modify":
		var mp *uint32
		var lp *uint16
		if f[4] != "-" {
			v := uint32(PU64(f[4]))
			mp = &v
		}
		if f[5] != "-" {
			v := uint16(PU64(f[5]))
			lp = &v
		}
		return res(c.VerifModify(un(f[1]), PU64(f[2]), PU64(f[3]), mp, lp))
	}
	panic("harness: unknown op " + f[0])
}

func c24Exec(op string) (out string) {
	// a Go panic is reported as the bare word (its message contains a timestamp)
	defer func() {
		if r := recover(); r != nil {
			if s, ok := r.(string); ok && strings.HasPrefix(s, "harness:") {
				panic(r)
			}
			out = "panic"
		}
	}()
	f := strings.Split(op, " ")
	if f[0] == "reset" {
		evs.Reset()
		conns = evs.Connections()
		return "ok" + dump(conns)
	}
	switch f[0] {
	case "evpending":
		_ = evs.Pending(un(f[1])) //nolint:errcheck
	case "evconnect":
		evs.Connect(un(f[1]), PU64(f[2]), f[3] == "1")
	case "evintro":
		_ = evs.Introduce(un(f[1]), PU64(f[2]), uint32(PU64(f[3])), uint16(PU64(f[4]))) //nolint:errcheck
	case "evdisconnect":
		evs.Disconnect(un(f[1]), PU64(f[2]))
	case "evfail":
		evs.ConnectFailure(un(f[1]))
	default:
		return apply(conns, f) + dump(conns)
	}
	return "ev" + dump(conns)
}

// ---------------------------------------------------------------------------------------------
// generator

var goodIPs = []string{"10.0.0.1", "10.0.0.2", "10.0.0.3"}
var goodPorts = []string{"0", "6000", "6001"}
var oddAddrs = []string{"[::1]:6000", "[::1]:0", "10.0.0.1:06000", "10.0.0.2:00", "host:6000", "[fe80::1%eth0]:6001"}
var badAddrs = []string{"10.0.0.1", ":6000", "10.0.0.1:65536", "10.0.0.1:x", "~", "[::1]", "1:2:3", "10.0.0.1:", "10.0.0.1:+6000",
	"[10.0.0.1:6000", "10.0.0.1]:6000", "[::1]x:6000", "10.0.0.1:-1", "10.0.0.1:99999999999999999999", "[]:6000"}
var lports = []uint64{0, 6000, 6001, 7000}

func u(v uint64) string { return strconv.FormatUint(v, 10) }

type gen struct {
	r      *Rng
	out    func(string)
	priv   *daemon.Connections // private instance of the real code, used only to steer the generator
	nextID uint64
	viaEv  int // percentage of the transitions of this history that are driven through the daemon's event handlers
}

// asEvent: the event-handler form of a direct transition (same effect on the connections table)
func (g *gen) asEvent(op string) string {
	f := strings.Split(op, " ")
	switch f[0] {
	case "pending":
		return "evpending " + f[1]
	case "connected":
		return "evconnect " + f[1] + " " + f[2] + " " + strconv.Itoa(g.r.Intn(2))
	case "introduced":
		return "evintro " + strings.Join(f[1:], " ")
	case "remove":
		if f[2] == "0" {
			return "evfail " + f[1]
		}
		return "evdisconnect " + f[1] + " " + f[2]
	}
	return op
}

func (g *gen) emit(op string) {
	if g.viaEv > 0 && g.r.Chance(g.viaEv) {
		g.out(g.asEvent(op))
	} else {
		g.out(op)
	}
	func() {
		defer func() { recover() }() //nolint:errcheck
		apply(g.priv, strings.Split(op, " "))
	}()
}

func (g *gen) addr() string {
	switch {
	case g.r.Chance(80):
		return goodIPs[g.r.Intn(len(goodIPs))] + ":" + goodPorts[g.r.Intn(len(goodPorts))]
	case g.r.Chance(70):
		return oddAddrs[g.r.Intn(len(oddAddrs))]
	}
	return badAddrs[g.r.Intn(len(badAddrs))]
}

// held picks a held connection whose state letter is in `states` ("" = any)
func (g *gen) held(states string) (string, uint64) {
	var l []daemon.VerifConn
	for _, c := range g.priv.VerifDump().Conns {
		st := "p"
		switch c.State {
		case daemon.ConnectionStateConnected:
			st = "c"
		case daemon.ConnectionStateIntroduced:
			st = "i"
		}
		if states == "" || strings.Contains(states, st) {
			l = append(l, c)
		}
	}
	if len(l) == 0 {
		return "", 0
	}
	c := l[g.r.Intn(len(l))]
	return til(c.Addr), c.GnetID
}

func (g *gen) fresh() uint64 {
	g.nextID++
	return g.nextID
}

// guided emits one event that is likely to succeed
func (g *gen) guided() {
	r := g.r
	switch k := r.Intn(100); {
	case k < 20:
		g.emit("pending " + g.addr())
	case k < 45:
		a, _ := g.held("p")
		if a == "" || r.Chance(50) {
			a = g.addr()
		}
		g.emit("connected " + a + " " + u(g.fresh()))
	case k < 70:
		a, id := g.held("c")
		if a == "" {
			a, id = g.held("")
		}
		if a == "" {
			a = g.addr()
		}
		g.emit("introduced " + a + " " + u(id) + " " + u(uint64(r.Intn(3))) + " " + u(lports[r.Intn(len(lports))]))
	case k < 88:
		a, id := g.held("")
		if a == "" {
			a = g.addr()
		}
		g.emit("remove " + a + " " + u(id))
	case k < 93:
		a, id := g.held("")
		if a == "" {
			a = g.addr()
		}
		m, p := "-", "-"
		if r.Chance(15) {
			m = u(uint64(r.Intn(3)))
		}
		if r.Chance(15) {
			p = u(lports[r.Intn(len(lports))])
		}
		g.emit("modify " + a + " " + u(id) + " " + u(uint64(r.Intn(1000))) + " " + m + " " + p)
	default:
		g.wild(false)
	}
}

// wild emits an event with arbitrary arguments; when reuseIDs is false a `connected` event still
// carries a fresh id (the environment assumption of the id map)
func (g *gen) wild(reuseIDs bool) {
	r := g.r
	a := g.addr()
	id := uint64(r.Intn(7))
	if r.Chance(60) {
		if h, hid := g.held(""); h != "" {
			a = h
			if r.Chance(50) {
				id = hid
			}
		}
	}
	switch r.Intn(5) {
	case 0:
		g.emit("pending " + a)
	case 1:
		if !reuseIDs && id != 0 {
			id = g.fresh()
		}
		g.emit("connected " + a + " " + u(id))
	case 2:
		g.emit("introduced " + a + " " + u(id) + " " + u(uint64(r.Intn(3))) + " " + u(lports[r.Intn(len(lports))]))
	case 3:
		g.emit("remove " + a + " " + u(id))
	case 4:
		g.emit("modify " + a + " " + u(id) + " 7 - -")
	}
}

func (g *gen) reset() {
	g.priv = daemon.NewConnections()
	g.nextID = 100 // fresh ids never collide with the small ids used by wild events
	g.out("reset")
}

// exhaustive enumerates every event sequence over a small alphabet up to the given depth in which
// only the LAST event may fail (a failing event leaves the state unchanged, which the dump after it
// checks), using a private instance of the real code to know which events succeed.
func exhaustive(emit func(string), depth int, addrs []string, ids []uint64, mirrors []uint64, lps []uint64) {
	var events []string
	for _, a := range addrs {
		events = append(events, "pending "+a)
		for _, id := range ids {
			events = append(events, "connected "+a+" "+u(id))
			for _, m := range mirrors {
				for _, lp := range lps {
					events = append(events, "introduced "+a+" "+u(id)+" "+u(m)+" "+u(lp))
				}
			}
		}
		for _, id := range append([]uint64{0}, ids...) {
			events = append(events, "remove "+a+" "+u(id))
		}
	}
	var path []string
	replay := func() *daemon.Connections {
		c := daemon.NewConnections()
		for _, e := range path {
			apply(c, strings.Split(e, " "))
		}
		return c
	}
	out := func() {
		emit("reset")
		for _, e := range path {
			emit(e)
		}
	}
	var dfs func()
	dfs = func() {
		extended := false
		for _, e := range events {
			c := replay()
			r := apply(c, strings.Split(e, " "))
			path = append(path, e)
			if r != "ok" {
				out() // failing event as leaf
			} else if len(path) >= depth {
				out()
			} else {
				dfs()
			}
			extended = true
			path = path[:len(path)-1]
		}
		_ = extended
	}
	dfs()
}

func c24Gen(r *Rng, tier string, emit func(string)) {
	g := &gen{r: r, out: emit}
	nGuided, nWild := 900, 250
	if tier == "thorough" {
		nGuided, nWild = 40000, 10000
	}
	// exhaustive small-alphabet sweep: two addresses on ONE ip (ports 6000 and 0), ids {1,2},
	// mirrors {0,1}, listen ports {0,6000}
	if tier == "thorough" {
		exhaustive(emit, 4, []string{"10.0.0.1:6000", "10.0.0.1:0"}, []uint64{1, 2}, []uint64{0, 1}, []uint64{0, 6000})
		exhaustive(emit, 5, []string{"10.0.0.1:6000", "10.0.0.1:0"}, []uint64{1, 2}, []uint64{0}, []uint64{0, 6000})
		exhaustive(emit, 4, []string{"10.0.0.1:6000", "10.0.0.2:6000", "10.0.0.1:06000"}, []uint64{1, 2}, []uint64{0}, []uint64{6000})
	} else {
		exhaustive(emit, 3, []string{"10.0.0.1:6000", "10.0.0.1:0"}, []uint64{1, 2}, []uint64{0, 1}, []uint64{0, 6000})
	}
	for i := 0; i < nGuided; i++ {
		g.reset()
		g.viaEv = []int{0, 0, 40, 100}[i%4]
		n := r.Range(1, 30)
		for j := 0; j < n; j++ {
			g.guided()
		}
		if r.Chance(60) {
			// drain: remove everything that is held, with the right ids
			for _, c := range g.priv.VerifDump().Conns {
				g.emit("remove " + til(c.Addr) + " " + u(c.GnetID))
			}
		}
	}
	for i := 0; i < nWild; i++ {
		g.reset()
		g.viaEv = []int{0, 50}[i%2]
		n := r.Range(1, 30)
		for j := 0; j < n; j++ {
			g.wild(true)
		}
	}
}

func main() {
	Main(&Prop{Gen: c24Gen, Exec: c24Exec})
}
