package main

// C15: base58 and address text encodings. Real functions: base58.Encode/Decode,
// cipher.DecodeBase58Address, AddressFromBytes, Address.Bytes/String/Checksum, AddressFromPubKey,
// cipher.SumSHA256, cipher.HashRipemd160, and Go's []rune(string) conversion (modelled by hand).

import (
	"crypto/sha256"
	"math/big"
	"strconv"
	"strings"

	. "verif/harness/hlib"

	"github.com/skycoin/skycoin/src/cipher"
	"github.com/skycoin/skycoin/src/cipher/base58"
)

var errs = map[error]string{
	base58.ErrInvalidChar:            "ErrInvalidChar",
	base58.ErrInvalidString:          "ErrInvalidString",
	cipher.ErrAddressInvalidLength:   "ErrAddressInvalidLength",
	cipher.ErrAddressInvalidChecksum: "ErrAddressInvalidChecksum",
	cipher.ErrAddressInvalidVersion:  "ErrAddressInvalidVersion",
}

func addrOut(a cipher.Address, err error) string {
	if err != nil {
		return "err " + ErrName(err, errs)
	}
	return "ok " + strconv.Itoa(int(a.Version)) + " " + Hex(a.Key[:])
}

func exec(op string) string {
	f := Fields(op)
	switch f[0] {
	case "enc": // enc <hex bytes> -> ok <hex of the string's bytes>
		return "ok " + Hex([]byte(base58.Encode(PHex(f[1]))))
	case "dec": // dec <hex of the string's bytes>
		b, err := base58.Decode(string(PHex(f[1])))
		if err != nil {
			return "err " + ErrName(err, errs)
		}
		return "ok " + Hex(b)
	case "addrdec":
		return addrOut(cipher.DecodeBase58Address(string(PHex(f[1]))))
	case "addrbytes":
		return addrOut(cipher.AddressFromBytes(PHex(f[1])))
	case "addrstr": // addrstr <version> <key hex20> -> ok <hex string> <hex bytes>
		var a cipher.Address
		a.Version = byte(PU64(f[1]))
		copy(a.Key[:], PHex(f[2]))
		return "ok " + Hex([]byte(a.String())) + " " + Hex(a.Bytes())
	case "pubaddr": // address of a 33-byte public key (no key validation involved)
		var p cipher.PubKey
		copy(p[:], PHex(f[1]))
		a := cipher.AddressFromPubKey(p)
		return "ok " + strconv.Itoa(int(a.Version)) + " " + Hex(a.Key[:])
	case "sha256":
		h := cipher.SumSHA256(PHex(f[1]))
		g := sha256.Sum256(PHex(f[1]))
		if h != cipher.SHA256(g) {
			return "cipher.SumSHA256 differs from crypto/sha256"
		}
		return "ok " + Hex(h[:])
	case "ripemd160":
		h := cipher.HashRipemd160(PHex(f[1]))
		return "ok " + Hex(h[:])
	case "runes": // []rune(string)
		rs := []rune(string(PHex(f[1])))
		var sb strings.Builder
		sb.WriteString("ok")
		for _, r := range rs {
			sb.WriteByte(' ')
			sb.WriteString(strconv.Itoa(int(r)))
		}
		return sb.String()
	}
	panic("harness: unknown op " + f[0])
}

const alphabet = "123456789ABCDEFGHJKLMNPQRSTUVWXYZabcdefghijkmnopqrstuvwxyz"

// refEnc / refAddrBytes: the generator's own math/big encoder, used ONLY to build well-formed texts to
// feed to the implementation (the generator never calls the code under test, so a faulting
// implementation is reported by the op that faults, not by a crashing generator).
func refEnc(b []byte) string {
	z := 0
	for z < len(b) && b[z] == 0 {
		z++
	}
	v := new(big.Int).SetBytes(b)
	var digits []byte
	m := new(big.Int)
	b58 := big.NewInt(58)
	for v.Sign() > 0 {
		v.DivMod(v, b58, m)
		digits = append(digits, alphabet[m.Int64()])
	}
	out := []byte(strings.Repeat("1", z))
	for i := len(digits) - 1; i >= 0; i-- {
		out = append(out, digits[i])
	}
	return string(out)
}

func refAddrBytes(version byte, key []byte) []byte {
	b := append(append([]byte{}, key...), version)
	h := sha256.Sum256(b)
	return append(b, h[:4]...)
}

// the characters of the exhaustive short-string sweep: the alphabet, the four look-alikes that are
// NOT in it, a space, a lone continuation byte and a two-byte rune
var sweep = func() []string {
	var s []string
	for i := 0; i < len(alphabet); i++ {
		s = append(s, alphabet[i:i+1])
	}
	return append(s, "0", "O", "I", "l", " ", "\x80", "é")
}()

func randBytes(r *Rng, n int) []byte {
	b := r.Bytes(n)
	switch r.Intn(6) {
	case 0: // leading zeros
		z := r.Intn(n + 1)
		for i := 0; i < z; i++ {
			b[i] = 0
		}
	case 1: // all 0xff
		for i := range b {
			b[i] = 0xff
		}
	case 2: // small value with leading zeros
		for i := 0; i < n-1; i++ {
			b[i] = 0
		}
	case 3: // 0x00.. then 0x01 then zeros (powers of 256)
		for i := range b {
			b[i] = 0
		}
		if n > 0 {
			b[r.Intn(n)] = byte(1 + r.Intn(2))
		}
	}
	return b
}

func randStr(r *Rng, n int) []byte {
	s := make([]byte, n)
	for i := range s {
		s[i] = alphabet[r.Intn(58)]
	}
	switch r.Intn(5) {
	case 0:
		z := r.Intn(n + 1)
		for i := 0; i < z; i++ {
			s[i] = '1'
		}
	case 1: // largest digits: "zzzz…" maximises the value for the length
		for i := range s {
			s[i] = 'z'
		}
		z := r.Intn(3)
		for i := 0; i < z && i < n; i++ {
			s[i] = '1'
		}
	}
	return s
}

var badChars = []string{"0", "O", "I", "l", " ", "\x00", "\x7f", "\u0080", "\u0081", "\x80", "\xff", "é", "€", "😀", "\xc3", "\xe2\x82", "+", "/", "="}

func gen(r *Rng, tier string, emit func(string)) {
	thorough := tier == "thorough"
	// --- 1. exhaustive short byte strings
	emit("enc -")
	for a := 0; a < 256; a++ {
		emit("enc " + Hex([]byte{byte(a)}))
	}
	if thorough {
		for a := 0; a < 256; a++ {
			for b := 0; b < 256; b++ {
				emit("enc " + Hex([]byte{byte(a), byte(b)}))
			}
		}
	} else {
		for i := 0; i < 3000; i++ {
			emit("enc " + Hex([]byte{byte(r.Intn(256)), byte(r.Intn(256))}))
		}
		for _, a := range []byte{0, 1, 57, 58, 59, 255} {
			for b := 0; b < 256; b++ {
				emit("enc " + Hex([]byte{a, byte(b)}))
			}
		}
	}
	// --- 2. exhaustive short strings over the sweep set
	emit("dec -")
	maxLen := 2
	if thorough {
		maxLen = 3
	}
	var rec func(prefix string, left int)
	rec = func(prefix string, left int) {
		if prefix != "" {
			emit("dec " + Hex([]byte(prefix)))
		}
		if left == 0 {
			return
		}
		for _, c := range sweep {
			rec(prefix+c, left-1)
		}
	}
	rec("", maxLen)
	// every single byte as a one-character string and after a valid character
	for a := 0; a < 256; a++ {
		emit("dec " + Hex([]byte{byte(a)}))
		emit("dec " + Hex([]byte{'2', byte(a)}))
		emit("runes " + Hex([]byte{byte(a), 0x80, 0xbf}))
	}
	// --- 3. random byte strings / strings of many lengths
	n := 1500
	if thorough {
		n = 60000
	}
	for i := 0; i < n; i++ {
		ln := r.Intn(40)
		switch r.Intn(12) {
		case 0:
			ln = r.Intn(301)
		case 1:
			ln = 25
		case 2:
			ln = []int{3, 4, 5, 7, 8, 9, 15, 16, 17, 31, 32, 33, 63, 64, 65, 99, 100, 101}[r.Intn(18)]
		}
		b := randBytes(r, ln)
		emit("enc " + Hex(b))
		enc := refEnc(b) // a valid text to mutate
		if len(enc) > 0 {
			emit("dec " + Hex([]byte(enc)))
			m := []byte(enc)
			switch r.Intn(6) {
			case 0: // prepend '1's
				m = append([]byte(strings.Repeat("1", 1+r.Intn(3))), m...)
			case 1: // substitute one char by a bad one
				p := r.Intn(len(m))
				m = append(append(append([]byte{}, m[:p]...), []byte(badChars[r.Intn(len(badChars))])...), m[p+1:]...)
			case 2: // insert a bad char
				p := r.Intn(len(m) + 1)
				m = append(append(append([]byte{}, m[:p]...), []byte(badChars[r.Intn(len(badChars))])...), m[p:]...)
			case 3: // substitute by another alphabet char
				m[r.Intn(len(m))] = alphabet[r.Intn(58)]
			case 4: // append alphabet chars
				m = append(m, alphabet[r.Intn(58)])
			case 5: // truncate
				m = m[:r.Intn(len(m))]
			}
			emit("dec " + Hex(m))
		}
		s := randStr(r, 1+ln)
		emit("dec " + Hex(s))
	}
	// rune model
	for i := 0; i < n/3; i++ {
		ln := 1 + r.Intn(8)
		b := make([]byte, ln)
		for j := range b {
			switch r.Intn(4) {
			case 0:
				b[j] = byte(r.Intn(128))
			case 1:
				b[j] = byte(0x80 + r.Intn(64))
			default:
				b[j] = []byte{0xc0, 0xc1, 0xc2, 0xdf, 0xe0, 0xe1, 0xec, 0xed, 0xee, 0xef, 0xf0, 0xf1, 0xf3, 0xf4, 0xf5, 0xff, 0x9f, 0xa0, 0x8f, 0x90}[r.Intn(20)]
			}
		}
		emit("runes " + Hex(b))
		emit("dec " + Hex(b))
	}
	// --- 4. hashes (shared hash library vs Go)
	for _, ln := range []int{0, 1, 20, 21, 32, 33, 55, 56, 57, 63, 64, 65, 119, 120, 127, 128, 129, 300} {
		b := r.Bytes(ln)
		emit("sha256 " + Hex(b))
		emit("ripemd160 " + Hex(b))
	}
	for i := 0; i < n/10; i++ {
		b := r.Bytes(r.Intn(200))
		emit("sha256 " + Hex(b))
		emit("ripemd160 " + Hex(b))
	}
	// --- 5. addresses
	na := 60
	if thorough {
		na = 1500
	}
	for i := 0; i < na; i++ {
		var a cipher.Address
		copy(a.Key[:], r.Bytes(20))
		if r.Chance(30) { // keys with leading zero bytes: text with leading '1's
			z := 1 + r.Intn(4)
			if r.Chance(10) {
				z = 20
			}
			for j := 0; j < z; j++ {
				a.Key[j] = 0
			}
		}
		if r.Chance(25) {
			a.Version = byte([]int{1, 2, 127, 128, 255}[r.Intn(5)])
		}
		emit("pubaddr " + Hex(r.Bytes(33)))
		emit("addrstr " + strconv.Itoa(int(a.Version)) + " " + Hex(a.Key[:]))
		raw := refAddrBytes(a.Version, a.Key[:])
		s := refEnc(raw)
		emit("addrdec " + Hex([]byte(s)))
		emit("addrbytes " + Hex(raw))
		// checksum / version / length faults on the byte form (in the order the code tests them)
		for k := 0; k < 4; k++ {
			m := append([]byte{}, raw...)
			switch k {
			case 0:
				m[21+r.Intn(4)] ^= byte(1 << uint(r.Intn(8)))
			case 1:
				m[20] ^= byte(1 + r.Intn(255)) // version changed, checksum stale
			case 2:
				m = m[:r.Intn(25)]
			case 3:
				m = append(m, r.Bytes(1+r.Intn(3))...)
			}
			emit("addrbytes " + Hex(m))
			emit("addrdec " + Hex([]byte(refEnc(m))))
		}
		// text-level faults
		sb := []byte(s)
		emit("addrdec " + Hex(append([]byte("1"), sb...)))
		emit("addrdec " + Hex(append(append([]byte{}, sb...), '1')))
		emit("addrdec " + Hex(append([]byte(" "), sb...)))
		emit("addrdec " + Hex(append(append([]byte{}, sb...), ' ')))
		emit("addrdec " + Hex(sb[:len(sb)-1]))
		emit("addrdec " + Hex(sb[1:]))
		subs := 6
		if thorough || i < 3 {
			subs = len(sb) // every position
		}
		for k := 0; k < subs; k++ {
			p := k
			if subs != len(sb) {
				p = r.Intn(len(sb))
			}
			if thorough && i < 40 || i < 1 {
				for c := 0; c < 58; c++ { // every substitution at every position
					if alphabet[c] != sb[p] {
						m := append([]byte{}, sb...)
						m[p] = alphabet[c]
						emit("addrdec " + Hex(m))
					}
				}
			} else {
				m := append([]byte{}, sb...)
				m[p] = alphabet[r.Intn(58)]
				emit("addrdec " + Hex(m))
			}
			m := append([]byte{}, sb...)
			bc := badChars[r.Intn(len(badChars))]
			m = append(append(append([]byte{}, m[:p]...), []byte(bc)...), m[p+1:]...)
			emit("addrdec " + Hex(m))
		}
	}
	emit("addrdec -")
	emit("addrbytes -")
}

func main() { Main(&Prop{Gen: gen, Exec: exec}) }
