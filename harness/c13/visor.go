package main

// vsign: Visor.WalletSignTransaction — the glue in front of wallet.SignTransaction — on a REAL visor
// (publisher node on a scratch bolt file) with a real wallet.Service.  One world per process:
// block 1 pays six outputs to the three entries of each of two deterministic wallets
// (`p.wlt` plain, `e.wlt` encrypted with password "pw"), owners by entry index [0,1,0,2,1,2].
//
//	vsign wallet=<p|e> ux=<f<i>,..> sigs=<n|v,..> idx=<i,..|->
//	-> same line as `sign` (ok sigs=… ins=… outs=… inner=… hdr=… orig=… | err <kind> orig=…), and after a
//	   success the SAME request is resubmitted on the result: ` again=<err kind | ok sigs=…>`

import (
	"bytes"
	"fmt"
	"os"
	"path/filepath"
	"strings"

	. "verif/harness/hlib"

	"github.com/skycoin/skycoin/src/cipher"
	"github.com/skycoin/skycoin/src/cipher/crypto"
	"github.com/skycoin/skycoin/src/coin"
	"github.com/skycoin/skycoin/src/params"
	"github.com/skycoin/skycoin/src/visor"
	"github.com/skycoin/skycoin/src/visor/dbutil"
	"github.com/skycoin/skycoin/src/wallet"
)

var fundedOwners = []int{0, 1, 0, 2, 1, 2}

type vworld struct {
	dir    string
	v      *visor.Visor
	db     *dbutil.DB
	serv   *wallet.Service
	funded map[string]coin.UxArray      // wallet id -> its six outputs
	keys   map[string][]cipher.SecKey   // wallet id -> entry secret keys
	gaddr  cipher.Address
}

var vw *vworld

func closeWorld() {
	if vw != nil {
		vw.db.Close()
		os.RemoveAll(vw.dir)
		vw = nil
	}
}

func getWorld() *vworld {
	if vw != nil {
		return vw
	}
	base := os.Getenv("VERIF_SCRATCH")
	if base == "" {
		base = os.TempDir()
	}
	dir, err := os.MkdirTemp(base, "c13-visor-")
	must(err)
	w := &vworld{dir: dir, funded: map[string]coin.UxArray{}, keys: map[string][]cipher.SecKey{}}

	serv, err := wallet.NewService(wallet.Config{WalletDir: filepath.Join(dir, "wallets"), CryptoType: crypto.CryptoTypeSha256Xor, EnableWalletAPI: true})
	must(err)
	w.serv = serv
	mk := func(id, seed string, enc bool) {
		o := wallet.Options{Type: wallet.WalletTypeDeterministic, Seed: seed, Label: id, GenerateN: 3, CryptoType: crypto.CryptoTypeSha256Xor}
		// the keys, from an unencrypted twin
		tw, err := serv.CreateWallet("twin-"+id, wallet.Options{Type: wallet.WalletTypeDeterministic, Seed: seed, Label: id, GenerateN: 3, Temp: true})
		must(err)
		es, err := tw.GetEntries()
		must(err)
		for _, e := range es {
			w.keys[id] = append(w.keys[id], e.Secret)
		}
		must(serv.UnloadWallet("twin-" + id))
		if enc {
			o.Encrypt, o.Password = true, []byte("pw")
		}
		_, err = serv.CreateWallet(id, o)
		must(err)
	}
	mk("p.wlt", "c13 visor plain wallet seed", false)
	mk("e.wlt", "c13 visor encrypted wallet seed", true)

	gpub, gsec := cipher.MustGenerateDeterministicKeyPair([]byte("c13-visor-genesis"))
	w.gaddr = cipher.AddressFromPubKey(gpub)
	bpub, bsec := cipher.MustGenerateDeterministicKeyPair([]byte("c13-visor-publisher"))
	var dist []string
	for i := 0; i < 4; i++ {
		p, _ := cipher.MustGenerateDeterministicKeyPair([]byte(fmt.Sprintf("c13-visor-dist-%d", i)))
		dist = append(dist, cipher.AddressFromPubKey(p).String())
	}
	c := visor.NewConfig()
	c.IsBlockPublisher = true
	c.BlockchainPubkey = bpub
	c.BlockchainSeckey = bsec
	vt := params.VerifyTxn{BurnFactor: 10, MaxTransactionSize: 32768, MaxDropletPrecision: 3}
	c.UnconfirmedVerifyTxn = vt
	c.CreateBlockVerifyTxn = vt
	c.MaxBlockTransactionsSize = 32768
	c.GenesisAddress = w.gaddr
	c.GenesisTimestamp = 1000
	c.GenesisCoinVolume = 100e12
	c.Distribution = params.Distribution{MaxCoinSupply: 400, InitialUnlockedCount: 2, UnlockAddressRate: 1, UnlockTimeInterval: 100, Addresses: dist}
	params.UserVerifyTxn = vt

	db, err := visor.OpenDB(filepath.Join(dir, "chain.db"), false)
	must(err)
	w.db = db
	v, err := visor.New(c, db, serv)
	must(err)
	must(v.Init())
	w.v = v

	// block 1: genesis output -> 12 wallet outputs + the rest back
	all, err := v.GetAllUnspentOutputs()
	must(err)
	if len(all) != 1 {
		panic("harness: expected exactly the genesis output")
	}
	g := all[0]
	var t coin.Transaction
	must(t.PushInput(g.Hash()))
	spent := uint64(0)
	n := 0
	for _, id := range []string{"p.wlt", "e.wlt"} {
		wl, err := serv.GetWallet(id)
		must(err)
		es, err := wl.GetEntries()
		must(err)
		for k, o := range fundedOwners {
			coins := uint64(5+n) * 1000000
			must(t.PushOutput(es[o].SkycoinAddress(), coins, uint64(1000+10*k)))
			spent += coins
			n++
		}
	}
	must(t.PushOutput(w.gaddr, g.Body.Coins-spent, g.Body.Hours/4))
	t.SignInputs([]cipher.SecKey{gsec})
	must(t.UpdateHeader())
	_, _, _, err = v.InjectUserTransaction(t)
	must(err)
	sb, err := v.CreateAndExecuteBlock()
	must(err)
	uxs := coin.CreateUnspents(sb.Head, t)
	w.funded["p.wlt"] = uxs[0:6]
	w.funded["e.wlt"] = uxs[6:12]
	vw = w
	return w
}

func describe(res, txn *coin.Transaction, beforeSigs []cipher.Sig, uxOuts coin.UxArray, orig string) string {
	var ss []string
	for i, s := range res.Sigs {
		switch {
		case s.Null():
			ss = append(ss, "n")
		case i < len(beforeSigs) && s == beforeSigs[i]:
			ss = append(ss, "k")
		case i < len(res.In) && i < len(uxOuts) &&
			cipher.VerifyAddressSignedHash(uxOuts[i].Body.Address, s, cipher.AddSHA256(res.InnerHash, res.In[i])) == nil:
			ss = append(ss, "s")
		default:
			ss = append(ss, "b")
		}
	}
	same := func(b bool) string {
		if b {
			return "same"
		}
		return "diff"
	}
	insSame := len(res.In) == len(txn.In)
	for i := range res.In {
		insSame = insSame && i < len(txn.In) && res.In[i] == txn.In[i]
	}
	outsSame := len(res.Out) == len(txn.Out)
	for i := range res.Out {
		outsSame = outsSame && i < len(txn.Out) && res.Out[i] == txn.Out[i]
	}
	return fmt.Sprintf("ok sigs=%s ins=%s outs=%s inner=%s hdr=%s orig=%s", strings.Join(ss, ","), same(insSame), same(outsSame),
		same(res.InnerHash == txn.InnerHash), same(res.Length == txn.Length && res.Type == txn.Type), orig)
}

func vErrKind(err error) string {
	switch err {
	case wallet.ErrWalletCantSign:
		return "Error(ErrWalletCantSign)"
	case wallet.ErrWalletEncrypted:
		return "Error(ErrWalletEncrypted)"
	case visor.ErrTransactionAlreadySigned:
		return "Error(other)"
	}
	if _, ok := err.(wallet.Error); ok {
		return "Error(other)"
	}
	return "other"
}

func execVsign(f []string) string {
	m := kv(f)
	w := getWorld()
	id := m["wallet"] + ".wlt"
	var pw []byte
	if id == "e.wlt" {
		pw = []byte("pw")
	}
	var uxOuts coin.UxArray
	var owners []cipher.SecKey
	txn := &coin.Transaction{}
	var coins, hours uint64
	for _, u := range list(m["ux"]) {
		j := int(PU64(u[1:]))
		ux := w.funded[id][j]
		uxOuts = append(uxOuts, ux)
		owners = append(owners, w.keys[id][fundedOwners[j]])
		must(txn.PushInput(ux.Hash()))
		coins += ux.Body.Coins
		hours += ux.Body.Hours
	}
	must(txn.PushOutput(w.gaddr, coins, hours/2))
	sigSpec := list(m["sigs"])
	txn.Sigs = make([]cipher.Sig, len(sigSpec))
	must(txn.UpdateHeader())
	for i, s := range sigSpec {
		if s == "v" && i < len(txn.In) {
			txn.Sigs[i] = cipher.MustSignHash(cipher.AddSHA256(txn.InnerHash, txn.In[i]), owners[i])
		}
	}
	must(txn.UpdateHeader())
	var idx []int
	for _, s := range list(m["idx"]) {
		idx = append(idx, int(PI64(s)))
	}
	before, err := txn.Serialize()
	must(err)
	beforeSigs := append([]cipher.Sig{}, txn.Sigs...)

	res, _, err := w.v.WalletSignTransaction(id, pw, txn, idx)

	after, e2 := txn.Serialize()
	must(e2)
	orig := "same"
	if !bytes.Equal(before, after) {
		orig = "diff"
	}
	if err != nil {
		return "err " + vErrKind(err) + " orig=" + orig
	}
	out := describe(res, txn, beforeSigs, uxOuts, orig)
	// the same request again, on the result
	res2, _, err := w.v.WalletSignTransaction(id, pw, res, idx)
	if err != nil {
		return out + " again=err " + vErrKind(err)
	}
	return out + " again=" + strings.Replace(describe(res2, res, res.Sigs, uxOuts, "same"), " ", "/", -1)
}

func vsignOps(r *Rng, count int, emit func(string)) {
	for it := 0; it < count; it++ {
		wl := []string{"p", "e"}[r.Intn(2)]
		k := 1 + r.Intn(5)
		perm := []int{0, 1, 2, 3, 4, 5}
		for i := range perm {
			j := i + r.Intn(len(perm)-i)
			perm[i], perm[j] = perm[j], perm[i]
		}
		var ux, sigs []string
		mode := r.Intn(4)
		for i := 0; i < k; i++ {
			ux = append(ux, fmt.Sprintf("f%d", perm[i]))
			s := "n"
			if mode >= 1 && r.Chance(35*mode/1) {
				s = "v"
			}
			sigs = append(sigs, s)
		}
		var idx []string
		switch r.Intn(7) {
		case 0: // empty = all unsigned
		case 1: // exactly the unsigned ones
			for i, s := range sigs {
				if s == "n" {
					idx = append(idx, fmt.Sprint(i))
				}
			}
		case 2: // a subset of the unsigned ones
			for i, s := range sigs {
				if s == "n" && r.Bool() {
					idx = append(idx, fmt.Sprint(i))
				}
			}
		case 3: // ONLY already signed inputs
			for i, s := range sigs {
				if s == "v" {
					idx = append(idx, fmt.Sprint(i))
				}
			}
		case 4: // mixed: signed and unsigned
			for i := range sigs {
				if r.Chance(60) {
					idx = append(idx, fmt.Sprint(i))
				}
			}
		case 5: // one already signed input, if any
			for i, s := range sigs {
				if s == "v" {
					idx = []string{fmt.Sprint(i)}
					break
				}
			}
		case 6: // out of range
			idx = []string{fmt.Sprint([]int{-1, k, k + 3}[r.Intn(3)])}
		}
		j := func(l []string) string {
			if len(l) == 0 {
				return "-"
			}
			return strings.Join(l, ",")
		}
		emit(fmt.Sprintf("vsign wallet=%s ux=%s sigs=%s idx=%s", wl, j(ux), j(sigs), j(idx)))
	}
}
