package main

// C13: wallet signing signs exactly the requested inputs.  Real function: wallet.SignTransaction on
// real wallets (deterministic, bip44, collection, xpub; optionally encrypted).
//
//	sign wallet=<type>:<seedhex>:<n>:<enc>[:g<k>[c<kc>]] nent=<k> ux=<e<i>|f<j>,..> sigs=<n|v|g,..> idx=<i,..|-> inner=<ok|bad>
//
// 5th field of the wallet spec: the wallet is LOCKED, then k more (bip44: and kc change) addresses are generated while it
// is locked, and SignTransaction runs inside wallet.GuardView (the unlock of the service / visor sign paths).
// ux[i] = the address owning input i: entry i of w.GetEntries() (`e<i>`) or a foreign address (`f<j>`).
// sigs[i] = the signature already present: n null, v a valid one by the owner (only for owned inputs),
// g non-null garbage.  The sigs list may be shorter/longer than the inputs (malformed transaction).
//
// Output: ok sigs=<per index n|k|s|b> ins=<same|diff> outs=.. inner=.. hdr=.. orig=<same|diff>  |  err <kind>  | panic
//   n null, k kept byte-identical, s new signature that verifies for the owner of the input,
//   b anything else.  orig = the caller's transaction object is untouched.

import (
	"bytes"
	"encoding/hex"
	"fmt"
	"strings"

	"github.com/shopspring/decimal"

	. "verif/harness/hlib"

	"github.com/skycoin/skycoin/src/cipher"
	"github.com/skycoin/skycoin/src/cipher/bip39"
	"github.com/skycoin/skycoin/src/cipher/bip44"
	"github.com/skycoin/skycoin/src/cipher/crypto"
	"github.com/skycoin/skycoin/src/coin"
	"github.com/skycoin/skycoin/src/transaction"
	"github.com/skycoin/skycoin/src/wallet"
	"github.com/skycoin/skycoin/src/wallet/bip44wallet"
	"github.com/skycoin/skycoin/src/wallet/collection"
	"github.com/skycoin/skycoin/src/wallet/deterministic"
	"github.com/skycoin/skycoin/src/wallet/xpubwallet"
)

func must(err error) {
	if err != nil {
		panic("harness: " + err.Error())
	}
}

func kv(f []string) map[string]string {
	m := map[string]string{}
	for _, w := range f[1:] {
		if i := strings.IndexByte(w, '='); i >= 0 {
			m[w[:i]] = w[i+1:]
		}
	}
	return m
}

func list(s string) []string {
	if s == "-" || s == "" {
		return nil
	}
	return strings.Split(s, ",")
}

// mkWallet builds the wallet named by the op deterministically.
func mkWallet(spec string) wallet.Wallet {
	x := strings.Split(spec, ":")
	typ, seed, n, enc := x[0], PHex(x[1]), int(PU64(x[2])), x[3] == "1"
	opts := []wallet.Option{wallet.OptionGenerateN(uint64(n)), wallet.OptionCryptoType(crypto.CryptoTypeSha256Xor)}
	var w wallet.Wallet
	var err error
	switch typ {
	case "deterministic":
		w, err = deterministic.NewWallet("d.wlt", "label", hex.EncodeToString(seed), opts...)
	case "bip44":
		ent := make([]byte, 16)
		copy(ent, seed)
		m, e := bip39.NewMnemonic(ent)
		must(e)
		w, err = bip44wallet.NewWallet("b.wlt", "label", m, "", opts...)
	case "collection":
		var keys []cipher.SecKey
		for i := 0; i < n; i++ {
			_, s, e := cipher.GenerateDeterministicKeyPair(append(append([]byte{}, seed...), byte(i)))
			must(e)
			keys = append(keys, s)
		}
		w, err = collection.NewWallet("c.wlt", "label", wallet.OptionCollectionPrivateKeys(keys), wallet.OptionCryptoType(crypto.CryptoTypeSha256Xor))
	case "xpub":
		ent := make([]byte, 16)
		copy(ent, seed)
		m, e := bip39.NewMnemonic(ent)
		must(e)
		s, e := bip39.NewSeed(m, "")
		must(e)
		c, e := bip44.NewCoin(s, bip44.CoinTypeSkycoin)
		must(e)
		acct, e := c.Account(0)
		must(e)
		ext, e := acct.External()
		must(e)
		w, err = xpubwallet.NewWallet("x.wlt", "label", ext.PublicKey().String(), opts...)
	default:
		panic("harness: wallet type " + typ)
	}
	must(err)
	if len(x) > 4 {
		// `g<k>[c<kc>]`: k external (bip44: and kc change) addresses are generated AFTER the first n.  mkWallet gives
		// the wallet as the service holds it: locked, extended WHILE LOCKED (bip44 derives from the account's public
		// key; a deterministic wallet through wallet.GuardUpdate).  `reference` = the never-locked wallet.
		k, kc := extSpec(x[4])
		if !reference {
			must(w.Lock([]byte("pw")))
		}
		gen := func(uw wallet.Wallet) error {
			if k > 0 {
				if _, err := uw.GenerateAddresses(wallet.OptionGenerateN(uint64(k))); err != nil {
					return err
				}
			}
			if kc > 0 && typ == "bip44" {
				if _, err := uw.GenerateAddresses(wallet.OptionGenerateN(uint64(kc)), wallet.OptionChange()); err != nil {
					return err
				}
			}
			return nil
		}
		if typ == "bip44" || reference {
			must(gen(w))
		} else {
			must(wallet.GuardUpdate(w, []byte("pw"), gen))
		}
		return w
	}
	if enc {
		must(w.Lock([]byte("pw")))
	}
	return w
}

// reference: mkWallet builds the never-locked twin (see the 5th field of the wallet spec)
var reference bool

func extSpec(s string) (k, kc int) {
	s = strings.TrimPrefix(s, "g")
	if i := strings.Index(s, "c"); i >= 0 {
		kc = int(PU64(s[i+1:]))
		s = s[:i]
	}
	return int(PU64(s)), kc
}

// the secret keys of the wallet's entries, taken before locking
func entryKeys(spec string) ([]cipher.Address, []cipher.SecKey) {
	x := strings.Split(spec, ":")
	x[3] = "0"
	reference = true
	w := mkWallet(strings.Join(x, ":"))
	reference = false
	es, err := w.GetEntries()
	must(err)
	var as []cipher.Address
	var ks []cipher.SecKey
	for _, e := range es {
		as = append(as, e.SkycoinAddress())
		ks = append(ks, e.Secret)
	}
	return as, ks
}

func foreignKey(j int) (cipher.Address, cipher.SecKey) {
	p, s, err := cipher.GenerateDeterministicKeyPair([]byte(fmt.Sprintf("foreign-%d", j)))
	must(err)
	return cipher.AddressFromPubKey(p), s
}

func execSign(f []string) string {
	m := kv(f)
	w := mkWallet(m["wallet"])
	addrs, keys := entryKeys(m["wallet"])
	var uxOuts []coin.UxOut
	var owners []cipher.SecKey
	txn := &coin.Transaction{}
	for i, u := range list(m["ux"]) {
		var a cipher.Address
		var k cipher.SecKey
		j := int(PU64(u[1:]))
		if u[0] == 'e' {
			if j >= len(addrs) {
				panic("harness: entry index out of range")
			}
			a, k = addrs[j], keys[j]
		} else {
			a, k = foreignKey(j)
		}
		ux := coin.UxOut{Head: coin.UxHead{Time: 100, BkSeq: uint64(i + 1)},
			Body: coin.UxBody{SrcTransaction: cipher.SumSHA256([]byte{byte(i), byte(j), u[0]}), Address: a, Coins: 1000000, Hours: 10}}
		uxOuts = append(uxOuts, ux)
		owners = append(owners, k)
		must(txn.PushInput(ux.Hash()))
	}
	da, _ := foreignKey(99)
	must(txn.PushOutput(da, 500000, 1))
	must(txn.PushOutput(da, 400000, 2))
	sigSpec := list(m["sigs"])
	txn.Sigs = make([]cipher.Sig, len(sigSpec))
	must(txn.UpdateHeader())
	for i, s := range sigSpec {
		switch s {
		case "v":
			if i < len(txn.In) && (owners[i] != cipher.SecKey{}) {
				h := cipher.AddSHA256(txn.InnerHash, txn.In[i])
				txn.Sigs[i] = cipher.MustSignHash(h, owners[i])
			} else {
				txn.Sigs[i][0] = 7
			}
		case "g":
			for b := range txn.Sigs[i] {
				txn.Sigs[i][b] = byte(0x40 + i + b)
			}
		}
	}
	must(txn.UpdateHeader())
	if m["inner"] == "bad" {
		txn.InnerHash[0] ^= 1
	}
	var idx []int
	for _, s := range list(m["idx"]) {
		idx = append(idx, int(PI64(s)))
	}
	before, err := txn.Serialize()
	must(err)
	beforeSigs := append([]cipher.Sig{}, txn.Sigs...)

	var res *coin.Transaction
	if len(strings.Split(m["wallet"], ":")) > 4 {
		// the locked-and-extended wallet signs the way the service / visor do: unlocked for the call only
		err = wallet.GuardView(w, []byte("pw"), func(uw wallet.Wallet) error {
			var e error
			res, e = wallet.SignTransaction(uw, txn, idx, uxOuts)
			return e
		})
	} else {
		res, err = wallet.SignTransaction(w, txn, idx, uxOuts)
	}

	after, e2 := txn.Serialize()
	must(e2)
	orig := "same"
	if !bytes.Equal(before, after) {
		orig = "diff"
	}
	if err != nil {
		k := "other"
		switch err {
		case wallet.ErrWalletCantSign:
			k = "Error(ErrWalletCantSign)"
		case wallet.ErrWalletEncrypted:
			k = "Error(ErrWalletEncrypted)"
		default:
			if _, ok := err.(wallet.Error); ok {
				k = "Error(other)"
			}
		}
		return "err " + k + " orig=" + orig
	}
	var ss []string
	for i, s := range res.Sigs {
		switch {
		case s.Null():
			ss = append(ss, "n")
		case i < len(beforeSigs) && s == beforeSigs[i]:
			ss = append(ss, "k")
		case i < len(res.In) && i < len(uxOuts) &&
			cipher.VerifyAddressSignedHash(uxOuts[i].Body.Address, s, cipher.AddSHA256(res.InnerHash, res.In[i])) == nil:
			ss = append(ss, "s")
		default:
			ss = append(ss, "b")
		}
	}
	same := func(b bool) string {
		if b {
			return "same"
		}
		return "diff"
	}
	insSame := len(res.In) == len(txn.In)
	for i := range res.In {
		insSame = insSame && res.In[i] == txn.In[i]
	}
	outsSame := len(res.Out) == len(txn.Out)
	for i := range res.Out {
		outsSame = outsSame && res.Out[i] == txn.Out[i]
	}
	return fmt.Sprintf("ok sigs=%s ins=%s outs=%s inner=%s hdr=%s orig=%s", strings.Join(ss, ","), same(insSame), same(outsSame),
		same(res.InnerHash == txn.InnerHash), same(res.Length == txn.Length && res.Type == txn.Type), orig)
}

// execCsign drives wallet.CreateTransactionSigned: the offered outputs are owned by the wallet's
// entries in the given pattern, coins strictly descending in list order (= the order ChooseSpends
// picks them), and the request needs all of them.  Every input's signature must verify against
// the address of the output it spends.
//
//	csign wallet=<type>:<seed>:<n>:0 nent=<k> ux=<e<i>:<coins>:<hours>,..>
//	-> ok sigs=<s|b,..> owners=<e<i>,..> verify=<ok|..> vis=<ok|..>  |  err <kind>
func execCsign(f []string) string {
	m := kv(f)
	w := mkWallet(m["wallet"])
	addrs, _ := entryKeys(m["wallet"])
	idxOf := map[cipher.Address]int{}
	for i, a := range addrs {
		if _, ok := idxOf[a]; !ok {
			idxOf[a] = i
		}
	}
	auxs := coin.AddressUxOuts{}
	byHash := map[cipher.SHA256]coin.UxOut{}
	var total uint64
	for i, u := range list(m["ux"]) {
		x := strings.Split(u, ":")
		j := int(PU64(x[0][1:]))
		if j >= len(addrs) {
			panic("harness: entry index out of range")
		}
		ux := coin.UxOut{Head: coin.UxHead{Time: 100, BkSeq: uint64(i + 1)},
			Body: coin.UxBody{SrcTransaction: cipher.SumSHA256([]byte{byte(i), byte(j), 'c'}), Address: addrs[j], Coins: PU64(x[1]), Hours: PU64(x[2])}}
		auxs[addrs[j]] = append(auxs[addrs[j]], ux)
		byHash[ux.Hash()] = ux
		total += ux.Body.Coins
	}
	dst, _ := foreignKey(7)
	half := decimal.New(5, -1)
	change := addrs[0]
	p := transaction.Params{
		HoursSelection: transaction.HoursSelection{Type: transaction.HoursSelectionTypeAuto, Mode: transaction.HoursSelectionModeShare, ShareFactor: &half},
		To:             []coin.TransactionOutput{{Address: dst, Coins: total - 1000}},
		ChangeAddress:  &change,
	}
	txn, uxb, err := wallet.CreateTransactionSigned(w, p, auxs, 100)
	if err != nil {
		if _, ok := err.(wallet.Error); ok {
			return "err Error(other)"
		}
		if _, ok := err.(transaction.Error); ok {
			return "err Error(txn)"
		}
		return "err other"
	}
	var ss, owners []string
	var uxIn coin.UxArray
	for i, in := range txn.In {
		ux, ok := byHash[in]
		if !ok || i >= len(uxb) || uxb[i].Hash != in {
			ss = append(ss, "b")
			owners = append(owners, "?")
			continue
		}
		uxIn = append(uxIn, ux)
		owners = append(owners, fmt.Sprintf("e%d", idxOf[ux.Body.Address]))
		if i < len(txn.Sigs) && cipher.VerifyAddressSignedHash(ux.Body.Address, txn.Sigs[i], cipher.AddSHA256(txn.InnerHash, in)) == nil {
			ss = append(ss, "s")
		} else {
			ss = append(ss, "b")
		}
	}
	v := func(err error) string {
		if err != nil {
			return strings.Replace(err.Error(), " ", "_", -1)
		}
		return "ok"
	}
	vis := "skipped"
	if len(uxIn) == len(txn.In) {
		vis = v(txn.VerifyInputSignatures(uxIn))
	}
	return fmt.Sprintf("ok sigs=%s owners=%s verify=%s vis=%s", strings.Join(ss, ","), strings.Join(owners, ","), v(txn.Verify()), vis)
}

func c13Exec(op string) string {
	f := Fields(op)
	if f[0] == "sign" {
		return execSign(f)
	}
	if f[0] == "csign" {
		return execCsign(f)
	}
	if f[0] == "vsign" {
		return execVsign(f)
	}
	panic("harness: unknown op " + f[0])
}

// csignOps: created-and-signed transactions whose chosen inputs revisit addresses in every order
func csignOps(r *Rng, count int, emit func(string)) {
	patterns := [][]int{{0, 1, 0}, {0, 1, 1, 0}, {0, 1, 2, 0}, {1, 0, 1, 0}, {0, 0, 1}, {0, 1, 2, 1, 0}, {2, 1, 0}, {0}, {1, 1}}
	for it := 0; it < count; it++ {
		typ := []string{"deterministic", "bip44", "collection"}[r.Intn(3)]
		if it%8 == 7 {
			typ = "xpub" // watch-only: no secret keys; creating a SIGNED transaction must be refused with an error
		}
		nEnt := 2 + r.Intn(3)
		spec := fmt.Sprintf("%s:%s:%d:0", typ, Hex(r.Bytes(16)), nEnt)
		addrs, _ := entryKeys(spec)
		var pat []int
		if it%3 == 2 { // random walk over the addresses
			for i := 0; i < 2+r.Intn(5); i++ {
				pat = append(pat, r.Intn(len(addrs)))
			}
		} else {
			pat = patterns[r.Intn(len(patterns))]
		}
		coins := uint64(len(pat)+2) * 3000000
		var ux []string
		for _, e := range pat {
			coins -= uint64(1+r.Intn(2)) * 1000000
			ux = append(ux, fmt.Sprintf("e%d:%d:%d", e%len(addrs), coins, 10+r.Intn(90)))
		}
		emit(fmt.Sprintf("csign wallet=%s nent=%d ux=%s", spec, len(addrs), strings.Join(ux, ",")))
	}
}

func c13Gen(r *Rng, tier string, emit func(string)) {
	n := 600
	csignOps(r, map[bool]int{false: 150, true: 1500}[tier == "thorough"], emit)
	vsignOps(r, map[bool]int{false: 300, true: 3000}[tier == "thorough"], emit)
	if tier == "thorough" {
		n = 6000
	}
	types := []string{"deterministic", "bip44", "collection", "xpub"}
	for it := 0; it < n; it++ {
		typ := types[r.Intn(4)]
		if it%10 < 6 {
			typ = types[r.Intn(3)]
		}
		nEnt := 1 + r.Intn(5)
		enc := "0"
		if typ != "xpub" && r.Chance(8) {
			enc = "1"
		}
		spec := fmt.Sprintf("%s:%s:%d:%s", typ, Hex(r.Bytes(16)), nEnt, enc)
		lockedExt := (typ == "bip44" || typ == "deterministic") && r.Chance(25)
		if lockedExt {
			// addresses generated while the wallet was locked, signed for after an unlock
			kc := 0
			if typ == "bip44" && r.Chance(50) {
				kc = 1 + r.Intn(3)
			}
			spec = fmt.Sprintf("%s:%s:%d:0:g%dc%d", typ, Hex(r.Bytes(16)), nEnt, 1+r.Intn(4), kc)
		}
		addrs, _ := entryKeys(spec)
		k := 1 + r.Intn(6)
		if r.Chance(3) {
			k = 0
		}
		// ownership pattern
		var ux []string
		pat := r.Intn(4)
		for i := 0; i < k; i++ {
			switch {
			case lockedExt && r.Chance(60): // an address generated while the wallet was locked
				ux = append(ux, fmt.Sprintf("e%d", nEnt+r.Intn(len(addrs)-nEnt)))
			case pat == 0: // all owned
				ux = append(ux, fmt.Sprintf("e%d", r.Intn(len(addrs))))
			case pat == 1 && r.Chance(30): // some foreign
				ux = append(ux, fmt.Sprintf("f%d", r.Intn(3)))
			case pat == 2: // duplicate owners
				ux = append(ux, fmt.Sprintf("e%d", r.Intn(2)%len(addrs)))
			default:
				ux = append(ux, fmt.Sprintf("e%d", r.Intn(len(addrs))))
			}
		}
		// existing signatures
		m := k
		switch r.Intn(24) {
		case 0:
			m = k + 1
		case 1:
			if k > 0 {
				m = k - 1
			}
		case 2:
			m = 0
		}
		var sigs []string
		mode := r.Intn(4)
		for i := 0; i < m; i++ {
			s := "n"
			switch mode {
			case 1:
				if r.Chance(40) {
					s = "v"
				}
			case 2:
				if r.Chance(40) {
					s = []string{"v", "g"}[r.Intn(2)]
				}
			case 3:
				if r.Chance(90) && it%5 == 0 {
					s = "v"
				}
			}
			sigs = append(sigs, s)
		}
		// index selection
		var idx []string
		switch []int{0, 1, 0, 2, 2, 3, 3, 3, 4, 5, 6, 7, 7, 2}[r.Intn(14)] {
		case 0, 1: // empty = all unsigned
		case 2: // exactly the unsigned ones
			for i, s := range sigs {
				if s == "n" && i < k {
					idx = append(idx, fmt.Sprint(i))
				}
			}
		case 3: // a subset of the unsigned ones
			for i, s := range sigs {
				if s == "n" && i < k && r.Bool() {
					idx = append(idx, fmt.Sprint(i))
				}
			}
		case 4: // includes an already signed one
			for i := 0; i < k; i++ {
				if r.Bool() {
					idx = append(idx, fmt.Sprint(i))
				}
			}
		case 5: // duplicates
			if k > 0 {
				i := r.Intn(k)
				idx = []string{fmt.Sprint(i), fmt.Sprint(i)}
			}
		case 6: // out of range
			idx = []string{fmt.Sprint([]int{-1, k, k + 1, -2147483648, 1 << 40}[r.Intn(5)])}
			if k > 1 {
				idx = append(idx, "0")
			}
		case 7: // permuted order
			for i := k - 1; i >= 0; i-- {
				if i < len(sigs) && sigs[i] == "n" {
					idx = append(idx, fmt.Sprint(i))
				}
			}
		}
		inner := "ok"
		if r.Chance(3) {
			inner = "bad"
		}
		j := func(l []string) string {
			if len(l) == 0 {
				return "-"
			}
			return strings.Join(l, ",")
		}
		emit(fmt.Sprintf("sign wallet=%s nent=%d ux=%s sigs=%s idx=%s inner=%s", spec, len(addrs), j(ux), j(sigs), j(idx), inner))
	}
}

func main() {
	Main(&Prop{Gen: c13Gen, Exec: c13Exec, Close: closeWorld})
}
