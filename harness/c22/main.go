package main

// C22: the wire protocol frames and parses any byte stream correctly.
//
//	frames MAX c1,c2,…   the reads of readLoop: for each chunk `conn.Buffer.Write(chunk); decodeData(conn.Buffer, MAX)`
//	                     (real gnet.decodeData through the verif hook, one bytes.Buffer per case, as in readLoop);
//	                     output: per chunk the frames it delivered ("+"-joined hex, "." = none), chunks ","-joined,
//	                     then "|buf=<hex>" (what stays in the connection buffer) or "|err <reason>" (disconnect)
//	conv HEX             real gnet.convertToMessage on one frame (the 12 daemon messages registered):
//	                     "ok <GoType> <value dump>" or "err <disconnect reason>"
//	recv MAX c1,c2,…     the same scripted reads served by a real ConnectionPool (handleConnection: readLoop + the
//	                     receiveMessage goroutine + convertToMessage + the REAL daemon messages' Handle, which queue
//	                     the message for the daemon's event loop); only once the whole burst has been queued are the
//	                     queued messages looked at (re-encoded), as the daemon's event loop may: "+"-joined hex of
//	                     the frames they stand for, then "|end=idle" or "|end=err <reason>"
//
// The Lean driver (Sky/C22/Drv.lean) answers from Sky.C22.Model with the regenerated message table.

import (
	"bytes"
	"fmt"
	"io"
	"net"
	"reflect"
	"strconv"
	"strings"
	"sync"
	"time"

	. "verif/harness/codecio"
	. "verif/harness/hlib"

	"github.com/skycoin/skycoin/src/cipher"
	"github.com/skycoin/skycoin/src/cipher/encoder"
	"github.com/skycoin/skycoin/src/coin"
	"github.com/skycoin/skycoin/src/daemon"
	"github.com/skycoin/skycoin/src/daemon/gnet"
)

var reasons = map[error]string{
	gnet.ErrDisconnectInvalidMessageLength:   "ErrDisconnectInvalidMessageLength",
	gnet.ErrDisconnectMalformedMessage:       "ErrDisconnectMalformedMessage",
	gnet.ErrDisconnectUnknownMessage:         "ErrDisconnectUnknownMessage",
	gnet.ErrDisconnectMessageDecodeUnderflow: "ErrDisconnectMessageDecodeUnderflow",
	gnet.ErrDisconnectTruncatedMessageID:     "ErrDisconnectTruncatedMessageID",
}

func init() {
	mc := daemon.NewMessagesConfig()
	mc.Register()
}

func parseChunks(s string) [][]byte {
	var cs [][]byte
	for _, c := range strings.Split(s, ",") {
		cs = append(cs, ParseBytes(c))
	}
	return cs
}

// execFrames delivers each frame the way the slowest legal consumer of readLoop's 32-slot channel would see
// it: a frame returned by decodeData is only looked at (hex-dumped) once 32 later frames are queued behind it,
// or at the end of the case. decodeData must therefore hand out frames that later reads into the same
// connection buffer cannot change.
func execFrames(max int, chunks [][]byte) string {
	buf := &bytes.Buffer{}
	type pending struct {
		read int
		data []byte
	}
	var queue []pending
	outs := make([][]string, 0, len(chunks))
	deliver := func(p pending) { outs[p.read] = append(outs[p.read], Hex(p.data)) }
	render := func() string {
		var out []string
		for _, fs := range outs {
			if len(fs) == 0 {
				out = append(out, ".")
			} else {
				out = append(out, strings.Join(fs, "+"))
			}
		}
		return strings.Join(out, ",")
	}
	for i, c := range chunks {
		buf.Write(c)
		datas, err := gnet.VerifDecodeData(buf, max)
		if err != nil {
			for _, p := range queue {
				deliver(p)
			}
			return render() + "|err " + ErrName(err, reasons)
		}
		outs = append(outs, nil)
		for _, d := range datas {
			queue = append(queue, pending{i, d})
			if len(queue) > msgChanCap {
				deliver(queue[0])
				queue = queue[1:]
			}
		}
	}
	for _, p := range queue {
		deliver(p)
	}
	return render() + "|buf=" + Hex(buf.Bytes())
}

const msgChanCap = 32

// ---- readLoop on a scripted connection ----------------------------------------------------------------------

// scriptConn hands out the chunks one Read at a time (never more than the caller's buffer), then reports that
// the peer has gone idle and blocks until it is closed.
type scriptConn struct {
	mu     sync.Mutex
	chunks [][]byte
	idle   chan struct{}
	closed chan struct{}
	once   sync.Once
	conce  sync.Once
}

type dummyAddr struct{}

func (dummyAddr) Network() string { return "tcp" }
func (dummyAddr) String() string  { return "10.0.0.1:6000" }

func (c *scriptConn) Read(p []byte) (int, error) {
	c.mu.Lock()
	for len(c.chunks) > 0 && len(c.chunks[0]) == 0 {
		c.chunks = c.chunks[1:]
	}
	if len(c.chunks) > 0 {
		n := copy(p, c.chunks[0])
		c.chunks[0] = c.chunks[0][n:]
		c.mu.Unlock()
		return n, nil
	}
	c.mu.Unlock()
	c.once.Do(func() { close(c.idle) })
	<-c.closed
	return 0, io.EOF
}
func (c *scriptConn) Write(p []byte) (int, error)        { return len(p), nil }
func (c *scriptConn) Close() error                       { c.conce.Do(func() { close(c.closed) }); return nil }
func (c *scriptConn) LocalAddr() net.Addr                { return dummyAddr{} }
func (c *scriptConn) RemoteAddr() net.Addr               { return dummyAddr{} }
func (c *scriptConn) SetDeadline(t time.Time) error      { return nil }
func (c *scriptConn) SetReadDeadline(t time.Time) error  { return nil }
func (c *scriptConn) SetWriteDeadline(t time.Time) error { return nil }

// execReadLoop runs the REAL readLoop (bufio reader, readData, connection buffer, decodeData, msgChan) over the
// scripted reads and reports the frames that have been handed over by the time the peer goes idle — a frame the
// node has fully received must not wait for further traffic — then closes the connection.
func execReadLoop(max int, chunks [][]byte) string {
	cfg := gnet.NewConfig()
	cfg.MaxIncomingMessageLength = max
	cfg.ReadTimeout = 0
	sc := &scriptConn{chunks: chunks, idle: make(chan struct{}), closed: make(chan struct{})}
	// nobody takes frames out while readLoop runs: the generated streams hold at most 30 frames, fewer than the
	// channel's 32 slots, so every hand-over succeeds at once and the frames simply wait in the channel.  readLoop
	// calls Read again only AFTER it has handed over the frames of the previous read, so when the scripted
	// connection reports the idle Read, everything the unchanged code delivers is already in the channel
	// (no timing assumption).
	msgC := make(chan []byte, msgChanCap)
	qc := make(chan struct{})
	done := make(chan error, 1)
	go func() {
		defer func() {
			if r := recover(); r != nil {
				done <- fmt.Errorf("panic: %v", r)
			}
		}()
		done <- gnet.VerifReadLoop(cfg, sc, msgC, qc)
	}()
	take := func() []string {
		var l []string
		for {
			select {
			case d, ok := <-msgC:
				if !ok {
					return l
				}
				l = append(l, Hex(d))
			default:
				return l
			}
		}
	}
	var atIdle []string
	var endErr error
	ended := false
	select {
	case <-sc.idle:
		atIdle = take()
	case endErr = <-done:
		ended = true
		atIdle = take()
	case <-time.After(20 * time.Second):
		return "hang"
	}
	sc.Close()
	if !ended {
		select {
		case endErr = <-done:
		case <-time.After(20 * time.Second):
			return "hang"
		}
	}
	late := len(take())
	if endErr != nil && strings.HasPrefix(endErr.Error(), "panic: ") {
		return endErr.Error()
	}
	fs := "."
	if len(atIdle) > 0 {
		fs = strings.Join(atIdle, "+")
	}
	end := "idle"
	if ended {
		end = "err " + ErrName(endErr, reasons)
	}
	return fs + "|late=" + strconv.Itoa(late) + "|end=" + end
}

// execRecv serves the scripted connection with a real ConnectionPool whose message state is a Daemon reduced to
// its event queue. The daemon's event loop is the consumer of that queue and may run arbitrarily later than the
// receive path, so the queued messages are looked at only after the whole burst has been received.
func execRecv(max int, chunks [][]byte) string {
	want := 0
	var all []byte
	for _, c := range chunks {
		all = append(all, c...)
	}
	for o := 0; o+4 <= len(all); {
		l := int(uint32(all[o]) | uint32(all[o+1])<<8 | uint32(all[o+2])<<16 | uint32(all[o+3])<<24)
		if l < 4 || l > max || o+4+l > len(all) {
			break
		}
		if string(all[o+4:o+8]) != "PONG" { // PongMessage.Handle queues nothing
			want++
		}
		o += 4 + l
	}
	rec := daemon.VerifNewRecorder(64)
	cfg := gnet.NewConfig()
	cfg.MaxIncomingMessageLength = max
	cfg.ReadTimeout = 0
	pool, err := gnet.NewConnectionPool(cfg, rec.State())
	if err != nil {
		panic("harness: NewConnectionPool: " + err.Error())
	}
	go pool.RunOffline() //nolint:errcheck
	sc := &scriptConn{chunks: chunks, idle: make(chan struct{}), closed: make(chan struct{})}
	done := make(chan error, 1)
	go func() {
		defer func() {
			if r := recover(); r != nil {
				done <- fmt.Errorf("panic: %v", r)
			}
		}()
		done <- pool.VerifHandleConnection(sc)
	}()
	var endErr error
	ended := false
	deadline := time.Now().Add(20 * time.Second)
	for rec.Len() < want && !ended {
		select {
		case endErr = <-done:
			ended = true
		case <-time.After(200 * time.Microsecond):
		}
		if time.Now().After(deadline) {
			break
		}
	}
	if !ended {
		// everything expected is queued; give an unexpected extra delivery or a failure the chance to show
		select {
		case endErr = <-done:
			ended = true
		case <-sc.idle:
		case <-time.After(20 * time.Second):
		}
	}
	ms := rec.Drain()
	pool.Shutdown()
	if !ended {
		select {
		case <-done:
		case <-time.After(20 * time.Second):
			return "hang"
		}
	}
	if endErr != nil && strings.HasPrefix(endErr.Error(), "panic: ") {
		return endErr.Error()
	}
	var fs []string
	for _, m := range ms {
		b, err := gnet.EncodeMessage(m)
		if err != nil {
			fs = append(fs, "unencodable:"+err.Error())
			continue
		}
		fs = append(fs, Hex(b[4:]))
	}
	out := "."
	if len(fs) > 0 {
		out = strings.Join(fs, "+")
	}
	if ended {
		return out + "|end=err " + ErrName(endErr, reasons)
	}
	return out + "|end=idle"
}

func execConv(b []byte) string {
	m, err := gnet.VerifConvertToMessage(1, b)
	if err != nil {
		return "err " + ErrName(err, reasons)
	}
	return "ok " + reflect.TypeOf(m).Elem().Name() + " " + DumpStr(m, false)
}

func c22Exec(op string) string {
	f := Fields(op)
	switch f[0] {
	case "frames":
		return execFrames(int(PI64(f[1])), parseChunks(f[2]))
	case "conv":
		return execConv(ParseBytes(f[1]))
	case "readloop":
		return execReadLoop(int(PI64(f[1])), parseChunks(f[2]))
	case "recv":
		return execRecv(int(PI64(f[1])), parseChunks(f[2]))
	}
	panic("harness: unknown op " + f[0])
}

// ---------------------------------------------------------------------------------------------
// generators
// ---------------------------------------------------------------------------------------------

func newMessages() []gnet.Message {
	return []gnet.Message{&daemon.IntroductionMessage{}, &daemon.GetPeersMessage{}, &daemon.GivePeersMessage{},
		&daemon.PingMessage{}, &daemon.PongMessage{}, &daemon.GetBlocksMessage{}, &daemon.GiveBlocksMessage{},
		&daemon.AnnounceBlocksMessage{}, &daemon.GetTxnsMessage{}, &daemon.GiveTxnsMessage{},
		&daemon.AnnounceTxnsMessage{}, &daemon.DisconnectMessage{}}
}

// randomMessage builds one of the 12 messages with type-directed random content and frames it with the real
// gnet.EncodeMessage (length prefix ‖ id ‖ body). Values are kept within maxlen so that EncodeMessage succeeds.
func randomMessage(r *Rng) []byte {
	for {
		ms := newMessages()
		m := ms[r.Intn(len(ms))]
		g := &GenCtx{R: r, Budget: 40}
		g.Value(reflect.ValueOf(m).Elem(), 0)
		b, err := gnet.EncodeMessage(m)
		if err == nil {
			return b
		}
	}
}

// largeMessage builds a well-formed message of 8–60 KB (hash lists at their 256-entry limit, blocks and transaction
// lists with many inputs), so that the connection buffer has to grow well beyond one read while it is incomplete.
func largeMessage(r *Rng) []byte {
	hashes := func(n int) []cipher.SHA256 {
		hs := make([]cipher.SHA256, n)
		for i := range hs {
			copy(hs[i][:], r.Bytes(32))
		}
		return hs
	}
	txn := func(nin, nout int) coin.Transaction {
		t := coin.Transaction{Type: uint8(r.Intn(2)), In: hashes(nin)}
		copy(t.InnerHash[:], r.Bytes(32))
		for i := 0; i < nin; i++ {
			var sg cipher.Sig
			copy(sg[:], r.Bytes(65))
			t.Sigs = append(t.Sigs, sg)
		}
		for i := 0; i < nout; i++ {
			var o coin.TransactionOutput
			o.Address.Version = byte(r.Intn(3))
			copy(o.Address.Key[:], r.Bytes(20))
			o.Coins, o.Hours = r.U64(), r.U64()
			t.Out = append(t.Out, o)
		}
		t.Length = uint32(r.U64())
		return t
	}
	for {
		var m gnet.Message
		switch r.Intn(4) {
		case 0:
			m = &daemon.AnnounceTxnsMessage{Transactions: hashes(256)}
		case 1:
			m = &daemon.GetTxnsMessage{Transactions: hashes(256)}
		case 2:
			g := &daemon.GiveTxnsMessage{}
			for k, n := 0, r.Range(1, 6); k < n; k++ {
				g.Transactions = append(g.Transactions, txn(r.Range(40, 180), r.Range(1, 40)))
			}
			m = g
		default:
			g := &daemon.GiveBlocksMessage{}
			for k, n := 0, r.Range(1, 4); k < n; k++ {
				var b coin.SignedBlock
				b.Head.BkSeq, b.Head.Time, b.Head.Fee = r.U64(), r.U64(), r.U64()
				copy(b.Head.PrevHash[:], r.Bytes(32))
				copy(b.Head.BodyHash[:], r.Bytes(32))
				copy(b.Sig[:], r.Bytes(65))
				for j, nt := 0, r.Range(1, 4); j < nt; j++ {
					b.Body.Transactions = append(b.Body.Transactions, txn(r.Range(20, 120), r.Range(1, 30)))
				}
				g.Blocks = append(g.Blocks, b)
			}
			m = g
		}
		b, err := gnet.EncodeMessage(m)
		if err == nil && len(b) > 8200 && len(b) < 64000 {
			return b
		}
	}
}

func chunkStr(cs [][]byte) string {
	var s []string
	for _, c := range cs {
		s = append(s, Hex(c))
	}
	return strings.Join(s, ",")
}

func cutAt(stream []byte, cuts []int) [][]byte {
	var cs [][]byte
	prev := 0
	for _, c := range cuts {
		cs = append(cs, stream[prev:c])
		prev = c
	}
	return append(cs, stream[prev:])
}

func randomCuts(r *Rng, n, k int) []int {
	set := map[int]bool{}
	for i := 0; i < k; i++ {
		set[r.Intn(n+1)] = true
	}
	var cuts []int
	for i := 0; i <= n; i++ {
		if set[i] {
			cuts = append(cuts, i)
		}
	}
	return cuts
}

func put32(x uint32) []byte { return []byte{byte(x), byte(x >> 8), byte(x >> 16), byte(x >> 24)} }

func c22Gen(r *Rng, tier string, emit func(string)) {
	nStreams := 260
	if tier == "thorough" {
		nStreams = 12000
	}
	const defMax = 1024 * 1024
	frames := func(max int, cs [][]byte) { emit("frames " + strconv.Itoa(max) + " " + chunkStr(cs)) }
	for i := 0; i < nStreams; i++ {
		nm := r.Range(1, 6)
		var stream []byte
		var msgs [][]byte
		for k := 0; k < nm; k++ {
			m := randomMessage(r)
			msgs = append(msgs, m)
			stream = append(stream, m...)
		}
		max := defMax
		switch r.Intn(6) {
		case 0: // a limit around the longest / a random message of the stream
			max = len(msgs[r.Intn(len(msgs))]) - 4 + r.Range(-1, 1)
			if max < 4 {
				max = 4
			}
		case 1:
			max = r.Range(4, 64)
		}
		// whole stream in one read; byte by byte; every 2-cut (short streams) or sampled; random cuts
		frames(max, [][]byte{stream})
		if len(stream) <= 120 {
			var each [][]byte
			for _, b := range stream {
				each = append(each, []byte{b})
			}
			frames(max, each)
		}
		if len(stream) <= 200 {
			for c := 0; c <= len(stream); c++ {
				frames(max, cutAt(stream, []int{c}))
			}
		} else {
			for k := 0; k < 12; k++ {
				frames(max, cutAt(stream, []int{r.Intn(len(stream) + 1)}))
			}
			// cuts at and around every frame boundary
			off := 0
			for _, m := range msgs {
				for _, d := range []int{-1, 0, 1, 3, 4, 5} {
					if c := off + d; c >= 0 && c <= len(stream) {
						frames(max, cutAt(stream, []int{c}))
					}
				}
				off += len(m)
			}
		}
		for k := 0; k < 6; k++ {
			frames(max, cutAt(stream, randomCuts(r, len(stream), r.Range(2, 8))))
		}
		// 1024-byte reads, as readLoop does
		if len(stream) > 1024 {
			var cs [][]byte
			for o := 0; o < len(stream); o += 1024 {
				e := o + 1024
				if e > len(stream) {
					e = len(stream)
				}
				cs = append(cs, stream[o:e])
			}
			frames(max, cs)
		}
		// a limit at (or just above) the length of one of the messages, the whole stream legal under it: through the real
		// readLoop with the read ending 1, 2, 3 or 4 bytes before the end of each frame — a legal partial frame of
		// length L occupies up to L+3 bytes of the connection buffer (its length prefix is still there)
		if max != defMax && len(stream) <= 3000 {
			legal := true
			for _, m := range msgs {
				if len(m)-4 > max {
					legal = false
				}
			}
			if legal {
				off := 0
				for _, m := range msgs {
					off += len(m)
					for d := 1; d <= 4; d++ {
						if off-d > 0 {
							emit("readloop " + strconv.Itoa(max) + " " + chunkStr(cutAt(stream, []int{off - d})))
						}
					}
				}
				emit("readloop " + strconv.Itoa(max) + " " + chunkStr([][]byte{stream}))
			}
		}
		// the real readLoop (bufio + readData + buffer + decodeData + msgChan) over scripted reads of a well-formed
		// stream, optionally followed by the beginning of one more message; every frame fully received must have
		// been handed over when the peer goes idle, whatever the read sizes (multiples of readData's 1024-byte and
		// bufio's 4096-byte buffers included)
		if i%3 == 0 {
			long := append([]byte{}, stream...)
			if i%6 == 0 {
				// at most 30 frames in all: readLoop's hand-over to the 32-slot msgChan never blocks, it DISCONNECTS
				// when the queue is full, and the property is stated for a queue that does not overflow
				want := 4200 + r.Intn(3000)
				for n := nm; len(long) < want && n < 30; {
					if m := randomMessage(r); len(m) >= 200 || r.Chance(10) {
						long = append(long, m...)
						n++
					}
				}
			}
			rl := func(cs [][]byte) { emit("readloop " + strconv.Itoa(defMax) + " " + chunkStr(cs)) }
			rl([][]byte{long})
			rl(cutAt(long, randomCuts(r, len(long), r.Range(1, 6))))
			for _, sz := range []int{1024, 2048, 4096, 1023, 1025} {
				if len(long) > sz {
					var cs [][]byte
					for o := 0; o < len(long); o += sz {
						e := o + sz
						if e > len(long) {
							e = len(long)
						}
						cs = append(cs, long[o:e])
					}
					rl(cs)
				}
			}
			for kk := 1; kk <= 4; kk++ {
				if len(long) > 1024*kk {
					rl(cutAt(long, []int{len(long) - 1024*kk})) // the last read is exactly kk*1024 bytes
				}
			}
			tail := randomMessage(r)
			rl(cutAt(append(append([]byte{}, long...), tail[:r.Intn(len(tail))]...), randomCuts(r, len(long), r.Range(0, 3))))
			// the whole receive path with the real daemon handlers, which keep the message for the event loop: a burst
			// must be delivered as sent even when nothing has been processed yet
			rv := func(cs [][]byte) { emit("recv " + strconv.Itoa(defMax) + " " + chunkStr(cs)) }
			rv([][]byte{long})
			rv(cutAt(long, randomCuts(r, len(long), r.Range(1, 6))))
			// a burst of messages of one type
			var burst []byte
			first := randomMessage(r)
			burst = append(burst, first...)
			for n, nb := 1, r.Range(2, 12); n < nb; {
				if m := randomMessage(r); bytes.Equal(m[4:8], first[4:8]) {
					burst = append(burst, m...)
					n++
				}
			}
			rv([][]byte{burst})
			rv(cutAt(burst, randomCuts(r, len(burst), r.Range(1, 4))))
		}
		// large messages (the connection buffer grows to 16–64 KB while one is incomplete) between small ones, through
		// the real readLoop / receive path under the read sizes that matter: whatever the buffer management does once
		// a large message has been handed over, the beginning of the next message that arrived in the same read must
		// survive
		if i%10 == 5 {
			var big []byte
			nf := 0
			for _, m := range msgs {
				big = append(big, m...)
				nf++
			}
			for k, nl := 0, r.Range(1, 2); k < nl; k++ {
				big = append(big, largeMessage(r)...)
				nf++
				for n, ns := 0, r.Range(1, 6); n < ns && nf < 28; n++ {
					big = append(big, randomMessage(r)...)
					nf++
				}
			}
			rl := func(cs [][]byte) { emit("readloop " + strconv.Itoa(defMax) + " " + chunkStr(cs)) }
			fixed := func(sz int) [][]byte {
				var cs [][]byte
				for o := 0; o < len(big); o += sz {
					e := o + sz
					if e > len(big) {
						e = len(big)
					}
					cs = append(cs, big[o:e])
				}
				return cs
			}
			rl([][]byte{big})
			rl(fixed(1024))
			rl(fixed([]int{512, 777, 1000, 4096, 100}[r.Intn(5)]))
			rl(cutAt(big, randomCuts(r, len(big), r.Range(2, 9))))
			emit("recv " + strconv.Itoa(defMax) + " " + chunkStr([][]byte{big}))
			emit("recv " + strconv.Itoa(defMax) + " " + chunkStr(fixed(1000)))
			frames(defMax, fixed(1024))
			frames(defMax, cutAt(big, randomCuts(r, len(big), r.Range(2, 9))))
		}
		// a bad length prefix spliced in after the k-th message
		k := r.Intn(nm + 1)
		off := 0
		for _, m := range msgs[:k] {
			off += len(m)
		}
		bads := []uint32{0, 1, 3, uint32(max) + 1, 1 << 31, 1<<32 - 1}
		bad := append(put32(bads[r.Intn(len(bads))]), r.Bytes(r.Range(0, 9))...)
		spliced := append(append(append([]byte{}, stream[:off]...), bad...), stream[off:]...)
		frames(max, [][]byte{spliced})
		frames(max, cutAt(spliced, randomCuts(r, len(spliced), r.Range(1, 5))))
		if i%3 == 1 && len(spliced) >= off+5 {
			// the same through the real readLoop: once the bad prefix and one more byte have arrived the peer must be
			// disconnected, wherever the reads end (right after the prefix, inside it, before it)
			rl := func(cs [][]byte) { emit("readloop " + strconv.Itoa(max) + " " + chunkStr(cs)) }
			for _, c := range []int{off, off + 2, off + 4, off + 5} {
				if c <= len(spliced) {
					rl(cutAt(spliced, []int{c}))
				}
			}
			rl(cutAt(spliced, []int{off, off + 4}))
			rl(cutAt(spliced, randomCuts(r, len(spliced), r.Range(1, 4))))
		}
		// boundary length prefixes with exactly / one less than the announced payload
		for _, l := range []int{3, 4, 5, max - 1, max, max + 1} {
			if l < 0 || l > 4096 {
				continue
			}
			body := r.Bytes(l)
			frames(max, [][]byte{append(put32(uint32(l)), body...)})
			if l > 0 {
				frames(max, [][]byte{append(put32(uint32(l)), body[:l-1]...), body[l-1:]})
			}
		}
		// garbage
		frames(max, cutAt(r.Bytes(r.Range(0, 60)), randomCuts(r, 0, 0)))
		g := r.Bytes(r.Range(5, 80))
		frames(r.Range(4, 300), cutAt(g, randomCuts(r, len(g), r.Range(0, 4))))

		// convertToMessage on every frame of the stream and on its neighbours
		for _, m := range msgs {
			body := m[4:]
			emit("conv " + Hex(body))
			if len(body) <= 400 {
				emit("conv " + Hex(body[:r.Intn(len(body)+1)]))
				emit("conv " + Hex(append(append([]byte{}, body...), byte(r.U64()))))
				emit("conv " + Hex(append(append([]byte{}, body...), 0, 0, 0, 0)))
				mut := append([]byte{}, body...)
				mut[r.Intn(len(mut))] ^= 1 << uint(r.Intn(8))
				emit("conv " + Hex(mut))
				if len(body) > 4 {
					cut := append([]byte{}, body[:len(body)-1]...)
					emit("conv " + Hex(cut))
				}
			}
		}
		emit("conv " + Hex(r.Bytes(r.Range(0, 12))))
	}
	// every id with an empty body, a one-byte body, and near-miss ids
	for _, id := range []string{"INTR", "GETP", "GIVP", "PING", "PONG", "GETB", "GIVB", "ANNB", "GETT", "GIVT", "ANNT", "DISC",
		"intr", "INT", "XXXX", "GETQ", "PIN\x00", "\x00\x00\x00\x00"} {
		emit("conv " + Hex([]byte(id)))
		emit("conv " + Hex(append([]byte(id), 0)))
		emit("conv " + Hex(append([]byte(id), 0, 0, 0, 0)))
		emit("conv " + Hex(append([]byte(id), 1, 0, 0, 0)))
		emit("conv " + Hex(append([]byte(id), make([]byte, 16)...)))
	}
	_ = encoder.ErrBufferUnderflow
	_ = fmt.Sprint
}

func main() { Main(&Prop{Gen: c22Gen, Exec: c22Exec}) }
