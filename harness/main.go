// harness: runs the REAL skycoin code (linked from /repo via the replace directive, built with
// -tags verif) on generated or replayed operation lines and prints one canonical answer per line.
//
//   harness <prop> gen  -seed N -tier quick|thorough   > ops.tsv    (lines: op<TAB>impl-output)
//   harness <prop> exec < ops.txt                      > ops.tsv    (replay: re-execute given ops)
//
// Each property registers a Prop in its own file (cNN.go).
package main

import (
	"bufio"
	"flag"
	"fmt"
	"io"
	"log"
	"os"
	"runtime/debug"
	"strings"
)

// Prop is one property's generator + executor.
type Prop struct {
	// Gen emits operation lines (no tabs/newlines). Stateful properties start each case with "reset".
	Gen func(r *Rng, tier string, emit func(op string))
	// Exec runs one operation against the real implementation and returns its canonical output.
	Exec func(op string) string
	// Close releases scratch state (temp dirs) at the end.
	Close func()
}

var registry = map[string]*Prop{}

func register(name string, p *Prop) { registry[name] = p }

// safeExec converts a Go panic in the implementation into the canonical outcome "panic".
func safeExec(p *Prop, op string) (out string) {
	defer func() {
		if r := recover(); r != nil {
			msg := fmt.Sprint(r)
			if len(msg) > 120 {
				msg = msg[:120]
			}
			msg = strings.Map(func(c rune) rune {
				if c == '\t' || c == '\n' || c == '\r' {
					return ' '
				}
				return c
			}, msg)
			if os.Getenv("VERIF_STACK") != "" {
				fmt.Fprintf(os.Stderr, "panic on %q: %v\n%s\n", op, r, debug.Stack())
			}
			out = "panic " + msg
		}
	}()
	return p.Exec(op)
}

func main() {
	if len(os.Args) < 3 {
		fmt.Fprintln(os.Stderr, "usage: harness <prop> gen|exec [flags]")
		os.Exit(2)
	}
	p := registry[strings.ToLower(os.Args[1])]
	if p == nil {
		fmt.Fprintln(os.Stderr, "unknown property", os.Args[1])
		os.Exit(2)
	}
	mode := os.Args[2]
	log.SetOutput(io.Discard)
	quietLogging()
	fs := flag.NewFlagSet("harness", flag.ExitOnError)
	seed := fs.Uint64("seed", 1, "PRNG seed")
	tier := fs.String("tier", "quick", "quick|thorough")
	fs.Parse(os.Args[3:])
	w := bufio.NewWriterSize(os.Stdout, 1<<20)
	defer w.Flush()
	if p.Close != nil {
		defer p.Close()
	}
	run := func(op string) {
		out := safeExec(p, op)
		w.WriteString(op)
		w.WriteByte('\t')
		w.WriteString(out)
		w.WriteByte('\n')
	}
	switch mode {
	case "gen":
		p.Gen(NewRng(*seed), *tier, run)
	case "exec":
		sc := bufio.NewScanner(os.Stdin)
		sc.Buffer(make([]byte, 1<<20), 1<<28)
		for sc.Scan() {
			line := sc.Text()
			if i := strings.IndexByte(line, '\t'); i >= 0 {
				line = line[:i]
			}
			if line == "" || strings.HasPrefix(line, "#") {
				continue
			}
			run(line)
		}
	default:
		fmt.Fprintln(os.Stderr, "unknown mode", mode)
		os.Exit(2)
	}
}
