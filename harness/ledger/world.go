package main

// Ledger harness (C01-C08, C33): drives REAL visor.Visor instances on real bolt files and prints,
// per operation, annotations (data derived from the op's bytes by the real code: hashes, sizes,
// signature verdicts), the node's verdict, and a canonical digest of the node's whole state.

import (
	"fmt"
	"os"
	"path/filepath"
	"sort"
	"strings"

	"github.com/skycoin/skycoin/src/cipher"
	"github.com/skycoin/skycoin/src/coin"
	"github.com/skycoin/skycoin/src/params"
	"github.com/skycoin/skycoin/src/transaction"
	"github.com/skycoin/skycoin/src/visor"
	"github.com/skycoin/skycoin/src/visor/blockdb"
	"github.com/skycoin/skycoin/src/visor/dbutil"
	"github.com/skycoin/skycoin/src/visor/historydb"
)

const nKeys = 8

type keypair struct {
	pub  cipher.PubKey
	sec  cipher.SecKey
	addr cipher.Address
}

var (
	keys      []keypair
	pubKey    cipher.PubKey // publisher
	secKey    cipher.SecKey
	forgePub  cipher.PubKey // a different key ("forger")
	forgeSec  cipher.SecKey
	addrIndex = map[cipher.Address]int{}
)

func initKeys() {
	if keys != nil {
		return
	}
	for i := 0; i < nKeys; i++ {
		p, s := cipher.MustGenerateDeterministicKeyPair([]byte(fmt.Sprintf("verif-ledger-key-%d", i)))
		a := cipher.AddressFromPubKey(p)
		keys = append(keys, keypair{p, s, a})
		addrIndex[a] = i
	}
	pubKey, secKey = cipher.MustGenerateDeterministicKeyPair([]byte("verif-ledger-publisher"))
	forgePub, forgeSec = cipher.MustGenerateDeterministicKeyPair([]byte("verif-ledger-forger"))
}

type node struct {
	name string
	v    *visor.Visor
	db   *dbutil.DB
	path string
	cfg  visor.Config
}

type worldT struct {
	dir     string
	nodes   map[string]*node
	genesis coin.SignedBlock
	n       int
}

var world *worldT
var worldCounter int

func scratch() string {
	d := os.Getenv("VERIF_SCRATCH")
	if d == "" {
		d = os.TempDir()
	}
	return d
}

func (w *worldT) close() {
	if w == nil {
		return
	}
	for _, n := range w.nodes {
		if n.db != nil {
			n.db.Close()
		}
	}
	os.RemoveAll(w.dir)
}

type resetParams struct {
	arbF, gc, gt, burn, maxtxn, maxblk, prec, ubf, umax, uprec uint64
	cbf, cmax, cprec                                           uint64 // block-creation rules (default: the unconfirmed ones)
}

func parseKV(fields []string) map[string]string {
	m := map[string]string{}
	for _, f := range fields {
		if i := strings.IndexByte(f, '='); i > 0 {
			m[f[:i]] = f[i+1:]
		}
	}
	return m
}

func makeConfig(rp resetParams, publisher bool, arbitrating bool, genesisSig cipher.Sig) visor.Config {
	c := visor.NewConfig()
	c.IsBlockPublisher = publisher
	c.Arbitrating = arbitrating
	c.BlockchainPubkey = pubKey
	if publisher {
		c.BlockchainSeckey = secKey
	}
	vt := params.VerifyTxn{BurnFactor: uint32(rp.burn), MaxTransactionSize: uint32(rp.maxtxn), MaxDropletPrecision: uint8(rp.prec)}
	c.UnconfirmedVerifyTxn = vt
	c.CreateBlockVerifyTxn = params.VerifyTxn{BurnFactor: uint32(rp.cbf), MaxTransactionSize: uint32(rp.cmax), MaxDropletPrecision: uint8(rp.cprec)}
	c.MaxBlockTransactionsSize = uint32(rp.maxblk)
	c.GenesisAddress = keys[0].addr
	c.GenesisSignature = genesisSig
	c.GenesisTimestamp = rp.gt
	c.GenesisCoinVolume = rp.gc
	c.Distribution = params.Distribution{
		MaxCoinSupply:        400,
		InitialUnlockedCount: 2,
		UnlockAddressRate:    1,
		UnlockTimeInterval:   100,
		Addresses:            []string{keys[4].addr.String(), keys[5].addr.String(), keys[6].addr.String(), keys[7].addr.String()},
	}
	return c
}

func openNode(w *worldT, name string, cfg visor.Config) (*node, error) {
	path := filepath.Join(w.dir, name+".db")
	db, err := visor.OpenDB(path, false)
	if err != nil {
		return nil, err
	}
	v, err := visor.New(cfg, db, nil)
	if err != nil {
		db.Close()
		return nil, err
	}
	if err := v.Init(); err != nil {
		db.Close()
		return nil, err
	}
	return &node{name: name, v: v, db: db, path: path, cfg: cfg}, nil
}

func newWorld(rp resetParams) (*worldT, error) {
	initKeys()
	if world != nil {
		world.close()
	}
	idxSnaps = map[string][]idxSnap{}
	worldCounter++
	dir := filepath.Join(scratch(), fmt.Sprintf("ledger-%d-%d", os.Getpid(), worldCounter))
	if err := os.MkdirAll(dir, 0o700); err != nil {
		return nil, err
	}
	// user-transaction parameters are package globals in the real code
	params.UserVerifyTxn = params.VerifyTxn{BurnFactor: uint32(rp.ubf), MaxTransactionSize: uint32(rp.umax), MaxDropletPrecision: uint8(rp.uprec)}
	w := &worldT{dir: dir, nodes: map[string]*node{}}
	p, err := openNode(w, "P", makeConfig(rp, true, true, cipher.Sig{}))
	if err != nil {
		return nil, fmt.Errorf("publisher: %v", err)
	}
	w.nodes["P"] = p
	gb, err := p.v.GetSignedBlockBySeq(0)
	if err != nil || gb == nil {
		return nil, fmt.Errorf("no genesis: %v", err)
	}
	w.genesis = *gb
	f, err := openNode(w, "F", makeConfig(rp, false, rp.arbF == 1, gb.Sig))
	if err != nil {
		return nil, fmt.Errorf("follower: %v", err)
	}
	w.nodes["F"] = f
	world = w
	return w, nil
}

// ---------- canonical names ----------

func sh(h cipher.SHA256) string { return h.Hex()[:16] }

func an(a cipher.Address) string {
	if i, ok := addrIndex[a]; ok {
		return fmt.Sprintf("a%d", i)
	}
	if a.Null() {
		return "anull"
	}
	return "x" + a.String()[:10]
}

// ---------- error codes ----------

var errTable = []struct{ sub, code string }{
	{"BkSeq invalid", "bkseq"},
	{"Block time must be > head time", "time"},
	{"PrevHash does not match current head", "prevhash"},
	{"Computed body hash does not match", "bodyhash"},
	{"UxHash does not match", "uxhash"},
	{"Attempted to process genesis block", "genesis2"},
	{"Block contains invalid or conflicting transactions", "arbitrated"},
	{"No transactions after filtering", "notxns-filtered"},
	{"Refusing to create block with no transactions", "notxns-newblock"},
	{"No transactions", "notxns"},
	{"Time can only move forward", "time-forward"},
	{"Duplicate unspent output across transactions", "dupux-block"},
	{"Output hash is in the UnspentPool", "ux-in-pool"},
	{"Unexpected duplicate transaction", "duptxn"},
	{"Cannot spend output twice in the same block", "dblspend-block"},
	{"New unspent collides with existing unspent", "ux-collide"},
	{"unspent output of", "nounspent"},
	{"No inputs", "noinputs"},
	{"No outputs", "nooutputs"},
	{"Invalid number of signatures", "nsigs"},
	{"Too many signatures and inputs", "toomanysigs"},
	{"Too many ouptuts", "toomanyouts"},
	{"Duplicate spend", "dupspend"},
	{"transaction type invalid", "type"},
	{"Zero coin output", "zerocoin"},
	{"Output coins overflow", "outcoins-ovf"},
	{"Incorrect transaction length", "length"},
	{"Duplicate output in transaction", "dupout"},
	{"InnerHash does not match", "innerhash"},
	{"Unsigned input in transaction", "unsigned-input"},
	{"Unsigned transaction must contain a null signature", "needs-null-sig"},
	{"Signature not valid for output being spent", "sig-not-owner"},
	{"Transaction input coins overflow", "incoins-ovf"},
	{"Transaction output coins overflow", "outcoins-ovf2"},
	{"Insufficient coins", "insufficient-coins"},
	{"Transactions may not destroy coins", "destroy-coins"},
	{"Transaction input hours overflow", "inhours-ovf"},
	{"Insufficient coin hours", "insufficient-hours"},
	{"Insufficient coinhours for transaction outputs", "fee-insufficient-hours"},
	{"UxOut.CoinHours addition of earned coin hours overflow", "coinhours-add-ovf"},
	{"UxOut.CoinHours: Calculating", "coinhours-ovf"},
	{"UxArray.CoinHours addition overflow", "uxarray-hours-ovf"},
	{"Transaction output hours overflow", "outhours-ovf"},
	{"Transaction has zero coinhour fee", "nofee"},
	{"Transaction coinhour fee minimum not met", "lowfee"},
	{"Hours and fee overflow", "hours-fee-ovf"},
	{"Transaction size bigger than max block size", "toobig"},
	{"Transaction has locked address inputs", "locked"},
	{"invalid amount, too many decimal places", "decimals"},
	{"Transaction output is sent to the null address", "null-address"},
	{"transaction input not found in outputs bucket", "history-input-missing"},
	{"save block failed", "save-block"},
	{"save signature failed", "save-sig"},
	{"twice into the unspent pool", "ux-twice"},
	{"unspent pool processing blocks out of order", "out-of-order"},
	{"Invalid transaction fees", "block-fees"},
}

func errCode(err error) string {
	if err == nil {
		return "ok"
	}
	switch e := err.(type) {
	case transaction.ErrTxnViolatesHardConstraint:
		return "hard:" + errCode(e.Err)
	case transaction.ErrTxnViolatesSoftConstraint:
		return "soft:" + errCode(e.Err)
	case transaction.ErrTxnViolatesUserConstraint:
		return "user:" + errCode(e.Err)
	case blockdb.ErrUnspentNotExist:
		return "nounspent"
	}
	msg := err.Error()
	for _, e := range errTable {
		if strings.Contains(msg, e.sub) {
			return e.code
		}
	}
	// signature errors from cipher
	if strings.Contains(msg, "ignature") || strings.Contains(msg, "pubkey") || strings.Contains(msg, "PubKey") {
		return "badsig"
	}
	m := strings.Map(func(r rune) rune {
		if r == ' ' || r == '\t' || r == ';' || r == ',' || r == '=' || r == ':' {
			return '_'
		}
		return r
	}, msg)
	if len(m) > 40 {
		m = m[:40]
	}
	return "other:" + m
}

// ---------- annotations ----------

// annTxn: data the real code derives from the transaction's bytes.
// hdr != nil adds the snapshot hashes the outputs would get in a block with that header.
// head (optional) = the target node's current head header: `cid` are the ids the node's
// collision check derives (coin.CreateUnspents(head, txn) - which uses a ZERO source hash while
// the head is the genesis block).
func annTxn(t *coin.Transaction, hdr *coin.BlockHeader, head *coin.BlockHeader) string {
	var sb strings.Builder
	sb.WriteString("T")
	fmt.Fprintf(&sb, "h=%s;wf=%s;wfu=%s;", sh(t.Hash()), errCode(t.Verify()), errCode(t.VerifyUnsigned()))
	sz, err := t.Size()
	if err != nil {
		fmt.Fprintf(&sb, "sz=err;")
	} else {
		fmt.Fprintf(&sb, "sz=%d;", sz)
	}
	ins := make([]string, len(t.In))
	for i := range t.In {
		ins[i] = sh(t.In[i])
	}
	fmt.Fprintf(&sb, "in=%s;", strings.Join(ins, ","))
	sgs := make([]string, len(t.Sigs))
	for i := range t.Sigs {
		switch {
		case t.Sigs[i].Null():
			sgs[i] = "0"
		case i >= len(t.In):
			sgs[i] = "x"
		default:
			h := cipher.AddSHA256(t.InnerHash, t.In[i])
			pk, err := cipher.PubKeyFromSig(t.Sigs[i], h)
			if err != nil || cipher.VerifyPubKeySignedHash(pk, t.Sigs[i], h) != nil {
				sgs[i] = "x"
			} else {
				sgs[i] = an(cipher.AddressFromPubKey(pk))
			}
		}
	}
	fmt.Fprintf(&sb, "sg=%s;", strings.Join(sgs, ","))
	txh := t.Hash()
	outs := make([]string, len(t.Out))
	var uxs coin.UxArray
	if hdr != nil {
		// in a block: the ids the real code gives the created outputs (genesis uses a zero source hash)
		uxs = coin.CreateUnspents(*hdr, *t)
	}
	for i, o := range t.Out {
		id := o.UxID(txh)
		if hdr != nil {
			id = uxs[i].Hash()
		}
		outs[i] = fmt.Sprintf("%s:%d:%d:%s", an(o.Address), o.Coins, o.Hours, sh(id))
	}
	fmt.Fprintf(&sb, "out=%s", strings.Join(outs, ","))
	if head != nil {
		// ids under a genesis-like head (BkSeq 0): what the node's collision check uses while its
		// head is the genesis block; with any later head the check uses the own-hash ids (`out`)
		cu := coin.CreateUnspents(coin.BlockHeader{}, *t)
		cid := make([]string, len(cu))
		for i := range cu {
			cid[i] = sh(cu[i].Hash())
		}
		fmt.Fprintf(&sb, ";cid=%s", strings.Join(cid, ","))
	}
	if hdr != nil {
		sn := make([]string, len(uxs))
		for i := range uxs {
			sn[i] = sh(uxs[i].SnapshotHash())
		}
		fmt.Fprintf(&sb, ";sn=%s", strings.Join(sn, ","))
	}
	return sb.String()
}

func annBlock(b *coin.SignedBlock, head *coin.BlockHeader) string {
	var sb strings.Builder
	sigok := 0
	if b.VerifySignature(pubKey) == nil {
		sigok = 1
	}
	fmt.Fprintf(&sb, "Bseq=%d;time=%d;fee=%d;ver=%d;prev=%s;body=%s;ux=%s;hh=%s;cb=%s;sig=%d;nt=%d",
		b.Head.BkSeq, b.Head.Time, b.Head.Fee, b.Head.Version, sh(b.Head.PrevHash), sh(b.Head.BodyHash), sh(b.Head.UxHash),
		sh(b.HashHeader()), sh(b.Body.Hash()), sigok, len(b.Body.Transactions))
	for i := range b.Body.Transactions {
		sb.WriteString(" ")
		sb.WriteString(annTxn(&b.Body.Transactions[i], &b.Head, head))
	}
	return sb.String()
}

// ---------- state digest ----------

func joinSorted(xs []string, sep string) string {
	sort.Strings(xs)
	return strings.Join(xs, sep)
}

func digest(n *node) string {
	var parts []string
	err := n.db.View("verif digest", func(tx *dbutil.Tx) error {
		bc := n.v.VerifBlockchain()
		// chain
		length, err := bc.Len(tx)
		if err != nil {
			return err
		}
		var chain []string
		headS := "-"
		if length > 0 {
			blocks, err := bc.GetBlocksInRange(tx, 0, length)
			if err != nil {
				return err
			}
			for _, b := range blocks {
				txh := make([]string, len(b.Body.Transactions))
				for i := range b.Body.Transactions {
					txh[i] = sh(b.Body.Transactions[i].Hash())
				}
				sig := 0
				if b.VerifySignature(pubKey) == nil {
					sig = 1
				}
				chain = append(chain, fmt.Sprintf("%d:%s:%s:%s:%d:%s", b.Head.BkSeq, sh(b.HashHeader()), sh(b.Head.PrevHash), sh(b.Body.Hash()), sig, strings.Join(txh, "+")))
			}
			head, err := bc.Head(tx)
			if err != nil {
				return err
			}
			headS = fmt.Sprintf("%d:%s:%d", head.Head.BkSeq, sh(head.HashHeader()), head.Head.Time)
		}
		parts = append(parts, "head="+headS, fmt.Sprintf("len=%d", length), "chain="+strings.Join(chain, ","))
		// unspent pool
		uxs, err := bc.Unspent().GetAll(tx)
		if err != nil {
			return err
		}
		var ux []string
		addrSet := map[cipher.Address]struct{}{}
		for _, u := range uxs {
			ux = append(ux, fmt.Sprintf("%s:%s:%d:%d:%d:%d:%s", sh(u.Hash()), an(u.Body.Address), u.Body.Coins, u.Body.Hours, u.Head.Time, u.Head.BkSeq, sh(u.Body.SrcTransaction)))
			addrSet[u.Body.Address] = struct{}{}
		}
		parts = append(parts, "ux="+joinSorted(ux, ","))
		xh, err := bc.Unspent().GetUxHash(tx)
		if err != nil {
			return err
		}
		parts = append(parts, "xor="+sh(xh))
		// address index (for every key address + every address present in the pool)
		for _, k := range keys {
			addrSet[k.addr] = struct{}{}
		}
		var addrs []cipher.Address
		for a := range addrSet {
			addrs = append(addrs, a)
		}
		ah, err := bc.Unspent().GetUnspentHashesOfAddrs(tx, addrs)
		if err != nil {
			return err
		}
		var ai []string
		for a, hs := range ah {
			if len(hs) == 0 {
				continue
			}
			ids := make([]string, len(hs))
			for i := range hs {
				ids[i] = sh(hs[i])
			}
			ai = append(ai, an(a)+":"+joinSorted(ids, "+"))
		}
		parts = append(parts, "ai="+joinSorted(ai, ","))
		ac, err := bc.Unspent().AddressCount(tx)
		if err != nil {
			return err
		}
		parts = append(parts, fmt.Sprintf("ac=%d", ac))
		// unconfirmed pool
		var pool, pu []string
		if err := n.v.VerifUnconfirmed().ForEach(tx, func(h cipher.SHA256, ut visor.UnconfirmedTransaction) error {
			pool = append(pool, fmt.Sprintf("%s:%d", sh(h), ut.IsValid))
			return nil
		}); err != nil {
			return err
		}
		if err := dbutil.ForEach(tx, visor.UnconfirmedUnspentsBkt, func(k, v []byte) error {
			pu = append(pu, string(k)[:16])
			return nil
		}); err != nil {
			return err
		}
		parts = append(parts, "pool="+joinSorted(pool, ","), "pu="+joinSorted(pu, ","))
		// history
		hd := n.v.VerifHistory()
		ps, ok, err := hd.ParsedBlockSeq(tx)
		if err != nil {
			return err
		}
		if ok {
			parts = append(parts, fmt.Sprintf("hp=%d", ps))
		} else {
			parts = append(parts, "hp=-")
		}
		var ids []cipher.SHA256
		if err := dbutil.ForEach(tx, historydb.UxOutsBkt, func(k, v []byte) error {
			h, err := cipher.SHA256FromBytes(k)
			if err != nil {
				return err
			}
			ids = append(ids, h)
			return nil
		}); err != nil {
			return err
		}
		houts, err := hd.GetUxOuts(tx, ids)
		if err != nil {
			return err
		}
		var ho []string
		for _, o := range houts {
			sp := "-"
			if !o.SpentTxnID.Null() || o.SpentBlockSeq != 0 {
				sp = fmt.Sprintf("%d/%s", o.SpentBlockSeq, sh(o.SpentTxnID))
			}
			ho = append(ho, fmt.Sprintf("%s:%s:%d:%s", sh(o.Hash()), an(o.Out.Body.Address), o.Out.Body.Coins, sp))
		}
		parts = append(parts, "ho="+joinSorted(ho, ","))
		var ht []string
		if err := hd.ForEachTxn(tx, func(h cipher.SHA256, t *historydb.Transaction) error {
			ht = append(ht, fmt.Sprintf("%s:%d", sh(h), t.BlockSeq))
			return nil
		}); err != nil {
			return err
		}
		parts = append(parts, "ht="+joinSorted(ht, ","))
		var hau, hat []string
		for _, a := range addrs {
			outs, err := hd.GetOutputsForAddress(tx, a)
			if err != nil {
				return err
			}
			if len(outs) > 0 {
				x := make([]string, len(outs))
				for i := range outs {
					x[i] = sh(outs[i].Hash())
				}
				hau = append(hau, an(a)+":"+joinSorted(x, "+"))
			}
			ths, err := hd.GetTransactionHashesForAddresses(tx, []cipher.Address{a})
			if err != nil {
				return err
			}
			if len(ths) > 0 {
				x := make([]string, len(ths))
				for i := range ths {
					x[i] = sh(ths[i])
				}
				hat = append(hat, an(a)+":"+joinSorted(x, "+"))
			}
		}
		parts = append(parts, "hau="+joinSorted(hau, ","), "hat="+joinSorted(hat, ","))
		return nil
	})
	if err != nil {
		return "Derr=" + errCode(err)
	}
	// balance view (Visor.GetBalanceOfAddresses, the query behind /api/v1/balance): confirmed and predicted
	// coins and hours of every key address
	qa := make([]cipher.Address, len(keys))
	for i := range keys {
		qa[i] = keys[i].addr
	}
	bal := "err"
	if bps, err := n.v.GetBalanceOfAddresses(qa); err == nil && len(bps) == len(qa) {
		bs := make([]string, len(bps))
		for i, bp := range bps {
			bs[i] = fmt.Sprintf("a%d:%d/%d/%d/%d", i, bp.Confirmed.Coins, bp.Confirmed.Hours, bp.Predicted.Coins, bp.Predicted.Hours)
		}
		bal = strings.Join(bs, ",")
	}
	parts = append(parts, "bal="+bal)
	parts = append(parts, "vbq="+verboseBlockQueries(n))
	return "D" + strings.Join(parts, ";")
}

// verboseBlockQueries: the verbose view of a block (its transactions' inputs with the hours they had accrued at the
// previous block's time) is a function of the chain and the block alone — it must be the same whether the block is
// asked for alone, by a list of sequence numbers with gaps or out of order, by a range or as one of the last N.
// Returns "ok", "-" (chain too short to ask) or the first query whose answer differs.
func verboseBlockQueries(n *node) string {
	hs, ok, err := n.v.HeadBkSeq()
	if err != nil || !ok || hs < 2 {
		return "-"
	}
	key := func(b *coin.SignedBlock, in [][]visor.TransactionInput) string {
		var sb strings.Builder
		fmt.Fprintf(&sb, "%d:", b.Head.BkSeq)
		for _, t := range in {
			for _, i := range t {
				fmt.Fprintf(&sb, "%s/%d,", sh(i.UxOut.Hash()), i.CalculatedHours)
			}
			sb.WriteString(";")
		}
		return sb.String()
	}
	single := map[uint64]string{}
	for q := uint64(0); q <= hs; q++ {
		b, in, err := n.v.GetSignedBlockBySeqVerbose(q)
		if err != nil || b == nil {
			return fmt.Sprintf("single(%d):err", q)
		}
		single[q] = key(b, in)
	}
	// every query must return exactly the blocks asked for (want), in order, each equal to the by-seq answer
	check := func(name string, want []uint64, bs []coin.SignedBlock, ins [][][]visor.TransactionInput, err error) string {
		if err != nil || len(bs) != len(ins) {
			return name + ":err"
		}
		if len(bs) != len(want) {
			return fmt.Sprintf("%s:%d-blocks-want-%d", name, len(bs), len(want))
		}
		for i := range bs {
			if bs[i].Head.BkSeq != want[i] {
				return fmt.Sprintf("%s:got-block%d-want-%d", name, bs[i].Head.BkSeq, want[i])
			}
			if key(&bs[i], ins[i]) != single[bs[i].Head.BkSeq] {
				return fmt.Sprintf("%s:block%d", name, bs[i].Head.BkSeq)
			}
		}
		return ""
	}
	span := func(a, b uint64) []uint64 {
		var l []uint64
		for q := a; q <= b && q <= hs; q++ {
			l = append(l, q)
		}
		return l
	}
	lists := [][]uint64{{hs, 1}, {1, hs}, {0, hs}, {hs - 1, hs}, {hs, hs - 1, 0}}
	if hs >= 4 {
		lists = append(lists, []uint64{1, 2, hs - 1, hs}, []uint64{hs, 2})
	}
	for _, l := range lists {
		bs, ins, err := n.v.GetBlocksVerbose(l)
		if r := check(fmt.Sprintf("seqs%v", l), l, bs, ins, err); r != "" {
			return strings.ReplaceAll(r, " ", ",")
		}
	}
	for _, ab := range [][2]uint64{{1, hs}, {0, hs}, {hs, hs}, {hs, hs + 3}, {2, 1}, {hs - 1, hs + 1}, {0, 0}} {
		bs, ins, err := n.v.GetBlocksInRangeVerbose(ab[0], ab[1])
		if r := check(fmt.Sprintf("range(%d,%d)", ab[0], ab[1]), span(ab[0], ab[1]), bs, ins, err); r != "" {
			return r
		}
	}
	for _, k := range []uint64{0, 1, 2, hs - 1, hs, hs + 1, hs + 2} {
		var want []uint64
		if k > 0 {
			if k > hs {
				want = span(0, hs)
			} else {
				want = span(hs-k+1, hs)
			}
		}
		bs, ins, err := n.v.GetLastBlocksVerbose(k)
		if r := check(fmt.Sprintf("last%d", k), want, bs, ins, err); r != "" {
			return r
		}
		plain, err := n.v.GetLastBlocks(k)
		if err != nil || len(plain) != len(want) {
			return fmt.Sprintf("plainlast%d:%d-blocks-want-%d", k, len(plain), len(want))
		}
		for i := range plain {
			if plain[i].Head.BkSeq != want[i] {
				return fmt.Sprintf("plainlast%d:got-block%d-want-%d", k, plain[i].Head.BkSeq, want[i])
			}
		}
	}
	return "ok"
}

func signHash(h cipher.SHA256, k cipher.SecKey) cipher.Sig { return cipher.MustSignHash(h, k) }
