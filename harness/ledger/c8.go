package main

// C08: crash recovery of the chain database.  Every commit boundary of node F's life-cycle is
// snapshotted as a raw copy of data.db; `c8fork` materialises a crash state (a boundary file, or a
// boundary file plus a prefix of the NEXT commit's page writes, optionally with a torn meta page),
// restarts a real node on it (visor.New + Init + CheckDatabase under a deadline) as node R.

import (
	"bytes"
	"fmt"
	"io"
	"os"
	"path/filepath"
	"strconv"
	"strings"
	"time"

	. "verif/harness/hlib"

	"github.com/skycoin/skycoin/src/cipher"
	"github.com/skycoin/skycoin/src/coin"
	"github.com/skycoin/skycoin/src/visor"
	"github.com/skycoin/skycoin/src/visor/blockdb"
	"github.com/skycoin/skycoin/src/visor/dbutil"
	"github.com/skycoin/skycoin/src/visor/historydb"
)

const pageSz = 4096

var (
	c8On         bool
	c8Snaps      []string // raw copies of F's database at commit boundaries
	c8SnapCommit []int    // number of commits of F's database contained in each snapshot
	c8Commits    int
	c8Cfg        resetParams
)

func copyRaw(src, dst string) error {
	in, err := os.Open(src)
	if err != nil {
		return err
	}
	defer in.Close()
	out, err := os.Create(dst)
	if err != nil {
		return err
	}
	defer out.Close()
	_, err = io.Copy(out, in)
	return err
}

func c8Snapshot() {
	if !c8On || world == nil {
		return
	}
	f := world.nodes["F"]
	dst := filepath.Join(world.dir, fmt.Sprintf("snap-%d.db", len(c8Snaps)))
	if err := copyRaw(f.path, dst); err != nil {
		panic("harness: snapshot: " + err.Error())
	}
	c8Snaps = append(c8Snaps, dst)
	c8SnapCommit = append(c8SnapCommit, c8Commits)
}

// c8Adjacent: exactly one commit lies between snapshot k and snapshot k+1
func c8Adjacent(k int) bool {
	return k+1 < len(c8Snaps) && c8SnapCommit[k+1] == c8SnapCommit[k]+1
}

// commit hook: a raw copy of F's file after every successful db.Update (commit boundary)
func c8Hook(db *dbutil.DB, name string, err error) {
	if world == nil || err != nil {
		return
	}
	f := world.nodes["F"]
	if f == nil || db.Path() != f.path {
		return
	}
	c8Commits++
	if c8On {
		c8Snapshot()
	}
}

// c8Begin builds the world like reset does, with a snapshot of F's database at every commit:
// 0 = freshly created empty bolt file, 1 = buckets, 2 = indexes/history initialised, 3 = genesis
func c8Begin(rp resetParams) (string, error) {
	dbutil.VerifCommitHook = c8Hook
	c8On = false
	w, err := newWorld(rp) // P and a throw-away F (to learn the genesis signature)
	if err != nil {
		return "", err
	}
	c8Cfg = rp
	c8Snaps, c8SnapCommit, c8Commits = nil, nil, 0
	old := w.nodes["F"]
	old.db.Close()
	os.Remove(old.path)
	cfg := old.cfg
	path := old.path
	w.nodes["F"] = &node{name: "F", path: path, cfg: cfg}
	db, err := visor.OpenDB(path, false)
	if err != nil {
		return "", err
	}
	c8On = true
	c8Snapshot() // 0: empty bolt file
	v, err := visor.New(cfg, db, nil)
	if err != nil {
		return "", err
	}
	if err := v.Init(); err != nil {
		return "", err
	}
	w.nodes["F"] = &node{name: "F", v: v, db: db, path: path, cfg: cfg}
	g := w.genesis
	return annBlock(&g, nil) + " Rok " + digest(w.nodes["P"]) + " " + digest(w.nodes["F"]), nil
}

// buildCrashFile writes the crash state for boundary k and variant v into dst
func buildCrashFile(k int, variant string, dst string) error {
	a, err := os.ReadFile(c8Snaps[k])
	if err != nil {
		return err
	}
	if variant == "full" {
		return os.WriteFile(dst, a, 0o600)
	}
	if !c8Adjacent(k) {
		return fmt.Errorf("no single next commit for variant %s", variant)
	}
	b, err := os.ReadFile(c8Snaps[k+1])
	if err != nil {
		return err
	}
	out := make([]byte, len(a))
	copy(out, a)
	if len(b) > len(out) { // bolt grows the file before writing pages
		out = append(out, make([]byte, len(b)-len(out))...)
	}
	page := func(buf []byte, i int) []byte {
		if (i+1)*pageSz <= len(buf) {
			return buf[i*pageSz : (i+1)*pageSz]
		}
		return make([]byte, pageSz)
	}
	var diff []int
	for i := 2; i*pageSz < len(b); i++ {
		if !bytes.Equal(page(a, i), page(b, i)) {
			diff = append(diff, i)
		}
	}
	n := len(diff)
	torn := false
	switch {
	case strings.HasPrefix(variant, "pages:"):
		j, _ := strconv.Atoi(variant[6:])
		if j < n {
			n = j
		}
	case variant == "tornmeta":
		torn = true
	default:
		return fmt.Errorf("unknown variant %s", variant)
	}
	for _, i := range diff[:n] {
		copy(out[i*pageSz:(i+1)*pageSz], page(b, i))
	}
	if torn {
		for i := 0; i < 2; i++ {
			if !bytes.Equal(page(a, i), page(b, i)) {
				copy(out[i*pageSz:i*pageSz+pageSz/64], page(b, i)[:pageSz/64]) // first 64 bytes of the new meta only
			}
		}
	}
	return os.WriteFile(dst, out, 0o600)
}

func c8Fork(k int, variant string) string {
	if k < 0 || k >= len(c8Snaps) {
		return "Rbad-boundary"
	}
	if r := world.nodes["R"]; r != nil {
		if r.db != nil {
			r.db.Close()
		}
		os.Remove(r.path)
	}
	path := filepath.Join(world.dir, "R.db")
	if err := buildCrashFile(k, variant, path); err != nil {
		return "R" + errCode(err)
	}
	cfg := world.nodes["F"].cfg
	type res struct {
		n   *node
		err error
		chk error
	}
	ch := make(chan res, 1)
	go func() {
		defer func() {
			if r := recover(); r != nil {
				ch <- res{nil, fmt.Errorf("panic: %v", r), nil}
			}
		}()
		db, err := visor.OpenDB(path, false)
		if err != nil {
			ch <- res{nil, err, nil}
			return
		}
		// the node's start-up order: integrity verification, then New + Init
		chk := visor.CheckDatabase(db, pubKey, nil)
		v, err := visor.New(cfg, db, nil)
		if err != nil {
			db.Close()
			ch <- res{nil, err, chk}
			return
		}
		if err := v.Init(); err != nil {
			db.Close()
			ch <- res{nil, err, chk}
			return
		}
		chk2 := visor.CheckDatabase(db, pubKey, nil)
		if chk == nil {
			chk = chk2
		}
		ch <- res{&node{name: "R", v: v, db: db, path: path, cfg: cfg}, nil, chk}
	}()
	select {
	case r := <-ch:
		if r.err != nil {
			return "R" + errCode(r.err)
		}
		world.nodes["R"] = r.n
		return "Rok C" + errCode(r.chk) + " " + digest(r.n)
	case <-time.After(20 * time.Second):
		return "Rhang"
	}
}

var _ = cipher.SHA256{}

// c8Rebuild (C08, "while initialising"): node F's database is extended to nBlocks blocks, one of the derived
// structures is put into the state an upgrade or an interrupted reset leaves behind (so that the next start-up
// must rebuild it), and the node is started on a copy with a raw snapshot at EVERY commit boundary of that
// start-up.  Each snapshot is a possible crash state: a node restarted on it must come up, pass its own
// verification, hold exactly the data of the node that never crashed and accept the next block.
// The op is terminal for the history (F's chain runs ahead of the model afterwards).
func c8Rebuild(nBlocks int, what string, seed uint64) string {
	F := world.nodes["F"]
	if F == nil || F.v == nil {
		return "Rno-node"
	}
	defer func() {
		world.close()
		world = nil
	}()
	oldHook := dbutil.VerifCommitHook
	dbutil.VerifCommitHook = nil
	defer func() { dbutil.VerifCommitHook = oldHook }()
	// extend the chain with one-input one-output transactions that hand a single output on from key to key (no
	// coin hours carried, one second between blocks: nothing about them can fail once the first one went through)
	r := NewRng(seed)
	mk := func(ux coin.UxOut, i int) coin.Transaction {
		return buildTxn(txnSpec{ins: coin.UxArray{ux},
			outs:   []coin.TransactionOutput{{Address: keys[i%6].addr, Coins: ux.Body.Coins, Hours: 0}},
			signer: func(int) cipher.SecKey { return ownerKey(ux) }})
	}
	step := func(ux coin.UxOut, i int) (coin.SignedBlock, coin.UxOut, bool) {
		hb, err := F.v.GetHeadBlock()
		if err != nil {
			return coin.SignedBlock{}, coin.UxOut{}, false
		}
		t := mk(ux, i)
		sb := forgeBlock(F, coin.Transactions{t}, hb.Head.Time+1, 0, nil, secKey)
		outs := coin.CreateUnspents(sb.Head, t)
		if len(outs) != 1 {
			return coin.SignedBlock{}, coin.UxOut{}, false
		}
		return sb, outs[0], true
	}
	var cur coin.UxOut
	found := false
	cands, _ := spendable(F)
	for k := 0; k < len(cands) && !found; k++ {
		ux := cands[(k+r.Intn(len(cands)))%len(cands)]
		if sb, nx, ok := step(ux, k); ok && F.v.ExecuteSignedBlock(sb) == nil {
			cur, found = nx, true
		}
	}
	if !found {
		return "Rok N0 no-spendable-output"
	}
	var next *coin.SignedBlock
	for i := 0; ; i++ {
		hb, err := F.v.GetHeadBlock()
		if err != nil {
			return "R" + errCode(err)
		}
		sb, nx, ok := step(cur, i)
		if !ok {
			return "Rok N0 build-stopped"
		}
		if int(hb.Head.BkSeq)+1 >= nBlocks {
			next = &sb // the block the restarted nodes receive afterwards
			break
		}
		if err := F.v.ExecuteSignedBlock(sb); err != nil {
			// scaffolding, not the property: the chain could not be extended, nothing is checked
			return "Rok N0 build-stopped:" + errCode(err)
		}
		cur = nx
	}
	F.db.Close()
	F.db, F.v = nil, nil
	// reference: the same node restarted without any damage or crash (a restart also purges invalid pool entries)
	refPath := filepath.Join(world.dir, "rebuild-ref.db")
	if err := copyRaw(F.path, refPath); err != nil {
		return "R" + errCode(err)
	}
	ref, err := func() (string, error) {
		rdb, err := visor.OpenDB(refPath, false)
		if err != nil {
			return "", err
		}
		defer rdb.Close()
		rv, err := visor.New(F.cfg, rdb, nil)
		if err == nil {
			err = rv.Init()
		}
		if err != nil {
			return "", err
		}
		return cipher.SumSHA256([]byte(digest(&node{name: "F", v: rv, db: rdb, path: refPath, cfg: F.cfg}))).Hex()[:16], nil
	}()
	if err != nil {
		return "Rref:" + errCode(err)
	}
	work := filepath.Join(world.dir, "rebuild.db")
	if err := copyRaw(F.path, work); err != nil {
		return "R" + errCode(err)
	}
	db, err := visor.OpenDB(work, false)
	if err != nil {
		return "R" + errCode(err)
	}
	if err := db.Update("verif needs-rebuild", func(tx *dbutil.Tx) error {
		switch what {
		case "history":
			return dbutil.Reset(tx, historydb.HistoryMetaBkt)
		case "histtxns":
			return dbutil.Reset(tx, historydb.TransactionsBkt)
		case "addrtxns":
			return dbutil.Reset(tx, historydb.AddressTxnsBkt)
		case "addrindex":
			if err := dbutil.Reset(tx, blockdb.UnspentPoolAddrIndexBkt); err != nil {
				return err
			}
			return dbutil.Delete(tx, blockdb.UnspentMetaBkt, []byte("addr_index_height"))
		}
		return fmt.Errorf("unknown rebuild target %q", what)
	}); err != nil {
		db.Close()
		return "R" + errCode(err)
	}
	// start the node on it, snapshotting every commit boundary of the start-up
	var snaps []string
	dbutil.VerifCommitHook = func(d *dbutil.DB, name string, err error) {
		if err != nil || d.Path() != work {
			return
		}
		dst := filepath.Join(world.dir, fmt.Sprintf("rebuild-snap-%d.db", len(snaps)))
		if copyRaw(work, dst) == nil {
			snaps = append(snaps, dst)
		}
	}
	v, err := visor.New(F.cfg, db, nil)
	if err == nil {
		err = v.Init()
	}
	dbutil.VerifCommitHook = nil
	if err != nil {
		db.Close()
		return "Rstart:" + errCode(err)
	}
	full := cipher.SumSHA256([]byte(digest(&node{name: "F", v: v, db: db, path: work, cfg: F.cfg}))).Hex()[:16]
	db.Close()
	if full != ref {
		return "Rrebuilt-differs"
	}
	// restart from every boundary (all of them when few, else the first 12 and the last 4)
	for i, s := range snaps {
		if len(snaps) > 16 && i >= 12 && i < len(snaps)-4 {
			continue
		}
		path := filepath.Join(world.dir, "R.db")
		os.Remove(path)
		if err := copyRaw(s, path); err != nil {
			return "R" + errCode(err)
		}
		res := func() string {
			rdb, err := visor.OpenDB(path, false)
			if err != nil {
				return "open:" + errCode(err)
			}
			defer rdb.Close()
			rv, err := visor.New(F.cfg, rdb, nil)
			if err == nil {
				err = rv.Init()
			}
			if err != nil {
				return "restart:" + errCode(err)
			}
			if err := visor.CheckDatabase(rdb, pubKey, nil); err != nil {
				return "verify:" + errCode(err)
			}
			rn := &node{name: "R", v: rv, db: rdb, path: path, cfg: F.cfg}
			if cipher.SumSHA256([]byte(digest(rn))).Hex()[:16] != ref {
				return "state-differs"
			}
			if err := rv.ExecuteSignedBlock(*next); err != nil {
				return "next-block:" + errCode(err)
			}
			return ""
		}()
		if res != "" {
			return fmt.Sprintf("Rcrash-at-commit-%d-of-%d:%s", i+1, len(snaps), res)
		}
	}
	return fmt.Sprintf("Rok N%d", len(snaps))
}
