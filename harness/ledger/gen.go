package main

// Generator: random ledger histories built from the repo's own types, driven against the live
// nodes (the generator queries the real state to build mostly-valid transactions and blocks,
// then emits self-contained op lines that replay without the generator).

import (
	"os"
	"sort"
	"strconv"
	"strings"

	"github.com/skycoin/skycoin/src/cipher"
	"github.com/skycoin/skycoin/src/coin"
	"github.com/skycoin/skycoin/src/visor/dbutil"

	. "verif/harness/hlib"
)

func execExtra(f []string) (string, bool) { return syncExec(f) }

type genCtx struct {
	// sweepKind: the first forged block of this history is an otherwise perfect, publisher-signed block whose
	// single transaction has exactly this defect (every kind of badKinds gets its turn across the histories of
	// a run), so that each hard rule is met alone on the block path, not only mixed with other defects
	sweepKind      string
	dupSwept       bool
	sweepShared    bool
	sweepSharedPos int // which of the 3x3 position combinations the shared input takes in the sweep block
	maxtxn         uint64
	r              *Rng
	emit           func(string)
	prec           uint64 // droplet multiple for valid amounts (10^(6-prec))
	burn           uint64
	bigCoins       bool
	futureTime     uint64
	avoidPending   bool
	conflictPct    int
	spent          []cipher.SHA256    // inputs of accepted blocks (for re-spend attempts)
	pending        []coin.Transaction // txns injected so far in this history
	blocks         []coin.SignedBlock // accepted blocks (for replays / duplicates)
}

func (g *genCtx) node(name string) *node { return world.nodes[name] }

func spendable(n *node) (coin.UxArray, uint64) {
	uxs, err := n.v.GetAllUnspentOutputs()
	if err != nil {
		return nil, 0
	}
	var out coin.UxArray
	for _, u := range uxs {
		if _, ok := addrIndex[u.Body.Address]; ok {
			out = append(out, u)
		}
	}
	sort.Slice(out, func(i, j int) bool { return out[i].Hash().Hex() < out[j].Hash().Hex() })
	hb, err := n.v.GetHeadBlock()
	if err != nil || hb == nil {
		return out, 0
	}
	return out, hb.Head.Time
}

func pow10(n uint64) uint64 {
	x := uint64(1)
	for i := uint64(0); i < n; i++ {
		x *= 10
	}
	return x
}

// splitAmount splits total into k positive parts, each a multiple of unit where possible
func (g *genCtx) splitAmount(total uint64, k int, unit uint64) []uint64 {
	if k <= 1 || total < uint64(k)*unit || unit == 0 {
		return []uint64{total}
	}
	parts := make([]uint64, k)
	rem := total
	for i := 0; i < k-1; i++ {
		maxUnits := (rem - uint64(k-1-i)*unit) / unit
		if maxUnits < 1 {
			maxUnits = 1
		}
		u := 1 + g.r.U64()%maxUnits
		parts[i] = u * unit
		rem -= parts[i]
	}
	parts[k-1] = rem
	return parts
}

type txnSpec struct {
	ins    coin.UxArray
	outs   []coin.TransactionOutput
	signer func(i int) cipher.SecKey
	post   func(t *coin.Transaction) // mutation after signing & header update
	nosign bool
}

func buildTxn(s txnSpec) coin.Transaction {
	var t coin.Transaction
	for _, u := range s.ins {
		t.In = append(t.In, u.Hash())
	}
	t.Out = append(t.Out, s.outs...)
	if len(t.In) > 0 {
		if s.nosign {
			t.Sigs = make([]cipher.Sig, len(t.In))
			t.InnerHash = t.HashInner()
		} else {
			ks := make([]cipher.SecKey, len(t.In))
			for i := range ks {
				ks[i] = s.signer(i)
			}
			t.SignInputs(ks)
		}
	}
	if err := t.UpdateHeader(); err != nil {
		panic(err)
	}
	if s.post != nil {
		s.post(&t)
	}
	return t
}

func ownerKey(u coin.UxOut) cipher.SecKey {
	if i, ok := addrIndex[u.Body.Address]; ok {
		return keys[i].sec
	}
	return keys[0].sec
}

// validTxn builds a transaction that satisfies hard and (usually) soft rules against n's head.
// kind selects a deliberate deviation; "" = valid.
// padOutputs replaces outs[0] by itself minus the padding plus n further outputs with pairwise different
// (address, coins) and the given hours; returns outs unchanged when outs[0] cannot pay for them
func padOutputs(outs []coin.TransactionOutput, n int, unit uint64, hours func(i int) uint64) []coin.TransactionOutput {
	var total uint64
	pad := make([]coin.TransactionOutput, n)
	for i := range pad {
		pad[i] = coin.TransactionOutput{Address: keys[i%6].addr, Coins: unit * uint64(1+i/6), Hours: hours(i)}
		total += pad[i].Coins
	}
	if len(outs) == 0 || outs[0].Coins <= total+unit {
		return outs
	}
	first := outs[0]
	first.Coins -= total
	return append(append([]coin.TransactionOutput{first}, outs[1:]...), pad...)
}

func (g *genCtx) makeTxn(n *node, kind string) (coin.Transaction, bool) {
	// "oversize" / "oversize-<kind>": the same transaction padded with outputs until it exceeds the configured
	// maximum transaction size (a SOFT rule) — alone, and combined with a hard-rule violation
	oversize := strings.HasPrefix(kind, "oversize")
	if oversize {
		kind = strings.TrimPrefix(strings.TrimPrefix(kind, "oversize"), "-")
	}
	uxs, headTime := spendable(n)
	if len(uxs) == 0 {
		return coin.Transaction{}, false
	}
	r := g.r
	// mostly build transactions that are independent of the pending ones (so that pools with several
	// simultaneously valid transactions arise); sometimes deliberately conflict
	if g.avoidPending && !r.Chance(g.conflictPct) {
		used := map[cipher.SHA256]bool{}
		for _, p := range g.pending {
			for _, in := range p.In {
				used[in] = true
			}
		}
		var free coin.UxArray
		for _, u := range uxs {
			if !used[u.Hash()] {
				free = append(free, u)
			}
		}
		if len(free) > 0 {
			uxs = free
		}
	}
	if kind != "locked" && !r.Chance(10) {
		// avoid spending from the locked distribution addresses (a soft-rule failure) most of the time
		var ok coin.UxArray
		for _, u := range uxs {
			if i := addrIndex[u.Body.Address]; i < 6 {
				ok = append(ok, u)
			}
		}
		if len(ok) > 0 {
			uxs = ok
		}
	}
	// choose 1-3 distinct inputs
	k := 1 + r.Intn(3)
	if g.avoidPending && r.Chance(60) {
		k = 1
	}
	if strings.HasPrefix(kind, "dup-in") && k < 2 && r.Chance(70) {
		k = 2 + r.Intn(2) // the duplicate then sits in a non-adjacent position
	}
	if k > len(uxs) {
		k = len(uxs)
	}
	perm := r.Intn(len(uxs))
	var ins coin.UxArray
	for i := 0; i < k; i++ {
		ins = append(ins, uxs[(perm+i*7)%len(uxs)])
	}
	// an output with near-2^64 base hours (legacy exception) in a NON-first position, behind an ordinary one
	if r.Chance(35) {
		var legacy, plain coin.UxArray
		for _, u := range uxs {
			if u.Body.Hours > 1<<63 {
				legacy = append(legacy, u)
			} else if u.Body.Hours > 0 {
				plain = append(plain, u)
			}
		}
		if len(legacy) > 0 && len(plain) > 0 {
			ins = coin.UxArray{plain[r.Intn(len(plain))], legacy[r.Intn(len(legacy))]}
			if r.Chance(30) {
				ins = append(ins, plain[r.Intn(len(plain))])
			}
		}
	}
	// dedupe (in case of wraparound)
	seen := map[cipher.SHA256]bool{}
	var ins2 coin.UxArray
	for _, u := range ins {
		if !seen[u.Hash()] {
			seen[u.Hash()] = true
			ins2 = append(ins2, u)
		}
	}
	ins = ins2
	var coins, hours uint64
	hoursOK := true
	for _, u := range ins {
		coins += u.Body.Coins
		h, err := u.CoinHours(headTime)
		if err != nil {
			hoursOK = false
			h = 0
		}
		if hours+h < hours {
			hoursOK = false
		} else {
			hours += h
		}
	}
	_ = hoursOK
	nOut := 1 + r.Intn(4)
	unit := g.prec
	amounts := g.splitAmount(coins, nOut, unit)
	// hours to outputs: keep at least the required fee unless asked otherwise
	fee := hours / g.burn
	if hours%g.burn != 0 {
		fee++
	}
	if fee == 0 {
		fee = 1
	}
	var outHours uint64
	if hours > fee {
		outHours = (hours - fee)
		if r.Chance(70) {
			outHours = r.U64() % (hours - fee + 1)
		}
	}
	switch kind {
	case "nofee":
		outHours = hours
	case "lowfee":
		if hours >= 2 {
			outHours = hours - fee + 1 + r.U64()%(fee)
			if outHours > hours-1 {
				outHours = hours - 1
			}
		}
	case "hours+":
		outHours = hours + 1 + uint64(r.Intn(5))
	case "hours+1":
		outHours = hours + 1
	case "hours-future":
		// hours the inputs will only have accrued at the NEW block's time (g.futureTime), not at the
		// previous block's time: must be rejected (C03 time base)
		var fh uint64
		for _, u := range ins {
			if h, err := u.CoinHours(g.futureTime); err == nil {
				fh += h
			}
		}
		if fh > hours+1 {
			outHours = hours + 1 + r.U64()%(fh-hours-1)
		} else {
			outHours = hours + 1
		}
	}
	hsplit := make([]uint64, len(amounts))
	remH := outHours
	for i := range hsplit {
		if i == len(hsplit)-1 {
			hsplit[i] = remH
		} else if remH > 0 {
			hsplit[i] = r.U64() % (remH + 1)
			remH -= hsplit[i]
		}
	}
	var outs []coin.TransactionOutput
	for i, a := range amounts {
		dst := keys[r.Intn(nKeys)].addr
		if r.Chance(6) {
			dst = keys[6+r.Intn(2)].addr // locked distribution addresses receive funds too
		}
		outs = append(outs, coin.TransactionOutput{Address: dst, Coins: a, Hours: hsplit[i]})
	}
	spec := txnSpec{ins: ins, outs: outs, signer: func(i int) cipher.SecKey { return ownerKey(ins[i]) }}
	switch kind {
	case "coins+1": // exactly one droplet created / destroyed: the boundary of the balance check
		spec.outs[0].Coins++
	case "coins-1":
		if spec.outs[0].Coins > 1 {
			spec.outs[0].Coins--
		}
	case "coins+":
		spec.outs[0].Coins += unit
	case "coins-":
		if spec.outs[0].Coins > unit {
			spec.outs[0].Coins -= unit
		} else {
			spec.outs = append(spec.outs, coin.TransactionOutput{}) // becomes zero-coin
		}
	case "zerocoin":
		spec.outs = append(spec.outs, coin.TransactionOutput{Address: keys[1].addr, Coins: 0, Hours: 0})
	case "dupout":
		spec.outs = append(spec.outs, spec.outs[0])
		// keep coins balanced so that the duplicate-output rule is what fails
		if len(spec.outs) > 2 && spec.outs[1].Coins > spec.outs[0].Coins {
			spec.outs[1].Coins -= spec.outs[0].Coins
		}
	case "unknown-in":
		fake := ins[0]
		fake.Body.Coins++
		spec.ins = append(coin.UxArray{}, ins...)
		spec.ins[0] = fake
	case "dup-in", "dup-in-bal":
		// the first input once more at the end ([A,A] for one input, [A,B,…,A] otherwise); "-bal": the outputs also pay
		// out the duplicated coins, so that only the duplicate-input rule stands between the block and new coins
		spec.ins = append(spec.ins, ins[0])
		spec.signer = func(i int) cipher.SecKey { return ownerKey(spec.ins[i]) }
		if kind == "dup-in-bal" {
			spec.outs[0].Coins += ins[0].Body.Coins
		}
	case "wrong-signer":
		spec.signer = func(i int) cipher.SecKey {
			j := addrIndex[ins[i].Body.Address]
			return keys[(j+1)%nKeys].sec
		}
	case "badsig":
		spec.post = func(t *coin.Transaction) {
			t.Sigs[0][r.Intn(64)] ^= byte(1 << uint(r.Intn(8)))
			t.UpdateHeader() //nolint
		}
	case "unsigned":
		spec.nosign = true
	case "precision":
		if len(spec.outs) >= 2 && spec.outs[0].Coins > 1 {
			spec.outs[0].Coins--
			spec.outs[1].Coins++
		} else {
			spec.outs[0].Coins = spec.outs[0].Coins
		}
	case "outhours-ovf":
		spec.outs = append(spec.outs, coin.TransactionOutput{Address: keys[2].addr, Coins: unit, Hours: 1 << 63})
		spec.outs = append(spec.outs, coin.TransactionOutput{Address: keys[3].addr, Coins: unit, Hours: 1<<63 + 5})
		if spec.outs[0].Coins > 2*unit {
			spec.outs[0].Coins -= 2 * unit
		}
	case "coins-wrap-mid", "coins-wrap-last":
		// two extra outputs of 2^63 droplets each: the 64-bit total wraps back to the honest total, so only a
		// check of EVERY partial sum refuses it (C01: no transaction may create coins through wrap-around)
		extra := []coin.TransactionOutput{
			{Address: keys[2].addr, Coins: 1 << 63, Hours: 0},
			{Address: keys[3].addr, Coins: 1 << 63, Hours: 0},
		}
		if kind == "coins-wrap-mid" {
			spec.outs = append(extra, spec.outs...)
		} else {
			spec.outs = append(spec.outs, extra...)
		}
	case "legacy-mint":
		// outputs whose hours sit just below 2^64 (they exist on the real chain: the block path's unchecked
		// output-hours sum, F14): the two extra outputs add 2^64 to the sum, which wraps back to the honest total.
		// Spending such an output later makes "base hours + earned hours" overflow — the documented legacy
		// exception of C03 (it then counts as zero hours)
		k := uint64(1 + r.Intn(50))
		spec.outs = append(spec.outs,
			coin.TransactionOutput{Address: keys[2].addr, Coins: unit, Hours: ^uint64(0) - k},
			coin.TransactionOutput{Address: keys[3].addr, Coins: unit, Hours: k + 1})
		if spec.outs[0].Coins > 2*unit {
			spec.outs[0].Coins -= 2 * unit
		}
	case "outhours-ovf-many":
		// 257 outputs, each with hours below 2^56, whose exact sum is 2^64 + 1: only a checked sum over ALL outputs
		// refuses it at pool admission (256 x (2^56 - 1) + 257)
		spec.outs = padOutputs(spec.outs, 257, unit, func(i int) uint64 {
			if i < 256 {
				return 1<<56 - 1
			}
			return 257
		})
	case "length":
		spec.post = func(t *coin.Transaction) { t.Length += uint32(1 + r.Intn(3)) }
	case "length0":
		spec.post = func(t *coin.Transaction) { t.Length = []uint32{0, 1, 1<<32 - 1}[r.Intn(3)] }
	case "type":
		spec.post = func(t *coin.Transaction) { t.Type = byte(1 + r.Intn(255)) }
	case "innerhash":
		spec.post = func(t *coin.Transaction) { t.InnerHash[r.Intn(32)] ^= 0x40 }
	case "null-addr":
		spec.outs[0].Address = cipher.Address{}
	case "respend":
		if len(g.spent) == 0 {
			return coin.Transaction{}, false
		}
		// an input that an accepted block already spent: not in the unspent pool any more
		fake := ins[0]
		fake.Body.Hours += 7
		spec.ins = coin.UxArray{ins[0]}
		spec.post = func(t *coin.Transaction) {
			t.In[0] = g.spent[r.Intn(len(g.spent))]
			t.InnerHash = t.HashInner()
			t.UpdateHeader() //nolint
		}
	}
	if oversize && g.maxtxn > 0 {
		spec.outs = padOutputs(spec.outs, int(g.maxtxn/37)+4, unit, func(int) uint64 { return 0 })
	}
	t := buildTxn(spec)
	return t, true
}

var badKinds = []string{"nofee", "lowfee", "hours+", "hours+1", "coins+", "coins-", "coins+1", "coins-1", "zerocoin", "dupout", "unknown-in", "dup-in", "dup-in-bal",
	"wrong-signer", "badsig", "unsigned", "precision", "outhours-ovf", "coins-wrap-mid", "coins-wrap-last", "legacy-mint", "outhours-ovf-many", "oversize", "oversize-unknown-in", "oversize-wrong-signer", "oversize-coins+", "oversize-dup-in", "length", "length0", "type", "innerhash", "null-addr", "respend"}

func txHex(t *coin.Transaction) string {
	b, err := t.Serialize()
	if err != nil {
		panic(err)
	}
	return Hex(b)
}

func uxHashOf(n *node) cipher.SHA256 {
	var h cipher.SHA256
	n.db.View("uxhash", func(tx *dbutil.Tx) error { //nolint
		var err error
		h, err = n.v.VerifBlockchain().Unspent().GetUxHash(tx)
		return err
	})
	return h
}

// forgeBlock builds a block on top of n's head from the given transactions, with correct header
// fields unless mut changes them, signed with key sk.
func forgeBlock(n *node, txns coin.Transactions, when uint64, fee uint64, mut func(b *coin.Block), sk cipher.SecKey) coin.SignedBlock {
	hb, _ := n.v.GetHeadBlock()
	body := coin.BlockBody{Transactions: txns}
	b := coin.Block{
		Head: coin.BlockHeader{
			Version:  hb.Head.Version,
			Time:     when,
			BkSeq:    hb.Head.BkSeq + 1,
			Fee:      fee,
			PrevHash: hb.HashHeader(),
			BodyHash: body.Hash(),
			UxHash:   uxHashOf(n),
		},
		Body: body,
	}
	if mut != nil {
		mut(&b)
	}
	return coin.SignedBlock{Block: b, Sig: cipher.MustSignHash(b.HashHeader(), sk)}
}

var headerMuts = []string{"seq+1", "seq-1", "seq0", "time=", "time-", "prev", "prev0", "body", "ux", "fee", "ver", "sigflip", "forger", "drop-tx", "dup-tx", "swap-tx", "add-bad-tx", "strip-txs"}

func ledgerGen(r *Rng, tier string, emit func(string)) {
	initKeys()
	profile := os.Getenv("VERIF_PROFILE")
	if profile == "" {
		profile = "mix"
	}
	if profile == "c33" {
		syncGen(r, tier, emit)
		return
	}
	if profile == "c08" {
		crashGen(r, tier, emit)
		return
	}
	nHist := 40
	if tier == "thorough" {
		nHist = 600
	}
	if v := os.Getenv("VERIF_HISTORIES"); v != "" {
		nHist, _ = strconv.Atoi(v)
	}
	gi := 0 // index among the generic histories: the sweeps advance with it, so every kind gets its turn
	for h := 0; h < nHist; h++ {
		g := &genCtx{r: r, emit: emit, sweepKind: badKinds[gi%len(badKinds)], sweepShared: gi%2 == 0, sweepSharedPos: gi / 2 % 9}
		if (profile == "c05" && h%3 == 1) || (profile != "c05" && h%12 == 7) {
			// every other one (every fourth under c05) with blocks of 33-47 transactions
			tieHistory(g, (profile == "c05" && (h/3)%4 == 3) || (profile != "c05" && (h/12)%2 == 1))
			continue
		}
		if profile != "c05" && h%8 == 3 {
			if (h/8)%2 == 0 {
				legacyHistory(g)
			} else {
				overflowHistory(g)
			}
			continue
		}
		gi++
		genHistory(g, profile)
	}
}

func genHistory(g *genCtx, profile string) {
	r := g.r
	prec := uint64(3)
	if r.Chance(30) {
		prec = uint64(r.Intn(7))
	}
	g.prec = pow10(6 - prec)
	g.burn = uint64([]int{2, 2, 3, 10, 10, 100}[r.Intn(6)])
	gc := []uint64{100e12, 100e12, 1e9, 25e6, 9223372036854000000, 18446744073709000000, 3e6, 1 << 63}[r.Intn(8)]
	gt := []uint64{1000, 1426562704, 5}[r.Intn(3)]
	arbF := 0
	if r.Chance(25) {
		arbF = 1
	}
	maxtxn := uint64(1024)
	if r.Chance(50) && profile != "c05" {
		maxtxn = 32768
	}
	g.maxtxn = maxtxn
	maxblk := maxtxn
	if r.Chance(50) {
		maxblk = maxtxn * uint64(1+r.Intn(3))
	}
	// three rule sets: unconfirmed pool (most lenient) >= block creation >= user submissions (strictest), as
	// Config.Verify allows; in 45% of the histories they really differ
	ubf, umax, uprec := g.burn, maxtxn, prec
	cbf, cmax, cprec := g.burn, maxtxn, prec
	if r.Chance(45) {
		if g.burn > 2 {
			ubf = 2 + r.U64()%(g.burn-1)
			cbf = ubf + r.U64()%(g.burn-ubf+1)
		}
		if prec > 0 {
			uprec = r.U64() % (prec + 1)
			cprec = uprec + r.U64()%(prec-uprec+1)
		}
		if maxtxn > 1024 {
			umax = 1024
			cmax = []uint64{1024, 4096, maxtxn}[r.Intn(3)]
		}
	}
	g.emit("reset arbF=" + strconv.Itoa(arbF) + " gc=" + u(gc) + " gt=" + u(gt) + " burn=" + u(g.burn) + " maxtxn=" + u(maxtxn) +
		" maxblk=" + u(maxblk) + " prec=" + u(prec) + " ubf=" + u(ubf) + " umax=" + u(umax) + " uprec=" + u(uprec) +
		" cbf=" + u(cbf) + " cmax=" + u(cmax) + " cprec=" + u(cprec))
	if world == nil {
		return
	}
	g.bigCoins = gc >= 1<<62
	nOps := 8 + r.Intn(18)
	g.avoidPending = r.Chance(60)
	g.conflictPct = 20
	if profile == "c05" {
		nOps = 25 + r.Intn(30)
		g.avoidPending = true
		g.conflictPct = 25
	}
	for i := 0; i < nOps; i++ {
		g.step(profile)
	}
	if !alive() {
		return
	}
	// end of the history: a start-up on an address index that lags a few blocks behind the head
	if r.Chance(60) {
		g.emit("rebuild " + []string{"F", "P"}[r.Intn(2)] + " addrindex-lag")
	}
	if !alive() {
		return
	}
	if r.Chance(50) {
		g.emit("checkdb F")
	}
	if r.Chance(30) {
		g.emit("checkdb P")
	}
}

// tieHistory (C05): pools of 13-19 pending transactions on 1-3 fee levels and of equal size, so that the
// fee-per-kB priorities tie and only the hash tie-break orders them (and decides an equal-fee double spend);
// block-size limits that cut the sorted list at various points.  Two rounds.  `big`: 33-47 pending transactions and
// a block-size limit that admits them all, so that the publisher's block (and copies of it whose trailing
// transactions were replaced by other valid ones under the same header and signature) has a large body.
func tieHistory(g *genCtx, big bool) {
	r := g.r
	g.prec, g.burn = 1, 2
	g.avoidPending = true
	gc := []uint64{3e6, 25e6, 1e9}[r.Intn(3)]
	maxblk := []uint64{1024, 2048, 3072, 32768}[r.Intn(4)]
	if big {
		gc, maxblk = 1e9, 32768
	}
	g.emit("reset arbF=0 gc=" + u(gc) + " gt=1000 burn=2 maxtxn=1024 maxblk=" + u(maxblk) + " prec=6 ubf=2 umax=1024 uprec=6")
	if world == nil {
		return
	}
	P := g.node("P")
	uxs, headTime := spendable(P)
	if len(uxs) == 0 {
		return
	}
	gen := uxs[0]
	gh, err := gen.CoinHours(headTime)
	n := 13 + r.Intn(7)
	if big {
		n = 33 + r.Intn(15)
	}
	levels := uint64(1 + r.Intn(3))
	if err != nil || gh < uint64(20*n) || gen.Body.Coins < uint64(n*(n+2)) {
		return
	}
	// fan-out block: n outputs with hours 2*fee, so that spending one needs a burn of exactly `fee`
	var outs []coin.TransactionOutput
	rem := gen.Body.Coins
	each := gen.Body.Coins / uint64(n+1)
	for i := 0; i < n; i++ {
		c := each + uint64(i)
		if i == n-1 {
			c = rem
		}
		rem -= c
		outs = append(outs, coin.TransactionOutput{Address: keys[i%6].addr, Coins: c, Hours: 2 * (1 + r.U64()%levels)})
	}
	fan := buildTxn(txnSpec{ins: coin.UxArray{gen}, outs: outs, signer: func(int) cipher.SecKey { return ownerKey(gen) }})
	sb := forgeBlock(P, coin.Transactions{fan}, headTime+1+uint64(r.Intn(50)), 0, nil, secKey)
	g.execBoth(&sb)
	for round := 0; round < 2 && alive(); round++ {
		uxs, headTime = spendable(P)
		g.pending = nil
		cnt := 0
		for i, ux := range uxs {
			h, err := ux.CoinHours(headTime)
			if err != nil || h == 0 || addrIndex[ux.Body.Address] >= 6 {
				continue
			}
			fee := (h + 1) / 2
			mk := func(dst int) coin.Transaction {
				return buildTxn(txnSpec{ins: coin.UxArray{ux},
					outs:   []coin.TransactionOutput{{Address: keys[dst%6].addr, Coins: ux.Body.Coins, Hours: h - fee}},
					signer: func(int) cipher.SecKey { return ownerKey(ux) }})
			}
			t := mk(i + 1)
			g.inject(&t)
			cnt++
			if r.Chance(12) { // an equal-fee double spend: the lower hash must win
				t2 := mk(i + 2)
				g.inject(&t2)
			}
		}
		if cnt == 0 {
			break
		}
		if r.Chance(30) {
			g.emit("refresh P")
		}
		g.emit("mkblock " + u(g.nextWhenSmall()))
		if sb := lastMade; sb != nil {
			lastMade = nil
			if big {
				// the same signed header over a body in which one transaction near the end (or anywhere) was replaced
				// by another valid spend of the same output: must be refused wherever the replacement sits
				nt := len(sb.Body.Transactions)
				for _, pos := range []int{nt - 1, nt - 2, nt - 3, r.Intn(nt)} {
					if pos < 0 {
						continue
					}
					if fb, ok := substituteBodyAt(*sb, pos); ok {
						g.emit("exec F " + encodeBlock(&fb))
					}
				}
			}
			g.execBoth(sb)
		}
	}
	if alive() && r.Chance(50) {
		g.emit("checkdb F")
	}
}

// legacyHistory (C03): outputs whose base hours sit just below 2^64 (the documented legacy exception: when
// "base + earned" overflows the input counts as ZERO hours), spent together with ordinary inputs in every
// position, with output hours exactly at, just above and well above what the inputs are worth.
func legacyHistory(g *genCtx) {
	r := g.r
	g.prec, g.burn = 1, 2
	g.emit("reset arbF=0 gc=100000000000000 gt=1000 burn=2 maxtxn=32768 maxblk=32768 prec=6 ubf=2 umax=32768 uprec=6")
	if world == nil {
		return
	}
	// the follower F (not arbitrating): an arbitrating node drops a transaction whose output hours overflow
	// when it sorts by fee, so such outputs only come into being on ordinary nodes
	P := g.node("F")
	uxs, headTime := spendable(P)
	if len(uxs) == 0 {
		return
	}
	gen := uxs[0]
	gh, err := gen.CoinHours(headTime)
	if err != nil || gh < 1000 || gen.Body.Coins < 100e6 {
		return
	}
	// block 1: ordinary outputs A_i with some hours, legacy outputs L_i, and the complements that make the
	// unchecked 64-bit output-hours sum wrap back under the input hours
	var outs []coin.TransactionOutput
	nPairs := 2 + r.Intn(2)
	for i := 0; i < 4; i++ {
		outs = append(outs, coin.TransactionOutput{Address: keys[i%6].addr, Coins: uint64(3+i) * 1e6, Hours: uint64(20 + r.Intn(200))})
	}
	for i := 0; i < nPairs; i++ {
		k := uint64(1 + r.Intn(40))
		outs = append(outs,
			coin.TransactionOutput{Address: keys[(i+1)%6].addr, Coins: uint64(2+i) * 1e6, Hours: ^uint64(0) - k},
			coin.TransactionOutput{Address: keys[(i+2)%6].addr, Coins: uint64(7+i) * 1e6, Hours: k + 1})
	}
	var used uint64
	for _, o := range outs {
		used += o.Coins
	}
	outs = append(outs, coin.TransactionOutput{Address: keys[0].addr, Coins: gen.Body.Coins - used, Hours: 5})
	fan := buildTxn(txnSpec{ins: coin.UxArray{gen}, outs: outs, signer: func(int) cipher.SecKey { return ownerKey(gen) }})
	sb := forgeBlock(P, coin.Transactions{fan}, headTime+10, 0, nil, secKey)
	g.emit("exec F " + encodeBlock(&sb))
	// an ordinary block 30-130 hours later: from now on the legacy outputs' "base + earned" overflows at the head
	if uxs, ht := spendable(P); alive() {
		for _, u := range uxs {
			if u.Body.Coins > 1e12 {
				u := u
				aging := buildTxn(txnSpec{ins: coin.UxArray{u},
					outs:   []coin.TransactionOutput{{Address: keys[0].addr, Coins: u.Body.Coins, Hours: 1}},
					signer: func(int) cipher.SecKey { return ownerKey(u) }})
				sb := forgeBlock(P, coin.Transactions{aging}, ht+3600*uint64(30+r.Intn(100)), 0, nil, secKey)
				g.emit("exec F " + encodeBlock(&sb))
				break
			}
		}
	}
	for round := 0; round < 4 && alive(); round++ {
		uxs, headTime = spendable(P)
		var legacy, plain coin.UxArray
		for _, u := range uxs {
			if u.Body.Hours > 1<<63 {
				legacy = append(legacy, u)
			} else if u.Body.Hours > 0 && u.Body.Coins < 50e6 {
				plain = append(plain, u)
			}
		}
		if len(legacy) == 0 || len(plain) == 0 {
			return
		}
		L, A := legacy[r.Intn(len(legacy))], plain[r.Intn(len(plain))]
		var ins coin.UxArray
		switch r.Intn(4) {
		case 0:
			ins = coin.UxArray{L, A}
		case 1:
			ins = coin.UxArray{A, L}
		case 2:
			ins = coin.UxArray{L}
		default:
			ins = coin.UxArray{A, L}
			if len(plain) > 1 {
				for _, a2 := range plain {
					if a2.Hash() != A.Hash() {
						ins = append(ins, a2)
						break
					}
				}
			}
		}
		// the block time: an hour or more later, so that the legacy input's "base + earned" overflows
		when := headTime + 3600*uint64(1+r.Intn(48))
		// what the inputs are worth at the head (the legacy exception counts as zero)
		var worth, coins uint64
		for _, u := range ins {
			coins += u.Body.Coins
			if h, err := u.CoinHours(headTime); err == nil {
				worth += h
			}
		}
		var firstPlain uint64
		for _, u := range ins {
			if u.Body.Hours <= 1<<63 {
				firstPlain, _ = u.CoinHours(headTime)
				break
			}
		}
		claim := []uint64{worth, worth / 2, worth + 1, worth + firstPlain, worth + firstPlain/2 + 1, 2*worth + 3}[r.Intn(6)]
		t := buildTxn(txnSpec{ins: ins,
			outs:   []coin.TransactionOutput{{Address: keys[r.Intn(6)].addr, Coins: coins, Hours: claim}},
			signer: func(i int) cipher.SecKey { return ownerKey(ins[i]) }})
		sb := forgeBlock(P, coin.Transactions{t}, when, 0, nil, secKey)
		g.emit("exec F " + encodeBlock(&sb))
	}
}

// overflowHistory (C03): outputs so large and old that "coins x seconds" no longer fits 64 bits.  That is NOT the
// legacy exception: such an input has no computable hours and a block spending it must be refused — alone, in
// front of or behind ordinary inputs, even when the outputs claim no hours at all.
func overflowHistory(g *genCtx) {
	r := g.r
	g.prec, g.burn = 1, 2
	g.emit("reset arbF=0 gc=9223372036854775808 gt=1000 burn=2 maxtxn=32768 maxblk=32768 prec=6 ubf=2 umax=32768 uprec=6")
	if world == nil {
		return
	}
	F := g.node("F")
	uxs, headTime := spendable(F)
	if len(uxs) == 0 {
		return
	}
	gen := uxs[0]
	outs := []coin.TransactionOutput{
		{Address: keys[1].addr, Coins: 1 << 62, Hours: 10},
		{Address: keys[2].addr, Coins: 1 << 61, Hours: 10},
	}
	used := uint64(1<<62 + 1<<61)
	for i := 0; i < 4; i++ {
		c := uint64(3+i) * 1e6
		outs = append(outs, coin.TransactionOutput{Address: keys[(i+3)%6].addr, Coins: c, Hours: uint64(50 + r.Intn(100))})
		used += c
	}
	if gen.Body.Coins <= used {
		return
	}
	outs = append(outs, coin.TransactionOutput{Address: keys[0].addr, Coins: gen.Body.Coins - used, Hours: 1})
	fan := buildTxn(txnSpec{ins: coin.UxArray{gen}, outs: outs, signer: func(int) cipher.SecKey { return ownerKey(gen) }})
	sb := forgeBlock(F, coin.Transactions{fan}, headTime+10, 0, nil, secKey)
	g.emit("exec F " + encodeBlock(&sb))
	small := func() coin.UxArray {
		var l coin.UxArray
		us, _ := spendable(F)
		for _, u := range us {
			if u.Body.Coins < 100e6 {
				l = append(l, u)
			}
		}
		return l
	}
	big := func() coin.UxArray {
		var l coin.UxArray
		us, _ := spendable(F)
		for _, u := range us {
			if u.Body.Coins >= 1<<61 {
				l = append(l, u)
			}
		}
		return l
	}
	spend := func(ins coin.UxArray, when uint64, hours uint64) {
		var coins uint64
		for _, u := range ins {
			coins += u.Body.Coins
		}
		t := buildTxn(txnSpec{ins: ins,
			outs:   []coin.TransactionOutput{{Address: keys[r.Intn(6)].addr, Coins: coins, Hours: hours}},
			signer: func(i int) cipher.SecKey { return ownerKey(ins[i]) }})
		sb := forgeBlock(F, coin.Transactions{t}, when, 0, nil, secKey)
		g.emit("exec F " + encodeBlock(&sb))
	}
	// aging: an ordinary spend 2^36..2^44 seconds later (accepted: hours are evaluated at the previous head)
	if sm := small(); len(sm) > 0 && alive() {
		_, ht := spendable(F)
		spend(coin.UxArray{sm[0]}, ht+(uint64(1)<<uint(36+r.Intn(9))), 0)
	}
	for round := 0; round < 4 && alive(); round++ {
		sm, bg := small(), big()
		if len(bg) == 0 || len(sm) == 0 {
			return
		}
		_, ht := spendable(F)
		B, S := bg[r.Intn(len(bg))], sm[r.Intn(len(sm))]
		sh, _ := S.CoinHours(ht)
		switch r.Intn(4) {
		case 0:
			spend(coin.UxArray{B}, ht+1+uint64(r.Intn(1000)), 0)
		case 1:
			spend(coin.UxArray{S, B}, ht+1+uint64(r.Intn(1000)), []uint64{0, sh / 2, sh}[r.Intn(3)])
		case 2:
			spend(coin.UxArray{B, S}, ht+1+uint64(r.Intn(1000)), []uint64{0, sh / 2, sh}[r.Intn(3)])
		default: // control: only ordinary inputs, must be accepted
			spend(coin.UxArray{S}, ht+1+uint64(r.Intn(1000)), sh/2)
		}
	}
}

// nextWhenSmall: a block time a few seconds after the head (no noticeable coin-hour accrual)
func (g *genCtx) nextWhenSmall() uint64 {
	hb, _ := g.node("P").v.GetHeadBlock()
	return hb.Head.Time + 1 + uint64(g.r.Intn(30))
}

func u(v uint64) string { return strconv.FormatUint(v, 10) }

func (g *genCtx) inject(t *coin.Transaction) {
	hx := txHex(t)
	switch g.r.Intn(5) {
	case 0:
		g.emit("inju P " + hx)
	case 1:
		g.emit("injf F " + hx)
		g.emit("injf P " + hx)
	case 2:
		g.emit("inju F " + hx)
		g.emit("injf P " + hx)
	default:
		g.emit("injf P " + hx)
		if g.r.Chance(60) {
			g.emit("injf F " + hx)
		}
	}
	g.pending = append(g.pending, *t)
}

func (g *genCtx) nextWhen() uint64 {
	hb, _ := g.node("P").v.GetHeadBlock()
	dt := uint64(1 + g.r.Intn(100000))
	if g.bigCoins && g.r.Chance(50) {
		// coin-hour accrual overflows for huge outputs after long gaps
		dt = g.r.U64() >> uint(g.r.Intn(24)+8)
	}
	switch g.r.Intn(8) {
	case 0:
		dt = 1
	case 1:
		dt = uint64(g.r.Intn(3600 * 24 * 365))
	case 2:
		dt = g.r.U64() >> uint(g.r.Intn(40)+8)
	}
	w := hb.Head.Time + dt
	if w <= hb.Head.Time {
		w = hb.Head.Time + 1
	}
	return w
}

func (g *genCtx) execBoth(sb *coin.SignedBlock) {
	hx := encodeBlock(sb)
	lenBefore := chainLen(g.node("P"))
	// one time in four the first attempt fails after the unspent pool has processed the block (injected history fault)
	// and is rolled back; the block is then executed for real
	// (not under the crash profile: its explorer counts the node's commits, and the injected fault is not one of them)
	faults := os.Getenv("VERIF_PROFILE") != "c08"
	if faults && g.r.Chance(12) {
		g.emit("execfault P " + hx)
	}
	g.emit("exec P " + hx)
	if faults && g.r.Chance(25) {
		g.emit("execfault F " + hx)
	}
	g.emit("exec F " + hx)
	if chainLen(g.node("P")) > lenBefore {
		for _, t := range sb.Body.Transactions {
			g.spent = append(g.spent, t.In...)
		}
		g.blocks = append(g.blocks, *sb)
	}
}

func chainLen(n *node) uint64 {
	s, ok, _ := n.v.HeadBkSeq()
	if !ok {
		return 0
	}
	return s + 1
}

func alive() bool {
	if world == nil {
		return false
	}
	for _, n := range world.nodes {
		if n.v == nil || n.db == nil {
			return false
		}
	}
	return true
}

func (g *genCtx) step(profile string) {
	r := g.r
	if !alive() {
		return // a node failed to restart: nothing more can be generated against it (already reported)
	}
	P, F := g.node("P"), g.node("F")
	c := r.Intn(100)
	if profile == "c05" {
		// publisher-pool heavy: many (conflicting) injections, frequent block creation, few other ops
		switch x := r.Intn(100); {
		case x < 55:
			c = 0
		case x < 68:
			c = 30
		case x < 72:
			c = 50
		case x < 92:
			c = 52
		case x < 96:
			c = 82
		default:
			c = 88
		}
	}
	switch {
	case c < 30: // valid transaction
		if t, ok := g.makeTxn(P, ""); ok {
			g.inject(&t)
		}
	case c < 45: // deliberately bad transaction
		kind := badKinds[r.Intn(len(badKinds))]
		if t, ok := g.makeTxn(P, kind); ok {
			g.inject(&t)
		}
	case c < 50: // conflicting transaction: spends an input of a pending one
		if len(g.pending) > 0 {
			if t, ok := g.makeTxn(P, ""); ok {
				g.inject(&t)
			}
		}
	case c < 52: // re-inject a known transaction
		if len(g.pending) > 0 {
			t := g.pending[r.Intn(len(g.pending))]
			g.inject(&t)
		}
	case c >= 52 && c < 56 && profile != "c05":
		g.laggingFollower()
	case c < 70 && !(g.bigCoins && r.Chance(50)): // publisher makes a block from its pool; both nodes execute it
		when := g.nextWhen()
		g.emit("mkblock " + u(when))
		if sb := lastMade; sb != nil {
			lastMade = nil
			if profile == "c04" || r.Chance(20) {
				g.mutatedBlocks(sb)
			}
			g.execBoth(sb)
			if r.Chance(15) {
				g.emit("exec F " + encodeBlock(sb)) // duplicate delivery
			}
		}
	case c < 82 || (g.bigCoins && c < 70): // hand-forged block signed by the real publisher key: arbitrary transaction lists
		g.forged(P, F)
	case c < 88:
		g.emit("refresh " + []string{"P", "F"}[r.Intn(2)])
	case c < 94:
		g.emit("rminv " + []string{"P", "F"}[r.Intn(2)])
	case c < 96:
		g.emit("checkdb " + []string{"P", "F"}[r.Intn(2)])
	case c < 97: // stale block replay
		if len(g.blocks) > 0 {
			b := g.blocks[r.Intn(len(g.blocks))]
			g.emit("exec F " + encodeBlock(&b))
		}
	default:
		if r.Chance(50) {
			g.emit("restart " + []string{"P", "F"}[r.Intn(2)])
		} else {
			g.emit("rebuild " + []string{"P", "F"}[r.Intn(2)] + " " + []string{"history", "histtxns", "addrindex", "addrindex-lag", "addrindex-lag"}[r.Intn(5)])
		}
	}
}

// laggingFollower: the publisher gets two blocks ahead; the follower is offered the SECOND one first (refused: not
// the next block), then the first, then a FORGED copy of the second (foreign signature, damaged signature or a
// substituted body under the genuine header), and only then the genuine second block.  Having seen a block's
// genuine copy once must never vouch for a later copy.
func (g *genCtx) laggingFollower() {
	r := g.r
	if !alive() || chainLen(g.node("P")) != chainLen(g.node("F")) {
		return
	}
	var made []coin.SignedBlock
	for i := 0; i < 2; i++ {
		t, ok := g.makeTxn(g.node("P"), "")
		if !ok {
			return
		}
		g.emit("injf P " + txHex(&t))
		g.emit("mkblock " + u(g.nextWhenSmall()))
		sb := lastMade
		lastMade = nil
		if sb == nil {
			break
		}
		before := chainLen(g.node("P"))
		g.emit("exec P " + encodeBlock(sb))
		if chainLen(g.node("P")) == before {
			break
		}
		made = append(made, *sb)
		g.blocks = append(g.blocks, *sb)
		for _, tx := range sb.Body.Transactions {
			g.spent = append(g.spent, tx.In...)
		}
	}
	if len(made) == 0 {
		return
	}
	if len(made) == 1 {
		g.emit("exec F " + encodeBlock(&made[0]))
		return
	}
	forged := made[1]
	switch r.Intn(3) {
	case 0:
		forged.Sig = mustSign(forged, true)
	case 1:
		forged.Sig[r.Intn(64)] ^= 1 << uint(r.Intn(8))
	default:
		if nb, ok := substituteBody(forged); ok {
			forged = nb
		} else {
			forged.Sig = mustSign(forged, true)
		}
	}
	g.emit("exec F " + encodeBlock(&made[1])) // too early
	g.emit("exec F " + encodeBlock(&made[0]))
	g.emit("exec F " + encodeBlock(&forged))
	g.emit("exec F " + encodeBlock(&made[1]))
}

// lastMade is set by the emit wrapper when a mkblock op returned a block
var lastMade *coin.SignedBlock

// mutatedBlocks submits single-field mutations of a valid next block (re-signed with the real key
// unless the mutation is about the signature) to the follower BEFORE the valid block.
func (g *genCtx) mutatedBlocks(sb *coin.SignedBlock) {
	r := g.r
	F := g.node("F")
	n := 1 + r.Intn(3)
	for i := 0; i < n; i++ {
		m := headerMuts[r.Intn(len(headerMuts))]
		b := *sb
		b.Body.Transactions = append(coin.Transactions{}, sb.Body.Transactions...)
		stripTarget := false
		resign := true
		sk := secKey
		switch m {
		case "seq+1":
			b.Head.BkSeq++
		case "seq-1":
			b.Head.BkSeq--
		case "seq0":
			b.Head.BkSeq = 0
		case "time=":
			hb, _ := F.v.GetHeadBlock()
			b.Head.Time = hb.Head.Time
		case "time-":
			hb, _ := F.v.GetHeadBlock()
			b.Head.Time = hb.Head.Time - uint64(1+r.Intn(10))
		case "prev":
			b.Head.PrevHash[r.Intn(8)] ^= 1
		case "prev0":
			b.Head.PrevHash = cipher.SHA256{}
		case "body":
			b.Head.BodyHash[r.Intn(8)] ^= 1
		case "ux":
			b.Head.UxHash[r.Intn(8)] ^= 1
		case "fee":
			b.Head.Fee += uint64(1 + r.Intn(3))
		case "ver":
			b.Head.Version++
		case "sigflip":
			resign = false
			b.Sig[r.Intn(65)] ^= byte(1 << uint(r.Intn(8)))
		case "forger":
			sk = forgeSec
		case "drop-tx":
			if len(b.Body.Transactions) > 1 {
				b.Body.Transactions = b.Body.Transactions[1:]
				if r.Bool() {
					b.Head.BodyHash = b.Body.Hash()
				}
			}
		case "strip-txs":
			// the whole transaction list removed, header and body hash untouched (or recomputed): an arbitrating node
			// does not refuse an empty list in processTransactions, so only the body-hash comparison stands between
			// this block and the chain (seeded change C04-h); sent to the arbitrating publisher half of the time
			b.Body.Transactions = coin.Transactions{}
			if r.Chance(25) {
				b.Head.BodyHash = b.Body.Hash()
			}
			stripTarget = true
		case "dup-tx":
			if len(b.Body.Transactions) > 0 {
				b.Body.Transactions = append(b.Body.Transactions, b.Body.Transactions[0])
				b.Head.BodyHash = b.Body.Hash()
			}
		case "swap-tx":
			if len(b.Body.Transactions) > 1 {
				b.Body.Transactions[0], b.Body.Transactions[1] = b.Body.Transactions[1], b.Body.Transactions[0]
				b.Head.BodyHash = b.Body.Hash()
			}
		case "add-bad-tx":
			if t, ok := g.makeTxn(F, badKinds[r.Intn(len(badKinds))]); ok {
				b.Body.Transactions = append(b.Body.Transactions, t)
				b.Head.BodyHash = b.Body.Hash()
			}
		}
		if resign {
			b.Sig = cipher.MustSignHash(b.HashHeader(), sk)
			if r.Chance(10) {
				b.Sig = sb.Sig // stale signature of the unmutated block
			}
		}
		tgt := "F"
		if r.Chance(25) || (stripTarget && r.Chance(50)) {
			tgt = "P"
		}
		g.emit("exec " + tgt + " " + encodeBlock(&b))
		if r.Chance(30) {
			g.emit("checkdb " + tgt)
		}
	}
}

// forged: blocks built outside the publisher's createBlock path (but signed by its key): lists
// mixing valid, invalid, conflicting and chained transactions.
func (g *genCtx) forged(P, F *node) {
	r := g.r
	var txns coin.Transactions
	n := 1 + r.Intn(4)
	when := g.nextWhen()
	if r.Chance(40) {
		hb, _ := P.v.GetHeadBlock()
		when = hb.Head.Time + 3600*uint64(1+r.Intn(5000)) // hours of accrual between the two blocks
	}
	g.futureTime = when
	if g.sweepShared {
		// an otherwise perfect block whose two transactions share one input that sits at DIFFERENT positions of
		// their input lists (both orders over the histories of a run): must be refused whatever the positions
		g.sweepShared = false
		if a, b, ok := g.sharedInputAt(P, g.sweepSharedPos/3, g.sweepSharedPos%3); ok {
			sb := forgeBlock(P, coin.Transactions{a, b}, when, 0, nil, secKey)
			g.execBoth(&sb)
			when = g.nextWhen()
			g.futureTime = when
		}
	}
	if g.sweepKind != "" {
		kind := g.sweepKind
		g.sweepKind = ""
		if t, ok := g.makeTxn(P, kind); ok {
			// the same single-defect transaction at pool admission (hard defects must be refused, soft ones flagged)
			g.emit("injf F " + txHex(&t))
			sb := forgeBlock(P, coin.Transactions{t}, when, 0, nil, secKey)
			g.execBoth(&sb)
			when = g.nextWhen()
			g.futureTime = when
		}
	}
	if !g.dupSwept && g.r.Chance(50) {
		// once per history (every other one): an otherwise perfect block whose only transaction names one of its
		// inputs twice — adjacent or not — and pays the duplicated coins out
		g.dupSwept = true
		if t, ok := g.makeTxn(P, "dup-in-bal"); ok {
			sb := forgeBlock(P, coin.Transactions{t}, when, 0, nil, secKey)
			g.execBoth(&sb)
			when = g.nextWhen()
			g.futureTime = when
		}
	}
	for i := 0; i < n; i++ {
		kind := ""
		if r.Chance(30) {
			kind = badKinds[r.Intn(len(badKinds))]
		}
		if r.Chance(15) {
			kind = "hours-future"
		}
		if t, ok := g.makeTxn(P, kind); ok {
			txns = append(txns, t)
		}
	}
	if len(txns) == 0 {
		return
	}
	if r.Chance(15) {
		txns = append(txns, txns[0]) // same transaction twice in one block
	}
	if r.Chance(25) {
		// two transactions of the block share an input that is NOT the first input of either
		if a, b, ok := g.sharedLaterInput(P); ok {
			txns = append(txns, a, b)
		}
	}
	if r.Chance(40) && len(g.pending) > 0 { // also use pool transactions
		txns = append(txns, g.pending[r.Intn(len(g.pending))])
	}
	var mut func(b *coin.Block)
	if r.Chance(15) {
		m := headerMuts[r.Intn(11)]
		mut = func(b *coin.Block) {
			switch m {
			case "seq+1":
				b.Head.BkSeq++
			case "seq-1":
				b.Head.BkSeq--
			case "time=":
				b.Head.Time = 0
			case "prev":
				b.Head.PrevHash[3] ^= 1
			case "body":
				b.Head.BodyHash[3] ^= 1
			case "ux":
				b.Head.UxHash[3] ^= 1
			}
		}
	}
	sb := forgeBlock(P, txns, when, uint64(r.Intn(3)), mut, secKey)
	g.execBoth(&sb)
}

// crashGen (C08): a scripted life-cycle of node F with a raw snapshot at every commit boundary, then
// restarts from (a sample of) the boundaries and from intra-commit crash states.
func crashGen(r *Rng, tier string, emit func(string)) {
	nHist := 6
	if tier == "thorough" {
		nHist = 60
	}
	if v := os.Getenv("VERIF_HISTORIES"); v != "" {
		nHist, _ = strconv.Atoi(v)
	}
	for h := 0; h < nHist; h++ {
		var fops []string // ops executed on F, in order
		var fsnap []int   // number of snapshots after op i
		g := &genCtx{r: r, avoidPending: true, conflictPct: 15}
		g.emit = func(op string) {
			emit(op)
			f := strings.Fields(op)
			if len(f) > 1 && f[1] == "F" {
				fops = append(fops, op)
				fsnap = append(fsnap, len(c8Snaps))
			}
		}
		g.prec = 1000
		g.burn = 2
		emit("c8begin arbF=0 gc=100000000000000 gt=1000 burn=2 maxtxn=32768 maxblk=32768 prec=3 ubf=2 umax=32768 uprec=3")
		if world == nil || !c8On {
			continue
		}
		nOps := 6 + r.Intn(8)
		for i := 0; i < nOps && alive(); i++ {
			c := r.Intn(100)
			switch {
			case c < 40:
				if t, ok := g.makeTxn(g.node("P"), ""); ok {
					hx := txHex(&t)
					g.emit("injf P " + hx)
					g.emit("injf F " + hx)
					g.pending = append(g.pending, t)
				}
			case c < 50:
				if t, ok := g.makeTxn(g.node("P"), badKinds[r.Intn(len(badKinds))]); ok {
					g.emit("injf F " + txHex(&t))
				}
			case c < 85:
				g.emit("mkblock " + u(g.nextWhen()))
				if sb := lastMade; sb != nil {
					lastMade = nil
					g.execBoth(sb)
				}
			case c < 90:
				g.emit("refresh F")
			case c < 95:
				g.emit("rminv F")
			default:
				g.emit("rebuild F " + []string{"history", "histtxns", "addrindex"}[r.Intn(3)])
			}
		}
		if !alive() {
			continue
		}
		g.emit("rebuild F " + []string{"history", "histtxns", "addrindex"}[r.Intn(3)])
		if !alive() {
			continue
		}
		g.emit("rminv F")
		last := len(c8Snaps) - 1 // index of the last snapshot
		// boundaries to restart from: always the three start-up ones + a sample (all in thorough)
		var ks []int
		for k := 0; k <= last; k++ {
			if k <= 3 || tier == "thorough" || r.Chance(35) {
				ks = append(ks, k)
			}
		}
		for _, k := range ks {
			emit("c8fork " + strconv.Itoa(k) + " full")
			for i, op := range fops {
				if fsnap[i]-1 <= k {
					continue // all commits of this op are contained in snapshot k (= state after k commits)
				}
				f := strings.Fields(op)
				f[1] = "R"
				emit(strings.Join(f, " "))
			}
			emit("c8same")
			if c8Adjacent(k) {
				for _, v := range []string{"pages:0", "pages:1", "pages:2", "pages:99", "tornmeta"} {
					if tier == "thorough" || r.Chance(40) {
						emit("c8fork " + strconv.Itoa(k) + " " + v)
					}
				}
			}
		}
		// terminal: a start-up that has to rebuild derived data on a long chain, crashed at every commit boundary.
		// One long chain per run (more in thorough), short ones otherwise.
		nb := 30 + r.Intn(60)
		if h == 0 || (tier == "thorough" && h%6 == 0) {
			nb = 1050 + r.Intn(400)
			if tier == "thorough" && h%12 == 6 {
				nb = 2050 + r.Intn(300)
			}
		}
		emit("c8rebuild " + strconv.Itoa(nb) + " " + []string{"history", "histtxns", "addrtxns", "addrindex"}[(h+r.Intn(2))%4] + " " + u(r.U64()%1000000))
	}
}

// sharedLaterInput builds two otherwise valid transactions whose LAST inputs are the same output
func (g *genCtx) sharedLaterInput(n *node) (coin.Transaction, coin.Transaction, bool) {
	return g.sharedInputAt(n, g.r.Intn(3), g.r.Intn(3))
}

// sharedInputAt: two otherwise valid transactions that share one input; pa, pb choose where it sits in each
// (0 = last of two, 1 = first of two, 2 = alone)
func (g *genCtx) sharedInputAt(n *node, pa, pb int) (coin.Transaction, coin.Transaction, bool) {
	uxs, headTime := spendable(n)
	var ok coin.UxArray
	for _, u := range uxs {
		if i := addrIndex[u.Body.Address]; i < 6 {
			ok = append(ok, u)
		}
	}
	if len(ok) < 3 {
		return coin.Transaction{}, coin.Transaction{}, false
	}
	p := g.r.Intn(len(ok))
	shared, a0, b0 := ok[p], ok[(p+1)%len(ok)], ok[(p+2)%len(ok)]
	mk := func(first coin.UxOut, pos int) coin.Transaction {
		ins := coin.UxArray{first, shared}
		switch pos {
		case 1:
			ins = coin.UxArray{shared, first}
		case 2:
			ins = coin.UxArray{shared}
		}
		var coins, hours uint64
		for _, u := range ins {
			coins += u.Body.Coins
			if h, err := u.CoinHours(headTime); err == nil {
				hours += h
			}
		}
		outs := []coin.TransactionOutput{{Address: keys[g.r.Intn(6)].addr, Coins: coins, Hours: hours / 4}}
		return buildTxn(txnSpec{ins: ins, outs: outs, signer: func(i int) cipher.SecKey { return ownerKey(ins[i]) }})
	}
	return mk(a0, pa), mk(b0, pb), true
}
