package main

import . "verif/harness/hlib"

// C33 (sync) ops and generator: filled in by sync.go's later revision
func syncExec(f []string) (string, bool) { return "", false }

func syncGen(r *Rng, tier string, emit func(string)) {}
