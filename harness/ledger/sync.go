package main

// C33: block synchronisation through the real daemon message handlers (hook: daemon.VerifSyncNode).

import (
	"fmt"
	"os"
	"strconv"
	"strings"

	"github.com/skycoin/skycoin/src/cipher"
	"github.com/skycoin/skycoin/src/coin"
	"github.com/skycoin/skycoin/src/daemon"
	"github.com/skycoin/skycoin/src/daemon/gnet"

	. "verif/harness/hlib"
)

const syncReqCount = 20

// wireLimit > 0: replies are built for that MaxOutgoingMessageLength and every sent message is printed with the
// length of its frame on the wire (gnet refuses to send a frame longer than the limit)
var wireLimit uint64

func init() {
	mc := daemon.NewMessagesConfig()
	mc.Register() // gnet.EncodeMessage needs the message ids
}

func syncNode(n *node) *daemon.VerifSyncNode {
	cfg := daemon.NewDaemonConfig()
	cfg.GetBlocksRequestCount = syncReqCount
	cfg.MaxGetBlocksResponseCount = 5
	cfg.MaxOutgoingMessageLength = 256 * 1024
	if wireLimit > 0 {
		cfg.MaxOutgoingMessageLength = wireLimit
	}
	return daemon.NewVerifSyncNode(n.v, cfg)
}

func msgStr(kind string, m gnet.Message) string {
	switch x := m.(type) {
	case *daemon.AnnounceBlocksMessage:
		return fmt.Sprintf("%s:ANNB(%d)", kind, x.MaxBkSeq)
	case *daemon.GetBlocksMessage:
		return fmt.Sprintf("%s:GETB(%d/%d)", kind, x.LastBlock, x.RequestedBlocks)
	case *daemon.GiveBlocksMessage:
		seqs := make([]string, len(x.Blocks))
		for i := range x.Blocks {
			seqs[i] = fmt.Sprintf("%d:%s", x.Blocks[i].Head.BkSeq, sh(x.Blocks[i].HashHeader()))
		}
		if wireLimit > 0 {
			b, err := gnet.EncodeMessage(m)
			if err != nil {
				return fmt.Sprintf("%s:GIVB(%s)[len=unencodable]", kind, strings.Join(seqs, "+"))
			}
			return fmt.Sprintf("%s:GIVB(%s)[len=%d]", kind, strings.Join(seqs, "+"), len(b))
		}
		return fmt.Sprintf("%s:GIVB(%s)", kind, strings.Join(seqs, "+"))
	}
	return fmt.Sprintf("%s:%T", kind, m)
}

func drainStr(sn *daemon.VerifSyncNode) string {
	sent, bc := sn.Drain()
	var out []string
	for _, m := range sent {
		out = append(out, msgStr("send", m))
	}
	for _, m := range bc {
		out = append(out, msgStr("bcast", m))
	}
	return "M" + strings.Join(out, ",")
}

func syncExec(f []string) (string, bool) {
	switch f[0] {
	case "give":
		n := getNode(f[1])
		var blocks []coin.SignedBlock
		var anns []string
		head := headHeader(n)
		if f[2] != "-" {
			for _, hx := range strings.Split(f[2], ",") {
				b, err := decodeBlock(hx)
				if err != nil {
					return "Rdecode", true
				}
				blocks = append(blocks, b)
				anns = append(anns, annBlock(&b, head))
			}
		}
		sn := syncNode(n)
		before := chainLen(n)
		sn.ProcessGiveBlocks(blocks)
		processed := chainLen(n) - before
		return fmt.Sprintf("NB%d %s R%d %s %s", len(blocks), strings.Join(anns, " | "), processed, drainStr(sn), digest(n)), true
	case "announce":
		n := getNode(f[1])
		sn := syncNode(n)
		sn.ProcessAnnounceBlocks(PU64(f[2]))
		return "Rok " + drainStr(sn), true
	case "getblocks", "getblocksw":
		n := getNode(f[1])
		wireLimit = 0
		if f[0] == "getblocksw" {
			wireLimit = PU64(f[4])
		}
		defer func() { wireLimit = 0 }()
		sn := syncNode(n)
		sn.ProcessGetBlocks(PU64(f[2]), PU64(f[3]))
		hs := make([]string, len(sn.Heights))
		for i, h := range sn.Heights {
			hs[i] = strconv.FormatUint(h, 10)
		}
		return "Rok " + drainStr(sn) + " H" + strings.Join(hs, ","), true
	}
	return "", false
}

// syncGen: the publisher builds a chain; the follower is fed the blocks in arbitrary order with
// duplication, loss, splitting into messages, forged and re-signed blocks.
func syncGen(r *Rng, tier string, emit func(string)) {
	nHist := 40
	if tier == "thorough" {
		nHist = 800
	}
	if v := os.Getenv("VERIF_HISTORIES"); v != "" {
		nHist, _ = strconv.Atoi(v)
	}
	for h := 0; h < nHist; h++ {
		g := &genCtx{r: r, emit: emit, avoidPending: true, conflictPct: 5}
		g.prec = 1000
		g.burn = 2
		emit("reset arbF=0 gc=100000000000000 gt=1000 burn=2 maxtxn=32768 maxblk=32768 prec=3 ubf=2 umax=32768 uprec=3")
		if world == nil {
			continue
		}
		// publisher chain of 3..10 blocks (only P executes them)
		want := 3 + r.Intn(8)
		var chain []coin.SignedBlock
		for tries := 0; len(chain) < want && tries < 60; tries++ {
			if t, ok := g.makeTxn(g.node("P"), ""); ok {
				emit("injf P " + txHex(&t))
				g.pending = append(g.pending, t)
			}
			if r.Chance(60) {
				emit("mkblock " + u(g.nextWhen()))
				if sb := lastMade; sb != nil {
					lastMade = nil
					before := chainLen(g.node("P"))
					emit("exec P " + encodeBlock(sb))
					if chainLen(g.node("P")) > before {
						chain = append(chain, *sb)
					}
				}
			}
		}
		if len(chain) == 0 {
			continue
		}
		// delivery schedule
		var pool []coin.SignedBlock
		for _, b := range chain {
			if r.Chance(8) {
				continue // lost
			}
			pool = append(pool, b)
			if r.Chance(25) {
				pool = append(pool, b) // duplicated
			}
		}
		// forged / re-signed / mutated blocks
		for i := 0; i < 1+r.Intn(3); i++ {
			b := chain[r.Intn(len(chain))]
			switch r.Intn(5) {
			case 4: // the genuine header and publisher signature over a SUBSTITUTED body: the owner of the first
				// transaction's inputs re-spends them to someone else (valid against the same unspent set)
				if nb, ok := substituteBody(b); ok {
					b = nb
				}
			case 0: // forger signs the genuine block
				b.Sig = mustSign(b, true)
			case 1: // publisher-signed header with a changed time: not on the publisher's chain, needs the key
				b.Head.Time += uint64(1 + r.Intn(5))
				b.Sig = mustSign(b, true)
			case 2: // signature bit flip
				b.Sig[r.Intn(65)] ^= 1
			case 3: // forged block with forged parent link
				b.Head.PrevHash[r.Intn(8)] ^= 1
				b.Sig = mustSign(b, true)
			}
			pool = append(pool, b)
		}
		mode := r.Intn(4)
		switch mode {
		case 0: // in order
		case 1: // random permutation
			for i := len(pool) - 1; i > 0; i-- {
				j := r.Intn(i + 1)
				pool[i], pool[j] = pool[j], pool[i]
			}
		case 2: // local swaps
			for i := 0; i+1 < len(pool); i++ {
				if r.Chance(30) {
					pool[i], pool[i+1] = pool[i+1], pool[i]
				}
			}
		case 3: // reversed
			for i, j := 0, len(pool)-1; i < j; i, j = i+1, j-1 {
				pool[i], pool[j] = pool[j], pool[i]
			}
		}
		deliver := func(blocks []coin.SignedBlock) {
			for len(blocks) > 0 {
				k := 1 + r.Intn(5)
				if k > len(blocks) {
					k = len(blocks)
				}
				hx := make([]string, k)
				for i := 0; i < k; i++ {
					hx[i] = encodeBlock(&blocks[i])
				}
				emit("give F " + strings.Join(hx, ","))
				blocks = blocks[k:]
				if r.Chance(15) {
					emit("announce F " + u(uint64(r.Intn(len(chain)+3))))
				}
				if r.Chance(10) {
					emit("getblocks P " + u(uint64(r.Intn(len(chain)+2))) + " " + u(uint64(r.Intn(30))))
				}
			}
		}
		deliver(pool)
		// crafted messages around the follower's current head: known blocks repeated or out of order in
		// front of new ones, a known block followed by a gap, a single new block behind a known one
		if hs, ok, _ := g.node("F").v.HeadBkSeq(); ok && hs >= 1 && int(hs) < len(chain) {
			h := int(hs) // chain[i] has seq i+1, so chain[h-1] is the head, chain[h] the next block
			blk := func(seq int) coin.SignedBlock { return chain[seq-1] }
			var msgs [][]coin.SignedBlock
			pick := r.Intn(5)
			if h+2 <= len(chain) && r.Chance(40) {
				pick = 4
			}
			switch pick {
			case 4: // a genuine block arrives too early (refused), later a FORGED copy of it arrives at the right
				// moment, before the genuine one: having seen the genuine copy once must not vouch for the forgery
				if h+2 <= len(chain) {
					forged := blk(h + 2)
					switch r.Intn(3) {
					case 0:
						forged.Sig = mustSign(forged, true)
					case 1:
						forged.Sig[r.Intn(64)] ^= 1 << uint(r.Intn(8))
					default:
						if nb, ok := substituteBody(forged); ok {
							forged = nb
						} else {
							forged.Sig = mustSign(forged, true)
						}
					}
					msgs = append(msgs, []coin.SignedBlock{blk(h + 2)}, []coin.SignedBlock{blk(h + 1), forged}, []coin.SignedBlock{blk(h + 2)})
				}
			case 0: // duplicate of a known block first
				m := []coin.SignedBlock{blk(h), blk(h)}
				for q := h + 1; q <= len(chain) && q <= h+3; q++ {
					m = append(m, blk(q))
				}
				msgs = append(msgs, m)
			case 1: // known blocks out of order first
				if h >= 2 {
					m := []coin.SignedBlock{blk(h), blk(h - 1)}
					for q := h + 1; q <= len(chain) && q <= h+3; q++ {
						m = append(m, blk(q))
					}
					msgs = append(msgs, m)
				}
			case 2: // an old block, then the next one
				msgs = append(msgs, []coin.SignedBlock{blk(1), blk(h + 1)})
			case 3: // next block twice, then the one after
				m := []coin.SignedBlock{blk(h + 1), blk(h + 1)}
				if h+2 <= len(chain) {
					m = append(m, blk(h+2))
				}
				msgs = append(msgs, m)
			}
			for _, m := range msgs {
				hx := make([]string, len(m))
				for i := range m {
					hx[i] = encodeBlock(&m[i])
				}
				emit("give F " + strings.Join(hx, ","))
			}
		}
		// the SERVING side: requests from peers that are two behind, exactly one behind, at and beyond the publisher's
		// head, for one block and for a page
		if hs, ok, _ := g.node("P").v.HeadBkSeq(); ok {
			for _, last := range []int64{int64(hs) - 2, int64(hs) - 1, int64(hs), int64(hs) + 1} {
				if last >= 0 {
					emit("getblocks P " + u(uint64(last)) + " " + u(uint64([]int{1, 2, 20}[r.Intn(3)])))
				}
			}
		}
		// the same under outgoing-message limits around the size of the full reply (and well below it): whatever is sent
		// must be a non-empty prefix of the blocks asked for AND fit the wire, otherwise the requester, which asks again
		// from the same head, gets the same unsendable reply for ever
		if hs, ok, _ := g.node("P").v.HeadBkSeq(); ok && hs >= 2 {
			last := uint64(r.Intn(int(hs)))
			if blocks, err := g.node("P").v.GetSignedBlocksSince(last, 5); err == nil && len(blocks) > 0 {
				if b, err := gnet.EncodeMessage(daemon.NewGiveBlocksMessage(blocks, 1<<20)); err == nil {
					L := len(b)
					for _, d := range []int{-9, -8, -7, -5, -4, -1, 0, 1} {
						emit("getblocksw P " + u(last) + " 20 " + u(uint64(L+d)))
					}
					if b1, err := gnet.EncodeMessage(daemon.NewGiveBlocksMessage(blocks[:1], 1<<20)); err == nil {
						for _, d := range []int{-8, -3, 0, 5} {
							emit("getblocksw P " + u(last) + " 20 " + u(uint64(len(b1)+d)))
						}
					}
					emit("getblocksw P " + u(last) + " 20 " + u(uint64(L/2+r.Intn(L/2+1))))
				}
			}
		}
		if r.Chance(50) { // a later complete in-order delivery: the follower must then reach the publisher's head
			deliver(chain)
		}
		emit("give F -")
		emit("checkdb F")
	}
}

// substituteBody keeps header and signature of a publisher block and replaces its first transaction by another
// one that spends the same inputs (signed by the same owners) but pays a different address.
func substituteBody(b coin.SignedBlock) (coin.SignedBlock, bool) { return substituteBodyAt(b, 0) }

// substituteBodyAt does the same with the transaction at position pos
func substituteBodyAt(b coin.SignedBlock, pos int) (coin.SignedBlock, bool) {
	if pos < 0 || pos >= len(b.Body.Transactions) {
		return b, false
	}
	txns := make(coin.Transactions, len(b.Body.Transactions))
	copy(txns, b.Body.Transactions)
	t := txns[pos]
	t2 := coin.Transaction{Type: t.Type, In: append([]cipher.SHA256{}, t.In...), Out: append([]coin.TransactionOutput{}, t.Out...)}
	if len(t2.Out) == 0 || len(t.Sigs) != len(t.In) {
		return b, false
	}
	for j := range keys {
		if keys[j].addr != t2.Out[0].Address && j < 6 {
			t2.Out[0].Address = keys[j].addr
			break
		}
	}
	t2.InnerHash = t2.HashInner()
	t2.Sigs = make([]cipher.Sig, len(t2.In))
	for i := range t2.In {
		pk, err := cipher.PubKeyFromSig(t.Sigs[i], cipher.AddSHA256(t.InnerHash, t.In[i]))
		if err != nil {
			return b, false
		}
		found := false
		for j := range keys {
			if keys[j].pub == pk {
				t2.Sigs[i] = cipher.MustSignHash(cipher.AddSHA256(t2.InnerHash, t2.In[i]), keys[j].sec)
				found = true
			}
		}
		if !found {
			return b, false
		}
	}
	if err := t2.UpdateHeader(); err != nil {
		return b, false
	}
	txns[pos] = t2
	b.Body.Transactions = txns
	return b, true
}

func mustSign(b coin.SignedBlock, forger bool) (sig [65]byte) {
	k := secKey
	if forger {
		k = forgeSec
	}
	s := signHash(b.HashHeader(), k)
	copy(sig[:], s[:])
	return
}
