package main

import (
	"encoding/hex"
	"fmt"
	"os"
	"strconv"
	"strings"

	"github.com/skycoin/skycoin/src/cipher/encoder"
	"github.com/skycoin/skycoin/src/coin"
	"github.com/skycoin/skycoin/src/visor"
	"github.com/skycoin/skycoin/src/visor/blockdb"
	"github.com/skycoin/skycoin/src/visor/dbutil"
	"github.com/skycoin/skycoin/src/visor/historydb"

	. "verif/harness/hlib"
)

func u64(m map[string]string, k string, def uint64) uint64 {
	if v, ok := m[k]; ok {
		x, err := strconv.ParseUint(v, 10, 64)
		if err != nil {
			panic("harness: bad number for " + k)
		}
		return x
	}
	return def
}

func decodeBlock(hx string) (coin.SignedBlock, error) {
	b, err := hex.DecodeString(hx)
	if err != nil {
		return coin.SignedBlock{}, err
	}
	var sb coin.SignedBlock
	if err := encoder.DeserializeRawExact(b, &sb); err != nil {
		return coin.SignedBlock{}, err
	}
	return sb, nil
}

func encodeBlock(b *coin.SignedBlock) string {
	return hex.EncodeToString(encoder.Serialize(*b))
}

func decodeTxn(hx string) (coin.Transaction, error) {
	b, err := hex.DecodeString(hx)
	if err != nil {
		return coin.Transaction{}, err
	}
	return coin.DeserializeTransaction(b)
}

type deadNode struct{ name string }

func getNode(name string) *node {
	if world == nil {
		panic("harness: no world (missing reset)")
	}
	n := world.nodes[name]
	if n == nil {
		panic("harness: unknown node " + name)
	}
	if n.db == nil || n.v == nil {
		// the node failed to (re)start earlier: every later op on it answers "dead"
		panic(deadNode{name})
	}
	return n
}

func headHeader(n *node) *coin.BlockHeader {
	hb, err := n.v.GetHeadBlock()
	if err != nil || hb == nil {
		return nil
	}
	return &hb.Head
}

func ledgerExec(op string) (out string) {
	defer func() {
		if r := recover(); r != nil {
			if d, ok := r.(deadNode); ok {
				out = "Rdead-" + d.name
				return
			}
			panic(r)
		}
	}()
	return ledgerExec0(op)
}

func ledgerExec0(op string) string {
	out := ledgerExec1(op)
	f := Fields(op)
	if c8On && (f[0] == "c8begin" || (len(f) > 1 && f[1] == "F")) {
		// number of commit-boundary snapshots of F taken so far
		out += " S" + strconv.Itoa(len(c8Snaps))
	}
	return out
}

func ledgerExec1(op string) string {
	f := Fields(op)
	switch f[0] {
	case "reset":
		m := parseKV(f[1:])
		rp := resetParams{
			arbF: u64(m, "arbF", 0), gc: u64(m, "gc", 100e12), gt: u64(m, "gt", 1000),
			burn: u64(m, "burn", 10), maxtxn: u64(m, "maxtxn", 32768), maxblk: u64(m, "maxblk", 32768), prec: u64(m, "prec", 3),
			ubf: u64(m, "ubf", 10), umax: u64(m, "umax", 32768), uprec: u64(m, "uprec", 3),
		}
		rp.cbf, rp.cmax, rp.cprec = u64(m, "cbf", rp.burn), u64(m, "cmax", rp.maxtxn), u64(m, "cprec", rp.prec)
		c8On = false
		w, err := newWorld(rp)
		if err != nil {
			return "R" + errCode(err)
		}
		g := w.genesis
		return annBlock(&g, nil) + " Rok " + digest(w.nodes["P"]) + " " + digest(w.nodes["F"])
	case "c8begin":
		m := parseKV(f[1:])
		rp := resetParams{
			arbF: u64(m, "arbF", 0), gc: u64(m, "gc", 100e12), gt: u64(m, "gt", 1000),
			burn: u64(m, "burn", 10), maxtxn: u64(m, "maxtxn", 32768), maxblk: u64(m, "maxblk", 32768), prec: u64(m, "prec", 3),
			ubf: u64(m, "ubf", 10), umax: u64(m, "umax", 32768), uprec: u64(m, "uprec", 3),
		}
		rp.cbf, rp.cmax, rp.cprec = u64(m, "cbf", rp.burn), u64(m, "cmax", rp.maxtxn), u64(m, "cprec", rp.prec)
		out, err := c8Begin(rp)
		if err != nil {
			return "R" + errCode(err)
		}
		return out
	case "c8same":
		// final comparison: the restarted-and-caught-up node R against the never-crashed node F
		return "Rok " + digest(getNode("R")) + " " + digest(getNode("F"))
	case "c8fork":
		k, _ := strconv.Atoi(f[1])
		return c8Fork(k, f[2])
	case "exec":
		n := getNode(f[1])
		b, err := decodeBlock(f[2])
		if err != nil {
			return "Rdecode"
		}
		ann := annBlock(&b, headHeader(n))
		err = n.v.ExecuteSignedBlock(b)
		if err == nil {
			snapAddrIndex(n)
		}
		return ann + " R" + errCode(err) + " " + digest(n)
	case "execfault":
		// the block's execution fails AFTER Unspents.ProcessBlock has run: the history record of its first input is
		// missing for the duration of the call, so HistoryDB.ParseBlock fails and the enclosing database transaction is
		// rolled back.  Nothing the node reports may have changed (afterwards the record is put back).
		n := getNode(f[1])
		b, err := decodeBlock(f[2])
		if err != nil || len(b.Body.Transactions) == 0 || len(b.Body.Transactions[0].In) == 0 {
			return "Rskip " + digest(n)
		}
		key := b.Body.Transactions[0].In[0]
		// the injected fault is not an action of the node: the crash explorer (C08) must not take snapshots of the
		// database while the record is missing
		hook := dbutil.VerifCommitHook
		dbutil.VerifCommitHook = nil
		defer func() { dbutil.VerifCommitHook = hook }()
		var saved []byte
		if err := n.db.Update("verif-fault", func(tx *dbutil.Tx) error {
			v, err := dbutil.GetBucketValue(tx, historydb.UxOutsBkt, key[:])
			if err != nil || v == nil {
				return err
			}
			saved = v
			return dbutil.Delete(tx, historydb.UxOutsBkt, key[:])
		}); err != nil || saved == nil {
			return "Rskip " + digest(n)
		}
		err = n.v.ExecuteSignedBlock(b)
		if uerr := n.db.Update("verif-fault-undo", func(tx *dbutil.Tx) error {
			return dbutil.PutBucketValue(tx, historydb.UxOutsBkt, key[:], saved)
		}); uerr != nil {
			panic("harness: cannot restore the history record: " + uerr.Error())
		}
		return "R" + errCode(err) + " " + digest(n)
	case "injf", "inju":
		n := getNode(f[1])
		t, err := decodeTxn(f[2])
		if err != nil {
			return "Rdecode"
		}
		ann := annTxn(&t, nil, headHeader(n))
		var known bool
		if f[0] == "injf" {
			var soft interface{ Error() string }
			k, s, e := n.v.InjectForeignTransaction(t)
			known, err = k, e
			if s != nil {
				soft = *s
			}
			r := errCode(err)
			if err == nil && soft != nil {
				r = "ok-" + errCode(*s)
			}
			return ann + " R" + r + fmt.Sprintf(" K%v ", known) + digest(n)
		}
		known, _, _, err = n.v.InjectUserTransaction(t)
		return ann + " R" + errCode(err) + fmt.Sprintf(" K%v ", known) + digest(n)
	case "refresh":
		n := getNode(f[1])
		hs, err := n.v.RefreshUnconfirmed()
		x := make([]string, len(hs))
		for i := range hs {
			x[i] = sh(hs[i])
		}
		return "R" + errCode(err) + " V" + joinSorted(x, ",") + " " + digest(n)
	case "rminv":
		n := getNode(f[1])
		hs, err := n.v.RemoveInvalidUnconfirmed()
		x := make([]string, len(hs))
		for i := range hs {
			x[i] = sh(hs[i])
		}
		return "R" + errCode(err) + " V" + joinSorted(x, ",") + " " + digest(n)
	case "mkblock":
		// publisher creates a block from its whole pool at time `when`
		n := getNode("P")
		when := PU64(f[1])
		uts, err := n.v.GetAllUnconfirmedTransactions()
		if err != nil {
			return "R" + errCode(err)
		}
		txns := make(coin.Transactions, len(uts))
		anns := make([]string, len(uts))
		for i := range uts {
			txns[i] = uts[i].Transaction
			anns[i] = annTxn(&txns[i], nil, headHeader(n))
		}
		// the publisher's OWN createBlock: it gathers the pool itself (the annotations above list the whole pool
		// for the model), selects deterministically and signs with the configured key
		sb, err := n.v.VerifCreateBlock(when)
		out := fmt.Sprintf("NP%d", len(uts))
		if len(anns) > 0 {
			out += " " + strings.Join(anns, " ")
		}
		if err != nil {
			return out + " R" + errCode(err)
		}
		lastMade = &sb
		return out + " Rok " + annBlock(&sb, headHeader(n)) + " X" + encodeBlock(&sb)
	case "checkdb":
		n := getNode(f[1])
		return "R" + errCode(checkDBCopy(n))
	case "rebuild":
		// simulate a database whose derived data must be rebuilt at start-up, then restart:
		//   history   - the history needs a reset (metadata lost): Erase + re-parse of the whole chain
		//   histtxns  - one history bucket is empty: same path through NeedsReset
		//   addrindex - the address-index height is stale: unspent address index rebuilt from the pool
		n := getNode(f[1])
		// the artificially damaged database is not a state the node produces: no crash snapshots of it
		// (C08); one snapshot is taken once the rebuild has completed
		wasOn := c8On
		c8On = false
		defer func() {
			c8On = wasOn
			if wasOn && f[1] == "F" {
				c8Snapshot()
			}
		}()
		if err := n.db.Update("verif rebuild", func(tx *dbutil.Tx) error {
			switch f[2] {
			case "history":
				return dbutil.Reset(tx, historydb.HistoryMetaBkt)
			case "histtxns":
				return dbutil.Reset(tx, historydb.TransactionsBkt)
			case "addrindex":
				if err := dbutil.Reset(tx, blockdb.UnspentPoolAddrIndexBkt); err != nil {
					return err
				}
				return dbutil.Delete(tx, blockdb.UnspentMetaBkt, []byte("addr_index_height"))
			case "addrindex-lag":
				// the address index as it was a few blocks ago, with its (older) height: what a node is left with
				// when blocks were applied without maintaining the index; start-up must bring it up to the head
				snaps := idxSnaps[n.name]
				if len(snaps) == 0 {
					return nil
				}
				old := snaps[0]
				if err := dbutil.Reset(tx, blockdb.UnspentPoolAddrIndexBkt); err != nil {
					return err
				}
				for k, v := range old.rows {
					if err := dbutil.PutBucketValue(tx, blockdb.UnspentPoolAddrIndexBkt, []byte(k), v); err != nil {
						return err
					}
				}
				if old.height == nil {
					return dbutil.Delete(tx, blockdb.UnspentMetaBkt, []byte("addr_index_height"))
				}
				return dbutil.PutBucketValue(tx, blockdb.UnspentMetaBkt, []byte("addr_index_height"), old.height)
			}
			return nil
		}); err != nil {
			return "R" + errCode(err)
		}
		n.db.Close()
		n.db, n.v = nil, nil
		nn, err := openNode(world, n.name, n.cfg)
		if err != nil {
			return "R" + errCode(err)
		}
		world.nodes[n.name] = nn
		return "Rok " + digest(nn)
	case "restart":
		n := getNode(f[1])
		n.db.Close()
		n.db, n.v = nil, nil
		nn, err := openNode(world, n.name, n.cfg)
		if err != nil {
			return "R" + errCode(err)
		}
		world.nodes[n.name] = nn
		return "Rok " + digest(nn)
	}
	if f[0] == "c8rebuild" && len(f) == 4 {
		return c8Rebuild(int(PU64(f[1])), f[2], PU64(f[3]))
	}
	if r, ok := execExtra(f); ok {
		return r
	}
	panic("harness: unknown op " + f[0])
}

// the address-index bucket and its height after each of the last few accepted blocks of a node (oldest first)
type idxSnap struct {
	rows   map[string][]byte
	height []byte
}

var idxSnaps = map[string][]idxSnap{}

func snapAddrIndex(n *node) {
	sn := idxSnap{rows: map[string][]byte{}}
	if err := n.db.View("verif idx snapshot", func(tx *dbutil.Tx) error {
		if err := dbutil.ForEach(tx, blockdb.UnspentPoolAddrIndexBkt, func(k, v []byte) error {
			sn.rows[string(k)] = append([]byte{}, v...)
			return nil
		}); err != nil {
			return err
		}
		h, err := dbutil.GetBucketValue(tx, blockdb.UnspentMetaBkt, []byte("addr_index_height"))
		sn.height = h
		return err
	}); err != nil {
		return
	}
	l := append(idxSnaps[n.name], sn)
	if len(l) > 4 {
		l = l[len(l)-4:]
	}
	idxSnaps[n.name] = l
}

// checkDBCopy runs the node's own integrity verification on a copy of its database file
func checkDBCopy(n *node) error {
	cp := n.path + ".check"
	defer os.Remove(cp)
	if err := n.db.View("copy", func(tx *dbutil.Tx) error {
		return tx.CopyFile(cp, 0o600)
	}); err != nil {
		return err
	}
	db, err := visor.OpenDB(cp, true)
	if err != nil {
		return err
	}
	defer db.Close()
	return visor.CheckDatabase(db, pubKey, nil)
}

func main() {
	initKeys()
	Main(&Prop{Gen: ledgerGen, Exec: ledgerExec, Close: func() { world.close() }})
}
