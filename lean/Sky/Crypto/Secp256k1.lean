/-
  Sky.Crypto.Secp256k1 — executable TEXTBOOK secp256k1 over `Nat` (core Lean only).

  Affine chord–tangent addition, double-and-add scalar multiplication, modular inverse by extended
  Euclid, square root as c^((p+1)/4), compressed point encoding, ECDSA sign with explicit nonce /
  verify / public-key recovery, ECDH.  Every recursion is structural (explicit fuel) so that the
  kernel can evaluate closed terms (`order_G` is proved by `decide +kernel`).

  This is the independent reference implementation that properties C14, C10, C16, C17 compare the Go
  code (10×26-bit limbs, Jacobian coordinates, wNAF, λ-endomorphism) against.  It shares no code and
  no representation with the Go implementation.
-/
namespace Sky.Crypto.Secp256k1

abbrev Bytes := List Nat

/-- field prime p = 2^256 − 2^32 − 977 -/
def P : Nat := 0xFFFFFFFFFFFFFFFFFFFFFFFFFFFFFFFFFFFFFFFFFFFFFFFFFFFFFFFEFFFFFC2F
/-- group order n -/
def N : Nat := 0xFFFFFFFFFFFFFFFFFFFFFFFFFFFFFFFEBAAEDCE6AF48A03BBFD25E8CD0364141
def Gx : Nat := 0x79BE667EF9DCBBAC55A06295CE870B07029BFCDB2DCE28D959F2815B16F81798
def Gy : Nat := 0x483ADA7726A3C4655DA4FBFC0E1108A8FD17B448A68554199C47D08FFB10D4B8
/-- ⌊n/2⌋: the largest "low" s -/
def halfN : Nat := N / 2

/-! ### modular arithmetic -/

/-- b^e mod m, square-and-multiply; `fuel` ≥ bit length of `e`. -/
def powModF : (fuel b e m r : Nat) → Nat
  | 0, _, _, _, r => r
  | fuel+1, b, e, m, r =>
    let r' := if e % 2 == 1 then r * b % m else r
    powModF fuel (b * b % m) (e / 2) m r'

/-- b^e mod m for e < 2^256 -/
def powMod (b e m : Nat) : Nat := powModF 256 (b % m) e m (1 % m)

/-- extended Euclid: invariant `t0·a ≡ r0`, `t1·a ≡ r1 (mod m)`. -/
def invGo : (fuel r0 r1 t0 t1 m : Nat) → Nat
  | 0, r0, _, t0, _, _ => if r0 == 1 then t0 else 0
  | f+1, r0, r1, t0, t1, m =>
    if r1 == 0 then (if r0 == 1 then t0 else 0)
    else
      let q := r0 / r1
      invGo f r1 (r0 % r1) t1 ((t0 + (m - q * t1 % m)) % m) m

/-- modular inverse of `a` modulo `m` (0 when not invertible); `m < 2^400`. -/
def invMod (a m : Nat) : Nat := invGo 600 m (a % m) 0 1 m

@[inline] def subP (a b : Nat) : Nat := (a + (P - b % P)) % P

/-- square root in F_p for p ≡ 3 (mod 4): the candidate c^((p+1)/4) (caller checks the square). -/
def sqrtP (c : Nat) : Nat := powMod c ((P + 1) / 4) P

/-! ### the group -/

inductive Pt | inf | aff (x y : Nat)
deriving DecidableEq, Repr

def G : Pt := .aff Gx Gy

/-- y² = x³ + 7 with both coordinates reduced; the point at infinity is NOT a valid public key. -/
def onCurve : Pt → Bool
  | .inf => false
  | .aff x y => x < P && y < P && (y * y) % P == (x * x % P * x + 7) % P

def neg : Pt → Pt
  | .inf => .inf
  | .aff x y => .aff x ((P - y) % P)

def add : Pt → Pt → Pt
  | .inf, q => q
  | p, .inf => p
  | .aff x1 y1, .aff x2 y2 =>
    if x1 == x2 then
      if (y1 + y2) % P == 0 then .inf
      else
        let l := (3 * x1 * x1 % P) * invMod (2 * y1 % P) P % P
        let x3 := (l * l + 2 * (P - x1)) % P
        let y3 := (l * ((x1 + (P - x3)) % P) + (P - y1)) % P
        .aff x3 y3
    else
      let l := ((y2 + (P - y1)) % P) * invMod ((x2 + (P - x1)) % P) P % P
      let x3 := (l * l + (P - x1) + (P - x2)) % P
      let y3 := (l * ((x1 + (P - x3)) % P) + (P - y1)) % P
      .aff x3 y3

def smulF : (fuel k : Nat) → Pt → Pt → Pt
  | 0, _, _, acc => acc
  | fuel+1, k, p, acc =>
    if k == 0 then acc
    else
      let acc' := if k % 2 == 1 then add acc p else acc
      smulF fuel (k / 2) (add p p) acc'

/-- k • p for k < 2^257 (double-and-add, least significant bit first) -/
def smul (k : Nat) (p : Pt) : Pt := smulF 257 k p .inf

/-! ### bytes -/

def ofBE (bs : Bytes) : Nat := bs.foldl (fun a b => a * 256 + b % 256) 0

def toBE32 (x : Nat) : Bytes := (List.range 32).map fun i => (x / 256 ^ (31 - i)) % 256

/-- compressed encoding: 02/03 ‖ x (the point at infinity has no encoding: `[]`) -/
def compress : Pt → Bytes
  | .inf => []
  | .aff x y => (2 + y % 2) :: toBE32 x

/-- the point with abscissa `x` and the requested parity of `y`, if `x < p` and x³+7 is a square -/
def liftX (x : Nat) (odd : Bool) : Option Pt :=
  if x ≥ P then none
  else
    let c := (x * x % P * x + 7) % P
    let y := sqrtP c
    if y * y % P != c then none
    else some (.aff x (if (y % 2 == 1) == odd then y else (P - y) % P))

/-- textbook public-key parsing: 33 bytes, prefix 02/03, x < p, on the curve. -/
def parsePub (b : Bytes) : Option Pt :=
  match b with
  | pre :: xs =>
    if xs.length ≠ 32 then none
    else if pre ≠ 2 ∧ pre ≠ 3 then none
    else liftX (ofBE xs) (pre == 3)
  | [] => none

/-- textbook secret-key validity: 32 bytes, 0 < k < n -/
def secValid (b : Bytes) : Bool := b.length == 32 && 0 < ofBE b && ofBE b < N

/-- public key of a secret scalar -/
def pubOf (k : Nat) : Pt := smul k G

/-! ### ECDSA (with explicit nonce), recovery, ECDH -/

structure Sig where
  r : Nat
  s : Nat
  recid : Nat
deriving DecidableEq, Repr

/-- ECDSA signing with nonce `k` (1 ≤ k < n), secret `d`, message scalar `z` (any 256-bit value; used
mod n); low-s normalisation; recid = 2·[R.x ≥ n] + [R.y odd], flipped in bit 0 when s is negated.
`none` when s = 0 (or k•G = ∞). -/
def sign (d z k : Nat) : Option Sig :=
  match smul k G with
  | .inf => none
  | .aff rx ry =>
    let r := rx % N
    let recid := (if rx ≥ N then 2 else 0) + ry % 2
    let s := invMod k N * ((r * d + z) % N) % N
    if s == 0 then none
    else if s > halfN then some { r := r, s := N - s, recid := recid ^^^ 1 }
    else some { r := r, s := s, recid := recid }

/-- textbook ECDSA verification of (r, s) for public point Q and message scalar z -/
def verify (Q : Pt) (z r s : Nat) : Bool :=
  if r == 0 || r ≥ N || s == 0 || s ≥ N then false
  else
    let w := invMod s N
    match add (smul (z % N * w % N) G) (smul (r * w % N) Q) with
    | .inf => false
    | .aff x _ => x % N == r

/-- public-key recovery: Q = r⁻¹ (s•R − z•G), R = the point with abscissa r (+ n if recid bit 1) and
y-parity = recid bit 0. Only the two low bits of `recid` are used. -/
def recover (z r s recid : Nat) : Option Pt :=
  if r == 0 || r ≥ N || s == 0 || s ≥ N then none
  else
    let rx := if recid / 2 % 2 == 1 then r + N else r
    match liftX rx (recid % 2 == 1) with
    | none => none
    | some R =>
      let rn := invMod r N
      let u1 := (N - rn * (z % N) % N) % N
      let u2 := rn * s % N
      match add (smul u2 R) (smul u1 G) with
      | .inf => none
      | q => some q

/-- ECDH shared point -/
def ecdhPoint (Q : Pt) (k : Nat) : Pt := smul k Q

end Sky.Crypto.Secp256k1
