/-
  Sky.C28.Model — the part of "no API request can crash the node" that is logic (core Lean only).

  Modelled: `Visor.VerifyTxnVerbose` (src/visor/visor.go) — the control flow between the unspent
  pool, the history database and the block store, with every Go partial operation (here: the
  dereference of the `*historydb.Transaction` returned by `history.GetTransaction`) explicit as the
  `panic` outcome of `Res`.  The transaction checks themselves (`VerifySingleTxn{User,Soft,Hard}
  Constraints`) and `NewTransactionInputs` are parameters: they return an error class or succeed.
  Paging arithmetic (`PageIndex.Cal`) is not re-modelled here: it is the regenerated
  `Sky.Gen.PageIndex.PageIndex_Cal`.

  Everything else behind the HTTP handlers is NOT modelled (see notes/status/C28.md).
-/
import Sky.Prim.Res
namespace Sky.C28
open Sky

/-- where an input of the transaction is known -/
inductive InStatus
  | unspent     -- in the unspent pool (and in the history's outputs bucket)
  | spent       -- only in the history's outputs bucket: already spent by a confirmed transaction
  | unknown     -- nowhere
deriving DecidableEq, Repr

/-- error classes the API distinguishes (422 for the first three, 500 for `other`) -/
inductive ErrClass | user | soft | hard | other
deriving DecidableEq, Repr

/-- everything `VerifyTxnVerbose` reads, as data -/
structure VIn where
  ins : List InStatus
  /-- `history.GetTransaction(txn.Hash())`: block seq of the confirmed transaction, if any -/
  inHistory : Option Nat
  /-- `GetSignedBlockBySeq(seq-1)`: time of the previous block, if that block exists -/
  prevBlockTime : Option Nat
  headTime : Nat
  /-- outcome of the three `VerifySingleTxn*Constraints` calls in the code's order -/
  checks : Option ErrClass
  /-- `NewTransactionInputs` fails (coin-hour overflow) -/
  inputsErr : Bool
deriving Repr

structure VOut where
  /-- verbose inputs are returned -/
  inputs : Bool
  confirmed : Bool
  err : Option ErrClass
deriving DecidableEq, Repr

/-- the tail of the function: build the verbose inputs if they could be queried -/
def finish (v : VIn) (uxaLen feeCalcTime : Nat) (confirmed : Bool) (err : Option ErrClass) : Res VOut :=
  if uxaLen ≠ 0 ∧ feeCalcTime ≠ 0 then
    if v.inputsErr then .ok ⟨false, confirmed, some .other⟩
    else .ok ⟨true, confirmed, err⟩
  else .ok ⟨false, confirmed, err⟩

/-- `nilGuard = true`: the code as it is now (after the F6 repair); `false`: the code before it,
where `historyTxn.BlockSeq` is evaluated on a nil `historyTxn`. -/
def verifyTxnVerboseG (nilGuard : Bool) (v : VIn) : Res VOut :=
  if v.ins.all (· == .unspent) then
    -- Unspent().GetArray succeeded: unconfirmed transaction, fees at head time
    finish v v.ins.length v.headTime false v.checks
  else if v.ins.any (· == .unknown) then
    -- history.GetUxOuts fails on the first id it does not know; uxa was reset to nil by GetArray
    finish v 0 0 false (some .other)
  else
    -- all inputs are in the history, at least one of them already spent
    match v.inHistory with
    | none =>
      if nilGuard then
        -- not the confirmed spender of these outputs: a double spend
        finish v v.ins.length 0 false (some .hard)
      else .panic "nil dereference: historyTxn.BlockSeq"
    | some seq =>
      if seq > 0 then
        match v.prevBlockTime with
        | none => finish v v.ins.length 0 true (some .other)
        | some t => finish v v.ins.length t true none
      else finish v v.ins.length 0 true none

/-- Visor.VerifyTxnVerbose as it is in the tree -/
def verifyTxnVerbose (v : VIn) : Res VOut := verifyTxnVerboseG true v

/-- the same function before the repair of F6 -/
def verifyTxnVerboseF6 (v : VIn) : Res VOut := verifyTxnVerboseG false v

end Sky.C28
