/-
  C28 driver.
  * `reset …`  / `http …` lines: the specification is "a well-formed HTTP response within the
    deadline"; the harness prints `ok <status>` for one, else `panic <site>` / `hang` / `malformed …`.
  * `verify …` lines carry the facts VerifyTxnVerbose reads (from the harness's own bookkeeping of
    the chain it built) and are answered by the MODEL `Sky.C28.verifyTxnVerbose`.
-/
import Sky.Prim.DrvLib
import Sky.C28.Model
namespace Sky.C28.Drv
open Sky Sky.Drv Sky.C28

def kv (toks : List String) (k : String) : Option String :=
  toks.findSome? fun t =>
    let pre := k ++ "="
    if t.startsWith pre then some (t.drop pre.length).toString else none

def inStatus? : String → Option InStatus
  | "U" => some .unspent | "S" => some .spent | "X" => some .unknown | _ => none

def errClass? : String → Option (Option ErrClass)
  | "ok" => some none | "user" => some (some .user) | "soft" => some (some .soft)
  | "hard" => some (some .hard) | "other" => some (some .other) | _ => none

def optNat? (s : String) : Option (Option Nat) :=
  if s == "-" then some none else s.toNat?.map some

def showErr : Option ErrClass → String
  | none => "none" | some .user => "user" | some .soft => "soft" | some .hard => "hard" | some .other => "other"

def showOut : Res VOut → String
  | .ok o => "confirmed=" ++ (if o.confirmed then "1" else "0") ++ " err=" ++ showErr o.err ++
      " inputs=" ++ (if o.inputs then "1" else "0")
  | .err _ => "err"
  | .panic _ => "panic"

def verifyAnswer (toks : List String) : Option String := do
  let insS ← kv toks "ins"
  let ins ← (if insS == "-" then [] else insS.splitOn ",").mapM inStatus?
  let hist ← optNat? (← kv toks "hist")
  let prev ← optNat? (← kv toks "prev")
  let head ← (← kv toks "head").toNat?
  let checks ← errClass? (← kv toks "checks")
  let v : VIn := {
    ins := ins
    inHistory := hist
    prevBlockTime := prev
    headTime := head
    checks := checks
    inputsErr := false }
  pure (showOut (verifyTxnVerbose v))

def step (op impl : String) : String × Verdict :=
  let toks := op.splitOn " "
  match toks.head? with
  | some "reset" => ("ok", .unknown)
  | some "block" => (if impl.startsWith "ok " || impl.startsWith "err " then impl else "ok <seq>", .unknown)
  | some "http" =>
    if impl.startsWith "ok " then (impl, .hold) else ("well-formed-response", .fail)
  | some "verify" =>
    match verifyAnswer toks with
    | some s => (s, if impl.startsWith "panic" then .fail else .hold)
    | none => ("bad-op", .unknown)
  | _ => ("bad-op", .unknown)

end Sky.C28.Drv

def main : IO Unit := Sky.Drv.loopPure Sky.C28.Drv.step
