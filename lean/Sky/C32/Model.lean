/-
  Sky.C32.Model — small-step model of the connection pool's strand protocol
  (src/daemon/strand/strand.go `Strand`, src/daemon/gnet/pool.go `processStrand`, `strand`,
  `Shutdown`, `newConnection`, `disconnect`, `disconnectAll`).  Core Lean only.

  Threads: an UNBOUNDED set of client calls (each `pool.strand(name, f)`), the strand goroutine
  (`processStrand`), and the goroutine that calls `Shutdown`.  Shared state: `quit` (closed or not),
  the unbuffered request channel (a rendezvous: `recv`), the two pool maps `pool.pool` (id → addr)
  and `pool.addresses` (addr → id) with the id counter.  A request's function is one of
  newConnection(addr) / disconnect(addr) / a read-only function; its effect is applied when it
  finishes; between `enter` and `exit` any number of observable map accesses may be reported.

  Every transition carries an optional OBSERVATION (the events the harness can see in the real
  system: log lines of strand/gnet, callbacks, API returns); unobservable steps are τ (`none`):
  `close(quit)` itself and the exit of `processStrand`.

  What is NOT modelled (C32 is partial, see DESIGN §7): the Go memory model and the race detector's
  verdict; variables captured by a request's closure (a client that returns on `quit` while its
  function still runs); per-connection goroutines, sockets, `wg`/`done`; blocking in `net.Conn.Close`.
-/
namespace Sky.C32

inductive Actor | strandG | shutG | other
deriving DecidableEq, Repr

/-- what a request's function does to the pool maps -/
inductive Req
  | newConn (addr : Nat)
  | disconnect (addr : Nat)
  | read
deriving DecidableEq, Repr

inductive CPhase | sending | waiting | retOk | retClosed
deriving DecidableEq, Repr

inductive SPhase | idle | running (r : Nat) | exited
deriving DecidableEq, Repr

/-- Shutdown: not called / "Shutdown called" logged / quit closed, waiting for strandDone /
received strandDone, cleaning up (disconnectAll) / returned -/
inductive HPhase | none | called | quitSet | cleanup | returned
deriving DecidableEq, Repr

structure St where
  quit : Bool
  strand : SPhase
  shut : HPhase
  /-- client calls, indexed by request id: phase and what the function does -/
  clients : List (CPhase × Req)
  /-- requests whose function ran to completion -/
  finished : List Nat
  /-- `pool.pool` : id ↦ addr -/
  conns : List (Nat × Nat)
  /-- `pool.addresses` : addr ↦ id -/
  addrs : List (Nat × Nat)
  connID : Nat
deriving Repr

def St.init : St := ⟨false, .idle, .none, [], [], [], [], 0⟩

inductive Obs
  | call (r : Nat)
  | enter (r : Nat) (a : Actor)
  | access (a : Actor)
  | exit (r : Nat) (a : Actor)
  | ret (r : Nat) (closed : Bool)
  | shutCalled
  | sawDone
  | returned (left : Nat)
deriving DecidableEq, Repr

/-- `newConnection` (the part that touches the maps): refuse a known address, else take the next id -/
def applyReq (s : St) : Req → St
  | .newConn a =>
    if (s.addrs.lookup a).isSome then s
    else { s with connID := s.connID + 1, conns := (s.connID + 1, a) :: s.conns, addrs := (a, s.connID + 1) :: s.addrs }
  | .disconnect a =>
    match s.addrs.lookup a with
    | none => s
    | some id => { s with conns := s.conns.filter (fun p => p.1 ≠ id), addrs := s.addrs.filter (fun p => p.1 ≠ a) }
  | .read => s

/-- `disconnectAll`: for every entry of `pool.pool` (snapshot), `disconnect(conn.Addr())` -/
def disconnectAll (s : St) : St :=
  s.conns.foldl (fun s p => applyReq s (.disconnect p.2)) s

def setPhase (cs : List (CPhase × Req)) (r : Nat) (p : CPhase) : List (CPhase × Req) :=
  cs.mapIdx (fun i c => if i = r then (p, c.2) else c)

def phaseOf (s : St) (r : Nat) : Option CPhase := (s.clients[r]?).map (·.1)

/-- the transition relation, with the observation each step produces -/
inductive Step : St → Option Obs → St → Prop
  /-- a goroutine starts `pool.strand(name, f)` -/
  | spawn (s : St) (q : Req) :
      Step s (some (.call s.clients.length)) { s with clients := s.clients ++ [(.sending, q)] }
  /-- rendezvous on the request channel: `c <- req` / `req := <-pool.reqC` (Go may pick this case even if quit is closed) -/
  | recv (s : St) (r : Nat) (hc : phaseOf s r = some .sending) (hs : s.strand = .idle) :
      Step s (some (.enter r .strandG)) { s with strand := .running r, clients := setPhase s.clients r .waiting }
  /-- the running function touches a pool map -/
  | accessS (s : St) (r : Nat) (hs : s.strand = .running r) :
      Step s (some (.access .strandG)) s
  /-- the function returns: its effect on the maps is in place, `done` is closed -/
  | finish (s : St) (r : Nat) (q : Req) (hs : s.strand = .running r) (hq : (s.clients[r]?).map (·.2) = some q) :
      Step s (some (.exit r .strandG)) { applyReq s q with strand := .idle, finished := r :: s.finished }
  /-- `case <-done: return err` -/
  | retOk (s : St) (r : Nat) (hc : phaseOf s r = some .waiting) (hf : r ∈ s.finished) :
      Step s (some (.ret r false)) { s with clients := setPhase s.clients r .retOk }
  /-- `case <-quit: return quitErr` in either select loop -/
  | retClosed (s : St) (r : Nat) (hc : phaseOf s r = some .sending ∨ phaseOf s r = some .waiting) (hq : s.quit = true) :
      Step s (some (.ret r true)) { s with clients := setPhase s.clients r .retClosed }
  /-- `processStrand`: `case <-pool.quit: return` (+ deferred `close(strandDone)`) -/
  | strandExit (s : St) (hs : s.strand = .idle) (hq : s.quit = true) :
      Step s none { s with strand := .exited }
  | shutCall (s : St) (h : s.shut = .none) :
      Step s (some .shutCalled) { s with shut := .called }
  /-- `close(pool.quit)` -/
  | closeQuit (s : St) (h : s.shut = .called) :
      Step s none { s with shut := .quitSet, quit := true }
  /-- `<-pool.strandDone` -/
  | sawDone (s : St) (h : s.shut = .quitSet) (hs : s.strand = .exited) :
      Step s (some .sawDone) { s with shut := .cleanup }
  /-- disconnectAll touches a pool map -/
  | accessH (s : St) (h : s.shut = .cleanup) :
      Step s (some (.access .shutG)) s
  /-- `disconnectAll()` done; Shutdown returns -/
  | shutReturn (s : St) (h : s.shut = .cleanup) :
      Step s (some (.returned ((disconnectAll s).conns.length + (disconnectAll s).addrs.length)))
        { disconnectAll s with shut := .returned }

/-- executions: list of observations produced (τ steps leave no trace) -/
inductive Exec : St → List Obs → St → Prop
  | nil (s : St) : Exec s [] s
  | tau {s s' s'' : St} {tr : List Obs} : Exec s tr s' → Step s' none s'' → Exec s tr s''
  | obs {s s' s'' : St} {tr : List Obs} {o : Obs} : Exec s tr s' → Step s' (some o) s'' → Exec s (tr ++ [o]) s''

def Reach (s : St) : Prop := ∃ tr, Exec St.init tr s

/-! ### the monitor: accepts exactly the observation sequences the driver lets through -/

inductive MPhase | none | called | cleanup | returned
deriving DecidableEq, Repr

structure Mon where
  running : Option Nat := none
  /-- called, not yet entered and not yet returned -/
  pending : List Nat := []
  /-- entered, not yet returned -/
  entered : List Nat := []
  finished : List Nat := []
  /-- every request id seen in a `call` -/
  seen : List Nat := []
  shut : MPhase := .none
deriving Repr

def Mon.step (m : Mon) : Obs → Option Mon
  | .call r => if r ∈ m.seen then none else some { m with seen := r :: m.seen, pending := r :: m.pending }
  | .enter r a =>
    if a = .strandG ∧ m.running = none ∧ r ∈ m.pending ∧ (m.shut = .none ∨ m.shut = .called) then
      some { m with running := some r, pending := m.pending.erase r, entered := r :: m.entered }
    else none
  | .access a =>
    match a with
    | .strandG => if m.running.isSome then some m else none
    | .shutG => if m.shut = .cleanup then some m else none
    | .other => none
  | .exit r a =>
    if a = .strandG ∧ m.running = some r then some { m with running := none, finished := r :: m.finished } else none
  | .ret r closed =>
    if closed then
      if (r ∈ m.pending ∨ r ∈ m.entered) ∧ m.shut ≠ .none then
        some { m with pending := m.pending.erase r, entered := m.entered.erase r }
      else none
    else
      if r ∈ m.entered ∧ r ∈ m.finished then some { m with entered := m.entered.erase r } else none
  | .shutCalled => if m.shut = .none then some { m with shut := .called } else none
  | .sawDone => if m.shut = .called ∧ m.running = none then some { m with shut := .cleanup } else none
  | .returned n => if m.shut = .cleanup ∧ n = 0 then some { m with shut := .returned } else none

def Mon.run (m : Mon) : List Obs → Option Mon
  | [] => some m
  | o :: os => match m.step o with
    | none => none
    | some m' => Mon.run m' os

/-- index of the first rejected observation (for the driver's message) -/
def Mon.firstReject (m : Mon) : List Obs → Nat → Option Nat
  | [], _ => none
  | o :: os, i => match m.step o with
    | none => some i
    | some m' => Mon.firstReject m' os (i + 1)

end Sky.C32
