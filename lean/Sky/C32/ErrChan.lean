/-
  Sky.C32.ErrChan — the per-connection error channel of ConnectionPool.handleConnection.
  `P` goroutines (readLoop, sendLoop, the receiveMessage loop) each report at most one error on a buffered
  channel of capacity `K`; handleConnection receives at most one report (the `errC` branch of its select; on the
  `quit` branch it receives none) and then waits for all `P` goroutines (`wg.Wait()`), which Run/Shutdown wait for
  in turn.  A goroutine whose send blocks never finishes, so handleConnection, Run and Shutdown would hang.
-/
namespace Sky.C32.ErrChan

structure St where
  /-- goroutines that have not yet finished -/
  live : Nat
  /-- reports sitting in the channel buffer -/
  buffered : Nat
  /-- reports received by handleConnection (0 or 1) -/
  received : Nat
  /-- goroutines that have sent (or been received from) so far -/
  sent : Nat
deriving Repr, DecidableEq

def init (P : Nat) : St := { live := P, buffered := 0, received := 0, sent := 0 }

/-- the steps of the system for capacity `K` -/
inductive Step (K : Nat) : St → St → Prop
  /-- a live goroutine finishes without an error -/
  | finishQuiet (s : St) (h : 0 < s.live) : Step K s { s with live := s.live - 1 }
  /-- a live goroutine reports its error into the buffer (possible only while the buffer has room) and finishes -/
  | report (s : St) (h : 0 < s.live) (room : s.buffered < K) :
      Step K s { s with live := s.live - 1, buffered := s.buffered + 1, sent := s.sent + 1 }
  /-- handleConnection takes the first report out of the buffer (at most once) -/
  | receive (s : St) (h : 0 < s.buffered) (once : s.received = 0) :
      Step K s { s with buffered := s.buffered - 1, received := 1 }

inductive Reach (K P : Nat) : St → Prop
  | init : Reach K P (init P)
  | step {s s' : St} : Reach K P s → Step K s s' → Reach K P s'

/-- every goroutine has either finished or is live; reports in the buffer come from finished goroutines -/
def Inv (P : Nat) (s : St) : Prop := s.buffered + s.live ≤ P ∧ s.received ≤ 1

theorem inv_reach {K P : Nat} {s : St} (h : Reach K P s) : Inv P s := by
  induction h with
  | init => simp [Inv, init]
  | step _ st ih =>
    obtain ⟨h1, h2⟩ := ih
    cases st with
    | finishQuiet h => simp only [Inv] at *; omega
    | report h room => simp only [Inv] at *; omega
    | receive h once => simp only [Inv] at *; omega

/-- **no report ever blocks** when the channel has room for one report per goroutine: in every reachable
state with a live goroutine the buffer has room, so that goroutine can always finish -/
theorem report_never_blocks {K P : Nat} (hK : P ≤ K) {s : St} (h : Reach K P s) (hl : 0 < s.live) :
    s.buffered < K := by
  obtain ⟨h1, _⟩ := inv_reach h
  omega

/-- hence from every reachable state all goroutines finish (`wg.Wait()` returns): there is a run to live = 0,
and no state with a live goroutine is stuck -/
theorem all_finish {K P : Nat} (hK : P ≤ K) {s : St} (h : Reach K P s) :
    ∃ s', Reach K P s' ∧ s'.live = 0 := by
  generalize hn : s.live = n
  induction n generalizing s with
  | zero => exact ⟨s, h, hn⟩
  | succ n ih =>
    have hl : 0 < s.live := by omega
    have room := report_never_blocks hK h hl
    exact ih (Reach.step h (Step.report s hl room)) (by simp only; omega)

/-- with a smaller channel the quit branch can strand a goroutine: all `P` goroutines fail, nothing is received,
the buffer is full and one goroutine is still live with no step available to it but waiting -/
theorem small_channel_can_block : ∃ s, Reach 2 3 s ∧ 0 < s.live ∧ ¬ s.buffered < 2 ∧ s.received = 0 := by
  refine ⟨{ live := 1, buffered := 2, received := 0, sent := 2 }, ?_, by decide, by decide, rfl⟩
  have s0 : Reach 2 3 (init 3) := Reach.init
  have s1 := Reach.step s0 (Step.report (init 3) (by decide) (by decide))
  have s2 := Reach.step s1 (Step.report _ (by decide) (by decide))
  exact s2

end Sky.C32.ErrChan
