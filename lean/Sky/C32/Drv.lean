/-
  C32 driver: parses the event trace of one real workload and runs the monitor `Sky.C32.Mon` on it.
  `Sky.Props.C32.trace_conformance_sound` proves that the monitor accepts every trace of the model, so a
  rejected trace is not a run of the model → verdict `fail`.  An accepted trace is echoed (= agreement).
-/
import Sky.Prim.DrvLib
import Sky.C32.Model
import Sky.Gen.C32Facts
namespace Sky.C32
open Sky Sky.Drv

def actor? : String → Option Actor
  | "s" => some .strandG | "h" => some .shutG | "o" => some .other | _ => none

def parseEv (t : String) : Option Obs :=
  if t == "S" then some .shutCalled
  else if t == "D" then some .sawDone
  else
    let body := (t.drop 1).toString
    match t.take 1 |>.toString with
    | "c" => body.toNat?.map Obs.call
    | "a" => (actor? body).map Obs.access
    | "R" => body.toNat?.map Obs.returned
    | "e" => match body.splitOn "." with
      | [k, a] => do let k ← k.toNat?; let a ← actor? a; pure (.enter k a)
      | _ => none
    | "x" => match body.splitOn "." with
      | [k, a] => do let k ← k.toNat?; let a ← actor? a; pure (.exit k a)
      | _ => none
    | "r" => match body.splitOn "." with
      | [k, c] => do let k ← k.toNat?; pure (.ret k (c == "1"))
      | _ => none
    | _ => none

def raceSigs (impl : String) : List String :=
  match (impl.splitOn "|").find? (·.startsWith "sig=") with
  | none => []
  | some f => ((f.drop 4).toString.splitOn ",").filter (fun s => s ≠ "-" ∧ s ≠ "")

/-- a race-detector report is a POOL-MAP race — a violation of the mutual exclusion the protocol provides — when
the first non-runtime frame (`file:function`) of either access is one of the regenerated `directAccessors`
(methods that touch the pool maps outside a strand closure) -/
def mapRaces (impl : String) : List String :=
  (raceSigs impl).filter (fun sg => (sg.splitOn "~").any (fun fr =>
    let fn := ((fr.splitOn ":").getLast?).getD ""
    let pre := "gnet.(*ConnectionPool)."
    fn.startsWith pre && Sky.Gen.C32Facts.directAccessors.contains (fn.drop pre.length).toString))

def stepLine (_ : Unit) (op impl : String) : Unit × String × Verdict :=
  -- calls queued on the strand for more than a second when Shutdown comes: all of them return and Shutdown returns
  -- (strand model: every blocking step of Strand() also watches quit — the regenerated fact `strandWatchesQuit`)
  if op.startsWith "runs " then
    let k := ((op.splitOn " ").getD 2 "0")
    let want := "S|calls=" ++ k ++ "/" ++ k ++ "|shutdown=ok"
    if impl == want then ((), impl, .unknown)
    else ((), want ++ " [property: Shutdown terminates and every queued pool call returns]", .fail) else
  if !(op.startsWith "run ") && !(op.startsWith "runq ") && !(op.startsWith "runb ") then ((), "bad-op", .unknown) else
  if !(mapRaces impl).isEmpty then
    ((), "rejected: data race on the pool maps reported by the race detector: " ++ ";".intercalate (mapRaces impl), .fail) else
  -- C32 says "never race on shared state": every other report of the race detector is a violation too (outside the
  -- model; the orchestrator prints KNOWN-FINDING for the listed ones)
  if !(raceSigs impl).isEmpty then
    ((), "rejected: data race (outside the modelled maps) reported by the race detector: " ++ ";".intercalate (raceSigs impl), .fail) else
  let trace := (impl.splitOn "|").headD ""
  let toks := (trace.splitOn " ").filter (· ≠ "")
  match toks.mapM parseEv with
  | none =>
    let bad := (toks.find? (fun t => (parseEv t).isNone)).getD "?"
    ((), "rejected: event " ++ bad ++ " is not an observation of the model", .fail)
  | some evs =>
    match Mon.firstReject {} evs 0 with
    | some i => ((), "rejected at event " ++ toString i ++ " (" ++ (toks.getD i "?") ++ "): not a run of the model", .fail)
    | none =>
      -- Shutdown must have returned (the harness waits for it; `H` = it did not within 10 s)
      if evs.any (fun e => match e with | .returned _ => true | _ => false) then ((), impl, .unknown)
      else ((), "rejected: Shutdown did not return", .fail)

end Sky.C32

def main : IO Unit := Sky.Drv.loop Sky.C32.stepLine ()
