/-
  Sky.C32.Sim — the monitor accepts the observation sequence of every execution of the model
  (so a real trace the monitor rejects is NOT a run of the model).  Core Lean only.
-/
import Sky.C32.Inv
set_option linter.unusedSimpArgs false
set_option linter.unusedVariables false
namespace Sky.C32

def absShut : HPhase → MPhase
  | .none => .none | .called => .called | .quitSet => .called | .cleanup => .cleanup | .returned => .returned

def absRun : SPhase → Option Nat
  | .running r => some r
  | _ => none

/-- the monitor state is the observable abstraction of the model state -/
structure Sim (m : Mon) (s : St) : Prop where
  run : m.running = absRun s.strand
  pend : ∀ r, r ∈ m.pending ↔ phaseOf s r = some .sending
  ent : ∀ r, r ∈ m.entered ↔ phaseOf s r = some .waiting
  fin : ∀ r, r ∈ m.finished ↔ r ∈ s.finished
  seen : ∀ r, r ∈ m.seen ↔ r < s.clients.length
  shut : m.shut = absShut s.shut
  ndP : m.pending.Nodup
  ndE : m.entered.Nodup

theorem sim_init : Sim {} St.init := by
  refine ⟨rfl, ?_, ?_, ?_, ?_, rfl, List.nodup_nil, List.nodup_nil⟩
  · intro r; simp [phaseOf, St.init]
  · intro r; simp [phaseOf, St.init]
  · intro r; simp [St.init]
  · intro r; simp [St.init]

theorem mem_erase_nodup {l : List Nat} (nd : l.Nodup) (a b : Nat) : b ∈ l.erase a ↔ b ≠ a ∧ b ∈ l :=
  nd.mem_erase_iff

/-- silent steps do not change what the monitor sees -/
theorem sim_tau {m : Mon} {s s' : St} (hi : Inv s) (h : Sim m s) (st : Step s none s') : Sim m s' := by
  cases st with
  | strandExit hs hq =>
    exact ⟨by rw [h.run, hs]; rfl, h.pend, h.ent, h.fin, h.seen, h.shut, h.ndP, h.ndE⟩
  | closeQuit hc =>
    exact ⟨h.run, h.pend, h.ent, h.fin, h.seen, by rw [h.shut, hc]; rfl, h.ndP, h.ndE⟩

/-- every observable step is accepted, and the abstraction is maintained -/
theorem sim_obs {m : Mon} {s s' : St} {o : Obs} (hi : Inv s) (h : Sim m s) (st : Step s (some o) s') :
    ∃ m', m.step o = some m' ∧ Sim m' s' := by
  cases st with
  | spawn q =>
    have ph := fun r' => phaseOf_spawn s q r' { s with clients := s.clients ++ [(.sending, q)] } rfl
    have hns : s.clients.length ∉ m.seen := by
      intro hm; have := (h.seen _).1 hm; omega
    refine ⟨{ m with seen := s.clients.length :: m.seen, pending := s.clients.length :: m.pending }, by simp [Mon.step, hns], ?_⟩
    refine ⟨h.run, ?_, ?_, h.fin, ?_, h.shut, ?_, h.ndE⟩
    · intro r
      rw [ph r]
      by_cases e : r = s.clients.length
      · subst e; simp
      · simp only [e, if_false, List.mem_cons, false_or]; exact h.pend r
    · intro r
      rw [ph r]
      by_cases e : r = s.clients.length
      · subst e
        simp only [if_true]
        constructor
        · intro hm
          have := phaseOf_lt ((h.ent _).1 hm); omega
        · intro hh; cases hh
      · simp only [e, if_false]; exact h.ent r
    · intro r
      simp only [List.mem_cons, List.length_append, List.length_cons, List.length_nil]
      rw [h.seen r]; omega
    · refine List.nodup_cons.2 ⟨?_, h.ndP⟩
      intro hm
      have := phaseOf_lt ((h.pend _).1 hm); omega
  | recv r hc hs =>
    have ph := fun r' => phaseOf_setPhase s r r' .waiting { s with strand := .running r, clients := setPhase s.clients r .waiting } rfl
    have hrun : m.running = none := by rw [h.run, hs]; rfl
    have hpend : r ∈ m.pending := (h.pend r).2 hc
    have hshut : m.shut = .none ∨ m.shut = .called := by
      rw [h.shut]
      cases hsh : s.shut with
      | none => exact Or.inl rfl
      | called => exact Or.inr rfl
      | quitSet => exact Or.inr rfl
      | cleanup => have := hi.cleanupExited (Or.inl hsh); rw [hs] at this; cases this
      | returned => have := hi.cleanupExited (Or.inr hsh); rw [hs] at this; cases this
    refine ⟨{ m with running := some r, pending := m.pending.erase r, entered := r :: m.entered },
      by simp [Mon.step, hrun, hpend, hshut], ?_⟩
    refine ⟨rfl, ?_, ?_, h.fin, ?_, h.shut, h.ndP.erase r, ?_⟩
    · intro r'
      rw [ph r', mem_erase_nodup h.ndP]
      by_cases e : r' = r
      · subst e; simp [hc]
      · simp only [e, if_false, ne_eq, not_false_eq_true, true_and]; exact h.pend r'
    · intro r'
      rw [ph r']
      by_cases e : r' = r
      · subst e; simp [hc]
      · simp only [e, if_false, List.mem_cons, false_or]; exact h.ent r'
    · intro r'
      show r' ∈ m.seen ↔ r' < (setPhase s.clients r .waiting).length
      rw [length_setPhase]; exact h.seen r'
    · refine List.nodup_cons.2 ⟨?_, h.ndE⟩
      intro hm
      have := (h.ent r).1 hm
      rw [hc] at this; cases this
  | accessS r hs =>
    have : m.running.isSome = true := by rw [h.run, hs]; rfl
    exact ⟨m, by simp [Mon.step, this], h⟩
  | finish r q hs hq =>
    have fr := applyReq_frame s q
    have hrun : m.running = some r := by rw [h.run, hs]; rfl
    refine ⟨{ m with running := none, finished := r :: m.finished }, by simp [Mon.step, hrun], ?_⟩
    have phs : ∀ r', phaseOf { applyReq s q with strand := .idle, finished := r :: s.finished } r' = phaseOf s r' := by
      intro r'; unfold phaseOf; simp only [fr.2.2.2.1]
    refine ⟨rfl, ?_, ?_, ?_, ?_, ?_, h.ndP, h.ndE⟩
    · intro r'; rw [phs]; exact h.pend r'
    · intro r'; rw [phs]; exact h.ent r'
    · intro r'; simp only [List.mem_cons]; rw [h.fin r']
    · intro r'
      show r' ∈ m.seen ↔ r' < (applyReq s q).clients.length
      rw [fr.2.2.2.1]; exact h.seen r'
    · show m.shut = absShut (applyReq s q).shut
      rw [fr.2.2.1]; exact h.shut
  | retOk r hc hf =>
    have ph := fun r' => phaseOf_setPhase s r r' .retOk { s with clients := setPhase s.clients r .retOk } rfl
    have he : r ∈ m.entered := (h.ent r).2 hc
    have hfin : r ∈ m.finished := (h.fin r).2 hf
    refine ⟨{ m with entered := m.entered.erase r }, by simp [Mon.step, he, hfin], ?_⟩
    refine ⟨h.run, ?_, ?_, h.fin, ?_, h.shut, h.ndP, h.ndE.erase r⟩
    · intro r'
      rw [ph r']
      by_cases e : r' = r
      · subst e
        simp only [if_true, hc, Option.map_some]
        constructor
        · intro hm; have := (h.pend _).1 hm; rw [hc] at this; cases this
        · intro hh; cases hh
      · simp only [e, if_false]; exact h.pend r'
    · intro r'
      rw [ph r', mem_erase_nodup h.ndE]
      by_cases e : r' = r
      · subst e; simp [hc]
      · simp only [e, if_false, ne_eq, not_false_eq_true, true_and]; exact h.ent r'
    · intro r'
      show r' ∈ m.seen ↔ r' < (setPhase s.clients r .retOk).length
      rw [length_setPhase]; exact h.seen r'
  | retClosed r hc hq =>
    have ph := fun r' => phaseOf_setPhase s r r' .retClosed { s with clients := setPhase s.clients r .retClosed } rfl
    have hmem : r ∈ m.pending ∨ r ∈ m.entered := by
      rcases hc with e | e
      · exact Or.inl ((h.pend r).2 e)
      · exact Or.inr ((h.ent r).2 e)
    have hshut : m.shut ≠ .none := by
      rw [h.shut]
      rcases hi.quitIff.1 hq with e | e | e <;> rw [e] <;> simp [absShut]
    have hsome : (phaseOf s r).map (fun _ => CPhase.retClosed) = some .retClosed := by
      rcases hc with e | e <;> simp [e]
    refine ⟨{ m with pending := m.pending.erase r, entered := m.entered.erase r }, by simp [Mon.step, hmem, hshut], ?_⟩
    refine ⟨h.run, ?_, ?_, h.fin, ?_, h.shut, h.ndP.erase r, h.ndE.erase r⟩
    · intro r'
      rw [ph r', mem_erase_nodup h.ndP]
      by_cases e : r' = r
      · subst e; simp [hsome]
      · simp only [e, if_false, ne_eq, not_false_eq_true, true_and]; exact h.pend r'
    · intro r'
      rw [ph r', mem_erase_nodup h.ndE]
      by_cases e : r' = r
      · subst e; simp [hsome]
      · simp only [e, if_false, ne_eq, not_false_eq_true, true_and]; exact h.ent r'
    · intro r'
      show r' ∈ m.seen ↔ r' < (setPhase s.clients r .retClosed).length
      rw [length_setPhase]; exact h.seen r'
  | shutCall hn =>
    have : m.shut = .none := by rw [h.shut, hn]; rfl
    exact ⟨{ m with shut := .called }, by simp [Mon.step, this],
      ⟨h.run, h.pend, h.ent, h.fin, h.seen, rfl, h.ndP, h.ndE⟩⟩
  | sawDone hq hs =>
    have h1 : m.shut = .called := by rw [h.shut, hq]; rfl
    have h2 : m.running = none := by rw [h.run, hs]; rfl
    exact ⟨{ m with shut := .cleanup }, by simp [Mon.step, h1, h2],
      ⟨h.run, h.pend, h.ent, h.fin, h.seen, rfl, h.ndP, h.ndE⟩⟩
  | accessH hc =>
    have : m.shut = .cleanup := by rw [h.shut, hc]; rfl
    exact ⟨m, by simp [Mon.step, this], h⟩
  | shutReturn hc =>
    have fr := disconnectAll_frame s
    have hemp := disconnectAll_empty hi.consistent
    have h1 : m.shut = .cleanup := by rw [h.shut, hc]; rfl
    refine ⟨{ m with shut := .returned }, by simp [Mon.step, h1, hemp.1, hemp.2], ?_⟩
    have phs : ∀ r', phaseOf { disconnectAll s with shut := .returned } r' = phaseOf s r' := by
      intro r'; unfold phaseOf; simp only [fr.2.2.2.1]
    refine ⟨?_, ?_, ?_, ?_, ?_, rfl, h.ndP, h.ndE⟩
    · show m.running = absRun (disconnectAll s).strand
      rw [fr.2.1]; exact h.run
    · intro r'; rw [phs]; exact h.pend r'
    · intro r'; rw [phs]; exact h.ent r'
    · intro r'
      show r' ∈ m.finished ↔ r' ∈ (disconnectAll s).finished
      rw [fr.2.2.2.2]; exact h.fin r'
    · intro r'
      show r' ∈ m.seen ↔ r' < (disconnectAll s).clients.length
      rw [fr.2.2.2.1]; exact h.seen r'

theorem run_append (m : Mon) (tr : List Obs) (o : Obs) :
    Mon.run m (tr ++ [o]) = (Mon.run m tr).bind (fun m' => m'.step o) := by
  induction tr generalizing m with
  | nil =>
    cases h : m.step o <;> simp [Mon.run, h]
  | cons x xs ih =>
    simp only [List.cons_append, Mon.run]
    cases m.step x with
    | none => rfl
    | some m' => exact ih m'

/-- **soundness of the trace check**: the monitor accepts every trace of the model -/
theorem mon_accepts {tr : List Obs} {s : St} (e : Exec St.init tr s) : ∃ m, Mon.run {} tr = some m ∧ Sim m s := by
  have key : ∀ {s0 tr s}, Exec s0 tr s → s0 = St.init → ∃ m, Mon.run {} tr = some m ∧ Sim m s := by
    intro s0 tr s e
    induction e with
    | nil => intro h; subst h; exact ⟨{}, rfl, sim_init⟩
    | tau e' st ih =>
      intro h
      obtain ⟨m, hm, hs⟩ := ih h
      exact ⟨m, hm, sim_tau (inv_exec (h ▸ inv_init) e') hs st⟩
    | obs e' st ih =>
      intro h
      obtain ⟨m, hm, hs⟩ := ih h
      obtain ⟨m', hm', hs'⟩ := sim_obs (inv_exec (h ▸ inv_init) e') hs st
      exact ⟨m', by rw [run_append, hm]; exact hm', hs'⟩
  exact key e rfl

end Sky.C32
