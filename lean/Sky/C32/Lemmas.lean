/-
  Sky.C32.Lemmas — the pool maps stay consistent under request functions, and `disconnectAll`
  empties consistent maps.  Core Lean only.
-/
import Sky.C32.Model
set_option linter.unusedSimpArgs false
set_option linter.unusedVariables false
namespace Sky.C32

/-- `pool.pool` and `pool.addresses` describe the same connections -/
structure Consistent (s : St) : Prop where
  k1 : ∀ p ∈ s.conns, s.addrs.lookup p.2 = some p.1
  k2 : ∀ q ∈ s.addrs, (q.2, q.1) ∈ s.conns
  k3 : s.conns.Pairwise (fun p q => p.1 ≠ q.1)
  k4 : ∀ p ∈ s.conns, p.1 ≤ s.connID

theorem lookup_filter_ne (l : List (Nat × Nat)) (a k : Nat) (h : k ≠ a) :
    (l.filter (fun p => p.1 ≠ a)).lookup k = l.lookup k := by
  induction l with
  | nil => rfl
  | cons p l ih =>
    obtain ⟨x, y⟩ := p
    rw [List.filter_cons]
    by_cases hx : x = a
    · subst hx
      have hkx : (k == x) = false := by simpa using h
      have hd : decide ((x, y).1 ≠ x) = false := by simp
      rw [hd]
      simp only [Bool.false_eq_true, if_false, List.lookup_cons, hkx]
      exact ih
    · have hd : decide ((x, y).1 ≠ a) = true := by simp [hx]
      rw [hd]
      simp only [if_true, List.lookup_cons]
      split
      · rfl
      · exact ih

theorem mem_of_lookup {l : List (Nat × Nat)} {k v : Nat} (h : l.lookup k = some v) : (k, v) ∈ l := by
  induction l with
  | nil => simp at h
  | cons p l ih =>
    obtain ⟨x, y⟩ := p
    by_cases hk : k = x
    · subst hk
      simp [List.lookup_cons] at h
      subst h; simp
    · have : (k == x) = false := by simpa using hk
      simp only [List.lookup_cons, this] at h
      exact List.mem_cons_of_mem _ (ih h)

theorem id_uniq {l : List (Nat × Nat)} (k3 : l.Pairwise (fun p q => p.1 ≠ q.1)) {x y : Nat × Nat}
    (hx : x ∈ l) (hy : y ∈ l) (e : x.1 = y.1) : x = y := by
  induction l with
  | nil => cases hx
  | cons c cs ih =>
    simp only [List.pairwise_cons] at k3
    rcases List.mem_cons.1 hx with rfl | hx' <;> rcases List.mem_cons.1 hy with rfl | hy'
    · rfl
    · exact absurd e (k3.1 _ hy')
    · exact absurd e.symm (k3.1 _ hx')
    · exact ih k3.2 hx' hy'

theorem consistent_init : Consistent St.init :=
  ⟨by intro p hp; simp [St.init] at hp, by intro p hp; simp [St.init] at hp, by simp [St.init], by intro p hp; simp [St.init] at hp⟩

theorem consistent_apply {s : St} (h : Consistent s) (q : Req) : Consistent (applyReq s q) := by
  cases q with
  | read => exact h
  | newConn a =>
    unfold applyReq
    cases hl : s.addrs.lookup a with
    | some v => simpa [hl] using h
    | none =>
      simp only [hl, Option.isSome_none, Bool.false_eq_true, if_false]
      refine ⟨?_, ?_, ?_, ?_⟩
      · intro p hp
        rcases List.mem_cons.1 hp with rfl | hp
        · simp [List.lookup_cons]
        · have h1 := h.k1 p hp
          have hne : p.2 ≠ a := by
            intro e; rw [e, hl] at h1; cases h1
          have : (p.2 == a) = false := by simpa using hne
          simp only [List.lookup_cons, this]; exact h1
      · intro q hq
        rcases List.mem_cons.1 hq with rfl | hq
        · exact List.mem_cons_self
        · exact List.mem_cons_of_mem _ (h.k2 q hq)
      · simp only [List.pairwise_cons]
        refine ⟨?_, h.k3⟩
        intro p hp
        have := h.k4 p hp
        show s.connID + 1 ≠ p.1
        omega
      · intro p hp
        rcases List.mem_cons.1 hp with rfl | hp
        · exact Nat.le_refl _
        · have := h.k4 p hp; simp only; omega
  | disconnect a =>
    unfold applyReq
    cases hl : s.addrs.lookup a with
    | none => simpa [hl] using h
    | some id =>
      simp only [hl]
      have hmem : (a, id) ∈ s.addrs := mem_of_lookup hl
      have hconn : (id, a) ∈ s.conns := h.k2 _ hmem
      refine ⟨?_, ?_, ?_, ?_⟩
      · intro p hp
        have ⟨hp1, hp2⟩ := List.mem_filter.1 hp
        have hp2 : p.1 ≠ id := by simpa using hp2
        have h1 := h.k1 p hp1
        have hne : p.2 ≠ a := by
          intro e; rw [e, hl] at h1; exact hp2 (Option.some.inj h1).symm
        simp only
        rw [lookup_filter_ne _ _ _ hne]; exact h1
      · intro q hq
        have ⟨hq1, hq2⟩ := List.mem_filter.1 hq
        have hq2 : q.1 ≠ a := by simpa using hq2
        have h2 := h.k2 q hq1
        refine List.mem_filter.2 ⟨h2, ?_⟩
        simp only [ne_eq, decide_eq_true_eq]
        intro e
        -- (q.2, q.1) and (id, a) have the same id ⇒ same entry ⇒ q.1 = a
        have : (q.2, q.1) = (id, a) := id_uniq h.k3 h2 hconn e
        exact hq2 (by simpa using congrArg Prod.snd this)
      · exact List.Pairwise.sublist List.filter_sublist h.k3
      · intro p hp
        exact h.k4 p (List.mem_filter.1 hp).1

/-- folding `disconnect` over a list that covers all connections leaves no connection -/
theorem fold_disconnect_empty : ∀ (l : List (Nat × Nat)) (s : St), Consistent s → (∀ p ∈ s.conns, p ∈ l) →
    (l.foldl (fun s p => applyReq s (.disconnect p.2)) s).conns = [] ∧
    (l.foldl (fun s p => applyReq s (.disconnect p.2)) s).addrs = [] ∧
    Consistent (l.foldl (fun s p => applyReq s (.disconnect p.2)) s)
  | [], s, h, hsub => by
    have hc : s.conns = [] := by
      cases hcs : s.conns with
      | nil => rfl
      | cons p ps => exact absurd (hsub p (by rw [hcs]; exact List.mem_cons_self)) (by simp)
    have ha : s.addrs = [] := by
      cases has : s.addrs with
      | nil => rfl
      | cons q qs =>
        have := h.k2 q (by rw [has]; exact List.mem_cons_self)
        rw [hc] at this; cases this
    exact ⟨hc, ha, h⟩
  | p :: l, s, h, hsub => by
    simp only [List.foldl_cons]
    apply fold_disconnect_empty l _ (consistent_apply h (.disconnect p.2))
    intro c hc
    -- c survived `disconnect p.2`, so c ≠ p
    have hc0 : c ∈ s.conns := by
      unfold applyReq at hc
      cases hl : s.addrs.lookup p.2 with
      | none => simpa [hl] using hc
      | some id => simp only [hl] at hc; exact (List.mem_filter.1 hc).1
    rcases List.mem_cons.1 (hsub c hc0) with rfl | hcl
    · exfalso
      have h1 := h.k1 c hc0
      unfold applyReq at hc
      simp only [h1] at hc
      have := (List.mem_filter.1 hc).2
      simp at this
    · exact hcl

theorem disconnectAll_empty {s : St} (h : Consistent s) :
    (disconnectAll s).conns = [] ∧ (disconnectAll s).addrs = [] :=
  let r := fold_disconnect_empty s.conns s h (fun p hp => hp)
  ⟨r.1, r.2.1⟩

/-- request functions and disconnectAll only touch the maps and the id counter -/
theorem applyReq_frame (s : St) (q : Req) :
    (applyReq s q).quit = s.quit ∧ (applyReq s q).strand = s.strand ∧ (applyReq s q).shut = s.shut ∧
    (applyReq s q).clients = s.clients ∧ (applyReq s q).finished = s.finished := by
  cases q with
  | newConn a => by_cases h : (s.addrs.lookup a).isSome = true <;> simp [applyReq, h]
  | disconnect a => cases h : s.addrs.lookup a <;> simp [applyReq, h]
  | read => simp [applyReq]

theorem fold_frame : ∀ (l : List (Nat × Nat)) (s : St),
    (l.foldl (fun s p => applyReq s (.disconnect p.2)) s).quit = s.quit ∧
    (l.foldl (fun s p => applyReq s (.disconnect p.2)) s).strand = s.strand ∧
    (l.foldl (fun s p => applyReq s (.disconnect p.2)) s).shut = s.shut ∧
    (l.foldl (fun s p => applyReq s (.disconnect p.2)) s).clients = s.clients ∧
    (l.foldl (fun s p => applyReq s (.disconnect p.2)) s).finished = s.finished
  | [], s => by simp
  | p :: l, s => by
    simp only [List.foldl_cons]
    have h1 := fold_frame l (applyReq s (.disconnect p.2))
    have h2 := applyReq_frame s (.disconnect p.2)
    exact ⟨h1.1.trans h2.1, h1.2.1.trans h2.2.1, h1.2.2.1.trans h2.2.2.1, h1.2.2.2.1.trans h2.2.2.2.1,
      h1.2.2.2.2.trans h2.2.2.2.2⟩

theorem disconnectAll_frame (s : St) :
    (disconnectAll s).quit = s.quit ∧ (disconnectAll s).strand = s.strand ∧ (disconnectAll s).shut = s.shut ∧
    (disconnectAll s).clients = s.clients ∧ (disconnectAll s).finished = s.finished :=
  fold_frame s.conns s

end Sky.C32
