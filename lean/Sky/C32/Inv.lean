/-
  Sky.C32.Inv — the protocol invariant of the strand model and its preservation by every step.
  Core Lean only.
-/
import Sky.C32.Lemmas
set_option linter.unusedSimpArgs false
set_option linter.unusedVariables false
namespace Sky.C32

theorem phaseOf_setPhase (s : St) (r r' : Nat) (p : CPhase) (s' : St)
    (hc : s'.clients = setPhase s.clients r p) :
    phaseOf s' r' = if r' = r then (phaseOf s r).map (fun _ => p) else phaseOf s r' := by
  unfold phaseOf
  rw [hc]
  unfold setPhase
  rw [List.getElem?_mapIdx]
  by_cases h : r' = r
  · subst h
    simp only [if_true]
    cases s.clients[r']? <;> simp
  · simp only [h, if_false]
    cases s.clients[r']? <;> simp [h]

theorem reqOf_setPhase (cs : List (CPhase × Req)) (r r' : Nat) (p : CPhase) :
    ((setPhase cs r p)[r']?).map (·.2) = (cs[r']?).map (·.2) := by
  unfold setPhase
  rw [List.getElem?_mapIdx]
  cases cs[r']? with
  | none => rfl
  | some c => by_cases h : r' = r <;> simp [h]

theorem length_setPhase (cs : List (CPhase × Req)) (r : Nat) (p : CPhase) : (setPhase cs r p).length = cs.length := by
  simp [setPhase]

theorem phaseOf_spawn (s : St) (q : Req) (r' : Nat) (s' : St) (hc : s'.clients = s.clients ++ [(.sending, q)]) :
    phaseOf s' r' = if r' = s.clients.length then some .sending else phaseOf s r' := by
  unfold phaseOf
  rw [hc]
  by_cases h : r' = s.clients.length
  · subst h; simp
  · simp only [h, if_false]
    by_cases hlt : r' < s.clients.length
    · rw [List.getElem?_append_left hlt]
    · have : s.clients.length < r' := by omega
      rw [List.getElem?_eq_none (by simp; omega), List.getElem?_eq_none (by omega)]

theorem phaseOf_lt {s : St} {r : Nat} {p : CPhase} (h : phaseOf s r = some p) : r < s.clients.length := by
  unfold phaseOf at h
  cases hg : s.clients[r]? with
  | none => rw [hg] at h; cases h
  | some c => exact (List.getElem?_eq_some_iff.1 hg).1

/-- the protocol invariant -/
structure Inv (s : St) : Prop where
  quitIff : s.quit = true ↔ (s.shut = .quitSet ∨ s.shut = .cleanup ∨ s.shut = .returned)
  exitedQuit : s.strand = .exited → s.quit = true
  /-- once Shutdown is past `<-strandDone`, the strand goroutine has exited -/
  cleanupExited : (s.shut = .cleanup ∨ s.shut = .returned) → s.strand = .exited
  running : ∀ r, s.strand = .running r →
      (phaseOf s r = some .waiting ∨ phaseOf s r = some .retClosed) ∧ r ∉ s.finished
  finishedPhase : ∀ r ∈ s.finished, phaseOf s r = some .waiting ∨ phaseOf s r = some .retOk ∨ phaseOf s r = some .retClosed
  retOkFinished : ∀ r, phaseOf s r = some .retOk → r ∈ s.finished
  retClosedQuit : ∀ r, phaseOf s r = some .retClosed → s.quit = true
  consistent : Consistent s
  returnedEmpty : s.shut = .returned → s.conns = [] ∧ s.addrs = []

theorem inv_init : Inv St.init := by
  refine ⟨(by simp [St.init]), (by simp [St.init]), (by simp [St.init]), (by simp [St.init]), ?_, ?_, ?_, consistent_init, (by simp [St.init])⟩
  · intro r hr; simp [St.init] at hr
  · intro r hr; simp [St.init, phaseOf] at hr
  · intro r hr; simp [St.init, phaseOf] at hr

theorem inv_step {s s' : St} {o : Option Obs} (h : Inv s) (st : Step s o s') : Inv s' := by
  cases st with
  | spawn q =>
    have ph := fun r' => phaseOf_spawn s q r' { s with clients := s.clients ++ [(.sending, q)] } rfl
    refine ⟨h.quitIff, h.exitedQuit, h.cleanupExited, ?_, ?_, ?_, ?_, ⟨h.consistent.k1, h.consistent.k2, h.consistent.k3, h.consistent.k4⟩, h.returnedEmpty⟩
    · intro r hr
      have := h.running r hr
      have hlt : r < s.clients.length := by
        rcases this.1 with e | e <;> exact phaseOf_lt e
      rw [ph r]; simp only [Nat.ne_of_lt hlt, if_false]; exact this
    · intro r hr
      have := h.finishedPhase r hr
      have hlt : r < s.clients.length := by
        rcases this with e | e | e <;> exact phaseOf_lt e
      rw [ph r]; simp only [Nat.ne_of_lt hlt, if_false]; exact this
    · intro r hr
      rw [ph r] at hr
      split at hr
      · cases hr
      · exact h.retOkFinished r hr
    · intro r hr
      rw [ph r] at hr
      split at hr
      · cases hr
      · exact h.retClosedQuit r hr
  | recv r hc hs =>
    have ph := fun r' => phaseOf_setPhase s r r' .waiting { s with strand := .running r, clients := setPhase s.clients r .waiting } rfl
    refine ⟨h.quitIff, (by intro e; cases e), ?_, ?_, ?_, ?_, ?_, ⟨h.consistent.k1, h.consistent.k2, h.consistent.k3, h.consistent.k4⟩, h.returnedEmpty⟩
    · intro hc'
      have := h.cleanupExited hc'
      rw [hs] at this; cases this
    · intro r' hr'
      injection hr' with hr'
      subst hr'
      refine ⟨Or.inl ?_, ?_⟩
      · rw [ph r]; simp [hc]
      · intro hf
        rcases h.finishedPhase r hf with e | e | e <;> rw [hc] at e <;> cases e
    · intro r' hr'
      rw [ph r']
      by_cases e : r' = r
      · subst e; simp [hc]
      · simp only [e, if_false]; exact h.finishedPhase r' hr'
    · intro r' hr'
      rw [ph r'] at hr'
      by_cases e : r' = r
      · subst e; simp [hc] at hr'
      · simp only [e, if_false] at hr'; exact h.retOkFinished r' hr'
    · intro r' hr'
      rw [ph r'] at hr'
      by_cases e : r' = r
      · subst e; simp [hc] at hr'
      · simp only [e, if_false] at hr'; exact h.retClosedQuit r' hr'
  | accessS r hs => exact h
  | finish r q hs hq =>
    have fr := applyReq_frame s q
    have hrun := h.running r hs
    have phs : ∀ r', phaseOf { applyReq s q with strand := .idle, finished := r :: s.finished } r' = phaseOf s r' := by
      intro r'; unfold phaseOf; simp only [fr.2.2.2.1]
    refine ⟨?_, (by intro e; cases e), ?_, (by intro r' e; cases e), ?_, ?_, ?_, ?_, ?_⟩
    · simp only [fr.1, fr.2.2.1]; exact h.quitIff
    · simp only [fr.2.2.1]
      intro hc'
      have := h.cleanupExited hc'
      rw [hs] at this; cases this
    · intro r' hr'
      rw [phs]
      rcases List.mem_cons.1 hr' with rfl | hr'
      · rcases hrun.1 with e | e
        · exact Or.inl e
        · exact Or.inr (Or.inr e)
      · exact h.finishedPhase r' hr'
    · intro r' hr'
      rw [phs] at hr'
      exact List.mem_cons_of_mem _ (h.retOkFinished r' hr')
    · intro r' hr'
      rw [phs] at hr'
      simp only [fr.1]; exact h.retClosedQuit r' hr'
    · have c := consistent_apply h.consistent q
      exact ⟨c.k1, c.k2, c.k3, c.k4⟩
    · simp only [fr.2.2.1]
      intro hr
      have := h.cleanupExited (Or.inr hr)
      rw [hs] at this; cases this
  | retOk r hc hf =>
    have ph := fun r' => phaseOf_setPhase s r r' .retOk { s with clients := setPhase s.clients r .retOk } rfl
    refine ⟨h.quitIff, h.exitedQuit, h.cleanupExited, ?_, ?_, ?_, ?_, ⟨h.consistent.k1, h.consistent.k2, h.consistent.k3, h.consistent.k4⟩, h.returnedEmpty⟩
    · intro r' hr'
      have := h.running r' hr'
      refine ⟨?_, this.2⟩
      rw [ph r']
      by_cases e : r' = r
      · subst e; exact absurd hf this.2
      · simp only [e, if_false]; exact this.1
    · intro r' hr'
      rw [ph r']
      by_cases e : r' = r
      · subst e; simp [hc]
      · simp only [e, if_false]; exact h.finishedPhase r' hr'
    · intro r' hr'
      rw [ph r'] at hr'
      by_cases e : r' = r
      · subst e; exact hf
      · simp only [e, if_false] at hr'; exact h.retOkFinished r' hr'
    · intro r' hr'
      rw [ph r'] at hr'
      by_cases e : r' = r
      · subst e; simp [hc] at hr'
      · simp only [e, if_false] at hr'; exact h.retClosedQuit r' hr'
  | retClosed r hc hq =>
    have ph := fun r' => phaseOf_setPhase s r r' .retClosed { s with clients := setPhase s.clients r .retClosed } rfl
    have hsome : (phaseOf s r).map (fun _ => CPhase.retClosed) = some .retClosed := by
      rcases hc with e | e <;> simp [e]
    refine ⟨h.quitIff, h.exitedQuit, h.cleanupExited, ?_, ?_, ?_, ?_, ⟨h.consistent.k1, h.consistent.k2, h.consistent.k3, h.consistent.k4⟩, h.returnedEmpty⟩
    · intro r' hr'
      have := h.running r' hr'
      refine ⟨?_, this.2⟩
      rw [ph r']
      by_cases e : r' = r
      · subst e; simp [hsome]
      · simp only [e, if_false]; exact this.1
    · intro r' hr'
      rw [ph r']
      by_cases e : r' = r
      · subst e; simp [hsome]
      · simp only [e, if_false]; exact h.finishedPhase r' hr'
    · intro r' hr'
      rw [ph r'] at hr'
      by_cases e : r' = r
      · subst e; simp only [if_true, hsome] at hr'; cases hr'
      · simp only [e, if_false] at hr'; exact h.retOkFinished r' hr'
    · intro r' hr'
      rw [ph r'] at hr'
      by_cases e : r' = r
      · exact hq
      · simp only [e, if_false] at hr'; exact h.retClosedQuit r' hr'
  | strandExit hs hq =>
    refine ⟨h.quitIff, fun _ => hq, fun _ => rfl, (by intro r e; cases e), h.finishedPhase, h.retOkFinished, h.retClosedQuit,
      ⟨h.consistent.k1, h.consistent.k2, h.consistent.k3, h.consistent.k4⟩, h.returnedEmpty⟩
  | shutCall hn =>
    have hq : s.quit = false := by
      cases hqq : s.quit with
      | false => rfl
      | true => have := h.quitIff.1 hqq; rw [hn] at this; simp at this
    refine ⟨(by simp [hq]), ?_, (by simp), h.running, h.finishedPhase, h.retOkFinished, h.retClosedQuit,
      ⟨h.consistent.k1, h.consistent.k2, h.consistent.k3, h.consistent.k4⟩, (by simp)⟩
    intro e; have := h.exitedQuit e; rw [hq] at this; cases this
  | closeQuit hc =>
    refine ⟨(by simp), fun _ => rfl, (by simp), h.running, h.finishedPhase, h.retOkFinished, fun _ _ => rfl,
      ⟨h.consistent.k1, h.consistent.k2, h.consistent.k3, h.consistent.k4⟩, (by simp)⟩
  | sawDone hq hs =>
    have hquit : s.quit = true := h.exitedQuit hs
    refine ⟨(by simp [hquit]), h.exitedQuit, fun _ => hs, h.running, h.finishedPhase, h.retOkFinished, h.retClosedQuit,
      ⟨h.consistent.k1, h.consistent.k2, h.consistent.k3, h.consistent.k4⟩, (by simp)⟩
  | accessH hc => exact h
  | shutReturn hc =>
    have fr := disconnectAll_frame s
    have hex : s.strand = .exited := h.cleanupExited (Or.inl hc)
    have hquit : s.quit = true := h.exitedQuit hex
    have hemp := disconnectAll_empty h.consistent
    have phs : ∀ r', phaseOf { disconnectAll s with shut := .returned } r' = phaseOf s r' := by
      intro r'; unfold phaseOf; simp only [fr.2.2.2.1]
    refine ⟨(by simp [fr.1, hquit]), ?_, ?_, ?_, ?_, ?_, ?_, ?_, fun _ => hemp⟩
    · intro _; simp only [fr.1]; exact hquit
    · intro _; simp only [fr.2.1]; exact hex
    · intro r hr; simp only [fr.2.1] at hr; rw [hex] at hr; cases hr
    · intro r hr; simp only [fr.2.2.2.2] at hr; rw [phs]; exact h.finishedPhase r hr
    · intro r hr; rw [phs] at hr; simp only [fr.2.2.2.2]; exact h.retOkFinished r hr
    · intro r hr; rw [phs] at hr; simp only [fr.1]; exact h.retClosedQuit r hr
    · refine ⟨?_, ?_, ?_, ?_⟩
      · intro p hp; simp only [hemp.1] at hp; cases hp
      · intro p hp; simp only [hemp.2] at hp; cases hp
      · simp only [hemp.1]; exact List.Pairwise.nil
      · intro p hp; simp only [hemp.1] at hp; cases hp

theorem inv_exec {s s' : St} {tr : List Obs} (h : Inv s) (e : Exec s tr s') : Inv s' := by
  induction e with
  | nil => exact h
  | tau _ st ih => exact inv_step ih st
  | obs _ st ih => exact inv_step ih st

theorem inv_reach {s : St} (h : Reach s) : Inv s := by
  obtain ⟨tr, e⟩ := h
  exact inv_exec inv_init e

end Sky.C32
