/-
  C09 lemmas: each step of `verifyTxn` against its declarative meaning.
-/
import Sky.C09.Model
import Sky.Codec.Lemmas
import Sky.Props.C31
namespace Sky.C09
open Sky Sky.Codec

theorem allDistinct_iff (l : List Bytes) : allDistinct l = true ↔ l.Nodup := by
  induction l with
  | nil => simp [allDistinct]
  | cons x xs ih => simp [allDistinct, ih, List.nodup_cons]

/-- the checked coin sum fails exactly when the exact sum leaves 64 bits -/
theorem sumCoins_spec (os : List Output) (acc : Nat) (hacc : acc < 2 ^ 64) (hc : ∀ o ∈ os, o.2.1 < 2 ^ 64) :
    sumCoins os acc = if acc + (os.map (·.2.1)).sum < 2 ^ 64 then .ok (acc + (os.map (·.2.1)).sum)
      else .err (.named "ErrUint64AddOverflow") := by
  induction os generalizing acc with
  | nil => simp [sumCoins, hacc]
  | cons o os ih =>
    have ho := hc o (by simp)
    rw [sumCoins, Sky.Props.C31.addU64_spec acc o.2.1 hacc ho, Sky.C31.specAddU64]
    by_cases h : acc + o.2.1 < 2 ^ 64
    · simp only [h, if_true]
      rw [ih (acc + o.2.1) h (fun o' ho' => hc o' (by simp [ho']))]
      simp only [List.map_cons, List.sum_cons, Nat.add_assoc]
    · have : ¬ acc + (o.2.1 + (os.map (·.2.1)).sum) < 2 ^ 64 := by omega
      simp [h, this]

theorem sumCoins_ok_iff (os : List Output) (hc : ∀ o ∈ os, o.2.1 < 2 ^ 64) :
    (∃ c, sumCoins os 0 = .ok c) ↔ (os.map (·.2.1)).sum < 2 ^ 64 := by
  rw [sumCoins_spec os 0 (by decide) hc]
  simp only [Nat.zero_add]
  split <;> simp_all

/-- generated `encodeTransaction` succeeds when the three slices are within 65535 -/
theorem encG_txn (t : Txn) (h1 : t.sigs.length ≤ 65535) (h2 : t.ins.length ≤ 65535) (h3 : t.outs.length ≤ 65535) :
    encG Schemas.Transaction t = .ok (enc Schemas.Transaction t) := by
  obtain ⟨len, ty, inner, sigs, ins, outs⟩ := t
  simp only [Txn.sigs, Txn.ins, Txn.outs] at h1 h2 h3
  have hm : MaxLenOK Schemas.Transaction (len, ty, inner, sigs, ins, outs) := by
    simp only [MaxLenOK]
    exact ⟨trivial, trivial, trivial, ⟨Or.inr h1, fun _ _ => trivial⟩, ⟨Or.inr h2, fun _ _ => trivial⟩,
      ⟨Or.inr h3, fun _ _ => ⟨⟨trivial, trivial⟩, trivial, trivial⟩⟩⟩
  have hl : LenOK Schemas.Transaction (len, ty, inner, sigs, ins, outs) := by
    simp only [LenOK]
    exact ⟨trivial, trivial, trivial, ⟨by omega, fun _ _ => trivial⟩, ⟨by omega, fun _ _ => trivial⟩,
      ⟨by omega, fun _ _ => ⟨⟨trivial, trivial⟩, trivial, trivial⟩⟩⟩
  have := (encCheck_none_iff Schemas.Transaction (len, ty, inner, sigs, ins, outs)).2 ⟨hm, hl⟩
  simp [encG, this]

/-- the signature loop accepts iff every non-null signature is accepted by `recoverOK` for its input's hash and, when
`signed`, no signature is null (positions paired up to the shorter list) -/
theorem checkSigs_ok_iff (env : Env) (signed : Bool) (inner : Bytes) (sigs ins : List Bytes) :
    checkSigs env signed inner sigs ins = .ok () ↔
      ∀ p ∈ sigs.zip ins, (p.1 = nullSig → signed = false) ∧
        (p.1 ≠ nullSig → env.recoverOK p.1 (env.H (inner ++ p.2)) = true) := by
  induction sigs generalizing ins with
  | nil => simp [checkSigs]
  | cons s ss ih =>
    cases ins with
    | nil => simp [checkSigs]
    | cons i is =>
      simp only [checkSigs, List.zip_cons_cons, List.mem_cons, forall_eq_or_imp]
      by_cases hn : s = nullSig
      · cases signed <;> simp [hn, ih]
      · by_cases hr : env.recoverOK s (env.H (inner ++ i)) = true
        · simp [hn, hr, ih]
        · simp [hn, hr]

theorem checkSigs_err (env : Env) (signed : Bool) (inner : Bytes) (sigs ins : List Bytes) (r : Rule)
    (h : checkSigs env signed inner sigs ins = .error r) : r = .unsignedInput ∨ r = .badSig := by
  induction sigs generalizing ins with
  | nil => simp [checkSigs] at h
  | cons s ss ih =>
    cases ins with
    | nil => simp [checkSigs] at h
    | cons i is =>
      simp only [checkSigs] at h
      split at h
      · split at h
        · injection h with h; exact Or.inl h.symm
        · exact ih is h
      · split at h
        · exact ih is h
        · injection h with h; exact Or.inr h.symm

end Sky.C09
