/-
  C09 model — coin.Transaction.verify (src/coin/transactions.go), core Lean only, executable.

  The checks IN THE CODE'S ORDER with the code's error kinds; parametric in
    `H`          cipher.SumSHA256 (the driver instantiates it with Sky.Hash.sha256),
    `recoverOK`  cipher.VerifySignatureRecoverPubKey (sig, hash) = nil  (the driver takes the implementation's verdict per signature).
  Encoding / size / hashes go through the reference codec of C21 (`Sky.Codec`, schema `Schemas.Transaction`), the coin sum
  through the REGENERATED `Sky.Gen.Mathutil.AddUint64`.
-/
import Sky.Codec.Basic
import Sky.Codec.Schemas
import Sky.Gen.Mathutil
namespace Sky.C09
open Sky Sky.Codec

/-- (Length, Type, InnerHash, Sigs, In, Out) ; an output is ((addrVersion, addrKey), coins, hours) -/
abbrev Txn := Val Schemas.Transaction
abbrev Output := Val Schemas.TransactionOutput

def Txn.length (t : Txn) : Nat := t.1
def Txn.type (t : Txn) : Nat := t.2.1
def Txn.inner (t : Txn) : Bytes := t.2.2.1
def Txn.sigs (t : Txn) : List Bytes := t.2.2.2.1
def Txn.ins (t : Txn) : List Bytes := t.2.2.2.2.1
def Txn.outs (t : Txn) : List Output := t.2.2.2.2.2

structure Env where
  H : Bytes → Bytes
  recoverOK : Bytes → Bytes → Bool

/-- the error kinds of `verify` (the Go code returns `errors.New(text)`; the harness maps the text to these names) -/
inductive Rule where
  | noInputs | noOutputs | sigCount | tooManySigs | tooManyOuts | dupSpend | badType | zeroCoin | coinOverflow
  | serialize | badLength | dupOutput | badInnerHash | unsignedInput | badSig | noNullSig
deriving DecidableEq, Repr

def Rule.toString : Rule → String
  | .noInputs => "NoInputs" | .noOutputs => "NoOutputs" | .sigCount => "InvalidNumberOfSignatures"
  | .tooManySigs => "TooManySignatures" | .tooManyOuts => "TooManyOutputs" | .dupSpend => "DuplicateSpend"
  | .badType => "TypeInvalid" | .zeroCoin => "ZeroCoinOutput" | .coinOverflow => "OutputCoinsOverflow"
  | .serialize => "SerializeFailed" | .badLength => "IncorrectLength" | .dupOutput => "DuplicateOutput"
  | .badInnerHash => "InnerHashMismatch" | .unsignedInput => "UnsignedInput" | .badSig => "InvalidSignature"
  | .noNullSig => "NoNullSignature"

def nullSig : Bytes := List.replicate 65 0

/-- `for _, to := range txn.Out { coins, err = mathutil.AddUint64(coins, to.Coins) }` -/
def sumCoins : List Output → Nat → Res Nat
  | [], acc => .ok acc
  | o :: os, acc =>
    match Sky.Gen.Mathutil.AddUint64 acc o.2.1 with
    | .ok c => sumCoins os c
    | .err e => .err e
    | .panic p => .panic p

/-- `txn.hashInner()`: SHA256 of enc(transactionInputs) ‖ enc(transactionOutputs) -/
def hashInner (env : Env) (t : Txn) : Bytes :=
  env.H (enc Schemas.TransactionInputs t.ins ++ enc Schemas.TransactionOutputs t.outs)

/-- hash of the UxBody an output would create: SHA256(enc UxBody{txnHash, address, coins, hours}) -/
def outputHash (env : Env) (txnHash : Bytes) (o : Output) : Bytes :=
  env.H (enc Schemas.UxBody (txnHash, o.1, o.2.1, o.2.2))

/-- number of distinct elements = length (what `len(map) != len(slice)` tests), i.e. no element occurs twice -/
def allDistinct : List Bytes → Bool
  | [] => true
  | x :: xs => !xs.contains x && allDistinct xs

/-- the signature loop: first failing index decides -/
def checkSigs (env : Env) (signed : Bool) (inner : Bytes) : List Bytes → List Bytes → Except Rule Unit
  | sig :: sigs, inp :: ins =>
    if sig = nullSig then
      if signed then .error .unsignedInput else checkSigs env signed inner sigs ins
    else if env.recoverOK sig (env.H (inner ++ inp)) then checkSigs env signed inner sigs ins
    else .error .badSig
  | _, _ => .ok ()

/-- `txn.verify(signed)` -/
def verifyTxn (env : Env) (signed : Bool) (t : Txn) : Except Rule Unit :=
  if t.ins.length = 0 then .error .noInputs
  else if t.outs.length = 0 then .error .noOutputs
  else if t.sigs.length ≠ t.ins.length then .error .sigCount
  else if t.sigs.length > 65535 then .error .tooManySigs
  else if t.outs.length > 65535 then .error .tooManyOuts
  else if !allDistinct t.ins then .error .dupSpend
  else if t.type ≠ 0 then .error .badType
  else if t.outs.any (fun o => o.2.1 == 0) then .error .zeroCoin
  else match sumCoins t.outs 0 with
    | .err _ | .panic _ => .error .coinOverflow
    | .ok _ =>
      -- SizeHash: Serialize (generated encodeTransaction), IntToUint32(len), SumSHA256
      match encG Schemas.Transaction t with
      | .error _ => .error .serialize
      | .ok b =>
        if b.length ≥ 2 ^ 32 then .error .serialize
        else if t.length ≠ b.length then .error .badLength
        else
          let txnHash := env.H b
          if !allDistinct (t.outs.map (outputHash env txnHash)) then .error .dupOutput
          else if hashInner env t ≠ t.inner then .error .badInnerHash
          else match checkSigs env signed t.inner t.sigs t.ins with
            | .error r => .error r
            | .ok () =>
              if !signed && !t.sigs.contains nullSig then .error .noNullSig
              else .ok ()

/-- `coin.DeserializeTransaction` -/
def deserialize (b : Bytes) : Except DecErr Txn := decGExact Schemas.Transaction b

end Sky.C09
