/-
  C09 driver: answers harness/c09 from Sky.C09.Model with H := Sky.Hash.sha256 and `recoverOK` := the per-signature verdicts
  the harness obtained from cipher.VerifySignatureRecoverPubKey.

  verdict `fail`: accept/reject differs from the rule set, a panic, a decoded transaction that does not re-serialize to the
  input, decode accept/reject differs; `hold`: same accept/reject but a different rule reported, or different hashes.
-/
import Sky.Prim.DrvLib
import Sky.Codec.Text
import Sky.Hash.Sha256
import Sky.C09.Model
namespace Sky.C09
open Sky Sky.Drv Sky.Codec

/-- Env whose recoverOK answers from a table keyed by (sig, hash): built from the op's SIGOK string -/
def envOf (t : Txn) (ok : String) : Env :=
  let H := Sky.Hash.sha256
  let keys := (t.sigs.zip t.ins).map fun (s, i) => (s, H (t.inner ++ i))
  let tbl := keys.zip ok.toList
  { H := H, recoverOK := fun s h => (tbl.find? (fun e => e.1.1 == s && e.1.2 == h)).map (·.2 == '1') |>.getD false }

def showV : Except Rule Unit → String
  | .ok _ => "ok"
  | .error r => "err " ++ r.toString

def step (op impl : String) : String × Verdict :=
  let bad := ("bad-op", Verdict.unknown)
  match op.splitOn " " with
  | "verify" :: signed :: ok :: spec =>
    match parseVal Schemas.Transaction spec with
    | some (t, []) =>
      let m := showV (verifyTxn (envOf t ok) (signed == "1") t)
      let v := if impl.startsWith "panic" || (impl == "ok") != (m == "ok") then Verdict.fail else .hold
      (m, v)
    | _ => bad
  | "sizehash" :: spec =>
    match parseVal Schemas.Transaction spec with
    | some (t, []) =>
      let env : Env := { H := Sky.Hash.sha256, recoverOK := fun _ _ => false }
      let m := match encG Schemas.Transaction t with
        | .ok b => toString b.length ++ " " ++ hexOf (env.H b) ++ " " ++ hexOf (hashInner env t)
        | .error _ => "err"
      (m, if impl.startsWith "panic" then .fail else .hold)
    | _ => bad
  | ["deser", h] =>
    match parseBytes h with
    | none => bad
    | some b =>
      let m := match deserialize b with
        | .error _ => "err"
        | .ok t =>
          let reser := match encG Schemas.Transaction t with
            | .ok e => if e == b then "same" else outHex e
            | .error _ => "err"
          "ok " ++ dumpStr Schemas.Transaction t ++ "|reser=" ++ reser ++ "|hash=" ++ hexOf (Sky.Hash.sha256 b)
      -- property: decoding either fails or re-encodes to the same bytes
      let implBad := impl.startsWith "panic" || (impl.startsWith "ok" && (impl.splitOn "|reser=same|").length < 2)
      let v := if implBad || (impl.startsWith "ok") != (m.startsWith "ok") then Verdict.fail else .hold
      (m, v)
  | _ => bad

end Sky.C09

def main : IO Unit := Sky.Drv.loopPure Sky.C09.step
