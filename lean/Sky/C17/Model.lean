/-
  C17 — wallet address derivation.  Core Lean only.

  Deterministic wallets: the key sequence is the unfold of an abstract deterministic iterator
  `step : Seed → Seed × Key` (cipher.MustGenerateDeterministicKeyPairsSeed(seed, n) = n steps);
  the wallet keeps `lastSeed` and continues from it.
  Chain wallets (bip44 chains, xpub): entry i is `child i` of the chain key.
  Collection wallets: the entries are the inserted keys.
  `scan n active` = generate n on a clone, keep up to the last active one, REGENERATE from scratch.
-/
namespace Sky.C17

section det
variable {Seed Key : Type}

/-- n steps of the iterator: final state and the keys in order -/
def iter (step : Seed → Seed × Key) : Nat → Seed → Seed × List Key
  | 0, s => (s, [])
  | n + 1, s =>
    let (s1, k) := step s
    let (s2, ks) := iter step n s1
    (s2, k :: ks)

structure DW (Seed Key : Type) where
  seed : Seed
  last : Seed
  entries : List Key

def DW.init (seed : Seed) : DW Seed Key := ⟨seed, seed, []⟩

/-- `GenerateAddresses(n)` -/
def generate (step : Seed → Seed × Key) (w : DW Seed Key) (n : Nat) : DW Seed Key :=
  if n = 0 then w else
  let r := iter step n (if w.entries.isEmpty then w.seed else w.last)
  { w with last := r.1, entries := w.entries ++ r.2 }

/-- `reset` -/
def reset (w : DW Seed Key) : DW Seed Key := { w with last := w.seed, entries := [] }

/-- number of scanned addresses to keep: index of the last active one + 1 -/
def keepNum : List Bool → Nat
  | [] => 0
  | a :: r => if keepNum r > 0 then keepNum r + 1 else if a then 1 else 0

/-- `ScanAddresses(n, tf)`; `active` = tf's answer for the n scanned addresses -/
def scan (step : Seed → Seed × Key) (w : DW Seed Key) (n : Nat) (active : List Bool) : DW Seed Key :=
  if n = 0 then w else
  generate step (reset w) (w.entries.length + keepNum (active.take n))

inductive Op
  | gen (n : Nat)
  | scan (n : Nat) (active : List Bool)
  | reload          -- Serialize, Load
  | relock          -- Lock, Unlock
  | lock            -- Lock (bip44 wallets keep deriving addresses while locked; GuardUpdate for the others)
  | unlock          -- Unlock (bip44: the secrets of addresses derived while locked are filled in)
  | scanFail (n : Nat)   -- ScanAddresses whose transaction finder returns an error: no effect

def apply (step : Seed → Seed × Key) (w : DW Seed Key) : Op → DW Seed Key
  | .gen n => generate step w n
  | .scan n a => scan step w n a
  | .reload => w
  | .relock => w
  | .lock => w
  | .unlock => w
  | .scanFail _ => w

def run (step : Seed → Seed × Key) (seed : Seed) (ops : List Op) : DW Seed Key :=
  ops.foldl (apply step) (DW.init seed)

end det

/-! ### chain wallets (bip44 chain, xpub) -/

section chain
variable {Pub : Type}

structure CW (Pub : Type) where
  entries : List Pub

def cgen (child : Nat → Pub) (w : CW Pub) (n : Nat) : CW Pub :=
  ⟨w.entries ++ (List.range n).map (fun i => child (w.entries.length + i))⟩

def cscan (child : Nat → Pub) (w : CW Pub) (n : Nat) (active : List Bool) : CW Pub :=
  if n = 0 then w else cgen child ⟨[]⟩ (w.entries.length + keepNum (active.take n))

def capply (child : Nat → Pub) (w : CW Pub) : Op → CW Pub
  | .gen n => cgen child w n
  | .scan n a => cscan child w n a
  | .reload => w
  | .relock => w
  | .lock => w
  | .unlock => w
  | .scanFail _ => w

def crun (child : Nat → Pub) (ops : List Op) : CW Pub := ops.foldl (capply child) ⟨[]⟩

end chain

end Sky.C17
