/-
  C17 driver (stateful).  `reset` reads back the reference: the first M addresses derived in ONE
  batch (and the lastSeed after N keys).  Every other line is predicted by the model from that
  reference: the wallet must hold exactly the first N reference addresses, N as computed by the
  model of generate / scan / reload / relock.  Any difference on an `ok` line is a property
  failure (the derived addresses depend on the history).
-/
import Sky.Prim.DrvLib
import Sky.C17.Model
namespace Sky.C17
open Sky Sky.Drv

structure St where
  typ : String := ""
  seq : Array String := #[]
  st : Array String := #[]
  chgSeq : Array String := #[]
  det : DW Nat String := ⟨0, 0, []⟩
  ext : CW String := ⟨[]⟩
  chg : CW String := ⟨[]⟩
  locked : Bool := false
  -- multi-account bip44: index 2*account + chain
  mref : Array (Array String) := #[]
  mcw : Array (CW String) := #[]

def field (pre : String) (ws : List String) : String :=
  match ws.find? (·.startsWith pre) with
  | some w => (w.drop pre.length).toString
  | none => "-"

def items (s : String) : List String := if s == "-" || s == "" then [] else s.splitOn ","
def join (l : List String) : String := if l.isEmpty then "-" else ",".intercalate l

def stepOf (seq : Array String) : Nat → Nat × String := fun i => (i + 1, seq.getD i "?")
def childOf (seq : Array String) : Nat → String := fun i => seq.getD i "?"

def view (s : St) : String :=
  match s.typ with
  | "deterministic" => s!"e={join s.det.entries} last={if s.locked then "-" else s.st.getD s.det.last "?"}"
  | "bip44" => s!"e={join s.ext.entries} last=- c={join s.chg.entries}"
  | _ => s!"e={join s.ext.entries} last=-"

/-- which of the n scanned addresses (reference indexes base..base+n-1) are active -/
def activeList (set : List Nat) (base n : Nat) : List Bool := (List.range n).map fun j => set.contains (base + j)

/-! ### multi-account bip44: every (account, chain) is its own index-derived chain -/

def mview (s : St) : String :=
  " ".intercalate ((List.range 4).map fun k => s!"a{k / 2}{k % 2}={join ((s.mcw.getD k ⟨[]⟩).entries)}")

def mstep (s : St) (ws : List String) (impl : String) : St × String × Verdict :=
  let nat (x : String) : Nat := x.toNat?.getD 0
  let setOf (x : String) : List Nat := (items x).map nat
  match ws with
  | ["resetm", _, _] =>
      let iw := impl.splitOn " "
      let refs := #[(items (field "r00=" iw)).toArray, (items (field "r01=" iw)).toArray,
                    (items (field "r10=" iw)).toArray, (items (field "r11=" iw)).toArray]
      let cw := #[cgen (childOf (refs.getD 0 #[])) ⟨[]⟩ 1, cgen (childOf (refs.getD 1 #[])) ⟨[]⟩ 1, (⟨[]⟩ : CW String), ⟨[]⟩]
      let s' : St := { mref := refs, mcw := cw }
      (s', if impl.endsWith (mview s') then impl else "ok … " ++ mview s', .fail)
  | ["mgen", a, c, n] =>
      let k := 2 * nat a + nat c
      let old := s.mcw.getD k ⟨[]⟩
      let nw := cgen (childOf (s.mref.getD k #[])) old (nat n)
      let s' := { s with mcw := s.mcw.setIfInBounds k nw }
      (s', s!"ok new={join (nw.entries.drop old.entries.length)} {mview s'}", .fail)
  | ["mscan", n, s00, s01, s10, s11] =>
      let n := nat n
      let sets := [setOf s00, setOf s01, setOf s10, setOf s11]
      -- every chain of every account is scanned; only external addresses are returned, account by account
      let res := (List.range 4).map fun k =>
        let old := s.mcw.getD k ⟨[]⟩
        let act := activeList (sets.getD k []) old.entries.length n
        let nw := cscan (childOf (s.mref.getD k #[])) old n act
        let ret := if n = 0 then [] else ((List.range n).map fun j => childOf (s.mref.getD k #[]) (old.entries.length + j)).take (keepNum (act.take n))
        (nw, ret)
      let s' := { s with mcw := (res.map (·.1)).toArray }
      let ret := (res.getD 0 (⟨[]⟩, [])).2 ++ (res.getD 2 (⟨[]⟩, [])).2
      (s', s!"ok new={join ret} {mview s'}", .fail)
  | ["mscanfail", n] => (s, (if nat n = 0 then "ok new=- " else "err ") ++ mview s, .fail)
  | ["mreload"] => (s, "ok " ++ mview s, .fail)
  | ["mlock"] => (s, "ok " ++ mview s, .fail)
  | ["munlock"] => (s, "ok " ++ mview s, .fail)
  | ["mverify"] => (s, "ok consistent", .fail)
  | _ => (s, "bad-op", .unknown)

def step (s : St) (op impl : String) : St × String × Verdict :=
  let ws := op.splitOn " "
  if (ws.headD "").startsWith "m" || ws.headD "" == "resetm" then mstep s ws impl else
  match ws with
  | ["reset", typ, _, _] =>
      let iw := impl.splitOn " "
      let seq := (items (field "seq=" iw)).toArray
      let s' : St := { typ := typ, seq := seq, st := (items (field "st=" iw)).toArray,
                       chgSeq := (items (field "chg=" iw)).toArray,
                       det := ⟨0, 0, []⟩,
                       ext := if typ == "bip44" then cgen (childOf seq) ⟨[]⟩ 1 else ⟨[]⟩,
                       chg := if typ == "bip44" then cgen (childOf (items (field "chg=" iw)).toArray) ⟨[]⟩ 1 else ⟨[]⟩ }
      -- the reference itself is read back; what the model checks on this line is the initial view
      -- (and, for xpub, that the watch-only wallet derives the seed wallet's external chain)
      -- … and that what the WALLET derives in one batch (addresses, keys, lastSeed, fingerprint before the first
      -- address) is what the reference says: for deterministic wallets the reference is the cipher library's
      -- chain over the bytes of the seed string
      let ok := impl.endsWith (view s') && !(impl.splitOn " ").any (·.endsWith "=DIFFERENT")
      (s', if ok then impl else "ok … " ++ view s' ++ " (batch=same fp=same bip44=same)", .fail)
  | g :: n :: rest =>
    if g == "gen" || g == "ggen" then
      match n.toNat? with
      | none => (s, "bad-op", .unknown)
      | some n =>
        if s.typ == "collection" then (s, "ok new=- " ++ view s, .unknown)
        -- a locked deterministic wallet refuses to derive directly (ErrWalletEncrypted); through
        -- GuardUpdate (`ggen`) it derives exactly what the unlocked wallet would
        else if s.typ == "deterministic" && s.locked && g == "gen" then (s, "err " ++ view s, .unknown)
        else if s.typ == "deterministic" then
          let d := generate (stepOf s.seq) s.det n
          let s' := { s with det := d }
          (s', s!"ok new={join (d.entries.drop s.det.entries.length)} {view s'}", .fail)
        else if rest == ["chg"] then
          let c := cgen (childOf s.chgSeq) s.chg n
          let s' := { s with chg := c }
          (s', s!"ok new={join (c.entries.drop s.chg.entries.length)} {view s'}", .fail)
        else
          let c := cgen (childOf s.seq) s.ext n
          let s' := { s with ext := c }
          (s', s!"ok new={join (c.entries.drop s.ext.entries.length)} {view s'}", .fail)
    else if (g == "scan" || g == "gscan") && rest.length == 2 then
      let ea := rest.getD 0 "-"
      let ca := rest.getD 1 "-"
      match n.toNat?, (items ea).mapM (fun (x : String) => x.toNat?), (items ca).mapM (fun (x : String) => x.toNat?) with
      | some n, some ea, some ca =>
        if s.typ == "collection" then (s, "err " ++ view s, .unknown)
        else if s.typ == "deterministic" && s.locked && g == "scan" then
          (s, (if n = 0 then "ok new=- " else "err ") ++ view s, .unknown)
        else if s.typ == "deterministic" then
          let base := s.det.entries.length
          let act := activeList ea base n
          let d := scan (stepOf s.seq) s.det n act
          let s' := { s with det := d }
          let ret := if n = 0 then [] else ((iter (stepOf s.seq) n s.det.last).2).take (keepNum (act.take n))
          (s', s!"ok new={join ret} {view s'}", .fail)
        else
          let base := s.ext.entries.length
          let act := activeList ea base n
          let e' := cscan (childOf s.seq) s.ext n act
          let ret := if n = 0 then [] else ((List.range n).map fun j => childOf s.seq (base + j)).take (keepNum (act.take n))
          let c' := if s.typ == "bip44" then cscan (childOf s.chgSeq) s.chg n (activeList ca s.chg.entries.length n) else s.chg
          let s' := { s with ext := e', chg := c' }
          (s', s!"ok new={join ret} {view s'}", .fail)
      | _, _, _ => (s, "bad-op", .unknown)
    else if g == "scanfail" && rest.isEmpty then
      -- the transaction finder fails: the wallet (entries AND lastSeed) must be exactly as before
      match n.toNat? with
      | none => (s, "bad-op", .unknown)
      | some n =>
        if n = 0 && s.typ != "collection" then (s, "ok new=- " ++ view s, .fail) else (s, "err " ++ view s, .fail)
    else if g == "addkeys" && rest.isEmpty then
      -- collection: the entries are exactly the inserted keys, in order
      let iw := impl.splitOn " "
      let want := items (field "want=" iw)
      let e' := s.ext.entries ++ want
      let s' := { s with ext := ⟨e'⟩ }
      (s', s!"ok new={join want} want={join want} {view s'}", .fail)
    else (s, "bad-op", .unknown)
  | ["reload"] => (s, "ok " ++ view s, .fail)
  | ["relock"] => (s, "ok " ++ view s, .fail)
  | ["lock"] => let s' := { s with locked := true }; (s', "ok " ++ view s', .fail)
  | ["unlock"] => let s' := { s with locked := false }; (s', "ok " ++ view s', .fail)
  | ["verify"] => (s, "ok consistent", .fail)
  | _ => (s, "bad-op", .unknown)

end Sky.C17

def main : IO Unit := Sky.Drv.loop Sky.C17.step {}
