/-
  C13 — wallet signing.  Model of wallet.SignTransaction (+ validateSignIndexes,
  Transaction.SignInput).  Core Lean only.

  Addresses, keys and hashes are numbers.  A signature is `null`, an existing one (`ext i`: whatever
  non-null bytes the input transaction carried at some index), or `made k inner uxid`: the value
  `SignHash(AddSHA256(inner, uxid), k)` produced by this call.  The signature scheme itself is a
  parameter of the theorems (`addrOf : key → address`), never an axiom.
-/
import Sky.Prim.Res
namespace Sky.C13
open Sky

inductive Sig
  | null
  | ext (id : Nat)
  | made (key inner uxid : Nat)
deriving DecidableEq, Repr

structure Entry where
  addr : Nat
  sec : Nat          -- 0 = null secret key
deriving DecidableEq, Repr

structure W where
  typ : String
  encrypted : Bool
  entries : List Entry
deriving Repr

structure STxn where
  ins : List Nat
  outs : Nat          -- the outputs, opaque (signing never looks at them)
  inner : Nat
  innerOK : Bool      -- `txn.InnerHash == txn.HashInner()`
  sigs : List Sig
deriving DecidableEq, Repr

def user (n : String) : Err := .wrapped "Error" (.named n)
def userOther (s : String) : Err := .wrapped "Error" (.other s)
def internal (s : String) : Err := .other s

/-- `validateSignIndexes` -/
def validateIdx (idx : List Int) (n : Nat) : Option String :=
  if idx.length > n then some "Number of signature indexes exceeds number of inputs"
  else if idx.any (fun i => i ≥ n ∨ i < 0) then some "Signature index out of range"
  else if ¬ idx.Nodup then some "Duplicate value in signature indexes"
  else none

def isNull : Sig → Bool | .null => true | _ => false

/-- the requested indexes: each must be unsigned (`signedTxn.Sigs[in]` indexes the slice: panic when short) -/
def pickRequested (sigs : List Sig) : List Nat → Res (List Nat)
  | [] => .ok []
  | i :: r =>
    match sigs[i]? with
    | none => .panic "index out of range"
    | some s =>
      if ¬ isNull s then .err (userOther "Transaction is already signed at index")
      else match pickRequested sigs r with
        | .ok l => .ok (i :: l)
        | e => e

/-- no indexes requested: every input whose signature is null -/
def pickMissing (sigs : List Sig) : List Nat → Res (List Nat)
  | [] => .ok []
  | i :: r =>
    match sigs[i]? with
    | none => .panic "index out of range"
    | some s =>
      match pickMissing sigs r with
      | .ok l => .ok (if isNull s then i :: l else l)
      | e => e

/-- the key the wallet holds for an address: the first entry with that address -/
def keyFor (entries : List Entry) (a : Nat) : Option Nat := (entries.find? (·.addr = a)).map (·.sec)

def keyPair (entries : List Entry) (ux : List Nat) (i : Nat) : Option (Nat × Nat) :=
  match keyFor entries (ux.getD i 0) with
  | some k => some (i, k)
  | none => none

def setSig (sigs : List Sig) (i : Nat) (s : Sig) : List Sig := sigs.set i s

/-- sign the chosen inputs -/
def signAll (t : STxn) (keys : List (Nat × Nat)) : List Sig :=
  keys.foldl (fun sg (ik : Nat × Nat) => setSig sg ik.1 (.made ik.2 t.inner (t.ins.getD ik.1 0))) t.sigs

def fullySigned (sigs : List Sig) : Bool := sigs.length ≠ 0 && sigs.all (fun s => ¬ isNull s)

/-- `SignTransaction(w, txn, signIndexes, uxOuts)`; `uxAddrs[i]` = address owning input i -/
def signTxn (w : W) (t : STxn) (idx : List Int) (uxAddrs : List Nat) : Res STxn :=
  if w.typ = "xpub" then .err (user "ErrWalletCantSign")
  else if w.encrypted then .err (user "ErrWalletEncrypted")
  else if ¬ t.innerOK then .err (userOther "Transaction inner hash does not match computed inner hash")
  else if t.sigs.length = 0 then .err (userOther "Transaction signatures array is empty")
  else if fullySigned t.sigs then .err (userOther "Transaction is fully signed")
  else if t.ins.length = 0 then .err (userOther "No transaction inputs to sign")
  else if uxAddrs.length ≠ t.ins.length then .err (internal "len(uxOuts) != len(txn.In)")
  else match validateIdx idx uxAddrs.length with
  | some e => .err (userOther e)
  | none =>
    let nMissing := t.sigs.countP isNull
    let pick := if idx ≠ [] then pickRequested t.sigs (idx.map Int.toNat)
                else pickMissing t.sigs (List.range uxAddrs.length)
    match pick with
    | .err e => .err e
    | .panic p => .panic p
    | .ok S =>
      -- the wallet must hold a key for every address involved
      match S.mapM (keyPair w.entries uxAddrs) with
      | none => .err (userOther "Wallet cannot sign all requested inputs")
      | some keys =>
        if S ≠ [] ∧ t.ins.length ≠ t.sigs.length then
          .err (internal "Number of signatures does not match number of inputs")
        else if keys.any (fun ik => ik.2 = 0) then .panic "MustSignHash: invalid secret key"
        else
          let sigs' := signAll t keys
          if idx = [] ∨ idx.length = nMissing then
            if fullySigned sigs' then .ok { t with sigs := sigs' }
            else .err (internal "Transaction is not fully signed, but should be")
          else
            if fullySigned sigs' then .err (internal "Transaction is fully signed, but shouldn't be")
            else .ok { t with sigs := sigs' }

/-- the signing loop of `CreateTransactionSigned`: input i (uxid, owning address) is signed with the
key of the wallet entry for THAT address -/
def signCreated (entries : List Entry) (inner : Nat) : List (Nat × Nat) → Res (List Sig)
  | [] => .ok []
  | (u, a) :: r =>
    match keyFor entries a with
    | none => .err (internal "Chosen spend address not found in wallet")
    | some k =>
      -- a null secret key (watch-only entry): `SignInput` returns cipher.SignHash's error
      -- (it went through cipher.MustSignHash and PANICKED before repair 509cd7e80)
      if k = 0 then .err (internal "invalid secret key")
      else match signCreated entries inner r with
        | .ok l => .ok (.made k inner u :: l)
        | e => e

end Sky.C13
