/-
  C13 driver: runs the SignTransaction model on the op and evaluates the property on the
  implementation's answer:
    fail    an `ok` answer whose changed-signature set is not exactly the requested one (or the null
            ones when none are named), a changed kept signature, a new signature that does not verify
            for the input's owner, changed inputs/outputs/inner hash/header, a modified caller
            transaction (also on error), or a panic on a transaction with |sigs| = |inputs|
    unknown any other difference between model and implementation
-/
import Sky.Prim.DrvLib
import Sky.C13.Model
namespace Sky.C13
open Sky Sky.Drv

def field (pre : String) (ws : List String) : String :=
  match ws.find? (·.startsWith pre) with
  | some w => (w.drop pre.length).toString
  | none => "-"

def items (s : String) : List String := if s == "-" || s == "" then [] else s.splitOn ","

def parseUx (s : String) : Option Nat :=
  if s.startsWith "e" then (s.drop 1).toString.toNat?.map (· + 1)
  else if s.startsWith "f" then (s.drop 1).toString.toNat?.map (· + 1000)
  else none

def showSigs (w : W) (ux : List Nat) (orig : List Sig) (sigs : List Sig) : String :=
  ",".intercalate <| (List.zip (List.range sigs.length) sigs).map fun (i, s) =>
    match s with
    | .null => "n"
    | .ext j => if orig[i]? = some (.ext j) then "k" else "b"
    | .made k _ _ => if k ≠ 0 ∧ w.entries.any (fun e => e.sec = k ∧ some e.addr = ux[i]?) then "s" else "b"

/-- `csign`: every input of a created-and-signed transaction verifies for its owner, inputs in the
listed (coins descending) order -/
def stepCsign (ws : List String) : String × Verdict :=
  let r := do
    let nent ← (field "nent=" ws).toNat?
    let ux ← (items (field "ux=" ws)).mapM fun (x : String) =>
      match x.splitOn ":" with
      | [e, _, _] => parseUx e
      | _ => none
    pure (nent, ux)
  match r with
  | none => ("bad-op", .unknown)
  | some (nent, ux) =>
    -- a watch-only (xpub) wallet holds addresses without secret keys
    let watchOnly := ((field "wallet=" ws).splitOn ":").head? == some "xpub"
    let entries : List Entry := (List.range nent).map fun i => ⟨i + 1, if watchOnly then 0 else i + 1⟩
    let ins := (List.zip (List.range ux.length) ux).map fun (i, a) => (i + 101, a)
    match signCreated entries 7 ins with
    | .ok sigs =>
      let cls := (List.zip sigs ins).map fun (s, (_, a)) =>
        match s with
        | .made k _ _ => if entries.any (fun e => e.sec = k ∧ e.addr = a) then "s" else "b"
        | _ => "b"
      let owners := ux.map fun a => s!"e{a - 1}"
      (s!"ok sigs={",".intercalate cls} owners={",".intercalate owners} verify=ok vis=ok", .fail)
    | .err e => ("err " ++ e.toString, .fail)
    | .panic _ => ("panic", .fail)

def stepSign (ws : List String) (impl : String) : String × Verdict :=
  let r := do
    let spec := (field "wallet=" ws).splitOn ":"
    let typ ← spec[0]?
    let enc ← spec[3]?
    let nent ← (field "nent=" ws).toNat?
    let ux ← (items (field "ux=" ws)).mapM parseUx
    let idx ← (items (field "idx=" ws)).mapM (fun (x : String) => x.toInt?)
    pure (typ, enc == "1", nent, ux, idx)
  match r with
  | none => ("bad-op", .unknown)
  | some (typ, enc, nent, ux, idx) =>
    let w : W := ⟨typ, enc, (List.range nent).map fun i => ⟨i + 1, if typ == "xpub" then 0 else i + 1⟩⟩
    let sigSpec := items (field "sigs=" ws)
    let sigs : List Sig := (List.zip (List.range sigSpec.length) sigSpec).map fun (i, s) => if s == "n" then .null else .ext i
    let t : STxn := ⟨(List.range ux.length).map (· + 101), 5, 7, field "inner=" ws == "ok", sigs⟩
    let m := match signTxn w t idx ux with
      | .ok t' => s!"ok sigs={showSigs w ux sigs t'.sigs} ins=same outs=same inner=same hdr=same orig=same"
      | .err e => s!"err {e.toString} orig=same"
      | .panic _ => "panic"
    -- the property on the implementation's answer
    let wellFormedTxn := sigs.length == ux.length
    if impl.startsWith "panic" then (m, if wellFormedTxn then .fail else .unknown)
    else if impl.startsWith "err" then (m, if impl.endsWith "orig=same" then .unknown else .fail)
    else
      let iw := impl.splitOn " "
      let got := items (field "sigs=" iw)
      let S : List Nat := if idx.isEmpty then (List.range sigs.length).filter (fun i => sigs[i]? == some Sig.null)
                          else idx.map Int.toNat
      let expect := (List.range sigs.length).map fun i =>
        if S.contains i then "s" else if sigs[i]? == some Sig.null then "n" else "k"
      let good := got == expect && field "ins=" iw == "same" && field "outs=" iw == "same" &&
        field "inner=" iw == "same" && field "hdr=" iw == "same" && field "orig=" iw == "same" &&
        !enc && typ != "xpub"
      (m, if good then .unknown else .fail)

/-- owners (entry index) of the six funded outputs of each wallet of the visor world -/
def fundedOwners : List Nat := [0, 1, 0, 2, 1, 2]

/-- `vsign`: Visor.WalletSignTransaction must behave as wallet.SignTransaction on the (unlocked)
wallet: same spec, and resubmitting the same request on the result is refused -/
def stepVsign (ws : List String) (impl : String) : String × Verdict :=
  let ux := (items (field "ux=" ws)).map fun (f : String) =>
    match (f.drop 1).toString.toNat? with
    | some j => s!"e{fundedOwners.getD j 0}"
    | none => "e0"
  let signOp := ["sign", "wallet=deterministic:00:3:0", "nent=3", "ux=" ++ (if ux.isEmpty then "-" else ",".intercalate ux),
                 "sigs=" ++ field "sigs=" ws, "idx=" ++ field "idx=" ws, "inner=ok"]
  let (mainImpl, againImpl) := match impl.splitOn " again=" with
    | [a, b] => (a, some b)
    | _ => (impl, none)
  let (m, v) := stepSign signOp mainImpl
  let expect := if m.startsWith "ok" then m ++ " again=err Error(other)" else m
  let againBad := match againImpl with
    | some b => !b.startsWith "err"
    | none => false
  (expect, if againBad then .fail else v)

def step (op impl : String) : String × Verdict :=
  let ws := op.splitOn " "
  if ws.head? == some "csign" then stepCsign ws
  else if ws.head? == some "vsign" then stepVsign ws impl
  else stepSign ws impl

end Sky.C13

def main : IO Unit := Sky.Drv.loopPure Sky.C13.step
