/-
  C25 model (core Lean only, executable):

    IntroductionMessage.Verify            src/daemon/messages.go   — the checks IN THE CODE'S ORDER, each with its disconnect reason;
                                          every slice expression of the Go code is an explicit `slice` that can PANIC
    params.VerifyTxn.Validate             src/params/verify_txn.go
    encoder.DeserializeString / DeserializeRawExact   = Sky.Codec.dec (.str 256) / decExact (u32 ⊗ u32 ⊗ u8)
    useragent.Sanitize / Parse            src/util/useragent       — grammar by hand (regexp + blang/semver.Parse)
    Daemon.onMessageEvent                 src/daemon/daemon.go     — the pre-introduction gate
-/
import Sky.Codec.Basic
namespace Sky.C25
open Sky.Codec

/-! ### outcomes -/

/-- normal result, disconnect reason, or run-time panic (slice bounds) -/
inductive VRes (α : Type) where
  | ok (a : α)
  | err (r : String)
  | panic (why : String)
deriving Repr, DecidableEq

/-- Go `b[lo:hi]` -/
def slice (b : Bytes) (lo hi : Nat) : Option Bytes :=
  if lo ≤ hi ∧ hi ≤ b.length then some ((b.take hi).drop lo) else none

/-! ### user agent (util/useragent + blang/semver) -/

def chr (c : Char) : Nat := c.toNat
def isDigit (b : Nat) : Bool := decide (48 ≤ b ∧ b ≤ 57)
def isAlpha (b : Nat) : Bool := decide ((65 ≤ b ∧ b ≤ 90) ∨ (97 ≤ b ∧ b ≤ 122))
def isAlnum (b : Nat) : Bool := isDigit b || isAlpha b

/-- `IllegalChars` = `<>&"'#@|{}` + backtick -/
def illegalChars : List Nat := [60, 62, 38, 34, 39, 35, 64, 124, 123, 125, 96]
/-- `[[:print:]]` = 0x20 … 0x7e -/
def isPrint (b : Nat) : Bool := decide (32 ≤ b ∧ b ≤ 126)

/-- `Sanitize`: drop every byte that is not printable ASCII or is an illegal character (the regexp works on
runes, but every byte of a multi-byte or invalid sequence is ≥ 0x80 and is dropped either way). -/
def sanitize (s : Bytes) : Bytes := s.filter fun b => isPrint b && !illegalChars.contains b

/-- `NamePattern` `[A-Za-z0-9\-_+]+` -/
def nameChar (b : Nat) : Bool := isAlnum b || b == 45 || b == 95 || b == 43
/-- tail of `VersionPattern` `[A-Za-z0-9\-.+]*` -/
def versionChar (b : Nat) : Bool := isAlnum b || b == 45 || b == 46 || b == 43
/-- `RemarkPattern` `[A-Za-z0-9\-_+;:!$%,.=?~ ]+` -/
def remarkChar (b : Nat) : Bool :=
  isAlnum b || [45, 95, 43, 59, 58, 33, 36, 37, 44, 46, 61, 63, 126, 32].contains b

/-- split at the first occurrence of `c` -/
def splitFirst (c : Nat) : Bytes → Option (Bytes × Bytes)
  | [] => none
  | b :: bs => if b = c then some ([], bs) else (splitFirst c bs).map fun (x, y) => (b :: x, y)

/-- `strings.Split(s, sep)` -/
def splitAll (c : Nat) (s : Bytes) : List Bytes :=
  let rec go : Bytes → Bytes → List Bytes → List Bytes
    | [], cur, acc => (cur.reverse :: acc).reverse
    | b :: bs, cur, acc => if b = c then go bs [] (cur.reverse :: acc) else go bs (b :: cur) acc
  go s [] []

def digitsVal (s : Bytes) : Nat := s.foldl (fun a b => a * 10 + (b - 48)) 0

/-- a semver numeric field: digits only, no leading zero, `strconv.ParseUint(…, 10, 64)` succeeds -/
def numOK (s : Bytes) : Bool :=
  !s.isEmpty && s.all isDigit && !(decide (s.length > 1) && s.head? == some 48) && decide (digitsVal s < 2 ^ 64)

/-- semver `alphanum` = letters, digits and '-' -/
def semAlnum (b : Nat) : Bool := isAlnum b || b == 45

/-- `semver.NewPRVersion` -/
def preOK (s : Bytes) : Bool :=
  !s.isEmpty && (if s.all isDigit then numOK s else s.all semAlnum)

def buildOK (s : Bytes) : Bool := !s.isEmpty && s.all semAlnum

/-- `semver.Parse(major.minor.patchPart)` where major/minor contain no '.', as the user-agent pattern ensures -/
def semverOK (major minor patchPart : Bytes) : Bool :=
  let (beforePlus, build) := match splitFirst 43 patchPart with
    | some (x, y) => (x, some y)
    | none => (patchPart, none)
  let (patch, pre) := match splitFirst 45 beforePlus with
    | some (x, y) => (x, some y)
    | none => (beforePlus, none)
  numOK major && numOK minor && numOK patch &&
  (match pre with | some p => (splitAll 46 p).all preOK | none => true) &&
  (match build with | some p => (splitAll 46 p).all buildOK | none => true)

structure UserAgent where
  coin : Bytes
  version : Bytes
  remark : Bytes
deriving DecidableEq, Repr

/-- `useragent.Parse` on an already sanitized string: `^(NAME):(VERSION)(\(REMARK\))?$` then `semver.Parse(VERSION)`. -/
def parseUA (s : Bytes) : Option UserAgent :=
  if s.isEmpty then none                       -- ErrEmpty
  else if s.length > 256 then none             -- validate: ErrTooLong (cannot happen after maxlen=256)
  else match splitFirst 58 s with              -- ':' — NAME cannot contain one
    | none => none
    | some (name, rest) =>
      if name.isEmpty || !name.all nameChar then none else
      -- VERSION cannot contain '(' : the first one (if any) opens the remark, which must close at the very end
      let vr : Option (Bytes × Bytes) := match splitFirst 40 rest with
        | none => some (rest, [])
        | some (v, r) =>
          match r.reverse with
          | 41 :: rm => let remark := rm.reverse
                        if remark.isEmpty || !remark.all remarkChar then none else some (v, remark)
          | _ => none
      match vr with
      | none => none
      | some (v, remark) =>
        -- [0-9]+ \. [0-9]+ \. [0-9][A-Za-z0-9\-.+]*
        match splitFirst 46 v with
        | none => none
        | some (major, r1) =>
          match splitFirst 46 r1 with
          | none => none
          | some (minor, patchPart) =>
            if major.isEmpty || !major.all isDigit || minor.isEmpty || !minor.all isDigit then none
            else match patchPart with
              | [] => none
              | p0 :: _ =>
                if !isDigit p0 || !patchPart.all versionChar then none
                else if semverOK major minor patchPart then some ⟨name, v, remark⟩ else none

/-! ### IntroductionMessage.Verify -/

structure Cfg where
  mirror : Nat
  minVersion : Int
  pubkey : Bytes          -- 33 bytes
deriving Repr

structure Intro where
  mirror : Nat
  port : Nat
  version : Int
  extra : Bytes
deriving Repr

structure Parsed where
  burnFactor : Nat
  maxTxnSize : Nat
  maxDropletPrecision : Nat
  userAgent : UserAgent
  genesisHash : Bytes     -- 32 bytes (zero if not sent)
deriving DecidableEq, Repr

/-- params.MinBurnFactor, params.MinTransactionSize, droplet.Exponent, useragent.MaxLen, len(cipher.PubKey), len(SHA256) -/
def minBurnFactor : Nat := 2
def minTransactionSize : Nat := 1024
def dropletExponent : Nat := 6
def userAgentMaxLen : Nat := 256
def pubkeyLen : Nat := 33
def hashLen : Nat := 32

abbrev VerifyTxnTy : Ty := .pair .u32 (.pair .u32 .u8)

/-- `copy(intro.GenesisHash[:], intro.Extra[i:])` into a zero array -/
def copyInto (n : Nat) (src : Bytes) : Bytes := src.take n ++ List.replicate (n - src.length) 0

def verifyIntro (cfg : Cfg) (m : Intro) : VRes Parsed :=
  if m.mirror = cfg.mirror then .err "ErrDisconnectSelf"
  else if m.version < cfg.minVersion then .err "ErrDisconnectVersionNotSupported"
  else
    let extraLen := m.extra.length
    if extraLen = 0 then .err "ErrDisconnectBlockchainPubkeyNotProvided"
    else if extraLen < pubkeyLen then .err "ErrDisconnectInvalidExtraData"
    else match slice m.extra 0 pubkeyLen with             -- intro.Extra[:len(bcPubKey)]
      | none => .panic "Extra[:33]"
      | some pk =>
        if cfg.pubkey ≠ pk then .err "ErrDisconnectBlockchainPubkeyNotMatched"
        else
          let i := pubkeyLen
          if extraLen < i + 9 then .err "ErrDisconnectInvalidExtraData"
          else match slice m.extra i (i + 9) with          -- intro.Extra[i:i+9]
            | none => .panic "Extra[i:i+9]"
            | some pb =>
              match decExact VerifyTxnTy pb with
              | .error _ => .err "ErrDisconnectInvalidExtraData"
              | .ok (burn, maxSize, prec) =>
                let i := i + 9
                if burn < minBurnFactor then .err "ErrDisconnectInvalidBurnFactor"
                else if maxSize < minTransactionSize then .err "ErrDisconnectInvalidMaxTransactionSize"
                else if prec > dropletExponent then .err "ErrDisconnectInvalidMaxDropletPrecision"
                else match slice m.extra i extraLen with   -- intro.Extra[i:]
                  | none => .panic "Extra[i:]"
                  | some uaSer =>
                    match dec (.str userAgentMaxLen) uaSer with
                    | .err _ _ => .err "ErrDisconnectInvalidExtraData"
                    | .ok uaRaw rest =>
                      match parseUA (sanitize uaRaw) with
                      | none => .err "ErrDisconnectInvalidUserAgent"
                      | some ua =>
                        let i := i + (uaSer.length - rest.length)    -- i += int(userAgentLen)
                        let remainingLen := extraLen - i
                        if 0 < remainingLen ∧ remainingLen < hashLen then .err "ErrDisconnectInvalidExtraData"
                        else match slice m.extra i extraLen with   -- intro.Extra[i:]
                          | none => .panic "Extra[i:] (genesis hash)"
                          | some g => .ok ⟨burn, maxSize, prec, ua, copyInto hashLen g⟩

/-! ### the pre-introduction gate (Daemon.onMessageEvent) -/

inductive MsgKind where
  | intr | getp | givp | ping | disc | getb | givb | annb | gett | givt | annt
deriving DecidableEq, Repr

inductive GateOutcome where
  | dropped                  -- no such connection / gnet id of an older connection: message ignored
  | disconnectNoIntroduction -- dm.Disconnect(addr, ErrDisconnectNoIntroduction); message NOT processed
  | processed                -- e.Message.process(dm)
deriving DecidableEq, Repr

/-- `conn` = the entry of `dm.connections` for the message's address: its gnet id and whether it has introduced -/
def gate (conn : Option (Nat × Bool)) (ctxGnetID : Nat) (k : MsgKind) : GateOutcome :=
  match conn with
  | none => .dropped
  | some (gnetID, introduced) =>
    if gnetID ≠ ctxGnetID then .dropped
    else if !introduced && !(k == .intr || k == .disc || k == .givp) then .disconnectNoIntroduction
    else .processed

/-- IntroductionMessage.process up to the state change: `Verify` fails → disconnect with its reason, the
connection stays as it was; otherwise `connections.introduced` is attempted (C24's state machine, a parameter). -/
inductive IntroOutcome where
  | disconnect (reason : String)
  | tryIntroduce (p : Parsed)
  | panic
deriving DecidableEq, Repr

def processIntro (cfg : Cfg) (m : Intro) : IntroOutcome :=
  match verifyIntro cfg m with
  | .err r => .disconnect r
  | .panic _ => .panic
  | .ok p => .tryIntroduce p

end Sky.C25
