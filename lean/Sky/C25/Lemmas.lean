/-
  C25 lemmas: every slice expression of IntroductionMessage.Verify is within bounds; what Verify accepts.
-/
import Sky.C25.Model
import Sky.Codec.Lemmas
namespace Sky.C25
open Sky.Codec

theorem slice_some (b : Bytes) (lo hi : Nat) (h1 : lo ≤ hi) (h2 : hi ≤ b.length) :
    slice b lo hi = some ((b.take hi).drop lo) := by simp [slice, h1, h2]

theorem slice_length {b s : Bytes} {lo hi : Nat} (h : slice b lo hi = some s) : s.length = hi - lo := by
  unfold slice at h
  split at h
  · rename_i hc; injection h with h; subst h; simp [List.length_take]; omega
  · cases h

/-- a `dec` result's remainder is never longer than the input -/
theorem dec_str_rest_le (m : Nat) (bs v rest : Bytes) (h : dec (.str m) bs = .ok v rest) : rest.length ≤ bs.length := by
  simp only [dec] at h
  cases h' : readLen bs with
  | err e n => rw [h'] at h; cases h
  | ok len r =>
    rw [h'] at h; simp only at h
    have hr : r.length ≤ bs.length := by
      simp only [readLen] at h'
      cases h'' : readLE 4 bs with
      | err e n => rw [h''] at h'; cases h'
      | ok x r2 =>
        rw [h''] at h'; simp only at h'
        split at h'
        · injection h' with h1 h2; subst h2
          simp only [readLE] at h''
          cases h3 : readN 4 bs with
          | err e n => rw [h3] at h''; cases h''
          | ok a r3 =>
            rw [h3] at h''; simp only [DRes.map] at h''; injection h'' with _ h5; subst h5
            have := (readN_ok h3).1; rw [← this]; simp
        · cases h'
    split at h
    · cases h
    · injection h with h1 h2; subst h2; simp only [List.length_drop]; omega

theorem ite_ne_panic {α} {c : Prop} [Decidable c] {a b : VRes α} {w : String} (ha : a ≠ .panic w) (hb : b ≠ .panic w) :
    (if c then a else b) ≠ .panic w := by
  split <;> assumption

/-- **no panic for any Extra**: every slice expression of `Verify` is guarded. -/
theorem verifyIntro_no_panic (cfg : Cfg) (m : Intro) (w : String) : verifyIntro cfg m ≠ .panic w := by
  unfold verifyIntro
  simp only [pubkeyLen, hashLen]
  by_cases h1 : m.mirror = cfg.mirror
  · simp [h1]
  by_cases h2 : m.version < cfg.minVersion
  · simp [h1, h2]
  by_cases h3 : m.extra.length = 0
  · simp [h1, h2, h3]
  by_cases h4 : m.extra.length < 33
  · simp [h1, h2, h3, h4]
  simp only [h1, h2, h3, h4, if_false, slice_some m.extra 0 33 (by omega) (by omega), List.drop_zero, ne_eq]
  by_cases h5 : ¬ cfg.pubkey = m.extra.take 33
  · simp [h5]
  by_cases h6 : m.extra.length < 33 + 9
  · simp [h5, h6]
  simp only [h5, h6, if_false, slice_some m.extra 33 (33 + 9) (by omega) (by omega)]
  cases hp : decExact VerifyTxnTy ((m.extra.take (33 + 9)).drop 33) with
  | error e => simp
  | ok v =>
    obtain ⟨burn, maxSize, prec⟩ := v
    simp only
    by_cases h7 : burn < minBurnFactor
    · simp [h7]
    by_cases h8 : maxSize < minTransactionSize
    · simp [h7, h8]
    by_cases h9 : prec > dropletExponent
    · simp [h7, h8, h9]
    simp only [h7, h8, h9, if_false, slice_some m.extra (33 + 9) m.extra.length (by omega) (by omega)]
    cases hd : dec (Ty.str userAgentMaxLen) ((m.extra.take m.extra.length).drop (33 + 9)) with
    | err e k => simp
    | ok uaRaw rest =>
      simp only
      cases hu : parseUA (sanitize uaRaw) with
      | none => simp
      | some ua =>
        simp only
        have hle := dec_str_rest_le _ _ _ _ hd
        have hl : ((m.extra.take m.extra.length).drop (33 + 9)).length = m.extra.length - 42 := by simp
        rw [slice_some m.extra _ m.extra.length (by omega) (by omega)]
        exact ite_ne_panic (by simp) (by simp)

/-- the remainder of a string decode is a suffix of the input -/
theorem dec_str_rest_suffix (m : Nat) (bs v rest : Bytes) (h : dec (.str m) bs = .ok v rest) :
    bs.drop (bs.length - rest.length) = rest := by
  simp only [dec] at h
  cases h' : readLen bs with
  | err e n => rw [h'] at h; cases h
  | ok len r =>
    rw [h'] at h; simp only at h
    have hlen := readLen_le' h'
    have hr : bs.drop 4 = r ∧ 4 ≤ bs.length := by
      simp only [readLen] at h'
      cases h'' : readLE 4 bs with
      | err e n => rw [h''] at h'; cases h'
      | ok x r2 =>
        rw [h''] at h'; simp only at h'
        split at h'
        · injection h' with h1 h2; subst h2
          simp only [readLE] at h''
          cases h3 : readN 4 bs with
          | err e n => rw [h3] at h''; cases h''
          | ok a r3 =>
            rw [h3] at h''; simp only [DRes.map] at h''; injection h'' with _ h5; subst h5
            obtain ⟨e1, e2⟩ := readN_ok h3
            rw [← e1]; simp [e2]
        · cases h'
    split at h
    · cases h
    · injection h with h1 h2; subst h2
      obtain ⟨hr1, hr2⟩ := hr
      subst hr1
      have hlen' : len ≤ bs.length - 4 := by simpa using hlen
      simp only [List.length_drop, List.drop_drop]
      congr 1
      omega
where
  readLen_le' {bs r : Bytes} {len : Nat} (hl : readLen bs = .ok len r) : len ≤ r.length := by
    simp only [readLen] at hl
    cases hr : readLE 4 bs with
    | err e n => rw [hr] at hl; cases hl
    | ok x r2 =>
      rw [hr] at hl; simp only at hl
      split at hl
      · rename_i hg; injection hl with h1 h2; subst h1 h2; exact (lenGe_iff _ _).1 hg
      · cases hl

/-- `Verify` without slice expressions: the same checks on `take`/`drop` -/
def verifySpec (cfg : Cfg) (m : Intro) : VRes Parsed :=
  if m.mirror = cfg.mirror then .err "ErrDisconnectSelf"
  else if m.version < cfg.minVersion then .err "ErrDisconnectVersionNotSupported"
  else if m.extra.length = 0 then .err "ErrDisconnectBlockchainPubkeyNotProvided"
  else if m.extra.length < 33 then .err "ErrDisconnectInvalidExtraData"
  else if ¬ cfg.pubkey = m.extra.take 33 then .err "ErrDisconnectBlockchainPubkeyNotMatched"
  else if m.extra.length < 42 then .err "ErrDisconnectInvalidExtraData"
  else match decExact VerifyTxnTy ((m.extra.take 42).drop 33) with
    | .error _ => .err "ErrDisconnectInvalidExtraData"
    | .ok (burn, maxSize, prec) =>
      if burn < minBurnFactor then .err "ErrDisconnectInvalidBurnFactor"
      else if maxSize < minTransactionSize then .err "ErrDisconnectInvalidMaxTransactionSize"
      else if prec > dropletExponent then .err "ErrDisconnectInvalidMaxDropletPrecision"
      else match dec (.str userAgentMaxLen) (m.extra.drop 42) with
        | .err _ _ => .err "ErrDisconnectInvalidExtraData"
        | .ok uaRaw rest =>
          match parseUA (sanitize uaRaw) with
          | none => .err "ErrDisconnectInvalidUserAgent"
          | some ua =>
            if 0 < rest.length ∧ rest.length < 32 then .err "ErrDisconnectInvalidExtraData"
            else .ok ⟨burn, maxSize, prec, ua, copyInto 32 rest⟩

theorem verifyIntro_eq_spec (cfg : Cfg) (m : Intro) : verifyIntro cfg m = verifySpec cfg m := by
  unfold verifyIntro verifySpec
  simp only [pubkeyLen, hashLen]
  by_cases h1 : m.mirror = cfg.mirror
  · simp [h1]
  by_cases h2 : m.version < cfg.minVersion
  · simp [h1, h2]
  by_cases h3 : m.extra.length = 0
  · simp [h1, h2, h3]
  by_cases h4 : m.extra.length < 33
  · simp [h1, h2, h3, h4]
  simp only [h1, h2, h3, h4, if_false, slice_some m.extra 0 33 (by omega) (by omega), List.drop_zero, ne_eq]
  by_cases h5 : ¬ cfg.pubkey = m.extra.take 33
  · simp [h5]
  by_cases h6 : m.extra.length < 33 + 9
  · have h6' : m.extra.length < 42 := h6
    simp [h5, h6]
  have h6' : ¬ m.extra.length < 42 := h6
  simp only [h5, h6, if_false, slice_some m.extra 33 (33 + 9) (by omega) (by omega)]
  cases hp : decExact VerifyTxnTy ((m.extra.take (33 + 9)).drop 33) with
  | error e => rfl
  | ok v =>
    obtain ⟨burn, maxSize, prec⟩ := v
    simp only
    by_cases h7 : burn < minBurnFactor
    · simp [h7]
    by_cases h8 : maxSize < minTransactionSize
    · simp [h7, h8]
    by_cases h9 : prec > dropletExponent
    · simp [h7, h8, h9]
    simp only [h7, h8, h9, if_false, slice_some m.extra (33 + 9) m.extra.length (by omega) (by omega), List.take_length]
    cases hd : dec (Ty.str userAgentMaxLen) (m.extra.drop (33 + 9)) with
    | err e k => rfl
    | ok uaRaw rest =>
      simp only
      cases hu : parseUA (sanitize uaRaw) with
      | none => rfl
      | some ua =>
        simp only
        have hle := dec_str_rest_le _ _ _ _ hd
        have hsuf := dec_str_rest_suffix _ _ _ _ hd
        have hl : (m.extra.drop (33 + 9)).length = m.extra.length - 42 := by simp
        have hrem : m.extra.length - (33 + 9 + ((m.extra.drop (33 + 9)).length - rest.length)) = rest.length := by omega
        rw [slice_some m.extra _ m.extra.length (by omega) (by omega)]
        simp only [hrem, List.take_length]
        have hg : m.extra.drop (33 + 9 + ((m.extra.drop (33 + 9)).length - rest.length)) = rest := by
          rw [← List.drop_drop, hsuf]
        rw [hg]

end Sky.C25
