/-
  C25 driver: answers harness/c25 from Sky.C25.Model.

  verify: the model IS the property's right-hand side (Verify ok ⇔ own key, supported version, valid parameters, valid
          user agent, not ourselves), so any difference in accept/reject or a panic is `fail`; a different reason or
          different parsed fields is `hold` (reason order is compared, not part of the property).
  gate:   `fail` when the implementation lets a non-INTR/DISC/GIVP message through before introduction, lets an
          introduction that fails Verify introduce the connection, or panics; other differences `hold`.
-/
import Sky.Prim.DrvLib
import Sky.C25.Model
namespace Sky.C25
open Sky Sky.Drv Sky.Codec

def showVerify : VRes Parsed → String
  | .ok p => "ok " ++ toString p.burnFactor ++ " " ++ toString p.maxTxnSize ++ " " ++ toString p.maxDropletPrecision ++ " " ++
      hexOf p.userAgent.coin ++ "," ++ hexOf p.userAgent.version ++ "," ++ hexOf p.userAgent.remark ++ " " ++ hexOf p.genesisHash
  | .err r => "err " ++ r
  | .panic _ => "panic"

def parseIntro (f : List String) : Option (Cfg × Intro) :=
  match f with
  | [cm, mv, pk, m, p, v, e] => do
    let cm ← cm.toNat?; let mv ← mv.toInt?; let pk ← hex? pk
    let m ← m.toNat?; let p ← p.toNat?; let v ← v.toInt?; let e ← hex? e
    pure (⟨cm, mv, pk⟩, ⟨m, p, v, e⟩)
  | _ => none

def kindOf : String → Option MsgKind
  | "intr" => some .intr | "getp" => some .getp | "givp" => some .givp | "ping" => some .ping | "disc" => some .disc
  | "getb" => some .getb | "givb" => some .givb | "annb" => some .annb | "gett" => some .gett | "givt" => some .givt
  | "annt" => some .annt | _ => none

/-- the connection table entry the harness sets up: (gnet id, introduced) ; a pending (outgoing, not yet
connected) connection has gnet id 0 -/
def connOf (state : String) : Option (Nat × Bool) :=
  if state == "none" then none
  else if state == "pending" then some (0, false)
  else if state == "connected" then some (7, false)
  else some (7, true)

def stepGate (state idm kind : String) (rest : List String) (impl : String) : String × Verdict :=
  let ctx : Nat := if idm == "1" then 7 else 8
  let conn := connOf state
  if impl.startsWith "panic" then ("-", .fail) else
  if kind == "spy" then
    -- a message type the gate's type switch does not list
    let g := gate conn ctx .ping
    let m := match g with
      | .dropped => "spy=0 sent=- state=" ++ state
      | .disconnectNoIntroduction => "spy=0 sent=ErrDisconnectNoIntroduction state=" ++ state
      | .processed => "spy=1 sent=- state=" ++ state
    -- property: before introduction such a message must not be processed
    let bad := (conn.map (·.2) == some false) && impl.startsWith "spy=1"
    (m, if bad then .fail else .hold)
  else if kind == "intr" then
    match parseIntro rest with
    | none => ("bad-op", .unknown)
    | some (cfg, m) =>
      let g := gate conn ctx .intr
      let out := match g with
        | .dropped | .disconnectNoIntroduction => "sent=- state=" ++ state
        | .processed =>
          match processIntro cfg m with
          | .disconnect r => "sent=" ++ r ++ " state=" ++ state
          | .panic => "panic"
          | .tryIntroduce _ =>
            -- Connections.introduced (C24): only a connected, not yet introduced connection changes state
            "sent=- state=" ++ (if state == "connected" then "introduced" else state)
      -- property: the connection may become introduced only if Verify accepts
      let becameIntroduced := state != "introduced" && (impl.splitOn "state=introduced").length > 1
      let verifyOk := match verifyIntro cfg m with | .ok _ => true | _ => false
      (out, if becameIntroduced && !verifyOk then .fail else .hold)
  else
    match kindOf kind with
    | none => ("bad-op", .unknown)
    | some k =>
      let g := gate conn ctx k
      let m := if g == .disconnectNoIntroduction then "blocked=1" else "blocked=0"
      -- property: not introduced and not INTR/DISC/GIVP ⇒ disconnect
      (m, if m == "blocked=1" && impl == "blocked=0" then .fail else .hold)

def step (op impl : String) : String × Verdict :=
  match op.splitOn " " with
  | "verify" :: rest =>
    match parseIntro rest with
    | none => ("bad-op", .unknown)
    | some (cfg, m) =>
      let out := showVerify (verifyIntro cfg m)
      let v := if impl.startsWith "panic" || (impl.startsWith "ok" != out.startsWith "ok") then Verdict.fail else .hold
      (out, v)
  | "gate" :: state :: idm :: kind :: rest => stepGate state idm kind rest impl
  | _ => ("bad-op", .unknown)

end Sky.C25

def main : IO Unit := Sky.Drv.loopPure Sky.C25.step
