/-
  C19 — the wallet service's memory and disk views.  Core Lean only.

  Abstract service state: `mem`, `disk : Id ⇀ Wallet` (association lists keyed by file name),
  `fps : fingerprint ⇀ Id`, `unloaded` ids.  Every mutating `Service` method is "get a clone, run
  the checks and the wallet-level mutation on the clone, `Save`, then `wallets.set`" — modelled as
  `pre-checks → commit`.  `Save` is atomic here (C20).  A wallet is abstracted to what the
  service bookkeeping and the canonical dump observe.
-/
namespace Sky.C19

inductive WType | deterministic | bip44 | collection
deriving DecidableEq, Repr

structure AW where
  typ : WType
  label : String
  seed : Nat              -- seed tag; the fingerprint is a function of (type, seed)
  enc : Option Nat        -- some pw = encrypted with password tag pw
  temp : Bool
  next : Nat              -- entries on the (external) chain
  nchg : Nat              -- change-chain entries (bip44)
deriving DecidableEq, Repr

/-- `Wallet.Fingerprint()`: collection wallets have none -/
def AW.fp (w : AW) : Option (WType × Nat) :=
  match w.typ with
  | .collection => none
  | t => some (t, w.seed)

abbrev Id := String
abbrev Map := List (Id × AW)

def Map.get (m : Map) (id : Id) : Option AW := (m.find? (·.1 = id)).map (·.2)
def Map.remove (m : Map) (id : Id) : Map := m.filter (·.1 ≠ id)
def Map.set (m : Map) (id : Id) (w : AW) : Map := (id, w) :: m.remove id

structure St where
  mem : Map := []
  disk : Map := []
  fps : List ((WType × Nat) × Id) := []
  unloaded : List Id := []
deriving Repr

inductive E
  | notExist | nameConflict | fpConflict | encTemp | missingPassword | invalidPassword
  | encrypted | notEncrypted | notRecoverable | seedWrong | other (s : String)
deriving DecidableEq, Repr

/-- password tag 0 = the empty password -/
abbrev Pw := Nat

/-- mutate-clone / Save / set -/
def commit (s : St) (id : Id) (w : AW) : St :=
  { s with mem := s.mem.set id w, disk := if w.temp then s.disk else s.disk.set id w }

/-- a new wallet enters the service: memory, disk (unless temporary), fingerprint table -/
def addNew (s : St) (id : Id) (w : AW) : St :=
  { commit s id w with
    fps := (match w.fp with | some f => (f, id) :: s.fps | none => s.fps),
    unloaded := if w.temp then s.unloaded else s.unloaded.filter (· ≠ id) }

/-- `delete(serv.fingerprints, fp)` -/
def dropFp (fps : List ((WType × Nat) × Id)) (w : AW) : List ((WType × Nat) × Id) :=
  match w.fp with
  | some f => fps.filter (fun p => p.1 ≠ f)
  | none => fps

/-- the service's fingerprint conflict check -/
def fpTaken (s : St) (w : AW) : Bool :=
  match w.fp with
  | some f => s.fps.any (·.1 = f)
  | none => false

inductive Op
  | create (id : Id) (typ : WType) (seed : Nat) (label : String) (n : Nat) (encrypt : Bool) (pw : Pw) (temp : Bool)
  | newAddr (id : Id) (n : Nat) (pw : Pw)
  | scan (id : Id) (n keep keepChg : Nat) (pw : Pw)
  | label (id : Id) (l : String)
  | encrypt (id : Id) (pw : Pw)
  | decrypt (id : Id) (pw : Pw)
  | recover (id : Id) (seed : Nat) (pw : Pw)
  | unload (id : Id)
  | update (id : Id) (l : Option String)              -- callback sets the label, or fails (none)
  | updateSecrets (id : Id) (pw : Pw) (l : Option String)
  | getSeed (id : Id) (pw : Pw)      -- GetWalletSeed: read only
  | view (id : Id) (pw : Pw)         -- ViewSecrets with a reading callback: read only
deriving Repr

/-- the password gate of NewAddresses / ScanAddresses(non-bip44) / UpdateSecrets -/
def guard (w : AW) (pw : Pw) : Option E :=
  match w.enc with
  | some p => if pw = 0 then some .missingPassword else if pw ≠ p then some .invalidPassword else none
  | none => if pw ≠ 0 then some .notEncrypted else none

def step (s : St) : Op → St × Option E
  | .create id typ seed label n encrypt pw temp =>
    -- creator: wallet-level validation (a password without `Encrypt` is dropped by convertOptions),
    -- then the service's fingerprint and name checks
    if label = "" then (s, some (.other "ErrMissingLabel"))
    else if encrypt ∧ temp then (s, some .encTemp)
    else if encrypt ∧ pw = 0 then
      -- bip44wallet.NewWallet returns an ad-hoc error here, the other creators wallet.ErrMissingPassword
      (s, some (if typ = .bip44 then .other "missing password for encrypting wallet" else .missingPassword))
    else
      let w : AW := ⟨typ, label, seed, if encrypt then some pw else none, temp,
                     if typ = .collection then 0 else (if n = 0 then 1 else n), if typ = .bip44 then 1 else 0⟩
      if fpTaken s w then (s, some .fpConflict)
      else if (s.mem.get id).isSome then (s, some .nameConflict)
      else (addNew s id w, none)
  | .newAddr id n pw =>
    match s.mem.get id with
    | none => (s, some .notExist)
    | some w =>
      let g := if w.enc.isSome ∧ w.typ = .bip44 then none else guard w pw
      match g with
      | some e => (s, some e)
      | none => (commit s id { w with next := if w.typ = .collection then w.next else w.next + n }, none)
  | .scan id n keep keepChg pw =>
    match s.mem.get id with
    | none => (s, some .notExist)
    | some w =>
      if w.typ = .bip44 then
        if pw ≠ 0 then (s, some (.other "password is not required for scanning bip44"))
        else (commit s id (if n = 0 then w else { w with next := w.next + keep, nchg := w.nchg + keepChg }), none)
      else match guard w pw with
        | some e => (s, some e)
        | none =>
          if w.typ = .collection then (s, some (.other "collection wallet does not implement ScanAddresses"))
          else (commit s id (if n = 0 then w else { w with next := w.next + keep }), none)
  | .label id l =>
    match s.mem.get id with
    | none => (s, some .notExist)
    | some w => (commit s id { w with label := l }, none)
  | .encrypt id pw =>
    match s.mem.get id with
    | none => (s, some .notExist)
    | some w =>
      if w.enc.isSome then (s, some .encrypted)
      else if w.temp then (s, some .encTemp)
      else if pw = 0 then (s, some .missingPassword)
      else (commit s id { w with enc := some pw }, none)
  | .decrypt id pw =>
    match s.mem.get id with
    | none => (s, some .notExist)
    | some w =>
      match w.enc with
      | none => (s, some .notEncrypted)
      | some p =>
        if pw = 0 then (s, some .missingPassword)
        else if pw ≠ p then (s, some .invalidPassword)
        else (commit s id { w with enc := none }, none)
  | .recover id seed pw =>
    match s.mem.get id with
    | none => (s, some .notExist)
    | some w =>
      if w.enc.isNone then (s, some .notEncrypted)
      else if w.typ = .collection then (s, some .notRecoverable)
      else if seed ≠ w.seed then (s, some .seedWrong)
      else (commit s id { w with enc := if pw = 0 then none else some pw }, none)
  | .unload id =>
    match s.mem.get id with
    | none => (s, none)
    | some w =>
      ({ s with mem := s.mem.remove id,
                fps := dropFp s.fps w,
                unloaded := if w.temp then s.unloaded else id :: s.unloaded }, none)
  | .update id l =>
    match s.mem.get id with
    | none => (s, some .notExist)
    | some w =>
      match l with
      | none => (s, some (.other "callback"))
      | some l => (commit s id { w with label := l }, none)
  | .updateSecrets id pw l =>
    match s.mem.get id with
    | none => (s, some .notExist)
    | some w =>
      match guard w pw with
      | some e => (s, some e)
      | none =>
        match l with
        | none => (s, some (.other "callback"))
        | some l => (commit s id { w with label := l }, none)
  | .getSeed id pw =>
    -- GetWalletSeed: encrypted wallets only; memory and disk are never written
    match s.mem.get id with
    | none => (s, some .notExist)
    | some w =>
      match w.enc with
      | none => (s, some .notEncrypted)
      | some p =>
        if pw = 0 then (s, some .missingPassword)
        else if pw ≠ p then (s, some .invalidPassword)
        else (s, none)
  | .view id pw =>
    match s.mem.get id with
    | none => (s, some .notExist)
    | some w => (s, guard w pw)


def run (ops : List Op) : St := ops.foldl (fun s op => (step s op).1) {}

/-- what a freshly started service finds: every file of the wallet directory; it refuses to start
when two files carry the same fingerprint -/
def loadAll (disk : Map) : Option Map :=
  let fs := disk.filterMap (fun p => p.2.fp)
  if fs.Nodup then some disk else none

end Sky.C19
