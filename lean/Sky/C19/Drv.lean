/-
  C19 driver (stateful): runs the abstract service on each operation and predicts the result kind,
  the memory dump and the dump of a freshly started service on the same directory.  The PROPERTY is
  evaluated on the implementation's own line:
    fail    the fresh service cannot start (`disk=ERR`), or a non-temporary wallet in memory is
            missing/different on disk, or the disk holds a wallet that is neither loaded nor was
            unloaded, or a failed operation changed either view, or two loaded wallets share a
            fingerprint
    unknown any other difference between model and implementation
-/
import Sky.Prim.DrvLib
import Sky.C19.Model
namespace Sky.C19
open Sky Sky.Drv

structure D where
  st : St := {}
  prevMem : String := "-"
  prevDisk : String := "-"
  everUnloaded : List String := []

def typOf (s : String) : WType :=
  if s == "bip44" then .bip44 else if s == "collection" then .collection else .deterministic
def typStr : WType → String | .deterministic => "deterministic" | .bip44 => "bip44" | .collection => "collection"

def errStr : E → String
  | .notExist => "notExist" | .nameConflict => "nameConflict" | .fpConflict => "fpConflict" | .encTemp => "encTemp"
  | .missingPassword => "missingPassword" | .invalidPassword => "invalidPassword" | .encrypted => "encrypted"
  | .notEncrypted => "notEncrypted" | .notRecoverable => "notRecoverable" | .seedWrong => "seedWrong" | .other _ => "other"

def insertSorted (x : Id × AW) : List (Id × AW) → List (Id × AW)
  | [] => [x]
  | y :: r => if x.1 < y.1 then x :: y :: r else y :: insertSorted x r
def sortMap (m : Map) : Map := m.foldr insertSorted []

def dumpW (disk : Bool) (p : Id × AW) : String :=
  let w := p.2
  let fp := match w.fp with | some (t, k) => s!"{typStr t}-{k}" | none => "-"
  let b (x : Bool) : String := if x then "1" else "0"
  s!"{p.1}|{typStr w.typ}|{w.label}|{b w.enc.isSome}|{if disk then "0" else b w.temp}|{w.next}|{w.nchg}|{fp}"

def dumpM (disk : Bool) (m : Map) : String :=
  if m.isEmpty then "-" else ";".intercalate ((sortMap m).map (dumpW disk))

def field (pre : String) (ws : List String) : String :=
  match ws.find? (·.startsWith pre) with
  | some w => (w.drop pre.length).toString
  | none => "?"

def parseOp (ws : List String) : Option Op :=
  match ws with
  | [c, id, typ, seed, label, n, enc, pw, temp] =>
      if c == "create" || c == "create-after-unload" then do
        pure (.create id (typOf typ) (← seed.toNat?) (if label == "-" then "" else label) (← n.toNat?) (enc == "1") (← pw.toNat?) (temp == "1"))
      else none
  | ["newaddr", id, n, pw] => do pure (.newAddr id (← n.toNat?) (← pw.toNat?))
  | ["scan", id, n, k, kc, pw] => do pure (.scan id (← n.toNat?) (← k.toNat?) (← kc.toNat?) (← pw.toNat?))
  | ["label", id, l] => some (.label id l)
  | ["encrypt", id, pw] => do pure (.encrypt id (← pw.toNat?))
  | ["decrypt", id, pw] => do pure (.decrypt id (← pw.toNat?))
  | ["recover", id, seed, pw] => do pure (.recover id (← seed.toNat?) (← pw.toNat?))
  | ["unload", id] => some (.unload id)
  | ["update", id, l] => some (.update id (if l == "FAIL" then none else some l))
  | ["seed", id, pw] => do pure (.getSeed id (← pw.toNat?))
  | ["view", id, pw] => do pure (.view id (← pw.toNat?))
  | ["updsec", id, pw, l] => do pure (.updateSecrets id (← pw.toNat?) (if l == "FAIL" then none else some l))
  | _ => none

/-- the wallets of a dump line, as (id, rest-of-record) -/
def recs (d : String) : List (String × String) :=
  if d == "-" || d == "ERR" then [] else
  (d.splitOn ";").map fun r => match r.splitOn "|" with
    | id :: rest => (id, "|".intercalate rest)
    | [] => ("", "")

/-- same record ignoring the temp column (disk dumps always print 0 there) -/
def noTemp (r : String) : String :=
  match r.splitOn "|" with
  | [t, l, e, _, n, c, f] => "|".intercalate [t, l, e, n, c, f]
  | _ => r
def isTemp (r : String) : Bool :=
  match r.splitOn "|" with
  | [_, _, _, tmp, _, _, _] => tmp == "1"
  | _ => false
def fpOf (r : String) : String := (r.splitOn "|").getLastD "-"

def propertyOK (d : D) (unl : List String) (impl : String) : Bool :=
  let iw := impl.splitOn " "
  let mem := field "mem=" iw
  let disk := field "disk=" iw
  let mr := recs mem
  let dr := recs disk
  disk != "ERR"
  -- serialised bytes (incl. the raw secrets blob) of memory = those of a freshly started service
  && field "bytes=" iw == "ok"
  -- memory ⊆ disk (temporary wallets excepted), identical content
  && mr.all (fun (id, r) => isTemp r || dr.any (fun (id', r') => id' == id && noTemp r' == noTemp r))
  -- disk ⊆ memory ∪ unloaded
  && dr.all (fun (id, r) => mr.any (fun (id', r') => id' == id && !isTemp r' && noTemp r' == noTemp r) || unl.contains id)
  -- a failed operation changes neither view
  && (!impl.startsWith "err" || (mem == d.prevMem && disk == d.prevDisk))
  -- no two loaded wallets share a fingerprint
  && (let fps := (mr.map (fun p => fpOf p.2)).filter (· != "-"); fps.eraseDups.length == fps.length)

def dstep (d : D) (op impl : String) : D × String × Verdict :=
  let ws := op.splitOn " "
  let iw := impl.splitOn " "
  let remember (d' : D) : D := { d' with prevMem := field "mem=" iw, prevDisk := field "disk=" iw }
  match ws with
  | ["reset", _] => (remember {}, "ok mem=- disk=- bytes=ok", .fail)
  | ["get", id] =>
      let e := if (d.st.mem.get id).isSome then "ok" else "err notExist"
      let diskS := match loadAll d.st.disk with | some m => dumpM true m | none => "ERR"
      let m := e ++ s!" mem={dumpM false d.st.mem} disk={diskS} bytes=ok"
      if propertyOK d d.everUnloaded impl then (remember d, m, .unknown)
      else (remember d, "memory and a freshly started service must agree; model: " ++ m, .fail)
  | ["restart"] =>
      -- the service under test is replaced by a freshly started one on the same directory: its memory is what the
      -- directory holds (temporary wallets are gone, unloaded files are loaded again), its fingerprint index is rebuilt
      -- from those wallets; a directory it refuses leaves the running service in place
      let (s', e) : St × String := match loadAll d.st.disk with
        | some m => ({ mem := m, disk := d.st.disk, fps := m.filterMap (fun p => p.2.fp.map (fun f => (f, p.1))), unloaded := [] }, "ok")
        | none => (d.st, "err other")
      let diskS := match loadAll s'.disk with | some m => dumpM true m | none => "ERR"
      let m := e ++ s!" mem={dumpM false s'.mem} disk={diskS} bytes=ok"
      let d' := remember { d with st := s' }
      let pd : D := if e == "ok" then { d with prevMem := field "mem=" iw, prevDisk := field "disk=" iw } else d
      if propertyOK pd d.everUnloaded impl then (d', m, .unknown)
      else (d', "memory and a freshly started service must agree; model of the current source: " ++ m, .fail)
  | _ =>
    match parseOp ws with
    | none => (d, "bad-op", .unknown)
    | some o =>
      let (s', e) := Sky.C19.step d.st o
      let unl := match o with
        | .unload id => if (d.st.mem.get id).isSome then id :: d.everUnloaded else d.everUnloaded
        | _ => d.everUnloaded
      let diskS := match loadAll s'.disk with | some m => dumpM true m | none => "ERR"
      let m := (match e with | none => "ok" | some x => "err " ++ errStr x) ++ s!" mem={dumpM false s'.mem} disk={diskS} bytes=ok"
      let d' := remember { d with st := s', everUnloaded := unl }
      -- a line on which the property fails is reported even when the model predicts the same line
      if propertyOK d unl impl then (d', m, .unknown)
      else (d', "memory and a freshly started service must agree; model of the current source: " ++ m, .fail)

end Sky.C19

def main : IO Unit := Sky.Drv.loop Sky.C19.dstep {}
