/-
  Sky.C24.Legacy — the `remove` of connections.go BEFORE the F9 repair, kept as a model so that the
  defect is a machine-checked fact (see the `example`s at the end of Sky.Props.C24): the mirror
  clean-up ran for every connection (using the zero `Mirror` of a never-introduced one), zero
  counts were kept, and the listen-address clean-up looked under `ListenAddr()`.
-/
import Sky.C24.Model
namespace Sky.C24
variable (E : Env)

def removeMirrorLegacy (ms : AMap Nat (AMap String Nat)) (ip : String) (m : Nat) :
    AMap Nat (AMap String Nat) :=
  match ms.get m with
  | some x => let x' := x.erase ip; if x' = [] then ms.erase m else ms.set m x'
  | none => ms

def decCountLegacy (m : AMap String Nat) (ip : String) : AMap String Nat :=
  match m.get ip with
  | some (n + 1) => m.set ip n
  | _ => m

def stepRemoveLegacy (s : State) (a : String) (id : Nat) : State × Out :=
  match E.split a with
  | .error e => (s, .err e)
  | .ok (ip, _) =>
    match getConn s.conns a with
    | none => (s, .err "ErrConnectionNotExist")
    | some c =>
      if c.gnetID ≠ id then (s, .err "ErrConnectionGnetIDMismatch") else
      let la := if c.listenAddr E = "" then s.listenAddrs else laRemove s.listenAddrs (c.listenAddr E) a
      ({ conns := delConn s.conns a, mirrors := removeMirrorLegacy s.mirrors ip c.mirror,
         ipCounts := decCountLegacy s.ipCounts ip, gnetIDs := s.gnetIDs.erase c.gnetID,
         listenAddrs := la }, .ok)

def stepLegacy (s : State) : Ev → State × Out
  | .remove a id => stepRemoveLegacy E s a id
  | ev => step E s ev

def runLegacy (s : State) : List Ev → State
  | [] => s
  | e :: es => runLegacy (stepLegacy E s e).1 es

end Sky.C24
