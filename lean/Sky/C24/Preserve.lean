/-
  Sky.C24.Preserve — each event of the model preserves `InvCore` (unconditionally) and `InvIds`
  (under the environment assumption `EnvOK`); transitions into the introduced state are legitimate
  (`TransOK`).  Core Lean only.
-/
import Sky.C24.Lemmas
set_option linter.unusedSimpArgs false
set_option linter.unusedVariables false
namespace Sky.C24
open AMap

/-- the one fact about `split` the bookkeeping relies on: the empty string is not an address
(`net.SplitHostPort("")` fails with "missing port in address"). -/
def Env.WF (E : Env) : Prop := ∀ r, E.split "" ≠ .ok r

theorem goEnv_wf : goEnv.WF := by
  intro r h
  have : splitAddr "" = .error "other" := by rfl
  simp [goEnv, this] at h

variable (E : Env)

theorem ipOf_of_split {a ip : String} {port : Nat} (h : E.split a = .ok (ip, port)) :
    ipOf E a = some ip := by
  simp [ipOf, h]

theorem absent_of_not_isSome {cs : List Conn} {a : String} (h : ¬ (getConn cs a).isSome = true) :
    ∀ x ∈ cs, x.addr ≠ a := by
  apply getConn_none
  cases hg : getConn cs a <;> simp_all

/-! ### pending -/

theorem inv_pending (wf : E.WF) {s : State} (h : InvCore E s) (a : String) :
    InvCore E (stepPending E s a).1 := by
  unfold stepPending
  split
  · exact h
  · rename_i ip port hsp
    split
    · exact h
    · rename_i hex
      have habs := absent_of_not_isSome hex
      have hip := ipOf_of_split E hsp
      have ha : a ≠ "" := by rintro rfl; exact wf _ hsp
      apply InvCore.of
      · exact nodup_cons_of_absent h.addrNodup habs
      · intro c hc
        rcases List.mem_cons.1 hc with rfl | hc
        · simp [hip]
        · exact h.splitOk c hc
      · intro c hc
        rcases List.mem_cons.1 hc with rfl | hc
        · simp
        · exact h.pendingIff c hc
      · exact h.cinv.inc ip (fun k => ipCnt_cons E _ _ hip k)
      · apply h.minv.congr
        intro m ip' p
        simp [MRel]
      · intro x hx y hy
        rcases List.mem_cons.1 hx with rfl | hx
        · intro h1; cases h1
        · rcases List.mem_cons.1 hy with rfl | hy
          · intro _ h1; cases h1
          · exact h.mirrorUnique x hx y hy
      · apply h.linv.add a a
        · rintro ⟨_, c, hc, hca, _⟩
          exact habs c hc hca
        · intro k x
          simp only [LRel, List.mem_cons, exists_eq_or_imp, Conn.listenKey, if_true]
          constructor
          · rintro ⟨hk, (⟨rfl, rfl⟩ | hr)⟩
            · exact Or.inr ⟨rfl, rfl⟩
            · exact Or.inl ⟨hk, hr⟩
          · rintro (⟨hk, hr⟩ | ⟨rfl, rfl⟩)
            · exact ⟨hk, Or.inr hr⟩
            · exact ⟨ha, Or.inl ⟨rfl, rfl⟩⟩

/-! ### connected -/

/-- replacing the record of a held connection by one with the same address, same listen key and
the same "introduced with (mirror, port)" status leaves every conns-derived relation unchanged -/
theorem inv_put_same {s : State} (h : InvCore E s) {c c' : Conn} (hc : c ∈ s.conns)
    (ha : c'.addr = c.addr) (hk : c'.listenKey E = c.listenKey E)
    (hi : c'.state = .introduced ↔ c.state = .introduced)
    (hm : c'.mirror = c.mirror) (hp : c'.listenPort = c.listenPort)
    (hpi : c'.state = .pending ↔ c'.gnetID = 0) :
    InvCore E { s with conns := putConn s.conns c' } := by
  have nd := h.addrNodup
  apply InvCore.of
  · exact nodup_putConn nd c'
  · exact forall_put _ h.splitOk (by rw [ha]; exact h.splitOk c hc)
  · exact forall_put _ h.pendingIff hpi
  · exact h.cinv.congr (fun k => ipCnt_put E nd hc ha k)
  · apply h.minv.congr
    intro m ip p
    unfold MRel
    rw [exists_put nd hc ha]
    constructor
    · rintro (⟨h1, h2, h3, h4⟩ | ⟨x, hx, _, hr⟩)
      · exact ⟨c, hc, hi.1 h1, hm ▸ h2, ha ▸ h3, hp ▸ h4⟩
      · exact ⟨x, hx, hr⟩
    · rintro ⟨x, hx, h1, h2, h3, h4⟩
      by_cases hxc : x = c
      · subst hxc
        exact Or.inl ⟨hi.2 h1, hm.symm ▸ h2, ha.symm ▸ h3, hp.symm ▸ h4⟩
      · exact Or.inr ⟨x, hx, hxc, h1, h2, h3, h4⟩
  · -- uniqueness: map c' back to c
    have back : ∀ x ∈ putConn s.conns c', ∃ y ∈ s.conns, y.addr = x.addr ∧
        (x.state = .introduced → y.state = .introduced) ∧ y.mirror = x.mirror := by
      intro x hx
      rcases mem_putConn.1 hx with rfl | ⟨hx1, _⟩
      · exact ⟨c, hc, ha.symm, hi.1, hm.symm⟩
      · exact ⟨x, hx1, rfl, id, rfl⟩
    intro x hx y hy h1 h2 h3 h4
    obtain ⟨x', hx', hxa, hxs, hxm⟩ := back x hx
    obtain ⟨y', hy', hya, hys, hym⟩ := back y hy
    have := h.mirrorUnique x' hx' y' hy' (hxs h1) (hys h2) (by rw [hxm, hym, h3]) (by rw [hxa, hya, h4])
    have hxy : x.addr = y.addr := by rw [← hxa, ← hya, this]
    exact addr_uniq (nodup_putConn nd c') hx hy hxy
  · apply h.linv.congr
    intro k a
    unfold LRel
    rw [exists_put nd hc ha]
    constructor
    · rintro ⟨hk0, (⟨h1, h2⟩ | ⟨x, hx, _, hr⟩)⟩
      · exact ⟨hk0, c, hc, ha ▸ h1, hk ▸ h2⟩
      · exact ⟨hk0, x, hx, hr⟩
    · rintro ⟨hk0, x, hx, h1, h2⟩
      refine ⟨hk0, ?_⟩
      by_cases hxc : x = c
      · subst hxc
        exact Or.inl ⟨ha.symm ▸ h1, hk.symm ▸ h2⟩
      · exact Or.inr ⟨x, hx, hxc, h1, h2⟩

/-- adding a brand-new connection that is neither introduced nor listen-indexed -/
theorem inv_cons_plain {s : State} (h : InvCore E s) {c : Conn} {ip : String}
    (habs : ∀ x ∈ s.conns, x.addr ≠ c.addr) (hip : ipOf E c.addr = some ip)
    (hst : c.state ≠ .introduced) (hk : c.listenKey E = "")
    (hpi : c.state = .pending ↔ c.gnetID = 0) :
    InvCore E { s with conns := c :: s.conns, ipCounts := incCount s.ipCounts ip } := by
  apply InvCore.of
  · exact nodup_cons_of_absent h.addrNodup habs
  · intro x hx
    rcases List.mem_cons.1 hx with rfl | hx
    · simp [hip]
    · exact h.splitOk x hx
  · intro x hx
    rcases List.mem_cons.1 hx with rfl | hx
    · exact hpi
    · exact h.pendingIff x hx
  · exact h.cinv.inc ip (fun k => ipCnt_cons E _ _ hip k)
  · apply h.minv.congr
    intro m ip' p
    simp [MRel, hst]
  · intro x hx y hy
    rcases List.mem_cons.1 hx with rfl | hx
    · intro h1; exact absurd h1 hst
    · rcases List.mem_cons.1 hy with rfl | hy
      · intro _ h1; exact absurd h1 hst
      · exact h.mirrorUnique x hx y hy
  · apply h.linv.congr
    intro k a
    simp only [LRel, List.mem_cons, exists_eq_or_imp, hk]
    constructor
    · rintro ⟨hk0, (⟨_, rfl⟩ | hr)⟩
      · exact absurd rfl hk0
      · exact ⟨hk0, hr⟩
    · rintro ⟨hk0, hr⟩
      exact ⟨hk0, Or.inr hr⟩

theorem inv_connected {s : State} (h : InvCore E s) (a : String) (id : Nat) :
    InvCore E (stepConnected E s a id).1 := by
  unfold stepConnected
  split
  · exact h
  · rename_i hid
    split
    · exact h
    · rename_i ip port hsp
      have hip := ipOf_of_split E hsp
      split
      · rename_i hg
        have habs := getConn_none hg
        have := inv_cons_plain E h (c := ⟨a, .connected, false, 0, 0, id, 0⟩) (ip := ip) habs hip
          (by simp) (by simp [Conn.listenKey]) (by simp [hid])
        exact ⟨this.1, this.2, this.3, this.4, this.5, this.6, this.7, this.8, this.9, this.10⟩
      · rename_i c hg
        have ⟨hc, hca⟩ := getConn_some hg
        split
        · rename_i hst
          have := inv_put_same E h (c' := { c with gnetID := id, state := .connected }) hc rfl
            (by simp [Conn.listenKey, hst]) (by simp [hst]) rfl rfl (by simp [hid])
          exact ⟨this.1, this.2, this.3, this.4, this.5, this.6, this.7, this.8, this.9, this.10⟩
        · exact h
        · exact h

/-! ### introduced -/

/-- the conns-only part of a successful `introduced`: record `c` (not introduced) is replaced by an
introduced `c'` with the same address; (mirror, ip) was free.  The listen-address index is handled
by the caller through `hl`. -/
theorem inv_put_intro {s : State} (h : InvCore E s) {c c' : Conn} {ip : String}
    (la : AMap String (List String))
    (hc : c ∈ s.conns) (ha : c'.addr = c.addr) (hip : ipOf E c.addr = some ip)
    (hst : c.state ≠ .introduced) (hst' : c'.state = .introduced)
    (hfree : mget s.mirrors c'.mirror ip = none)
    (hpi : c'.gnetID ≠ 0)
    (hl : LInv (LRel E (putConn s.conns c')) la) :
    InvCore E { s with mirrors := updateMirror s.mirrors ip c'.mirror c'.listenPort,
                       conns := putConn s.conns c', listenAddrs := la } := by
  have nd := h.addrNodup
  have hfreeR : ∀ p, ¬ MRel E s.conns c'.mirror ip p := by
    intro p hR
    have := (h.mirrors c'.mirror ip p).2 hR
    rw [hfree] at this; cases this
  apply InvCore.of
  · exact nodup_putConn nd c'
  · exact forall_put _ h.splitOk (by rw [ha]; exact h.splitOk c hc)
  · exact forall_put _ h.pendingIff (by simp [hst', hpi])
  · exact h.cinv.congr (fun k => ipCnt_put E nd hc ha k)
  · apply h.minv.add c'.mirror ip c'.listenPort hfree
    intro m ip' p
    unfold MRel
    rw [exists_put nd hc ha]
    constructor
    · rintro (⟨_, h2, h3, h4⟩ | ⟨x, hx, _, hr⟩)
      · rw [ha, hip] at h3
        exact Or.inr ⟨h2.symm, (Option.some.inj h3).symm, h4.symm⟩
      · exact Or.inl ⟨x, hx, hr⟩
    · rintro (⟨x, hx, h1, hr⟩ | ⟨rfl, rfl, rfl⟩)
      · refine Or.inr ⟨x, hx, ?_, h1, hr⟩
        rintro rfl; exact hst h1
      · exact Or.inl ⟨hst', rfl, by rw [ha, hip], rfl⟩
  · intro x hx y hy h1 h2 h3 h4
    rcases mem_putConn.1 hx with rfl | ⟨hx1, hx2⟩
    · rcases mem_putConn.1 hy with rfl | ⟨hy1, hy2⟩
      · rfl
      · exfalso
        apply hfreeR y.listenPort
        refine ⟨y, hy1, h2, h3.symm, ?_, rfl⟩
        rw [← h4, ha, hip]
    · rcases mem_putConn.1 hy with rfl | ⟨hy1, hy2⟩
      · exfalso
        apply hfreeR x.listenPort
        refine ⟨x, hx1, h1, h3, ?_, rfl⟩
        rw [h4, ha, hip]
      · exact h.mirrorUnique x hx1 y hy1 h1 h2 h3 h4
  · exact hl

theorem inv_introduced {s : State} (h : InvCore E s) (a : String) (id mirror lport : Nat) :
    InvCore E (stepIntroduced E s a id mirror lport).1 := by
  unfold stepIntroduced
  split
  · exact h
  · rename_i hid
    split
    · exact h
    · rename_i ip port hsp
      have hip := ipOf_of_split E hsp
      split
      · exact h
      · rename_i c hg
        have ⟨hc, hca⟩ := getConn_some hg
        have nd := h.addrNodup
        split
        · exact h
        · exact h
        · rename_i hst
          split
          · exact h
          · rename_i hidc
            split
            · exact h
            · rename_i hcan
              have hfree : mget s.mirrors mirror ip = none := by
                simpa [canUpdateMirror] using hcan
              have hgid : c.gnetID ≠ 0 := by
                intro h0
                have := (h.pendingIff c hc).2 h0
                rw [hst] at this; cases this
              simp only
              subst hca
              -- the new record
              suffices key0 : ∀ c' : Conn, c' = ⟨c.addr, .introduced, c.outgoing, mirror,
                    (if c.outgoing = true then c.listenPort else lport), c.gnetID, c.height⟩ →
                  InvCore E { s with
                    mirrors := updateMirror s.mirrors ip mirror (if c.outgoing = true then c.listenPort else lport),
                    conns := putConn s.conns c',
                    listenAddrs := if c.outgoing = true then s.listenAddrs
                      else if c'.listenKey E = "" then s.listenAddrs
                      else laAppend s.listenAddrs (c'.listenKey E) c.addr } from key0 _ rfl
              intro c' hc'
              have ha : c'.addr = c.addr := by subst hc'; rfl
              have hst' : c'.state = .introduced := by subst hc'; rfl
              have hm' : c'.mirror = mirror := by subst hc'; rfl
              have hp' : c'.listenPort = (if c.outgoing = true then c.listenPort else lport) := by
                subst hc'; rfl
              have hout : c'.outgoing = c.outgoing := by subst hc'; rfl
              have hg' : c'.gnetID = c.gnetID := by subst hc'; rfl
              have key : ∀ la, LInv (LRel E (putConn s.conns c')) la →
                  InvCore E { s with mirrors := updateMirror s.mirrors ip mirror
                                        (if c.outgoing = true then c.listenPort else lport),
                                     conns := putConn s.conns c', listenAddrs := la } := by
                intro la hl
                have := inv_put_intro E h (c := c) (c' := c') (ip := ip) la hc ha hip
                  (by rw [hst]; simp) hst' (by rw [hm']; exact hfree) (by rw [hg']; exact hgid) hl
                rw [hm', hp'] at this
                exact this
              apply key
              -- listen-address index
              by_cases ho : c.outgoing = true
              · simp only [ho, if_true]
                apply h.linv.congr
                intro k x
                unfold LRel
                rw [exists_put nd hc ha]
                have hk' : c'.listenKey E = c.listenKey E := by
                  simp [Conn.listenKey, hout, ho, ha]
                constructor
                · rintro ⟨hk0, (⟨h1, h2⟩ | ⟨y, hy, _, hr⟩)⟩
                  · exact ⟨hk0, c, hc, ha ▸ h1, hk' ▸ h2⟩
                  · exact ⟨hk0, y, hy, hr⟩
                · rintro ⟨hk0, y, hy, h1, h2⟩
                  refine ⟨hk0, ?_⟩
                  by_cases hyc : y = c
                  · subst hyc
                    exact Or.inl ⟨ha.symm ▸ h1, hk'.symm ▸ h2⟩
                  · exact Or.inr ⟨y, hy, hyc, h1, h2⟩
              · simp only [ho, if_false]
                have hkc : c.listenKey E = "" := by
                  simp [Conn.listenKey, ho, hst]
                by_cases hk0 : c'.listenKey E = ""
                · simp only [hk0, if_true]
                  apply h.linv.congr
                  intro k x
                  unfold LRel
                  rw [exists_put nd hc ha]
                  constructor
                  · rintro ⟨hk, (⟨_, h2⟩ | ⟨y, hy, _, hr⟩)⟩
                    · exact absurd (h2.symm.trans hk0) hk
                    · exact ⟨hk, y, hy, hr⟩
                  · rintro ⟨hk, y, hy, h1, h2⟩
                    refine ⟨hk, Or.inr ⟨y, hy, ?_, h1, h2⟩⟩
                    rintro rfl
                    exact hk (h2.symm.trans hkc)
                · simp only [hk0, if_false]
                  apply h.linv.add
                  · rintro ⟨_, y, hy, h1, h2⟩
                    have : y = c := addr_uniq nd hy hc h1
                    subst this
                    exact hk0 (h2.symm.trans hkc)
                  · intro k x
                    unfold LRel
                    rw [exists_put nd hc ha]
                    constructor
                    · rintro ⟨hk, (⟨h1, h2⟩ | ⟨y, hy, _, hr⟩)⟩
                      · exact Or.inr ⟨h2.symm, by rw [← h1, ha]⟩
                      · exact Or.inl ⟨hk, y, hy, hr⟩
                    · rintro (⟨hk, y, hy, h1, h2⟩ | ⟨rfl, rfl⟩)
                      · refine ⟨hk, Or.inr ⟨y, hy, ?_, h1, h2⟩⟩
                        rintro rfl
                        exact hk (h2.symm.trans hkc)
                      · exact ⟨hk0, Or.inl ⟨ha, rfl⟩⟩

/-! ### remove -/

theorem inv_remove {s : State} (h : InvCore E s) (a : String) (id : Nat) :
    InvCore E (stepRemove E s a id).1 := by
  unfold stepRemove
  split
  · exact h
  · rename_i ip port hsp
    have hip := ipOf_of_split E hsp
    split
    · exact h
    · rename_i c hg
      have ⟨hc, hca⟩ := getConn_some hg
      have nd := h.addrNodup
      split
      · exact h
      · rename_i hidc
        subst hca
        simp only
        apply InvCore.of
        · exact nodup_delConn nd _
        · exact forall_del _ h.splitOk
        · exact forall_del _ h.pendingIff
        · exact h.cinv.dec ip (fun k => ipCnt_del E nd hc hip k)
        · -- mirrors
          show MInv (MRel E (delConn s.conns c.addr))
            (if c.state = .introduced then removeMirror s.mirrors ip c.mirror else s.mirrors)
          by_cases hst : c.state = .introduced
          · simp only [hst, if_true]
            apply h.minv.remove
            intro m ip' p
            unfold MRel
            rw [exists_del nd hc]
            constructor
            · rintro ⟨x, hx, hne, h1, h2, h3, h4⟩
              refine ⟨⟨x, hx, h1, h2, h3, h4⟩, ?_⟩
              rintro ⟨rfl, rfl⟩
              exact hne (h.mirrorUnique x hx c hc h1 hst h2 (by rw [h3, hip]))
            · rintro ⟨⟨x, hx, h1, h2, h3, h4⟩, hne⟩
              refine ⟨x, hx, ?_, h1, h2, h3, h4⟩
              rintro rfl
              apply hne
              rw [hip] at h3
              exact ⟨h2.symm, (Option.some.inj h3).symm⟩
          · simp only [hst, if_false]
            apply h.minv.congr
            intro m ip' p
            unfold MRel
            rw [exists_del nd hc]
            constructor
            · rintro ⟨x, hx, _, hr⟩; exact ⟨x, hx, hr⟩
            · rintro ⟨x, hx, h1, hr⟩
              refine ⟨x, hx, ?_, h1, hr⟩
              rintro rfl; exact hst h1
        · intro x hx y hy
          exact h.mirrorUnique x (mem_delConn.1 hx).1 y (mem_delConn.1 hy).1
        · -- listen addresses
          show LInv (LRel E (delConn s.conns c.addr))
            (if c.listenKey E = "" then s.listenAddrs else laRemove s.listenAddrs (c.listenKey E) c.addr)
          by_cases hk0 : c.listenKey E = ""
          · simp only [hk0, if_true]
            apply h.linv.congr
            intro k x
            unfold LRel
            rw [exists_del nd hc]
            constructor
            · rintro ⟨hk, y, hy, _, hr⟩; exact ⟨hk, y, hy, hr⟩
            · rintro ⟨hk, y, hy, h1, h2⟩
              refine ⟨hk, y, hy, ?_, h1, h2⟩
              rintro rfl; exact hk (h2.symm.trans hk0)
          · simp only [hk0, if_false]
            apply h.linv.remove
            intro k x
            unfold LRel
            rw [exists_del nd hc]
            constructor
            · rintro ⟨hk, y, hy, hne, h1, h2⟩
              refine ⟨⟨hk, y, hy, h1, h2⟩, ?_⟩
              rintro ⟨_, rfl⟩
              exact hne (addr_uniq nd hy hc h1)
            · rintro ⟨⟨hk, y, hy, h1, h2⟩, hne⟩
              refine ⟨hk, y, hy, ?_, h1, h2⟩
              rintro rfl
              exact hne ⟨h2.symm, h1.symm⟩

/-! ### modify -/

theorem inv_modify {s : State} (h : InvCore E s) (a : String) (id height : Nat) (mirror lport : Option Nat) :
    InvCore E (stepModify s a id height mirror lport).1 := by
  unfold stepModify
  split
  · exact h
  · rename_i c hg
    have ⟨hc, hca⟩ := getConn_some hg
    split
    · exact h
    · split
      · exact h
      · split
        · exact h
        · have := inv_put_same E h (c' := { c with height := height }) hc rfl
            (by simp [Conn.listenKey, Conn.listenAddr]) (by simp) rfl rfl (h.pendingIff c hc)
          exact ⟨this.1, this.2, this.3, this.4, this.5, this.6, this.7, this.8, this.9, this.10⟩

theorem inv_step (wf : E.WF) {s : State} (h : InvCore E s) (ev : Ev) : InvCore E (step E s ev).1 := by
  cases ev with
  | pending a => exact inv_pending E wf h a
  | connected a id => exact inv_connected E h a id
  | introduced a id m p => exact inv_introduced E h a id m p
  | remove a id => exact inv_remove E h a id
  | modify a id ht m p => exact inv_modify E h a id ht m p

theorem inv_init : InvCore E State.init := by
  apply InvCore.of
  · simp [State.init]
  · intro c hc; cases hc
  · intro c hc; cases hc
  · intro k; simp [State.init, ipCnt]
  · refine ⟨fun m ip p => ?_, fun m => ?_⟩
    · simp [State.init, mget, MRel]
    · simp [State.init]
  · intro a ha; cases ha
  · refine ⟨fun k a => ?_, fun k => ?_, fun k => ?_⟩ <;> simp [State.init, LRel]

theorem inv_run (wf : E.WF) : ∀ (evs : List Ev) {s : State}, InvCore E s → InvCore E (run E s evs)
  | [], _, h => h
  | e :: es, _, h => inv_run wf es (inv_step E wf h e)

/-! ### the connection-id map (needs the environment assumption) -/

/-- replacing a record by one with the same address and id -/
theorem ids_put_same {s : State} (hI : InvCore E s) (h : InvIds s) {c c' : Conn} (hc : c ∈ s.conns)
    (ha : c'.addr = c.addr) (hg : c'.gnetID = c.gnetID) (s' : State)
    (hs1 : s'.conns = putConn s.conns c') (hs2 : s'.gnetIDs = s.gnetIDs) : InvIds s' := by
  have nd := hI.addrNodup
  constructor
  · rw [hs1]
    have back : ∀ x ∈ putConn s.conns c', ∃ y ∈ s.conns, y.addr = x.addr ∧ y.gnetID = x.gnetID := by
      intro x hx
      rcases mem_putConn.1 hx with rfl | ⟨hx1, _⟩
      · exact ⟨c, hc, ha.symm, hg.symm⟩
      · exact ⟨x, hx1, rfl, rfl⟩
    intro x hx y hy h1 h2
    obtain ⟨x', hx', hxa, hxg⟩ := back x hx
    obtain ⟨y', hy', hya, hyg⟩ := back y hy
    have := h.idsDistinct x' hx' y' hy' (by rw [hxg, hyg, h1]) (by rw [hxg]; exact h2)
    exact addr_uniq (nodup_putConn nd c') hx hy (by rw [← hxa, ← hya, this])
  · show GInv (GRel s'.conns) s'.gnetIDs
    rw [hs1, hs2]
    apply h.ginv.congr
    intro id a
    unfold GRel
    rw [exists_put nd hc ha]
    constructor
    · rintro ⟨h0, (⟨h1, h2⟩ | ⟨x, hx, _, hr⟩)⟩
      · exact ⟨h0, c, hc, hg ▸ h1, ha ▸ h2⟩
      · exact ⟨h0, x, hx, hr⟩
    · rintro ⟨h0, x, hx, h1, h2⟩
      refine ⟨h0, ?_⟩
      by_cases hxc : x = c
      · subst hxc; exact Or.inl ⟨hg.symm ▸ h1, ha.symm ▸ h2⟩
      · exact Or.inr ⟨x, hx, hxc, h1, h2⟩

theorem ids_step {s : State} (hI : InvCore E s) (h : InvIds s) (ev : Ev) (henv : EnvOK s ev) :
    InvIds (step E s ev).1 := by
  have nd := hI.addrNodup
  cases ev with
  | pending a =>
    simp only [step]
    unfold stepPending
    split
    · exact h
    · split
      · exact h
      · simp only
        constructor
        · intro x hx y hy h1 h2
          rcases List.mem_cons.1 hx with rfl | hx
          · exact absurd rfl h2
          · rcases List.mem_cons.1 hy with rfl | hy
            · exact absurd h1 h2
            · exact h.idsDistinct x hx y hy h1 h2
        · apply h.ginv.congr
          intro id a'
          simp only [GRel, List.mem_cons, exists_eq_or_imp]
          constructor
          · rintro ⟨h0, (⟨h1, _⟩ | hr)⟩
            · exact absurd h1.symm h0
            · exact ⟨h0, hr⟩
          · rintro ⟨h0, hr⟩; exact ⟨h0, Or.inr hr⟩
  | connected a id =>
    simp only [step]
    simp only [EnvOK] at henv
    unfold stepConnected
    split
    · exact h
    · rename_i hid
      split
      · exact h
      · split
        · -- new incoming connection
          simp only
          constructor
          · intro x hx y hy h1 h2
            rcases List.mem_cons.1 hx with rfl | hx
            · rcases List.mem_cons.1 hy with rfl | hy
              · rfl
              · exact absurd h1.symm (henv y hy)
            · rcases List.mem_cons.1 hy with rfl | hy
              · exact absurd h1 (henv x hx)
              · exact h.idsDistinct x hx y hy h1 h2
          · apply h.ginv.set
            intro id' a'
            simp only [GRel, List.mem_cons, exists_eq_or_imp]
            constructor
            · rintro ⟨h0, (⟨h1, h2⟩ | ⟨x, hx, h1, h2⟩)⟩
              · exact Or.inl ⟨h1.symm, h2.symm⟩
              · refine Or.inr ⟨?_, h0, x, hx, h1, h2⟩
                rintro rfl; exact henv x hx h1
            · rintro (⟨rfl, rfl⟩ | ⟨_, h0, hr⟩)
              · exact ⟨hid, Or.inl ⟨rfl, rfl⟩⟩
              · exact ⟨h0, Or.inr hr⟩
        · rename_i c hg
          have ⟨hc, hca⟩ := getConn_some hg
          split
          · -- pending -> connected
            rename_i hst
            simp only
            subst hca
            constructor
            · intro x hx y hy h1 h2
              rcases mem_putConn.1 hx with rfl | ⟨hx1, hx2⟩
              · rcases mem_putConn.1 hy with rfl | ⟨hy1, hy2⟩
                · rfl
                · exact absurd h1.symm (henv y hy1)
              · rcases mem_putConn.1 hy with rfl | ⟨hy1, hy2⟩
                · exact absurd h1 (henv x hx1)
                · exact h.idsDistinct x hx1 y hy1 h1 h2
            · apply h.ginv.set
              intro id' a'
              dsimp only
              unfold GRel
              rw [exists_put nd hc (c' := ⟨c.addr, .connected, c.outgoing, c.mirror, c.listenPort, id, c.height⟩) rfl]
              constructor
              · rintro ⟨h0, (⟨h1, h2⟩ | ⟨x, hx, _, h1, h2⟩)⟩
                · exact Or.inl ⟨h1.symm, h2.symm⟩
                · refine Or.inr ⟨?_, h0, x, hx, h1, h2⟩
                  rintro rfl; exact henv x hx h1
              · rintro (⟨rfl, rfl⟩ | ⟨hne, h0, x, hx, h1, h2⟩)
                · exact ⟨hid, Or.inl ⟨rfl, rfl⟩⟩
                · refine ⟨h0, Or.inr ⟨x, hx, ?_, h1, h2⟩⟩
                  rintro rfl
                  have := (hI.pendingIff x hc).1 hst
                  exact h0 (h1.symm.trans this)
          · exact h
          · exact h
  | introduced a id m p =>
    simp only [step]
    unfold stepIntroduced
    split
    · exact h
    · split
      · exact h
      · split
        · exact h
        · rename_i c hg
          have ⟨hc, hca⟩ := getConn_some hg
          split
          · exact h
          · exact h
          · split
            · exact h
            · split
              · exact h
              · exact ids_put_same E hI h hc (c' := ⟨c.addr, .introduced, c.outgoing, m,
                    (if c.outgoing = true then c.listenPort else p), c.gnetID, c.height⟩) rfl rfl _ rfl rfl
  | remove a id =>
    simp only [step]
    unfold stepRemove
    split
    · exact h
    · split
      · exact h
      · rename_i c hg
        have ⟨hc, hca⟩ := getConn_some hg
        split
        · exact h
        · simp only
          subst hca
          constructor
          · intro x hx y hy
            exact h.idsDistinct x (mem_delConn.1 hx).1 y (mem_delConn.1 hy).1
          · apply h.ginv.erase
            intro id' a'
            unfold GRel
            rw [exists_del nd hc]
            constructor
            · rintro ⟨h0, x, hx, hne, h1, h2⟩
              refine ⟨?_, h0, x, hx, h1, h2⟩
              rintro rfl
              exact hne (h.idsDistinct x hx c hc h1 (h1 ▸ h0))
            · rintro ⟨hne, h0, x, hx, h1, h2⟩
              refine ⟨h0, x, hx, ?_, h1, h2⟩
              rintro rfl; exact hne h1.symm
  | modify a id ht m p =>
    simp only [step]
    unfold stepModify
    split
    · exact h
    · rename_i c hg
      have ⟨hc, hca⟩ := getConn_some hg
      split
      · exact h
      · split
        · exact h
        · split
          · exact h
          · exact ids_put_same E hI h hc (c' := { c with height := ht }) rfl rfl _ rfl rfl

theorem ids_init : InvIds State.init := by
  constructor
  · intro a ha; cases ha
  · intro id a; simp [GnetClause, State.init]

theorem ids_run (wf : E.WF) : ∀ (evs : List Ev) {s : State}, InvCore E s → InvIds s →
    EnvOKSeq E s evs → InvIds (run E s evs)
  | [], _, _, h, _ => h
  | e :: es, _, hI, h, henv =>
    ids_run wf es (inv_step E wf hI e) (ids_step E hI h e henv.1) henv.2

/-! ### unconditional half of the connection-id map: no stale ids -/

/-- every id in `gnetIDs` is non-zero and belongs to a held connection (holds with or without the
environment assumption; with duplicate ids the map may MISS a held connection, never keep a dead one) -/
def GSub (s : State) : Prop :=
  ∀ id a, s.gnetIDs.get id = some a → id ≠ 0 ∧ ∃ c ∈ s.conns, c.gnetID = id

theorem gsub_init : GSub State.init := by
  intro id a h; simp [State.init] at h

theorem gsub_step {s : State} (hI : InvCore E s) (h : GSub s) (ev : Ev) : GSub (step E s ev).1 := by
  have nd := hI.addrNodup
  cases ev with
  | pending a =>
    simp only [step]; unfold stepPending
    split
    · exact h
    · split
      · exact h
      · intro id a' hg
        have ⟨h0, x, hx, h1⟩ := h id a' hg
        exact ⟨h0, x, List.mem_cons_of_mem _ hx, h1⟩
  | connected a id =>
    simp only [step]; unfold stepConnected
    split
    · exact h
    · rename_i hid
      split
      · exact h
      · split
        · intro id' a' hg
          dsimp only at hg ⊢
          rw [get_set] at hg
          by_cases he : id' = id
          · subst he; exact ⟨hid, _, List.mem_cons_self, rfl⟩
          · simp only [he, if_false] at hg
            have ⟨h0, x, hx, h1⟩ := h id' a' hg
            exact ⟨h0, x, List.mem_cons_of_mem _ hx, h1⟩
        · rename_i c hgc
          have ⟨hc, hca⟩ := getConn_some hgc
          split
          · rename_i hst
            intro id' a' hg
            dsimp only at hg ⊢
            rw [get_set] at hg
            by_cases he : id' = id
            · subst he; exact ⟨hid, _, mem_putConn.2 (Or.inl rfl), rfl⟩
            · simp only [he, if_false] at hg
              have ⟨h0, x, hx, h1⟩ := h id' a' hg
              refine ⟨h0, x, mem_putConn.2 (Or.inr ⟨hx, ?_⟩), h1⟩
              intro hxa
              have : x = c := addr_uniq nd hx hc hxa
              subst this
              exact h0 (h1.symm.trans ((hI.pendingIff x hc).1 hst))
          · exact h
          · exact h
  | introduced a id m p =>
    simp only [step]; unfold stepIntroduced
    split
    · exact h
    · split
      · exact h
      · split
        · exact h
        · rename_i c hgc
          have ⟨hc, hca⟩ := getConn_some hgc
          split
          · exact h
          · exact h
          · split
            · exact h
            · split
              · exact h
              · intro id' a' hg
                have ⟨h0, x, hx, h1⟩ := h id' a' hg
                by_cases hxc : x = c
                · subst hxc
                  exact ⟨h0, _, mem_putConn.2 (Or.inl rfl), h1⟩
                · exact ⟨h0, x, mem_putConn.2 (Or.inr ⟨hx, (ne_iff_addr_ne nd hc hx).2 hxc⟩), h1⟩
  | remove a id =>
    simp only [step]; unfold stepRemove
    split
    · exact h
    · split
      · exact h
      · rename_i c hgc
        have ⟨hc, hca⟩ := getConn_some hgc
        split
        · exact h
        · intro id' a' hg
          dsimp only at hg ⊢
          rw [get_erase] at hg
          by_cases he : id' = c.gnetID
          · simp [he] at hg
          · simp only [he, if_false] at hg
            have ⟨h0, x, hx, h1⟩ := h id' a' hg
            refine ⟨h0, x, mem_delConn.2 ⟨hx, ?_⟩, h1⟩
            rw [← hca]
            apply (ne_iff_addr_ne nd hc hx).2
            rintro rfl; exact he h1.symm
  | modify a id ht m p =>
    simp only [step]; unfold stepModify
    split
    · exact h
    · rename_i c hgc
      have ⟨hc, hca⟩ := getConn_some hgc
      split
      · exact h
      · split
        · exact h
        · split
          · exact h
          · intro id' a' hg
            have ⟨h0, x, hx, h1⟩ := h id' a' hg
            by_cases hxc : x = c
            · subst hxc
              exact ⟨h0, _, mem_putConn.2 (Or.inl rfl), h1⟩
            · exact ⟨h0, x, mem_putConn.2 (Or.inr ⟨hx, (ne_iff_addr_ne nd hc hx).2 hxc⟩), h1⟩

theorem gsub_run (wf : E.WF) : ∀ (evs : List Ev) {s : State}, InvCore E s → GSub s → GSub (run E s evs)
  | [], _, _, h => h
  | e :: es, _, hI, h => gsub_run wf es (inv_step E wf hI e) (gsub_step E hI h e)

/-! ### transitions into the introduced state -/

theorem trans_step (s : State) (ev : Ev) : TransOK s ev (step E s ev).1 := by
  have keep : ∀ x ∈ s.conns, x.state = .introduced →
      (∃ c ∈ s.conns, c.addr = x.addr ∧ c.state = .introduced) ∨ IntroducedBy s ev x.addr :=
    fun x hx h1 => Or.inl ⟨x, hx, rfl, h1⟩
  cases ev with
  | pending a =>
    simp only [step]; unfold stepPending
    split
    · exact keep
    · split
      · exact keep
      · intro x hx h1
        rcases List.mem_cons.1 hx with rfl | hx
        · cases h1
        · exact keep x hx h1
  | connected a id =>
    simp only [step]; unfold stepConnected
    split
    · exact keep
    · split
      · exact keep
      · split
        · intro x hx h1
          rcases List.mem_cons.1 hx with rfl | hx
          · cases h1
          · exact keep x hx h1
        · split
          · intro x hx h1
            rcases mem_putConn.1 hx with rfl | ⟨hx, _⟩
            · cases h1
            · exact keep x hx h1
          · exact keep
          · exact keep
  | introduced a id m p =>
    simp only [step]; unfold stepIntroduced
    split
    · exact keep
    · split
      · exact keep
      · split
        · exact keep
        · rename_i c hgc
          have ⟨hc, hca⟩ := getConn_some hgc
          split
          · exact keep
          · exact keep
          · rename_i hst
            split
            · exact keep
            · rename_i hid
              split
              · exact keep
              · intro x hx h1
                rcases mem_putConn.1 hx with rfl | ⟨hx, _⟩
                · refine Or.inr ?_
                  simp only [IntroducedBy]
                  exact ⟨hca.symm, c, hc, rfl, hst, (Decidable.of_not_not hid).symm⟩
                · exact keep x hx h1
  | remove a id =>
    simp only [step]; unfold stepRemove
    split
    · exact keep
    · split
      · exact keep
      · split
        · exact keep
        · intro x hx h1
          exact keep x (mem_delConn.1 hx).1 h1
  | modify a id ht m p =>
    simp only [step]; unfold stepModify
    split
    · exact keep
    · rename_i c hgc
      have ⟨hc, hca⟩ := getConn_some hgc
      split
      · exact keep
      · split
        · exact keep
        · split
          · exact keep
          · intro x hx h1
            rcases mem_putConn.1 hx with rfl | ⟨hx, _⟩
            · exact Or.inl ⟨c, hc, rfl, h1⟩
            · exact keep x hx h1

/-! ### failing calls; panics -/

theorem step_not_ok_unchanged (s : State) (ev : Ev) (h : (step E s ev).2 ≠ .ok) : (step E s ev).1 = s := by
  cases ev <;> simp only [step] at h ⊢
  · unfold stepPending at h ⊢; repeat' split <;> simp_all
  · unfold stepConnected at h ⊢; repeat' split <;> simp_all
  · unfold stepIntroduced at h ⊢; repeat' split <;> simp_all
  · unfold stepRemove at h ⊢; repeat' split <;> simp_all
  · unfold stepModify at h ⊢; repeat' split <;> simp_all

theorem step_no_panic (s : State) (ev : Ev) (h : ∀ a id ht m p, ev ≠ .modify a id ht m p) :
    (step E s ev).2 ≠ .panic := by
  cases ev <;> simp only [step]
  · unfold stepPending
    split
    · simp
    · split <;> simp
  · unfold stepConnected
    split
    · simp
    · split
      · simp
      · split
        · simp
        · split <;> simp
  · unfold stepIntroduced
    split
    · simp
    · split
      · simp
      · split
        · simp
        · split
          · simp
          · simp
          · split
            · simp
            · split <;> simp
  · unfold stepRemove
    split
    · simp
    · split
      · simp
      · split <;> simp
  · exact absurd rfl (h _ _ _ _ _)

/-- `modify` panics exactly when `f` changes Mirror or ListenPort of a held connection with the right id -/
theorem modify_panic_iff (s : State) (a : String) (id ht : Nat) (m p : Option Nat) :
    (stepModify s a id ht m p).2 = .panic ↔
      ∃ c, getConn s.conns a = some c ∧ c.gnetID = id ∧
        (m.getD c.mirror ≠ c.mirror ∨ p.getD c.listenPort ≠ c.listenPort) := by
  unfold stepModify
  cases hg : getConn s.conns a with
  | none => simp
  | some c =>
    by_cases h1 : c.gnetID = id
    · by_cases h2 : m.getD c.mirror = c.mirror
      · by_cases h3 : p.getD c.listenPort = c.listenPort
        · simp [h1, h2, h3]
        · simp [h1, h2, h3]
      · simp [h1, h2]
    · simp [h1]

/-! ### removing everything empties every map -/

theorem all_empty {s : State} (hI : InvCore E s) (hG : GSub s) (hc : s.conns = []) :
    s.mirrors = [] ∧ s.ipCounts = [] ∧ s.gnetIDs = [] ∧ s.listenAddrs = [] := by
  refine ⟨?_, ?_, ?_, ?_⟩
  · apply eq_nil_of_get_none
    intro m
    cases hm : s.mirrors.get m with
    | none => rfl
    | some x =>
      exfalso
      cases x with
      | nil => exact hI.mirrorsNoEmpty m hm
      | cons e x =>
        obtain ⟨ip, p⟩ := e
        have : mget s.mirrors m ip = some p := by
          unfold mget; rw [hm]; simp [AMap.get, List.lookup_cons]
        have ⟨c, hc', _⟩ := (hI.mirrors m ip p).1 this
        rw [hc] at hc'; cases hc'
  · apply eq_nil_of_get_none
    intro k
    have := hI.ipCounts k
    unfold IpClause ipCountSpec at this
    rw [this, hc]; simp
  · apply eq_nil_of_get_none
    intro id
    cases hg : s.gnetIDs.get id with
    | none => rfl
    | some a =>
      exfalso
      have ⟨_, c, hc', _⟩ := hG id a hg
      rw [hc] at hc'; cases hc'
  · apply eq_nil_of_get_none
    intro k
    cases hl : s.listenAddrs.get k with
    | none => rfl
    | some l =>
      exfalso
      cases l with
      | nil => exact hI.listenNoEmpty k hl
      | cons a l =>
        have : a ∈ (s.listenAddrs.get k).getD [] := by simp [hl]
        have ⟨_, c, hc', _⟩ := (hI.listen k a).1 this
        rw [hc] at hc'; cases hc'

end Sky.C24
