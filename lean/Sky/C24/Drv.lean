/-
  C24 driver.  For each op line it steps the model (Sky.C24.Model, instantiated with
  `goEnv = ⟨splitAddr, joinAddr⟩`) and prints result + canonical dump of all five maps.  When the
  implementation's line differs, the implementation's dump is parsed back into a `State` and the
  property's own predicates (`invCoreB`, `invIdsB`, `transB` from Sky.C24.Check — each proved to
  be implied by the corresponding theorem-level invariant) are evaluated on it:
    fail    the implementation's state violates the property (after an environment-conforming history)
    hold    model and code differ but the state still satisfies every clause
    unknown the dump could not be parsed
  After a difference the model is re-synchronised to the implementation's state so that one defect
  yields one differing line.
-/
import Sky.Prim.DrvLib
import Sky.C24.Check
namespace Sky.C24
open Sky Sky.Drv

def sortBy {α} (lt : α → α → Bool) (l : List α) : List α := l.mergeSort (fun a b => !(lt b a))

def showState (c : CState) : String := match c with | .pending => "p" | .connected => "c" | .introduced => "i"

def showConn (c : Conn) : String :=
  ",".intercalate [c.addr, showState c.state, (if c.outgoing then "1" else "0"), toString c.mirror,
    toString c.listenPort, toString c.gnetID, toString c.height]

def dump (s : State) : String :=
  let cs := (sortBy (fun (a b : Conn) => a.addr < b.addr) s.conns).map showConn
  let ic := (sortBy (fun (a b : String × Nat) => a.1 < b.1) s.ipCounts).map (fun p => p.1 ++ "=" ++ toString p.2)
  let gs := (sortBy (fun (a b : Nat × String) => a.1 < b.1) s.gnetIDs).map (fun p => toString p.1 ++ "=" ++ p.2)
  let flat : List (Nat × String × Nat) := s.mirrors.flatMap (fun (m, x) => x.map (fun (ip, p) => (m, ip, p)))
  let ms := (sortBy (fun (a b : Nat × String × Nat) => a.1 < b.1 || (a.1 == b.1 && a.2.1 < b.2.1)) flat).map
    (fun (m, ip, p) => toString m ++ "/" ++ ip ++ "=" ++ toString p)
  let es := (sortBy (fun (a b : Nat) => a < b) ((s.mirrors.filter (fun p => p.2.isEmpty)).map (·.1))).map toString
  let ls := (sortBy (fun (a b : String × List String) => a.1 < b.1) s.listenAddrs).map
    (fun p => p.1 ++ "=" ++ ",".intercalate p.2)
  "|C:" ++ ";".intercalate cs ++ "|I:" ++ ";".intercalate ic ++ "|G:" ++ ";".intercalate gs ++
  "|M:" ++ ";".intercalate ms ++ "|E:" ++ ";".intercalate es ++ "|L:" ++ ";".intercalate ls

def showOut : Out → String
  | .ok => "ok"
  | .err e => "err " ++ e
  | .panic => "panic"

/-! parsing the implementation's dump -/

def items (s : String) : List String := (s.splitOn ";").filter (· ≠ "")

def parseConn (s : String) : Option Conn :=
  match s.splitOn "," with
  | [a, st, o, m, lp, g, h] => do
    let st ← (match st with | "p" => some CState.pending | "c" => some .connected | "i" => some .introduced | _ => none)
    let m ← m.toNat?; let lp ← lp.toNat?; let g ← g.toNat?; let h ← h.toNat?
    pure ⟨a, st, o == "1", m, lp, g, h⟩
  | _ => none

def kv (s : String) : Option (String × String) :=
  match s.splitOn "=" with
  | [k, v] => some (k, v)
  | _ => none

/-- group flat (m, ip, port) triples into the nested map -/
def groupMirrors (l : List (Nat × String × Nat)) : AMap Nat (AMap String Nat) :=
  l.foldl (fun acc (m, ip, p) => acc.set m (((acc.get m).getD []).set ip p)) []

def parseDump (s : String) : Option (String × State) :=
  match s.splitOn "|" with
  | [out, c, i, g, m, e, l] => do
    let sec (p : String) (x : String) : Option String := if x.startsWith p then some (x.drop p.length).toString else none
    let c ← sec "C:" c; let i ← sec "I:" i; let g ← sec "G:" g; let m ← sec "M:" m; let e ← sec "E:" e; let l ← sec "L:" l
    let conns ← (items c).mapM parseConn
    let ic ← (items i).mapM (fun x => do let (k, v) ← kv x; let n ← v.toNat?; pure (k, n))
    let gs ← (items g).mapM (fun x => do let (k, v) ← kv x; let n ← k.toNat?; pure (n, v))
    let ms ← (items m).mapM (fun x => do
      let (k, v) ← kv x
      match k.splitOn "/" with
      | [mm, ip] => do let mm ← mm.toNat?; let p ← v.toNat?; pure (mm, ip, p)
      | _ => none)
    let es ← (items e).mapM (fun x => x.toNat?)
    let ls ← (items l).mapM (fun x => do let (k, v) ← kv x; pure (k, (v.splitOn ",").filter (· ≠ "")))
    let mirrors := groupMirrors ms ++ es.map (fun mm => (mm, []))
    pure (out, { conns := conns, mirrors := mirrors, ipCounts := ic, gnetIDs := gs, listenAddrs := ls })
  | _ => none

def unTilde (s : String) : String := if s == "~" then "" else s

def parseEv (op : String) : Option Ev :=
  match op.splitOn " " with
  | ["pending", a] => some (.pending (unTilde a))
  | ["connected", a, id] => do let id ← id.toNat?; pure (.connected (unTilde a) id)
  | ["introduced", a, id, m, p] => do
      let id ← id.toNat?; let m ← m.toNat?; let p ← p.toNat?; pure (.introduced (unTilde a) id m p)
  | ["remove", a, id] => do let id ← id.toNat?; pure (.remove (unTilde a) id)
  | ["modify", a, id, h, m, p] => do
      let id ← id.toNat?; let h ← h.toNat?
      let m ← (if m == "-" then some none else m.toNat?.map some)
      let p ← (if p == "-" then some none else p.toNat?.map some)
      pure (.modify (unTilde a) id h m p)
  -- the same transitions driven through the daemon's event handlers (the harness prints "ev" + dump)
  | ["evpending", a] => some (.pending (unTilde a))
  | ["evconnect", a, id, _] => do let id ← id.toNat?; pure (.connected (unTilde a) id)
  | ["evintro", a, id, m, p] => do
      let id ← id.toNat?; let m ← m.toNat?; let p ← p.toNat?; pure (.introduced (unTilde a) id m p)
  | ["evdisconnect", a, id] => do let id ← id.toNat?; pure (.remove (unTilde a) id)
  | ["evfail", a] => some (.remove (unTilde a) 0)
  | _ => none

structure DState where
  s : State := State.init
  envOK : Bool := true

def stepLine (d : DState) (op impl : String) : DState × String × Verdict :=
  if op.startsWith "reset" then
    ({}, "ok" ++ dump State.init, .unknown)
  else match parseEv op with
  | none => (d, "bad-op", .unknown)
  | some ev =>
    let envOK := d.envOK && decide (EnvOK d.s ev)
    let (s', out) := step goEnv d.s ev
    let model := if out == Out.panic then "panic" else (if op.startsWith "ev" then "ev" else showOut out) ++ dump s'
    if model == normImpl impl then ({ s := s', envOK := envOK }, model, .unknown)
    else match parseDump impl with
      | none => ({ s := s', envOK := envOK }, model, .unknown)
      | some (_, si) =>
        let bad := !(invCoreB goEnv si) || (envOK && !(invIdsB si)) || !(transB d.s ev si)
        ({ s := si, envOK := envOK }, model, if bad then .fail else .hold)

end Sky.C24

def main : IO Unit := Sky.Drv.loop Sky.C24.stepLine {}
