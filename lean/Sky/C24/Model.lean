/-
  Sky.C24.Model — state-machine model of `daemon.Connections` (src/daemon/connections.go).
  Core Lean only (linked into drv_c24).

  The model follows the code statement by statement: order of checks, error kinds, which map is
  touched when.  Go maps are `AMap`s.  `iputil.SplitAddr` and the `fmt.Sprintf("%s:%d", ip, port)`
  of `connection.ListenAddr` are PARAMETERS (`Env.split`, `Env.join`): every theorem in
  Sky.Props.C24 holds for any such pair; the driver instantiates them with `splitAddr`/`joinAddr`
  below and the correspondence run checks that instantiation against the real functions.

  Events = the five mutating entry points.  A failing call is an event too (state unchanged, error
  kind returned).
-/
import Sky.C24.AMap
namespace Sky.C24

inductive CState | pending | connected | introduced
deriving DecidableEq, Repr

/-- `daemon.connection` restricted to the fields the bookkeeping reads or writes
(`Height` stands for the payload fields `modify` may change). -/
structure Conn where
  addr : String
  state : CState
  outgoing : Bool
  mirror : Nat
  listenPort : Nat
  gnetID : Nat
  height : Nat
deriving DecidableEq, Repr

/-- `daemon.Connections`: `conns` (keyed by `Conn.addr`) and the four secondary indexes. -/
structure State where
  conns : List Conn
  mirrors : AMap Nat (AMap String Nat)
  ipCounts : AMap String Nat
  gnetIDs : AMap Nat String
  listenAddrs : AMap String (List String)
deriving Repr

def State.init : State := ⟨[], [], [], [], []⟩

/-- what the code gets from outside: address splitting and joining. -/
structure Env where
  split : String → Except String (String × Nat)
  join : String → Nat → String

inductive Ev
  | pending (a : String)
  | connected (a : String) (id : Nat)
  | introduced (a : String) (id : Nat) (mirror : Nat) (lport : Nat)
  | remove (a : String) (id : Nat)
  /-- `modify(addr, gnetID, f)` with `f` setting Height and optionally Mirror / ListenPort -/
  | modify (a : String) (id : Nat) (height : Nat) (mirror : Option Nat) (lport : Option Nat)
deriving Repr

inductive Out
  | ok
  | err (e : String)
  | panic
deriving DecidableEq, Repr

variable (E : Env)

def ipOf (a : String) : Option String :=
  match E.split a with
  | .ok (ip, _) => some ip
  | .error _ => none

/-- `connection.ListenAddr()` -/
def Conn.listenAddr (c : Conn) : String :=
  if c.listenPort = 0 then "" else
  match E.split c.addr with
  | .ok (ip, _) => E.join ip c.listenPort
  | .error _ => ""

/-- `connection.listenAddrKey()`: the key under which the connection is held in `listenAddrs`
("" = not indexed).  Outgoing connections are indexed by `pending` under the dialled address;
incoming ones by `introduced` under their reported listen address. -/
def Conn.listenKey (c : Conn) : String :=
  if c.outgoing then c.addr
  else if c.state = .introduced then c.listenAddr E
  else ""

def getConn (cs : List Conn) (a : String) : Option Conn := cs.find? (fun c => c.addr = a)
def delConn (cs : List Conn) (a : String) : List Conn := cs.filter (fun c => c.addr ≠ a)
/-- overwrite the record stored under `c.addr` (`*conn` is mutated in place in Go) -/
def putConn (cs : List Conn) (c : Conn) : List Conn := c :: delConn cs c.addr

/-- `c.ipCounts[ip]++` -/
def incCount (m : AMap String Nat) (ip : String) : AMap String Nat :=
  m.set ip ((m.get ip).getD 0 + 1)

/-- `if c.ipCounts[ip] > 0 { c.ipCounts[ip]--; if c.ipCounts[ip] == 0 { delete } }` -/
def decCount (m : AMap String Nat) (ip : String) : AMap String Nat :=
  match m.get ip with
  | some (n + 1) => if n = 0 then m.erase ip else m.set ip n
  | _ => m

/-- `c.listenAddrs[k] = append(c.listenAddrs[k], a)` -/
def laAppend (m : AMap String (List String)) (k a : String) : AMap String (List String) :=
  m.set k ((m.get k).getD [] ++ [a])

/-- removal of the first occurrence of `a` from `listenAddrs[k]`; empty lists are deleted -/
def laRemove (m : AMap String (List String)) (k a : String) : AMap String (List String) :=
  let l := ((m.get k).getD []).erase a
  if l = [] then m.erase k else m.set k l

def mget (ms : AMap Nat (AMap String Nat)) (m : Nat) (ip : String) : Option Nat :=
  match ms.get m with
  | some x => x.get ip
  | none => none

/-- `canUpdateMirror`: true = may update -/
def canUpdateMirror (ms : AMap Nat (AMap String Nat)) (ip : String) (m : Nat) : Bool :=
  (mget ms m ip).isNone

/-- `updateMirror` after a successful `canUpdateMirror` -/
def updateMirror (ms : AMap Nat (AMap String Nat)) (ip : String) (m port : Nat) :
    AMap Nat (AMap String Nat) :=
  ms.set m (((ms.get m).getD []).set ip port)

/-- the mirror clean-up in `remove` (only run for introduced connections) -/
def removeMirror (ms : AMap Nat (AMap String Nat)) (ip : String) (m : Nat) :
    AMap Nat (AMap String Nat) :=
  match ms.get m with
  | some x => let x' := x.erase ip; if x' = [] then ms.erase m else ms.set m x'
  | none => ms

def stepPending (s : State) (a : String) : State × Out :=
  match E.split a with
  | .error e => (s, .err e)
  | .ok (ip, port) =>
    if (getConn s.conns a).isSome then (s, .err "ErrConnectionExists") else
    let c : Conn := ⟨a, .pending, true, 0, port, 0, 0⟩
    ({ s with ipCounts := incCount s.ipCounts ip, conns := c :: s.conns,
              listenAddrs := laAppend s.listenAddrs a a }, .ok)

def stepConnected (s : State) (a : String) (id : Nat) : State × Out :=
  if id = 0 then (s, .err "ErrInvalidGnetID") else
  match E.split a with
  | .error e => (s, .err e)
  | .ok (ip, _) =>
    match getConn s.conns a with
    | none =>
      let c : Conn := ⟨a, .connected, false, 0, 0, id, 0⟩
      ({ s with ipCounts := incCount s.ipCounts ip, conns := c :: s.conns,
                gnetIDs := s.gnetIDs.set id a }, .ok)
    | some c =>
      match c.state with
      | .pending =>
        ({ s with conns := putConn s.conns { c with gnetID := id, state := .connected },
                  gnetIDs := s.gnetIDs.set id a }, .ok)
      | .connected => (s, .err "ErrConnectionAlreadyConnected")
      | .introduced => (s, .err "ErrConnectionAlreadyIntroduced")

def stepIntroduced (s : State) (a : String) (id mirror lport : Nat) : State × Out :=
  if id = 0 then (s, .err "ErrInvalidGnetID") else
  match E.split a with
  | .error e => (s, .err e)
  | .ok (ip, _) =>
    match getConn s.conns a with
    | none => (s, .err "ErrConnectionNotExist")
    | some c =>
      match c.state with
      | .pending => (s, .err "ErrConnectionStateNotConnected")
      | .introduced => (s, .err "ErrConnectionAlreadyIntroduced")
      | .connected =>
        if id ≠ c.gnetID then (s, .err "ErrConnectionGnetIDMismatch") else
        if ¬ canUpdateMirror s.mirrors ip mirror then (s, .err "ErrConnectionIPMirrorExists") else
        let listenPort := if c.outgoing then c.listenPort else lport
        let c' : Conn := { c with state := .introduced, mirror := mirror, listenPort := listenPort }
        let la := if c.outgoing then s.listenAddrs
                  else if c'.listenKey E = "" then s.listenAddrs
                  else laAppend s.listenAddrs (c'.listenKey E) a
        ({ s with mirrors := updateMirror s.mirrors ip mirror listenPort,
                  conns := putConn s.conns c', listenAddrs := la }, .ok)

def stepRemove (s : State) (a : String) (id : Nat) : State × Out :=
  match E.split a with
  | .error e => (s, .err e)
  | .ok (ip, _) =>
    match getConn s.conns a with
    | none => (s, .err "ErrConnectionNotExist")
    | some c =>
      if c.gnetID ≠ id then (s, .err "ErrConnectionGnetIDMismatch") else
      let ms := if c.state = .introduced then removeMirror s.mirrors ip c.mirror else s.mirrors
      let la := if c.listenKey E = "" then s.listenAddrs else laRemove s.listenAddrs (c.listenKey E) a
      ({ conns := delConn s.conns a, mirrors := ms, ipCounts := decCount s.ipCounts ip,
         gnetIDs := s.gnetIDs.erase c.gnetID, listenAddrs := la }, .ok)

def stepModify (s : State) (a : String) (id height : Nat) (mirror lport : Option Nat) : State × Out :=
  match getConn s.conns a with
  | none => (s, .err "ErrConnectionNotExist")
  | some c =>
    if c.gnetID ≠ id then (s, .err "ErrConnectionGnetIDMismatch") else
    if mirror.getD c.mirror ≠ c.mirror then (s, .panic) else
    if lport.getD c.listenPort ≠ c.listenPort then (s, .panic) else
    ({ s with conns := putConn s.conns { c with height := height } }, .ok)

def step (s : State) : Ev → State × Out
  | .pending a => stepPending E s a
  | .connected a id => stepConnected E s a id
  | .introduced a id m p => stepIntroduced E s a id m p
  | .remove a id => stepRemove E s a id
  | .modify a id h m p => stepModify s a id h m p

def run (s : State) : List Ev → State
  | [] => s
  | e :: es => run (step E s e).1 es

/-- Environment assumption of the connection-id map: the gnet pool hands out connection ids from a
counter, so a `connected` event never carries an id that a held connection already has. -/
def EnvOK (s : State) : Ev → Prop
  | .connected _ id => ∀ c ∈ s.conns, c.gnetID ≠ id
  | _ => True

instance (s : State) (e : Ev) : Decidable (EnvOK s e) := by
  cases e <;> unfold EnvOK <;> infer_instance

def EnvOKSeq (s : State) : List Ev → Prop
  | [] => True
  | e :: es => EnvOK s e ∧ EnvOKSeq (step E s e).1 es

/-! ### concrete address functions used by the driver -/

/-- `strconv.ParseUint(s, 10, 16)`: non-empty, decimal digits only, value ≤ 65535 -/
def parsePort (s : String) : Option Nat :=
  if s.isEmpty then none
  else if s.toList.all Char.isDigit then
    let n := s.toList.foldl (fun acc c => acc * 10 + (c.toNat - 48)) 0
    if n ≤ 65535 then some n else none
  else none

/-- `iputil.SplitAddr` = `net.SplitHostPort` + non-empty host + 16-bit decimal port.
Error kinds: `other` (net.AddrError), `ErrMissingIP`, `ErrInvalidPort`. -/
def splitAddr (addr : String) : Except String (String × Nat) :=
  let cs := addr.toList
  -- index of the last ':'
  match (cs.reverse.findIdx? (· == ':')) with
  | none => .error "other"
  | some r =>
    let i := cs.length - 1 - r
    let hostPart := cs.take i
    let port := String.ofList (cs.drop (i + 1))
    let host? : Option (List Char) :=
      match hostPart with
      | '[' :: rest =>
        -- must end with ']' immediately before the last colon, no other brackets inside
        match rest.reverse with
        | ']' :: innerRev =>
          let inner := innerRev.reverse
          if inner.any (fun c => c == '[' || c == ']') then none else some inner
        | _ => none
      | _ =>
        if hostPart.any (fun c => c == ':' || c == '[' || c == ']') then none else some hostPart
    match host? with
    | none => .error "other"
    | some h =>
      if port.toList.any (fun c => c == '[' || c == ']') then .error "other"
      else if h.isEmpty then .error "ErrMissingIP"
      else match parsePort port with
        | none => .error "ErrInvalidPort"
        | some p => .ok (String.ofList h, p)

def joinAddr (ip : String) (port : Nat) : String := ip ++ ":" ++ toString port

def goEnv : Env := ⟨splitAddr, joinAddr⟩

end Sky.C24
