/-
  Sky.C24.Check — the C24 invariants as propositions (`InvCore`, `InvIds`, `TransOK`) and their
  executable finite checks (`invCoreB`, `invIdsB`, `transB`) used by the driver on the
  IMPLEMENTATION's dumped state.  Each `∀ key` clause has a decidable body; the Bool check
  instantiates it at the finitely many keys that occur in the state.  `invCoreB_of`, `invIdsB_of`,
  `transB_of` prove: invariant ⇒ check = true.  Hence a `false` check on the implementation's state
  is a proof that the state violates the invariant (verdict `fail`).  Core Lean only.
-/
import Sky.C24.Model
namespace Sky.C24
variable (E : Env)

def ipCountSpec (cs : List Conn) (ip : String) : Option Nat :=
  let n := cs.countP (fun c => ipOf E c.addr = some ip)
  if n = 0 then none else some n

/-- clause bodies (decidable) -/
def IpClause (s : State) (ip : String) : Prop := s.ipCounts.get ip = ipCountSpec E s.conns ip

def MirrorClause (s : State) (m : Nat) (ip : String) (p : Nat) : Prop :=
  mget s.mirrors m ip = some p ↔
    ∃ c ∈ s.conns, c.state = .introduced ∧ c.mirror = m ∧ ipOf E c.addr = some ip ∧ c.listenPort = p

def ListenClause (s : State) (k a : String) : Prop :=
  a ∈ (s.listenAddrs.get k).getD [] ↔ (k ≠ "" ∧ ∃ c ∈ s.conns, c.addr = a ∧ c.listenKey E = k)

def GnetClause (s : State) (id : Nat) (a : String) : Prop :=
  s.gnetIDs.get id = some a ↔ (id ≠ 0 ∧ ∃ c ∈ s.conns, c.gnetID = id ∧ c.addr = a)

instance (s : State) (ip : String) : Decidable (IpClause E s ip) := by unfold IpClause; infer_instance
instance (s : State) (m : Nat) (ip : String) (p : Nat) : Decidable (MirrorClause E s m ip p) := by
  unfold MirrorClause; infer_instance
instance (s : State) (k a : String) : Decidable (ListenClause E s k a) := by unfold ListenClause; infer_instance
instance (s : State) (id : Nat) (a : String) : Decidable (GnetClause s id a) := by unfold GnetClause; infer_instance

/-- The bookkeeping invariant that holds after EVERY event sequence. -/
structure InvCore (s : State) : Prop where
  /-- `conns` is a map: one record per address -/
  addrNodup : (s.conns.map (·.addr)).Nodup
  /-- every held address splits (so it has an IP) -/
  splitOk : ∀ c ∈ s.conns, (ipOf E c.addr).isSome = true
  /-- a connection has a connection id exactly when it is past the pending state -/
  pendingIff : ∀ c ∈ s.conns, (c.state = .pending ↔ c.gnetID = 0)
  /-- per-IP counts = number of held connections with that IP; no zero entries -/
  ipCounts : ∀ ip, IpClause E s ip
  /-- IP+mirror registry = exactly the introduced connections, with their listen port -/
  mirrors : ∀ m ip p, MirrorClause E s m ip p
  mirrorsNoEmpty : ∀ m, s.mirrors.get m ≠ some []
  /-- two introduced connections never share IP and mirror -/
  mirrorUnique : ∀ a ∈ s.conns, ∀ b ∈ s.conns, a.state = .introduced → b.state = .introduced →
      a.mirror = b.mirror → ipOf E a.addr = ipOf E b.addr → a = b
  /-- listen-address map = held connections grouped by their listen key -/
  listen : ∀ k a, ListenClause E s k a
  listenNodup : ∀ k, ((s.listenAddrs.get k).getD []).Nodup
  listenNoEmpty : ∀ k, s.listenAddrs.get k ≠ some []

/-- The connection-id map; holds after every event sequence that respects `EnvOK`. -/
structure InvIds (s : State) : Prop where
  idsDistinct : ∀ a ∈ s.conns, ∀ b ∈ s.conns, a.gnetID = b.gnetID → a.gnetID ≠ 0 → a = b
  gnetIDs : ∀ id a, GnetClause s id a

/-- `a` was moved to the introduced state by this event, legitimately -/
def IntroducedBy (s : State) (ev : Ev) (a : String) : Prop :=
  match ev with
  | .introduced a' id _ _ => a' = a ∧ ∃ c ∈ s.conns, c.addr = a ∧ c.state = .connected ∧ c.gnetID = id
  | _ => False

instance (s : State) (ev : Ev) (a : String) : Decidable (IntroducedBy s ev a) := by
  cases ev <;> unfold IntroducedBy <;> infer_instance

/-- a connection is introduced after the step only if it already was, or this very event is
`introduced a id …` on a connection in the connected state whose id is `id`. -/
def TransOK (s : State) (ev : Ev) (s' : State) : Prop :=
  ∀ c' ∈ s'.conns, c'.state = .introduced →
    (∃ c ∈ s.conns, c.addr = c'.addr ∧ c.state = .introduced) ∨ IntroducedBy s ev c'.addr

instance (s : State) (ev : Ev) (s' : State) : Decidable (TransOK s ev s') := by
  unfold TransOK; infer_instance

/-! ### finite checks -/

def ips (s : State) : List String := s.ipCounts.keys ++ s.conns.filterMap (fun c => ipOf E c.addr)

def mirrorTriples (s : State) : List (Nat × String × Nat) :=
  s.mirrors.flatMap (fun (m, x) => x.map (fun (ip, p) => (m, ip, p))) ++
  s.conns.filterMap (fun c => (ipOf E c.addr).map (fun ip => (c.mirror, ip, c.listenPort)))

def listenPairs (s : State) : List (String × String) :=
  s.listenAddrs.flatMap (fun (k, l) => l.map (fun a => (k, a))) ++
  s.conns.map (fun c => (c.listenKey E, c.addr))

def gnetPairs (s : State) : List (Nat × String) :=
  s.gnetIDs ++ s.conns.map (fun c => (c.gnetID, c.addr))

def invCoreB (s : State) : Bool :=
  decide ((s.conns.map (·.addr)).Nodup)
  && s.conns.all (fun c => (ipOf E c.addr).isSome)
  && s.conns.all (fun c => decide (c.state = .pending ↔ c.gnetID = 0))
  && (ips E s).all (fun ip => decide (IpClause E s ip))
  && (mirrorTriples E s).all (fun t => decide (MirrorClause E s t.1 t.2.1 t.2.2))
  && s.mirrors.keys.all (fun m => decide (s.mirrors.get m ≠ some []))
  && decide (∀ a ∈ s.conns, ∀ b ∈ s.conns, a.state = .introduced → b.state = .introduced →
      a.mirror = b.mirror → ipOf E a.addr = ipOf E b.addr → a = b)
  && (listenPairs E s).all (fun t => decide (ListenClause E s t.1 t.2))
  && s.listenAddrs.keys.all (fun k => decide (((s.listenAddrs.get k).getD []).Nodup))
  && s.listenAddrs.keys.all (fun k => decide (s.listenAddrs.get k ≠ some []))

def invIdsB (s : State) : Bool :=
  decide (∀ a ∈ s.conns, ∀ b ∈ s.conns, a.gnetID = b.gnetID → a.gnetID ≠ 0 → a = b)
  && (gnetPairs s).all (fun t => decide (GnetClause s t.1 t.2))

def transB (s : State) (ev : Ev) (s' : State) : Bool := decide (TransOK s ev s')

theorem invCoreB_of {s : State} (h : InvCore E s) : invCoreB E s = true := by
  simp only [invCoreB, Bool.and_eq_true, List.all_eq_true, decide_eq_true_eq]
  refine ⟨⟨⟨⟨⟨⟨⟨⟨⟨h.addrNodup, ?_⟩, ?_⟩, ?_⟩, ?_⟩, ?_⟩, h.mirrorUnique⟩, ?_⟩, ?_⟩, ?_⟩
  · exact fun c hc => h.splitOk c hc
  · exact fun c hc => h.pendingIff c hc
  · exact fun ip _ => h.ipCounts ip
  · exact fun t _ => h.mirrors _ _ _
  · exact fun m _ => h.mirrorsNoEmpty m
  · exact fun t _ => h.listen _ _
  · exact fun k _ => h.listenNodup k
  · exact fun k _ => h.listenNoEmpty k

theorem invIdsB_of {s : State} (h : InvIds s) : invIdsB s = true := by
  simp only [invIdsB, Bool.and_eq_true, List.all_eq_true, decide_eq_true_eq]
  exact ⟨h.idsDistinct, fun t _ => h.gnetIDs _ _⟩

theorem transB_of {s s' : State} {ev : Ev} (h : TransOK s ev s') : transB s ev s' = true := by
  simpa [transB] using h

end Sky.C24
