/-
  Sky.C24.AMap — association-list model of a Go `map[K]V` (core Lean only).

  `get` = `m[k]` with presence, `set` = `m[k] = v`, `erase` = `delete(m, k)`.  `set` puts the new
  binding in front and drops every older binding of the key, so `get` after `set`/`erase` obeys the
  usual map laws without a well-formedness side condition.  Iteration order is never observed (the
  driver sorts before printing, as the harness sorts the Go map).
-/
set_option linter.unusedSimpArgs false
namespace Sky.C24

abbrev AMap (κ ν : Type) := List (κ × ν)

namespace AMap
variable {κ ν : Type} [DecidableEq κ]

def get (m : AMap κ ν) (k : κ) : Option ν := List.lookup k m
def erase (m : AMap κ ν) (k : κ) : AMap κ ν := m.filter (fun p => p.1 ≠ k)
def set (m : AMap κ ν) (k : κ) (v : ν) : AMap κ ν := (k, v) :: erase m k
def keys (m : AMap κ ν) : List κ := m.map (·.1)

@[simp] theorem get_nil (k : κ) : get ([] : AMap κ ν) k = none := rfl

theorem get_erase (m : AMap κ ν) (k k' : κ) :
    get (erase m k) k' = if k' = k then none else get m k' := by
  induction m with
  | nil => simp [erase, get]
  | cons p m ih =>
    obtain ⟨a, b⟩ := p
    unfold erase get at *
    by_cases h : a = k
    · subst h
      by_cases h' : k' = a
      · subst h'; simpa using ih
      · have : (k' == a) = false := by simpa using h'
        simp [List.filter_cons, List.lookup_cons, this] at ih ⊢
        simpa [h'] using ih
    · by_cases h' : k' = a
      · subst h'
        have hk : ¬ k' = k := h
        simp [List.filter_cons, List.lookup_cons, h, hk]
      · have : (k' == a) = false := by simpa using h'
        simp [List.filter_cons, List.lookup_cons, h, this]
        simpa using ih

theorem get_set (m : AMap κ ν) (k k' : κ) (v : ν) :
    get (set m k v) k' = if k' = k then some v else get m k' := by
  unfold set
  by_cases h : k' = k
  · subst h; simp [get, List.lookup_cons]
  · have : (k' == k) = false := by simpa using h
    have e := get_erase m k k'
    simp only [h, if_false] at e ⊢
    simp only [get, List.lookup_cons, this] at e ⊢
    exact e

theorem eq_nil_of_get_none (m : AMap κ ν) (h : ∀ k, get m k = none) : m = [] := by
  cases m with
  | nil => rfl
  | cons p m =>
    obtain ⟨a, b⟩ := p
    have := h a
    simp [get, List.lookup_cons] at this

theorem mem_keys_of_get {m : AMap κ ν} {k : κ} {v : ν} (h : get m k = some v) : k ∈ keys m := by
  induction m with
  | nil => simp [get] at h
  | cons p m ih =>
    obtain ⟨a, b⟩ := p
    by_cases e : k = a
    · subst e; simp [keys]
    · have : (k == a) = false := by simpa using e
      simp only [get, List.lookup_cons, this] at h
      have := ih h
      simp only [keys, List.map_cons, List.mem_cons] at this ⊢
      exact Or.inr this

end AMap
end Sky.C24
